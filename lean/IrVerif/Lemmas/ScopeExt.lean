/-
Erasing the extension state of the extended deserializer (`Model/ScopeExt.lean`) gives the core deserializer
(`Model/Scope.lean`) on the erased proto: same store, same tree, same error.
-/
import IrVerif.Model.ScopeExt
namespace IrVerif.Scope

theorem eraseVT_vinfoTableE (vi : List VInfoE) : eraseVT (vinfoTableE vi) = vinfoTable (vi.map VInfoE.erase) := by
  simp [eraseVT, vinfoTableE, vinfoTable, VInfoE.erase, List.map_reverse, List.map_map, Function.comp_def]

theorem deserInputsE_erase (qt : List (Name × SS)) : ∀ (is : List VInfoE) (st : Store) (x : Ext),
    (deserInputsE st x qt is).1 = (deserInputs st (is.map VInfoE.erase)).1 ∧
    (deserInputsE st x qt is).2.2 = (deserInputs st (is.map VInfoE.erase)).2
  | [], st, x => ⟨rfl, rfl⟩
  | i :: is, st, x => by
    simp only [deserInputsE, List.map_cons, deserInputs]
    obtain ⟨a, b⟩ := deserInputsE_erase qt is (st.alloc { name := some i.name, info := i.info }).1
      (((x.merge (st.alloc { name := some i.name, info := i.info }).2 i.mprops).annotate qt
        (st.alloc { name := some i.name, info := i.info }).2 i.name))
    exact ⟨a, by rw [b]; rfl⟩

theorem deserInitsE_erase (vt : List (Name × Info × SS)) (qt : List (Name × SS)) :
    ∀ (ts : List TensorP) (st : Store) (x : Ext) (tbl : Table),
      (deserInitsE st x tbl vt qt ts).1 = (deserInits st tbl (eraseVT vt) ts).1 ∧
      (deserInitsE st x tbl vt qt ts).2.2.1 = (deserInits st tbl (eraseVT vt) ts).2.1 ∧
      (deserInitsE st x tbl vt qt ts).2.2.2 = (deserInits st tbl (eraseVT vt) ts).2.2
  | [], st, x, tbl => ⟨rfl, rfl, rfl⟩
  | t :: ts, st, x, tbl => by
    simp only [deserInitsE, deserInits]
    by_cases hn : t.name = ""
    · simp only [hn, if_true]
      exact deserInitsE_erase vt qt ts st x tbl
    · simp only [hn, if_false]
      cases hl : tbl.lookup t.name with
      | some v =>
        simp only
        obtain ⟨a, b, c⟩ := deserInitsE_erase vt qt ts
          ((st.allocTensor { name := some t.name, data := t.data, ty := t.ty, sh := t.sh }).1.modify v
            fun c => { c with const := some st.nt }) x tbl
        exact ⟨a, b, by rw [c]⟩
      | none =>
        simp only
        obtain ⟨a, b, c⟩ := deserInitsE_erase vt qt ts
          (newInit (st.allocTensor { name := some t.name, data := t.data, ty := t.ty, sh := t.sh }).1 (eraseVT vt) t st.nt)
          (x.newNamed vt qt st.nv t.name) ((t.name, st.nv) :: tbl)
        exact ⟨a, b, by rw [c]⟩

/-- projection of a result of the extended functions: forget the extension state -/
def dropX {α : Type} : Except Err (Store × Ext × α) → Except Err (Store × α)
  | .ok (st, _, a) => .ok (st, a)
  | .error e => .error e

theorem declareOutputsE_erase (vt : List (Name × Info × SS)) (qt : List (Name × SS)) :
    ∀ (ns : List Name) (st : Store) (x : Ext) (tbl : Table),
      dropX (declareOutputsE st x tbl vt qt ns) = declareOutputs st tbl (eraseVT vt) ns
  | [], st, x, tbl => rfl
  | n :: ns, st, x, tbl => by
    simp only [declareOutputsE, declareOutputs]
    by_cases hn : n = ""
    · simp only [hn, if_true]
      exact declareOutputsE_erase vt qt ns st x tbl
    · simp only [hn, if_false]
      cases hl : tbl.lookup n with
      | some v => rfl
      | none => exact declareOutputsE_erase vt qt ns _ _ _

theorem eraseN_outputs (n : NodeE) : (eraseN n).outputs = n.outputs := by
  cases n; rfl

theorem declareNodesE_erase (vt : List (Name × Info × SS)) (qt : List (Name × SS)) :
    ∀ (ns : List NodeE) (st : Store) (x : Ext) (tbl : Table),
      dropX (declareNodesE st x tbl vt qt ns) = declareNodes st tbl (eraseVT vt) (eraseNs ns)
  | [], st, x, tbl => rfl
  | n :: ns, st, x, tbl => by
    simp only [declareNodesE, eraseNs, declareNodes, eraseN_outputs]
    have h1 := declareOutputsE_erase vt qt n.outputs st x tbl
    cases hd : declareOutputsE st x tbl vt qt n.outputs with
    | error e =>
      rw [hd] at h1
      simp only [dropX] at h1
      simp only [← h1, dropX]
    | ok r =>
      obtain ⟨st1, x1, tbl1⟩ := r
      rw [hd] at h1
      simp only [dropX] at h1
      simp only [← h1]
      exact declareNodesE_erase vt qt ns st1 x1 tbl1

theorem resolveInputsE_erase (outer : List Table) (vt : List (Name × Info × SS)) (qt : List (Name × SS)) :
    ∀ (ns : List Name) (st : Store) (x : Ext) (top : Table),
      (resolveInputsE st x top outer vt qt ns).1 = (resolveInputs st top outer (eraseVT vt) ns).1 ∧
      (resolveInputsE st x top outer vt qt ns).2.2.1 = (resolveInputs st top outer (eraseVT vt) ns).2.1 ∧
      (resolveInputsE st x top outer vt qt ns).2.2.2 = (resolveInputs st top outer (eraseVT vt) ns).2.2
  | [], st, x, top => ⟨rfl, rfl, rfl⟩
  | n :: ns, st, x, top => by
    simp only [resolveInputsE, resolveInputs]
    by_cases hn : n = ""
    · simp only [hn, if_true]
      obtain ⟨a, b, c⟩ := resolveInputsE_erase outer vt qt ns st x top
      exact ⟨a, b, by rw [c]⟩
    · simp only [hn, if_false]
      cases hl : resolve n (top :: outer) with
      | some v =>
        simp only
        obtain ⟨a, b, c⟩ := resolveInputsE_erase outer vt qt ns st x top
        exact ⟨a, b, by rw [c]⟩
      | none =>
        simp only
        obtain ⟨a, b, c⟩ := resolveInputsE_erase outer vt qt ns (newNamed st (eraseVT vt) n)
          (x.newNamed vt qt st.nv n) ((n, st.nv) :: top)
        exact ⟨a, b, by rw [c]⟩

theorem deserOutputsE_erase (tbl : Table) : ∀ (os : List VInfoE) (st : Store) (x : Ext),
    (deserOutputsE st x tbl os).1 = (deserOutputs st tbl (os.map VInfoE.erase)).1 ∧
    (deserOutputsE st x tbl os).2.2 = (deserOutputs st tbl (os.map VInfoE.erase)).2
  | [], st, x => ⟨rfl, rfl⟩
  | o :: os, st, x => by
    simp only [deserOutputsE, List.map_cons, deserOutputs]
    have e1 : (VInfoE.erase o).name = o.name := rfl
    have e2 : (VInfoE.erase o).info = o.info := rfl
    simp only [e1, e2]
    cases hl : tbl.lookup o.name with
    | some v =>
      simp only
      obtain ⟨a, b⟩ := deserOutputsE_erase tbl os (st.modify v fun c => { c with info := o.info }) (x.merge v o.mprops)
      exact ⟨a, by rw [b]⟩
    | none =>
      simp only
      obtain ⟨a, b⟩ := deserOutputsE_erase tbl os (st.alloc { name := some o.name, info := o.info }).1
        (x.merge (st.alloc { name := some o.name, info := o.info }).2 o.mprops)
      exact ⟨a, by rw [b]⟩

theorem inputNames_erase (is : List VInfoE) : (is.map VInfoE.erase).map (·.name) = is.map (·.name) := by
  simp [VInfoE.erase, List.map_map, Function.comp_def]

mutual
theorem deserGraphE_erase : ∀ (p : GraphE) (st : Store) (x : Ext) (outer : List Table),
    dropX (deserGraphE st x outer p) = deserGraph st outer (eraseG p)
  | .mk inputs inits vinfo nodes outputs quant, st, x, outer => by
    simp only [deserGraphE, eraseG, deserGraph]
    obtain ⟨i1, i2⟩ := deserInputsE_erase (quantTable quant) inputs st x
    rw [← i1, ← i2]
    simp only [inputTable, inputNames_erase, ← eraseVT_vinfoTableE]
    obtain ⟨j1, j2, j3⟩ := deserInitsE_erase (vinfoTableE vinfo) (quantTable quant) inits
      (deserInputsE st x (quantTable quant) inputs).1 (deserInputsE st x (quantTable quant) inputs).2.1
      ((inputs.map (·.name)).zip (deserInputsE st x (quantTable quant) inputs).2.2).reverse
    rw [← j1, ← j2, ← j3]
    generalize deserInitsE (deserInputsE st x (quantTable quant) inputs).1 (deserInputsE st x (quantTable quant) inputs).2.1
      ((inputs.map (·.name)).zip (deserInputsE st x (quantTable quant) inputs).2.2).reverse (vinfoTableE vinfo)
      (quantTable quant) inits = r2
    obtain ⟨st2, x2, tbl2, initVals⟩ := r2
    simp only
    have h3 := declareNodesE_erase (vinfoTableE vinfo) (quantTable quant) nodes st2 x2 tbl2
    cases hd : declareNodesE st2 x2 tbl2 (vinfoTableE vinfo) (quantTable quant) nodes with
    | error e =>
      rw [hd] at h3
      simp only [dropX] at h3
      simp only [← h3, dropX]
    | ok r3 =>
      obtain ⟨st3, x3, tbl3⟩ := r3
      rw [hd] at h3
      simp only [dropX] at h3
      simp only [← h3]
      have h4 := deserNodesE_erase nodes st3 x3 tbl3 outer (vinfoTableE vinfo) (quantTable quant)
      cases hn : deserNodesE st3 x3 tbl3 outer (vinfoTableE vinfo) (quantTable quant) nodes with
      | error e =>
        rw [hn] at h4
        simp only [dropX] at h4
        simp only [← h4, dropX]
      | ok r4 =>
        obtain ⟨st4, x4, tbl4, ns⟩ := r4
        rw [hn] at h4
        simp only [dropX] at h4
        simp only [← h4]
        obtain ⟨o1, o2⟩ := deserOutputsE_erase tbl4 outputs st4 x4
        rw [← o1, ← o2]
        simp only [dropX]
theorem deserNodesE_erase : ∀ (ns : List NodeE) (st : Store) (x : Ext) (top : Table) (outer : List Table)
    (vt : List (Name × Info × SS)) (qt : List (Name × SS)),
    dropX (deserNodesE st x top outer vt qt ns) = deserNodes st top outer (eraseVT vt) (eraseNs ns)
  | [], st, x, top, outer, vt, qt => rfl
  | n :: ns, st, x, top, outer, vt, qt => by
    simp only [deserNodesE, eraseNs, deserNodes]
    have h1 := deserNodeE_erase n st x top outer vt qt
    cases hd : deserNodeE st x top outer vt qt n with
    | error e =>
      rw [hd] at h1
      simp only [dropX] at h1
      simp only [← h1, dropX]
    | ok r =>
      obtain ⟨st1, x1, top1, nt⟩ := r
      rw [hd] at h1
      simp only [dropX] at h1
      simp only [← h1]
      have h2 := deserNodesE_erase ns st1 x1 top1 outer vt qt
      cases hn : deserNodesE st1 x1 top1 outer vt qt ns with
      | error e =>
        rw [hn] at h2
        simp only [dropX] at h2
        simp only [← h2, dropX]
      | ok r2 =>
        obtain ⟨st2, x2, top2, nts⟩ := r2
        rw [hn] at h2
        simp only [dropX] at h2
        simp only [← h2, dropX]
theorem deserNodeE_erase : ∀ (n : NodeE) (st : Store) (x : Ext) (top : Table) (outer : List Table)
    (vt : List (Name × Info × SS)) (qt : List (Name × SS)),
    dropX (deserNodeE st x top outer vt qt n) = deserNode st top outer (eraseVT vt) (eraseN n)
  | .mk inputs outputs devs subs, st, x, top, outer, vt, qt => by
    simp only [deserNodeE, eraseN, deserNode]
    obtain ⟨k1, k2, k3⟩ := resolveInputsE_erase outer vt qt inputs st x top
    rw [← k1, ← k2, ← k3]
    generalize resolveInputsE st x top outer vt qt inputs = r1
    obtain ⟨st1, x1, top1, ins⟩ := r1
    simp only
    cases hl : lookupOutputs st1 top1 outputs with
    | error e => simp only [dropX]
    | ok r2 =>
      obtain ⟨st2, outs⟩ := r2
      simp only
      have h3 := deserSubsE_erase subs st2 x1 (top1 :: outer)
      cases hs : deserSubsE st2 x1 (top1 :: outer) subs with
      | error e =>
        rw [hs] at h3
        simp only [dropX] at h3
        simp only [← h3, dropX]
      | ok r3 =>
        obtain ⟨st3, x3, gs⟩ := r3
        rw [hs] at h3
        simp only [dropX] at h3
        simp only [← h3, dropX]
theorem deserSubsE_erase : ∀ (gs : List GraphE) (st : Store) (x : Ext) (scopes : List Table),
    dropX (deserSubsE st x scopes gs) = deserSubs st scopes (eraseGs gs)
  | [], st, x, scopes => rfl
  | g :: gs, st, x, scopes => by
    simp only [deserSubsE, eraseGs, deserSubs]
    have h1 := deserGraphE_erase g st x scopes
    cases hd : deserGraphE st x scopes g with
    | error e =>
      rw [hd] at h1
      simp only [dropX] at h1
      simp only [← h1, dropX]
    | ok r =>
      obtain ⟨st1, x1, gt⟩ := r
      rw [hd] at h1
      simp only [dropX] at h1
      simp only [← h1]
      have h2 := deserSubsE_erase gs st1 x1 scopes
      cases hn : deserSubsE st1 x1 scopes gs with
      | error e =>
        rw [hn] at h2
        simp only [dropX] at h2
        simp only [← h2, dropX]
      | ok r2 =>
        obtain ⟨st2, x2, gts⟩ := r2
        rw [hn] at h2
        simp only [dropX] at h2
        simp only [← h2, dropX]
end

/-- **erasure**: the extended deserializer run on `p` and the core deserializer run on the erased proto return the
    same store and tree, or the same error -/
theorem deserializeE_erase (p : GraphE) :
    (match deserializeE p with
      | .ok w => deserialize (eraseG p) = .ok w.core
      | .error e => deserialize (eraseG p) = .error e) := by
  have h := deserGraphE_erase p {} {} []
  simp only [deserializeE, deserialize]
  cases hd : deserGraphE {} {} [] p with
  | error e =>
    rw [hd] at h
    simp only [dropX] at h
    simp only [← h]
  | ok r =>
    obtain ⟨st, x, g⟩ := r
    rw [hd] at h
    simp only [dropX] at h
    simp only [← h, WorldE.core]

/-! ### functions and models -/

theorem deserFInputsE_erase (vt : List (Name × Info × SS)) : ∀ (ns : List Name) (st : Store) (x : Ext),
    (deserFInputsE st x vt ns).1 = (deserFInputs st (eraseVT vt) ns).1 ∧
    (deserFInputsE st x vt ns).2.2 = (deserFInputs st (eraseVT vt) ns).2
  | [], _, _ => ⟨rfl, rfl⟩
  | n :: ns, st, x => by
    simp only [deserFInputsE, deserFInputs]
    obtain ⟨a, b⟩ := deserFInputsE_erase vt ns (newNamed st (eraseVT vt) n) (x.newNamed vt [] st.nv n)
    exact ⟨a, by rw [b]⟩

theorem FuncE.erase_fields (f : FuncE) : f.erase.id = f.id ∧ f.erase.inputs = f.inputs ∧ f.erase.outputs = f.outputs ∧
    f.erase.vinfo = f.vinfo.map VInfoE.erase ∧ f.erase.nodes = eraseNs f.nodes := ⟨rfl, rfl, rfl, rfl, rfl⟩

theorem deserFunctionE_erase (f : FuncE) (st : Store) (x : Ext) :
    dropX (deserFunctionE st x f) = deserFunction st f.erase := by
  simp only [deserFunctionE, deserFunction, FuncE.erase, ← eraseVT_vinfoTableE]
  obtain ⟨a, b⟩ := deserFInputsE_erase (vinfoTableE f.vinfo) f.inputs st x
  rw [← a, ← b]
  generalize deserFInputsE st x (vinfoTableE f.vinfo) f.inputs = r1
  obtain ⟨st1, x1, ins⟩ := r1
  simp only
  have h2 := declareNodesE_erase (vinfoTableE f.vinfo) [] f.nodes st1 x1 (finputTable f.inputs ins)
  cases hd : declareNodesE st1 x1 (finputTable f.inputs ins) (vinfoTableE f.vinfo) [] f.nodes with
  | error e =>
    rw [hd] at h2
    simp only [dropX] at h2
    simp only [← h2, dropX]
  | ok r2 =>
    obtain ⟨st2, x2, tbl2⟩ := r2
    rw [hd] at h2
    simp only [dropX] at h2
    simp only [← h2]
    have h3 := deserNodesE_erase f.nodes st2 x2 tbl2 [] (vinfoTableE f.vinfo) []
    cases hn : deserNodesE st2 x2 tbl2 [] (vinfoTableE f.vinfo) [] f.nodes with
    | error e =>
      rw [hn] at h3
      simp only [dropX] at h3
      simp only [← h3, dropX]
    | ok r3 =>
      obtain ⟨st3, x3, tbl3, ns⟩ := r3
      rw [hn] at h3
      simp only [dropX] at h3
      simp only [← h3]
      cases ho : deserFOutputs tbl3 f.outputs with
      | error e => simp only [dropX]
      | ok outs => simp only [dropX]

/-- projection for the functions dict -/
def dropXF : Except Err (Store × Ext × List (FId × GraphT)) → Except Err (Store × List (FId × GraphT))
  | .ok (st, _, d) => .ok (st, d)
  | .error e => .error e

theorem deserFuncsE_erase : ∀ (fs : List FuncE) (st : Store) (x : Ext) (d : List (FId × GraphT)),
    dropXF (deserFuncsE st x d fs) = deserFuncs st d (fs.map FuncE.erase)
  | [], _, _, _ => rfl
  | f :: fs, st, x, d => by
    simp only [deserFuncsE, List.map_cons, deserFuncs]
    have h1 := deserFunctionE_erase f st x
    cases hd : deserFunctionE st x f with
    | error e =>
      rw [hd] at h1
      simp only [dropX] at h1
      simp only [← h1, dropXF]
    | ok r =>
      obtain ⟨st1, x1, g⟩ := r
      rw [hd] at h1
      simp only [dropX] at h1
      simp only [← h1]
      exact deserFuncsE_erase fs st1 x1 _

/-- **erasure for models with functions** -/
theorem deserializeME_erase (p : ModelE) :
    (match deserializeME p with
      | .ok w => deserializeM (eraseM p) = .ok w.core
      | .error e => deserializeM (eraseM p) = .error e) := by
  simp only [deserializeME, deserializeM, eraseM]
  have h1 := deserGraphE_erase p.graph {} {} []
  cases hd : deserGraphE {} {} [] p.graph with
  | error e =>
    rw [hd] at h1
    simp only [dropX] at h1
    simp only [← h1]
  | ok r =>
    obtain ⟨st, x, g⟩ := r
    rw [hd] at h1
    simp only [dropX] at h1
    simp only [← h1]
    have h2 := deserFuncsE_erase p.funcs st x []
    cases hf : deserFuncsE st x [] p.funcs with
    | error e =>
      rw [hf] at h2
      simp only [dropXF] at h2
      simp only [← h2]
    | ok r2 =>
      obtain ⟨st1, x1, fs⟩ := r2
      rw [hf] at h2
      simp only [dropXF] at h2
      simp only [← h2, MWorldE.core]

end IrVerif.Scope

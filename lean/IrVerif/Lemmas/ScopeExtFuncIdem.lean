/-
The EXTENDED serializer of functions and of models with functions (`serFInputsE`, `serFunctionE`, `serFuncsE`,
`serializeME` of `Model/ScopeExt.lean`): inversion lemmas, "succeeds or a device configuration cannot be written"
on a certified model (`ReloadableME`), the congruence under the round-trip isomorphism (serializing the reloaded
functions gives the same protos; templates `img2_serFunction` / `img2_serFuncs`, with the hypotheses of
`img2E_serNodes`) and the positional form of the device description of the reloaded functions.
-/
import IrVerif.Lemmas.ScopeExtFuncDefs
namespace IrVerif.Scope

/-! ### inversion -/

theorem serFInputsE_ok (V : Nat → ValueS) (x : Ext) : ∀ (ins : List Nat) (ns : List Name) (vis : List VInfoE),
    serFInputsE V x ins = .ok (ns, vis) →
    ns = ins.map (nm V) ∧ (∀ v ∈ ins, (V v).name ≠ none) ∧
    ∀ e, e ∈ vis ↔ ∃ v ∈ ins, shouldCreateE (V v) (x.vmeta v) = true ∧ e = viOfE V x v := by
  intro ins
  induction ins with
  | nil =>
    intro ns vis h
    simp only [serFInputsE, Except.ok.injEq, Prod.mk.injEq] at h
    obtain ⟨rfl, rfl⟩ := h
    exact ⟨rfl, by simp, by simp⟩
  | cons v rest ih =>
    intro ns vis h
    simp only [serFInputsE] at h
    split at h
    · simp at h
    · rename_i n hn
      split at h
      · simp at h
      · rename_i ns' vis' hr
        simp only [Except.ok.injEq, Prod.mk.injEq] at h
        obtain ⟨rfl, rfl⟩ := h
        obtain ⟨a, b, c⟩ := ih ns' vis' hr
        have hnm : nm V v = n := nm_of_name hn
        have hvi : viOfE V x v = ⟨n, (V v).info.emit, ssSorted (x.vmeta v)⟩ := by rw [viOfE, hnm]
        refine ⟨by simp [a, hnm], fun w hw => ?_, fun e => ?_⟩
        · simp only [List.mem_cons] at hw
          rcases hw with rfl | hw
          · rw [hn]; simp
          · exact b w hw
        · by_cases hsc : shouldCreateE (V v) (x.vmeta v) = true
          · simp only [hsc, if_true, List.mem_cons, c e]
            constructor
            · rintro (rfl | ⟨u, hu, h1, h2⟩)
              · exact ⟨v, .inl rfl, hsc, hvi.symm⟩
              · exact ⟨u, .inr hu, h1, h2⟩
            · rintro ⟨u, hu, h1, h2⟩
              rcases hu with rfl | hu
              · left; rw [h2, hvi]
              · exact .inr ⟨u, hu, h1, h2⟩
          · have hf : shouldCreateE (V v) (x.vmeta v) = false := by simpa using hsc
            simp only [hf, Bool.false_eq_true, if_false, c e]
            constructor
            · rintro ⟨u, hu, h1, h2⟩
              exact ⟨u, List.mem_cons_of_mem _ hu, h1, h2⟩
            · rintro ⟨u, hu, h1, h2⟩
              rcases List.mem_cons.mp hu with rfl | hu
              · rw [hf] at h1; cases h1
              · exact ⟨u, hu, h1, h2⟩

theorem serFInputsE_of_names (V : Nat → ValueS) (x : Ext) : ∀ (ins : List Nat), (∀ v ∈ ins, (V v).name ≠ none) →
    ∃ vis, serFInputsE V x ins = .ok (ins.map (nm V), vis) := by
  intro ins
  induction ins with
  | nil => intro _; exact ⟨[], rfl⟩
  | cons v rest ih =>
    intro h
    obtain ⟨vis, hv⟩ := ih (fun w hw => h w (by simp [hw]))
    have hn := name_some_of_ne_none (h v (by simp))
    exact ⟨if shouldCreateE (V v) (x.vmeta v) then ⟨nm V v, (V v).info.emit, ssSorted (x.vmeta v)⟩ :: vis else vis,
      by simp only [serFInputsE, hn, hv, List.map_cons]⟩

theorem serFunctionE_inv {V : Nat → ValueS} {x : Ext} {td : TData} {ver : Option Int} {id : FId} {gid : Nat}
    {ins : List Nat} {inits : List (Name × Nat)} {nodes : List NodeT} {outs : List Nat} {fp : FuncE} {ws : Writes}
    (h : serFunctionE V x td ver (id, .mk gid ins inits nodes outs) = .ok (fp, ws)) :
    ∃ vis1 nps qs vis2, serFInputsE V x ins = .ok (ins.map (nm V), vis1) ∧
      serNodesE V x td ver false [] nodes = .ok (nps, qs, vis2, ws) ∧
      (∀ v ∈ outs, (V v).name ≠ none) ∧
      fp = ⟨id, ins.map (nm V), outs.map (nm V), vis1 ++ vis2, nps⟩ := by
  simp only [serFunctionE] at h
  split at h
  · simp at h
  · rename_i insN vis1 hi
    split at h
    · simp at h
    · rename_i outsN ho
      split at h
      · simp at h
      · rename_i nps qs vis2 ws' hn
        simp only [Except.ok.injEq, Prod.mk.injEq] at h
        obtain ⟨rfl, rfl⟩ := h
        have hi' := liftS_ok hi
        have ho' := serOutNames_ok (liftS_ok ho)
        have := (serFInputsE_ok V x ins insN vis1 hi').1
        subst this
        rw [ho'.1]
        exact ⟨vis1, nps, qs, vis2, hi', hn, ho'.2, rfl⟩

theorem serFuncsE_inv {V : Nat → ValueS} {x : Ext} {td : TData} {ver : Option Int} {f : FId × GraphT}
    {fs : List (FId × GraphT)} {fps : List FuncE} {ws : Writes}
    (h : serFuncsE V x td ver (f :: fs) = .ok (fps, ws)) :
    ∃ fp ws1 fps' ws2, serFunctionE V x td ver f = .ok (fp, ws1) ∧ serFuncsE V x td ver fs = .ok (fps', ws2) ∧
      fps = fp :: fps' ∧ ws = ws1 ++ ws2 := by
  simp only [serFuncsE] at h
  split at h
  · simp at h
  · rename_i fp ws1 h1
    split at h
    · simp at h
    · rename_i fps' ws2 h2
      simp only [Except.ok.injEq, Prod.mk.injEq] at h
      obtain ⟨rfl, rfl⟩ := h
      exact ⟨fp, ws1, fps', ws2, h1, h2, rfl, rfl⟩

/-- the written function carries the identifier of the function -/
theorem serFunctionE_id {V : Nat → ValueS} {x : Ext} {td : TData} {ver : Option Int} :
    ∀ {f : FId × GraphT} {fp : FuncE} {ws : Writes}, serFunctionE V x td ver f = .ok (fp, ws) → fp.id = f.1
  | (id, .mk _ _ _ _ _), fp, ws, h => by
    obtain ⟨_, _, _, _, _, _, _, rfl⟩ := serFunctionE_inv h
    rfl

theorem serFuncsE_ids {V : Nat → ValueS} {x : Ext} {td : TData} {ver : Option Int} :
    ∀ {fs : List (FId × GraphT)} {fps : List FuncE} {ws : Writes}, serFuncsE V x td ver fs = .ok (fps, ws) →
      fps.map (·.id) = fs.map (·.1)
  | [], fps, ws, h => by
    simp only [serFuncsE, Except.ok.injEq, Prod.mk.injEq] at h
    obtain ⟨rfl, _⟩ := h
    rfl
  | f :: fs, fps, ws, h => by
    obtain ⟨fp, ws1, fps', ws2, h1, h2, rfl, _⟩ := serFuncsE_inv h
    simp only [List.map_cons, serFunctionE_id h1, serFuncsE_ids h2]

theorem serFuncsE_length {V : Nat → ValueS} {x : Ext} {td : TData} {ver : Option Int}
    {fs : List (FId × GraphT)} {fps : List FuncE} {ws : Writes} (h : serFuncsE V x td ver fs = .ok (fps, ws)) :
    fps.length = fs.length := by
  have := congrArg List.length (serFuncsE_ids h)
  simpa using this

/-! ### a certified model serializes, or a device configuration cannot be written -/

theorem extF_ser_ok (V : Nat → ValueS) (x : Ext) (td : TData) (ver : Option Int) (id : FId) :
    ∀ (g : GraphT), (replF V g).ok → extF V x g →
      (∃ fp ws, serFunctionE V x td ver (id, g) = .ok (fp, ws)) ∨
      (∃ e, serFunctionE V x td ver (id, g) = .error (.dev e))
  | .mk gid ins inits nodes outs, h, hx => by
    simp only [replF] at h
    obtain ⟨_, hins, _, _, hN, hO⟩ := h
    simp only [extF] at hx
    obtain ⟨vis1, h1⟩ := serFInputsE_of_names V x ins hins
    have h2 := serOutNames_of_names (V := V) (vs := outs) (fun v hv => (hO v hv).1)
    rcases extNs_ser_ok V x td ver nodes [] _ [] false hN hx.2 with ⟨nps, qs, vis, ws, e3⟩ | ⟨e, e3⟩
    · exact .inl ⟨_, _, by simp only [serFunctionE, h1, h2, e3, liftS]; rfl⟩
    · exact .inr ⟨e, by simp only [serFunctionE, h1, h2, e3, liftS]⟩

theorem extFs_ser_ok (V : Nat → ValueS) (x : Ext) (td : TData) (ver : Option Int) :
    ∀ (fs : List (FId × GraphT)), (∀ f ∈ fs, (replF V f.2).ok) → (∀ f ∈ fs, extF V x f.2) →
      (∃ fps ws, serFuncsE V x td ver fs = .ok (fps, ws)) ∨ (∃ e, serFuncsE V x td ver fs = .error (.dev e))
  | [], _, _ => .inl ⟨[], [], rfl⟩
  | f :: fs, h, hx => by
    obtain ⟨id, g⟩ := f
    rcases extF_ser_ok V x td ver id g (h (id, g) (by simp)) (hx (id, g) (by simp)) with ⟨fp, ws1, e1⟩ | ⟨e, e1⟩
    · rcases extFs_ser_ok V x td ver fs (fun f hf => h f (by simp [hf])) (fun f hf => hx f (by simp [hf])) with
        ⟨fps, ws2, e2⟩ | ⟨e, e2⟩
      · exact .inl ⟨_, _, by simp only [serFuncsE, e1, e2]; rfl⟩
      · exact .inr ⟨e, by simp only [serFuncsE, e1, e2]⟩
    · exact .inr ⟨e, by simp only [serFuncsE, e1]⟩

/-- serializing a reloadable extended model with functions does not raise for lack of a name -/
theorem reloadableME_ser (ver : Option Int) (w : MWorldE) (h : ReloadableME w) :
    (∃ w1 Q, serializeME ver w = .ok (w1, Q)) ∨ (∃ e, serializeME ver w = .error (.dev e)) := by
  obtain ⟨⟨hok, hfok, _, _⟩, hext, hfext, _⟩ := h
  rcases extG_ser_ok w.st.vals w.ext w.st.tdata ver w.root [] hok hext with ⟨p, ws1, e1⟩ | ⟨e, e1⟩
  · rcases extFs_ser_ok w.st.vals w.ext w.st.tdata ver w.funcs hfok hfext with ⟨fps, ws2, e2⟩ | ⟨e, e2⟩
    · exact .inl ⟨_, _, by simp only [serializeME, e1, e2]; rfl⟩
    · exact .inr ⟨e, by simp only [serializeME, e1, e2]⟩
  · exact .inr ⟨e, by simp only [serializeME, e1]⟩

/-! ### serializing the reloaded functions -/

theorem img2E_serFInputs {V V' : Nat → ValueS} {x x' : Ext} {A : Assoc} {E EQ : List Nat}
    (H : ExtImg V V' x x' A E EQ) (h : Img V V' (sig A) E)
    (hn : ∀ v ∈ A.map (·.1), (V' (sig A v)).name = (V v).name) :
    ∀ (ins : List Nat) (vis : List VInfoE), (∀ v ∈ ins, v ∈ A.map (·.1)) →
      (∀ v ∈ ins, nameTruthy (V v).name = true → v ∈ E) →
      serFInputsE V x ins = .ok (ins.map (nm V), vis) →
      serFInputsE V' x' (ins.map (sig A)) = .ok (ins.map (nm V), vis) := by
  intro ins
  induction ins with
  | nil => intro vis _ _ h; simpa [serFInputsE] using h
  | cons v rest ih =>
    intro vis hK hE hs
    simp only [serFInputsE] at hs
    split at hs
    · simp at hs
    · rename_i n hnv
      split at hs
      · simp at hs
      · rename_i ns' vis' hr
        simp only [Except.ok.injEq, Prod.mk.injEq, List.map_cons, List.cons.injEq] at hs
        obtain ⟨⟨_, hns⟩, rfl⟩ := hs
        subst hns
        have hk := hK v (by simp)
        have ih' := ih vis' (fun w hw => hK w (by simp [hw])) (fun w hw => hE w (by simp [hw])) hr
        have hname : (V' (sig A v)).name = some n := by rw [hn v hk, hnv]
        have hnm : nm V v = n := nm_of_name hnv
        simp only [List.map_cons, serFInputsE, hname, ih', hnm]
        by_cases ht : nameTruthy (V v).name = true
        · have hvE := hE v (by simp) ht
          simp only [H.shouldCreate h hvE, h.info v hvE, emit_emit, H.sorted v hvE]
        · have hf : nameTruthy (V v).name = false := by simpa using ht
          have h1 : shouldCreateE (V v) (x.vmeta v) = false := by simp [shouldCreateE, hf]
          have h2 : shouldCreateE (V' (sig A v)) (x'.vmeta (sig A v)) = false := by
            simp [shouldCreateE, hn v hk, hf]
          simp [h1, h2]

theorem img2E_serFunction {V V' : Nat → ValueS} {td td' : TData} {A : Assoc} {E EQ : List Nat} {x x' : Ext}
    (s' : Store) (ver : Option Int) (hV' : V' = s'.vals)
    (h : Img V V' (sig A) E)
    (hn : ∀ v ∈ A.map (·.1), (V' (sig A v)).name = (V v).name)
    (hinj : ∀ a ∈ A.map (·.1), ∀ b ∈ A.map (·.1), sig A a = sig A b → a = b)
    (hm : MetaOK2 x x' A E) (hq : QuantOK2 x x' A EQ) (hwf : ExtWF x) :
    ∀ (id : FId) (g g' : GraphT) (fp : FuncE) (ws : Writes), TreeRelG V A g g' → (∀ v ∈ emitF V g, v ∈ E) →
      (∀ v ∈ emitQF V g, v ∈ EQ) → extF V x g →
      ConstImg V V' td td' (sig A) (allInitsG g) → DevSpecNs s' x' fp.nodes g'.nodes →
      serFunctionE V x td ver (id, g) = .ok (fp, ws) → ∃ ws', serFunctionE V' x' td' ver (id, g') = .ok (fp, ws')
  | id, .mk _ ins inits nodes outs, .mk _ ins' inits' nodes' outs', fp, ws, ht, hE, hEQ, hx, hc, hD, hser => by
    have H : ExtImg V V' x x' A E EQ := ExtImg.mk' hn hm hq hwf
    simp only [TreeRelG] at ht
    obtain ⟨rfl, hinK, rfl, _, htn, rfl, houtK⟩ := ht
    obtain ⟨vis1, nps, qs, vis2, hi, hn', houts_n, rfl⟩ := serFunctionE_inv hser
    simp only [extF] at hx
    simp only [emitQF] at hEQ
    simp only [GraphT.nodes] at hD
    have e1 := img2E_serFInputs H h hn ins vis1 hinK
      (fun v hv ht => hE v (by simp only [emitF, List.mem_append, List.mem_filter]; exact .inl (.inl ⟨hv, ht⟩))) hi
    have e2 := img2_serOutNames hn outs houtK houts_n
    obtain ⟨ws', e3⟩ := img2E_serNodes s' ver hV' h hn hinj hm hq hwf nodes nodes' false [] nps qs vis2 ws htn
      (fun _ hv => by simp at hv)
      (fun v hv ht => hE v (by simp only [emitF, List.mem_append, List.mem_filter]; exact .inl (.inr ⟨hv, ht⟩)))
      (fun v hv => hE v (by simp only [emitF, List.mem_append]; exact .inr hv))
      (fun hA => by cases hA) hEQ (extNs_quiet' V x nodes [] _ hx.2)
      (fun kv hkv => hc kv (by simp [allInitsG, hkv])) hD hn'
    simp only [List.map_nil] at e3
    exact ⟨ws', by simp only [serFunctionE, e1, e2, e3, liftS]⟩

theorem img2E_serFuncs {V V' : Nat → ValueS} {td td' : TData} {A : Assoc} {E EQ : List Nat} {x x' : Ext}
    (s' : Store) (ver : Option Int) (hV' : V' = s'.vals)
    (h : Img V V' (sig A) E)
    (hn : ∀ v ∈ A.map (·.1), (V' (sig A v)).name = (V v).name)
    (hinj : ∀ a ∈ A.map (·.1), ∀ b ∈ A.map (·.1), sig A a = sig A b → a = b)
    (hm : MetaOK2 x x' A E) (hq : QuantOK2 x x' A EQ) (hwf : ExtWF x) :
    ∀ (fs gs : List (FId × GraphT)) (fps : List FuncE) (ws : Writes), TreeRelFs V A fs gs →
      (∀ v ∈ fs.flatMap (fun f => emitF V f.2), v ∈ E) →
      (∀ v ∈ fs.flatMap (fun f => emitQF V f.2), v ∈ EQ) → (∀ f ∈ fs, extF V x f.2) →
      ConstImg V V' td td' (sig A) (fs.flatMap fun f => allInitsG f.2) →
      DevSpecFs s' x' fps gs →
      serFuncsE V x td ver fs = .ok (fps, ws) → ∃ ws', serFuncsE V' x' td' ver gs = .ok (fps, ws')
  | [], [], fps, ws, _, _, _, _, _, _, hser => by
    simp only [serFuncsE, Except.ok.injEq, Prod.mk.injEq] at hser
    obtain ⟨rfl, _⟩ := hser
    exact ⟨[], rfl⟩
  | f :: fs, g :: gs, fps, ws, ht, hE, hEQ, hx, hc, hD, hser => by
    simp only [TreeRelFs] at ht
    obtain ⟨fp, ws1, fps', ws2, h1, h2, rfl, _⟩ := serFuncsE_inv hser
    simp only [DevSpecFs] at hD
    obtain ⟨id, fg⟩ := f
    obtain ⟨id', gg⟩ := g
    simp only at ht hD
    obtain ⟨rfl, ht1, ht2⟩ := ht
    obtain ⟨w1, e1⟩ := img2E_serFunction s' ver hV' h hn hinj hm hq hwf id fg gg fp ws1 ht1
      (fun v hv => hE v (by simp [hv])) (fun v hv => hEQ v (by simp [hv])) (hx (id, fg) (by simp))
      (fun kv hkv => hc kv (by simp [hkv])) hD.1 h1
    obtain ⟨w2, e2⟩ := img2E_serFuncs s' ver hV' h hn hinj hm hq hwf fs gs fps' ws2 ht2
      (fun v hv => hE v (by simp only [List.flatMap_cons, List.mem_append]; exact .inr hv))
      (fun v hv => hEQ v (by simp only [List.flatMap_cons, List.mem_append]; exact .inr hv))
      (fun f hf => hx f (by simp [hf]))
      (fun kv hkv => hc kv (by simp only [List.flatMap_cons, List.mem_append]; exact .inr hkv)) hD.2 h2
    exact ⟨_, by simp only [serFuncsE, e1, e2]; rfl⟩
  | [], _ :: _, _, _, ht, _, _, _, _, _, _ => by simp [TreeRelFs] at ht
  | _ :: _, [], _, _, ht, _, _, _, _, _, _ => by simp [TreeRelFs] at ht

/-! ### the positional device description of the reloaded functions -/

theorem devSpecFs_of_mem (s : Store) (x : Ext) : ∀ (fps : List FuncE) (gs : List (FId × GraphT)),
    fps.map (·.id) = gs.map (·.1) → (gs.map (·.1)).Nodup →
    (∀ e ∈ gs, ∃ f ∈ fps, f.id = e.1 ∧ DevSpecNs s x f.nodes e.2.nodes) → DevSpecFs s x fps gs
  | [], [], _, _, _ => by simp [DevSpecFs]
  | f :: fps, g :: gs, hk, hnd, hm => by
    simp only [List.map_cons, List.cons.injEq] at hk
    simp only [List.map_cons, List.nodup_cons] at hnd
    obtain ⟨hk1, hk2⟩ := hk
    obtain ⟨hnd1, hnd2⟩ := hnd
    simp only [DevSpecFs]
    refine ⟨?_, devSpecFs_of_mem s x fps gs hk2 hnd2 (fun e he => ?_)⟩
    · obtain ⟨f', hf', hid, hd⟩ := hm g (by simp)
      simp only [List.mem_cons] at hf'
      rcases hf' with rfl | hf'
      · exact hd
      · exfalso
        apply hnd1
        rw [← hk2, ← hid]
        exact List.mem_map_of_mem (f := fun f : FuncE => f.id) hf'
    · obtain ⟨f', hf', hid, hd⟩ := hm e (by simp [he])
      simp only [List.mem_cons] at hf'
      rcases hf' with rfl | hf'
      · exfalso
        apply hnd1
        rw [← hk1, hid]
        exact List.mem_map_of_mem (f := fun e : FId × GraphT => e.1) he
      · exact ⟨f', hf', hid, hd⟩
  | [], _ :: _, hk, _, _ => by simp at hk
  | _ :: _, [], hk, _, _ => by simp at hk

end IrVerif.Scope

/-
C18: by-name resolution.  `create_value_mapping(graph, include_subgraphs=False)` is a chain of
"insert unless the name is already a key" steps; its lookups are the lookups of the flat list of
(name, value) pairs in the order the code meets them (`nameCandidates`): the first pair with a name wins.
-/
import IrVerif.Lemmas.Extract
namespace IrVerif.Extract

theorem named_append (W : World) (a b : List VId) : named W (a ++ b) = named W a ++ named W b := by
  simp [named, List.filter_append]

theorem named_nil (W : World) : named W [] = [] := rfl

theorem named_cons (W : World) (v : VId) (vs : List VId) :
    named W (v :: vs) = if (W.val v).name == "" then named W vs else ((W.val v).name, v) :: named W vs := by
  unfold named
  by_cases h : (W.val v).name == ""
  · simp [List.filter_cons, h]
  · simp [List.filter_cons, h]

theorem mem_named {W : World} {vs : List VId} {s : String} {v : VId} :
    (s, v) ∈ named W vs ↔ v ∈ vs ∧ (W.val v).name = s ∧ s ≠ "" := by
  unfold named
  simp only [List.mem_map, List.mem_filter, Prod.mk.injEq]
  constructor
  · rintro ⟨a, ⟨ha, hne⟩, rfl, rfl⟩
    refine ⟨ha, rfl, ?_⟩
    simpa using hne
  · rintro ⟨hv, rfl, hne⟩
    exact ⟨v, ⟨hv, by simpa using hne⟩, rfl, rfl⟩

/-- one `setdefault`-like step does to the lookups what appending the pair (when it has a name) does -/
theorem lookup_setDefault (W : World) (m : NameMap) (v : VId) (rest : NameMap) (s : String) :
    (NameMap.setDefault W m v ++ rest).lookup s = (m ++ named W [v] ++ rest).lookup s := by
  unfold NameMap.setDefault
  simp only [named_cons, named_nil]
  by_cases h : (W.val v).name == ""
  · simp [h]
  · simp only [h, if_false, Bool.false_eq_true]
    by_cases h2 : (m.lookup (W.val v).name).isSome
    · simp only [h2, if_true]
      rw [List.lookup_append, List.lookup_append, List.lookup_append]
      by_cases hs : s = (W.val v).name
      · subst hs
        obtain ⟨x, hx⟩ := Option.isSome_iff_exists.mp h2
        simp [hx]
      · have : (s == (W.val v).name) = false := by simpa using hs
        simp [List.lookup_cons, this]
    · simp only [h2, if_false, Bool.false_eq_true]

theorem lookup_foldl_setDefault (W : World) : ∀ (vs : List VId) (m rest : NameMap) (s : String),
    (vs.foldl (NameMap.setDefault W) m ++ rest).lookup s = (m ++ named W vs ++ rest).lookup s
  | [], m, rest, s => by simp [named_nil]
  | v :: vs, m, rest, s => by
    rw [List.foldl_cons, lookup_foldl_setDefault W vs _ rest s]
    have h1 := lookup_setDefault W m v (named W vs ++ rest) s
    have e : named W (v :: vs) = named W [v] ++ named W vs := by
      rw [← named_append]; rfl
    rw [e]
    simpa [List.append_assoc] using h1

/-- the values of one node in the order `create_value_mapping` meets them: inputs, then outputs -/
theorem lookup_nodes (W : World) : ∀ (ns : List NId) (m rest : NameMap) (s : String),
    (ns.foldl (fun m n =>
        let nd := W.nodeD n
        nd.outputs.foldl (NameMap.setDefault W) (nd.ins.foldl (NameMap.setDefault W) m)) m ++ rest).lookup s
      = (m ++ named W (ns.flatMap (fun n => (W.nodeD n).ins ++ (W.nodeD n).outputs)) ++ rest).lookup s
  | [], m, rest, s => by simp [named_nil]
  | n :: ns, m, rest, s => by
    rw [List.foldl_cons, lookup_nodes W ns _ rest s]
    simp only [List.flatMap_cons, named_append]
    have h1 := lookup_foldl_setDefault W (W.nodeD n).outputs
      ((W.nodeD n).ins.foldl (NameMap.setDefault W) m)
      (named W (ns.flatMap (fun n => (W.nodeD n).ins ++ (W.nodeD n).outputs)) ++ rest) s
    have h2 := lookup_foldl_setDefault W (W.nodeD n).ins m
      (named W (W.nodeD n).outputs ++
        (named W (ns.flatMap (fun n => (W.nodeD n).ins ++ (W.nodeD n).outputs)) ++ rest)) s
    simp only [List.append_assoc] at h1 h2 ⊢
    rw [h1, h2]

/-- the lookups of the value mapping are the lookups of the candidate list: the first pair wins -/
theorem lookup_valueMapping (W : World) (T : Target) (s : String) :
    (valueMapping W T).lookup s = (nameCandidates W T).lookup s := by
  unfold valueMapping nameCandidates
  have h1 := lookup_nodes W T.nodes (T.inputs.foldl (NameMap.setDefault W) T.inits) [] s
  have h2 := lookup_foldl_setDefault W T.inputs T.inits
    (named W (T.nodes.flatMap (fun n => (W.nodeD n).ins ++ (W.nodeD n).outputs))) s
  simp only [List.append_nil] at h1
  simp only [named_append]
  rw [h1, h2, List.append_assoc]

theorem lookup_isSome_iff {m : NameMap} {s : String} : (m.lookup s).isSome ↔ ∃ v, (s, v) ∈ m := by
  induction m with
  | nil => simp
  | cons kv t ih =>
    obtain ⟨k, v⟩ := kv
    by_cases h : s = k
    · subst h
      simp [List.lookup_cons]
    · have : (s == k) = false := by simpa using h
      simp only [List.lookup_cons, this, ih, List.mem_cons, Prod.mk.injEq]
      constructor
      · rintro ⟨v', hv'⟩; exact ⟨v', Or.inr hv'⟩
      · rintro ⟨v', (⟨e, _⟩ | hv')⟩
        · exact absurd e h
        · exact ⟨v', hv'⟩

/-- in a list whose keys determine their values, `lookup` finds exactly the member pairs -/
theorem lookup_eq_some_iff_of_functional {m : NameMap}
    (hf : ∀ k v v', (k, v) ∈ m → (k, v') ∈ m → v = v') (s : String) (v : VId) :
    m.lookup s = some v ↔ (s, v) ∈ m := by
  induction m with
  | nil => simp
  | cons kv t ih =>
    obtain ⟨k, v0⟩ := kv
    have hft : ∀ k v v', (k, v) ∈ t → (k, v') ∈ t → v = v' :=
      fun k v v' h h' => hf k v v' (List.mem_cons_of_mem _ h) (List.mem_cons_of_mem _ h')
    by_cases h : s = k
    · subst h
      simp only [List.lookup_cons, BEq.rfl, Option.some.injEq, List.mem_cons, Prod.mk.injEq, true_and]
      constructor
      · intro e; exact Or.inl e.symm
      · rintro (e | hm)
        · exact e.symm
        · exact hf s v0 v List.mem_cons_self (List.mem_cons_of_mem _ hm)
    · have : (s == k) = false := by simpa using h
      simp only [List.lookup_cons, this, ih hft, List.mem_cons, Prod.mk.injEq]
      constructor
      · exact Or.inr
      · rintro (⟨e, _⟩ | hm)
        · exact absurd e h
        · exact hm

theorem namesUnique_of_B {W : World} {T : Target} (h : namesUniqueB W T = true) :
    ∀ k v v', (k, v) ∈ nameCandidates W T → (k, v') ∈ nameCandidates W T → v = v' := by
  intro k v v' hv hv'
  unfold namesUniqueB at h
  have := List.all_eq_true.mp (List.all_eq_true.mp h _ hv) _ hv'
  simpa using this

end IrVerif.Extract

/-
C12 — the identity-keyed transcription of steps 1-4 of `Graph.sort` (`Model/SortIds.lean`):
what step 1 computes, the loop invariant "no node is ever queued twice", and the consequence for
universes that list a node twice.
-/
import IrVerif.Lemmas.SortStable
import IrVerif.Model.SortIds

namespace IrVerif.Sort
open List

/-! ### step 1 -/

theorem addPred_fold (c : Nat) (ps : List Nat) (d : Dicts) :
    (∀ p, (ps.foldl (addPred c) d).depth p = d.depth p + (ps.count p : Int)) ∧
    (∀ x, (ps.foldl (addPred c) d).preds x = if x = c then d.preds x ++ ps else d.preds x) := by
  induction ps generalizing d with
  | nil => exact ⟨fun p => by simp, fun x => by simp⟩
  | cons q qs ih =>
    obtain ⟨h1, h2⟩ := ih (addPred c d q)
    simp only [List.foldl_cons]
    constructor
    · intro p
      rw [h1 p]
      simp only [addPred, List.count_cons]
      by_cases h : p = q
      · subst h; simp; omega
      · have : (q == p) = false := by simp [Ne.symm h]
        simp [h, this]
    · intro x
      rw [h2 x]
      simp only [addPred]
      by_cases h : x = c <;> simp [h]

theorem step1_fold (u l : List Ent) (d : Dicts) :
    (∀ p, (l.foldl (fun d e => (predIds u e).foldl (addPred e.id) d) d).depth p =
      d.depth p + ((l.flatMap (predIds u)).count p : Int)) ∧
    (∀ x, (l.foldl (fun d e => (predIds u e).foldl (addPred e.id) d) d).preds x =
      d.preds x ++ (l.filter (fun e => e.id == x)).flatMap (predIds u)) := by
  induction l generalizing d with
  | nil => exact ⟨fun p => by simp, fun x => by simp⟩
  | cons e es ih =>
    obtain ⟨h1, h2⟩ := ih ((predIds u e).foldl (addPred e.id) d)
    obtain ⟨a1, a2⟩ := addPred_fold e.id (predIds u e) d
    simp only [List.foldl_cons]
    constructor
    · intro p
      rw [h1 p, a1 p]
      simp only [List.flatMap_cons, List.count_append]
      push_cast
      omega
    · intro x
      rw [h2 x, a2 x]
      simp only [List.filter_cons]
      by_cases h : x = e.id
      · subst h; simp
      · have : (e.id == x) = false := by simp [Ne.symm h]
        simp [h, this]

/-- `node_depth[p]` after step 1: the number of `add_predecessor(_, p)` calls that got through -/
theorem step1_depth (u : List Ent) (p : Nat) :
    (step1 u).depth p = ((u.flatMap (predIds u)).count p : Int) := by
  have := (step1_fold u u ⟨fun _ => 0, fun _ => []⟩).1 p
  simpa [step1] using this

/-- `node_predecessors[x]` after step 1: one copy of the node's predecessor list per occurrence
    of the node in `nodes` -/
theorem step1_preds (u : List Ent) (x : Nat) :
    (step1 u).preds x = (u.filter (fun e => e.id == x)).flatMap (predIds u) := by
  have := (step1_fold u u ⟨fun _ => 0, fun _ => []⟩).2 x
  simpa [step1] using this

theorem mem_predIds {u : List Ent} {e : Ent} {p : Nat} (h : p ∈ predIds u e) : p ∈ idsOf u := by
  have : inU u p = true := by
    simp only [predIds, List.mem_append, List.mem_filter] at h
    rcases h with h | h <;> exact h.2
  simp only [inU, List.any_eq_true, beq_iff_eq] at this
  obtain ⟨e', he', rfl⟩ := this
  exact List.mem_map.2 ⟨e', he', rfl⟩

theorem step1_preds_sub (u : List Ent) (x p : Nat) (h : p ∈ (step1 u).preds x) : p ∈ idsOf u := by
  rw [step1_preds] at h
  obtain ⟨e, _, he⟩ := List.mem_flatMap.1 h
  exact mem_predIds he

/-! ### the loop: no node is queued twice -/

/-- the nodes that are in the queue or were popped -/
def seen (h : List (Nat × Nat)) (sorted : List Nat) : List Nat := h.map Prod.snd ++ sorted

/-- loop invariant: a node is in the queue or popped at most once, its counter is `<= 0` from the
    moment it is queued, and it is a node of the universe -/
structure InvD (u : List Ent) (depth : Nat → Int) (h : List (Nat × Nat)) (sorted : List Nat) : Prop where
  nodup : (seen h sorted).Nodup
  nonpos : ∀ p ∈ seen h sorted, depth p ≤ 0
  sub : ∀ p ∈ seen h sorted, p ∈ idsOf u

theorem relaxD_pos (idx : Nat → Nat) (d : Nat → Int) (h : List (Nat × Nat)) (p : Nat) (hz : d p - 1 = 0) :
    relaxD idx (d, h) p = (fun x => if x = p then d x - 1 else d x, (idx p, p) :: h) := by
  simp [relaxD, hz]

theorem relaxD_neg (idx : Nat → Nat) (d : Nat → Int) (h : List (Nat × Nat)) (p : Nat) (hz : d p - 1 ≠ 0) :
    relaxD idx (d, h) p = (fun x => if x = p then d x - 1 else d x, h) := by
  simp [relaxD, hz]

theorem relaxD_fold {u : List Ent} (idx : Nat → Nat) (sorted : List Nat) (ps : List Nat)
    (hps : ∀ p ∈ ps, p ∈ idsOf u) (d : Nat → Int) (h : List (Nat × Nat)) (hinv : InvD u d h sorted) :
    InvD u (ps.foldl (relaxD idx) (d, h)).1 (ps.foldl (relaxD idx) (d, h)).2 sorted := by
  induction ps generalizing d h with
  | nil => exact hinv
  | cons p ps ih =>
    simp only [List.foldl_cons]
    have hp := hps p (by simp)
    have key : InvD u (relaxD idx (d, h) p).1 (relaxD idx (d, h) p).2 sorted := by
      by_cases hz : d p - 1 = 0
      · -- the counter reaches 0: `p` is queued now, so it was not seen before
        rw [relaxD_pos idx d h p hz]
        have hnew : p ∉ seen h sorted := fun hm => by have := hinv.nonpos p hm; omega
        refine ⟨?_, ?_, ?_⟩
        · show (p :: seen h sorted).Nodup
          exact List.nodup_cons.2 ⟨hnew, hinv.nodup⟩
        · intro q hq
          have hq' : q = p ∨ q ∈ seen h sorted := by simpa [seen] using hq
          by_cases hqp : q = p
          · subst hqp; simp; omega
          · rcases hq' with h1 | h1
            · exact absurd h1 hqp
            · simp [hqp]; exact hinv.nonpos q h1
        · intro q hq
          have hq' : q = p ∨ q ∈ seen h sorted := by simpa [seen] using hq
          rcases hq' with rfl | h1
          · exact hp
          · exact hinv.sub q h1
      · rw [relaxD_neg idx d h p hz]
        refine ⟨hinv.nodup, ?_, hinv.sub⟩
        intro q hq
        by_cases hqp : q = p
        · subst hqp; have := hinv.nonpos q hq; simp; omega
        · simp [hqp]; exact hinv.nonpos q hq
    exact ih (fun q hq => hps q (List.mem_cons_of_mem _ hq)) _ _ key

theorem maxKey_mem : ∀ {l : List (Nat × Nat)} {x : Nat × Nat}, maxKey l = some x → x ∈ l := by
  intro l
  induction l with
  | nil => intro x h; simp [maxKey] at h
  | cons a as ih =>
    intro x h
    simp only [maxKey] at h
    cases hm : maxKey as with
    | none => simp [hm] at h; simp [h]
    | some m =>
      simp only [hm, Option.some.injEq] at h
      by_cases hc : m.1 ≤ a.1
      · simp [hc] at h; simp [h]
      · simp [hc] at h; subst h; exact List.mem_cons_of_mem _ (ih hm)

theorem maxKey_none {l : List (Nat × Nat)} (h : maxKey l = none) : l = [] := by
  cases l with
  | nil => rfl
  | cons a as => simp only [maxKey] at h; cases hm : maxKey as <;> simp [hm] at h

theorem stepD_inv {u : List Ent} {preds : Nat → List Nat} (idx : Nat → Nat)
    (hpreds : ∀ x, ∀ p ∈ preds x, p ∈ idsOf u) {s s' : DState}
    (hinv : InvD u s.depth s.heap s.sorted) (hs : stepD preds idx s = some s') :
    InvD u s'.depth s'.heap s'.sorted ∧ s'.sorted.length = s.sorted.length + 1 := by
  simp only [stepD] at hs
  cases hm : maxKey s.heap with
  | none => simp [hm] at hs
  | some x =>
    simp only [hm, Option.some.injEq] at hs
    subst hs
    refine ⟨?_, by simp⟩
    apply relaxD_fold idx (x.2 :: s.sorted) (preds x.2) (hpreds x.2)
    -- moving `x` from the queue to the popped list
    have hperm : (seen (s.heap.erase x) (x.2 :: s.sorted)).Perm (seen s.heap s.sorted) := by
      have h1 : s.heap.Perm (x :: s.heap.erase x) := List.perm_cons_erase (maxKey_mem hm)
      have h2 := (h1.map Prod.snd).append_right s.sorted
      simp only [seen, List.map_cons, List.cons_append] at h2 ⊢
      exact (List.perm_middle).trans h2.symm
    exact ⟨hperm.nodup_iff.2 hinv.nodup, fun p hp => hinv.nonpos p (hperm.subset hp),
      fun p hp => hinv.sub p (hperm.subset hp)⟩

theorem loopD_inv {u : List Ent} {preds : Nat → List Nat} (idx : Nat → Nat)
    (hpreds : ∀ x, ∀ p ∈ preds x, p ∈ idsOf u) (f : Nat) {s : DState}
    (hinv : InvD u s.depth s.heap s.sorted) :
    InvD u (loopD preds idx f s).depth (loopD preds idx f s).heap (loopD preds idx f s).sorted ∧
    ((loopD preds idx f s).heap = [] ∨ (loopD preds idx f s).sorted.length = s.sorted.length + f) := by
  induction f generalizing s with
  | zero => exact ⟨hinv, Or.inr rfl⟩
  | succ f ih =>
    simp only [loopD]
    cases hs : stepD preds idx s with
    | none =>
      refine ⟨hinv, Or.inl ?_⟩
      simp only [stepD] at hs
      cases hm : maxKey s.heap with
      | none => exact maxKey_none hm
      | some x => simp [hm] at hs
    | some s' =>
      obtain ⟨hinv', hlen⟩ := stepD_inv idx hpreds hinv hs
      obtain ⟨h1, h2⟩ := ih hinv'
      refine ⟨h1, ?_⟩
      rcases h2 with h2 | h2
      · exact Or.inl h2
      · exact Or.inr (by rw [h2, hlen]; omega)

/-- a filter that only lets through elements occurring once yields distinct elements -/
theorem nodup_filter_of_count {l : List Nat} {P : Nat → Bool}
    (h : ∀ x ∈ l, P x = true → l.count x ≤ 1) : (l.filter P).Nodup := by
  rw [List.nodup_iff_count_le_one]
  intro a
  by_cases ha : a ∈ l.filter P
  · have := List.mem_filter.1 ha
    have hc := h a this.1 this.2
    exact Nat.le_trans (List.Sublist.count_le a List.filter_sublist) hc
  · rw [List.count_eq_zero_of_not_mem ha]; omega

/-- **no node is ever queued twice, and with a duplicated node the cycle test fails.**
    `hown`: every node listed twice is a direct node of an attribute graph of some node of the
    universe (true of every universe `RecursiveGraphIterator` produces from a root graph whose own
    nodes are listed once). -/
theorem kahnIds_inv (u : List Ent)
    (hown : ∀ p, 2 ≤ (idsOf u).count p → ∃ o ∈ u, p ∈ o.subNodes) :
    InvD u (kahnIds u).depth (kahnIds u).heap (kahnIds u).sorted ∧
    ((kahnIds u).heap = [] ∨ (kahnIds u).sorted.length = u.length) := by
  have hpreds : ∀ x, ∀ p ∈ (step1 u).preds x, p ∈ idsOf u := step1_preds_sub u
  have hinit : InvD u (step1 u).depth (initHeapD u (step1 u).depth (nodeIndex u)) [] := by
    have hids : (initHeapD u (step1 u).depth (nodeIndex u)).map Prod.snd =
        (idsOf u).filter (fun p => (step1 u).depth p == 0) := by
      simp only [initHeapD, List.map_map, idsOf, List.filter_map]
      rfl
    refine ⟨?_, ?_, ?_⟩
    · simp only [seen, List.append_nil, hids]
      apply nodup_filter_of_count
      intro p hp hz
      by_contra hc
      obtain ⟨o, ho, hpo⟩ := hown p (by omega)
      -- `p` is a predecessor of its owner, so its counter is positive
      have hin : p ∈ predIds u o := by
        simp only [predIds, List.mem_append, List.mem_filter]
        refine Or.inr ⟨hpo, ?_⟩
        simp only [inU, List.any_eq_true, beq_iff_eq]
        obtain ⟨e, he, rfl⟩ := List.mem_map.1 hp
        exact ⟨e, he, rfl⟩
      have hcnt : 0 < (u.flatMap (predIds u)).count p :=
        List.count_pos_iff.2 (List.mem_flatMap.2 ⟨o, ho, hin⟩)
      have := step1_depth u p
      simp only [beq_iff_eq] at hz
      omega
    · intro p hp
      simp only [seen, List.append_nil, hids, List.mem_filter, beq_iff_eq] at hp
      omega
    · intro p hp
      simp only [seen, List.append_nil, hids, List.mem_filter] at hp
      exact hp.1
  have := loopD_inv (nodeIndex u) hpreds u.length (s := ⟨(step1 u).depth, initHeapD u (step1 u).depth (nodeIndex u), []⟩) hinit
  simpa [kahnIds] using this

theorem kahnIds_sorted_lt (u : List Ent) (hdup : ¬ (idsOf u).Nodup)
    (hown : ∀ p, 2 ≤ (idsOf u).count p → ∃ o ∈ u, p ∈ o.subNodes) :
    (kahnIds u).sorted.length < u.length := by
  obtain ⟨hinv, _⟩ := kahnIds_inv u hown
  have hnd : (kahnIds u).sorted.Nodup := (List.nodup_append.1 hinv.nodup).2.1
  have hsub : (kahnIds u).sorted ⊆ idsOf u := fun p hp => hinv.sub p (List.mem_append_right _ hp)
  have hsp := List.subperm_of_subset hnd hsub
  have hle := hsp.length_le
  simp only [idsOf, List.length_map] at hle
  by_contra hc
  have hperm := hsp.perm_of_length_le (by simp only [idsOf, List.length_map]; omega)
  exact hdup (hperm.nodup_iff.1 hnd)

/-! ### distinct identities: the identity-keyed loop is the position-keyed loop -/

attribute [-simp] List.getD_eq_getElem?_getD

theorem filter_id_single : ∀ {u : List Ent}, (idsOf u).Nodup → ∀ {e : Ent}, e ∈ u →
    u.filter (fun e' => e'.id == e.id) = [e] := by
  intro u
  induction u with
  | nil => intro _ e he; simp at he
  | cons a as ih =>
    intro hnd e he
    simp only [idsOf, List.map_cons, List.nodup_cons] at hnd
    simp only [List.filter_cons]
    rcases List.mem_cons.1 he with rfl | h
    · have : as.filter (fun e' => e'.id == e.id) = [] := by
        rw [List.filter_eq_nil_iff]
        intro x hx
        simp only [beq_iff_eq]
        intro hc
        exact hnd.1 (List.mem_map.2 ⟨x, hx, hc⟩)
      simp [this]
    · have hne : (a.id == e.id) = false := by
        simp only [beq_eq_false_iff_ne, ne_eq]
        intro hc
        exact hnd.1 (List.mem_map.2 ⟨e, h, hc.symm⟩)
      simp only [hne]
      exact ih hnd.2 h

section refine
variable {u : List Ent} (hnd : (idsOf u).Nodup)
include hnd

theorem idAt_inj {i j : Nat} (hi : i < u.length) (hj : j < u.length) (h : idAt u i = idAt u j) : i = j := by
  have a := at_of_lt hi
  have b := at_of_lt hj
  rw [idAt_at a, idAt_at b] at h
  exact At.inj hnd a b h

theorem gidOfId_at {i : Nat} {e : Ent} (h : At u i e) : gidOfId u e.id = e.gid := by
  have hf : u.find? (fun e' => e'.id == e.id) = some e := by
    have := filter_id_single hnd h.mem
    have h2 : (u.filter (fun e' => e'.id == e.id)).head? = some e := by rw [this]; rfl
    rwa [List.head?_filter] at h2
  simp [gidOfId, hf]

theorem nodeIndex_at {i : Nat} (hi : i < u.length) : nodeIndex u (idAt u i) = i := by
  have key : ∀ k, k ≤ u.length → ∀ j, j < k →
      ((List.range k).foldl (fun f i => match u[i]? with
        | some e => fun x => if x = e.id then i else f x
        | none => f) (fun _ => 0)) (idAt u j) = j := by
    intro k
    induction k with
    | zero => intro _ j hj; omega
    | succ k ih =>
      intro hk j hj
      rw [List.range_succ, List.foldl_append]
      simp only [List.foldl_cons, List.foldl_nil]
      have hk' : k < u.length := by omega
      rw [at_of_lt hk']
      simp only
      by_cases hjk : j = k
      · subst hjk
        simp [idAt_at (at_of_lt hk')]
      · have hj' : j < k := by omega
        have hne : idAt u j ≠ (u[k]).id := by
          intro hc
          rw [← idAt_at (at_of_lt hk')] at hc
          exact hjk (idAt_inj hnd (by omega) hk' hc)
        simp only [hne, if_false]
        exact ih (by omega) j hj'
  exact key u.length (Nat.le_refl _) i hi

omit hnd in
theorem inU_iff (p : Nat) : inU u p = (indexOfId u p).isSome := by
  simp only [inU, indexOfId]
  cases h : List.findIdx? (fun e => e.id == p) u with
  | none =>
    rw [List.findIdx?_eq_none_iff] at h
    simp only [Option.isSome_none, List.any_eq_false]
    intro e he; simpa using h e he
  | some i =>
    obtain ⟨hi, hp, _⟩ := List.findIdx?_eq_some_iff_getElem.1 h
    simp only [Option.isSome_some, List.any_eq_true]
    exact ⟨u[i], List.getElem_mem hi, hp⟩

omit hnd in
theorem idAt_indexOfId {p i : Nat} (h : indexOfId u p = some i) : idAt u i = p := by
  obtain ⟨e, he, hid⟩ := indexOfId_some h
  rw [idAt_at he, hid]

omit hnd in
theorem predIds_eq (e : Ent) : predIds u e = (predsOfEnt u e).map (idAt u) := by
  simp only [predIds, predsOfEnt, List.map_append]
  congr 1
  · induction e.inputs with
    | nil => rfl
    | cons o os ih =>
      cases o with
      | none => simpa using ih
      | some p =>
        simp only [List.filterMap_cons, Option.bind_some, List.filter_cons, inU_iff]
        cases h : indexOfId u p with
        | none => simpa using ih
        | some i =>
          simp only [Option.isSome_some, if_true, List.map_cons, idAt_indexOfId h]
          rw [← ih]
  · induction e.subNodes with
    | nil => rfl
    | cons p ps ih =>
      simp only [List.filterMap_cons, List.filter_cons, inU_iff]
      cases h : indexOfId u p with
      | none => simpa using ih
      | some i =>
        simp only [Option.isSome_some, if_true, List.map_cons, idAt_indexOfId h]
        rw [← ih]

theorem step1_preds_at {i : Nat} (hi : i < u.length) :
    (step1 u).preds (idAt u i) = (predsAt u i).map (idAt u) := by
  have a := at_of_lt hi
  rw [step1_preds, idAt_at a, filter_id_single hnd a.mem]
  have : predsAt u i = predsOfEnt u u[i] := by
    have h' : u[i]? = some u[i] := a
    simp [predsAt, h']
  simp [this, predIds_eq]

theorem count_map_idAt (l : List Nat) (hl : ∀ x ∈ l, x < u.length) {v : Nat} (hv : v < u.length) :
    (l.map (idAt u)).count (idAt u v) = l.count v := by
  induction l with
  | nil => rfl
  | cons a as ih =>
    have ha : a < u.length := hl a (by simp)
    simp only [List.map_cons, List.count_cons, ih (fun x hx => hl x (List.mem_cons_of_mem _ hx))]
    by_cases h : a = v
    · subst h; simp
    · have : idAt u a ≠ idAt u v := fun hc => h (idAt_inj hnd ha hv hc)
      simp [h, this]

omit hnd in
theorem flatMap_predIds (is : List Nat) (his : ∀ i ∈ is, i < u.length) :
    (is.filterMap (fun i => u[i]?)).flatMap (predIds u) =
      is.flatMap (fun c => (predsAt u c).map (idAt u)) := by
  induction is with
  | nil => rfl
  | cons i is ih =>
    have hi := his i (by simp)
    have h' : u[i]? = some u[i] := at_of_lt hi
    simp only [List.filterMap_cons, h', List.flatMap_cons, ih (fun j hj => his j (List.mem_cons_of_mem _ hj))]
    congr 1
    simp [predsAt, h', predIds_eq]

theorem step1_depth_at {v : Nat} (hv : v < u.length) :
    (step1 u).depth (idAt u v) = ((initDepth u.length (predsAt u)).getD v 0 : Int) := by
  rw [step1_depth, (initDepth_spec u.length (predsAt u)).2 v hv]
  congr 1
  have hu : u.flatMap (predIds u) = (List.range u.length).flatMap (fun c => (predsAt u c).map (idAt u)) := by
    have := flatMap_predIds (u := u) (List.range u.length) (fun i hi => List.mem_range.1 hi)
    rwa [filterMap_range] at this
  rw [hu]
  have hdeg : deg u.length (predsAt u) [] v = ((List.range u.length).map (fun c => (predsAt u c).count v)).sum := by
    simp [deg]
  rw [hdeg]
  have gen : ∀ is : List Nat, (∀ i ∈ is, i < u.length) →
      (is.flatMap (fun c => (predsAt u c).map (idAt u))).count (idAt u v) =
        (is.map (fun c => (predsAt u c).count v)).sum := by
    intro is
    induction is with
    | nil => intro _; rfl
    | cons i is ih =>
      intro his
      simp only [List.flatMap_cons, List.count_append, List.map_cons, List.sum_cons,
        ih (fun j hj => his j (List.mem_cons_of_mem _ hj))]
      rw [count_map_idAt hnd _ (predsAt_lt u i (his i (by simp))) hv]
  exact gen _ (fun i hi => List.mem_range.1 hi)

/-- the queue / popped list / counters of the identity-keyed state are those of the
    position-keyed state, positions read as identities -/
structure Sim (u : List Ent) (s : KState) (d : DState) : Prop where
  sorted : d.sorted = s.out.map (idAt u)
  heap : d.heap = s.heap.map (fun i => (i, idAt u i))
  depth : ∀ v, v < u.length → d.depth (idAt u v) = (s.depth.getD v 0 : Int)

omit hnd in
theorem maxKey_map (l : List Nat) :
    maxKey (l.map (fun i => (i, idAt u i))) = (maxOf l).map (fun i => (i, idAt u i)) := by
  induction l with
  | nil => rfl
  | cons a as ih =>
    simp only [List.map_cons, maxKey, maxOf, ih]
    cases maxOf as with
    | none => rfl
    | some m =>
      simp only [Option.map_some]
      by_cases h : m ≤ a <;> simp [h]

theorem relax_sim (ps : List Nat) (hps : ∀ p ∈ ps, p < u.length) (dl hl : List Nat)
    (df : Nat → Int) (hle : ∀ v, ps.count v ≤ dl.getD v 0)
    (hd : ∀ v, v < u.length → df (idAt u v) = (dl.getD v 0 : Int)) :
    ((ps.map (idAt u)).foldl (relaxD (nodeIndex u)) (df, hl.map (fun i => (i, idAt u i)))).2 =
      (ps.foldl relax1 (dl, hl)).2.map (fun i => (i, idAt u i)) ∧
    ∀ v, v < u.length →
      ((ps.map (idAt u)).foldl (relaxD (nodeIndex u)) (df, hl.map (fun i => (i, idAt u i)))).1 (idAt u v) =
        ((ps.foldl relax1 (dl, hl)).1.getD v 0 : Int) := by
  induction ps generalizing dl hl df with
  | nil => exact ⟨rfl, hd⟩
  | cons p ps ih =>
    have hp : p < u.length := hps p (by simp)
    have hpc : ps.count p + 1 ≤ dl.getD p 0 := by
      have := hle p; simpa [List.count_cons] using this
    have hplt : p < dl.length := getD_pos_lt dl p (by omega)
    -- the two states after one relax
    let d1 := dl.set p (dl.getD p 0 - 1)
    let f1 : Nat → Int := fun x => if x = idAt u p then df x - 1 else df x
    have hd1 : ∀ v, d1.getD v 0 = if p = v then dl.getD p 0 - 1 else dl.getD v 0 := by
      intro v; simp only [d1, getD_set_eq]; by_cases h : p = v
      · subst h; simp [hplt]
      · simp [h]
    have hf1 : ∀ v, v < u.length → f1 (idAt u v) = (d1.getD v 0 : Int) := by
      intro v hv
      simp only [f1, hd1]
      by_cases h : p = v
      · subst h; simp only [if_true]; rw [hd p hp]; omega
      · have : idAt u v ≠ idAt u p := fun hc => h (idAt_inj hnd hv hp hc).symm
        simp only [this, h, if_false]; exact hd v hv
    have hle1 : ∀ v, ps.count v ≤ d1.getD v 0 := by
      intro v; rw [hd1]; by_cases h : p = v
      · subst h; simp; omega
      · have := hle v
        have hb : (p == v) = false := by simp [h]
        simp [List.count_cons, hb] at this; simp [h]; exact this
    have hzero : (f1 (idAt u p) = 0) ↔ (d1.getD p 0 = 0) := by
      rw [hf1 p hp]; omega
    simp only [List.map_cons, List.foldl_cons]
    by_cases hz : d1.getD p 0 = 0
    · have hstepL : relax1 (dl, hl) p = (d1, p :: hl) := by
        show (if (d1.getD p 0 == 0) = true then (d1, p :: hl) else (d1, hl)) = (d1, p :: hl)
        simp [hz]
      have hstepD : relaxD (nodeIndex u) (df, hl.map (fun i => (i, idAt u i))) (idAt u p) =
          (f1, (p :: hl).map (fun i => (i, idAt u i))) := by
        have : df (idAt u p) - 1 = 0 := by have := hzero.2 hz; simpa [f1] using this
        rw [relaxD_pos _ _ _ _ this, nodeIndex_at hnd hp]
        rfl
      rw [hstepL, hstepD]
      exact ih (fun q hq => hps q (List.mem_cons_of_mem _ hq)) d1 (p :: hl) f1 hle1 hf1
    · have hstepL : relax1 (dl, hl) p = (d1, hl) := by
        show (if (d1.getD p 0 == 0) = true then (d1, p :: hl) else (d1, hl)) = (d1, hl)
        simp [hz]
      have hstepD : relaxD (nodeIndex u) (df, hl.map (fun i => (i, idAt u i))) (idAt u p) =
          (f1, hl.map (fun i => (i, idAt u i))) := by
        have : df (idAt u p) - 1 ≠ 0 := by
          intro hc; apply hz; apply hzero.1; simpa [f1] using hc
        rw [relaxD_neg _ _ _ _ this]
      rw [hstepL, hstepD]
      exact ih (fun q hq => hps q (List.mem_cons_of_mem _ hq)) d1 hl f1 hle1 hf1

theorem step_sim {s : KState} {d : DState} (hsim : Sim u s d)
    (hinv : Inv u.length (predsAt u) s) :
    match step (predsAt u) s with
    | none => stepD (step1 u).preds (nodeIndex u) d = none
    | some s' => ∃ d', stepD (step1 u).preds (nodeIndex u) d = some d' ∧ Sim u s' d' := by
  have hmk := maxKey_map (u := u) s.heap
  rw [← hsim.heap] at hmk
  cases hm : maxOf s.heap with
  | none =>
    simp only [step, hm]
    simp only [hm, Option.map_none] at hmk
    simp [stepD, hmk]
  | some x =>
    simp only [step, hm]
    simp only [hm, Option.map_some] at hmk
    obtain ⟨hxh, _⟩ := maxOf_some hm
    have hrdy : Ready u.length (predsAt u) s.out x := (hinv.hiff x).1 hxh
    have hxn := hrdy.1
    have hle : ∀ v, (predsAt u x).count v ≤ s.depth.getD v 0 := by
      intro v
      by_cases hv : v < u.length
      · rw [hinv.dval v hv, deg_cons u.length (predsAt u) s.out x v hxn hrdy.2.1]; omega
      · have : v ∉ predsAt u x := fun hc => hv (predsAt_lt u x hxn v hc)
        rw [List.count_eq_zero_of_not_mem this]; omega
    have hinj : Function.Injective (fun i : Nat => (i, idAt u i)) := fun a b h => by
      simpa using congrArg Prod.fst h
    have herase : d.heap.erase (x, idAt u x) = (s.heap.erase x).map (fun i => (i, idAt u i)) := by
      rw [hsim.heap, List.map_erase hinj]
    obtain ⟨r1, r2⟩ := relax_sim hnd (predsAt u x) (predsAt_lt u x hxn) s.depth (s.heap.erase x) d.depth
      hle hsim.depth
    refine ⟨_, by simp only [stepD, hmk]; rfl, ?_⟩
    simp only [step1_preds_at hnd hxn, herase]
    exact ⟨by simp [hsim.sorted], r1, r2⟩

theorem loop_sim (f : Nat) {s : KState} {d : DState} (hsim : Sim u s d)
    (hinv : Inv u.length (predsAt u) s) :
    Sim u (loop (predsAt u) f s) (loopD (step1 u).preds (nodeIndex u) f d) := by
  induction f generalizing s d with
  | zero => exact hsim
  | succ f ih =>
    have hstep := step_sim hnd hsim hinv
    simp only [loop, loopD]
    cases hs : step (predsAt u) s with
    | none =>
      simp only [hs] at hstep
      simp only [hstep]
      exact hsim
    | some s' =>
      simp only [hs] at hstep
      obtain ⟨d', hd', hsim'⟩ := hstep
      simp only [hd']
      exact ih hsim' (inv_step (predsAt_lt u) hinv hs).1

theorem initHeap_sim (is : List Nat) (his : ∀ i ∈ is, i < u.length) :
    ((is.filterMap (fun i => u[i]?)).filter (fun e => (step1 u).depth e.id == 0)).map
        (fun e => (nodeIndex u e.id, e.id)) =
      (is.filter (fun i => (initDepth u.length (predsAt u)).getD i 0 == 0)).map
        (fun i => (i, idAt u i)) := by
  induction is with
  | nil => rfl
  | cons i is ih =>
    have hi := his i (by simp)
    have a := at_of_lt hi
    have h' : u[i]? = some u[i] := a
    have hid : (u[i]).id = idAt u i := (idAt_at a).symm
    have hq : ((step1 u).depth (u[i]).id == 0) = ((initDepth u.length (predsAt u)).getD i 0 == 0) := by
      rw [hid, step1_depth_at hnd hi]
      cases h0 : (initDepth u.length (predsAt u)).getD i 0 with
      | zero => simp
      | succ k => simp; omega
    simp only [List.filterMap_cons, h', List.filter_cons, hq]
    have ih' := ih (fun j hj => his j (List.mem_cons_of_mem _ hj))
    split
    · simp only [List.map_cons, ih', hid, nodeIndex_at hnd hi]
    · exact ih'

/-- the whole loop: the identity-keyed run is the position-keyed run read through `idAt` -/
theorem kahnIds_sim : Sim u (kahnState u.length (predsAt u)) (kahnIds u) := by
  simp only [kahnState, kahnIds]
  apply loop_sim hnd
  · refine ⟨rfl, ?_, fun v hv => step1_depth_at hnd hv⟩
    have := initHeap_sim hnd (List.range u.length) (fun i hi => List.mem_range.1 hi)
    rw [filterMap_range] at this
    exact this
  · exact inv_init _ _

theorem bucketD_eq (out : List Nat) (hout : ∀ i ∈ out, i < u.length) (k : Nat) :
    bucketD u (out.map (idAt u)) k = bucket u out k := by
  induction out with
  | nil => rfl
  | cons i out ih =>
    have hi := hout i (by simp)
    have a := at_of_lt hi
    have h' : u[i]? = some u[i] := a
    have hg : gidOfId u (idAt u i) = (u[i]).gid := by rw [idAt_at a]; exact gidOfId_at hnd a
    have ih' := ih (fun j hj => hout j (List.mem_cons_of_mem _ hj))
    simp only [bucketD, bucket, List.map_cons, List.filterMap_cons, h', List.filter_cons, hg] at ih' ⊢
    split
    · simp only [List.map_cons, idAt_at a, ih']
    · exact ih'

end refine

/-- with distinct identities the identity-keyed transcription and the position-keyed model agree
    on every tree -/
theorem sortIds_eq_sortModel (g : MGraph) (hnd : (idsOf (nodesOf g)).Nodup) :
    sortIds g = sortModel g := by
  have hsim := kahnIds_sim hnd
  have hs : sharedGraph (nodesOf g) = false := by
    have : ((nodesOf g).map Ent.id).Nodup := hnd
    simp [sharedGraph, this]
  have hrun := kahn_run (predsAt_lt (nodesOf g))
  simp only [sortIds, sortModel, hs]
  have hsorted : (kahnIds (nodesOf g)).sorted = (kahn (nodesOf g).length (predsAt (nodesOf g))).map (idAt (nodesOf g)) :=
    hsim.sorted
  rw [hsorted, List.length_map]
  simp only [Bool.false_eq_true, if_false]
  split
  · rfl
  · congr 1
    apply List.map_congr_left
    intro gc _
    rw [bucketD_eq hnd _ (fun i hi => hrun.lt i hi)]

end IrVerif.Sort

import IrVerif.Lemmas.ScopeSerdeBridgeModel9
/-!
The C02 bridge for models in the IR version < 10 format, part 2: the post-pass of `deserializeM9` on the cells of one
function and of the function list.
-/
namespace IrVerif.Bridge
open IrVerif.Proto IrVerif.Serde

def mapTable (u : IRValue → IRValue) : IRGraph → IRGraph
  | .mk t i n ns o name doc ops mp => .mk (t.map u) i n ns o name doc ops mp

/-- C02's post-pass on one function in closed form -/
def postF (V : List ValueInfoP) (x : IRFunction) : IRFunction :=
  if x.overload = "" then { x with graph := mapTable (expUpd (experimentalFor V x.domain x.name)) x.graph } else x

/-! ## the values the post-pass visits -/

theorem absOutsB_mem (b : Nat) : ∀ (outs : List (Option Nat)) (K w : Nat), w ∈ absOutsB b K outs →
    (∃ j, some j ∈ outs ∧ w = b + j) ∨ (K ≤ w ∧ w < K + numNone outs)
  | [], _, _, h => by simp [absOutsB] at h
  | some j :: r, K, w, h => by
    simp only [absOutsB, List.mem_cons] at h
    rcases h with rfl | h
    · exact Or.inl ⟨j, by simp, rfl⟩
    · rcases absOutsB_mem b r K w h with ⟨j', hj, e⟩ | h2
      · exact Or.inl ⟨j', by simp [hj], e⟩
      · exact Or.inr (by simpa [numNone] using h2)
  | none :: r, K, w, h => by
    simp only [absOutsB, List.mem_cons] at h
    rcases h with rfl | h
    · exact Or.inr ⟨Nat.le_refl _, by simp [numNone]⟩
    · rcases absOutsB_mem b r (K + 1) w h with ⟨j', hj, e⟩ | h2
      · exact Or.inl ⟨j', by simp [hj], e⟩
      · exact Or.inr ⟨by omega, by simp only [numNone]; omega⟩

theorem absOutsB_mem_tbl (b : Nat) : ∀ (outs : List (Option Nat)) (K j : Nat), some j ∈ outs →
    b + j ∈ absOutsB b K outs
  | [], _, _, h => by simp at h
  | some j' :: r, K, j, h => by
    simp only [List.mem_cons, Option.some.injEq] at h
    rcases h with rfl | h
    · simp [absOutsB]
    · simp [absOutsB, absOutsB_mem_tbl b r K j h]
  | none :: r, K, j, h => by
    simp only [List.mem_cons] at h
    rcases h with h | h
    · cases h
    · simp [absOutsB, absOutsB_mem_tbl b r (K + 1) j h]

theorem treeNodes_out (b : Nat) : ∀ (xs : List IRNode) (K nn ng w : Nat),
    w ∈ (treeNodes [b] K nn ng xs).flatMap Scope.NodeT.outputs →
    (∃ j, some j ∈ xs.flatMap IRNode.outputs ∧ w = b + j) ∨
      (K ≤ w ∧ w < K + (cellsNodes xs).length ∧ (cellsNodes xs).getD (w - K) default = blankCell)
  | [], _, _, _, _, h => by simp [treeNodes] at h
  | x :: xs, K, nn, ng, w, h => by
    cases x with
    | mk domain opType overload name doc ins outs attrs mprops devcfgs =>
    simp only [treeNodes, List.flatMap_cons, List.mem_append, treeNode, Scope.NodeT.outputs,
      List.headD_cons] at h
    rcases h with h | h
    · rcases absOutsB_mem b outs K w h with ⟨j, hj, e⟩ | ⟨h1, h2⟩
      · exact Or.inl ⟨j, by simp [IRNode.outputs, hj], e⟩
      · have hlt : w - K < numNone outs := by omega
        refine Or.inr ⟨h1, by simp only [cellsNodes, cellsNode, List.length_append, List.length_replicate]; omega, ?_⟩
        simp [cellsNodes, cellsNode, List.getD, List.getElem?_append_left, hlt]
    · rcases treeNodes_out b xs _ _ _ w h with ⟨j, hj, e⟩ | ⟨h1, h2, h3⟩
      · exact Or.inl ⟨j, by simp [hj], e⟩
      · refine Or.inr ⟨by omega, by simp only [cellsNodes, List.length_append]; omega, ?_⟩
        simp only [cellsNodes]
        rw [← h3]
        simp only [List.getD]
        rw [List.getElem?_append_right (by omega)]
        have : w - K - (cellsNode (.mk domain opType overload name doc ins outs attrs mprops devcfgs)).length
            = w - (K + (cellsNode (.mk domain opType overload name doc ins outs attrs mprops devcfgs)).length) := by
          omega
        rw [this]

theorem treeNodes_out_tbl (b : Nat) : ∀ (xs : List IRNode) (K nn ng j : Nat),
    some j ∈ xs.flatMap IRNode.outputs → b + j ∈ (treeNodes [b] K nn ng xs).flatMap Scope.NodeT.outputs
  | [], _, _, _, _, h => by simp at h
  | x :: xs, K, nn, ng, j, h => by
    cases x with
    | mk domain opType overload name doc ins outs attrs mprops devcfgs =>
    simp only [List.flatMap_cons, List.mem_append, IRNode.outputs] at h
    simp only [treeNodes, List.flatMap_cons, List.mem_append, treeNode, Scope.NodeT.outputs, List.headD_cons]
    rcases h with h | h
    · exact Or.inl (absOutsB_mem_tbl b outs K j h)
    · exact Or.inr (treeNodes_out_tbl b xs _ _ _ j h)

theorem outputs_setGraph (g : Nat) (ns : List Scope.NodeT) :
    (ns.map (Scope.NodeT.setGraph g)).flatMap Scope.NodeT.outputs = ns.flatMap Scope.NodeT.outputs := by
  induction ns with
  | nil => rfl
  | cons n ns ih =>
    cases n
    simp only [List.map_cons, List.flatMap_cons, ih, Scope.NodeT.setGraph, Scope.NodeT.outputs]

/-! ## the post-pass on the cells of one function -/

/-- what the post-pass lemmas need from a deserialized function graph -/
def FnFacts (G : IRGraph) : Prop :=
  ∃ T n xs gouts gname doc ops mp, G = .mk T (List.range n) [] xs gouts gname doc ops mp ∧ n ≤ T.length ∧
    (∀ v ∈ T, v = IRValue.blank v.name) ∧
    (∀ t, t < T.length → t < n ∨ some t ∈ xs.flatMap IRNode.outputs) ∧
    (∀ j, some j ∈ xs.flatMap IRNode.outputs → j < T.length) ∧ dangCells gouts = []

theorem fvals_tree (k nn ng : Nat) (T : List IRValue) (n : Nat) (xs : List IRNode) (gouts : List IRGOut)
    (gname doc : String) (ops : List OpsetP) (mp : Dict) (w : Nat) :
    w ∈ Scope.fvals (treeG [] k nn ng (.mk T (List.range n) [] xs gouts gname doc ops mp)) ↔
      (∃ i, i < n ∧ w = k + i) ∨ w ∈ (treeNodes [k] (k + T.length) nn ng xs).flatMap Scope.NodeT.outputs := by
  simp only [Scope.fvals, treeG, Scope.GraphT.inputs, Scope.GraphT.nodes, outputs_setGraph, List.mem_append,
    List.mem_map, List.mem_range]
  constructor
  · rintro (⟨i, hi, rfl⟩ | h)
    · exact Or.inl ⟨i, hi, rfl⟩
    · exact Or.inr h
  · rintro (⟨i, hi, rfl⟩ | h)
    · exact Or.inl ⟨i, hi, rfl⟩
    · exact Or.inr h

/-- the visited values of a function lie in the function's own range of creation indices -/
theorem fvals_range (k nn ng : Nat) (G : IRGraph) (hF : FnFacts G) (w : Nat)
    (h : w ∈ Scope.fvals (treeG [] k nn ng G)) : k ≤ w ∧ w < k + (cellsG G).length := by
  obtain ⟨T, n, xs, gouts, gname, doc, ops, mp, rfl, hn, _, _, hbd, hd⟩ := hF
  have hlen : (cellsG (.mk T (List.range n) [] xs gouts gname doc ops mp)).length
      = T.length + (cellsNodes xs).length := by simp [cellsG, hd]
  rw [hlen]
  rcases (fvals_tree k nn ng T n xs gouts gname doc ops mp w).1 h with ⟨i, hi, rfl⟩ | h
  · omega
  · rcases treeNodes_out k xs _ _ _ w h with ⟨j, hj, rfl⟩ | ⟨h1, h2, _⟩
    · have := hbd j hj; omega
    · omega

theorem func_post (st st' : Scope.Store) (k nn ng : Nat) (G : IRGraph) (hF : FnFacts G)
    (tblS : List (Scope.Name × Scope.Info)) (m : List (String × ValueInfoP))
    (hlk : ∀ s, tblS.lookup s = (findLast? (fun e => e.1 = s) m).map (fun e => absInfo e.2))
    (hempty : tblS.lookup "" = none)
    (hsh : ShowsAt st k (cellsG G))
    (hvals : ∀ w, k ≤ w → w < k + (cellsG G).length →
      st'.vals w = if w ∈ Scope.fvals (treeG [] k nn ng G) then Scope.updInfo tblS (st.vals w) else st.vals w)
    (htens : st'.tens = st.tens) :
    ShowsAt st' k (cellsG (mapTable (expUpd m) G)) := by
  obtain ⟨T, n, xs, gouts, gname, doc, ops, mp, rfl, hn, hT, hcov, hbd, hd⟩ := hF
  have hlen : (cellsG (.mk T (List.range n) [] xs gouts gname doc ops mp)).length
      = T.length + (cellsNodes xs).length := by simp [cellsG, hd]
  have hcs : cellsG (.mk T (List.range n) [] xs gouts gname doc ops mp) = T.map absCell ++ cellsNodes xs := by
    simp [cellsG, hd]
  have hcs' : cellsG (mapTable (expUpd m) (.mk T (List.range n) [] xs gouts gname doc ops mp))
      = (T.map (expUpd m)).map absCell ++ cellsNodes xs := by
    simp [mapTable, cellsG, hd]
  rw [hlen] at hvals
  rw [hcs] at hsh
  rw [hcs']
  intro t ht
  simp only [List.length_append, List.length_map] at ht
  have h0 := hsh t (by simpa using ht)
  have hv := hvals (k + t) (by omega) (by omega)
  have hcell' : cellAt st' (k + t)
      = ⟨(st'.vals (k + t)).name, (st'.vals (k + t)).info, (st'.vals (k + t)).const.map st.tens⟩ := by
    simp [cellAt, htens]
  by_cases hlt : t < T.length
  · have hmem : k + t ∈ Scope.fvals (treeG [] k nn ng (.mk T (List.range n) [] xs gouts gname doc ops mp)) := by
      rw [fvals_tree]
      rcases hcov t hlt with h | h
      · exact Or.inl ⟨t, h, rfl⟩
      · exact Or.inr (treeNodes_out_tbl k xs _ _ _ t h)
    rw [if_pos hmem] at hv
    have hg0 : (T.map absCell ++ cellsNodes xs).getD t default = absCell (T.getD t (IRValue.blank "")) := by
      simp [List.getD, List.getElem?_append_left, hlt]
    have hg1 : ((T.map (expUpd m)).map absCell ++ cellsNodes xs).getD t default
        = absCell (expUpd m (T.getD t (IRValue.blank ""))) := by
      simp [List.getD, List.getElem?_append_left, hlt]
    rw [hg0] at h0
    rw [hg1]
    have hv0 : T.getD t (IRValue.blank "") ∈ T := by simp [List.getD, List.getElem?_eq_getElem hlt]
    have hb := hT _ hv0
    generalize T.getD t (IRValue.blank "") = v at h0 hb ⊢
    obtain ⟨nm, rfl⟩ : ∃ nm, v = IRValue.blank nm := ⟨v.name, hb⟩
    obtain ⟨f1, _, f3⟩ := cell_fields h0
    have hname : (IRValue.blank nm).name = nm := rfl
    rw [hname] at f1
    rw [hcell', hv]
    unfold expUpd
    rw [hname]
    cases hf : findLast? (fun e => e.1 = nm) m with
    | none =>
      rw [Scope.updInfo_none tblS _ nm f1 (by rw [hlk, hf]; rfl)]
      exact h0
    | some e =>
      have hu : Scope.updInfo tblS (st.vals (k + t)) = { st.vals (k + t) with info := absInfo e.2 } := by
        simp only [Scope.updInfo, f1, hlk, hf, Option.map_some]
      rw [hu, absCell_applyInfoT]
      simp only [f1, hname]
      have : (st.vals (k + t)).const.map st.tens = none := by simpa [IRValue.blank] using f3
      rw [this]
      rfl
  · have hge : T.length ≤ t := by omega
    have hg : ((T.map (expUpd m)).map absCell ++ cellsNodes xs).getD t default
        = (T.map absCell ++ cellsNodes xs).getD t default := by
      simp only [List.getD]
      rw [List.getElem?_append_right (by simpa using hge), List.getElem?_append_right (by simpa using hge)]
      simp
    rw [hg, ← h0, hcell']
    have hsame : st'.vals (k + t) = st.vals (k + t) := by
      by_cases hmem : k + t ∈ Scope.fvals (treeG [] k nn ng (.mk T (List.range n) [] xs gouts gname doc ops mp))
      · rw [if_pos hmem] at hv
        rw [hv]
        rcases (fvals_tree k nn ng T n xs gouts gname doc ops mp (k + t)).1 hmem with ⟨i, hi, e⟩ | h
        · omega
        · rcases treeNodes_out k xs _ _ _ (k + t) h with ⟨j, hj, e⟩ | ⟨_, _, h3⟩
          · have := hbd j hj; omega
          · have hb : cellAt st (k + t) = blankCell := by
              rw [h0]
              simp only [List.getD]
              rw [List.getElem?_append_right (by simpa using hge)]
              simp only [List.length_map]
              have e : k + t - (k + T.length) = t - T.length := by omega
              rw [e] at h3
              exact h3
            have hn0 : (st.vals (k + t)).name = some "" := by
              simpa [cellAt, blankCell] using congrArg Cell.name hb
            exact Scope.updInfo_none tblS _ "" hn0 hempty
      · rw [if_neg hmem] at hv
        exact hv
    rw [hsame]
    rfl

/-! ## the post-pass on the function list -/

theorem showsAt_append {st : Scope.Store} {k : Nat} {a b : List Cell} (h1 : ShowsAt st k a)
    (h2 : ShowsAt st (k + a.length) b) : ShowsAt st k (a ++ b) := by
  intro j hj
  by_cases h : j < a.length
  · rw [h1 j h]
    simp [List.getD, List.getElem?_append_left h]
  · have := h2 (j - a.length) (by simp only [List.length_append] at hj; omega)
    have e : k + a.length + (j - a.length) = k + j := by omega
    rw [e] at this
    rw [this]
    simp only [List.getD]
    rw [List.getElem?_append_right (by omega)]

theorem cellsG_mapTable_length (u : IRValue → IRValue) (G : IRGraph) :
    (cellsG (mapTable u G)).length = (cellsG G).length := by
  cases G; simp [mapTable, cellsG]

theorem postF_length (V : List ValueInfoP) (x : IRFunction) :
    (cellsG (postF V x).graph).length = (cellsG x.graph).length := by
  unfold postF
  split
  · exact cellsG_mapTable_length _ _
  · rfl

theorem expUpd_nil : expUpd [] = id := by
  funext v; simp [expUpd, findLast?]

theorem mapTable_id (G : IRGraph) : mapTable id G = G := by
  cases G; simp [mapTable]

theorem postFold_frame (vi : List Scope.VInfoP) (fids : List Scope.FId) (fs : List (Scope.FId × Scope.GraphT))
    (st : Scope.Store) :
    (Scope.postFold vi fids fs st).tens = st.tens ∧ (Scope.postFold vi fids fs st).nv = st.nv ∧
    (Scope.postFold vi fids fs st).nt = st.nt ∧
    ∀ w, ((Scope.postFold vi fids fs st).vals w).const = (st.vals w).const ∧
      ((Scope.postFold vi fids fs st).vals w).name = (st.vals w).name := by
  have h := Scope.postFold_setInfo vi fids fs st
  refine ⟨by rw [h], by rw [h], by rw [h], fun w => ?_⟩
  rw [h]
  exact ⟨rfl, rfl⟩

theorem post_fold (V : List ValueInfoP) (hne : noEmptyExp V = true) (fids : List Scope.FId) :
    ∀ (xs : List IRFunction) (k nn ng : Nat) (st : Scope.Store),
    (∀ x ∈ xs, FnFacts x.graph) → (∀ x ∈ xs, fids.contains (fidOf x) = true) → ShowsAt st k (cellsFs xs) →
    ShowsAt (Scope.postFold (V.map absVI) fids (treeFs k nn ng xs) st) k (cellsFs (xs.map (postF V))) ∧
    (∀ w, w < k → (Scope.postFold (V.map absVI) fids (treeFs k nn ng xs) st).vals w = st.vals w)
  | [], k, nn, ng, st, _, _, _ => by
    refine ⟨?_, fun w _ => rfl⟩
    intro j hj
    simp [cellsFs] at hj
  | x :: rest, k, nn, ng, st, hF, hc, hsh => by
    have hFx := hF x (by simp)
    have hcx := hc x (by simp)
    simp only [cellsFs] at hsh
    have hshx := showsAt_left hsh
    have hshr := showsAt_right hsh
    simp only [treeFs, Scope.postFold_cons]
    have he := Scope.applyExpFunc_eq (V.map absVI) fids st (fidOf x, treeG [] k nn ng x.graph)
    generalize Scope.applyExpFunc (V.map absVI) fids st (fidOf x, treeG [] k nn ng x.graph) = st1 at he ⊢
    have hv1 : ∀ w, st1.vals w = if w ∈ Scope.fvals (treeG [] k nn ng x.graph)
        then Scope.updInfo (Scope.tblOf (V.map absVI) fids (fidOf x)) (st.vals w) else st.vals w := by
      intro w; rw [he]
    have ht1 : st1.tens = st.tens := by rw [he]
    have hout : ∀ w, ¬ (k ≤ w ∧ w < k + (cellsG x.graph).length) → st1.vals w = st.vals w := by
      intro w hw
      rw [hv1 w, if_neg (fun hm => hw (fvals_range k nn ng x.graph hFx w hm))]
    have hshr1 : ShowsAt st1 (k + (cellsG x.graph).length) (cellsFs rest) := by
      intro j hj
      rw [← hshr j hj]
      have hw := hout (k + (cellsG x.graph).length + j) (by omega)
      simp only [cellAt, hw, ht1]
    obtain ⟨ihA, ihB⟩ := post_fold V hne fids rest (k + (cellsG x.graph).length) (nn + nnG x.graph)
      (ng + ngG x.graph) st1 (fun y hy => hF y (by simp [hy])) (fun y hy => hc y (by simp [hy])) hshr1
    obtain ⟨fr1, _, _, _⟩ := postFold_frame (V.map absVI) fids
      (treeFs (k + (cellsG x.graph).length) (nn + nnG x.graph) (ng + ngG x.graph) rest) st1
    generalize Scope.postFold (V.map absVI) fids
      (treeFs (k + (cellsG x.graph).length) (nn + nnG x.graph) (ng + ngG x.graph) rest) st1 = st' at ihA ihB fr1 ⊢
    have htens : st'.tens = st.tens := fr1.trans ht1
    have hvals : ∀ w, k ≤ w → w < k + (cellsG x.graph).length →
        st'.vals w = if w ∈ Scope.fvals (treeG [] k nn ng x.graph)
          then Scope.updInfo (Scope.tblOf (V.map absVI) fids (fidOf x)) (st.vals w) else st.vals w := by
      intro w _ h2
      rw [ihB w h2, hv1 w]
    have hx' : ShowsAt st' k (cellsG (postF V x).graph) := by
      by_cases hov : x.overload = ""
      · have hfid : fidOf x = ⟨x.domain, x.name, ""⟩ := by simp [fidOf, hov]
        have hlk : ∀ s, (Scope.tblOf (V.map absVI) fids (fidOf x)).lookup s
            = (findLast? (fun e => e.1 = s) (experimentalFor V x.domain x.name)).map (fun e => absInfo e.2) := by
          intro s
          rw [hfid]
          exact tbl_lookup fids x.domain x.name (by rw [← hfid]; exact hcx) s V
        have hempty : (Scope.tblOf (V.map absVI) fids (fidOf x)).lookup "" = none := by
          rw [hlk, experimentalFor_noEmpty V hne]; rfl
        have := func_post st st' k nn ng x.graph hFx _ _ hlk hempty hshx hvals htens
        simpa [postF, hov] using this
      · have hnil : Scope.tblOf (V.map absVI) fids (fidOf x) = [] := by
          simp only [Scope.tblOf]
          rw [expEntries_overload fids _ (fidOf x) (by simpa [fidOf] using hov)]
          rfl
        have := func_post st st' k nn ng x.graph hFx _ [] (by intro s; rw [hnil]; rfl) (by rw [hnil]; rfl)
          hshx hvals htens
        rw [expUpd_nil, mapTable_id] at this
        simpa [postF, hov] using this
    refine ⟨?_, ?_⟩
    · simp only [List.map_cons, cellsFs]
      apply showsAt_append hx'
      rw [postF_length]
      exact ihA
    · intro w hw
      rw [ihB w (by omega), hout w (by omega)]

end IrVerif.Bridge

/-
C19 — the complete `InlinePass` (`Model/DeviceInl.lean`): helper development for `C19_inline_pass`.

The invariant `WJ` is node-local and does not mention the value heap: the configuration heap is unchanged, the
configurations registered on model `m` are unchanged, and every node of the heap satisfies `NodeWeak`.
-/
import IrVerif.Lemmas.DeviceInline
import IrVerif.Model.DeviceInl
namespace IrVerif.Device

/-! ### `NodeWeak` under shrinking, `replace_input_with`, cloning -/

theorem NodeWeak_default (C : List CId) (cfgs : List CfgS) : NodeWeak C cfgs {} := by
  refine ⟨by simp, ?_⟩
  intro nc hnc
  simp at hnc

theorem NodeWeak_shrink {C : List CId} {cfgs : List CfgS} {nd nd' : NodeS} (hn : NodeWeak C cfgs nd)
    (hsh : Shrinks nd'.dev nd.dev) (hio : ∀ nc' ∈ nd'.dev, ∀ s ∈ nc'.specs, InIO nd' s.value) :
    NodeWeak C cfgs nd' := by
  obtain ⟨hnd, hall⟩ := hn
  refine ⟨hsh.1.nodup hnd, ?_⟩
  intro nc' hnc'
  obtain ⟨nc, hnc, h1, h2, h3⟩ := hsh.2 nc' hnc'
  obtain ⟨a, b, d⟩ := hall nc hnc
  refine ⟨h1 ▸ a, h2 ▸ b, ?_⟩
  intro s hs
  obtain ⟨_, e1, e2⟩ := d s (h3.subset hs)
  exact ⟨hio nc' hnc' s hs, e1, h1 ▸ e2⟩

theorem NodeWeak.io {C : List CId} {cfgs : List CfgS} {nd : NodeS} (hn : NodeWeak C cfgs nd) :
    ∀ nc ∈ nd.dev, ∀ s ∈ nc.specs, InIO nd s.value :=
  fun nc hnc s hs => ((hn.2 nc hnc).2.2 s hs).1

theorem NodeWeak_replaceInputNode {C : List CId} {cfgs : List CfgS} {nd : NodeS} (hn : NodeWeak C cfgs nd)
    (i : Nat) (val : Option VId) : NodeWeak C cfgs (replaceInputNode nd i val) := by
  have hd := replaceInputNode_dev i val hn.io
  apply NodeWeak_shrink hn
  · rw [hd]; exact keepIO_shrinks _ _
  · rw [hd]; exact keepIO_io _ _

theorem NodeWeak_foldl_replace {C : List CId} {cfgs : List CfgS} (f : NodeS → Nat → Bool) (val : Option VId) :
    ∀ (idxs : List Nat) (nd : NodeS), NodeWeak C cfgs nd →
    NodeWeak C cfgs (idxs.foldl (fun a i => if f a i then replaceInputNode a i val else a) nd) := by
  intro idxs
  induction idxs with
  | nil => intro nd h; exact h
  | cons i rest ih =>
    intro nd h
    simp only [List.foldl_cons]
    apply ih
    split
    · exact NodeWeak_replaceInputNode h i val
    · exact h

theorem NodeWeak_rauwNode {C : List CId} {cfgs : List CfgS} {nd : NodeS} (hn : NodeWeak C cfgs nd)
    (old new : VId) : NodeWeak C cfgs (rauwNode old new nd) := by
  unfold rauwNode
  have := NodeWeak_foldl_replace (C := C) (cfgs := cfgs)
    (fun a i => decide (a.inputs.getD i none = some old)) (some new) (List.range' 0 nd.inputs.length) nd hn
  simpa using this

theorem NodeWeak_detach {C : List CId} {cfgs : List CfgS} :
    ∀ (idxs : List Nat) (nd : NodeS), NodeWeak C cfgs nd →
    NodeWeak C cfgs (idxs.foldl (fun a i => replaceInputNode a i none) nd) := by
  intro idxs
  induction idxs with
  | nil => intro nd h; exact h
  | cons i rest ih =>
    intro nd h
    simp only [List.foldl_cons]
    exact ih _ (NodeWeak_replaceInputNode h i none)

/-- the record `clone_node` creates satisfies `NodeWeak` when the source node does -/
theorem NodeWeak_clonedNodeO {C : List CId} {cfgs : List CfgS} {nd : NodeS} (hn : NodeWeak C cfgs nd)
    {vm vm1 : OMap} {ins : List (Option VId)} (hci : cloneInputsO vm nd.inputs = some ins) (base : Nat)
    (subs : List GId) :
    NodeWeak C cfgs (clonedNodeO nd ins (List.range' base nd.outputs.length) vm1 subs) := by
  have hins := cloneInputsO_eq hci
  subst hins
  have hlen : nd.outputs.length = (List.range' base nd.outputs.length).length := by simp
  obtain ⟨hnd, hall⟩ := hn
  unfold clonedNodeO
  refine ⟨?_, ?_⟩
  · simpa [remapDevO, List.map_map, Function.comp_def] using hnd
  · intro nc' hnc'
    simp only [remapDevO, List.mem_map] at hnc'
    obtain ⟨nc, hnc, rfl⟩ := hnc'
    obtain ⟨a, b, d⟩ := hall nc hnc
    refine ⟨a, b, ?_⟩
    intro s' hs'
    simp only [List.mem_filterMap] at hs'
    obtain ⟨s, hs, hF⟩ := hs'
    obtain ⟨hv, e1, e2⟩ := d s hs
    rw [ioMapO_eq, List.append_assoc, olookup_append] at hF
    by_cases hvo : s.value ∈ nd.outputs
    · obtain ⟨x, hx, hl⟩ := olookup_outPartO_of_mem hlen hvo
      simp only [hl, Option.or_some] at hF
      cases hF
      exact ⟨Or.inr hx, e1, e2⟩
    · have hvi : some s.value ∈ nd.inputs := by
        rcases hv with hv | hv
        · exact hv
        · exact absurd hv hvo
      rw [olookup_outPartO_of_not_mem hvo, olookup_append, olookup_inPartO] at hF
      simp only [hvi, if_true, Option.none_or, Option.some_or] at hF
      cases hi : oimg vm s.value with
      | none => simp [hi] at hF
      | some x =>
        simp only [hi, Option.some.injEq] at hF
        rw [← hF]
        refine ⟨Or.inl ?_, e1, e2⟩
        show some x ∈ nd.inputs.map (fun o => o.bind (oimg vm))
        exact List.mem_map.mpr ⟨some s.value, hvi, by simp [hi]⟩

/-! ### the invariant -/

/-- configuration heap and the registrations of model `m` unchanged, every node of the heap `NodeWeak` -/
structure WJ (C : List CId) (cfgs : List CfgS) (m : MId) (w : World) : Prop where
  hcfgs : w.cfgs = cfgs
  hreg : (w.model m).cfgs = C
  hnodes : ∀ nd ∈ w.nodes, NodeWeak C cfgs nd

theorem WJ.node {C : List CId} {cfgs : List CfgS} {m : MId} {w : World} (h : WJ C cfgs m w) (n : NId) :
    NodeWeak C cfgs (w.node n) := by
  rcases node_mem_or_default w n with h1 | h1
  · exact h.hnodes _ h1
  · rw [h1]; exact NodeWeak_default C cfgs

/-- a change that leaves nodes, configurations and models alone -/
theorem WJ.of_eq {C : List CId} {cfgs : List CfgS} {m : MId} {w w' : World} (h : WJ C cfgs m w)
    (hn : w'.nodes = w.nodes) (hc : w'.cfgs = w.cfgs) (hm : w'.models = w.models) : WJ C cfgs m w' :=
  ⟨by rw [hc]; exact h.hcfgs, by simp only [World.model, hm]; exact h.hreg, by rw [hn]; exact h.hnodes⟩

/-- a node appended to the heap -/
theorem WJ.push {C : List CId} {cfgs : List CfgS} {m : MId} {w w' : World} (h : WJ C cfgs m w) (nd : NodeS)
    (hnd : NodeWeak C cfgs nd)
    (hn : w'.nodes = w.nodes ++ [nd]) (hc : w'.cfgs = w.cfgs) (hm : w'.models = w.models) : WJ C cfgs m w' := by
  refine ⟨by rw [hc]; exact h.hcfgs, by simp only [World.model, hm]; exact h.hreg, ?_⟩
  intro x hx
  rw [hn, List.mem_append] at hx
  rcases hx with hx | hx
  · exact h.hnodes x hx
  · simp only [List.mem_singleton] at hx; rw [hx]; exact hnd

/-- every node rewritten by a function that keeps `NodeWeak` -/
theorem WJ.mapNodes {C : List CId} {cfgs : List CfgS} {m : MId} {w w' : World} (h : WJ C cfgs m w)
    (f : NodeS → NodeS) (hf : ∀ nd, NodeWeak C cfgs nd → NodeWeak C cfgs (f nd))
    (hn : w'.nodes = w.nodes.map f) (hc : w'.cfgs = w.cfgs) (hm : w'.models = w.models) : WJ C cfgs m w' := by
  refine ⟨by rw [hc]; exact h.hcfgs, by simp only [World.model, hm]; exact h.hreg, ?_⟩
  intro x hx
  rw [hn, List.mem_map] at hx
  obtain ⟨y, hy, rfl⟩ := hx
  exact hf y (h.hnodes y hy)

theorem model_map_cfgs (ms : List ModelS) (f : ModelS → ModelS) (hf : ∀ x, (f x).cfgs = x.cfgs) (m : MId) :
    ((ms.map f).getD m {}).cfgs = (ms.getD m {}).cfgs := by
  simp only [List.getD_eq_getElem?_getD, List.getElem?_map]
  cases ms[m]? with
  | none => rfl
  | some x => simp [hf x]

/-- the flat lists of the models rewritten, registrations kept -/
theorem WJ.mapModels {C : List CId} {cfgs : List CfgS} {m : MId} {w w' : World} (h : WJ C cfgs m w)
    (f : ModelS → ModelS) (hf : ∀ x, (f x).cfgs = x.cfgs)
    (hn : w'.nodes = w.nodes) (hc : w'.cfgs = w.cfgs) (hm : w'.models = w.models.map f) : WJ C cfgs m w' := by
  refine ⟨by rw [hc]; exact h.hcfgs, ?_, by rw [hn]; exact h.hnodes⟩
  simp only [World.model, hm]
  rw [model_map_cfgs _ f hf]
  exact h.hreg

/-! ### value-only steps -/

theorem renameOuts_same : ∀ (outs : List VId) (p : World × List String),
    (renameOuts p outs).1.nodes = p.1.nodes ∧ (renameOuts p outs).1.cfgs = p.1.cfgs ∧
    (renameOuts p outs).1.models = p.1.models ∧ (renameOuts p outs).1.graphs = p.1.graphs := by
  intro outs
  induction outs with
  | nil => intro p; simp [renameOuts]
  | cons o rest ih =>
    intro p
    simp only [renameOuts]
    obtain ⟨a, b, c, d⟩ := ih (renameOne p o)
    exact ⟨a, b, c, d⟩

theorem copyInfo_same : ∀ (pairs : List (VId × VId)) (w : World),
    (copyInfo w pairs).nodes = w.nodes ∧ (copyInfo w pairs).cfgs = w.cfgs ∧ (copyInfo w pairs).models = w.models ∧
    (copyInfo w pairs).graphs = w.graphs := by
  intro pairs
  induction pairs with
  | nil => intro w; simp [copyInfo]
  | cons p rest ih =>
    intro w
    obtain ⟨old, new⟩ := p
    simp only [copyInfo]
    obtain ⟨a, b, c, d⟩ := ih (copyOne w old new)
    exact ⟨a, b, c, d⟩

theorem rauwAll_WJ {C : List CId} {cfgs : List CfgS} {m : MId} : ∀ (pairs : List (VId × VId)) (w : World),
    WJ C cfgs m w → WJ C cfgs m (rauwAll w pairs) := by
  intro pairs
  induction pairs with
  | nil => intro w h; exact h
  | cons p rest ih =>
    intro w h
    obtain ⟨old, new⟩ := p
    simp only [rauwAll]
    apply ih
    exact h.mapNodes (rauwNode old new) (fun nd hnd => NodeWeak_rauwNode hnd old new) rfl rfl rfl

/-! ### the inliner's cloner -/

def RecOKc (C : List CId) (cfgs : List CfgS) (m : MId) (rec : ICl → GId → Option (ICl × GId)) : Prop :=
  ∀ st g st' g', rec st g = some (st', g') → WJ C cfgs m st.w → WJ C cfgs m st'.w

theorem cloneOrGetO_WJ {C : List CId} {cfgs : List CfgS} {m : MId} {st st' : ICl} {v : VId}
    (hc : cloneOrGetO st v = some st') (h : WJ C cfgs m st.w) : WJ C cfgs m st'.w := by
  unfold cloneOrGetO at hc
  split at hc
  · cases hc; exact h
  · cases hc
  · simp only [Option.some.injEq] at hc
    subst hc
    exact h.of_eq rfl rfl rfl

theorem cloneValsO_WJ {C : List CId} {cfgs : List CfgS} {m : MId} : ∀ (vs : List VId) (st st' : ICl),
    cloneValsO st vs = some st' → WJ C cfgs m st.w → WJ C cfgs m st'.w := by
  intro vs
  induction vs with
  | nil => intro st st' hc h; simp only [cloneValsO, Option.some.injEq] at hc; subst hc; exact h
  | cons v rest ih =>
    intro st st' hc h
    simp only [cloneValsO] at hc
    cases h1 : cloneOrGetO st v with
    | none => simp [h1] at hc
    | some st1 =>
      simp only [h1] at hc
      exact ih st1 st' hc (cloneOrGetO_WJ h1 h)

theorem cloneSubgraphsO_WJ {C : List CId} {cfgs : List CfgS} {m : MId} {rec : ICl → GId → Option (ICl × GId)}
    (hrec : RecOKc C cfgs m rec) : ∀ (gs : List GId) (st st' : ICl) (subs : List GId),
    cloneSubgraphsO rec st gs = some (st', subs) → WJ C cfgs m st.w → WJ C cfgs m st'.w := by
  intro gs
  induction gs with
  | nil =>
    intro st st' subs hc h
    simp only [cloneSubgraphsO, Option.some.injEq, Prod.mk.injEq] at hc
    obtain ⟨rfl, _⟩ := hc
    exact h
  | cons g rest ih =>
    intro st st' subs hc h
    simp only [cloneSubgraphsO] at hc
    cases hr : rec st g with
    | none => simp [hr] at hc
    | some r =>
      obtain ⟨st1, g1⟩ := r
      simp only [hr] at hc
      cases hr2 : cloneSubgraphsO rec st1 rest with
      | none => simp [hr2] at hc
      | some r2 =>
        obtain ⟨st2, subs2⟩ := r2
        simp only [hr2, Option.map_some, Option.some.injEq, Prod.mk.injEq] at hc
        obtain ⟨rfl, _⟩ := hc
        exact ih st1 st2 subs2 hr2 (hrec st g st1 g1 hr h)

theorem cloneNodeO_WJ {C : List CId} {cfgs : List CfgS} {m : MId} {rec : ICl → GId → Option (ICl × GId)}
    (hrec : RecOKc C cfgs m rec) {st st' : ICl} {n k : NId}
    (hc : cloneNodeO rec st n = some (st', k)) (h : WJ C cfgs m st.w) : WJ C cfgs m st'.w := by
  unfold cloneNodeO at hc
  simp only at hc
  cases hci : cloneInputsO st.vm (st.w.node n).inputs with
  | none => simp [hci] at hc
  | some ins =>
    simp only [hci] at hc
    cases hs : cloneSubgraphsO rec st (st.w.node n).subgraphs with
    | none => simp [hs] at hc
    | some r =>
      obtain ⟨st1, subs⟩ := r
      simp only [hs] at hc
      split at hc
      · cases hc
      · simp only [Option.some.injEq, Prod.mk.injEq] at hc
        obtain ⟨rfl, _⟩ := hc
        have h1 := cloneSubgraphsO_WJ hrec _ _ _ _ hs h
        have hnd := NodeWeak_clonedNodeO (h.node n) hci st1.w.values.length subs
          (vm1 := cnVm st1.w (st.w.node n) st1.vm)
        have h2 := h1.push _ hnd (w' := cnWorld st1.w (st.w.node n) ins st1.vm subs) rfl rfl rfl
        obtain ⟨a, b, c, _⟩ := renameOuts_same (cnOuts st1.w (st.w.node n))
          (cnWorld st1.w (st.w.node n) ins st1.vm subs, st1.used)
        exact h2.of_eq a b c

theorem cloneNodesO_WJ {C : List CId} {cfgs : List CfgS} {m : MId} {rec : ICl → GId → Option (ICl × GId)}
    (hrec : RecOKc C cfgs m rec) : ∀ (ns : List NId) (st st' : ICl) (acc res : List NId),
    cloneNodesO rec st ns acc = some (st', res) → WJ C cfgs m st.w → WJ C cfgs m st'.w := by
  intro ns
  induction ns with
  | nil =>
    intro st st' acc res hc h
    simp only [cloneNodesO, Option.some.injEq, Prod.mk.injEq] at hc
    obtain ⟨rfl, _⟩ := hc
    exact h
  | cons n rest ih =>
    intro st st' acc res hc h
    simp only [cloneNodesO] at hc
    cases h1 : cloneNodeO rec st n with
    | none => simp [h1] at hc
    | some r =>
      obtain ⟨st1, k⟩ := r
      simp only [h1] at hc
      exact ih st1 st' _ res hc (cloneNodeO_WJ hrec h1 h)

theorem cloneGraphBodyO_WJ {C : List CId} {cfgs : List CfgS} {m : MId} {rec : ICl → GId → Option (ICl × GId)}
    (hrec : RecOKc C cfgs m rec) {st st' : ICl} {g g' : GId}
    (hc : cloneGraphBodyO rec st g = some (st', g')) (h : WJ C cfgs m st.w) : WJ C cfgs m st'.w := by
  unfold cloneGraphBodyO at hc
  simp only at hc
  cases h0 : cloneValsO st ((st.w.graph g).inputs ++ (st.w.graph g).inits) with
  | none => simp [h0] at hc
  | some st0 =>
    simp only [h0] at hc
    cases h1 : cloneNodesO rec st0 (st.w.graph g).nodes [] with
    | none => simp [h1] at hc
    | some r =>
      obtain ⟨st2, ns⟩ := r
      simp only [h1] at hc
      cases h2 : optAll ((st2.t.outsOf g).map (oget st2.vm)) with
      | none => simp [h2] at hc
      | some outs' =>
        simp only [h2, Option.some.injEq, Prod.mk.injEq] at hc
        obtain ⟨rfl, _⟩ := hc
        have := cloneNodesO_WJ hrec _ _ _ _ _ h1 (cloneValsO_WJ _ _ _ h0 h)
        exact this.of_eq rfl rfl rfl

theorem cloneGraphOF_WJ (C : List CId) (cfgs : List CfgS) (m : MId) :
    ∀ (f : Nat), RecOKc C cfgs m (cloneGraphOF f) := by
  intro f
  induction f with
  | zero => intro st g st' g' hc _; simp [cloneGraphOF] at hc
  | succ f ih =>
    intro st g st' g' hc h
    simp only [cloneGraphOF] at hc
    exact cloneGraphBodyO_WJ ih hc h

theorem fwdOutsO_WJ {C : List CId} {cfgs : List CfgS} {m : MId} (vm : OMap) : ∀ (outs : List VId) (st st' : Fwd),
    fwdOutsO vm st outs = some st' → WJ C cfgs m st.w → WJ C cfgs m st'.w := by
  intro outs
  induction outs with
  | nil => intro st st' hc h; simp only [fwdOutsO, Option.some.injEq] at hc; subst hc; exact h
  | cons o rest ih =>
    intro st st' hc h
    simp only [fwdOutsO] at hc
    cases hv : oget vm o with
    | none => simp [hv] at hc
    | some val =>
      simp only [hv] at hc
      split at hc
      · exact ih _ _ hc h
      · refine ih _ _ hc ?_
        have h2 := h.push { inputs := [some val], outputs := [st.w.values.length], dev := [], subgraphs := [] }
          (by refine ⟨by simp, ?_⟩; intro nc hnc; simp at hnc)
          (w' := { st.w with
            values := st.w.values ++ [({ name := (st.w.value o).name, shape := (st.w.value val).shape } : ValueS)],
            nodes := st.w.nodes ++ [{ inputs := [some val], outputs := [st.w.values.length], dev := [], subgraphs := [] }] })
          rfl rfl rfl
        obtain ⟨a, b, c, _⟩ := renameOuts_same [st.w.values.length] ({ st.w with
            values := st.w.values ++ [({ name := (st.w.value o).name, shape := (st.w.value val).shape } : ValueS)],
            nodes := st.w.nodes ++ [{ inputs := [some val], outputs := [st.w.values.length], dev := [], subgraphs := [] }] },
            st.used)
        exact h2.of_eq a b c

theorem removeNode_WJ {C : List CId} {cfgs : List CfgS} {m : MId} {w : World} (h : WJ C cfgs m w)
    (g : GId) (n : NId) (safe : Bool) : WJ C cfgs m (removeNode w g n safe).1 := by
  unfold removeNode
  simp only
  split
  · exact h
  · split
    · exact h
    · refine ⟨h.hcfgs, ?_, ?_⟩
      · have hr := h.hreg
        simp only [World.model, World.setNode, World.setGraph] at hr ⊢
        rw [model_map_cfgs]
        · exact hr
        · intro x; split <;> rfl
      · intro x hx
        have hx' : x ∈ w.nodes.set n (if safe = true then
            (List.range' 0 (w.node n).inputs.length).foldl (fun a i => replaceInputNode a i none) (w.node n)
          else w.node n) := hx
        rcases List.mem_or_eq_of_mem_set hx' with h1 | h1
        · exact h.hnodes x h1
        · rw [h1]
          split
          · exact NodeWeak_detach _ _ (h.node n)
          · exact h.node n

/-! ### the pass -/

theorem inlineCall_WJ {C : List CId} {cfgs : List CfgS} {m : MId} {fuel : Nat} {st st' : IState} {g : GId} {c : NId}
    {f : GId} {tops : List NId} (hc : inlineCall fuel st g c f = some (st', tops)) (h : WJ C cfgs m st.w) :
    WJ C cfgs m st'.w := by
  unfold inlineCall at hc
  simp only at hc
  split at hc
  · cases hc
  split at hc
  · cases hc
  cases h1 : cloneNodesO (cloneGraphOF fuel)
      { w := st.w, t := st.t, vm := (zipPadO (st.w.graph f).inputs (st.w.node c).inputs).reverse, used := st.used,
        subst := st.subst ++ (st.w.node c).inputs.filterMap id } (st.w.graph f).nodes [] with
  | none => simp [h1] at hc
  | some r =>
    obtain ⟨cl, tops0⟩ := r
    simp only [h1] at hc
    have hcl : WJ C cfgs m cl.w := cloneNodesO_WJ (cloneGraphOF_WJ C cfgs m fuel) _ _ _ _ _ h1 h
    cases h2 : fwdOutsO cl.vm (Fwd.mk cl.w cl.used ((tops0.map (fun k => (cl.w.node k).outputs)).flatten) [] [])
        (cl.t.outsOf f) with
    | none => simp [h2] at hc
    | some fw =>
      simp only [h2] at hc
      have hfw : WJ C cfgs m fw.w := fwdOutsO_WJ _ _ _ _ h2 hcl
      split at hc
      · cases hc
      generalize hr : removeNode _ g c true = r at hc
      obtain ⟨w4, res⟩ := r
      cases res with
      | raised => simp at hc
      | ok =>
        simp only [Option.some.injEq, Prod.mk.injEq] at hc
        obtain ⟨rfl, _⟩ := hc
        have hw4 : w4 = (w4, Res.ok).1 := rfl
        rw [hw4, ← hr]
        apply removeNode_WJ
        obtain ⟨a, b, c', _⟩ := copyInfo_same ((st.w.node c).outputs.zip fw.outvals) fw.w
        have h3 := rauwAll_WJ ((st.w.node c).outputs.zip fw.outvals) _ (hfw.of_eq a b c')
        refine WJ.mapModels (h3.of_eq (w' := (rauwAll (copyInfo fw.w ((st.w.node c).outputs.zip fw.outvals))
          ((st.w.node c).outputs.zip fw.outvals)).setGraph g _) rfl rfl rfl) _ ?_ rfl rfl rfl
        intro x; split <;> rfl

def RecOKi (C : List CId) (cfgs : List CfgS) (m : MId) (rec : IState → GId → Option IState) : Prop :=
  ∀ st g st', rec st g = some st' → WJ C cfgs m st.w → WJ C cfgs m st'.w

theorem inlSubs_WJ {C : List CId} {cfgs : List CfgS} {m : MId} {rec : IState → GId → Option IState}
    (hrec : RecOKi C cfgs m rec) : ∀ (gs : List GId) (st st' : IState),
    inlSubs rec st gs = some st' → WJ C cfgs m st.w → WJ C cfgs m st'.w := by
  intro gs
  induction gs with
  | nil => intro st st' hc h; simp only [inlSubs, Option.some.injEq] at hc; subst hc; exact h
  | cons g rest ih =>
    intro st st' hc h
    simp only [inlSubs] at hc
    cases h1 : rec st g with
    | none => simp [h1] at hc
    | some st1 =>
      simp only [h1] at hc
      exact ih st1 st' hc (hrec st g st1 h1 h)

theorem inlNodes_WJ {C : List CId} {cfgs : List CfgS} {m : MId} {rec : IState → GId → Option IState}
    (hrec : RecOKi C cfgs m rec) (fuel : Nat) (g : GId) : ∀ (k : Nat) (st st' : IState) (ns : List NId),
    inlNodes rec fuel g k st ns = some st' → WJ C cfgs m st.w → WJ C cfgs m st'.w := by
  intro k
  induction k with
  | zero => intro st st' ns hc _; simp [inlNodes] at hc
  | succ k ih =>
    intro st st' ns hc h
    cases ns with
    | nil => simp only [inlNodes, Option.some.injEq] at hc; subst hc; exact h
    | cons n rest =>
      simp only [inlNodes] at hc
      cases hcal : st.t.calleeOf n with
      | some f =>
        simp only [hcal] at hc
        cases h1 : inlineCall fuel st g n f with
        | none => simp [h1] at hc
        | some r =>
          obtain ⟨st1, tops⟩ := r
          simp only [h1] at hc
          exact ih st1 st' _ hc (inlineCall_WJ h1 h)
      | none =>
        simp only [hcal] at hc
        cases h1 : inlSubs rec st (st.w.node n).subgraphs with
        | none => simp [h1] at hc
        | some st1 =>
          simp only [h1] at hc
          exact ih st1 st' _ hc (inlSubs_WJ hrec _ _ _ h1 h)

theorem inlGraphF_WJ (C : List CId) (cfgs : List CfgS) (m : MId) (fuel : Nat) :
    ∀ (d : Nat), RecOKi C cfgs m (inlGraphF fuel d) := by
  intro d
  induction d with
  | zero => intro st g st' hc _; simp [inlGraphF] at hc
  | succ d ih =>
    intro st g st' hc h
    simp only [inlGraphF] at hc
    exact inlNodes_WJ ih fuel g fuel _ _ _ hc h

theorem inlFuncs_WJ {C : List CId} {cfgs : List CfgS} {m : MId} (fuel : Nat) : ∀ (fs : List GId) (st st' : IState),
    inlFuncs fuel st fs = some st' → WJ C cfgs m st.w → WJ C cfgs m st'.w := by
  intro fs
  induction fs with
  | nil => intro st st' hc h; simp only [inlFuncs, Option.some.injEq] at hc; subst hc; exact h
  | cons f rest ih =>
    intro st st' hc h
    simp only [inlFuncs] at hc
    split at hc
    · exact ih st st' hc h
    · cases h1 : inlGraphF fuel fuel st f with
      | none => simp [h1] at hc
      | some st1 =>
        simp only [h1] at hc
        exact ih st1 st' hc (inlGraphF_WJ C cfgs m fuel fuel st f st1 h1 h)

theorem setModel_model_cfgs (w : World) (m : MId) (ms' : ModelS) (hc : ms'.cfgs = (w.model m).cfgs) :
    ((w.setModel m ms').model m).cfgs = (w.model m).cfgs := by
  simp only [World.model, World.setModel, List.getD_eq_getElem?_getD, List.getElem?_set]
  by_cases hm : m < w.models.length
  · simp only [hm, if_true, Option.getD_some]
    rw [hc]; simp [World.model, List.getD_eq_getElem?_getD]
  · simp [hm]

theorem dropFuncs_WJ {C : List CId} {cfgs : List CfgS} {m : MId} {w : World} (h : WJ C cfgs m w) (inl : List GId) :
    WJ C cfgs m (dropFuncs w m inl) := by
  unfold dropFuncs
  refine ⟨h.hcfgs, ?_, h.hnodes⟩
  simp only
  refine Eq.trans (setModel_model_cfgs w m _ ?_) h.hreg
  rfl

/-- `inlinePass` keeps the invariant -/
theorem inlinePass_WJ {C : List CId} {cfgs : List CfgS} {m : MId} {fuel : Nat} {w : World} {t : ITab} {r : IOut}
    (hc : inlinePass fuel w m t = some r) (h : WJ C cfgs m w) : WJ C cfgs m r.w := by
  unfold inlinePass at hc
  simp only at hc
  cases h1 : inlGraphF fuel fuel { w := w, t := t } (w.model m).graph with
  | none => simp [h1] at hc
  | some st1 =>
    simp only [h1] at hc
    cases h2 : inlFuncs fuel st1 (w.model m).funcs with
    | none => simp [h2] at hc
    | some st2 =>
      simp only [h2, Option.some.injEq] at hc
      subst hc
      exact dropFuncs_WJ (inlFuncs_WJ fuel _ _ _ h2 (inlGraphF_WJ C cfgs m fuel fuel _ _ _ h1 h)) _

/-- the invariant holds of a world satisfying `DevOK` whose heap is annotated with configurations of `m` only -/
theorem WJ_of_DevOK {w : World} (h : DevOK w) (m : MId) (hreg : HeapReg w m) :
    WJ (w.model m).cfgs w.cfgs m w := by
  refine ⟨rfl, rfl, ?_⟩
  intro nd hnd
  obtain ⟨_, hnodup, hall⟩ := h.1 nd hnd
  refine ⟨hnodup, ?_⟩
  intro nc hnc
  obtain ⟨_, b, _, d⟩ := hall nc hnc
  refine ⟨hreg nd hnd nc hnc, b, ?_⟩
  intro s hs
  obtain ⟨e1, _, _, e3, e4⟩ := d s hs
  exact ⟨e1, e3, e4⟩

/-! ### the checker on a world satisfying the weaker invariant -/

theorem checkDims_kinds (rank : Option Nat) : ∀ (dims : List SDim) (seen : List Int),
    (∀ d ∈ dims, 1 ≤ d.numShards) → ∀ e ∈ checkDims rank seen dims, e = Err.axisRange ∨ e = Err.axisRepeat := by
  intro dims
  induction dims with
  | nil => intro seen _ e he; simp [checkDims] at he
  | cons d rest ih =>
    intro seen h3 e he
    have hd3 : ¬ d.numShards < 1 := by have := h3 d (by simp); omega
    have h3' : ∀ x ∈ rest, 1 ≤ x.numShards := fun x hx => h3 x (by simp [hx])
    by_cases hb : AxisBad rank d.axis
    · simp only [checkDims, hb, hd3, if_true, if_false, List.mem_append, List.mem_singleton] at he
      rcases he with he | he
      · exact Or.inl he
      · exact ih seen h3' e he
    · simp only [checkDims, hb, hd3, if_false, List.append_nil, List.mem_append] at he
      rcases he with he | he
      · split at he
        · simp only [List.mem_singleton] at he; exact Or.inr he
        · simp at he
      · exact ih _ h3' e he

/-- under `NodeWeak` (relative to the model's registrations, whose names are non-empty and pairwise different)
    the checker reports for a node at most: empty value name, axis out of range, axis repeated; and for a spec
    whose axes are fine nothing but the empty name -/
theorem checkNode_weak {w : World} {ms : ModelS} {nd : NodeS} (hn : NodeWeak ms.cfgs w.cfgs nd)
    (hm2 : ∀ c ∈ ms.cfgs, c < w.cfgs.length ∧ (w.cfg c).name ≠ "")
    (hm3 : (ms.cfgs.map (fun c => (w.cfg c).name)).Nodup) :
    ∀ e ∈ checkNode w ms nd, e = Err.valEmptyName ∨ e = Err.axisRange ∨ e = Err.axisRepeat := by
  intro e he
  unfold checkNode at he
  simp only [List.mem_flatten, List.mem_map] at he
  obtain ⟨l, ⟨nc, hnc, rfl⟩, hel⟩ := he
  obtain ⟨hc, _, hsp⟩ := hn.2 nc hnc
  have hname := (hm2 nc.cfg hc).2
  have hk := knownCfg_of_mem hm3 hc
  unfold checkCfg at hel
  simp only [hname, if_false, hk, ne_eq, not_true_eq_false, List.nil_append] at hel
  simp only [List.mem_flatten, List.mem_map] at hel
  obtain ⟨l2, ⟨s, hs, rfl⟩, hel2⟩ := hel
  obtain ⟨hio, hsh, hdv⟩ := hsp s hs
  unfold checkSpec at hel2
  have hdev : s.device.filter (fun d => decide (¬ (0 ≤ d ∧ d < (w.cfg nc.cfg).numDevices))) = [] := by
    rw [List.filter_eq_nil_iff]
    intro d hd
    simp only [decide_eq_true_eq, Classical.not_not]
    exact hdv d hd
  simp only [hio, if_true, hdev, List.map_nil, List.append_nil, List.mem_append] at hel2
  rcases hel2 with hel2 | hel2
  · split at hel2
    · simp at hel2; exact Or.inl hel2
    · simp at hel2
  · exact Or.inr (checkDims_kinds _ _ _ hsh e hel2)

end IrVerif.Device

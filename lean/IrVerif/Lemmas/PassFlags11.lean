/-
C14 (second deepening): InlinePass, the loop over `model.functions` and the whole run.  Core Lean only.
-/
import IrVerif.Lemmas.PassFlags10
namespace IrVerif.PassFlags
open IrVerif.Sem IrVerif.Passes IrVerif.Inline

theorem findFunc_isSome (tbl : List Func) (op : OpId) :
    (findFunc tbl op).isSome = true ↔ op ∈ tbl.map (·.id) := by
  simp only [findFunc, List.find?_isSome, List.mem_map, beq_iff_eq]

theorem inlClean_congr {tbl tbl' : List Func} (crit : OpId → Bool) (h : tbl.map (·.id) = tbl'.map (·.id)) :
    inlClean tbl crit = inlClean tbl' crit := by
  funext op
  have : (findFunc tbl op).isSome = (findFunc tbl' op).isSome := by
    rw [Bool.eq_iff_iff, findFunc_isSome, findFunc_isSome, h]
  simp only [inlClean, this]

theorem replaceFunc_ids (tbl : List Func) (f' : Func) : (replaceFunc tbl f').map (·.id) = tbl.map (·.id) := by
  simp only [replaceFunc, List.map_map]
  apply List.map_congr_left
  intro f _
  simp only [Function.comp]
  split
  · next h => exact (eq_of_beq h).symm
  · rfl

theorem inj_of_nodup_map {α β : Type} (φ : α → β) : ∀ l : List α, (l.map φ).Nodup →
    ∀ a ∈ l, ∀ b ∈ l, φ a = φ b → a = b
  | [], _ => fun a ha => by cases ha
  | x :: l, h => fun a ha b hb e => by
    simp only [List.map_cons, List.nodup_cons, List.mem_map, not_exists, not_and] at h
    rcases List.mem_cons.1 ha with rfl | ha' <;> rcases List.mem_cons.1 hb with rfl | hb'
    · rfl
    · exact absurd e.symm (h.1 b hb')
    · exact absurd e (h.1 a ha')
    · exact inj_of_nodup_map φ l h.2 a ha' b hb' e

theorem replaceFunc_self (tbl : List Func) (f : Func) (hn : (tbl.map (·.id)).Nodup) (hf : f ∈ tbl) :
    replaceFunc tbl f = tbl := by
  simp only [replaceFunc]
  conv => rhs; rw [← List.map_id tbl]
  apply List.map_congr_left
  intro g hg
  split
  · next h => exact (inj_of_nodup_map (·.id) tbl hn g hg f hf (eq_of_beq h)).symm
  · rfl

theorem inlFuncs_le (crit : OpId → Bool) (budget : Nat) : ∀ (ids : List OpId) (st : ISt) (tbl : List Func),
    StLe st (inlFuncs crit budget st tbl ids).1
  | [], st, tbl => by simp only [inlFuncs]; exact StLe.refl _
  | id :: rest, st, tbl => by
    simp only [inlFuncs]
    split
    · exact inlFuncs_le crit budget rest st tbl
    · split
      · exact inlFuncs_le crit budget rest st tbl
      · exact (inlNodes_le tbl crit _ (inlAt_mono tbl crit budget) _ st [] _).trans (inlFuncs_le crit budget rest _ _)

theorem inlFuncs_ids (crit : OpId → Bool) (budget : Nat) : ∀ (ids : List OpId) (st : ISt) (tbl : List Func),
    (inlFuncs crit budget st tbl ids).2.map (·.id) = tbl.map (·.id)
  | [], st, tbl => by simp only [inlFuncs]
  | id :: rest, st, tbl => by
    simp only [inlFuncs]
    split
    · exact inlFuncs_ids crit budget rest st tbl
    · split
      · exact inlFuncs_ids crit budget rest st tbl
      · rw [inlFuncs_ids crit budget rest _ _, replaceFunc_ids]


theorem inlFuncs_cons_inl (crit : OpId → Bool) (budget : Nat) (st : ISt) (tbl : List Func) (id : OpId)
    (rest : List OpId) (h : st.inlined.contains id = true) :
    inlFuncs crit budget st tbl (id :: rest) = inlFuncs crit budget st tbl rest := by
  rw [inlFuncs, if_pos h]

theorem inlFuncs_cons_none (crit : OpId → Bool) (budget : Nat) (st : ISt) (tbl : List Func) (id : OpId)
    (rest : List OpId) (h : st.inlined.contains id = false) (hf : findFunc tbl id = none) :
    inlFuncs crit budget st tbl (id :: rest) = inlFuncs crit budget st tbl rest := by
  rw [inlFuncs, if_neg (by rw [h]; decide), hf]

theorem inlFuncs_cons_some (crit : OpId → Bool) (budget : Nat) (st : ISt) (tbl : List Func) (id : OpId)
    (rest : List OpId) (f : Func) (h : st.inlined.contains id = false) (hf : findFunc tbl id = some f) :
    inlFuncs crit budget st tbl (id :: rest) =
      inlFuncs crit budget (inlNodes tbl crit (inlAt tbl crit budget) st [] f.outputs f.nodes).st
        (replaceFunc tbl { f with nodes := (inlNodes tbl crit (inlAt tbl crit budget) st [] f.outputs f.nodes).nodes,
                                  outputs := (inlNodes tbl crit (inlAt tbl crit budget) st [] f.outputs f.nodes).outs })
        rest := by
  rw [inlFuncs, if_neg (by rw [h]; decide), hf]

/-- every function whose turn has come is inlined (and will be deleted) or free of accepted calls -/
theorem inlFuncs_clean (crit : OpId → Bool) (budget : Nat) (P : OpId → Bool) :
    ∀ (ids : List OpId) (st : ISt) (tbl : List Func), inlClean tbl crit = P →
      (∀ g ∈ tbl, g.id ∉ ids → opsAllNodes P g.nodes = true ∨ st.inlined.contains g.id = true) →
      (inlFuncs crit budget st tbl ids).1.stuck = false →
      ∀ f ∈ (inlFuncs crit budget st tbl ids).2,
        opsAllNodes P f.nodes = true ∨ (inlFuncs crit budget st tbl ids).1.inlined.contains f.id = true
  | [], st, tbl, _, hpre, _ => by
    simp only [inlFuncs]
    exact fun f hf => hpre f hf (by simp)
  | id :: rest, st, tbl, hP, hpre, hs => by
    cases hin : st.inlined.contains id with
    | true =>
      rw [inlFuncs_cons_inl crit budget st tbl id rest hin] at hs ⊢
      refine inlFuncs_clean crit budget P rest st tbl hP (fun g hg hr => ?_) hs
      by_cases hgi : g.id = id
      · exact Or.inr (hgi ▸ hin)
      · exact hpre g hg (by simp only [List.mem_cons, not_or]; exact ⟨hgi, hr⟩)
    | false =>
      cases hfind : findFunc tbl id with
      | none =>
        rw [inlFuncs_cons_none crit budget st tbl id rest hin hfind] at hs ⊢
        refine inlFuncs_clean crit budget P rest st tbl hP (fun g hg hr => ?_) hs
        have hgi : g.id ≠ id := by
          intro e
          have := List.find?_eq_none.1 hfind g hg
          simp [e] at this
        exact hpre g hg (by simp only [List.mem_cons, not_or]; exact ⟨hgi, hr⟩)
      | some f =>
        rw [inlFuncs_cons_some crit budget st tbl id rest f hin hfind] at hs ⊢
        have hfid : f.id = id := by
          have := List.find?_some (p := fun f : Func => f.id == id) hfind
          exact eq_of_beq this
        have hle := inlFuncs_le crit budget rest
          (inlNodes tbl crit (inlAt tbl crit budget) st [] f.outputs f.nodes).st
          (replaceFunc tbl { f with nodes := (inlNodes tbl crit (inlAt tbl crit budget) st [] f.outputs f.nodes).nodes,
                                    outputs := (inlNodes tbl crit (inlAt tbl crit budget) st [] f.outputs f.nodes).outs })
        have hcl := inlNodes_clean tbl crit _ (inlAt_mono tbl crit budget) (inlAt_clean tbl crit budget)
          f.nodes st [] f.outputs (hle.stuck_false hs)
        rw [hP] at hcl
        have hmono := inlNodes_le tbl crit _ (inlAt_mono tbl crit budget) f.nodes st [] f.outputs
        refine inlFuncs_clean crit budget P rest _ _ ?_ (fun g' hg' hr => ?_) hs
        · rw [← hP]; exact (inlClean_congr crit (replaceFunc_ids tbl _))
        · simp only [replaceFunc, List.mem_map] at hg'
          obtain ⟨g, hg, rfl⟩ := hg'
          split
          · exact Or.inl hcl
          · next hne =>
            have hgi : g.id ≠ id := by
              intro e
              apply hne
              simp [e, hfid]
            have hr' : g.id ∉ rest := by
              intro hh
              apply hr
              simp only [hne, Bool.false_eq_true, if_false]
              exact hh
            rcases hpre g hg (by simp only [List.mem_cons, not_or]; exact ⟨hgi, hr'⟩) with h | h
            · exact Or.inl h
            · exact Or.inr (hmono.inl _ h)

theorem contains_nil_false (op : OpId) : ([] : List OpId).contains op = false := rfl

/-- a table whose bodies hold no accepted call is left as it is -/
theorem inlFuncs_id (crit : OpId → Bool) (budget : Nat) : ∀ (ids : List OpId) (st : ISt) (tbl : List Func),
    st.inlined = [] → (tbl.map (·.id)).Nodup →
    (∀ f ∈ tbl, opsAllNodes (inlClean tbl crit) f.nodes = true) → inlFuncs crit budget st tbl ids = (st, tbl)
  | [], st, tbl, _, _, _ => by simp only [inlFuncs]
  | id :: rest, st, tbl, hi, hn, hc => by
    have hin : st.inlined.contains id = false := by rw [hi]; rfl
    cases hfind : findFunc tbl id with
    | none =>
      rw [inlFuncs_cons_none crit budget st tbl id rest hin hfind]
      exact inlFuncs_id crit budget rest st tbl hi hn hc
    | some f =>
      rw [inlFuncs_cons_some crit budget st tbl id rest f hin hfind]
      have hf : f ∈ tbl := List.mem_of_find?_eq_some hfind
      rw [inlNodes_id tbl crit _ f.nodes st f.outputs (hc f hf)]
      have : ({ f with nodes := f.nodes, outputs := f.outputs } : Func) = f := rfl
      simp only [this, replaceFunc_self tbl f hn hf]
      exact inlFuncs_id crit budget rest st tbl hi hn hc

/-- a loop that does not count leaves the table as it is -/
theorem inlFuncs_cnt (crit : OpId → Bool) (budget : Nat) : ∀ (ids : List OpId) (st : ISt) (tbl : List Func),
    st.inlined = [] → (tbl.map (·.id)).Nodup →
    (inlFuncs crit budget st tbl ids).1.count = st.count → inlFuncs crit budget st tbl ids = (st, tbl)
  | [], st, tbl, _, _, _ => by simp only [inlFuncs]
  | id :: rest, st, tbl, hi, hn, h => by
    have hin : st.inlined.contains id = false := by rw [hi]; rfl
    cases hfind : findFunc tbl id with
    | none =>
      rw [inlFuncs_cons_none crit budget st tbl id rest hin hfind] at h ⊢
      exact inlFuncs_cnt crit budget rest st tbl hi hn h
    | some f =>
      rw [inlFuncs_cons_some crit budget st tbl id rest f hin hfind] at h ⊢
      have hf : f ∈ tbl := List.mem_of_find?_eq_some hfind
      have h1 := (inlNodes_le tbl crit _ (inlAt_mono tbl crit budget) f.nodes st [] f.outputs).count
      have h2 := (inlFuncs_le crit budget rest
        (inlNodes tbl crit (inlAt tbl crit budget) st [] f.outputs f.nodes).st
        (replaceFunc tbl { f with nodes := (inlNodes tbl crit (inlAt tbl crit budget) st [] f.outputs f.nodes).nodes,
                                  outputs := (inlNodes tbl crit (inlAt tbl crit budget) st [] f.outputs f.nodes).outs })).count
      have hcl := inlNodes_cnt tbl crit _ (inlAt_mono tbl crit budget) f.nodes st [] f.outputs (by omega)
      rw [inlNodes_id tbl crit _ f.nodes st f.outputs hcl] at h ⊢
      have : ({ f with nodes := f.nodes, outputs := f.outputs } : Func) = f := rfl
      simp only [this, replaceFunc_self tbl f hn hf] at h ⊢
      exact inlFuncs_cnt crit budget rest st tbl hi hn h

/-! ## the whole run -/

def run1 (crit : OpId → Bool) (m : FModel) : ISt × FGraph :=
  inlG m.funcs crit (inlAt m.funcs crit m.funcs.length) ⟨freshF m, [], 0, false, false⟩ [] m.graph
def run2 (crit : OpId → Bool) (m : FModel) : ISt × List Func :=
  inlFuncs crit m.funcs.length (run1 crit m).1 m.funcs (m.funcs.map (·.id))

theorem inlineRun_eq (crit : OpId → Bool) (m : FModel) : inlineRun crit m =
    ⟨{ graph := (run1 crit m).2,
       funcs := (run2 crit m).2.filter (fun f => !(run2 crit m).1.inlined.contains f.id),
       domains := m.domains }, (run2 crit m).1, (run2 crit m).2⟩ := rfl

/-- a run that is not stuck leaves no accepted call: not in the main graph, not in a remaining function -/
theorem inlineRun_clean (crit : OpId → Bool) (m : FModel) (h : (inlineRun crit m).st.stuck = false) :
    opsAllG (inlClean m.funcs crit) (inlineRun crit m).model.graph = true ∧
    ∀ f ∈ (inlineRun crit m).model.funcs, opsAllNodes (inlClean m.funcs crit) f.nodes = true := by
  rw [inlineRun_eq] at h ⊢
  simp only at h ⊢
  have h1 : (run1 crit m).1.stuck = false := (inlFuncs_le crit _ _ _ _).stuck_false h
  refine ⟨inlG_clean m.funcs crit _ (inlAt_mono _ _ _) (inlAt_clean _ _ _) m.graph _ [] h1, fun f hf => ?_⟩
  simp only [List.mem_filter, Bool.not_eq_true'] at hf
  simp only [run2] at h hf
  rcases inlFuncs_clean crit m.funcs.length (inlClean m.funcs crit) (m.funcs.map (fun f : Func => f.id)) (run1 crit m).1 m.funcs rfl
    (fun g hg hn => absurd (List.mem_map_of_mem hg) hn) h f hf.1 with hc | hc
  · exact hc
  · have := hf.2
    rw [hc] at this
    exact absurd this (by decide)

theorem inlineRun_ids (crit : OpId → Bool) (m : FModel) :
    ∃ l : List Func, (inlineRun crit m).model.funcs = l.filter (fun f => !(inlineRun crit m).st.inlined.contains f.id) ∧
      l.map (·.id) = m.funcs.map (·.id) :=
  ⟨(run2 crit m).2, rfl, inlFuncs_ids crit _ _ _ _⟩

theorem inlineRun_ids_sub (crit : OpId → Bool) (m : FModel) :
    ∀ op, op ∈ (inlineRun crit m).model.funcs.map (·.id) → op ∈ m.funcs.map (·.id) := by
  obtain ⟨l, h1, h2⟩ := inlineRun_ids crit m
  intro op hop
  rw [h1] at hop
  rw [← h2]
  exact (List.filter_sublist.map _).subset hop

theorem inlineRun_ids_nodup (crit : OpId → Bool) (m : FModel) (hn : (m.funcs.map (·.id)).Nodup) :
    ((inlineRun crit m).model.funcs.map (·.id)).Nodup := by
  obtain ⟨l, h1, h2⟩ := inlineRun_ids crit m
  rw [h1]
  rw [← h2] at hn
  exact List.Pairwise.sublist (List.filter_sublist.map _) hn

/-- a model without accepted calls is returned as it is, nothing is counted, the run is not stuck -/
theorem inlineRun_id (crit : OpId → Bool) (m : FModel) (hn : (m.funcs.map (·.id)).Nodup)
    (hg : opsAllG (inlClean m.funcs crit) m.graph = true)
    (hf : ∀ f ∈ m.funcs, opsAllNodes (inlClean m.funcs crit) f.nodes = true) :
    (inlineRun crit m).model = m ∧ (inlineRun crit m).st.count = 0 ∧ (inlineRun crit m).st.stuck = false := by
  have e1 : run1 crit m = (⟨freshF m, [], 0, false, false⟩, m.graph) := inlG_id m.funcs crit _ m.graph _ hg
  have e2 : run2 crit m = (⟨freshF m, [], 0, false, false⟩, m.funcs) := by
    simp only [run2, e1]
    exact inlFuncs_id crit _ _ _ m.funcs rfl hn hf
  rw [inlineRun_eq]
  simp only [e1, e2, contains_nil_false, Bool.not_false, and_self, and_true]
  have : List.filter (fun _ => true) m.funcs = m.funcs := List.filter_eq_self.2 (fun _ _ => rfl)
  rw [this]

/-- a run that counts nothing returns the model it was given -/
theorem inlineRun_cnt0 (crit : OpId → Bool) (m : FModel) (hn : (m.funcs.map (·.id)).Nodup)
    (h : (inlineRun crit m).st.count = 0) : (inlineRun crit m).model = m := by
  rw [inlineRun_eq] at h ⊢
  simp only at h
  have h1 := (inlG_le m.funcs crit _ (inlAt_mono m.funcs crit m.funcs.length) m.graph
    ⟨freshF m, [], 0, false, false⟩ []).count
  have h2 := (inlFuncs_le crit m.funcs.length (m.funcs.map (·.id)) (run1 crit m).1 m.funcs).count
  have hc : (run1 crit m).1.count = 0 := by
    simp only [run1, run2] at h h2 ⊢
    omega
  have hg := inlG_cnt m.funcs crit _ (inlAt_mono m.funcs crit m.funcs.length) m.graph
    ⟨freshF m, [], 0, false, false⟩ [] hc
  have e1 : run1 crit m = (⟨freshF m, [], 0, false, false⟩, m.graph) := inlG_id m.funcs crit _ m.graph _ hg
  have e2 : run2 crit m = (⟨freshF m, [], 0, false, false⟩, m.funcs) := by
    simp only [run2, e1] at h ⊢
    exact inlFuncs_cnt crit _ _ _ m.funcs rfl hn h
  simp only [e1, e2, contains_nil_false, Bool.not_false]
  have : List.filter (fun _ => true) m.funcs = m.funcs := List.filter_eq_self.2 (fun _ _ => rfl)
  rw [this]

end IrVerif.PassFlags

/-
Fuel-free runs of the recursive iterator with lazily read attributes (`tStep`), frame completion,
complete visits of subgraphs, whole stacks.
-/
import IrVerif.Lemmas.Traversal
namespace IrVerif.LinkedSet

/-- `TSteps w d st outs st'`: from `st` the generator stack runs (through any number of yields) to
    `st'`, producing `outs`, without finishing and without raising -/
inductive TSteps (w : TWorld) (d : Dir) : List TFrame → List Out → List TFrame → Prop
  | refl (st : List TFrame) : TSteps w d st [] st
  | step {st st1 st' : List TFrame} {o outs : List Out} {r : Option Res} :
      tStep w d st = (st1, o, r) → (r = none ∨ ∃ v, r = some (.yield v)) →
      TSteps w d st1 outs st' → TSteps w d st (o ++ outs) st'

theorem TSteps.trans {w : TWorld} {d : Dir} {a b c : List TFrame} {o1 o2 : List Out}
    (h1 : TSteps w d a o1 b) (h2 : TSteps w d b o2 c) : TSteps w d a (o1 ++ o2) c := by
  induction h1 with
  | refl => simpa using h2
  | step e hr _ ih => rw [List.append_assoc]; exact .step e hr (ih h2)

theorem TSteps.one {w : TWorld} {d : Dir} {st st1 : List TFrame} {o : List Out} {r : Option Res}
    (e : tStep w d st = (st1, o, r)) (hr : r = none ∨ ∃ v, r = some (.yield v)) :
    TSteps w d st o st1 := by
  have := TSteps.step e hr (TSteps.refl st1)
  simpa using this

theorem TSteps.drain {w : TWorld} {d : Dir} {st st' : List TFrame} {outs : List Out}
    (h : TSteps w d st outs st') :
    ∃ n, ∀ f, tDrain w d (n + f) st = (outs ++ (tDrain w d f st').1, (tDrain w d f st').2) := by
  induction h with
  | refl st => exact ⟨0, fun f => by simp⟩
  | @step st st1 st' o outs r e hr _ ih =>
    obtain ⟨n, hn⟩ := ih
    refine ⟨n + 1, fun f => ?_⟩
    have e1 : n + 1 + f = (n + f) + 1 := by omega
    rw [e1]
    rcases hr with rfl | ⟨v, rfl⟩
    · simp only [tDrain, e, hn f, List.append_assoc]
    · simp only [tDrain, e, hn f, List.append_assoc]

theorem tDrain_nil (w : TWorld) (d : Dir) (f : Nat) : tDrain w d (f + 1) [] = ([], .stop) := by
  simp [tDrain, tStep]

/-- a run that empties the stack: the iterator is exhausted, for every sufficiently large fuel -/
theorem TSteps.drain_all {w : TWorld} {d : Dir} {st : List TFrame} {outs : List Out}
    (h : TSteps w d st outs []) : ∃ n, ∀ f, n ≤ f → tDrain w d f st = (outs, .stop) := by
  obtain ⟨n, hn⟩ := h.drain
  refine ⟨n + 1, fun f hf => ?_⟩
  obtain ⟨k, rfl⟩ : ∃ k, f = n + (k + 1) := ⟨f - n - 1, by omega⟩
  rw [hn (k + 1), tDrain_nil]; simp

/-- a run that ends in the dict iterator's RuntimeError -/
theorem TSteps.drain_raised {w : TWorld} {d : Dir} {st st' st2 : List TFrame} {outs o : List Out}
    (h : TSteps w d st outs st') (e : tStep w d st' = (st2, o, some .raised)) :
    ∃ n, ∀ f, n ≤ f → tDrain w d f st = (outs ++ o, .raised) := by
  obtain ⟨n, hn⟩ := h.drain
  refine ⟨n + 1, fun f hf => ?_⟩
  obtain ⟨k, rfl⟩ : ∃ k, f = n + (k + 1) := ⟨f - n - 1, by omega⟩
  rw [hn (k + 1)]; simp [tDrain, e]

/-! ### frame completion -/

theorem tLoop_nil (V : Nat → List Out) (w : TWorld) (d : Dir) (g : Nat) :
    tLoop V w d g [] = [Out.exit g] := by simp [tLoop]

theorem tLoop_cons (V : Nat → List Out) (w : TWorld) (d : Dir) (g v : Nat) (l : List Nat) :
    tLoop V w d g (v :: l) = Out.yield g v :: (tAfter V w d v ++ tLoop V w d g l) := by
  simp [tLoop]

section
variable {w : TWorld} {d : Dir} {V : Nat → List Out} {body : Nat → List Out} {P : Nat → Prop}

/-- the graphs of the `GRAPHS` tuple that is being walked are visited one after the other -/
theorem tsteps_pending (hV : ∀ h, P h → V h = Out.enter h :: body h)
    (hC : ∀ h fr' rest, P h → TSteps w d (TFrame.fresh h :: fr' :: rest) (body h) (fr' :: rest))
    (v : Nat) (it : DictIter) :
    ∀ (ps : List Nat) (fr : TFrame) (rest : List TFrame), fr.mode = .expand v it ps → (∀ h ∈ ps, P h) →
      TSteps w d (fr :: rest) (ps.flatMap V) ({ fr with mode := .expand v it [] } :: rest)
  | [], fr, rest, hm, _ => by
      have : ({ fr with mode := .expand v it [] } : TFrame) = fr := by cases fr; simp_all
      rw [this]; exact .refl _
  | h :: ps, fr, rest, hm, hk => by
      have e := tStep_pend w d fr rest v it h ps hm
      have s1 := TSteps.one e (Or.inl rfl)
      have s2 := hC h { fr with mode := .expand v it ps } rest (hk h (by simp))
      have s3 := tsteps_pending hV hC v it ps { fr with mode := .expand v it ps } rest rfl
        (fun x hx => hk x (by simp [hx]))
      have := (s1.trans s2).trans s3
      simpa [List.flatMap_cons, hV h (hk h (by simp))] using this

/-- the remaining attributes of the node that is being expanded are read one after the other, each
    subgraph visited completely; then the frame is back in its loop over the nodes -/
theorem tsteps_entries (hV : ∀ h, P h → V h = Out.enter h :: body h)
    (hC : ∀ h fr' rest, P h → TSteps w d (TFrame.fresh h :: fr' :: rest) (body h) (fr' :: rest))
    (v : Nat) :
    ∀ (l : List (Nat × AVal)) (it : DictIter) (fr : TFrame) (rest : List TFrame),
      fr.mode = .expand v it [] → itOk (w.dictOf v) it = true → itRest (w.dictOf v) it = l →
      (∀ e ∈ l, ∀ h ∈ e.2.graphsOf d, P h) →
      TSteps w d (fr :: rest) (l.flatMap (fun e => (e.2.graphsOf d).flatMap V)) ({ fr with mode := .loop } :: rest)
  | [], it, fr, rest, hm, hok, hl, _ => by
      have := next_synced hok
      rw [hl] at this
      have e := tStep_entries_end w d fr rest v it hm this
      simpa using TSteps.one e (Or.inl rfl)
  | (k, a) :: tl, it, fr, rest, hm, hok, hl, hp => by
      have := next_synced hok
      rw [hl] at this
      obtain ⟨it', hn, hok', hl'⟩ := this
      have e := tStep_entry w d fr rest v it it' k a hm hn
      have hpa : ∀ h ∈ a.graphsOf d, P h := hp (k, a) (by simp)
      have hptl : ∀ e ∈ tl, ∀ h ∈ e.2.graphsOf d, P h := fun e he => hp e (by simp [he])
      have tail : TSteps w d ({ fr with mode := .expand v it' [] } :: rest)
          (tl.flatMap (fun e => (e.2.graphsOf d).flatMap V)) ({ fr with mode := .loop } :: rest) := by
        have := tsteps_entries hV hC v tl it' { fr with mode := .expand v it' [] } rest rfl hok' hl' hptl
        simpa using this
      cases a with
      | graph h =>
        simp only at e
        have s1 := TSteps.one e (Or.inl rfl)
        have s2 := hC h { fr with mode := .expand v it' [] } rest (hpa h (by simp [AVal.graphsOf]))
        have := (s1.trans s2).trans tail
        simpa [List.flatMap_cons, AVal.graphsOf, hV h (hpa h (by simp [AVal.graphsOf]))] using this
      | graphs hs =>
        simp only at e
        have s1 := TSteps.one e (Or.inl rfl)
        have s2 := tsteps_pending hV hC v it' (if d = .rev then hs.reverse else hs)
          { fr with mode := .expand v it' (if d = .rev then hs.reverse else hs) } rest rfl
          (fun h hh => hpa h (by simpa [AVal.graphsOf] using hh))
        have := (s1.trans s2).trans (by simpa using tail)
        simpa [List.flatMap_cons, AVal.graphsOf] using this
      | other =>
        simp only at e
        have s1 := TSteps.one e (Or.inl rfl)
        have := s1.trans tail
        simpa [List.flatMap_cons, AVal.graphsOf] using this

/-- all subgraphs a frame is going to enter satisfy `P` -/
structure FutureP (P : Nat → Prop) (w : TWorld) (d : Dir) (fr : TFrame) : Prop where
  last : ∀ v, fr.mode = .last v → w.recurse v = true → ∀ h ∈ w.visit d v, P h
  pend : ∀ v it ps, fr.mode = .expand v it ps → (∀ h ∈ ps, P h) ∧
    ∀ e ∈ itRest (w.dictOf v) it, ∀ h ∈ e.2.graphsOf d, P h
  loop : ∀ v ∈ rest (w.setOf fr.g) d fr.c, w.recurse v = true → ∀ h ∈ w.visit d v, P h

/-- **frame completion**: given that every subgraph satisfying `P` completes with output `V`, a
    consistent frame whose dict iterator is in step and whose future subgraphs satisfy `P` runs to
    the end of its generator, producing exactly `tFrameSpec`, and control returns to the frames
    below it. -/
theorem tsteps_frame (hw : TWorldWF w) (hV : ∀ h, P h → V h = Out.enter h :: body h)
    (hC : ∀ h fr' rest, P h → TSteps w d (TFrame.fresh h :: fr' :: rest) (body h) (fr' :: rest)) :
    ∀ (n : Nat) (fr : TFrame) (rest : List TFrame),
      (IrVerif.LinkedSet.rest (w.setOf fr.g) d fr.c).length < n →
      TFrameOK w fr → fr.synced w = true → FutureP P w d fr →
      TSteps w d (fr :: rest) (tFrameSpec V w d fr ++ tPop rest fr.g) rest := by
  intro n
  induction n with
  | zero => intro fr rest hn; omega
  | succ n ih =>
    intro fr rest hn ok hsync hfut
    obtain ⟨bs, hi⟩ := hw.setOf fr.g
    -- phase 3: the container generator is resumed
    have phase3 : ∀ fr2 : TFrame, fr2.g = fr.g → fr2.c = fr.c → fr2.mode = .loop →
        TSteps w d (fr2 :: rest)
          ((if fr.c = .notStarted then [Out.enter fr.g] else []) ++
            tLoop V w d fr.g (IrVerif.LinkedSet.rest (w.setOf fr.g) d fr.c) ++ tPop rest fr.g) rest := by
      intro fr2 eg ec h1
      have hok := hi.iterNext_ok d fr.c ok.valid
      have hnr := hi.next_rest d fr.c ok.valid
      cases hres : iterNext (w.setOf fr.g) d fr.c with
      | mk c' res =>
        rw [hres] at hok hnr
        simp only at hok hnr
        cases res with
        | stop =>
          simp only at hnr
          have e := tStep_stop w d fr2 rest c' h1 (by rw [eg, ec]; exact hres)
          have s1 := TSteps.one e (Or.inl rfl)
          rw [hnr, tLoop_nil]
          simpa [eg, ec, tPop] using s1
        | yield v =>
          simp only at hnr
          have e := tStep_yield w d fr2 rest c' v h1 (by rw [eg, ec]; exact hres)
          have s1 := TSteps.one e (Or.inr ⟨v, rfl⟩)
          obtain ⟨t, ht, hc', hvt⟩ := hi.iterNext_yield d ok.valid hres
          have hns : c' ≠ .notStarted := by rw [hc']; simp
          have ok3 : TFrameOK w { fr2 with c := c', mode := .last v } :=
            ⟨by show c'.Valid (w.setOf fr2.g); rw [eg, hc']; exact (hi.live t ht).2.1, fun _ => hns⟩
          have hlen : (IrVerif.LinkedSet.rest (w.setOf fr.g) d c').length < n := by
            rw [hnr] at hn; simp at hn; omega
          have fut3 : FutureP P w d { fr2 with c := c', mode := .last v } := by
            refine ⟨?_, ?_, ?_⟩
            · intro v' hv' hrec h hh
              simp only [TMode.last.injEq] at hv'
              subst hv'
              exact hfut.loop v (by rw [hnr]; simp) hrec h hh
            · intro v' it ps hv'; simp at hv'
            · intro v' hv' hrec h hh
              exact hfut.loop v' (by rw [hnr]; simp only [eg] at hv'; simp [hv']) hrec h hh
          have s2 := ih { fr2 with c := c', mode := .last v } rest (by simpa [eg] using hlen) ok3
            (by simp [TFrame.synced]) fut3
          have := s1.trans s2
          rw [hnr, tLoop_cons]
          simpa [tFrameSpec, eg, ec, hns, List.append_assoc] using this
        | raised => rcases hok with h | ⟨_, h⟩ <;> cases h
        | fuel => rcases hok with h | ⟨_, h⟩ <;> cases h
    cases hm : fr.mode with
    | loop =>
      have := phase3 fr rfl rfl hm
      simpa [tFrameSpec, hm, List.append_assoc] using this
    | last v =>
      have hns := ok.started (by rw [hm]; simp)
      have e := tStep_last w d fr rest v hm
      have s1 := TSteps.one e (Or.inl rfl)
      by_cases hrec : w.recurse v = true
      · simp only [hrec, if_true] at s1
        obtain ⟨so, sr⟩ := start_synced (w.dictOf v)
        have s2 := tsteps_entries hV hC v (w.dictOf v).live (DictIter.start (w.dictOf v))
          { fr with mode := .expand v (DictIter.start (w.dictOf v)) [] } rest rfl so sr
          (fun e he h hh => hfut.last v hm hrec h (by
            simp only [TWorld.visit, List.mem_flatMap]; exact ⟨e, he, hh⟩))
        have s3 := phase3 { fr with mode := .loop } rfl rfl rfl
        have := (s1.trans s2).trans s3
        simpa [tFrameSpec, hm, hns, tAfter, hrec, TWorld.visit, List.flatMap_assoc, List.append_assoc] using this
      · simp only [hrec] at s1
        have s3 := phase3 { fr with mode := .loop } rfl rfl rfl
        have := s1.trans s3
        simpa [tFrameSpec, hm, hns, tAfter, hrec, List.append_assoc] using this
    | expand v it ps =>
      have hns := ok.started (by rw [hm]; simp)
      obtain ⟨hp1, hp2⟩ := hfut.pend v it ps hm
      have hso : itOk (w.dictOf v) it = true := by simpa [TFrame.synced, hm] using hsync
      have s1 := tsteps_pending hV hC v it ps fr rest hm hp1
      have s2 := tsteps_entries hV hC v (itRest (w.dictOf v) it) it
        { fr with mode := .expand v it [] } rest rfl hso rfl hp2
      have s3 := phase3 { fr with mode := .loop } rfl rfl rfl
      have := (s1.trans (by simpa using s2)).trans s3
      simpa [tFrameSpec, hm, hns, List.append_assoc] using this

end

/-! ### complete visits of subgraphs, whole stacks -/

/-- a visit of subgraph `h` without the caller's first `enter_graph(h)` -/
def tBody (w : TWorld) (d : Dir) : Nat → Nat → List Out
  | 0, _ => []
  | k + 1, h => [Out.enter h] ++ tLoop (tVisit w d k) w d h (rest (w.setOf h) d .notStarted) ++ [Out.exit h]

theorem tVisit_eq (w : TWorld) (d : Dir) (k h : Nat) (hk : 0 < k) :
    tVisit w d k h = Out.enter h :: tBody w d k h := by
  obtain ⟨k, rfl⟩ : ∃ j, k = j + 1 := ⟨k - 1, by omega⟩
  simp [tVisit, tBody]

/-- what a generator still yields is part of the sequence -/
theorem rest_subset_toList {s : LSet} (h : WF s) (d : Dir) (c : Cursor) (hc : c.Valid s) :
    ∀ v ∈ rest s d c, v ∈ toList s := by
  obtain ⟨bs, hi⟩ := h
  rw [(hi.rest_eq d c hc).1, hi.toList_eq]
  generalize acur s bs d c = a
  intro v hv
  cases d <;> cases a <;> simp only [Spec.rest] at hv
  · exact List.mem_of_mem_drop hv
  · exact List.mem_of_mem_drop hv
  · cases hv
  · exact List.mem_of_mem_take (List.mem_reverse.1 hv)
  · exact List.mem_of_mem_take (List.mem_reverse.1 hv)
  · cases hv

theorem tranked_of_acyclic {w : TWorld} {d : Dir} (ha : w.acyclic d = true) (g v h : Nat)
    (hv : v ∈ toList (w.setOf g)) (hr : w.recurse v = true) (hh : h ∈ w.visit d v) :
    w.hgt d h < w.hgt d g := by
  have hk : h ∈ w.kids d g := by
    simp only [TWorld.kids, List.mem_flatMap, List.mem_filter]
    exact ⟨v, ⟨hv, hr⟩, hh⟩
  refine hgtG_rank (w.kids d) w.sets.length (List.range w.sets.length) ha ?_ g h hk
  intro g' hne
  apply List.mem_range.2
  apply Nat.lt_of_not_le
  intro hle
  apply hne
  have : w.setOf g' = empty := by simp [TWorld.setOf, List.getD, List.getElem?_eq_none hle]
  simp [TWorld.kids, this, toList_empty]

/-- a subgraph of height `< k` is visited completely and control returns to the caller -/
theorem tsteps_visit {w : TWorld} {d : Dir} (hw : TWorldWF w) (ha : w.acyclic d = true) :
    ∀ (k h : Nat) (fr' : TFrame) (rest : List TFrame), w.hgt d h < k →
      TSteps w d (TFrame.fresh h :: fr' :: rest) (tBody w d k h) (fr' :: rest)
  | 0, _, _, _, hk => by omega
  | k + 1, h, fr', rest, hk => by
      have ih := tsteps_visit hw ha k
      have hV : ∀ h', w.hgt d h' < k → tVisit w d k h' = Out.enter h' :: tBody w d k h' :=
        fun h' hh => tVisit_eq w d k h' (by omega)
      have fut : FutureP (fun h' => w.hgt d h' < k) w d (TFrame.fresh h) := by
        refine ⟨by intro v hv; simp [TFrame.fresh] at hv, by intro v it ps hv; simp [TFrame.fresh] at hv, ?_⟩
        intro v hv hrec h' hh'
        have hm := rest_subset_toList (hw.setOf h) d .notStarted (tframeOK_fresh hw h).valid v hv
        have := tranked_of_acyclic ha h v h' hm hrec hh'
        omega
      have := tsteps_frame (P := fun h' => w.hgt d h' < k) hw hV ih _ (TFrame.fresh h) (fr' :: rest)
        (Nat.lt_succ_self _) (tframeOK_fresh hw h) (by simp [TFrame.synced, TFrame.fresh]) fut
      simpa [tFrameSpec, TFrame.fresh, tPop, tBody, List.append_assoc] using this

theorem thgt_le (w : TWorld) (d : Dir) (g : Nat) : w.hgt d g ≤ w.sets.length := hgtG_le _ _ g

/-- **whole stack**: when no graph is nested in itself, a consistent stack whose dict iterators are
    in step runs until the iterator is exhausted and produces exactly `tStackSpec` -/
theorem tsteps_stack {w : TWorld} {d : Dir} (hw : TWorldWF w) (ha : w.acyclic d = true) :
    ∀ (st : List TFrame), TStackOK w st → (∀ fr ∈ st, fr.synced w = true) →
      TSteps w d st (tStackSpec (tVisit w d (w.sets.length + 1)) w d st) []
  | [], _, _ => .refl _
  | fr :: rest, ok, hs => by
      have hV : ∀ h', w.hgt d h' < w.sets.length + 1 →
          tVisit w d (w.sets.length + 1) h' = Out.enter h' :: tBody w d (w.sets.length + 1) h' :=
        fun h' _ => tVisit_eq w d _ h' (by omega)
      have all : ∀ h', w.hgt d h' < w.sets.length + 1 := fun h' => Nat.lt_succ_of_le (thgt_le w d h')
      have s1 := tsteps_frame (P := fun h' => w.hgt d h' < w.sets.length + 1) hw hV
        (fun h fr' rest hh => tsteps_visit hw ha _ h fr' rest hh) _
        fr rest (Nat.lt_succ_self _) (ok fr (by simp)) (hs fr (by simp))
        ⟨fun _ _ _ h' _ => all h', fun _ _ _ _ => ⟨fun h' _ => all h', fun _ _ h' _ => all h'⟩,
         fun _ _ _ h' _ => all h'⟩
      have s2 := tsteps_stack hw ha rest (fun x hx => ok x (by simp [hx])) (fun x hx => hs x (by simp [hx]))
      have := s1.trans s2
      simpa [tStackSpec, List.append_assoc] using this

end IrVerif.LinkedSet

/-
Helper lemmas for C15, part A (name authority): injectivity of decimal printing and of the
generated-name shapes, and the analysis of the `while True` loop.  Core Lean only.
-/
import IrVerif.Model.Names
namespace IrVerif.Names

/-- decimal printing is injective (from core's `Nat.ofDigitChars_ten_toDigits`) -/
theorem toString_nat_inj {a b : Nat} (h : toString a = toString b) : a = b := by
  have h1 : (Nat.repr a).toList = (Nat.repr b).toList := by
    simpa using congrArg String.toList h
  rw [Nat.toList_repr, Nat.toList_repr] at h1
  have := congrArg (fun l => Nat.ofDigitChars 10 l 0) h1
  simpa [Nat.ofDigitChars_ten_toDigits] using this

theorem string_append_left_cancel {p a b : String} (h : p ++ a = p ++ b) : a = b := by
  have := congrArg String.toList h
  simp only [String.toList_append, List.append_cancel_left_eq] at this
  exact String.toList_inj.mp this

theorem valName_inj {a b : Nat} (h : valName a = valName b) : a = b :=
  toString_nat_inj (string_append_left_cancel h)

theorem nodeName_inj (op : String) {a b : Nat} (h : nodeName op a = nodeName op b) : a = b := by
  unfold nodeName at h
  apply toString_nat_inj
  apply string_append_left_cancel (p := "node_" ++ op ++ "_")
  simpa [String.append_assoc] using h

/-! ### the loop -/

/-- more fuel never changes a result -/
theorem uniqueLoop_mono (mk : Nat → String) (seen : List String) :
    ∀ (fuel c : Nat) (r : String × Nat), uniqueLoop mk seen fuel c = some r →
      ∀ fuel', fuel ≤ fuel' → uniqueLoop mk seen fuel' c = some r := by
  intro fuel
  induction fuel with
  | zero => intro c r h; simp [uniqueLoop] at h
  | succ n ih =>
    intro c r h fuel' hle
    obtain ⟨m, rfl⟩ : ∃ m, fuel' = m + 1 := ⟨fuel' - 1, by omega⟩
    simp only [uniqueLoop] at h ⊢
    split
    · rename_i hc
      rw [if_pos hc] at h
      exact ih _ _ h _ (by omega)
    · rename_i hc
      rw [if_neg hc] at h
      exact h

/-- what a successful loop returns: the first candidate at or after `c` that is not seen; every
candidate skipped on the way is seen; the counter ends one past the returned candidate. -/
theorem uniqueLoop_spec (mk : Nat → String) (seen : List String) :
    ∀ (fuel c : Nat) (n : String) (c' : Nat), uniqueLoop mk seen fuel c = some (n, c') →
      ∃ k, c ≤ k ∧ k < c + fuel ∧ n = mk k ∧ c' = k + 1 ∧ n ∉ seen ∧ ∀ j, c ≤ j → j < k → mk j ∈ seen := by
  intro fuel
  induction fuel with
  | zero => intro c n c' h; simp [uniqueLoop] at h
  | succ f ih =>
    intro c n c' h
    simp only [uniqueLoop] at h
    split at h
    · rename_i hc
      obtain ⟨k, h1, h2, h3, h4, h5, h6⟩ := ih _ _ _ h
      refine ⟨k, by omega, by omega, h3, h4, h5, ?_⟩
      intro j hj1 hj2
      by_cases hjc : j = c
      · subst hjc; simpa using hc
      · exact h6 j (by omega) hj2
    · rename_i hc
      simp only [Option.some.injEq, Prod.mk.injEq] at h
      refine ⟨c, by omega, by omega, h.1.symm, h.2.symm, ?_, ?_⟩
      · rw [← h.1]; simpa using hc
      · intro j h1 h2; omega

/-- the loop only looks at candidates `mk j` with `j ≥ c`: seen sets that agree on those give the
same run -/
theorem uniqueLoop_congr (mk : Nat → String) (s1 s2 : List String) :
    ∀ (fuel c : Nat), (∀ j, c ≤ j → (mk j ∈ s1 ↔ mk j ∈ s2)) →
      uniqueLoop mk s1 fuel c = uniqueLoop mk s2 fuel c := by
  intro fuel
  induction fuel with
  | zero => intro c _; rfl
  | succ f ih =>
    intro c h
    simp only [uniqueLoop]
    have hc : s1.contains (mk c) = s2.contains (mk c) := by
      have := h c (Nat.le_refl _)
      rw [Bool.eq_iff_iff]; simpa using this
    rw [hc, ih (c + 1) (fun j hj => h j (by omega))]

/-- **pigeonhole for the loop**: with an injective candidate function, any budget larger than
`|seen|` reaches an unseen candidate. -/
theorem uniqueLoop_total' (mk : Nat → String) (hinj : ∀ a b, mk a = mk b → a = b) :
    ∀ (fuel : Nat) (seen : List String) (c : Nat), seen.length < fuel →
      ∃ r, uniqueLoop mk seen fuel c = some r := by
  intro fuel
  induction fuel with
  | zero => intro seen c h; omega
  | succ f ih =>
    intro seen c hlt
    simp only [uniqueLoop]
    split
    · rename_i hc
      -- remove every copy of the seen candidate `mk c`; later candidates are unaffected
      have hmem : mk c ∈ seen := by simpa using hc
      have hlen : (seen.filter (fun x => x != mk c)).length < seen.length :=
        List.length_filter_lt_length_iff_exists.mpr ⟨mk c, hmem, by simp⟩
      have hcongr : uniqueLoop mk seen f (c + 1)
          = uniqueLoop mk (seen.filter (fun x => x != mk c)) f (c + 1) := by
        apply uniqueLoop_congr
        intro j hj
        have hne : mk j ≠ mk c := fun e => by have := hinj _ _ e; omega
        simp [hne]
      rw [hcongr]
      exact ih _ _ (by omega)
    · exact ⟨_, rfl⟩

theorem uniqueLoop_total (mk : Nat → String) (hinj : ∀ a b, mk a = mk b → a = b)
    (seen : List String) (c : Nat) : ∃ r, uniqueLoop mk seen (seen.length + 1) c = some r :=
  uniqueLoop_total' mk hinj _ seen c (by omega)

/-- the name returned by the unbounded loop: not seen, made from a counter value `≥ c`, and the
counter moves past it -/
theorem uniqueFrom_spec (mk : Nat → String) (hinj : ∀ a b, mk a = mk b → a = b)
    (seen : List String) (c : Nat) :
    ∃ k, c ≤ k ∧ (uniqueFrom mk seen c) = (mk k, k + 1) ∧ mk k ∉ seen
      ∧ ∀ j, c ≤ j → j < k → mk j ∈ seen := by
  obtain ⟨⟨n, c'⟩, hr⟩ := uniqueLoop_total mk hinj seen c
  obtain ⟨k, h1, _, h3, h4, h5, h6⟩ := uniqueLoop_spec mk seen _ c n c' hr
  refine ⟨k, h1, ?_, h3 ▸ h5, h6⟩
  simp [uniqueFrom, hr, h3, h4]

/-! ### one call -/

/-- a generated name is not in the seen set of its namespace at that moment -/
theorem step_fresh (a : Auth) (op : Op) (h : (step a op).2.generated = true) :
    (step a op).2.name ∉ a.seen (step a op).2.isNode := by
  cases op with
  | value name =>
    cases name with
    | some s => simp [step] at h
    | none =>
      obtain ⟨k, _, he, hn, _⟩ := uniqueFrom_spec valName (fun _ _ => valName_inj) a.vnames a.vc
      simp [step, he, Auth.seen, hn]
  | node name o =>
    cases name with
    | some s => simp [step] at h
    | none =>
      obtain ⟨k, _, he, hn, _⟩ := uniqueFrom_spec (nodeName o) (fun _ _ => nodeName_inj o) a.nnames a.nc
      simp [step, he, Auth.seen, hn]

/-- the name an object has after the call is in the seen set afterwards -/
theorem step_registers (a : Auth) (op : Op) :
    (step a op).2.name ∈ (step a op).1.seen (step a op).2.isNode := by
  cases op with
  | value name => cases name <;> simp [step, Auth.seen]
  | node name o => cases name <;> simp [step, Auth.seen]

/-- seen sets never shrink, counters never decrease -/
theorem step_mono (a : Auth) (op : Op) :
    (∀ b x, x ∈ a.seen b → x ∈ (step a op).1.seen b) ∧ a.vc ≤ (step a op).1.vc ∧ a.nc ≤ (step a op).1.nc := by
  cases op with
  | value name =>
    cases name with
    | some s =>
      refine ⟨?_, by simp [step], by simp [step]⟩
      intro b x hx; cases b <;> simp_all [step, Auth.seen]
    | none =>
      obtain ⟨k, hk, he, _, _⟩ := uniqueFrom_spec valName (fun _ _ => valName_inj) a.vnames a.vc
      refine ⟨?_, by simp [step, he]; omega, by simp [step]⟩
      intro b x hx; cases b <;> simp_all [step, Auth.seen]
  | node name o =>
    cases name with
    | some s =>
      refine ⟨?_, by simp [step], by simp [step]⟩
      intro b x hx; cases b <;> simp_all [step, Auth.seen]
    | none =>
      obtain ⟨k, hk, he, _, _⟩ := uniqueFrom_spec (nodeName o) (fun _ _ => nodeName_inj o) a.nnames a.nc
      refine ⟨?_, by simp [step], by simp [step, he]; omega⟩
      intro b x hx; cases b <;> simp_all [step, Auth.seen]

theorem run_cons (op : Op) (ops : List Op) (a : Auth) :
    (run (op :: ops) a).2 = (step a op).2 :: (run ops (step a op).1).2 := by
  simp [run]

theorem run_cons_fst (op : Op) (ops : List Op) (a : Auth) :
    (run (op :: ops) a).1 = (run ops (step a op).1).1 := by
  simp [run]

/-- along any history: seen sets only grow and the counters only increase -/
theorem run_mono (ops : List Op) : ∀ (a : Auth),
    (∀ b x, x ∈ a.seen b → x ∈ (run ops a).1.seen b) ∧ a.vc ≤ (run ops a).1.vc ∧ a.nc ≤ (run ops a).1.nc := by
  induction ops with
  | nil => intro a; simp [run]
  | cons op ops ih =>
    intro a
    obtain ⟨h1, h2, h3⟩ := step_mono a op
    obtain ⟨g1, g2, g3⟩ := ih (step a op).1
    rw [run_cons_fst]
    exact ⟨fun b x hx => g1 b x (h1 b x hx), by omega, by omega⟩

/-- every name a history hands out or registers is in the final seen set of its namespace -/
theorem run_registers (ops : List Op) : ∀ (a : Auth) (e : Ev), e ∈ (run ops a).2 →
    e.name ∈ (run ops a).1.seen e.isNode := by
  induction ops with
  | nil => intro a e h; simp [run] at h
  | cons op ops ih =>
    intro a e h
    rw [run_cons] at h
    rw [run_cons_fst]
    rcases List.mem_cons.mp h with h | h
    · subst h
      exact (run_mono ops (step a op).1).1 _ _ (step_registers a op)
    · exact ih _ _ h

end IrVerif.Names

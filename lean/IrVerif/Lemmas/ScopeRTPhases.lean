/-
Round trip, phase by phase: what each helper of `deserGraph` does on the proto written by the
serializer for a serializable graph (no placeholder, no fresh graph output, no redeclaration).
-/
import IrVerif.Lemmas.ScopeAssoc
import IrVerif.Lemmas.ScopePrim
namespace IrVerif.Scope

theorem name_some_of_truthy {V : Nat → ValueS} {v : Nat} (h : nameTruthy (V v).name = true) :
    (V v).name = some (nm V v) ∧ nm V v ≠ "" := by
  obtain ⟨x, hx, hne⟩ := nameTruthy_iff.mp h
  rw [nm_of_name hx]; exact ⟨hx, hne⟩

theorem name_some_of_ne_none {V : Nat → ValueS} {v : Nat} (h : (V v).name ≠ none) :
    (V v).name = some (nm V v) := by
  cases hn : (V v).name with
  | none => exact absurd hn h
  | some x => simp [nm, hn]

theorem entryOf_truthy {V : Nat → ValueS} {A : Assoc} {v : Nat} (h : nameTruthy (V v).name = true) :
    entryOf V A v = some (nm V v, sig A v) := by simp [entryOf, h]

theorem entryOf_falsy {V : Nat → ValueS} {A : Assoc} {v : Nat} (h : nameTruthy (V v).name = false) :
    entryOf V A v = none := by simp [entryOf, h]

/-- only the images of values with a usable name matter for the induced table -/
theorem tableOf_congr' (V : Nat → ValueS) (A B : Assoc) (P : List Nat)
    (h : ∀ v ∈ P, nameTruthy (V v).name = true → sig A v = sig B v) : tableOf V A P = tableOf V B P := by
  induction P with
  | nil => rfl
  | cons v P ih =>
    rw [tableOf_cons, tableOf_cons, ih (fun w hw => h w (by simp [hw]))]
    by_cases ht : nameTruthy (V v).name = true
    · simp [entryOf, ht, h v (by simp) ht]
    · simp [entryOf, ht]

theorem tableOf_extend' (V : Nat → ValueS) (A B : Assoc) (P : List Nat)
    (h : ∀ v ∈ P, nameTruthy (V v).name = true → v ∈ A.map (·.1)) : tableOf V (A ++ B) P = tableOf V A P :=
  tableOf_congr' V _ _ P (fun v hv ht => sig_append_of_mem (h v hv ht))

/-! ### phase 1: graph inputs -/

theorem rt_inputs (V : Nat → ValueS) :
    ∀ (ins : List Nat) (s : Store) (A : Assoc), RS V s A → ins.Nodup → (∀ v ∈ ins, v ∉ A.map (·.1)) →
      (∀ v ∈ ins, (V v).name ≠ none) →
      RS V (deserInputs s (ins.map (viOf V))).1 (A ++ ins.zip (List.range' s.nv ins.length)) ∧
      ∀ v ∈ ins, ((deserInputs s (ins.map (viOf V))).1.vals
        (sig (A ++ ins.zip (List.range' s.nv ins.length)) v)).info = (V v).info.emit := by
  intro ins
  induction ins with
  | nil => intro s A h _ _ _; exact ⟨by simpa [deserInputs] using h, by simp⟩
  | cons v rest ih =>
    intro s A h hnd hA hn
    simp only [List.nodup_cons] at hnd
    simp only [List.map_cons, deserInputs, List.length_cons, List.range'_succ, List.zip_cons_cons]
    have hvA := hA v (by simp)
    have h1 := h.alloc v { name := some (viOf V v).name, info := (viOf V v).info } hvA
      (by simp [viOf, name_some_of_ne_none (hn v (by simp))])
    obtain ⟨r, hi⟩ := ih (s.alloc { name := some (viOf V v).name, info := (viOf V v).info }).1 (A ++ [(v, s.nv)]) h1 hnd.2
      (by
        intro w hw hm
        simp only [List.map_append, List.map_cons, List.map_nil, List.mem_append, List.mem_singleton] at hm
        rcases hm with hm | rfl
        · exact hA w (by simp [hw]) hm
        · exact hnd.1 hw)
      (fun w hw => hn w (by simp [hw]))
    have e : A ++ (v, s.nv) :: rest.zip (List.range' (s.nv + 1) rest.length) =
        (A ++ [(v, s.nv)]) ++ rest.zip (List.range' (s.nv + 1) rest.length) := by simp
    rw [e]
    refine ⟨r, fun w hw => ?_⟩
    simp only [List.mem_cons] at hw
    rcases hw with rfl | hw
    · rw [sig_append_of_mem (by simp), sig_append_single hvA]
      have pr := deserInputs_prim (s.nv + 1) (rest.map (viOf V))
        (s.alloc { name := some (viOf V w).name, info := (viOf V w).info }).1 (by simp)
      rw [(pr.cell s.nv (by omega)).1]
      simp [viOf]
    · exact hi w hw

theorem sig_zip (A : Assoc) :
    ∀ (vs ds : List Nat), vs.length = ds.length → vs.Nodup → (∀ v ∈ vs, v ∉ A.map (·.1)) →
      vs.map (sig (A ++ vs.zip ds)) = ds := by
  intro vs
  induction vs generalizing A with
  | nil => intro ds hl _ _; cases ds <;> simp_all
  | cons v rest ih =>
    intro ds hl hnd hA
    cases ds with
    | nil => simp at hl
    | cons d ds =>
      simp only [List.nodup_cons] at hnd
      simp only [List.length_cons, Nat.add_right_cancel_iff] at hl
      have hAv := hA v (by simp)
      have e : A ++ (v :: rest).zip (d :: ds) = (A ++ [(v, d)]) ++ rest.zip ds := by simp
      rw [e]
      simp only [List.map_cons]
      congr 1
      · rw [sig_append_of_mem (by simp), sig_append_single hAv]
      · apply ih (A ++ [(v, d)]) ds hl hnd.2
        intro w hw hm
        simp only [List.map_append, List.map_cons, List.map_nil, List.mem_append, List.mem_singleton] at hm
        rcases hm with hm | rfl
        · exact hA w (by simp [hw]) hm
        · exact hnd.1 hw

theorem keys_zip (vs ds : List Nat) (hl : vs.length = ds.length) : (vs.zip ds).map (·.1) = vs := by
  induction vs generalizing ds with
  | nil => simp
  | cons v rest ih =>
    cases ds with
    | nil => simp at hl
    | cons d ds => simp only [List.length_cons, Nat.add_right_cancel_iff] at hl; simp [ih ds hl]

theorem rt_inputTable (V : Nat → ValueS) (A : Assoc) (ins ds : List Nat) (hl : ins.length = ds.length)
    (hnd : ins.Nodup) (hA : ∀ v ∈ ins, v ∉ A.map (·.1)) (ht : ∀ v ∈ ins, nameTruthy (V v).name = true) :
    inputTable (ins.map (viOf V)) ds = tableOf V (A ++ ins.zip ds) ins := by
  have hs := sig_zip A ins ds hl hnd hA
  have hf : ∀ (B : Assoc) (l : List Nat), (∀ v ∈ l, nameTruthy (V v).name = true) →
      l.filterMap (entryOf V B) = l.map (fun v => (nm V v, sig B v)) := by
    intro B l
    induction l with
    | nil => intro _; rfl
    | cons v l ih =>
      intro h
      simp [List.filterMap_cons, entryOf, h v (by simp), ih (fun w hw => h w (by simp [hw]))]
  have hf := hf (A ++ ins.zip ds) ins ht
  simp only [inputTable, tableOf, hf]
  congr 1
  have : (ins.map (viOf V)).map (·.name) = ins.map (nm V) := by simp [viOf]
  rw [this]
  conv => lhs; rw [← hs]
  simp [List.zip_map']

/-! ### phase 2: initializers -/

/-- the initializer values of `its` that are not graph inputs -/
def newInits (insL : List Nat) (its : List (Name × Nat)) : List Nat :=
  (its.map (·.2)).filter (fun v => !insL.contains v)

theorem newInits_cons_old {insL : List Nat} {k : Name} {v : Nat} {its : List (Name × Nat)} (h : v ∈ insL) :
    newInits insL ((k, v) :: its) = newInits insL its := by
  simp [newInits, List.filter_cons, h]

theorem newInits_cons_new {insL : List Nat} {k : Name} {v : Nat} {its : List (Name × Nat)} (h : v ∉ insL) :
    newInits insL ((k, v) :: its) = v :: newInits insL its := by
  simp [newInits, List.filter_cons, h]

theorem RS.same_nv {V : Nat → ValueS} {s s' : Store} {A : Assoc} (h : RS V s A) (hnv : s'.nv = s.nv)
    (hn : ∀ v, (s'.vals v).name = (s.vals v).name) : RS V s' A :=
  h.step (by rw [hnv]; exact Nat.le_refl _) (fun v _ => hn v)

/-- the info an initializer value of its own receives: from the tensor, then from the value_info
    entry of its name, if any -/
def initInfo (vi : List (Name × Info)) (k : Name) (tp : TensorP) : Info :=
  match vi.lookup k with
  | some i => i.orTensor (tensorInfo tp.ty tp.sh)
  | none => tensorInfo tp.ty tp.sh

theorem newInit_cell (st : Store) (vi : List (Name × Info)) (tp : TensorP) (tid : Nat) :
    ((newInit st vi tp tid).vals st.nv).info = initInfo vi tp.name tp ∧
    ((newInit st vi tp tid).vals st.nv).const = some tid ∧
    (∀ d, d ≠ st.nv → (newInit st vi tp tid).vals d = st.vals d) ∧
    (newInit st vi tp tid).tens = st.tens ∧ (newInit st vi tp tid).nt = st.nt := by
  cases hl : vi.lookup tp.name with
  | some i =>
    simp only [newInit, initInfo, hl]
    refine ⟨by simp, by simp, fun d hd => ?_, rfl, rfl⟩
    rw [modify_vals_ne _ _ _ hd, alloc_vals]
    simp [hd]
  | none =>
    simp only [newInit, initInfo, hl]
    refine ⟨by simp, by simp, fun d hd => ?_, rfl, rfl⟩
    rw [alloc_vals]; simp [hd]

theorem rt_inits (V : Nat → ValueS) (vi : List (Name × Info)) (insL : List Nat) :
    ∀ (mk : Name × Nat → TensorP) (its : List (Name × Nat)) (s : Store) (A : Assoc) (P : List Nat),
      (∀ kv ∈ its, (mk kv).name = kv.1) → RS V s A →
      (∀ kv ∈ its, (V kv.2).name = some kv.1 ∧ kv.1 ≠ "") →
      (∀ kv ∈ its, kv.2 ∈ insL → kv.2 ∈ P) →
      (∀ kv ∈ its, kv.2 ∉ insL → kv.2 ∉ P ∧ kv.2 ∉ A.map (·.1)) →
      (its.map (·.2)).Nodup →
      (∀ v ∈ P, nameTruthy (V v).name = true → v ∈ A.map (·.1)) →
      NamesUnique V (P ++ newInits insL its) →
      ∃ B : Assoc,
        (deserInits s (tableOf V A P) vi (its.map mk)).2.1 = tableOf V (A ++ B) (P ++ newInits insL its) ∧
        RS V (deserInits s (tableOf V A P) vi (its.map mk)).1 (A ++ B) ∧
        (deserInits s (tableOf V A P) vi (its.map mk)).2.2 = its.map (fun kv => sig (A ++ B) kv.2) ∧
        B.map (·.1) = newInits insL its ∧
        s.nv ≤ (deserInits s (tableOf V A P) vi (its.map mk)).1.nv ∧
        (∀ kv ∈ its, kv.2 ∉ insL →
          ((deserInits s (tableOf V A P) vi (its.map mk)).1.vals (sig (A ++ B) kv.2)).info = initInfo vi kv.1 (mk kv)) ∧
        (∀ kv ∈ its, ∃ t', ((deserInits s (tableOf V A P) vi (its.map mk)).1.vals (sig (A ++ B) kv.2)).const = some t' ∧
          t' < (deserInits s (tableOf V A P) vi (its.map mk)).1.nt ∧
          (deserInits s (tableOf V A P) vi (its.map mk)).1.tens t' =
            { name := some kv.1, data := (mk kv).data, ty := (mk kv).ty, sh := (mk kv).sh }) ∧
        (∀ d, d < s.nv → ((deserInits s (tableOf V A P) vi (its.map mk)).1.vals d).info = (s.vals d).info) ∧
        (∀ e ∈ B, s.nv ≤ e.2) ∧
        (∀ d, d < s.nv → (∀ kv ∈ its, kv.2 ∈ insL → sig A kv.2 ≠ d) →
          ((deserInits s (tableOf V A P) vi (its.map mk)).1.vals d).const = (s.vals d).const) ∧
        (∀ t, t < s.nt → (deserInits s (tableOf V A P) vi (its.map mk)).1.tens t = s.tens t) ∧
        s.nt ≤ (deserInits s (tableOf V A P) vi (its.map mk)).1.nt := by
  intro mk its
  induction its with
  | nil =>
    intro s A P _ h _ _ _ _ _ _
    exact ⟨[], by simp [deserInits, newInits], by simpa [deserInits] using h, by simp [deserInits],
      by simp [newInits], by simp [deserInits], by simp, by simp, fun _ _ => rfl, by simp, fun _ _ _ => rfl,
      fun _ _ => rfl, Nat.le_refl _⟩
  | cons kv its ih =>
    obtain ⟨k, v⟩ := kv
    intro s A P hmk h hnames hold hnew hnd hPA hu
    have hname : (mk (k, v)).name = k := hmk (k, v) (by simp)
    generalize htp : mk (k, v) = tp at hname
    have hmk' : ∀ kv ∈ its, (mk kv).name = kv.1 := fun kv hkv => hmk kv (by simp [hkv])
    simp only [List.map_cons, htp]
    obtain ⟨hvn, hk⟩ := hnames (k, v) (by simp)
    have hvt : nameTruthy (V v).name = true := by simp [nameTruthy, hvn, hk]
    have hnmv : nm V v = k := nm_of_name hvn
    simp only [List.map_cons, List.nodup_cons] at hnd
    simp only [deserInits, hname, hk, if_false]
    -- images of the inputs that later initializers refer to stay below `s.nv` and differ from `v`'s
    have holdA : ∀ kv ∈ its, kv.2 ∈ insL → kv.2 ∈ A.map (·.1) := fun kv hkv hi =>
      hPA kv.2 (hold kv (by simp [hkv]) hi) (by
        obtain ⟨a, b⟩ := hnames kv (by simp [hkv])
        simp [nameTruthy, a, b])
    by_cases hin : v ∈ insL
    · -- the initializer of a graph input
      have hvP := hold (k, v) (by simp) hin
      have hvA := hPA v hvP hvt
      have hl : (tableOf V A P).lookup k = some (sig A v) := by
        rw [← hnmv]
        exact tableOf_lookup_mem V A P (fun a ha b hb => hu a (by simp [ha]) b (by simp [hb])) v hvP hvt
      simp only [hl]
      have hlt := h.sig_lt hvA
      have h2 : RS V ((s.allocTensor { name := some k, data := tp.data, ty := tp.ty, sh := tp.sh }).1.modify (sig A v)
          fun c => { c with const := some s.nt }) A := by
        refine h.same_nv rfl (fun w => ?_)
        rw [modify_vals]
        split <;> rfl
      rw [newInits_cons_old hin] at hu ⊢
      obtain ⟨B, e1, e2, e3, e4, e5, c1, c2, c3, c4, c5, c6, c7⟩ := ih _ A P hmk' h2
        (fun kv hkv => hnames kv (by simp [hkv]))
        (fun kv hkv => hold kv (by simp [hkv])) (fun kv hkv => hnew kv (by simp [hkv])) hnd.2 hPA hu
      refine ⟨B, e1, e2, ?_, e4, e5, ?_, ?_, ?_, c4, ?_, ?_, ?_⟩
      · simp only [List.map_cons, e3]
        rw [sig_append_of_mem hvA]
      · intro kv hkv hni
        simp only [List.mem_cons] at hkv
        rcases hkv with rfl | hkv
        · exact absurd hin hni
        · exact c1 kv hkv hni
      · intro kv hkv
        simp only [List.mem_cons] at hkv
        rcases hkv with rfl | hkv
        · refine ⟨s.nt, ?_, ?_, ?_⟩
          · rw [sig_append_of_mem hvA]
            rw [c5 (sig A v) hlt (fun kv hkv hi heq => by
              have := h.sig_inj (holdA kv hkv hi) hvA heq
              exact hnd.1 (this ▸ List.mem_map_of_mem hkv))]
            simp
          · have h1t : ((s.allocTensor { name := some k, data := tp.data, ty := tp.ty, sh := tp.sh }).1.modify (sig A v)
                fun c => { c with const := some s.nt }).nt = s.nt + 1 := rfl
            rw [h1t] at c7
            omega
          · rw [c6 s.nt (by simp [Store.allocTensor])]
            simp [Store.allocTensor, Store.modify, htp]
        · exact c2 kv hkv
      · intro d hd
        rw [c3 d hd, modify_vals]
        split <;> rfl
      · intro d hd hne
        rw [c5 d hd (fun kv hkv hi => hne kv (by simp [hkv]) hi), modify_vals_ne _ _ _ (Ne.symm (hne (k, v) (by simp) hin))]
        rfl
      · intro t ht
        rw [c6 t (by simp [Store.allocTensor]; omega)]
        simp only [Store.allocTensor, Store.modify]
        have : t ≠ s.nt := by omega
        simp [this]
      · have : s.nt ≤ s.nt + 1 := by omega
        exact Nat.le_trans this c7
    · -- a value of its own
      obtain ⟨hvP, hvA⟩ := hnew (k, v) (by simp) hin
      rw [newInits_cons_new hin] at hu ⊢
      have hl : (tableOf V A P).lookup k = none := by
        apply tableOf_lookup_none
        intro u huP hut hne
        apply hvP
        have : u = v := by
          apply hu u (by simp [huP]) v (by simp) hut
          rw [(name_some_of_truthy hut).1, hne, hvn]
        rw [← this]; exact huP
      simp only [hl]
      have h1 : RS V (s.allocTensor { name := some k, data := tp.data, ty := tp.ty, sh := tp.sh }).1 A :=
        h.same_nv rfl (fun _ => rfl)
      have h3 : RS V (newInit (s.allocTensor { name := some k, data := tp.data, ty := tp.ty, sh := tp.sh }).1 vi tp s.nt)
          (A ++ [(v, s.nv)]) := by
        have h2 := h1.alloc v { name := some tp.name, info := tensorInfo tp.ty tp.sh, const := some s.nt } hvA
          (by simp [hname, hvn])
        unfold newInit
        split
        · refine h2.same_nv rfl (fun w => ?_)
          rw [modify_vals]
          split <;> rfl
        · exact h2
      have htbl : (k, s.nv) :: tableOf V A P = tableOf V (A ++ [(v, s.nv)]) (P ++ [v]) := by
        rw [tableOf_snoc, entryOf_truthy hvt, tableOf_extend' V A _ P hPA, hnmv, sig_append_single hvA]
        rfl
      obtain ⟨nc1, nc2, nc3, nc4, nc5⟩ := newInit_cell
        (s.allocTensor { name := some k, data := tp.data, ty := tp.ty, sh := tp.sh }).1 vi tp s.nt
      have hnv3 := (newInit_quiet (s.allocTensor { name := some k, data := tp.data, ty := tp.ty, sh := tp.sh }).1 vi tp
        s.nt).2
      have h0 : (s.allocTensor { name := some k, data := tp.data, ty := tp.ty, sh := tp.sh }).1.nv = s.nv := rfl
      rw [htbl]
      obtain ⟨B, e1, e2, e3, e4, e5, c1, c2, c3, c4, c5, c6, c7⟩ := ih _ (A ++ [(v, s.nv)]) (P ++ [v]) hmk' h3
        (fun kv hkv => hnames kv (by simp [hkv]))
        (fun kv hkv hi => by simp [hold kv (by simp [hkv]) hi])
        (fun kv hkv hi => by
          obtain ⟨a, b⟩ := hnew kv (by simp [hkv]) hi
          have hne : kv.2 ≠ v := by
            intro e
            apply hnd.1
            rw [← e]
            exact List.mem_map_of_mem hkv
          simp [a, b, hne])
        hnd.2
        (fun w hw ht => by
          simp only [List.mem_append, List.mem_singleton] at hw
          rcases hw with hw | rfl
          · simp [hPA w hw ht]
          · simp)
        (by simpa [List.append_assoc] using hu)
      have hassoc : A ++ (v, s.nv) :: B = (A ++ [(v, s.nv)]) ++ B := by simp
      have hsigv : sig (A ++ [(v, s.nv)] ++ B) v = s.nv := by
        rw [sig_append_of_mem (by simp), sig_append_single hvA]
      -- later old initializers refer to cells below `s.nv`
      have hne_old : ∀ kv ∈ its, kv.2 ∈ insL → sig (A ++ [(v, s.nv)]) kv.2 ≠ s.nv := by
        intro kv hkv hi
        rw [sig_append_of_mem (holdA kv hkv hi)]
        have := h.sig_lt (holdA kv hkv hi)
        omega
      refine ⟨(v, s.nv) :: B, ?_, ?_, ?_, ?_, ?_, ?_, ?_, ?_, ?_, ?_, ?_, ?_⟩
      · simpa [List.append_assoc] using e1
      · simpa [List.append_assoc] using e2
      · rw [hassoc, e3, hsigv]
      · simp [e4]
      · omega
      · intro kv hkv hni
        rw [hassoc]
        simp only [List.mem_cons] at hkv
        rcases hkv with rfl | hkv
        · rw [hsigv, c3 s.nv (by omega), ← h0, nc1, hname, htp]
        · exact c1 kv hkv hni
      · intro kv hkv
        rw [hassoc]
        simp only [List.mem_cons] at hkv
        rcases hkv with rfl | hkv
        · refine ⟨s.nt, ?_, ?_, ?_⟩
          · rw [hsigv, c5 s.nv (by omega) hne_old, ← h0, nc2]
          · have h1t : (s.allocTensor { name := some k, data := tp.data, ty := tp.ty, sh := tp.sh }).1.nt = s.nt + 1 := rfl
            have c7' := c7
            rw [nc5, h1t] at c7'
            omega
          · rw [c6 s.nt (by rw [nc5]; simp [Store.allocTensor]), nc4]
            simp [Store.allocTensor, htp]
        · exact c2 kv hkv
      · intro d hd
        rw [c3 d (by omega), nc3 d (by rw [h0]; omega)]
        rfl
      · intro e he
        simp only [List.mem_cons] at he
        rcases he with rfl | he
        · exact Nat.le_refl _
        · have := c4 e he; omega
      · intro d hd hne
        rw [c5 d (by omega) (fun kv hkv hi => by
          rw [sig_append_of_mem (holdA kv hkv hi)]
          exact hne kv (by simp [hkv]) hi), nc3 d (by rw [h0]; omega)]
        rfl
      · intro t ht
        rw [c6 t (by rw [nc5]; simp [Store.allocTensor]; omega), nc4]
        simp only [Store.allocTensor]
        have : t ≠ s.nt := by omega
        simp [this]
      · have h1t : (s.allocTensor { name := some k, data := tp.data, ty := tp.ty, sh := tp.sh }).1.nt = s.nt + 1 := rfl
        rw [nc5, h1t] at c7
        omega

/-! ### phase 3: declaring node outputs -/

theorem nameTruthy_false_of {V : Nat → ValueS} {v : Nat} (hn : (V v).name ≠ none)
    (ht : ¬ nameTruthy (V v).name = true) : (V v).name = some "" ∧ nm V v = "" := by
  cases h : (V v).name with
  | none => exact absurd h hn
  | some x =>
    have : x = "" := by
      simp only [nameTruthy, h] at ht
      simpa using ht
    subst this
    simp [nm, h]

/-- the info a declared node output (or a placeholder) receives: its value_info entry, if any -/
def declInfo (vi : List (Name × Info)) (x : Name) : Info :=
  match vi.lookup x with
  | some i => i
  | none => {}

theorem newNamed_cell (st : Store) (vi : List (Name × Info)) (x : Name) :
    ((newNamed st vi x).vals st.nv).info = declInfo vi x := by
  cases hl : vi.lookup x <;> simp [newNamed, declInfo, hl]

theorem rt_declOuts (V : Nat → ValueS) (vi : List (Name × Info)) :
    ∀ (vs : List Nat) (s : Store) (A : Assoc) (P : List Nat),
      RS V s A → (∀ v ∈ vs, (V v).name ≠ none) → vs.Nodup → (∀ v ∈ vs, v ∉ P ∧ v ∉ A.map (·.1)) →
      (∀ v ∈ P, nameTruthy (V v).name = true → v ∈ A.map (·.1)) → NamesUnique V (P ++ vs) →
      ∃ (B : Assoc) (s' : Store),
        declareOutputs s (tableOf V A P) vi (vs.map (nm V)) = .ok (s', tableOf V (A ++ B) (P ++ vs)) ∧
        RS V s' (A ++ B) ∧ B.map (·.1) = vs.filter (fun v => nameTruthy (V v).name) ∧ s.nv ≤ s'.nv ∧
        (∀ v ∈ vs, nameTruthy (V v).name = true → (s'.vals (sig (A ++ B) v)).info = declInfo vi (nm V v)) ∧
        (∀ e ∈ B, s.nv ≤ e.2) := by
  intro vs
  induction vs with
  | nil =>
    intro s A P h _ _ _ _ _
    exact ⟨[], s, by simp [declareOutputs], by simpa using h, by simp, Nat.le_refl _, by simp, by simp⟩
  | cons v rest ih =>
    intro s A P h hn hnd hnew hPA hu
    simp only [List.nodup_cons] at hnd
    obtain ⟨hvP, hvA⟩ := hnew v (by simp)
    have hrest : ∀ w ∈ rest, w ≠ v := fun w hw e => hnd.1 (e ▸ hw)
    have hu' : NamesUnique V ((P ++ [v]) ++ rest) := by simpa [List.append_assoc] using hu
    simp only [List.map_cons, declareOutputs]
    by_cases ht : nameTruthy (V v).name = true
    · obtain ⟨hvn, hne⟩ := name_some_of_truthy ht
      simp only [hne, if_false]
      have hl : (tableOf V A P).lookup (nm V v) = none := by
        apply tableOf_lookup_none
        intro u huP hut hne'
        apply hvP
        have : u = v := by
          apply hu u (by simp [huP]) v (by simp) hut
          rw [(name_some_of_truthy hut).1, hne', hvn]
        rw [← this]; exact huP
      simp only [hl]
      have h2 : RS V (newNamed s vi (nm V v)) (A ++ [(v, s.nv)]) := by
        have h1 := h.alloc v { name := some (nm V v) } hvA (by simp [hvn])
        unfold newNamed
        split
        · refine h1.same_nv rfl (fun w => ?_)
          rw [modify_vals]
          split <;> rfl
        · exact h1
      have htbl : (nm V v, s.nv) :: tableOf V A P = tableOf V (A ++ [(v, s.nv)]) (P ++ [v]) := by
        rw [tableOf_snoc, entryOf_truthy ht, tableOf_extend' V A _ P hPA, sig_append_single hvA]
        rfl
      rw [htbl]
      obtain ⟨B, s', e1, e2, e3, e4, e5, e6⟩ := ih (newNamed s vi (nm V v)) (A ++ [(v, s.nv)]) (P ++ [v]) h2
        (fun w hw => hn w (by simp [hw])) hnd.2
        (fun w hw => by
          obtain ⟨a, b⟩ := hnew w (by simp [hw])
          simp [a, b, hrest w hw])
        (fun w hw ht' => by
          simp only [List.mem_append, List.mem_singleton] at hw
          rcases hw with hw | rfl
          · simp [hPA w hw ht']
          · simp)
        hu'
      have hq := (newNamed_quiet s vi (nm V v)).2
      have hassoc : A ++ (v, s.nv) :: B = (A ++ [(v, s.nv)]) ++ B := by simp
      refine ⟨(v, s.nv) :: B, s', ?_, ?_, ?_, ?_, ?_, ?_⟩
      · simpa [List.append_assoc] using e1
      · simpa [List.append_assoc] using e2
      · simp [List.filter_cons, ht, e3]
      · omega
      · intro w hw htw
        rw [hassoc]
        simp only [List.mem_cons] at hw
        rcases hw with rfl | hw
        · rw [sig_append_of_mem (by simp), sig_append_single hvA]
          have pr := declareOutputs_prim (s.nv + 1) vi (rest.map (nm V)) _ _ s' _ (by omega) e1
          rw [(pr.cell s.nv (by omega)).1]
          exact newNamed_cell s vi (nm V w)
        · exact e5 w hw htw
      · intro e he
        simp only [List.mem_cons] at he
        rcases he with rfl | he
        · exact Nat.le_refl _
        · have := e6 e he; omega
    · obtain ⟨hvn, hnm⟩ := nameTruthy_false_of (hn v (by simp)) ht
      simp only [hnm, if_true]
      have hfalse : nameTruthy (V v).name = false := by simpa using ht
      have htbl : tableOf V A P = tableOf V A (P ++ [v]) := by
        rw [tableOf_snoc, entryOf_falsy hfalse]; rfl
      rw [htbl]
      obtain ⟨B, s', e1, e2, e3, e4, e5, e6⟩ := ih s A (P ++ [v]) h (fun w hw => hn w (by simp [hw])) hnd.2
        (fun w hw => by
          obtain ⟨a, b⟩ := hnew w (by simp [hw])
          simp [a, b, hrest w hw])
        (fun w hw ht' => by
          simp only [List.mem_append, List.mem_singleton] at hw
          rcases hw with hw | rfl
          · exact hPA w hw ht'
          · exact absurd ht' ht)
        hu'
      refine ⟨B, s', ?_, e2, ?_, e4, ?_, e6⟩
      · simpa [List.append_assoc] using e1
      · simp [List.filter_cons, hfalse, e3]
      · intro w hw htw
        simp only [List.mem_cons] at hw
        rcases hw with rfl | hw
        · exact absurd htw ht
        · exact e5 w hw htw

theorem rt_declNodes (V : Nat → ValueS) (vi : List (Name × Info)) (lo : NodeT → List Nat) :
    ∀ (nodes : List NodeT) (nps : List NodeP) (s : Store) (A : Assoc) (P : List Nat),
      nps.map NodeP.outputs = nodes.map (fun n => (lo n).map (nm V)) →
      RS V s A → (∀ v ∈ nodes.flatMap lo, (V v).name ≠ none) → (nodes.flatMap lo).Nodup →
      (∀ v ∈ nodes.flatMap lo, v ∉ P ∧ v ∉ A.map (·.1)) →
      (∀ v ∈ P, nameTruthy (V v).name = true → v ∈ A.map (·.1)) → NamesUnique V (P ++ nodes.flatMap lo) →
      ∃ (B : Assoc) (s' : Store),
        declareNodes s (tableOf V A P) vi nps = .ok (s', tableOf V (A ++ B) (P ++ nodes.flatMap lo)) ∧
        RS V s' (A ++ B) ∧ B.map (·.1) = (nodes.flatMap lo).filter (fun v => nameTruthy (V v).name) ∧
        s.nv ≤ s'.nv ∧
        (∀ v ∈ nodes.flatMap lo, nameTruthy (V v).name = true →
          (s'.vals (sig (A ++ B) v)).info = declInfo vi (nm V v)) ∧
        (∀ e ∈ B, s.nv ≤ e.2) := by
  intro nodes
  induction nodes with
  | nil =>
    intro nps s A P hmk h _ _ _ _ _
    have : nps = [] := by simpa using hmk
    subst this
    exact ⟨[], s, by simp [declareNodes], by simpa using h, by simp, Nat.le_refl _, by simp, by simp⟩
  | cons n rest ih =>
    intro nps s A P hmk h hn hnd hnew hPA hu
    cases nps with
    | nil => simp at hmk
    | cons np nps =>
    simp only [List.map_cons, List.cons.injEq] at hmk
    obtain ⟨hnp, hmk'⟩ := hmk
    simp only [List.flatMap_cons] at hn hnd hnew hu ⊢
    rw [List.nodup_append] at hnd
    obtain ⟨B1, s1, e1, r1, k1, l1, i1, g1⟩ := rt_declOuts V vi (lo n) s A P h (fun v hv => hn v (by simp [hv])) hnd.1
      (fun v hv => hnew v (by simp [hv])) hPA
      (fun a ha b hb => hu a (by
        simp only [List.mem_append] at ha ⊢
        rcases ha with ha | ha
        · exact .inl ha
        · exact .inr (.inl ha)) b (by
        simp only [List.mem_append] at hb ⊢
        rcases hb with hb | hb
        · exact .inl hb
        · exact .inr (.inl hb)))
    simp only [declareNodes, hnp, e1]
    have hkeys1 : ∀ v, v ∈ (A ++ B1).map (·.1) → v ∈ A.map (·.1) ∨ v ∈ lo n := by
      intro v hv
      simp only [List.map_append, List.mem_append] at hv
      rcases hv with hv | hv
      · exact .inl hv
      · rw [k1] at hv; exact .inr (List.mem_filter.mp hv).1
    obtain ⟨B2, s2, e2, r2, k2, l2, i2, g2⟩ := ih nps s1 (A ++ B1) (P ++ lo n) hmk' r1
      (fun v hv => hn v (by simp [hv])) hnd.2.1
      (fun v hv => by
        obtain ⟨a, b⟩ := hnew v (by simp [hv])
        have hne : v ∉ lo n := fun hm => hnd.2.2 v hm v hv rfl
        refine ⟨by simp [a, hne], fun hm => ?_⟩
        rcases hkeys1 v hm with hm | hm
        · exact b hm
        · exact hne hm)
      (fun v hv ht => by
        simp only [List.mem_append] at hv
        rcases hv with hv | hv
        · simp [hPA v hv ht]
        · simp only [List.map_append, List.mem_append]
          right
          rw [k1]
          exact List.mem_filter.mpr ⟨hv, ht⟩)
      (by simpa [List.append_assoc] using hu)
    refine ⟨B1 ++ B2, s2, ?_, ?_, ?_, Nat.le_trans l1 l2, ?_, ?_⟩
    · simpa [List.append_assoc] using e2
    · simpa [List.append_assoc] using r2
    · simp [k1, k2, List.filter_append]
    · intro v hv ht
      rw [← List.append_assoc]
      simp only [List.mem_append] at hv
      rcases hv with hv | hv
      · have hmem : v ∈ (A ++ B1).map (·.1) := by
          simp only [List.map_append, List.mem_append]
          right; rw [k1]; exact List.mem_filter.mpr ⟨hv, ht⟩
        rw [sig_append_of_mem hmem]
        have pr := declareNodes_prim s1.nv vi nps s1 _ s2 _ (Nat.le_refl _) e2
        rw [(pr.cell _ (r1.sig_lt hmem)).1]
        exact i1 v hv ht
      · exact i2 v hv ht
    · intro e he
      simp only [List.mem_append] at he
      rcases he with he | he
      · exact g1 e he
      · exact Nat.le_trans l1 (g2 e he)

/-! ### resolving a reference through the scope stack -/

theorem flatten_cons_mem {α : Type} (D : List α) (Ds : List (List α)) (v : α) :
    v ∈ (D :: Ds).flatten ↔ v ∈ D ∨ v ∈ Ds.flatten := by simp

theorem rt_resolve (V : Nat → ValueS) (A : Assoc) :
    ∀ (Ds : List (List Nat)), NamesUnique V Ds.flatten → ∀ v ∈ Ds.flatten, nameTruthy (V v).name = true →
      resolve (nm V v) (Ds.map (tableOf V A)) = some (sig A v) := by
  intro Ds
  induction Ds with
  | nil => intro _ v hv; simp at hv
  | cons D Ds ih =>
    intro hu v hv ht
    simp only [List.map_cons, resolve]
    by_cases hD : v ∈ D
    · rw [tableOf_lookup_mem V A D (fun a ha b hb => hu a (by simp [ha]) b (by simp [hb])) v hD ht]
    · have hnone : (tableOf V A D).lookup (nm V v) = none := by
        apply tableOf_lookup_none
        intro u huD hut hne
        apply hD
        have : u = v := by
          apply hu u (by simp [huD]) v hv hut
          rw [(name_some_of_truthy hut).1, hne, (name_some_of_truthy ht).1]
        rw [← this]; exact huD
      rw [hnone]
      have hv' : v ∈ Ds.flatten := by
        rw [flatten_cons_mem] at hv
        rcases hv with hv | hv
        · exact absurd hv hD
        · exact hv
      exact ih (fun a ha b hb => hu a (by simp [ha]) b (by simp [hb])) v hv' ht

/-! ### phase 4: one node -/

theorem rt_resolveInputs (V : Nat → ValueS) (A : Assoc) (s : Store) (top : Table) (outer : List Table)
    (vi : List (Name × Info)) :
    ∀ (ins : List (Option Nat)),
      (∀ v, some v ∈ ins → nameTruthy (V v).name = true ∧ resolve (nm V v) (top :: outer) = some (sig A v)) →
      resolveInputs s top outer vi (ins.map (inName V)) = (s, top, ins.map (Option.map (sig A))) := by
  intro ins
  induction ins with
  | nil => intro _; rfl
  | cons a rest ih =>
    intro h
    have ih' := ih (fun v hv => h v (by simp [hv]))
    cases a with
    | none => simp [resolveInputs, inName, ih']
    | some v =>
      obtain ⟨ht, hr⟩ := h v (by simp)
      have hne := (name_some_of_truthy ht).2
      simp [resolveInputs, inName, hne, hr, ih']

theorem rt_lookupOutputs (V : Nat → ValueS) (top : Table) :
    ∀ (vs : List Nat) (s : Store) (A : Assoc),
      RS V s A → (∀ v ∈ vs, (V v).name ≠ none) → vs.Nodup →
      (∀ v ∈ vs, nameTruthy (V v).name = true → top.lookup (nm V v) = some (sig A v) ∧ v ∈ A.map (·.1)) →
      (∀ v ∈ vs, ¬ nameTruthy (V v).name = true → v ∉ A.map (·.1)) →
      ∃ (B : Assoc) (s' : Store),
        lookupOutputs s top (vs.map (nm V)) = .ok (s', vs.map (sig (A ++ B))) ∧ RS V s' (A ++ B) ∧
        B.map (·.1) = vs.filter (fun v => !nameTruthy (V v).name) ∧ s.nv ≤ s'.nv ∧
        (∀ v, v < s.nv → (s'.vals v) = (s.vals v)) ∧
        (∀ v ∈ vs, ¬ nameTruthy (V v).name = true → (s'.vals (sig (A ++ B) v)).info = {}) ∧
        (∀ e ∈ B, s.nv ≤ e.2) ∧ s'.tens = s.tens ∧ s'.nt = s.nt := by
  intro vs
  induction vs with
  | nil =>
    intro s A h _ _ _ _
    exact ⟨[], s, by simp [lookupOutputs], by simpa using h, by simp, Nat.le_refl _, fun _ _ => rfl, by simp,
      by simp, rfl, rfl⟩
  | cons v rest ih =>
    intro s A h hn hnd ht hf
    simp only [List.nodup_cons] at hnd
    simp only [List.map_cons, lookupOutputs]
    by_cases htv : nameTruthy (V v).name = true
    · obtain ⟨hl, hvA⟩ := ht v (by simp) htv
      have hne := (name_some_of_truthy htv).2
      simp only [hne, if_false, hl]
      obtain ⟨B, s', e1, e2, e3, e4, e5, e6, e7, e8, e9⟩ := ih s A h (fun w hw => hn w (by simp [hw])) hnd.2
        (fun w hw => ht w (by simp [hw])) (fun w hw => hf w (by simp [hw]))
      refine ⟨B, s', ?_, e2, ?_, e4, e5, ?_, e7, e8, e9⟩
      · simp [e1, sig_append_of_mem hvA]
      · simp [List.filter_cons, htv, e3]
      · intro w hw hfw
        simp only [List.mem_cons] at hw
        rcases hw with rfl | hw
        · exact absurd htv hfw
        · exact e6 w hw hfw
    · obtain ⟨hvn, hnm⟩ := nameTruthy_false_of (hn v (by simp)) htv
      have hvA := hf v (by simp) htv
      simp only [hnm, if_true]
      have h1 := h.alloc v { name := some "" } hvA (by simp [hvn])
      obtain ⟨B, s', e1, e2, e3, e4, e5, e6, e7, e8, e9⟩ := ih (s.alloc { name := some "" }).1 (A ++ [(v, s.nv)]) h1
        (fun w hw => hn w (by simp [hw])) hnd.2
        (fun w hw htw => by
          obtain ⟨a, b⟩ := ht w (by simp [hw]) htw
          exact ⟨by rw [sig_append_of_mem b]; exact a, by simp [b]⟩)
        (fun w hw htw => by
          have hne : w ≠ v := fun e => hnd.1 (e ▸ hw)
          simp [hf w (by simp [hw]) htw, hne])
      have hassoc : A ++ (v, s.nv) :: B = (A ++ [(v, s.nv)]) ++ B := by simp
      refine ⟨(v, s.nv) :: B, s', ?_, ?_, ?_, ?_, ?_, ?_, ?_, e8, e9⟩
      · simp only [e1, alloc_snd, hassoc]
        rw [sig_append_of_mem (by simp), sig_append_single hvA]
      · simpa [List.append_assoc] using e2
      · have hfalse : nameTruthy (V v).name = false := by simpa using htv
        simp [List.filter_cons, hfalse, e3]
      · simp at e4; omega
      · intro w hw
        rw [e5 w (by simp; omega), alloc_vals_lt _ _ hw]
      · intro w hw hfw
        rw [hassoc]
        simp only [List.mem_cons] at hw
        rcases hw with rfl | hw
        · rw [sig_append_of_mem (by simp), sig_append_single hvA, e5 s.nv (by simp)]
          simp
        · exact e6 w hw hfw
      · intro e he
        simp only [List.mem_cons] at he
        rcases he with rfl | he
        · exact Nat.le_refl _
        · have := e7 e he; simp at this; omega

/-! ### phase 5: graph outputs -/

theorem rt_outputs (V : Nat → ValueS) (A : Assoc) (T : Table) :
    ∀ (outs : List Nat) (s : Store),
      (∀ v ∈ outs, (V v).name ≠ none ∧ T.lookup (nm V v) = some (sig A v)) →
      (deserOutputs s T (outs.map (viOf V))).2 = outs.map (sig A) ∧
      (deserOutputs s T (outs.map (viOf V))).1.nv = s.nv ∧
      (∀ w, ((deserOutputs s T (outs.map (viOf V))).1.vals w).name = (s.vals w).name) ∧
      (∀ w, (∀ v ∈ outs, sig A v ≠ w) → (deserOutputs s T (outs.map (viOf V))).1.vals w = s.vals w) ∧
      (∀ w, ((deserOutputs s T (outs.map (viOf V))).1.vals w).const = (s.vals w).const) ∧
      (deserOutputs s T (outs.map (viOf V))).1.tens = s.tens ∧
      (deserOutputs s T (outs.map (viOf V))).1.nt = s.nt ∧
      ((∀ a ∈ outs, ∀ b ∈ outs, sig A a = sig A b → (V a).info = (V b).info) →
        ∀ v ∈ outs, ((deserOutputs s T (outs.map (viOf V))).1.vals (sig A v)).info = (V v).info.emit) := by
  intro outs
  induction outs with
  | nil => intro s _; simp [deserOutputs]
  | cons v rest ih =>
    intro s h
    obtain ⟨_, hl⟩ := h v (by simp)
    simp only [List.map_cons, deserOutputs]
    have : (viOf V v).name = nm V v := rfl
    simp only [this, hl]
    obtain ⟨e1, e2, e3, e4, e5, e6, e7, e8⟩ := ih (s.modify (sig A v) fun c => { c with info := (viOf V v).info })
      (fun w hw => h w (by simp [hw]))
    refine ⟨by simp [e1], by simpa using e2, fun w => ?_, fun w hw => ?_, fun w => ?_, e6, e7, fun hinj w hw => ?_⟩
    · rw [e3 w, modify_vals]
      split <;> rfl
    · rw [e4 w (fun u hu => hw u (by simp [hu])), modify_vals_ne _ _ _ (Ne.symm (hw v (by simp)))]
    · rw [e5 w, modify_vals]
      split <;> rfl
    · by_cases hr : ∃ u ∈ rest, sig A u = sig A w
      · obtain ⟨u, hu, hsu⟩ := hr
        have := e8 (fun a ha b hb => hinj a (by simp [ha]) b (by simp [hb])) u hu
        rw [hsu] at this
        rw [this, hinj u (by simp [hu]) w hw hsu]
      · have hne : ∀ u ∈ rest, sig A u ≠ sig A w := fun u hu heq => hr ⟨u, hu, heq⟩
        rw [e4 _ hne]
        simp only [List.mem_cons] at hw
        rcases hw with rfl | hw
        · simp [viOf]
        · exact absurd rfl (hne w hw)

/-! ### phase 6: the initializer dict of the new graph -/

theorem dictInsert_fresh (d : List (Name × Nat)) (k : Name) (v : Nat) (h : k ∉ d.map (·.1)) :
    dictInsert d k v = d ++ [(k, v)] := by
  induction d with
  | nil => rfl
  | cons e r ih =>
    obtain ⟨k', v'⟩ := e
    simp only [List.map_cons, List.mem_cons, not_or] at h
    have hne : ¬ k' = k := fun e => h.1 e.symm
    simp [dictInsert, hne, ih h.2]

theorem initDict_fresh (st : Store) :
    ∀ (ds : List Nat) (d : List (Name × Nat)),
      ((d.map (·.1)) ++ ds.map (fun x => ((st.vals x).name).getD "")).Nodup →
      initDict st d ds = d ++ ds.map (fun x => (((st.vals x).name).getD "", x)) := by
  intro ds
  induction ds with
  | nil => intro d _; simp [initDict]
  | cons x rest ih =>
    intro d hnd
    simp only [initDict]
    have hk : ((st.vals x).name).getD "" ∉ d.map (·.1) := by
      rw [List.nodup_append] at hnd
      intro hm
      exact hnd.2.2 _ hm _ (by simp) rfl
    rw [dictInsert_fresh d _ x hk, ih]
    · simp
    · simp only [List.map_append, List.map_cons, List.map_nil, List.append_assoc, List.singleton_append]
      simpa using hnd

end IrVerif.Scope

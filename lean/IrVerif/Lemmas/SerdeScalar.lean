import IrVerif.Model.SerdeScalar
/-!
Lemmas for the typed scalar level of C02 (`IrVerif/Model/SerdeScalar.lean`): dimensions and shapes
with int64 range, INT / FLOAT / STRING attribute payloads, float32 <-> double conversion on bit
patterns (all float32 patterns, by case analysis on the exponent / mantissa fields), UTF-8.
Core Lean only (omega, simp).
-/
namespace IrVerif.Serde
open IrVerif.Proto

/-! ## dimensions -/

theorem normDen_getD (o : Option String) : (normDen o).getD "" = o.getD "" := by
  cases o with
  | none => rfl
  | some s =>
    simp only [normDen]
    split
    · rename_i h; simp only [Option.getD]; exact (String.isEmpty_iff.mp h).symm
    · rfl

theorem normDen_idem (o : Option String) : normDen (normDen o) = normDen o := by
  cases o with
  | none => rfl
  | some s =>
    by_cases h : s.isEmpty = true <;> simp [normDen, h]

/-- proto -> IR -> proto on one dimension -/
theorem serDimC_desDimF (d : DimF) (h : wfDimF d = true) : serDimC (desDimF d) = .ok (normDimF d) := by
  obtain ⟨v, den⟩ := d
  cases v with
  | unset => rfl
  | param s => rfl
  | value v =>
    simp only [wfDimF] at h
    simp [serDimC, desDimF, desDimVal, h, normDimF]

/-- IR -> proto: ok exactly in the int64 range, ValueError outside -/
theorem serDimC_ok_iff (d : IRDimF) : (∃ r, serDimC d = .ok r) ↔ irShapeInRange [d] = true := by
  obtain ⟨dim, den⟩ := d
  cases dim with
  | int v =>
    by_cases h : inInt64 v = true
    · simp [serDimC, irShapeInRange, h]
    · simp [serDimC, irShapeInRange, h]
  | sym s => cases s <;> simp [serDimC, irShapeInRange]

theorem serDimC_error (d : IRDimF) (h : irShapeInRange [d] = false) : serDimC d = .error "ValueError" := by
  obtain ⟨dim, den⟩ := d
  cases dim with
  | int v =>
    have : inInt64 v = false := by simpa [irShapeInRange] using h
    simp [serDimC, this]
  | sym s => simp [irShapeInRange] at h

/-- IR -> proto -> IR: the dimension comes back, the denotation normalised (`None` for "") -/
theorem desDimF_serDimC (d : IRDimF) (r : DimF) (h : serDimC d = .ok r) :
    desDimF r = ⟨d.dim, normDen d.den⟩ ∧ wfDimF r = true := by
  obtain ⟨dim, den⟩ := d
  cases dim with
  | int v =>
    by_cases hv : inInt64 v = true
    · simp only [serDimC, hv, if_true, Except.ok.injEq] at h
      subst h; exact ⟨rfl, hv⟩
    · simp [serDimC, hv] at h
  | sym s =>
    cases s with
    | none => simp only [serDimC, Except.ok.injEq] at h; subst h; exact ⟨rfl, rfl⟩
    | some s => simp only [serDimC, Except.ok.injEq] at h; subst h; exact ⟨rfl, rfl⟩

/-- agreement with the unchecked model of `Model/Serde.lean` once presence bits are forgotten -/
theorem toP_normDimF (d : DimF) : (normDimF d).toP = serDim (desDim d.toP) := by
  obtain ⟨v, den⟩ := d
  simp only [normDimF, DimF.toP, serDim, desDim, normDen_getD]
  cases v <;> rfl

theorem toPair_desDimF (d : DimF) : (desDimF d).toPair = desDim d.toP := rfl

/-- proto -> IR -> proto on one dimension, field by field: the selected member of the `value` oneof
and its payload, the denotation (as a string; its presence bit unless the string is empty), and the
agreement with the unchecked `serDim (desDim _)` of `Model/Serde.lean` -/
theorem dim_fields (d : DimF) (h : wfDimF d = true) :
    ∃ r, serDimC (desDimF d) = .ok r ∧ r.val = d.val ∧ r.den = normDen d.den ∧
      r.den.getD "" = d.den.getD "" ∧ (d.den ≠ some "" → r.den = d.den) ∧
      r.toP = serDim (desDim d.toP) ∧ r.toP = d.toP := by
  refine ⟨normDimF d, serDimC_desDimF d h, rfl, rfl, normDen_getD d.den, ?_, toP_normDimF d, ?_⟩
  · intro hne
    simp only [normDimF]
    cases hd : d.den with
    | none => rfl
    | some s =>
      have : s ≠ "" := fun e => hne (by rw [hd, e])
      simp [normDen, this]
  · simp only [DimF.toP, normDimF, normDen_getD]

theorem serShapeC_desShapeF (s : ShapeF) (h : s.all wfDimF = true) :
    serShapeC (desShapeF s) = .ok (s.map normDimF) := by
  induction s with
  | nil => rfl
  | cons d ds ih =>
    simp only [List.all_cons, Bool.and_eq_true] at h
    have ih' := ih h.2
    simp only [desShapeF] at ih'
    simp [desShapeF, serShapeC, serDimC_desDimF d h.1, ih', bind, Except.bind]

theorem serShapeC_ok_iff (s : IRShapeF) : (∃ r, serShapeC s = .ok r) ↔ irShapeInRange s = true := by
  induction s with
  | nil => simp [serShapeC, irShapeInRange]
  | cons d ds ih =>
    have hsplit : irShapeInRange (d :: ds) = (irShapeInRange [d] && irShapeInRange ds) := by
      simp [irShapeInRange]
    rw [hsplit, Bool.and_eq_true, ← ih, ← serDimC_ok_iff]
    constructor
    · rintro ⟨r, hr⟩
      cases hd : serDimC d with
      | error e => simp [serShapeC, hd, bind, Except.bind] at hr
      | ok p =>
        cases hs : serShapeC ds with
        | error e => simp [serShapeC, hd, hs, bind, Except.bind] at hr
        | ok ps => exact ⟨⟨p, rfl⟩, ⟨ps, rfl⟩⟩
    · rintro ⟨⟨p, hp⟩, ⟨ps, hps⟩⟩
      exact ⟨p :: ps, by simp [serShapeC, hp, hps, bind, Except.bind]⟩

theorem serShapeC_error (s : IRShapeF) (h : irShapeInRange s = false) : serShapeC s = .error "ValueError" := by
  induction s with
  | nil => simp [irShapeInRange] at h
  | cons d ds ih =>
    have hsplit : irShapeInRange (d :: ds) = (irShapeInRange [d] && irShapeInRange ds) := by
      simp [irShapeInRange]
    rw [hsplit] at h
    by_cases hd : irShapeInRange [d] = true
    · obtain ⟨p, hp⟩ := (serDimC_ok_iff d).2 hd
      have hds : irShapeInRange ds = false := by simpa [hd] using h
      simp [serShapeC, hp, ih hds, bind, Except.bind]
    · have := serDimC_error d (by simpa using hd)
      simp [serShapeC, this, bind, Except.bind]

theorem toP_shape (s : ShapeF) : (s.map normDimF).map DimF.toP = serShape (desShape (s.map DimF.toP)) := by
  simp [serShape, desShape, List.map_map, Function.comp_def, toP_normDimF]

/-! ## INT -/

theorem serAttrIntC_ok_iff (n : Int) : (∃ r, serAttrIntC n = .ok r) ↔ inInt64 n = true := by
  by_cases h : inInt64 n = true <;> simp [serAttrIntC, h]

theorem serAttrIntC_error (n : Int) (h : inInt64 n = false) : serAttrIntC n = .error "ValueError" := by
  simp [serAttrIntC, h]

theorem inInt64_iff (n : Int) : inInt64 n = true ↔ -(2 : Int) ^ 63 ≤ n ∧ n < (2 : Int) ^ 63 := by
  have h : (2 : Int) ^ 63 = 9223372036854775808 := by decide
  rw [h]
  unfold inInt64 int64Min int64Max
  rw [Bool.and_eq_true, decide_eq_true_eq, decide_eq_true_eq]
  omega

/-! ## float32 <-> double -/

theorem rneShift_exact (q sh : Nat) : rneShift (q * 2 ^ sh) sh = q := by
  have hp : 0 < 2 ^ sh := Nat.two_pow_pos sh
  simp only [rneShift, Nat.mul_div_cancel _ hp, Nat.mul_mod_left]
  simp
  omega

theorem rneShift_zero (sh : Nat) : rneShift 0 sh = 0 := by
  have := rneShift_exact 0 sh; rwa [Nat.zero_mul] at this

/-- the normal-range candidate of the narrowing and the clamp to infinity, as named atoms (omega must
not see several products with large literals at once: its atom comparison unfolds them in unary) -/
def normC (E M : Nat) : Nat := (E - 897) * 2 ^ 23 + rneShift (2 ^ 52 + M) 29
def clampInf (c : Nat) : Nat := if c < inf32 then c else inf32

theorem clampInf_le (c : Nat) : clampInf c ≤ inf32 := by unfold clampInf; split <;> omega
theorem clampInf_of_lt (c : Nat) (h : c < inf32) : clampInf c = c := by unfold clampInf; rw [if_pos h]
theorem clampInf_of_ge (c : Nat) (h : inf32 ≤ c) : clampInf c = inf32 := by
  unfold clampInf; rw [if_neg (by omega)]
theorem clampInf_mono {a b : Nat} (h : a ≤ b) : clampInf a ≤ clampInf b := by
  unfold clampInf; split <;> split <;> omega

/-- `f64ToF32` on a double given by its sign, exponent field and mantissa field -/
theorem f64ToF32_fields (s E M : Nat) (_hs : s < 2) (hE : E < 2048) (hM : M < 2 ^ 52) :
    f64ToF32 (s * 2 ^ 63 + E * 2 ^ 52 + M) =
      if E = 2047 then
        if M = 0 then s * 2 ^ 31 + inf32 else s * 2 ^ 31 + inf32 + quietMan (M / 2 ^ 29) (2 ^ 22)
      else if 897 ≤ E then s * 2 ^ 31 + clampInf (normC E M)
      else if E = 0 then s * 2 ^ 31 + rneShift M 925
      else s * 2 ^ 31 + rneShift (2 ^ 52 + M) (926 - E) := by
  have h1 : (s * 2 ^ 63 + E * 2 ^ 52 + M) / 2 ^ 63 = s := by omega
  have h2 : (s * 2 ^ 63 + E * 2 ^ 52 + M) / 2 ^ 52 % 2048 = E := by omega
  have h3 : (s * 2 ^ 63 + E * 2 ^ 52 + M) % 2 ^ 52 = M := by omega
  unfold normC clampInf
  simp only [f64ToF32, h1, h2, h3]

/-- field view of `f32ToF64` -/
theorem f32ToF64_normal (b : Nat) (h1 : f32Exp b ≠ 255) (h0 : f32Exp b ≠ 0) :
    f32ToF64 b = b / 2 ^ 31 * 2 ^ 63 + (f32Exp b + 896) * 2 ^ 52 + f32Man b * 2 ^ 29 := by
  simp [f32ToF64, h1, h0]

theorem rt_normal (b : Nat) (hb : b < 2 ^ 32) (h1 : f32Exp b ≠ 255) (h0 : f32Exp b ≠ 0) :
    f64ToF32 (f32ToF64 b) = b := by
  rw [f32ToF64_normal b h1 h0]
  have he : f32Exp b < 256 := by unfold f32Exp; omega
  have hm : f32Man b < 2 ^ 23 := by unfold f32Man; omega
  rw [f64ToF32_fields _ _ _ (by omega) (by omega) (by omega)]
  have hr : rneShift (2 ^ 52 + f32Man b * 2 ^ 29) 29 = 2 ^ 23 + f32Man b := by
    have : 2 ^ 52 + f32Man b * 2 ^ 29 = (2 ^ 23 + f32Man b) * 2 ^ 29 := by omega
    rw [this, rneShift_exact]
  have hdec : b = b / 2 ^ 31 * 2 ^ 31 + f32Exp b * 2 ^ 23 + f32Man b := by
    unfold f32Exp f32Man; omega
  have hinf : inf32 = 255 * 2 ^ 23 := rfl
  have hc : normC (f32Exp b + 896) (f32Man b * 2 ^ 29) = f32Exp b * 2 ^ 23 + f32Man b := by
    unfold normC; rw [hr]; omega
  rw [if_neg (by omega), if_pos (by omega), hc, clampInf_of_lt _ (by omega)]
  omega

theorem quietMan_quiet (m : Nat) : quietMan (quietMan m (2 ^ 22)) (2 ^ 22) = quietMan m (2 ^ 22) := by
  unfold quietMan; split <;> simp <;> omega

theorem rt_special (b : Nat) (hb : b < 2 ^ 32) (h1 : f32Exp b = 255) :
    f64ToF32 (f32ToF64 b) = quiet32 b := by
  have hm : f32Man b < 2 ^ 23 := by unfold f32Man; omega
  have hdec : b = b / 2 ^ 31 * 2 ^ 31 + f32Exp b * 2 ^ 23 + f32Man b := by
    unfold f32Exp f32Man; omega
  have hinf : inf32 = 255 * 2 ^ 23 := rfl
  by_cases h0 : f32Man b = 0
  · have : f32ToF64 b = b / 2 ^ 31 * 2 ^ 63 + 2047 * 2 ^ 52 + 0 := by simp [f32ToF64, h1, h0]
    rw [this, f64ToF32_fields _ _ _ (by omega) (by omega) (by omega)]
    simp [quiet32, isNaN32, h0]
    omega
  · have : f32ToF64 b = b / 2 ^ 31 * 2 ^ 63 + 2047 * 2 ^ 52 + quietMan (f32Man b) (2 ^ 22) * 2 ^ 29 := by
      simp [f32ToF64, h1, h0]
    have hq : quietMan (f32Man b) (2 ^ 22) < 2 ^ 23 ∧ 2 ^ 22 ≤ quietMan (f32Man b) (2 ^ 22) := by
      unfold quietMan; split <;> omega
    rw [this, f64ToF32_fields _ _ _ (by omega) (by omega) (by omega)]
    have hne : quietMan (f32Man b) (2 ^ 22) * 2 ^ 29 ≠ 0 := by omega
    have hdiv : quietMan (f32Man b) (2 ^ 22) * 2 ^ 29 / 2 ^ 29 = quietMan (f32Man b) (2 ^ 22) := by omega
    rw [if_pos rfl, if_neg hne, hdiv, quietMan_quiet]
    have hq32 : quiet32 b = if f32Man b < 2 ^ 22 then b + 2 ^ 22 else b := by
      simp [quiet32, isNaN32, h1, h0]
    rw [hq32]
    unfold quietMan
    split <;> split <;> omega

theorem rt_zero (b : Nat) (hb : b < 2 ^ 32) (h1 : f32Exp b = 0) (h0 : f32Man b = 0) :
    f64ToF32 (f32ToF64 b) = b := by
  have hdec : b = b / 2 ^ 31 * 2 ^ 31 + f32Exp b * 2 ^ 23 + f32Man b := by
    unfold f32Exp f32Man; omega
  have : f32ToF64 b = b / 2 ^ 31 * 2 ^ 63 + 0 * 2 ^ 52 + 0 := by simp [f32ToF64, h1, h0]
  rw [this, f64ToF32_fields _ _ _ (by omega) (by omega) (by omega)]
  have hz : rneShift 0 925 = 0 := rneShift_zero 925
  simp [hz]
  omega

theorem rt_subnormal (b : Nat) (hb : b < 2 ^ 32) (h1 : f32Exp b = 0) (h0 : f32Man b ≠ 0) :
    f64ToF32 (f32ToF64 b) = b := by
  have hdec : b = b / 2 ^ 31 * 2 ^ 31 + f32Exp b * 2 ^ 23 + f32Man b := by
    unfold f32Exp f32Man; omega
  have hm : f32Man b < 2 ^ 23 := by unfold f32Man; omega
  generalize hk : (f32Man b).log2 = k
  have hk23 : k < 23 := by rw [← hk]; exact (Nat.log2_lt h0).2 hm
  have hlo : 2 ^ k ≤ f32Man b := by rw [← hk]; exact Nat.log2_self_le h0
  have hhi : f32Man b < 2 ^ (k + 1) := by rw [← hk]; exact Nat.lt_log2_self
  have hpow : 2 ^ k * 2 ^ (52 - k) = 2 ^ 52 := by rw [← Nat.pow_add]; congr 1; omega
  have hpos : 0 < 2 ^ (52 - k) := Nat.two_pow_pos _
  have this : f32ToF64 b = b / 2 ^ 31 * 2 ^ 63 + (874 + k) * 2 ^ 52 + (f32Man b - 2 ^ k) * 2 ^ (52 - k) := by
    simp [f32ToF64, h1, h0, hk]
  have hM : (f32Man b - 2 ^ k) * 2 ^ (52 - k) < 2 ^ 52 := by
    rw [← hpow]
    apply Nat.mul_lt_mul_of_lt_of_le _ (Nat.le_refl _) hpos
    rw [Nat.pow_succ] at hhi; omega
  rw [this, f64ToF32_fields _ _ _ (by omega) (by omega) hM]
  have hsig : 2 ^ 52 + (f32Man b - 2 ^ k) * 2 ^ (52 - k) = f32Man b * 2 ^ (52 - k) := by
    rw [← hpow, ← Nat.add_mul]; congr 1; omega
  have hsh : 926 - (874 + k) = 52 - k := by omega
  rw [if_neg (by omega), if_neg (by omega), if_neg (by omega), hsh, hsig, rneShift_exact]
  omega



theorem quiet32_of_not_nan (b : Nat) (h : isNaN32 b = false) : quiet32 b = b := by
  simp [quiet32, h]

/-- proto -> IR -> proto on the float payload, ALL float32 bit patterns: widening then narrowing
returns the same bits, except that a signalling NaN comes back with the quiet bit -/
theorem f64ToF32_f32ToF64 (b : Nat) (hb : b < 2 ^ 32) : f64ToF32 (f32ToF64 b) = quiet32 b := by
  by_cases h1 : f32Exp b = 255
  · exact rt_special b hb h1
  · have hn : isNaN32 b = false := by simp [isNaN32, h1]
    rw [quiet32_of_not_nan b hn]
    by_cases h0 : f32Exp b = 0
    · by_cases hm : f32Man b = 0
      · exact rt_zero b hb h0 hm
      · exact rt_subnormal b hb h0 hm
    · exact rt_normal b hb h1 h0

/-- the bits survive exactly for everything that is not a NaN (zeros of both signs, subnormals,
normals, infinities) and for quiet NaNs (payload kept) -/
theorem f64ToF32_f32ToF64_exact (b : Nat) (hb : b < 2 ^ 32)
    (h : isNaN32 b = false ∨ 2 ^ 22 ≤ f32Man b) : f64ToF32 (f32ToF64 b) = b := by
  rw [f64ToF32_f32ToF64 b hb]
  rcases h with h | h
  · exact quiet32_of_not_nan b h
  · unfold quiet32
    rw [if_neg]
    simp only [Bool.and_eq_true, decide_eq_true_eq, not_and, Nat.not_lt]
    exact fun _ => h

theorem quiet32_fields (b : Nat) :
    quiet32 b / 2 ^ 31 = b / 2 ^ 31 ∧ f32Exp (quiet32 b) = f32Exp b ∧
      f32Man (quiet32 b) = if isNaN32 b = true then quietMan (f32Man b) (2 ^ 22) else f32Man b := by
  unfold quiet32
  by_cases hn : isNaN32 b = true
  · by_cases hm : f32Man b < 2 ^ 22
    · simp only [hn, hm, decide_true, Bool.and_self, if_true, quietMan]
      rw [if_neg (by omega)]
      unfold f32Exp f32Man at *
      omega
    · simp only [hn, hm, decide_false, Bool.and_false, Bool.false_eq_true, if_false, if_true, quietMan]
      rw [if_pos (by omega)]
      simp
  · simp [hn]

theorem isNaN32_quiet32 (b : Nat) : isNaN32 (quiet32 b) = isNaN32 b := by
  obtain ⟨_, h2, h3⟩ := quiet32_fields b
  by_cases hn : isNaN32 b = true
  · rw [hn]
    simp only [isNaN32, Bool.and_eq_true, beq_iff_eq, bne_iff_ne, ne_eq] at hn ⊢
    rw [h2, h3, if_pos (by simp [isNaN32, hn.1, hn.2])]
    refine ⟨hn.1, ?_⟩
    unfold quietMan; split <;> omega
  · have hq : quiet32 b = b := quiet32_of_not_nan b (by simpa using hn)
    rw [hq]

theorem f32ToF64_quiet32 (b : Nat) : f32ToF64 (quiet32 b) = f32ToF64 b := by
  by_cases hn : isNaN32 b = true
  · obtain ⟨h1, h2, h3⟩ := quiet32_fields b
    have he : f32Exp b = 255 := by
      simp only [isNaN32, Bool.and_eq_true, beq_iff_eq] at hn; exact hn.1
    have hm : f32Man b ≠ 0 := by
      simp only [isNaN32, Bool.and_eq_true, bne_iff_ne, ne_eq] at hn; exact hn.2
    rw [if_pos hn] at h3
    have hm' : quietMan (f32Man b) (2 ^ 22) ≠ 0 := by unfold quietMan; split <;> omega
    simp only [f32ToF64, h1, h2, h3, he, if_true, hm, hm', if_false, quietMan_quiet]
  · rw [quiet32_of_not_nan b (by simpa using hn)]

/-- every double that IS a float32 value (the image of the widening) survives IR -> proto -> IR
exactly: narrowing is the identity on representable values, for all classes incl. NaNs -/
theorem f32ToF64_f64ToF32_of_representable (x : Nat) (h : ∃ b, b < 2 ^ 32 ∧ x = f32ToF64 b) :
    f32ToF64 (f64ToF32 x) = x := by
  obtain ⟨b, hb, rfl⟩ := h
  rw [f64ToF32_f32ToF64 b hb, f32ToF64_quiet32]

/-- narrowing is idempotent through the widening: what `to_proto` stores is a fixed point -/
theorem f64ToF32_idem (b : Nat) (hb : b < 2 ^ 32) :
    f64ToF32 (f32ToF64 (f64ToF32 (f32ToF64 b))) = f64ToF32 (f32ToF64 b) := by
  rw [f32ToF64_f64ToF32_of_representable _ ⟨b, hb, rfl⟩]

theorem div_pow_eq_zero (M sh k : Nat) (hM : M < 2 ^ k) (h : k ≤ sh) : M / 2 ^ sh = 0 :=
  Nat.div_eq_of_lt (Nat.lt_of_lt_of_le hM (Nat.pow_le_pow_right (by decide) h))

theorem rneShift_le (sig sh : Nat) : rneShift sig sh ≤ sig / 2 ^ sh + 1 := by
  unfold rneShift; simp only []; split <;> omega

/-- the narrowing always yields a float32 bit pattern -/
theorem f64ToF32_lt (x : Nat) (hx : x < 2 ^ 64) : f64ToF32 x < 2 ^ 32 := by
  have hdec : x = x / 2 ^ 63 * 2 ^ 63 + x / 2 ^ 52 % 2048 * 2 ^ 52 + x % 2 ^ 52 := by omega
  have hs : x / 2 ^ 63 < 2 := by omega
  have hE : x / 2 ^ 52 % 2048 < 2048 := by omega
  have hM : x % 2 ^ 52 < 2 ^ 52 := by omega
  generalize x / 2 ^ 63 = s at *
  generalize x / 2 ^ 52 % 2048 = E at *
  generalize x % 2 ^ 52 = M at *
  rw [hdec, f64ToF32_fields s E M hs hE hM]
  have hinf : inf32 = 255 * 2 ^ 23 := rfl
  split
  · split
    · omega
    · have : quietMan (M / 2 ^ 29) (2 ^ 22) < 2 ^ 23 := by unfold quietMan; split <;> omega
      omega
  · split
    · have := clampInf_le (normC E M)
      omega
    · split
      · have := rneShift_le M 925
        have h0 : M / 2 ^ 925 = 0 := div_pow_eq_zero M 925 52 hM (by decide)
        omega
      · have h1 := rneShift_le (2 ^ 52 + M) (926 - E)
        have h2 : (2 ^ 52 + M) / 2 ^ (926 - E) ≤ (2 ^ 52 + M) / 2 ^ 30 :=
          Nat.div_le_div_left (Nat.pow_le_pow_right (by decide) (by omega)) (Nat.two_pow_pos _)
        omega

/-- the widening always yields a double bit pattern -/
theorem f32ToF64_lt (b : Nat) (hb : b < 2 ^ 32) : f32ToF64 b < 2 ^ 64 := by
  have hm : f32Man b < 2 ^ 23 := by unfold f32Man; omega
  have he : f32Exp b < 256 := by unfold f32Exp; omega
  unfold f32ToF64
  simp only []
  split
  · split
    · omega
    · have : quietMan (f32Man b) (2 ^ 22) < 2 ^ 23 := by unfold quietMan; split <;> omega
      omega
  · split
    · split
      · omega
      · rename_i h0
        generalize hk : (f32Man b).log2 = k
        have hk23 : k < 23 := by rw [← hk]; exact (Nat.log2_lt h0).2 hm
        have hhi : f32Man b < 2 ^ (k + 1) := by rw [← hk]; exact Nat.lt_log2_self
        have hpow : 2 ^ k * 2 ^ (52 - k) = 2 ^ 52 := by rw [← Nat.pow_add]; congr 1; omega
        have hM : (f32Man b - 2 ^ k) * 2 ^ (52 - k) < 2 ^ 52 := by
          rw [← hpow]
          apply Nat.mul_lt_mul_of_lt_of_le _ (Nat.le_refl _) (Nat.two_pow_pos _)
          rw [Nat.pow_succ] at hhi; omega
        omega
    · omega


/-! ### monotonicity, faithful rounding, round-to-nearest-even in the normal range -/

theorem rneShift_mono {a b : Nat} (sh : Nat) (h : a ≤ b) : rneShift a sh ≤ rneShift b sh := by
  have hp : 0 < 2 ^ sh := Nat.two_pow_pos sh
  have hq : a / 2 ^ sh ≤ b / 2 ^ sh := Nat.div_le_div_right h
  have ha := Nat.div_add_mod a (2 ^ sh)
  have hb := Nat.div_add_mod b (2 ^ sh)
  unfold rneShift
  simp only []
  generalize 2 ^ sh = p at *
  generalize ha' : a / p = qa at *
  generalize hb' : b / p = qb at *
  generalize a % p = ra at *
  generalize b % p = rb at *
  by_cases hlt : qa < qb
  · split <;> split <;> omega
  · have : qa = qb := by omega
    subst this
    split <;> split <;> omega

theorem rneShift_small (sig sh : Nat) (h : 2 * sig < 2 ^ sh) : rneShift sig sh = 0 := by
  have hlt : sig < 2 ^ sh := by omega
  unfold rneShift
  simp only [Nat.div_eq_of_lt hlt, Nat.mod_eq_of_lt hlt]
  rw [if_neg (by omega)]

theorem rneShift_small_of_lt (sig sh k : Nat) (hs : sig < 2 ^ k) (h : k + 1 ≤ sh) : rneShift sig sh = 0 := by
  apply rneShift_small
  have : 2 ^ (k + 1) ≤ 2 ^ sh := Nat.pow_le_pow_right (by decide) h
  rw [Nat.pow_succ] at this; omega

theorem rneShift_bounds (sig sh a : Nat) (hlo : 2 ^ a ≤ sig) (hhi : sig < 2 ^ (a + 1)) (hsh : sh ≤ a) :
    2 ^ (a - sh) ≤ rneShift sig sh ∧ rneShift sig sh ≤ 2 ^ (a + 1 - sh) := by
  have hp : 0 < 2 ^ sh := Nat.two_pow_pos sh
  have h1 : 2 ^ (a - sh) ≤ sig / 2 ^ sh := by
    rw [← Nat.pow_div hsh (by decide)]
    exact Nat.div_le_div_right hlo
  have h2 : sig / 2 ^ sh < 2 ^ (a + 1 - sh) := by
    rw [Nat.div_lt_iff_lt_mul hp, ← Nat.pow_add]
    have : a + 1 - sh + sh = a + 1 := by omega
    rw [this]; exact hhi
  have h3 := rneShift_le sig sh
  have h4 : sig / 2 ^ sh ≤ rneShift sig sh := by
    unfold rneShift; simp only []; split <;> omega
  omega


/-- `f64ToF32` without the sign: the image of the non-negative double with fields `E`, `M` -/
def narrowPos (E M : Nat) : Nat :=
  if E = 2047 then
    if M = 0 then inf32 else inf32 + quietMan (M / 2 ^ 29) (2 ^ 22)
  else if 897 ≤ E then clampInf (normC E M)
  else if E = 0 then rneShift M 925
  else rneShift (2 ^ 52 + M) (926 - E)

theorem f64ToF32_sign (s E M : Nat) (hs : s < 2) (hE : E < 2048) (hM : M < 2 ^ 52) :
    f64ToF32 (s * 2 ^ 63 + E * 2 ^ 52 + M) = s * 2 ^ 31 + narrowPos E M := by
  rw [f64ToF32_fields s E M hs hE hM]
  unfold narrowPos
  split
  · split
    · rfl
    · omega
  · split
    · rfl
    · split <;> rfl

/-- the least float32 pattern a double with exponent field `E` can narrow to -/
def loF (E : Nat) : Nat :=
  if 897 ≤ E then clampInf ((E - 896) * 2 ^ 23)
  else if 874 ≤ E then 2 ^ (E - 874)
  else 0

theorem narrowPos_hi (E M : Nat) (h : 897 ≤ E) (h' : E < 2047) : narrowPos E M = clampInf (normC E M) := by
  unfold narrowPos; rw [if_neg (show ¬ E = 2047 by omega), if_pos h]

theorem narrowPos_zero (M : Nat) : narrowPos 0 M = rneShift M 925 := by
  unfold narrowPos
  rw [if_neg (show ¬ (0 : Nat) = 2047 by decide), if_neg (show ¬ 897 ≤ 0 by decide), if_pos rfl]

theorem narrowPos_lo (E M : Nat) (h0 : E ≠ 0) (h : E < 897) : narrowPos E M = rneShift (2 ^ 52 + M) (926 - E) := by
  unfold narrowPos
  rw [if_neg (show ¬ E = 2047 by omega), if_neg (show ¬ 897 ≤ E by omega), if_neg h0]

theorem loF_hi (E : Nat) (h : 897 ≤ E) : loF E = clampInf ((E - 896) * 2 ^ 23) := by
  unfold loF; rw [if_pos h]

theorem loF_mid (E : Nat) (h : 874 ≤ E) (h' : E < 897) : loF E = 2 ^ (E - 874) := by
  unfold loF; rw [if_neg (show ¬ 897 ≤ E by omega), if_pos h]

theorem loF_low (E : Nat) (h : E < 874) : loF E = 0 := by
  unfold loF; rw [if_neg (show ¬ 897 ≤ E by omega), if_neg (show ¬ 874 ≤ E by omega)]

theorem le_clampInf (a c : Nat) (ha : a ≤ inf32) (hc : a ≤ c) : a ≤ clampInf c := by
  unfold clampInf; split <;> assumption

theorem two23_le_inf32 : 2 ^ 23 ≤ inf32 := by decide

theorem loF_mono {E E' : Nat} (h : E ≤ E') : loF E ≤ loF E' := by
  by_cases h1 : 897 ≤ E
  · rw [loF_hi E h1, loF_hi E' (by omega)]
    apply clampInf_mono
    exact Nat.mul_le_mul_right _ (by omega)
  · by_cases h2 : 874 ≤ E
    · rw [loF_mid E h2 (by omega)]
      by_cases h1' : 897 ≤ E'
      · rw [loF_hi E' h1']
        have hp : 2 ^ (E - 874) ≤ 2 ^ 23 := Nat.pow_le_pow_right (by decide) (by omega)
        have hc : 2 ^ 23 ≤ clampInf ((E' - 896) * 2 ^ 23) := by
          apply le_clampInf _ _ two23_le_inf32
          have : 1 * 2 ^ 23 ≤ (E' - 896) * 2 ^ 23 := Nat.mul_le_mul_right _ (by omega)
          rwa [Nat.one_mul] at this
        exact Nat.le_trans hp hc
      · rw [loF_mid E' (by omega) (by omega)]
        exact Nat.pow_le_pow_right (by decide) (by omega)
    · rw [loF_low E (by omega)]; exact Nat.zero_le _

theorem narrowPos_bounds (E M : Nat) (hE : E < 2047) (hM : M < 2 ^ 52) :
    loF E ≤ narrowPos E M ∧ narrowPos E M ≤ loF (E + 1) := by
  by_cases h1 : 897 ≤ E
  · rw [narrowPos_hi E M h1 hE, loF_hi E h1, loF_hi (E + 1) (by omega)]
    have hr : 2 ^ 23 ≤ rneShift (2 ^ 52 + M) 29 ∧ rneShift (2 ^ 52 + M) 29 ≤ 2 ^ 24 := by
      have := rneShift_bounds (2 ^ 52 + M) 29 52 (by omega) (by omega) (by decide)
      simpa using this
    constructor
    · apply clampInf_mono
      unfold normC
      have : (E - 896) * 2 ^ 23 = (E - 897) * 2 ^ 23 + 2 ^ 23 := by omega
      omega
    · apply clampInf_mono
      unfold normC
      have : (E + 1 - 896) * 2 ^ 23 = (E - 897) * 2 ^ 23 + 2 ^ 24 := by omega
      omega
  · by_cases h0 : E = 0
    · subst h0
      rw [narrowPos_zero, loF_low 0 (by decide), loF_low (0 + 1) (by decide)]
      rw [rneShift_small_of_lt M 925 52 hM (by decide)]
      exact ⟨Nat.le_refl _, Nat.le_refl _⟩
    · rw [narrowPos_lo E M h0 (by omega)]
      by_cases h2 : 874 ≤ E
      · rw [loF_mid E h2 (by omega)]
        have hb := rneShift_bounds (2 ^ 52 + M) (926 - E) 52 (by omega) (by omega) (by omega)
        have e1 : 52 - (926 - E) = E - 874 := by omega
        have e2 : 52 + 1 - (926 - E) = E + 1 - 874 := by omega
        rw [e1, e2] at hb
        refine ⟨hb.1, ?_⟩
        by_cases h3 : 897 ≤ E + 1
        · have hE896 : E = 896 := by omega
          subst hE896
          rw [loF_hi _ (by omega)]
          have h' : (896 + 1 - 896) * 2 ^ 23 = 2 ^ 23 := by decide
          rw [h', clampInf_of_lt _ (by decide)]
          exact hb.2
        · rw [loF_mid (E + 1) (by omega) (by omega)]; exact hb.2
      · rw [loF_low E (by omega)]
        refine ⟨Nat.zero_le _, ?_⟩
        by_cases h3 : E = 873
        · subst h3
          rw [loF_mid (873 + 1) (by decide) (by decide)]
          have := rneShift_le (2 ^ 52 + M) (926 - 873)
          have hq : (2 ^ 52 + M) / 2 ^ (926 - 873) = 0 := div_pow_eq_zero _ _ 53 (by omega) (by decide)
          have h1 : 2 ^ (873 + 1 - 874) = 1 := by decide
          omega
        · rw [rneShift_small_of_lt _ (926 - E) 53 (by omega) (by omega)]
          exact Nat.zero_le _

theorem narrowPos_mono_man (E M M' : Nat) (hE : E < 2047) (h : M ≤ M') : narrowPos E M ≤ narrowPos E M' := by
  by_cases h1 : 897 ≤ E
  · rw [narrowPos_hi E M h1 hE, narrowPos_hi E M' h1 hE]
    apply clampInf_mono
    unfold normC
    have := rneShift_mono 29 (show 2 ^ 52 + M ≤ 2 ^ 52 + M' by omega)
    omega
  · by_cases h0 : E = 0
    · subst h0
      rw [narrowPos_zero, narrowPos_zero]
      exact rneShift_mono _ h
    · rw [narrowPos_lo E M h0 (by omega), narrowPos_lo E M' h0 (by omega)]
      exact rneShift_mono _ (by omega)

/-- the narrowing is monotone on the non-negative doubles up to +inf (bit-pattern order = value order
there, on both sides) -/
theorem f64ToF32_mono (x y : Nat) (hxy : x ≤ y) (hy : y ≤ 2047 * 2 ^ 52) : f64ToF32 x ≤ f64ToF32 y := by
  have dx : x = 0 * 2 ^ 63 + x / 2 ^ 52 * 2 ^ 52 + x % 2 ^ 52 := by omega
  have dy : y = 0 * 2 ^ 63 + y / 2 ^ 52 * 2 ^ 52 + y % 2 ^ 52 := by omega
  have hEx : x / 2 ^ 52 ≤ y / 2 ^ 52 := by omega
  have hEy : y / 2 ^ 52 ≤ 2047 := by omega
  have hMx : x % 2 ^ 52 < 2 ^ 52 := by omega
  have hMy : y % 2 ^ 52 < 2 ^ 52 := by omega
  have hlex : x / 2 ^ 52 = y / 2 ^ 52 → x % 2 ^ 52 ≤ y % 2 ^ 52 := by omega
  have htop : y / 2 ^ 52 = 2047 → y % 2 ^ 52 = 0 := by omega
  generalize x / 2 ^ 52 = E at *
  generalize y / 2 ^ 52 = E' at *
  generalize x % 2 ^ 52 = M at *
  generalize y % 2 ^ 52 = M' at *
  rw [dx, dy, f64ToF32_sign 0 E M (by decide) (by omega) hMx, f64ToF32_sign 0 E' M' (by decide) (by omega) hMy]
  simp only [Nat.zero_mul, Nat.zero_add]
  have hinf : inf32 = 255 * 2 ^ 23 := rfl
  -- the image of the upper end
  have htopv : E' = 2047 → narrowPos E' M' = loF 2047 := by
    intro h
    have hm := htop h
    subst h; subst hm
    simp only [narrowPos, loF, if_true]
    rw [if_pos (by decide), clampInf_of_ge _ (by omega)]
  by_cases heq : E = E'
  · subst heq
    by_cases h47 : E = 2047
    · have := htop h47
      have hM0 : M = 0 := by have := hlex rfl; omega
      subst hM0; subst this; exact Nat.le_refl _
    · exact narrowPos_mono_man E M M' (by omega) (hlex rfl)
  · have hlt : E < E' := by omega
    have h1 := (narrowPos_bounds E M (by omega) hMx).2
    have h2 : loF (E + 1) ≤ loF E' := loF_mono (by omega)
    have h3 : loF E' ≤ narrowPos E' M' := by
      by_cases h47 : E' = 2047
      · rw [htopv h47, h47]; exact Nat.le_refl _
      · exact (narrowPos_bounds E' M' (by omega) hMy).1
    omega


/-- sign symmetry: the narrowing of `-x` is the narrowing of `x` with the sign bit -/
theorem f64ToF32_neg (x : Nat) (hx : x < 2 ^ 63) : f64ToF32 (2 ^ 63 + x) = 2 ^ 31 + f64ToF32 x := by
  have d0 : x = 0 * 2 ^ 63 + x / 2 ^ 52 * 2 ^ 52 + x % 2 ^ 52 := by omega
  have d1 : 2 ^ 63 + x = 1 * 2 ^ 63 + x / 2 ^ 52 * 2 ^ 52 + x % 2 ^ 52 := by omega
  have hE : x / 2 ^ 52 < 2048 := by omega
  have hM : x % 2 ^ 52 < 2 ^ 52 := by omega
  generalize x / 2 ^ 52 = E at *
  generalize x % 2 ^ 52 = M at *
  rw [d1, f64ToF32_sign 1 E M (by decide) hE hM, d0, f64ToF32_sign 0 E M (by decide) hE hM]
  omega

theorem not_nan_of_le_inf (b : Nat) (h : b ≤ inf32) : isNaN32 b = false := by
  have hinf : inf32 = 255 * 2 ^ 23 := rfl
  unfold isNaN32 f32Exp f32Man
  by_cases he : b / 2 ^ 23 % 256 = 255
  · have : b % 2 ^ 23 = 0 := by omega
    simp [this]
  · simp [he]

theorem f32ToF64_le_inf (b : Nat) (h : b ≤ inf32) : f32ToF64 b ≤ 2047 * 2 ^ 52 := by
  have hinf : inf32 = 255 * 2 ^ 23 := rfl
  have hs : b / 2 ^ 31 = 0 := by omega
  have he : f32Exp b ≤ 255 := by unfold f32Exp; omega
  have hm : f32Man b < 2 ^ 23 := by unfold f32Man; omega
  have h255 : f32Exp b = 255 → f32Man b = 0 := by unfold f32Exp f32Man; omega
  unfold f32ToF64
  simp only [hs]
  split
  · rename_i h1
    rw [if_pos (h255 h1)]; omega
  · split
    · split
      · simp
      · rename_i h0
        generalize hk : (f32Man b).log2 = k
        have hk23 : k < 23 := by rw [← hk]; exact (Nat.log2_lt h0).2 hm
        have hhi : f32Man b < 2 ^ (k + 1) := by rw [← hk]; exact Nat.lt_log2_self
        have hpow : 2 ^ k * 2 ^ (52 - k) = 2 ^ 52 := by rw [← Nat.pow_add]; congr 1; omega
        have hM : (f32Man b - 2 ^ k) * 2 ^ (52 - k) < 2 ^ 52 := by
          rw [← hpow]
          apply Nat.mul_lt_mul_of_lt_of_le _ (Nat.le_refl _) (Nat.two_pow_pos _)
          rw [Nat.pow_succ] at hhi; omega
        omega
    · omega

/-- faithful rounding: a double between two adjacent non-negative float32 values narrows to one of
the two (monotonicity + identity on the representable values) -/
theorem f64ToF32_faithful (b x : Nat) (hb : b + 1 ≤ inf32) (h1 : f32ToF64 b ≤ x) (h2 : x ≤ f32ToF64 (b + 1)) :
    f64ToF32 x = b ∨ f64ToF32 x = b + 1 := by
  have hinf : inf32 = 255 * 2 ^ 23 := rfl
  have htop := f32ToF64_le_inf (b + 1) hb
  have m1 := f64ToF32_mono _ _ h1 (by omega)
  have m2 := f64ToF32_mono _ _ h2 htop
  rw [f64ToF32_f32ToF64_exact b (by omega) (Or.inl (not_nan_of_le_inf b (by omega)))] at m1
  rw [f64ToF32_f32ToF64_exact (b + 1) (by omega) (Or.inl (not_nan_of_le_inf (b + 1) hb))] at m2
  omega

theorem normC_arith (e8 m b c : Nat) (he : e8 ≠ 0) (hdec : b = e8 * 2 ^ 23 + m) :
    (e8 + 896 - 897) * 2 ^ 23 + (2 ^ 23 + m + c) = b + c := by
  omega

/-- round to nearest, ties to even, in the normal range: the doubles strictly between the normal
float32 value `b` and its successor are `f32ToF64 b + d`, `0 < d < 2^29` (the successor of the
largest finite float32 is the pattern of infinity: the overflow threshold) -/
theorem f64ToF32_nearest_normal (b d : Nat) (hb : b < inf32) (he : f32Exp b ≠ 0) (hd : d < 2 ^ 29) :
    f64ToF32 (f32ToF64 b + d) = if d < 2 ^ 28 ∨ (d = 2 ^ 28 ∧ b % 2 = 0) then b else b + 1 := by
  have hinf : inf32 = 255 * 2 ^ 23 := rfl
  have he255 : f32Exp b ≠ 255 := by unfold f32Exp; omega
  have hs : b / 2 ^ 31 = 0 := by omega
  have hm : f32Man b < 2 ^ 23 := by unfold f32Man; omega
  have he256 : f32Exp b < 255 := by unfold f32Exp at *; omega
  have hdec : b = f32Exp b * 2 ^ 23 + f32Man b := by unfold f32Exp f32Man; omega
  rw [f32ToF64_normal b he255 he, hs]
  have e : 0 * 2 ^ 63 + (f32Exp b + 896) * 2 ^ 52 + f32Man b * 2 ^ 29 + d
      = 0 * 2 ^ 63 + (f32Exp b + 896) * 2 ^ 52 + (f32Man b * 2 ^ 29 + d) := by omega
  rw [e, f64ToF32_sign 0 _ _ (by decide) (by omega) (by omega), narrowPos_hi _ _ (by omega) (by omega)]
  have hq : (2 ^ 52 + (f32Man b * 2 ^ 29 + d)) / 2 ^ 29 = 2 ^ 23 + f32Man b := by omega
  have hr : (2 ^ 52 + (f32Man b * 2 ^ 29 + d)) % 2 ^ 29 = d := by omega
  have hpar : (2 ^ 23 + f32Man b) % 2 = b % 2 := by omega
  generalize f32Exp b = e8 at *
  generalize f32Man b = m at *
  unfold normC rneShift
  simp only [hq, hr, hpar, Nat.zero_mul, Nat.zero_add]
  by_cases hup : 2 ^ 29 < 2 * d ∨ 2 * d = 2 ^ 29 ∧ b % 2 = 1
  · rw [if_pos hup, if_neg (by omega)]
    have hc : (e8 + 896 - 897) * 2 ^ 23 + (2 ^ 23 + m + 1) = b + 1 := normC_arith e8 m b 1 he hdec
    rw [hc]
    by_cases hlt : b + 1 < inf32
    · exact clampInf_of_lt _ hlt
    · rw [clampInf_of_ge _ (by omega)]; omega
  · rw [if_neg hup, if_pos (by omega)]
    have hc : (e8 + 896 - 897) * 2 ^ 23 + (2 ^ 23 + m) = b := normC_arith e8 m b 0 he hdec
    rw [hc]
    exact clampInf_of_lt _ hb


/-! ## UTF-8 -/

/-- decoding one code point is sound and strict: the bytes consumed are exactly the (unique,
shortest) encoding of a scalar value -/
theorem utf8Dec1_sound (l : List Nat) (c n : Nat) (h : utf8Dec1 l = some (c, n)) :
    isSurrogate c = false ∧ c < 0x110000 ∧ n = (utf8Enc1 c).length ∧ l = utf8Enc1 c ++ l.drop n := by
  cases l with
  | nil => simp [utf8Dec1] at h
  | cons b0 rest =>
    simp only [utf8Dec1] at h
    by_cases h0 : b0 < 128
    · rw [if_pos h0] at h
      simp only [Option.some.injEq, Prod.mk.injEq] at h
      obtain ⟨rfl, rfl⟩ := h
      refine ⟨?_, by omega, by simp [utf8Enc1, h0], by simp [utf8Enc1, h0]⟩
      simp only [isSurrogate, Bool.and_eq_false_iff, decide_eq_false_iff_not]; omega
    rw [if_neg h0] at h
    by_cases h1 : b0 < 194
    · rw [if_pos h1] at h; simp at h
    rw [if_neg h1] at h
    by_cases h2 : b0 < 224
    · rw [if_pos h2] at h
      cases rest with
      | nil => simp at h
      | cons b1 r =>
        simp only [] at h
        by_cases hc : isCont b1 = true
        · rw [if_pos hc] at h
          simp only [Option.some.injEq, Prod.mk.injEq] at h
          obtain ⟨rfl, rfl⟩ := h
          simp only [isCont, Bool.and_eq_true, decide_eq_true_eq] at hc
          have g1 : ¬ (b0 - 192) * 64 + (b1 - 128) < 128 := by omega
          have g2 : (b0 - 192) * 64 + (b1 - 128) < 2048 := by omega
          refine ⟨?_, by omega, by simp [utf8Enc1, g1, g2], ?_⟩
          · simp only [isSurrogate, Bool.and_eq_false_iff, decide_eq_false_iff_not]; omega
          · simp only [utf8Enc1, g1, g2, if_false, if_true, List.drop_succ_cons, List.drop_zero,
              List.cons_append, List.nil_append, List.cons.injEq, and_true]
            omega
        · rw [if_neg hc] at h; simp at h
    rw [if_neg h2] at h
    by_cases h3 : b0 < 240
    · rw [if_pos h3] at h
      cases rest with
      | nil => simp at h
      | cons b1 r1 =>
        cases r1 with
        | nil => simp at h
        | cons b2 r =>
          simp only [] at h
          split at h
          · rename_i hc
            simp only [Option.some.injEq, Prod.mk.injEq] at h
            obtain ⟨rfl, rfl⟩ := h
            simp only [isCont, isSurrogate, Bool.and_eq_true, decide_eq_true_eq, Bool.not_eq_true',
              Bool.and_eq_false_iff, decide_eq_false_iff_not] at hc
            have g1 : ¬ (b0 - 224) * 4096 + (b1 - 128) * 64 + (b2 - 128) < 128 := by omega
            have g2 : ¬ (b0 - 224) * 4096 + (b1 - 128) * 64 + (b2 - 128) < 2048 := by omega
            have g3 : (b0 - 224) * 4096 + (b1 - 128) * 64 + (b2 - 128) < 65536 := by omega
            refine ⟨?_, by omega, by simp [utf8Enc1, g1, g2, g3], ?_⟩
            · simp only [isSurrogate, Bool.and_eq_false_iff, decide_eq_false_iff_not]; omega
            · simp only [utf8Enc1, g1, g2, g3, if_false, if_true, List.drop_succ_cons, List.drop_zero,
                List.cons_append, List.nil_append, List.cons.injEq, and_true]
              omega
          · simp at h
    rw [if_neg h3] at h
    by_cases h4 : b0 < 245
    · rw [if_pos h4] at h
      cases rest with
      | nil => simp at h
      | cons b1 r1 =>
        cases r1 with
        | nil => simp at h
        | cons b2 r2 =>
          cases r2 with
          | nil => simp at h
          | cons b3 r =>
            simp only [] at h
            split at h
            · rename_i hc
              simp only [Option.some.injEq, Prod.mk.injEq] at h
              obtain ⟨rfl, rfl⟩ := h
              simp only [isCont, Bool.and_eq_true, decide_eq_true_eq] at hc
              have g1 : ¬ (b0 - 240) * 262144 + (b1 - 128) * 4096 + (b2 - 128) * 64 + (b3 - 128) < 128 := by
                omega
              have g2 : ¬ (b0 - 240) * 262144 + (b1 - 128) * 4096 + (b2 - 128) * 64 + (b3 - 128) < 2048 := by
                omega
              have g3 : ¬ (b0 - 240) * 262144 + (b1 - 128) * 4096 + (b2 - 128) * 64 + (b3 - 128) < 65536 := by
                omega
              refine ⟨?_, by omega, by simp [utf8Enc1, g1, g2, g3], ?_⟩
              · simp only [isSurrogate, Bool.and_eq_false_iff, decide_eq_false_iff_not]; omega
              · simp only [utf8Enc1, g1, g2, g3, if_false, List.drop_succ_cons, List.drop_zero,
                  List.cons_append, List.nil_append, List.cons.injEq, and_true]
                omega
            · simp at h
    · rw [if_neg h4] at h; simp at h

/-- decoding is complete: the encoding of every scalar value decodes to it -/
theorem utf8Dec1_enc1 (c : Nat) (rest : List Nat) (hc : c < 0x110000) (hs : isSurrogate c = false) :
    utf8Dec1 (utf8Enc1 c ++ rest) = some (c, (utf8Enc1 c).length) := by
  simp only [isSurrogate, Bool.and_eq_false_iff, decide_eq_false_iff_not] at hs
  unfold utf8Enc1
  by_cases h0 : c < 128
  · simp [h0, utf8Dec1]
  rw [if_neg h0]
  by_cases h1 : c < 2048
  · rw [if_pos h1]
    simp only [List.cons_append, List.nil_append, utf8Dec1, List.length_cons, List.length_nil]
    rw [if_neg (by omega), if_neg (by omega), if_pos (by omega)]
    have : isCont (128 + c % 64) = true := by simp [isCont]; omega
    rw [if_pos this]
    simp only [Option.some.injEq, Prod.mk.injEq, and_true]
    omega
  rw [if_neg h1]
  by_cases h2 : c < 65536
  · rw [if_pos h2]
    simp only [List.cons_append, List.nil_append, utf8Dec1, List.length_cons, List.length_nil]
    rw [if_neg (by omega), if_neg (by omega), if_neg (by omega), if_pos (by omega)]
    have e : (224 + c / 4096 - 224) * 4096 + (128 + c / 64 % 64 - 128) * 64 + (128 + c % 64 - 128) = c := by omega
    rw [e]
    have : (isCont (128 + c / 64 % 64) && isCont (128 + c % 64) && decide (2048 ≤ c) && !isSurrogate c) = true := by
      simp [isCont, isSurrogate]; omega
    rw [if_pos this]
  · rw [if_neg h2]
    simp only [List.cons_append, List.nil_append, utf8Dec1, List.length_cons, List.length_nil]
    rw [if_neg (by omega), if_neg (by omega), if_neg (by omega), if_neg (by omega), if_pos (by omega)]
    have e : (240 + c / 262144 - 240) * 262144 + (128 + c / 4096 % 64 - 128) * 4096 + (128 + c / 64 % 64 - 128) * 64
        + (128 + c % 64 - 128) = c := by omega
    rw [e]
    have : (isCont (128 + c / 4096 % 64) && isCont (128 + c / 64 % 64) && isCont (128 + c % 64) &&
        decide (65536 ≤ c) && decide (c ≤ 1114111)) = true := by
      simp [isCont]; omega
    rw [if_pos this]

theorem utf8Enc1_length (c : Nat) : 1 ≤ (utf8Enc1 c).length := by
  unfold utf8Enc1; repeat' split
  all_goals simp

theorem utf8DecFuel_step (fuel : Nat) (l : List Nat) (c n : Nat) (h : utf8Dec1 l = some (c, n)) :
    utf8DecFuel (fuel + 1) l = (utf8DecFuel fuel (l.drop n)).map (c :: ·) := by
  cases l with
  | nil => simp [utf8Dec1] at h
  | cons b bs => simp only [utf8DecFuel, h]

/-- bytes -> str -> bytes: whatever decodes, encodes back to the same bytes (the direction of C02) -/
theorem utf8Enc_of_decFuel (fuel : Nat) (bs cps : List Nat) (h : utf8DecFuel fuel bs = some cps) :
    utf8Enc cps = .ok bs := by
  induction fuel generalizing bs cps with
  | zero =>
    cases bs with
    | nil => simp only [utf8DecFuel, Option.some.injEq] at h; subst h; rfl
    | cons b bs => simp [utf8DecFuel] at h
  | succ fuel ih =>
    cases bs with
    | nil => simp only [utf8DecFuel, Option.some.injEq] at h; subst h; rfl
    | cons b bs =>
      cases hd : utf8Dec1 (b :: bs) with
      | none => simp [utf8DecFuel, hd] at h
      | some cn =>
        obtain ⟨c, n⟩ := cn
        rw [utf8DecFuel_step fuel _ c n hd] at h
        cases hr : utf8DecFuel fuel ((b :: bs).drop n) with
        | none => simp [hr] at h
        | some cps' =>
          simp only [hr, Option.map_some, Option.some.injEq] at h
          subst h
          obtain ⟨hs, _, _, hl⟩ := utf8Dec1_sound _ c n hd
          have := ih _ _ hr
          simp only [utf8Enc, hs, Bool.false_eq_true, if_false, this, bind, Except.bind]
          rw [← hl]

theorem utf8Enc_of_dec (bs cps : List Nat) (h : utf8Dec bs = some cps) : utf8Enc cps = .ok bs :=
  utf8Enc_of_decFuel _ bs cps h

/-- str -> bytes -> str: every encodable string decodes back to itself -/
theorem utf8DecFuel_of_enc (cps bs : List Nat) (hw : cps.all (fun c => decide (c < 0x110000)) = true)
    (h : utf8Enc cps = .ok bs) (fuel : Nat) (hf : bs.length ≤ fuel) : utf8DecFuel fuel bs = some cps := by
  induction cps generalizing bs fuel with
  | nil =>
    simp only [utf8Enc, Except.ok.injEq] at h; subst h
    cases fuel <;> rfl
  | cons c cs ih =>
    simp only [List.all_cons, Bool.and_eq_true, decide_eq_true_eq] at hw
    by_cases hs : isSurrogate c = true
    · simp [utf8Enc, hs] at h
    · have hs' : isSurrogate c = false := by simpa using hs
      cases hr : utf8Enc cs with
      | error e => simp [utf8Enc, hs', hr, bind, Except.bind] at h
      | ok r =>
        simp only [utf8Enc, hs', Bool.false_eq_true, if_false, hr, bind, Except.bind, Except.ok.injEq] at h
        subst h
        have h1 := utf8Enc1_length c
        cases fuel with
        | zero => simp only [List.length_append] at hf; omega
        | succ fuel =>
          rw [utf8DecFuel_step fuel _ c _ (utf8Dec1_enc1 c r hw.1 hs'), List.drop_left,
            ih r hw.2 hr fuel (by simp only [List.length_append] at hf; omega)]
          rfl

theorem utf8Dec_of_enc (cps bs : List Nat) (hw : cps.all (fun c => decide (c < 0x110000)) = true)
    (h : utf8Enc cps = .ok bs) : utf8Dec bs = some cps :=
  utf8DecFuel_of_enc cps bs hw h _ (Nat.le_refl _)

/-- `str.encode` succeeds exactly when there is no lone surrogate -/
theorem utf8Enc_ok_iff (cps : List Nat) :
    (∃ bs, utf8Enc cps = .ok bs) ↔ cps.all (fun c => !isSurrogate c) = true := by
  induction cps with
  | nil => simp [utf8Enc]
  | cons c cs ih =>
    simp only [List.all_cons, Bool.and_eq_true, Bool.not_eq_true', ← ih]
    by_cases hs : isSurrogate c = true
    · simp [utf8Enc, hs]
    · have hs' : isSurrogate c = false := by simpa using hs
      cases hr : utf8Enc cs <;> simp [utf8Enc, hs', hr, bind, Except.bind]

theorem utf8Enc_error (cps : List Nat) (h : cps.all (fun c => !isSurrogate c) = false) :
    utf8Enc cps = .error "UnicodeEncodeError" := by
  induction cps with
  | nil => simp at h
  | cons c cs ih =>
    by_cases hs : isSurrogate c = true
    · simp [utf8Enc, hs]
    · have hs' : isSurrogate c = false := by simpa using hs
      have : cs.all (fun c => !isSurrogate c) = false := by simpa [hs'] using h
      simp [utf8Enc, hs', ih this, bind, Except.bind]

/-! ## attributes -/

/-- proto -> IR -> proto on the STRING payload: ALL byte strings (valid UTF-8 or not) come back -/
theorem serAttrStringC_desAttrString (s : Option (List Nat)) :
    serAttrStringC (desAttrString s) = .ok (s.getD []) := by
  unfold desAttrString
  cases h : utf8Dec (s.getD []) with
  | none => rfl
  | some cps => exact utf8Enc_of_dec _ _ h

/-- a whole INT / FLOAT / STRING attribute, every field -/
theorem serAttrScalarC_desAttrScalar (a : AttrScalarP) (h : wfScalarP a.val = true) :
    serAttrScalarC (desAttrScalar a) = .ok (normAttrScalarP a) := by
  obtain ⟨name, doc, val⟩ := a
  cases val with
  | int i =>
    have hi : inInt64 (i.getD 0) = true := by
      cases i with
      | none => decide
      | some i => simpa [wfScalarP] using h
    simp [serAttrScalarC, desAttrScalar, desAttrInt, serAttrIntC, hi, normAttrScalarP, bind, Except.bind, Except.map]
  | float b =>
    have hb : b.getD 0 < 2 ^ 32 := by
      cases b with
      | none => decide
      | some b => simpa [wfScalarP] using h
    simp [serAttrScalarC, desAttrScalar, desAttrFloat, serAttrFloatC, normAttrScalarP, bind, Except.bind, Except.map,
      f64ToF32_f32ToF64 _ hb]
  | string s =>
    simp [serAttrScalarC, desAttrScalar, serAttrStringC_desAttrString, normAttrScalarP, bind, Except.bind, Except.map]

/-- the unchecked model of `Model/Serde.lean` on the rendering of the same attribute (`r_attr`) -/
theorem toAttrP_roundtrip (scopes : Scopes) (a : AttrScalarP) :
    (desAttr scopes a.toAttrP >>= serAttr scopes none) = .ok a.toAttrP := by
  obtain ⟨name, doc, val⟩ := a
  cases val <;> simp [AttrScalarP.toAttrP, desAttr, serAttr, bind, Except.bind]

end IrVerif.Serde

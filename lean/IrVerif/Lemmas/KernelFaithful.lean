/-
Kernel: the mutation phase of a call never meets a failing check once the call's validation has
passed (`late` — the ghost counter of checks that fail after the first write — does not move).  This is
what makes `C06_atomic` a theorem about the model rather than a definition: `guardOp` reports a raise
whenever `late` moved, with the partially written world.
-/
import IrVerif.Lemmas.KernelOps
import IrVerif.Lemmas.KernelSeq
namespace IrVerif.Kernel

/-! ### primitives: a passing check means the effect branch -/

@[simp] theorem late_setNamePlain (w : World) (v : Nat) (s : Option String) : (setNamePlain w v s).late = w.late := by
  have h1 : (noteOwner (w.setVal v { w.val v with name := s }) v s).late = w.late := by simp
  unfold setNamePlain; simp only []; split
  · exact h1
  · exact h1

theorem setInput_late (w : World) (n i : Nat) (nv : Option Nat) (h : i < (w.node n).inputs.length) :
    (setInput w n i nv).late = w.late := by
  unfold setInput
  simp only [h, if_true]
  cases (w.node n).inputs.getD i none <;> cases nv <;> simp

theorem setInput_len (w : World) (n i : Nat) (nv : Option Nat) (m : Nat) :
    ((setInput w n i nv).node m).inputs.length = (w.node m).inputs.length := by
  rw [setInput_inputs]; split
  · subst_vars; simp
  · rfl

theorem attachOutput_late (w : World) (n v : Nat)
    (h : (w.val v).producer = none ∧ (w.val v).isIn = false ∧ (w.val v).isInit = false) :
    (attachOutput w n v).late = w.late := by
  unfold attachOutput; simp [h]

theorem ioInsert_late (w : World) (g : Nat) (k : IOKind) (pos v : Nat) (h : checkIO w g k v = true) :
    (ioInsert w g k pos v).late = w.late := by
  unfold ioInsert setIO; simp [h]

theorem unsetIO_late (w : World) (g : Nat) (k : IOKind) (v : Nat) : (unsetIO w g k v).late = w.late := by
  unfold unsetIO; simp only []; split <;> simp

theorem ioRemoveAt_late (w : World) (g : Nat) (k : IOKind) (pos : Nat) (h : pos < (ioList k (w.gr g)).length) :
    (ioRemoveAt w g k pos).late = w.late := by
  unfold ioRemoveAt
  rw [List.getElem?_eq_getElem h]
  simp [unsetIO_late]

theorem unsetInit_late (w : World) (v : Nat) : (unsetInit w v).late = w.late := rfl

theorem initDel_late (w : World) (g : Nat) (key : String) (h : (lookupInit (w.gr g).inits key).isSome) :
    (initDel w g key).late = w.late := by
  unfold initDel
  cases hl : lookupInit (w.gr g).inits key with
  | none => simp [hl] at h
  | some old => simp [unsetInit_late]

theorem initPut_late (w : World) (g : Nat) (key : String) (v : Nat) (h : initOK w g key v = true) :
    (initPut w g key v).late = w.late := by
  unfold initPut
  simp only [h, if_true]
  have h1 : (if falsy (w.val v).name = true then setNamePlain w v (some key) else w).late = w.late := by
    split <;> simp
  split <;> simp [unsetInit_late, h1]

theorem nodeLink_late (w : World) (g : Nat) (a : Option Nat) (n : Nat) (h : nodeAddable w g n = true) :
    (nodeLink w g a n).late = w.late := by
  unfold nodeLink; simp [h]

theorem nodeUnlink_late (w : World) (g n : Nat) (h : (w.node n).graph = some g) :
    (nodeUnlink w g n).late = w.late := by
  unfold nodeUnlink; simp [h]

theorem registerNode_late (w : World) (g n : Nat) : (registerNode w g n).late = w.late := by
  unfold registerNode; split <;> simp

theorem registerValue_late (w : World) (g v : Nat)
    (h : (w.val v).name = none → (w.val v).isInit = false ∧ constLocked w v = false) :
    (registerValue w g v).late = w.late := by
  unfold registerValue
  split
  · simp
  · rename_i hn
    obtain ⟨h1, h2⟩ := h hn
    simp [h1, h2]


/-! ### the shape lemma -/

theorem guardOp_late (bad : Bool) (kind : String) (w w' : World) (h : bad = false → w'.late = w.late) :
    (guardOp bad kind w w').1.late = w.late := by
  unfold guardOp
  cases bad with
  | true => rfl
  | false => simp [h rfl]

theorem guardOp_atomic (bad : Bool) (kind : String) (w w' : World) (k : String)
    (h : bad = false → w'.late = w.late) (hr : (guardOp bad kind w w').2 = .raised k) :
    (guardOp bad kind w w').1 = w := by
  unfold guardOp at hr ⊢
  cases bad with
  | true => rfl
  | false => simp [h rfl] at hr

theorem iter_late {f : World → World} (P : World → Prop) (hP : ∀ a, P a → P (f a) ∧ (f a).late = a.late) :
    ∀ (c : Nat) (w : World), P w → (iter f c w).late = w.late ∧ P (iter f c w)
  | 0, w, h => ⟨rfl, h⟩
  | c + 1, w, h => by
    obtain ⟨h1, h2⟩ := hP w h
    obtain ⟨h3, h4⟩ := iter_late P hP c (f w) h1
    exact ⟨h3.trans h2, h4⟩

theorem foldl_late {β : Type} {f : World → β → World} (P : World → Prop) :
    ∀ (l : List β) (w : World), P w → (∀ a b, b ∈ l → P a → P (f a b) ∧ (f a b).late = a.late) →
      (l.foldl f w).late = w.late ∧ P (l.foldl f w)
  | [], w, h, _ => ⟨rfl, h⟩
  | b :: l, w, h, hf => by
    obtain ⟨h1, h2⟩ := hf w b List.mem_cons_self h
    obtain ⟨h3, h4⟩ := foldl_late P l (f w b) h1 (fun a b' hb ha => hf a b' (List.mem_cons_of_mem _ hb) ha)
    exact ⟨h3.trans h2, h4⟩

/-! ### node inputs / outputs -/

theorem replaceInput_late (w : World) (n : Nat) (idx : Int) (nv : Option Nat) :
    (replaceInput w n idx nv).1.late = w.late := by
  apply guardOp_late
  intro hb
  apply setInput_late
  simp at hb; omega

theorem popInput_late (w : World) (n : Nat) (h : 0 < (w.node n).inputs.length) :
    (popInput w n).late = w.late ∧ ((popInput w n).node n).inputs.length = (w.node n).inputs.length - 1 := by
  unfold popInput
  have hne : ¬ (w.node n).inputs.length = 0 := by omega
  simp only [hne, if_false]
  constructor
  · simp; exact setInput_late _ _ _ _ (by omega)
  · simp [setInput_len]

theorem iter_popInput_late (n : Nat) : ∀ (c : Nat) (w : World), c ≤ (w.node n).inputs.length →
    (iter (fun w => popInput w n) c w).late = w.late
  | 0, _, _ => rfl
  | c + 1, w, h => by
    obtain ⟨h1, h2⟩ := popInput_late w n (by omega)
    simp only [iter]
    rw [iter_popInput_late n c _ (by omega), h1]

theorem resizeInputs_late (w : World) (n : Nat) (k : Int) : (resizeInputs w n k).1.late = w.late := by
  apply guardOp_late
  intro _
  split
  · exact iter_popInput_late n _ w (by omega)
  · simp

/-! outputs -/

theorem detachLast_uses (w : World) (n u : Nat) : ((detachLast w n).val u).uses = (w.val u).uses := by
  unfold detachLast; split
  · rfl
  · split
    · simp; split <;> simp_all
    · rfl

theorem detachLast_step (w : World) (n : Nat) (h : (w.node n).outputs ≠ [])
    (hu : ∀ v, (w.node n).outputs.getLast? = some v → (w.val v).uses = []) :
    (detachLast w n).late = w.late ∧ ((detachLast w n).node n).outputs = (w.node n).outputs.dropLast := by
  unfold detachLast
  cases hl : (w.node n).outputs.getLast? with
  | none => simp [List.getLast?_eq_none_iff] at hl; exact absurd hl h
  | some v => simp [hu v hl]

theorem mem_drop_dropLast (l : List Nat) (j v : Nat) (h : v ∈ l.dropLast.drop j) : v ∈ l.drop j := by
  obtain ⟨t, ht⟩ := List.dropLast_prefix l
  have : l.drop j = l.dropLast.drop j ++ t.drop (j - l.dropLast.length) := by
    conv => lhs; rw [← ht]
    exact List.drop_append
  rw [this]; exact List.mem_append_left _ h

theorem iter_detachLast_late (n : Nat) : ∀ (c : Nat) (w : World), c ≤ (w.node n).outputs.length →
    (∀ v ∈ (w.node n).outputs.drop ((w.node n).outputs.length - c), (w.val v).uses = []) →
    (iter (fun w => detachLast w n) c w).late = w.late
  | 0, _, _, _ => rfl
  | c + 1, w, h, hu => by
    have hne : (w.node n).outputs ≠ [] := by intro e; simp [e] at h
    have hlast : ∀ v, (w.node n).outputs.getLast? = some v → (w.val v).uses = [] := by
      intro v hv
      apply hu v
      rw [List.getLast?_eq_getElem?] at hv
      have := List.getElem?_eq_some_iff.1 hv
      obtain ⟨hlt, he⟩ := this
      rw [List.mem_drop_iff_getElem]
      exact ⟨c, by omega, by rw [← he]; congr 1; omega⟩
    obtain ⟨h1, h2⟩ := detachLast_step w n hne hlast
    simp only [iter]
    rw [iter_detachLast_late n c _ (by rw [h2]; simp; omega) ?_, h1]
    intro v hv
    rw [detachLast_uses]
    apply hu v
    rw [h2] at hv
    simp only [List.length_dropLast] at hv
    have := mem_drop_dropLast _ _ _ hv
    have e : (w.node n).outputs.length - 1 - c = (w.node n).outputs.length - (c + 1) := by omega
    rw [e] at this; exact this

theorem addOutput_late (w : World) (n : Nat) : (addOutput w n).late = w.late := by
  unfold addOutput
  rw [attachOutput_late]
  · rfl
  · simp [allocVal]

theorem iter_addOutput_late (n : Nat) : ∀ (c : Nat) (w : World), (iter (fun w => addOutput w n) c w).late = w.late
  | 0, _ => rfl
  | c + 1, w => by simp only [iter]; rw [iter_addOutput_late n c, addOutput_late]

theorem resizeOutputs_core (w : World) (n newSize : Nat)
    (hb : ((w.node n).outputs.drop newSize).any (fun v => decide ((w.val v).uses ≠ [])) = false) :
    (if newSize ≤ (w.node n).outputs.length then
        iter (fun w => detachLast w n) ((w.node n).outputs.length - newSize) w
      else iter (fun w => addOutput w n) (newSize - (w.node n).outputs.length) w).late = w.late := by
  split
  · rename_i hle
    apply iter_detachLast_late n _ w (by omega)
    intro v hv
    rw [Nat.sub_sub_self hle] at hv
    simp only [List.any_eq_false] at hb
    simpa using hb v hv
  · exact iter_addOutput_late n _ w

theorem resizeOutputs_late (w : World) (n : Nat) (k : Int) : (resizeOutputs w n k).1.late = w.late := by
  apply guardOp_late
  intro hb
  exact resizeOutputs_core w n _ hb


/-! ### tracked input / output lists -/

theorem mem_dedup (l : List Nat) (a : Nat) : a ∈ dedup l ↔ a ∈ l := by
  induction l with
  | nil => simp [dedup]
  | cons x xs ih =>
    simp only [dedup, List.mem_cons, List.mem_filter, ih]
    by_cases h : a = x <;> simp [h]

theorem nodup_dedup (l : List Nat) : (dedup l).Nodup := by
  induction l with
  | nil => simp [dedup]
  | cons x xs ih =>
    simp only [dedup, List.nodup_cons, List.mem_filter]
    exact ⟨by simp, ih.filter _⟩

theorem checkIO_eq (w : World) (g : Nat) (k : IOKind) (v : Nat) :
    checkIO w g k v = true ↔ (((w.val v).graph = none ∨ (w.val v).graph = some g) ∧
      (k = .out ∨ (w.val v).producer = none)) := by
  simp [checkIO]

theorem checkIO_ioInsert (w : World) (g : Nat) (k : IOKind) (pos v u : Nat) (h : checkIO w g k u = true) :
    checkIO (ioInsert w g k pos v) g k u = true := by
  by_cases hc : checkIO w g k v = true
  · rw [checkIO_eq] at h ⊢
    rw [ioInsert_val _ _ _ _ _ hc]
    split
    · subst_vars; simp; exact h.2
    · exact h
  · simp [ioInsert, hc]; rw [checkIO_eq] at h ⊢; exact h

theorem checkIO_ioRemoveAt (w : World) (g : Nat) (k : IOKind) (pos u : Nat) (h : checkIO w g k u = true) :
    checkIO (ioRemoveAt w g k pos) g k u = true := by
  rw [checkIO_eq] at h ⊢
  cases hv : (ioList k (w.gr g))[pos]? with
  | none => simp [ioRemoveAt, hv]; exact h
  | some v =>
    rw [ioRemoveAt_val _ _ _ _ _ hv]
    split
    · rename_i hc; obtain ⟨hu, -⟩ := hc; subst hu
      refine ⟨?_, by cases k <;> simp_all [released, setIoFlag]⟩
      rw [released_graph]; split
      · exact h.1
      · exact Or.inl rfl
    · exact h

theorem ioInsert_len (w : World) (g : Nat) (k : IOKind) (pos v : Nat) (hc : checkIO w g k v = true) :
    (ioList k ((ioInsert w g k pos v).gr g)).length = (ioList k (w.gr g)).length + 1 := by
  rw [ioInsert_gr _ _ _ _ _ hc]; simp [insertAt]; omega

theorem ioRemoveAt_len (w : World) (g : Nat) (k : IOKind) (pos : Nat) (h : pos < (ioList k (w.gr g)).length) :
    (ioList k ((ioRemoveAt w g k pos).gr g)).length = (ioList k (w.gr g)).length - 1 := by
  have hv : (ioList k (w.gr g))[pos]? = some (ioList k (w.gr g))[pos] := List.getElem?_eq_getElem h
  rw [ioRemoveAt_gr _ _ _ _ _ hv]; simp [List.length_eraseIdx, h]

theorem ioInsertMany_late (g : Nat) (k : IOKind) : ∀ (vs : List Nat) (pos : Nat) (w : World),
    (∀ u ∈ vs, checkIO w g k u = true) → (ioInsertMany w g k pos vs).late = w.late
  | [], _, _, _ => rfl
  | v :: vs, pos, w, h => by
    simp only [ioInsertMany, enumFrom, List.foldl_cons]
    have := ioInsertMany_late g k vs (pos + 1) (ioInsert w g k pos v)
      (fun u hu => checkIO_ioInsert _ _ _ _ _ _ (h u (List.mem_cons_of_mem _ hu)))
    simp only [ioInsertMany] at this
    rw [this, ioInsert_late _ _ _ _ _ (h v List.mem_cons_self)]

theorem iter_removeAt_late (g : Nat) (k : IOKind) (p : Nat) : ∀ (c : Nat) (w : World),
    p + c ≤ (ioList k (w.gr g)).length →
    (iter (fun w => ioRemoveAt w g k p) c w).late = w.late ∧
    (∀ u, checkIO w g k u = true → checkIO (iter (fun w => ioRemoveAt w g k p) c w) g k u = true)
  | 0, _, _ => ⟨rfl, fun _ h => h⟩
  | c + 1, w, h => by
    have hp : p < (ioList k (w.gr g)).length := by omega
    obtain ⟨h1, h2⟩ := iter_removeAt_late g k p c (ioRemoveAt w g k p) (by rw [ioRemoveAt_len _ _ _ _ hp]; omega)
    simp only [iter]
    exact ⟨by rw [h1, ioRemoveAt_late _ _ _ _ hp], fun u hu => h2 u (checkIO_ioRemoveAt _ _ _ _ _ hu)⟩

theorem normIndex_lt (len : Nat) (i : Int) (p : Nat) (h : normIndex len i = some p) : p < len := by
  unfold normIndex at h
  simp only [] at h
  by_cases hi : i < 0 <;> simp [hi] at h <;> omega

theorem idxOf?_lt (l : List Nat) (v p : Nat) (h : l.idxOf? v = some p) : p < l.length := by
  rw [idxOf?_eq_idxOf] at h
  split at h
  · rename_i hm; simp at h; subst h; exact List.idxOf_lt_length_of_mem hm
  · simp at h

theorem atPos_late (o : Option Nat) (f : Nat → World) (w : World) (ho : o.isSome)
    (hf : ∀ p, o = some p → (f p).late = w.late) : (atPos o f w).late = w.late := by
  unfold atPos
  cases o with
  | none => simp at ho
  | some p => exact hf p rfl

theorem ioReplaceMany_late (g : Nat) (k : IOKind) : ∀ (pv : List (Nat × Nat)) (w : World),
    (∀ p ∈ pv, p.1 < (ioList k (w.gr g)).length ∧ checkIO w g k p.2 = true) →
    (pv.foldl (fun w p => ioInsert (ioRemoveAt w g k p.1) g k p.1 p.2) w).late = w.late
  | [], _, _ => rfl
  | p :: pv, w, h => by
    obtain ⟨hp, hc⟩ := h p List.mem_cons_self
    have hc' := checkIO_ioRemoveAt w g k p.1 p.2 hc
    simp only [List.foldl_cons]
    rw [ioReplaceMany_late g k pv]
    · rw [ioInsert_late _ _ _ _ _ hc', ioRemoveAt_late _ _ _ _ hp]
    · intro q hq
      obtain ⟨hq1, hq2⟩ := h q (List.mem_cons_of_mem _ hq)
      refine ⟨?_, checkIO_ioInsert _ _ _ _ _ _ (checkIO_ioRemoveAt _ _ _ _ _ hq2)⟩
      rw [ioInsert_len _ _ _ _ _ hc', ioRemoveAt_len _ _ _ _ hp]; omega

/-- positions removed largest first stay valid -/
theorem removeDesc_late (g : Nat) (k : IOKind) : ∀ (ps : List Nat) (w : World),
    ps.Pairwise (fun a b => b < a) → (∀ p ∈ ps, p < (ioList k (w.gr g)).length) →
    (ps.foldl (fun w p => ioRemoveAt w g k p) w).late = w.late
  | [], _, _, _ => rfl
  | p :: ps, w, hs, h => by
    have hp := h p List.mem_cons_self
    rw [List.pairwise_cons] at hs
    simp only [List.foldl_cons]
    rw [removeDesc_late g k ps _ hs.2, ioRemoveAt_late _ _ _ _ hp]
    intro q hq
    rw [ioRemoveAt_len _ _ _ _ hp]
    have := hs.1 q hq
    omega

theorem ioRemoveMany_late (w : World) (g : Nat) (k : IOKind) (ps : List Nat) (hn : ps.Nodup)
    (h : ∀ p ∈ ps, p < (ioList k (w.gr g)).length) : (ioRemoveMany w g k ps).late = w.late := by
  unfold ioRemoveMany
  apply removeDesc_late
  · have hp := List.pairwise_mergeSort (le := fun a b => decide (b ≤ a))
      (fun a b c h1 h2 => by simp at *; omega) (fun a b => by simp; omega) ps
    have hnd : (ps.mergeSort (fun a b => decide (b ≤ a))).Nodup := (List.mergeSort_perm ps _).nodup_iff.2 hn
    have hboth := hp.and hnd
    exact hboth.imp (fun {a b} hab => by simp at hab; omega)
  · intro p hp; exact h p (List.mem_mergeSort.1 hp)

theorem sliceIndices_pos (len : Nat) (start stop step : Option Int) (ix : SliceIx)
    (h : sliceIndices len start stop step = some ix) :
    ix.pos.Nodup ∧ (∀ p ∈ ix.pos, p < len) ∧ ix.start ≤ len ∧ ix.stop ≤ len := by
  unfold sliceIndices at h
  simp only [] at h
  split at h
  · simp at h
  · simp only [Option.some.injEq] at h
    subst h
    refine ⟨nodup_dedup _, ?_, Nat.min_le_right _ _, Nat.min_le_right _ _⟩
    intro p hp
    rw [mem_dedup, List.mem_filter] at hp
    simpa using hp.2

theorem ioMut_late (w : World) (g : Nat) (k : IOKind) (m : IOMut) : (ioMut w g k m).1.late = w.late := by
  cases m <;> simp only [ioMut]
  case append v =>
    apply guardOp_late; intro hb; exact ioInsert_late _ _ _ _ _ (by simpa using hb)
  case extend vs =>
    apply guardOp_late; intro hb
    exact ioInsertMany_late g k vs _ w (by simpa using hb)
  case insert i v =>
    apply guardOp_late; intro hb; exact ioInsert_late _ _ _ _ _ (by simpa using hb)
  case pop i =>
    apply guardOp_late; intro hb
    exact atPos_late _ _ _ (by simpa using hb) (fun p hp => ioRemoveAt_late _ _ _ _ (normIndex_lt _ _ _ hp))
  case remove v =>
    apply guardOp_late; intro hb
    exact atPos_late _ _ _ (by simpa using hb) (fun p hp => ioRemoveAt_late _ _ _ _ (idxOf?_lt _ _ _ hp))
  case clear =>
    apply guardOp_late; intro _
    exact (iter_removeAt_late g k 0 _ w (by omega)).1
  case setItem i v =>
    apply guardOp_late; intro hb
    simp at hb
    refine atPos_late _ _ _ (by simpa using hb.1) (fun p hp => ?_)
    have hlt := normIndex_lt _ _ _ hp
    rw [ioInsert_late _ _ _ _ _ (checkIO_ioRemoveAt _ _ _ _ _ hb.2), ioRemoveAt_late _ _ _ _ hlt]
  case setSlice start stop step vs =>
    split
    · rfl
    · rename_i ix hix
      obtain ⟨hnd, hlt, hs1, hs2⟩ := sliceIndices_pos _ _ _ _ _ hix
      apply guardOp_late; intro hb
      simp at hb
      split
      · obtain ⟨h1, h2⟩ := iter_removeAt_late g k ix.start (ix.stop - ix.start) w (by omega)
        rw [ioInsertMany_late g k vs _ _ (fun u hu => h2 u (hb.1 u hu)), h1]
      · rename_i hst
        unfold ioReplaceMany
        apply ioReplaceMany_late
        intro p hp
        have := List.of_mem_zip hp
        exact ⟨hlt _ this.1, hb.1 _ this.2⟩
  case delItem i =>
    apply guardOp_late; intro hb
    exact atPos_late _ _ _ (by simpa using hb) (fun p hp => ioRemoveAt_late _ _ _ _ (normIndex_lt _ _ _ hp))
  case delSlice start stop step =>
    split
    · rfl
    · rename_i ix hix
      obtain ⟨hnd, hlt, -, -⟩ := sliceIndices_pos _ _ _ _ _ hix
      apply guardOp_late; intro _
      exact ioRemoveMany_late _ _ _ _ hnd hlt
  case reverse => apply guardOp_late; intro _; rfl
  case sort keys rev => apply guardOp_late; intro _; rfl


/-! ### initializer mapping -/

theorem withName_late (o : Option String) (f : String → World) (w : World) (ho : o.isSome)
    (hf : ∀ p, o = some p → (f p).late = w.late) : (withName o f w).late = w.late := by
  unfold withName
  cases o with
  | none => simp at ho
  | some p => exact hf p rfl

theorem lookupInit_head (k : String) (v : Nat) (t : List (String × Nat)) : lookupInit ((k, v) :: t) k = some v := by
  simp [lookupInit]

theorem dictDel_head_len (k : String) (v : Nat) (t : List (String × Nat))
    (hn : (((k, v) :: t).map Prod.fst).Nodup) : (dictDel ((k, v) :: t) k).length = t.length := by
  simp only [List.map_cons, List.nodup_cons, List.mem_map, not_exists, not_and] at hn
  have : dictDel ((k, v) :: t) k = t := by
    simp only [dictDel, List.filter_cons, ne_eq, not_true_eq_false, decide_false]
    simp only [Bool.false_eq_true, if_false]
    rw [List.filter_eq_self]
    intro p hp
    simp
    intro e
    exact hn.1 p hp e
  rw [this]

theorem initClear_late (g : Nat) : ∀ (c : Nat) (w : World), WF w → c ≤ (w.gr g).inits.length →
    (iter (fun w => withName ((w.gr g).inits.head?.map (·.1)) (fun k => initDel w g k) w) c w).late = w.late
  | 0, _, _, _ => rfl
  | c + 1, w, hw, h => by
    simp only [iter]
    have hne : (w.gr g).inits ≠ [] := by intro e; simp [e] at h
    obtain ⟨⟨k, v⟩, t, hl⟩ := List.exists_cons_of_ne_nil hne
    have hlook : lookupInit (w.gr g).inits k = some v := by rw [hl]; exact lookupInit_head k v t
    have hstep : withName ((w.gr g).inits.head?.map (·.1)) (fun k => initDel w g k) w = initDel w g k := by
      simp [withName, hl]
    rw [hstep]
    have hlate := initDel_late w g k (by simp [hlook])
    have hlen : ((initDel w g k).gr g).inits.length = t.length := by
      rw [initDel_gr _ _ _ _ hlook]; simp
      have := hw.key.keys g
      rw [hl] at this ⊢
      exact dictDel_head_len k v t this
    rw [initClear_late g c _ (initDel_WF _ _ _ hw) (by rw [hlen]; rw [hl] at h; simp at h; omega), hlate]

theorem initSetItem_late (w : World) (g : Nat) (key : String) (v : Nat) : (initSetItem w g key v).1.late = w.late := by
  apply guardOp_late; intro hb; exact initPut_late _ _ _ _ (by simpa using hb)

theorem initSetItem_ok_of (w : World) (g : Nat) (key : String) (v : Nat) : (initSetItem w g key v).1.late = w.late :=
  initSetItem_late w g key v

theorem initUpdateSeq_late (g : Nat) : ∀ (kvs : List (String × Nat)) (w : World),
    (initUpdateSeq w g kvs).1.late = w.late
  | [], _ => rfl
  | (k, v) :: rest, w => by
    unfold initUpdateSeq
    have h1 := initSetItem_late w g k v
    split
    · rename_i w1 heq
      rw [heq] at h1
      rw [initUpdateSeq_late g rest w1]; exact h1
    · exact h1

theorem initMut_late (w : World) (hw : WF w) (g : Nat) (m : InitMut) : (initMut w g m).1.late = w.late := by
  cases m <;> simp only [initMut]
  case setItem key v => exact initSetItem_late _ _ _ _
  case delItem key => apply guardOp_late; intro hb; exact initDel_late _ _ _ (by simpa using hb)
  case add v =>
    apply guardOp_late; intro hb
    simp at hb
    refine withName_late _ _ _ (by simpa using hb.1) (fun p hp => initPut_late _ _ _ _ ?_)
    have := hb.2; rw [hp] at this; simpa using this
  case pop key => apply guardOp_late; intro hb; exact initDel_late _ _ _ (by simpa using hb)
  case popitem =>
    apply guardOp_late; intro hb
    have hne : (w.gr g).inits ≠ [] := by intro e; simp [e] at hb
    obtain ⟨⟨k, v⟩, t, hl⟩ := List.exists_cons_of_ne_nil hne
    have hlook : lookupInit (w.gr g).inits k = some v := by rw [hl]; exact lookupInit_head k v t
    have : withName ((w.gr g).inits.head?.map (·.1)) (fun k => initDel w g k) w = initDel w g k := by
      simp [withName, hl]
    rw [this]
    exact initDel_late _ _ _ (by simp [hlook])
  case clear => apply guardOp_late; intro _; exact initClear_late g _ w hw (Nat.le_refl _)
  case update kvs => apply guardOp_late; intro _; exact initUpdateSeq_late g kvs w
  case setdefault key v =>
    apply guardOp_late; intro hb
    split
    · rfl
    · rename_i hp; simp [hp] at hb; exact initPut_late _ _ _ _ hb
  case register v =>
    apply guardOp_late; intro hb
    simp at hb
    exact initPut_late _ _ _ _ hb.2


/-! ### `Value.name = …` -/

theorem init_lookup (w : World) (hw : WF w) (v g : Nat) (old : String) (hi : (w.val v).isInit = true)
    (hg : (w.val v).graph = some g) (hn : (w.val v).name = some old) :
    lookupInit (w.gr g).inits old = some v := by
  obtain ⟨g', key', hg', hm⟩ := hw.own.init_flag v hi
  rw [hg] at hg'; cases hg'
  have := (hw.key.name g key' v hm).1
  rw [hn] at this; cases this
  exact lookupInit_of_mem _ _ _ (hw.key.keys g) hm

theorem setName_late (w : World) (hw : WF w) (v : Nat) (s : Option String) : (setName w v s).1.late = w.late := by
  unfold setName
  simp only []
  apply guardOp_late
  intro hb
  split
  · rfl
  · rename_i hne
    split
    · rename_i hi
      simp [hne, hi] at hb
      obtain ⟨hlk, hb⟩ := hb
      split
      · rename_i new g old heq
        have hq : s = some new ∧ (w.val v).graph = some g ∧ (w.val v).name = some old := by
          revert heq; split <;> simp_all
        rw [heq] at hb
        simp at hb
        obtain ⟨hnew, hfree⟩ := hb
        have hlook := init_lookup w hw v g old hi hq.2.1 hq.2.2
        have hprod : (w.val v).producer = none := hw.root v (Or.inr hi)
        rw [initPut_late, late_setNamePlain, initDel_late _ _ _ (by simp [hlook])]
        rw [initOK_iff]
        have hval : ((setNamePlain (initDel w g old) v (some new)).val v) =
            { clearedInit (w.val v) with name := some new } := by
          rw [setNamePlain_val]; simp [initDel_val _ _ _ _ hlook]
        rw [hval]
        refine ⟨hnew, Or.inr rfl, by simpa using hprod, ?_, ?_⟩
        · simp only [clearedInit_graph]
          split
          · exact Or.inr hq.2.1
          · exact Or.inl rfl
        · intro hf; simp [falsy, hnew] at hf
      · rename_i hnone
        rw [hnone] at hb
    · simp


/-! ### `replace_all_uses_with` -/

theorem setInputs_late : ∀ (us : List (Nat × Nat)) (f : Nat × Nat → Option Nat) (w : World),
    (∀ u ∈ us, u.2 < (w.node u.1).inputs.length) →
    (us.foldl (fun w u => setInput w u.1 u.2 (f u)) w).late = w.late
  | [], _, _, _ => rfl
  | u :: us, f, w, h => by
    simp only [List.foldl_cons]
    rw [setInputs_late us f _ (fun u' hu' => by rw [setInput_len]; exact h u' (List.mem_cons_of_mem _ hu')),
      setInput_late _ _ _ _ (h u List.mem_cons_self)]

theorem rauwUses_late (w : World) (hw : I_use w) (v r : Nat) : (rauwUses w v r).late = w.late := by
  unfold rauwUses
  apply setInputs_late _ (fun _ => some r)
  intro u hu
  have := (hw.1 v u.1 u.2).1 hu
  exact (List.getElem?_eq_some_iff.1 this).1

theorem enumFrom_mem {α : Type} : ∀ (l : List α) (s i : Nat) (a : α), (i, a) ∈ enumFrom s l → s ≤ i ∧ i < s + l.length
  | [], _, _, _, h => by simp [enumFrom] at h
  | x :: xs, s, i, a, h => by
    simp only [enumFrom, List.mem_cons, Prod.mk.injEq] at h
    rcases h with ⟨rfl, _⟩ | h
    · simp
    · have := enumFrom_mem xs (s + 1) i a h
      simp; omega

theorem rauw_late (w : World) (hw : WF w) (v r : Nat) (rgo : Bool) : (rauw w v r rgo).1.late = w.late := by
  unfold rauw
  simp only []
  apply guardOp_late
  intro hb
  by_cases hout : (w.val v).isOut = true
  · simp only [hout, if_true]
    cases hg : (w.val v).graph with
    | none => simp [hout, hg] at hb
    | some g =>
      simp [hout, hg] at hb
      have hrep : (ioReplaceMany w g .out
          (((enumFrom 0 (w.gr g).outputs).filter (fun p => p.2 = v)).map (·.1))
          (List.replicate (w.gr g).outputs.length r)).late = w.late := by
        unfold ioReplaceMany
        apply ioReplaceMany_late
        intro p hp
        have hz := List.of_mem_zip hp
        refine ⟨?_, ?_⟩
        · obtain ⟨q, hq, hqe⟩ := List.mem_map.1 hz.1
          have hq' := (List.mem_filter.1 hq).1
          have := enumFrom_mem (w.gr g).outputs 0 q.1 q.2 hq'
          rw [← hqe]; simp [ioList]; omega
        · have := List.eq_of_mem_replicate hz.2
          rw [this]; exact hb.2
      rw [rauwUses_late _ (ioReplaceMany_WF _ _ _ _ _ hw).use, hrep]
  · simp only [hout]
    exact rauwUses_late _ hw.use _ _


/-! ### node membership -/

theorem init_named (w : World) (hw : WF w) (v : Nat) (hi : (w.val v).isInit = true) : (w.val v).name ≠ none := by
  obtain ⟨g, key, _, hm⟩ := hw.own.init_flag v hi
  rw [(hw.key.name g key v hm).1]; simp

/-- what naming steps keep: outputs of every node, const / locked data, and names only get set -/
structure NameStep (w w' : World) : Prop where
  outs : ∀ n, (w'.node n).outputs = (w.node n).outputs
  graph : ∀ n, (w'.node n).graph = (w.node n).graph
  locked : ∀ v, constLocked w' v = constLocked w v
  named : ∀ v, (w.val v).name ≠ none → (w'.val v).name ≠ none

theorem NameStep.refl (w : World) : NameStep w w := ⟨fun _ => rfl, fun _ => rfl, fun _ => rfl, fun _ h => h⟩
theorem NameStep.trans {a b c : World} (h1 : NameStep a b) (h2 : NameStep b c) : NameStep a c :=
  ⟨fun n => (h2.outs n).trans (h1.outs n), fun n => (h2.graph n).trans (h1.graph n),
   fun v => (h2.locked v).trans (h1.locked v), fun v h => h2.named v (h1.named v h)⟩

theorem NameStep.namable {w w' : World} (h : NameStep w w') (v : Nat) (hv : valNamable w v = true) :
    valNamable w' v = true := by
  simp only [valNamable, Bool.not_eq_true', Bool.and_eq_false_iff, decide_eq_false_iff_not] at hv ⊢
  rcases hv with hv | hv
  · exact Or.inl (h.named v hv)
  · exact Or.inr (by rw [h.locked]; exact hv)

theorem NameStep.acceptable {w w' : World} (h : NameStep w w') (g n : Nat) (hn : nodeAcceptable w g n = true) :
    nodeAcceptable w' g n = true := by
  simp only [nodeAcceptable, nodeAddable, Bool.and_eq_true, List.all_eq_true] at hn ⊢
  rw [h.graph, h.outs]
  exact ⟨hn.1, fun o ho => h.namable o (hn.2 o ho)⟩

theorem constLocked_congr {w w' : World} (hc : ∀ v, (w'.val v).const = (w.val v).const) (hl : w'.locked = w.locked)
    (v : Nat) : constLocked w' v = constLocked w v := by
  simp [constLocked, hc, hl]

theorem locked_setNamePlain (w : World) (v : Nat) (s : Option String) : (setNamePlain w v s).locked = w.locked := by
  have h1 : (noteOwner (w.setVal v { w.val v with name := s }) v s).locked = w.locked := by simp
  unfold setNamePlain; simp only []; split
  · exact h1
  · exact h1

theorem registerValue_nameStep (w : World) (g v : Nat) : NameStep w (registerValue w g v) := by
  unfold registerValue
  split
  · exact ⟨fun _ => rfl, fun _ => rfl, fun _ => rfl, fun _ h => h⟩
  · simp only []
    split
    · exact ⟨fun _ => rfl, fun _ => rfl, fun _ => rfl, fun _ h => h⟩
    · refine ⟨fun n => by rw [setNamePlain_node]; rfl, fun n => by rw [setNamePlain_node]; rfl, ?_, ?_⟩
      · intro u
        apply constLocked_congr
        · intro x; rw [setNamePlain_val]; split
          · subst_vars; rfl
          · rfl
        · rw [locked_setNamePlain]; rfl
      · intro u hu; rw [setNamePlain_val]; split
        · simp
        · exact hu

theorem registerNode_nameStep (w : World) (g n : Nat) : NameStep w (registerNode w g n) := by
  unfold registerNode
  split
  · exact ⟨fun _ => rfl, fun _ => rfl, fun _ => rfl, fun _ h => h⟩
  · simp only []
    refine ⟨fun m => ?_, fun m => ?_, fun _ => rfl, fun _ h => h⟩
    · simp; split <;> simp_all
    · simp; split <;> simp_all

theorem nodeLink_nameStep_other (w : World) (g : Nat) (a : Option Nat) (n : Nat) :
    (∀ m, ((nodeLink w g a n).node m).outputs = (w.node m).outputs) ∧
    (∀ v, constLocked (nodeLink w g a n) v = constLocked w v) ∧
    (∀ v, ((nodeLink w g a n).val v).name = (w.val v).name) := by
  unfold nodeLink
  split
  · refine ⟨fun m => ?_, fun _ => rfl, fun _ => rfl⟩
    simp; split <;> simp_all
  · exact ⟨fun _ => rfl, fun _ => rfl, fun _ => rfl⟩

theorem registerOutputs_late (g : Nat) : ∀ (os : List Nat) (w : World), WF w → (∀ o ∈ os, valNamable w o = true) →
    (os.foldl (fun w o => registerValue w g o) w).late = w.late ∧
      NameStep w (os.foldl (fun w o => registerValue w g o) w) ∧ WF (os.foldl (fun w o => registerValue w g o) w)
  | [], w, hw, _ => ⟨rfl, NameStep.refl w, hw⟩
  | o :: os, w, hw, h => by
    have hstep := registerValue_nameStep w g o
    have hl : (registerValue w g o).late = w.late := by
      apply registerValue_late
      intro hn
      have hv := h o List.mem_cons_self
      simp [valNamable, hn] at hv
      refine ⟨?_, hv⟩
      cases hi : (w.val o).isInit with
      | false => rfl
      | true => exact absurd hn (init_named w hw o hi)
    obtain ⟨h1, h2, h3⟩ := registerOutputs_late g os _ (registerValue_WF w g o hw)
      (fun u hu => hstep.namable u (h u (List.mem_cons_of_mem _ hu)))
    simp only [List.foldl_cons]
    exact ⟨h1.trans hl, hstep.trans h2, h3⟩

/-- one accepted node: names, then the link; nothing fails late and the other nodes stay acceptable -/
theorem link_late (w : World) (hw : WF w) (g : Nat) (anchor : Option Nat) (n : Nat)
    (ha : nodeAcceptable w g n = true) :
    (nodeLink (assignNames w g n) g anchor n).late = w.late ∧
    WF (nodeLink (assignNames w g n) g anchor n) ∧
    (∀ m, nodeAcceptable w g m = true → nodeAcceptable (nodeLink (assignNames w g n) g anchor n) g m = true) := by
  have hn0 := registerNode_nameStep w g n
  have hacc := ha
  simp only [nodeAcceptable, Bool.and_eq_true, List.all_eq_true] at hacc
  obtain ⟨hl, hs, hwf⟩ := registerOutputs_late g (w.node n).outputs (registerNode w g n) (registerNode_WF w g n hw)
    (fun o ho => hn0.namable o (hacc.2 o ho))
  have hstep : NameStep w (assignNames w g n) := hn0.trans hs
  have hadd : nodeAddable (assignNames w g n) g n = true := by
    have := hstep.graph n
    simp only [nodeAddable, this]; exact hacc.1
  refine ⟨?_, nodeLink_WF _ _ _ _ hwf, ?_⟩
  · rw [nodeLink_late _ _ _ _ hadd]
    unfold assignNames
    rw [hl, registerNode_late]
  · intro m hm
    have hm' := hstep.acceptable g m hm
    obtain ⟨ho, hlk, hnm⟩ := nodeLink_nameStep_other (assignNames w g n) g anchor n
    simp only [nodeAcceptable, Bool.and_eq_true, List.all_eq_true] at hm' ⊢
    refine ⟨?_, ?_⟩
    · have := (link_step w g anchor n (addable_of_acceptable ha)).2 m (addable_of_acceptable hm)
      exact this
    · rw [ho]
      intro o hoo
      have := hm'.2 o hoo
      simp only [valNamable, hlk, hnm] at this ⊢
      exact this

theorem extendMut_late (g : Nat) : ∀ (ns : List Nat) (w : World), WF w → (∀ n ∈ ns, nodeAcceptable w g n = true) →
    (extendMut w g ns).late = w.late
  | [], _, _, _ => rfl
  | n :: ns, w, hw, h => by
    obtain ⟨h1, h2, h3⟩ := link_late w hw g (w.gr g).nodes.getLast? n (h n List.mem_cons_self)
    have := extendMut_late g ns _ h2 (fun m hm => h3 m (h m (List.mem_cons_of_mem _ hm)))
    simp only [extendMut, List.foldl_cons] at this ⊢
    rw [this, h1]

theorem linkMany_late (g : Nat) : ∀ (ns : List Nat) (w : World) (anchor : Option Nat), WF w →
    (∀ n ∈ ns, nodeAcceptable w g n = true) → (linkMany w g anchor ns).late = w.late
  | [], _, _, _, _ => rfl
  | n :: ns, w, anchor, hw, h => by
    obtain ⟨h1, h2, h3⟩ := link_late w hw g anchor n (h n List.mem_cons_self)
    have := linkMany_late g ns _ (some n) h2 (fun m hm => h3 m (h m (List.mem_cons_of_mem _ hm)))
    simp only [linkMany, List.foldl_cons] at this ⊢
    rw [this, h1]

theorem graphAppend_late (w : World) (hw : WF w) (g n : Nat) : (graphAppend w g n).1.late = w.late := by
  apply guardOp_late; intro hb
  exact (link_late w hw g _ n (by simpa using hb)).1

theorem graphExtend_late (w : World) (hw : WF w) (g : Nat) (ns : List Nat) : (graphExtend w g ns).1.late = w.late := by
  apply guardOp_late; intro hb
  exact extendMut_late g ns w hw (by simpa using hb)

theorem graphInsertAfter_late (w : World) (hw : WF w) (g a : Nat) (ns : List Nat) :
    (graphInsertAfter w g a ns).1.late = w.late := by
  apply guardOp_late; intro hb
  simp at hb
  exact linkMany_late g ns w _ hw hb.2

theorem graphInsertBefore_late (w : World) (hw : WF w) (g a : Nat) (ns : List Nat) :
    (graphInsertBefore w g a ns).1.late = w.late := by
  apply guardOp_late; intro hb
  simp at hb
  exact linkMany_late g ns w _ hw hb.2


theorem detachInputs_late (w : World) (n : Nat) : (detachInputs w n).late = w.late := by
  unfold detachInputs
  have := setInputs_late ((List.range (w.node n).inputs.length).map (fun i => (n, i))) (fun _ => none) w
    (by intro u hu; obtain ⟨i, hi, rfl⟩ := List.mem_map.1 hu; simpa using hi)
  rw [List.foldl_map] at this
  exact this

theorem detachInputs_graph (w : World) (n m : Nat) : ((detachInputs w n).node m).graph = (w.node m).graph := by
  unfold detachInputs
  generalize List.range (w.node n).inputs.length = l
  induction l generalizing w with
  | nil => rfl
  | cons i l ih =>
    simp only [List.foldl_cons]
    rw [ih]
    unfold setInput; simp only []
    split
    · cases (w.node n).inputs.getD i none <;> simp <;> split <;> simp_all
    · rfl

theorem removeFold_late (g : Nat) (safe : Bool) : ∀ (ns : List Nat) (w : World), ns.Nodup →
    (∀ n ∈ ns, (w.node n).graph = some g) →
    (ns.foldl (fun w n => nodeUnlink (if safe then detachInputs w n else w) g n) w).late = w.late
  | [], _, _, _ => rfl
  | n :: ns, w, hn, h => by
    rw [List.nodup_cons] at hn
    simp only [List.foldl_cons]
    have hg : ((if safe then detachInputs w n else w).node n).graph = some g := by
      split
      · rw [detachInputs_graph]; exact h n List.mem_cons_self
      · exact h n List.mem_cons_self
    rw [removeFold_late g safe ns _ hn.2, nodeUnlink_late _ _ _ hg]
    · split
      · exact detachInputs_late w n
      · rfl
    · intro m hm
      have hne : m ≠ n := fun e => hn.1 (e ▸ hm)
      unfold nodeUnlink
      simp only [hg, if_true]
      simp [hne]
      split
      · rw [detachInputs_graph]; exact h m (List.mem_cons_of_mem _ hm)
      · exact h m (List.mem_cons_of_mem _ hm)

theorem graphRemove_late (w : World) (g : Nat) (ns : List Nat) (safe : Bool) :
    (graphRemove w g ns safe).1.late = w.late := by
  apply guardOp_late; intro hb
  apply removeFold_late g safe _ w (nodup_dedup ns)
  intro n hn
  rw [mem_dedup] at hn
  simp only [List.any_eq_false] at hb
  have := hb n hn
  simp at this
  exact this.1

theorem sortApply_late (w : World) (hw : WF w) (orders : List (Nat × List Nat)) : (sortApply w orders).late = w.late := by
  unfold sortApply
  refine (foldl_late WF orders w hw ?_).1
  intro a p _ ha
  split
  · rename_i hc
    simp at hc
    exact ⟨extendMut_WF _ _ _ ha, extendMut_late p.1 p.2 a ha hc.2⟩
  · exact ⟨ha, rfl⟩


/-! ### `Node(...)` -/

theorem valNamable_congr {w w' : World} (u : Nat) (h1 : (w'.val u).name = (w.val u).name)
    (h2 : (w'.val u).const = (w.val u).const) (h3 : w'.locked = w.locked) : valNamable w' u = valNamable w u := by
  simp [valNamable, constLocked, h1, h2, h3]

theorem attachOutput_frame (w : World) (n v u : Nat) (hne : u ≠ v) : (attachOutput w n v).val u = w.val u := by
  unfold attachOutput; simp only []; split <;> simp [hne]

theorem attachOutput_node (w : World) (n v m : Nat) :
    ((attachOutput w n v).node m).inputs = (w.node m).inputs ∧ ((attachOutput w n v).node m).graph = (w.node m).graph := by
  unfold attachOutput; simp only []; split
  · simp; split <;> simp_all
  · exact ⟨rfl, rfl⟩

theorem attachOutput_locked (w : World) (n v : Nat) : (attachOutput w n v).locked = w.locked := by
  unfold attachOutput; simp only []; split <;> rfl

theorem attachOutput_namable (w : World) (n v u : Nat) : valNamable (attachOutput w n v) u = valNamable w u := by
  apply valNamable_congr _ _ _ (attachOutput_locked w n v) <;> unfold attachOutput <;> frame_tac

theorem attachFold_late (n : Nat) : ∀ (os : List Nat) (w : World), os.Nodup →
    (∀ v ∈ os, (w.val v).producer = none ∧ (w.val v).isIn = false ∧ (w.val v).isInit = false) →
    (os.foldl (fun w v => attachOutput w n v) w).late = w.late
  | [], _, _, _ => rfl
  | v :: os, w, hn, h => by
    rw [List.nodup_cons] at hn
    simp only [List.foldl_cons]
    rw [attachFold_late n os _ hn.2, attachOutput_late _ _ _ (h v List.mem_cons_self)]
    intro u hu
    have hne : u ≠ v := fun e => hn.1 (e ▸ hu)
    rw [attachOutput_frame _ _ _ _ hne]
    exact h u (List.mem_cons_of_mem _ hu)

theorem foldl_pres {β : Type} (P : World → Prop) (f : World → β → World) (hf : ∀ a b, P a → P (f a b)) :
    ∀ (l : List β) (w : World), P w → P (l.foldl f w)
  | [], _, h => h
  | b :: l, w, h => foldl_pres P f hf l _ (hf w b h)

theorem iter_pres (P : World → Prop) (f : World → World) (hf : ∀ a, P a → P (f a)) :
    ∀ (c : Nat) (w : World), P w → P (iter f c w)
  | 0, _, h => h
  | c + 1, w, h => iter_pres P f hf c _ (hf w h)

theorem addOutput_node (w : World) (n m : Nat) :
    ((addOutput w n).node m).inputs = (w.node m).inputs ∧ ((addOutput w n).node m).graph = (w.node m).graph := by
  unfold addOutput; exact attachOutput_node _ _ _ _

theorem setInputsN_late (n : Nat) : ∀ (ps : List (Nat × Option Nat)) (w : World),
    (∀ p ∈ ps, p.1 < (w.node n).inputs.length) →
    (ps.foldl (fun w p => setInput w n p.1 p.2) w).late = w.late
  | [], _, _ => rfl
  | p :: ps, w, h => by
    simp only [List.foldl_cons]
    rw [setInputsN_late n ps _ (fun q hq => by rw [setInput_len]; exact h q (List.mem_cons_of_mem _ hq)),
      setInput_late _ _ _ _ (h p List.mem_cons_self)]

theorem setInput_graph (w : World) (n i : Nat) (nv : Option Nat) (m : Nat) :
    ((setInput w n i nv).node m).graph = (w.node m).graph := by
  unfold setInput; simp only []
  split
  · cases (w.node n).inputs.getD i none <;> cases nv <;> simp <;> split <;> simp_all
  · rfl

theorem setInput_outputs (w : World) (n i : Nat) (nv : Option Nat) (m : Nat) :
    ((setInput w n i nv).node m).outputs = (w.node m).outputs := by
  unfold setInput; simp only []
  split
  · cases (w.node n).inputs.getD i none <;> cases nv <;> simp <;> split <;> simp_all
  · rfl

theorem setInput_locked (w : World) (n i : Nat) (nv : Option Nat) : (setInput w n i nv).locked = w.locked := by
  unfold setInput; simp only []
  split
  · cases (w.node n).inputs.getD i none <;> cases nv <;> rfl
  · rfl

theorem setInput_namable (w : World) (n i : Nat) (nv : Option Nat) (u : Nat) :
    valNamable (setInput w n i nv) u = valNamable w u := by
  apply valNamable_congr _ _ _ (setInput_locked w n i nv) <;> unfold setInput <;> frame_tac


/-- every output of node `n` can take a generated name -/
def OutsNamable (n : Nat) (a : World) : Prop := ∀ o ∈ (a.node n).outputs, valNamable a o = true

theorem attachOutput_outs (w : World) (n v : Nat) (o : Nat) (ho : o ∈ ((attachOutput w n v).node n).outputs) :
    o ∈ (w.node n).outputs ∨ o = v := by
  unfold attachOutput at ho; simp only [] at ho
  split at ho
  · simp at ho; exact ho
  · exact Or.inl ho

theorem attachOutput_outsNamable (w : World) (n v : Nat) (h : OutsNamable n w) (hv : valNamable w v = true) :
    OutsNamable n (attachOutput w n v) := by
  intro o ho
  rw [attachOutput_namable]
  rcases attachOutput_outs w n v o ho with h1 | h1
  · exact h o h1
  · subst h1; exact hv

theorem allocVal_namable (w : World) (u : Nat) (hu : u < w.vals.length) :
    valNamable (allocVal w {}).1 u = valNamable w u := by
  have hne : u ≠ w.vals.length := by omega
  apply valNamable_congr <;> simp [allocVal, hne] <;> rfl

theorem addOutput_outsNamable (w : World) (n : Nat) (h : OutsNamable n w)
    (hb : ∀ o ∈ (w.node n).outputs, o < w.vals.length) :
    OutsNamable n (addOutput w n) ∧ (∀ o ∈ ((addOutput w n).node n).outputs, o < (addOutput w n).vals.length) := by
  unfold addOutput
  have hfresh : valNamable (allocVal w {}).1 w.vals.length = true := by
    simp [valNamable, constLocked, allocVal]
  have hlen : (attachOutput (allocVal w {}).1 n w.vals.length).vals.length = w.vals.length + 1 := by
    unfold attachOutput; simp only []; split <;> simp [allocVal]
  constructor
  · apply attachOutput_outsNamable _ _ _ _ hfresh
    intro o ho
    have ho' : o ∈ (w.node n).outputs := ho
    rw [allocVal_namable w o (hb o ho')]; exact h o ho'
  · intro o ho
    rw [hlen]
    rcases attachOutput_outs _ n _ o ho with h1 | h1
    · have : o ∈ (w.node n).outputs := h1
      have := hb o this; omega
    · omega

/-- the tail of `newNodeMut`: registering the uses keeps what the output phase established -/
theorem newNode_tail (w wb : World) (n : Nat) (inputs : List (Option Nat))
    (hlate : wb.late = w.late) (hlen : (wb.node n).inputs.length = inputs.length) (hgraph : (wb.node n).graph = none) :
    ((enumFrom 0 inputs).foldl (fun a p => setInput a n p.1 p.2) wb).late = w.late ∧
    (((enumFrom 0 inputs).foldl (fun a p => setInput a n p.1 p.2) wb).node n).graph = none ∧
    (OutsNamable n wb → OutsNamable n ((enumFrom 0 inputs).foldl (fun a p => setInput a n p.1 p.2) wb)) := by
  refine ⟨?_, ?_, ?_⟩
  · rw [setInputsN_late n _ wb (fun p hp => by
      have := enumFrom_mem inputs 0 p.1 p.2 hp; rw [hlen]; omega), hlate]
  · exact foldl_pres (fun a => (a.node n).graph = none) _ (fun a b ha => by rw [setInput_graph]; exact ha) _ wb hgraph
  · intro hnam
    exact foldl_pres (OutsNamable n) _ (fun a b ha => by
      intro o ho; rw [setInput_outputs] at ho; rw [setInput_namable]; exact ha o ho) _ wb hnam

theorem attachFold_namable (n : Nat) (w : World) : ∀ (l : List Nat) (a : World),
    (∀ v, valNamable a v = valNamable w v) → OutsNamable n a → (∀ v ∈ l, valNamable w v = true) →
    OutsNamable n (l.foldl (fun w v => attachOutput w n v) a)
  | [], _, _, h, _ => h
  | v :: l, a, ha, hq, hl => by
    simp only [List.foldl_cons]
    apply attachFold_namable n w l
    · intro u; rw [attachOutput_namable]; exact ha u
    · exact attachOutput_outsNamable a n v hq (by rw [ha]; exact hl v List.mem_cons_self)
    · exact fun u hu => hl u (List.mem_cons_of_mem _ hu)

theorem newNodeMut_facts (w : World) (opType : String) (name : Option String) (inputs : List (Option Nat))
    (numOutputs : Option Int) (outputs : Option (List Nat)) (hb : newNodeBad w numOutputs outputs = false) :
    (newNodeMut w opType name inputs numOutputs outputs).late = w.late ∧
    ((newNodeMut w opType name inputs numOutputs outputs).node w.nodes.length).graph = none ∧
    ((∀ os, outputs = some os → ∀ o ∈ os, valNamable w o = true) →
      OutsNamable w.nodes.length (newNodeMut w opType name inputs numOutputs outputs)) := by
  have hfresh := w.node_fresh w.nodes.length (Nat.le_refl _)
  have hwa_nam : ∀ v, valNamable (w.setNode w.nodes.length
      { inputs := List.replicate inputs.length none, name := name, opType := opType }) v = valNamable w v :=
    fun v => valNamable_congr v rfl rfl rfl
  have hempty : OutsNamable w.nodes.length (w.setNode w.nodes.length
      { inputs := List.replicate inputs.length none, name := name, opType := opType }) := by
    intro o ho; simp at ho
  cases outputs with
  | some os =>
    have hv : outputsValid w os = true := by
      cases numOutputs <;> simp [newNodeBad] at hb <;> simp [hb]
    simp only [outputsValid, Bool.and_eq_true, List.all_eq_true, decide_eq_true_eq] at hv
    unfold newNodeMut
    simp only []
    have ht := newNode_tail w (os.foldl (fun a v => attachOutput a w.nodes.length v) (w.setNode w.nodes.length
        { inputs := List.replicate inputs.length none, name := name, opType := opType })) w.nodes.length inputs
      (by rw [attachFold_late _ os _ hv.2 (fun v hv' => by simpa using hv.1 v hv')]; rfl)
      (foldl_pres (fun a => (a.node w.nodes.length).inputs.length = inputs.length) _
        (fun a b ha => by rw [(attachOutput_node a _ b _).1]; exact ha) os _ (by simp))
      (foldl_pres (fun a => (a.node w.nodes.length).graph = none) _
        (fun a b ha => by rw [(attachOutput_node a _ b _).2]; exact ha) os _ (by simp))
    exact ⟨ht.1, ht.2.1, fun hnm => ht.2.2 (attachFold_namable _ w os _ hwa_nam hempty (hnm os rfl))⟩
  | none =>
    unfold newNodeMut
    simp only []
    have ht := newNode_tail w (iter (fun a => addOutput a w.nodes.length) ((numOutputs.getD 1).toNat) (w.setNode w.nodes.length
        { inputs := List.replicate inputs.length none, name := name, opType := opType })) w.nodes.length inputs
      (by rw [iter_addOutput_late]; rfl)
      (iter_pres (fun a => (a.node w.nodes.length).inputs.length = inputs.length) _
        (fun a ha => by rw [(addOutput_node a _ _).1]; exact ha) _ _ (by simp))
      (iter_pres (fun a => (a.node w.nodes.length).graph = none) _
        (fun a ha => by rw [(addOutput_node a _ _).2]; exact ha) _ _ (by simp))
    refine ⟨ht.1, ht.2.1, fun _ => ht.2.2 ?_⟩
    exact (iter_pres (fun a => OutsNamable w.nodes.length a ∧ ∀ o ∈ (a.node w.nodes.length).outputs, o < a.vals.length) _
      (fun a ha => addOutput_outsNamable a _ ha.1 ha.2) _ _ ⟨hempty, by intro o ho; simp at ho⟩).1

theorem newNode_late (w : World) (hw : WF w) (opType : String) (name : Option String) (inputs : List (Option Nat))
    (numOutputs : Option Int) (outputs : Option (List Nat)) (graph : Option Nat) :
    (newNode w opType name inputs numOutputs outputs graph).1.late = w.late := by
  apply guardOp_late
  intro hb
  simp only [Bool.or_eq_false_iff] at hb
  obtain ⟨h1, h2, h3⟩ := newNodeMut_facts w opType name inputs numOutputs outputs hb.1
  cases graph with
  | none => exact h1
  | some g =>
    simp only []
    have hnm : ∀ os, outputs = some os → ∀ o ∈ os, valNamable w o = true := by
      intro os hos o ho
      have := hb.2
      simp [hos] at this
      exact this o ho
    have hwf := newNodeMut_WF w opType name inputs numOutputs outputs hw
    have hacc : nodeAcceptable (newNodeMut w opType name inputs numOutputs outputs) g w.nodes.length = true := by
      simp only [nodeAcceptable, nodeAddable, h2, Bool.and_eq_true, List.all_eq_true]
      exact ⟨by simp, h3 hnm⟩
    rw [(link_late _ hwf g _ _ hacc).1, h1]


/-! ### `Graph(...)` -/

/-- how the phases of the constructor of graph `g` may move a world: nodes untouched; producers, const
data untouched; an owner pointer that was free or `g` stays free or `g`; a non-empty name stays -/
structure Grow (g : Nat) (w a : World) : Prop where
  outs : ∀ n, (a.node n).outputs = (w.node n).outputs
  ngraph : ∀ n, (a.node n).graph = (w.node n).graph
  prod : ∀ v, (a.val v).producer = (w.val v).producer
  locked : ∀ v, constLocked a v = constLocked w v
  owner : ∀ v, ((w.val v).graph = none ∨ (w.val v).graph = some g) → ((a.val v).graph = none ∨ (a.val v).graph = some g)
  name : ∀ v s, (w.val v).name = some s → s ≠ "" → (a.val v).name = some s
  named : ∀ v, (w.val v).name ≠ none → (a.val v).name ≠ none

theorem Grow.refl (g : Nat) (w : World) : Grow g w w :=
  ⟨fun _ => rfl, fun _ => rfl, fun _ => rfl, fun _ => rfl, fun _ h => h, fun _ _ h _ => h, fun _ h => h⟩

theorem Grow.trans {g : Nat} {a b c : World} (h1 : Grow g a b) (h2 : Grow g b c) : Grow g a c :=
  ⟨fun n => (h2.outs n).trans (h1.outs n), fun n => (h2.ngraph n).trans (h1.ngraph n),
   fun v => (h2.prod v).trans (h1.prod v), fun v => (h2.locked v).trans (h1.locked v),
   fun v h => h2.owner v (h1.owner v h), fun v s h hs => h2.name v s (h1.name v s h hs) hs,
   fun v h => h2.named v (h1.named v h)⟩

theorem Grow.nameStep {g : Nat} {w a : World} (h : Grow g w a) : NameStep w a :=
  ⟨h.outs, h.ngraph, h.locked, h.named⟩

theorem Grow.checkIO {g : Nat} {w a : World} (h : Grow g w a) (k : IOKind) (v : Nat) (hc : checkIO w g k v = true) :
    checkIO a g k v = true := by
  rw [checkIO_eq] at hc ⊢
  exact ⟨h.owner v hc.1, by rw [h.prod]; exact hc.2⟩

theorem Grow.initOK {g : Nat} {w a : World} (h : Grow g w a) (key : String) (v : Nat)
    (hn : (w.val v).name = some key) (hc : initOK w g key v = true) : initOK a g key v = true := by
  rw [initOK_iff] at hc ⊢
  obtain ⟨h1, _, h3, h4, _⟩ := hc
  have hname := h.name v key hn h1
  refine ⟨h1, Or.inr hname, by rw [h.prod]; exact h3, h.owner v h4, ?_⟩
  intro hf; simp [falsy, hname, h1] at hf

theorem grow_of_vals (g : Nat) (w a : World) (hn : ∀ n, a.node n = w.node n)
    (hp : ∀ v, (a.val v).producer = (w.val v).producer) (hc : ∀ v, (a.val v).const = (w.val v).const)
    (hl : a.locked = w.locked)
    (ho : ∀ v, ((w.val v).graph = none ∨ (w.val v).graph = some g) → ((a.val v).graph = none ∨ (a.val v).graph = some g))
    (hnm : ∀ v s, (w.val v).name = some s → s ≠ "" → (a.val v).name = some s)
    (hnd : ∀ v, (w.val v).name ≠ none → (a.val v).name ≠ none) : Grow g w a :=
  ⟨fun n => by rw [hn], fun n => by rw [hn], hp, fun v => constLocked_congr hc hl v, ho, hnm, hnd⟩

theorem ioInsert_locked (w : World) (g : Nat) (k : IOKind) (pos v : Nat) : (ioInsert w g k pos v).locked = w.locked := by
  unfold ioInsert setIO; split
  · simp
  · rfl

theorem ioInsert_grow (w : World) (g : Nat) (k : IOKind) (pos v : Nat) : Grow g w (ioInsert w g k pos v) := by
  by_cases hc : checkIO w g k v = true
  · apply grow_of_vals g w _ (fun n => ioInsert_node w g k pos v n) _ _ (ioInsert_locked w g k pos v)
    · intro u h; rw [ioInsert_val _ _ _ _ _ hc]; split
      · simp
      · exact h
    · intro u s h _; rw [ioInsert_val _ _ _ _ _ hc]; split
      · subst_vars; simpa using h
      · exact h
    · intro u h; rw [ioInsert_val _ _ _ _ _ hc]; split
      · subst_vars; simpa using h
      · exact h
    · intro u; rw [ioInsert_val _ _ _ _ _ hc]; split
      · subst_vars; simp
      · rfl
    · intro u; rw [ioInsert_val _ _ _ _ _ hc]; split
      · subst_vars; cases k <;> rfl
      · rfl
  · simp only [ioInsert, hc]; exact ⟨fun _ => rfl, fun _ => rfl, fun _ => rfl, fun _ => rfl, fun _ h => h, fun _ _ h _ => h, fun _ h => h⟩

theorem initPut_locked (w : World) (g : Nat) (key : String) (v : Nat) : (initPut w g key v).locked = w.locked := by
  unfold initPut
  split
  · have h1 : (if falsy (w.val v).name = true then setNamePlain w v (some key) else w).locked = w.locked := by
      split
      · exact locked_setNamePlain _ _ _
      · rfl
    simp only []
    split <;> simp [unsetInit, World.setVal, World.setGr, h1]
  · rfl

theorem initPut_grow (w : World) (g : Nat) (key : String) (v : Nat) (hkey : (w.val v).name = some key) :
    Grow g w (initPut w g key v) := by
  by_cases hok : initOK w g key v = true
  · apply grow_of_vals g w _ (fun n => initPut_node w g key v n) _ _ (initPut_locked w g key v)
    · intro u h; rw [initPut_val _ _ _ _ hok]; split
      · simp
      · split
        · rw [clearedInit_graph]; split
          · exact h
          · exact Or.inl rfl
        · exact h
    · intro u s h _; rw [initPut_val _ _ _ _ hok]; split
      · subst_vars; rw [hkey] at h; simpa using h
      · split
        · simpa using h
        · exact h
    · intro u h; rw [initPut_val _ _ _ _ hok]; split
      · simp
      · split
        · simpa using h
        · exact h
    · intro u; rw [initPut_val _ _ _ _ hok]; split
      · subst_vars; rfl
      · split <;> simp
    · intro u; rw [initPut_val _ _ _ _ hok]; split
      · subst_vars; rfl
      · split <;> simp [clearedInit]
  · simp only [initPut, hok]; exact ⟨fun _ => rfl, fun _ => rfl, fun _ => rfl, fun _ => rfl, fun _ h => h, fun _ _ h _ => h, fun _ h => h⟩

theorem registerValue_grow (w : World) (g v : Nat) : Grow g w (registerValue w g v) := by
  have hs := registerValue_nameStep w g v
  refine ⟨hs.outs, hs.graph, ?_, hs.locked, ?_, ?_, hs.named⟩
  all_goals
    unfold registerValue
    split
    · first | (intro u; rfl) | (intro u h; exact h) | (intro u s h _; exact h)
    · simp only []
      split
      · first | (intro u; rfl) | (intro u h; exact h) | (intro u s h _; exact h)
      · rename_i hnone _
        first
          | (intro u; rw [setNamePlain_val]; split
             · subst_vars; rfl
             · rfl)
          | (intro u h; rw [setNamePlain_val]; split
             · subst_vars; exact h
             · exact h)
          | (intro u s h _; rw [setNamePlain_val]; split
             · subst_vars; rw [hnone] at h; simp at h
             · exact h)


theorem enumFrom_mem_val {α : Type} : ∀ (l : List α) (s i : Nat) (a : α), (i, a) ∈ enumFrom s l → a ∈ l
  | [], _, _, _, h => by simp [enumFrom] at h
  | x :: xs, s, i, a, h => by
    simp only [enumFrom, List.mem_cons, Prod.mk.injEq] at h
    rcases h with ⟨_, rfl⟩ | h
    · exact List.mem_cons_self
    · exact List.mem_cons_of_mem _ (enumFrom_mem_val xs (s + 1) i a h)

theorem ioInsertMany_grow (g : Nat) (k : IOKind) (w : World) : ∀ (vs : List Nat) (pos : Nat) (a : World),
    WF a → Grow g w a → (∀ v ∈ vs, checkIO w g k v = true) →
    (ioInsertMany a g k pos vs).late = a.late ∧ WF (ioInsertMany a g k pos vs) ∧ Grow g w (ioInsertMany a g k pos vs)
  | [], _, a, ha, hg, _ => ⟨rfl, ha, hg⟩
  | v :: vs, pos, a, ha, hg, h => by
    have hc := hg.checkIO k v (h v List.mem_cons_self)
    obtain ⟨h1, h2, h3⟩ := ioInsertMany_grow g k w vs (pos + 1) (ioInsert a g k pos v) (ioInsert_WF _ _ _ _ _ ha)
      (hg.trans (ioInsert_grow a g k pos v)) (fun u hu => h u (List.mem_cons_of_mem _ hu))
    simp only [ioInsertMany, enumFrom, List.foldl_cons] at h1 h2 h3 ⊢
    exact ⟨h1.trans (ioInsert_late _ _ _ _ _ hc), h2, h3⟩

theorem dictSet_mem_sub (d : List (String × Nat)) (k : String) (v : Nat) (p : String × Nat)
    (hp : p ∈ dictSet d k v) : p ∈ d ∨ p = (k, v) := by
  cases p with
  | mk k' u =>
    rw [mem_dictSet] at hp
    rcases hp with ⟨rfl, rfl⟩ | ⟨_, h⟩
    · exact Or.inr rfl
    · exact Or.inl h

theorem initDict_mem (w : World) (vs : List Nat) (p : String × Nat) (hp : p ∈ initDict w vs) :
    p.1 = (w.val p.2).name.getD "" := by
  unfold initDict at hp
  have : ∀ (l : List Nat) (d : List (String × Nat)), (∀ q ∈ d, q.1 = (w.val q.2).name.getD "") →
      ∀ q ∈ l.foldl (fun d v => dictSet d ((w.val v).name.getD "") v) d, q.1 = (w.val q.2).name.getD "" := by
    intro l
    induction l with
    | nil => intro d hd q hq; exact hd q hq
    | cons v l ih =>
      intro d hd q hq
      simp only [List.foldl_cons] at hq
      apply ih _ _ q hq
      intro r hr
      rcases dictSet_mem_sub _ _ _ _ hr with h | h
      · exact hd r h
      · subst h; rfl
  exact this vs [] (by simp) p hp

theorem initFold_grow (g : Nat) (w : World) : ∀ (d : List (String × Nat)) (a : World), WF a → Grow g w a →
    (∀ p ∈ d, initOK w g p.1 p.2 = true ∧ (w.val p.2).name = some p.1) →
    (d.foldl (fun a p => initPut a g p.1 p.2) a).late = a.late ∧ WF (d.foldl (fun a p => initPut a g p.1 p.2) a) ∧
      Grow g w (d.foldl (fun a p => initPut a g p.1 p.2) a)
  | [], a, ha, hg, _ => ⟨rfl, ha, hg⟩
  | p :: d, a, ha, hg, h => by
    obtain ⟨hok, hnm⟩ := h p List.mem_cons_self
    have hkey : p.1 ≠ "" := ((initOK_iff w g p.1 p.2).1 hok).1
    have hok' := hg.initOK p.1 p.2 hnm hok
    have hnm' := hg.name p.2 p.1 hnm hkey
    obtain ⟨h1, h2, h3⟩ := initFold_grow g w d (initPut a g p.1 p.2) (initPut_WF _ _ _ _ ha)
      (hg.trans (initPut_grow a g p.1 p.2 hnm')) (fun q hq => h q (List.mem_cons_of_mem _ hq))
    simp only [List.foldl_cons]
    exact ⟨h1.trans (initPut_late _ _ _ _ hok'), h2, h3⟩

theorem newGraph_late (w : World) (hw : WF w) (inputs outputs nodes inits : List Nat) :
    (newGraph w inputs outputs nodes inits).1.late = w.late := by
  unfold newGraph
  simp only []
  apply guardOp_late
  intro hb
  simp only [Bool.or_eq_false_iff, Bool.not_eq_false', List.all_eq_true] at hb
  obtain ⟨⟨⟨⟨hin, hout⟩, hinit⟩, hnodes⟩, hnam⟩ := hb
  -- the fresh graph record
  have hfresh := w.gr_fresh w.graphs.length (Nat.le_refl _)
  have hw0 : WF (w.setGr w.graphs.length {}) := allocGraph_WF w hw
  have hg0 : Grow w.graphs.length w (w.setGr w.graphs.length {}) :=
    grow_of_vals _ _ _ (fun _ => rfl) (fun _ => rfl) (fun _ => rfl) rfl (fun _ h => h) (fun _ _ h _ => h) (fun _ h => h)
  obtain ⟨l1, w1, g1⟩ := ioInsertMany_grow w.graphs.length .inp w inputs 0 _ hw0 hg0 hin
  obtain ⟨l2, w2, g2⟩ := ioInsertMany_grow w.graphs.length .out w outputs 0 _ w1 g1 hout
  have hd : ∀ p ∈ initDict w inits, initOK w w.graphs.length p.1 p.2 = true ∧ (w.val p.2).name = some p.1 := by
    intro p hp
    have hok := hinit p hp
    refine ⟨hok, ?_⟩
    have hk := initDict_mem w inits p hp
    have hne : p.1 ≠ "" := ((initOK_iff w _ p.1 p.2).1 hok).1
    cases hn : (w.val p.2).name with
    | none => rw [hn] at hk; exact absurd hk hne
    | some s => rw [hn] at hk; simp at hk; rw [hk]
  obtain ⟨l3, w3, g3⟩ := initFold_grow w.graphs.length w (initDict w inits) _ w2 g2 hd
  have s3 : NameStep w _ := g3.nameStep
  obtain ⟨l4, s4, w4⟩ := registerOutputs_late w.graphs.length inputs _ w3
    (fun o ho => s3.namable o (hnam o ho))
  have s34 := s3.trans s4
  have hreg : ∀ a : World, (initDict w inits).foldl (fun a p => registerValue a w.graphs.length p.2) a =
      ((initDict w inits).map (·.2)).foldl (fun a o => registerValue a w.graphs.length o) a := by
    intro a; rw [List.foldl_map]
  obtain ⟨l5, s5, w5⟩ := registerOutputs_late w.graphs.length ((initDict w inits).map (·.2)) _ w4
    (fun o ho => by
      obtain ⟨p, hp, rfl⟩ := List.mem_map.1 ho
      have hnm := (hd p hp).2
      have : (w.val p.2).name ≠ none := by rw [hnm]; simp
      have := s34.named p.2 this
      simp [valNamable, this])
  have s345 := s34.trans s5
  rw [hreg]
  rw [extendMut_late _ nodes _ w5 (fun n hn => s345.acceptable _ n (hnodes n hn)), l5, l4, l3, l2, l1]
  rfl


/-! ### every single call -/

theorem withAttrs_late (r : World × Outcome) (n : Nat) (as : List (String × List Nat)) :
    (withAttrs r n as).1.late = r.1.late := by
  unfold withAttrs; split <;> rfl

theorem setNodeName_late (w : World) (n : Nat) (s : Option String) : (setNodeName w n s).1.late = w.late := by
  apply guardOp_late; intro _; simp only []; split <;> rfl

theorem graphSort_late (w : World) (hw : WF w) (g : Nat) : (graphSort w g).1.late = w.late := by
  unfold graphSort; split
  · rfl
  · exact guardOp_late _ _ _ _ (fun _ => sortApply_late _ hw _)

theorem step_late (w : World) (hw : WF w) (op : Op) : (step w op).1.late = w.late := by
  cases op <;> simp only [step]
  case newValue name => exact guardOp_late _ _ _ _ (fun _ => rfl)
  case setConst v lk => exact guardOp_late _ _ _ _ (fun _ => rfl)
  case newNode opType name inputs numOutputs outputs graph => exact newNode_late _ hw _ _ _ _ _ _
  case newGraph inputs outputs nodes inits => exact newGraph_late _ hw _ _ _ _
  case replaceInput n idx v => exact replaceInput_late _ _ _ _
  case resizeInputs n k => exact resizeInputs_late _ _ _
  case resizeOutputs n k => exact resizeOutputs_late _ _ _
  case rauw v r rgo => exact rauw_late _ hw _ _ _
  case io g k m => exact ioMut_late _ _ _ _
  case init g m => exact initMut_late _ hw _ _
  case setName v s => exact setName_late _ hw _ _
  case append g n => exact graphAppend_late _ hw _ _
  case extend g ns => exact graphExtend_late _ hw _ _
  case insertAfter g a ns => exact graphInsertAfter_late _ hw _ _ _
  case insertBefore g a ns => exact graphInsertBefore_late _ hw _ _ _
  case remove g ns safe => exact graphRemove_late _ _ _ _
  case sortOk orders => exact guardOp_late _ _ _ _ (fun _ => sortApply_late _ hw _)
  case sortCycle => rfl
  case attrEdit => exact guardOp_late _ _ _ _ (fun _ => rfl)
  case newNodeAttrs opType name inputs numOutputs outputs graph attrs =>
    rw [withAttrs_late]; exact newNode_late _ hw _ _ _ _ _ _
  case sort g => exact graphSort_late _ hw _
  case setNodeName n s => exact setNodeName_late _ _ _
  case setOpType n s => exact guardOp_late _ _ _ _ (fun _ => rfl)
  case clearConst v => exact guardOp_late _ _ _ _ (fun _ => rfl)
  case attrSet n key gs => exact guardOp_late _ _ _ _ (fun _ => rfl)
  case attrDel n key strict => exact guardOp_late _ _ _ _ (fun _ => rfl)
  case attrClear n => exact guardOp_late _ _ _ _ (fun _ => rfl)

/-- a call that ends in `guardOp` and does not move `late` can only raise from its validation -/
theorem guardOp_atomic_of_late (bad : Bool) (kind : String) (w w' : World) (k : String)
    (h : (guardOp bad kind w w').1.late = w.late) (hr : (guardOp bad kind w w').2 = .raised k) :
    (guardOp bad kind w w').1 = w := by
  unfold guardOp at h hr ⊢
  cases bad with
  | true => rfl
  | false =>
    simp only [Bool.false_eq_true, if_false] at h hr ⊢
    split at hr
    · cases hr
    · rename_i hne
      simp only [hne, if_false] at h


/-- `Node(…)` with its attribute dict: rejected only by the validation of `newNode` -/
theorem withAttrs_atomic (bad : Bool) (kind : String) (w w' : World) (n : Nat) (as : List (String × List Nat))
    (k : String) (h : (guardOp bad kind w w').1.late = w.late)
    (hr : (withAttrs (guardOp bad kind w w') n as).2 = .raised k) :
    (withAttrs (guardOp bad kind w w') n as).1 = w := by
  cases hg : (guardOp bad kind w w').2 with
  | ok => simp [withAttrs, hg] at hr
  | raised k' =>
    have e : withAttrs (guardOp bad kind w w') n as = guardOp bad kind w w' := by simp [withAttrs, hg]
    rw [e]; exact guardOp_atomic_of_late _ _ _ _ _ h hg

/-! ### `convenience.replace_all_uses_with` with the exact up-front check (proposed fix D82-exact) -/

theorem rauwSeq_late (rgo : Bool) : ∀ (ps : List (Nat × Nat)) (w : World), WF w → (rauwSeq w rgo ps).1.late = w.late
  | [], _, _ => rfl
  | (v, r) :: rest, w, hw => by
    unfold rauwSeq andThen
    split
    · rw [rauwSeq_late rgo rest _ (rauw_WF w v r rgo hw)]; exact rauw_late w hw v r rgo
    · exact rauw_late w hw v r rgo

/-- with the exact check in front the multi-pair call is all or nothing -/
theorem rauwManyExact_atomic (w : World) (hw : WF w) (vs rs : List Nat) (rgo : Bool) (k : String)
    (h : (rauwManyExact w vs rs rgo).2 = .raised k) : (rauwManyExact w vs rs rgo).1 = w := by
  unfold rauwManyExact at h ⊢
  split
  · rfl
  · rename_i hl
    simp only [hl, if_false] at h
    exact guardOp_atomic_of_late _ _ _ _ _ (guardOp_late _ _ _ _ (fun _ => rauwSeq_late rgo _ w hw)) h

/-! ### `rename_values` -/


theorem dedupPairs_nodup : ∀ (l acc r : List (Nat × String)), dedupPairs acc l = some r →
    (acc.map Prod.fst).Nodup → (r.map Prod.fst).Nodup
  | [], acc, r, h, hn => by simp [dedupPairs] at h; subst h; exact hn
  | (v, n) :: rest, acc, r, h, hn => by
    unfold dedupPairs at h
    split at h
    · split at h
      · exact dedupPairs_nodup rest acc r h hn
      · simp at h
    · rename_i hnone
      apply dedupPairs_nodup rest _ r h
      simp only [List.map_append, List.map_cons, List.map_nil]
      rw [List.nodup_append]
      refine ⟨hn, by simp, ?_⟩
      intro a ha b hb
      simp at hb; subst hb
      intro e; subst e
      obtain ⟨p, hp, hpe⟩ := List.mem_map.1 ha
      have := List.find?_eq_none.1 hnone p hp
      simp at this; exact this hpe

/-- phase 1 of `rename_values`: the renamed initializers leave their mappings -/
theorem renameDel_late : ∀ (l : List (Nat × String)) (a : World), (l.map Prod.fst).Nodup → WF a →
    (∀ p ∈ l, (a.val p.1).isInit = true) →
    (l.foldl renameDelStep a).late = a.late ∧
    WF (l.foldl renameDelStep a) ∧
    (∀ u, ((l.foldl renameDelStep a).val u) = if u ∈ l.map Prod.fst then clearedInit (a.val u) else a.val u)
  | [], a, _, ha, _ => ⟨rfl, ha, fun u => by simp⟩
  | p :: l, a, hn, ha, hi => by
    simp only [List.map_cons, List.nodup_cons] at hn
    have hip := hi p List.mem_cons_self
    obtain ⟨g, key, hg, hm⟩ := ha.own.init_flag p.1 hip
    have hname := (ha.key.name g key p.1 hm).1
    have hlook := lookupInit_of_mem _ _ _ (ha.key.keys g) hm
    simp only [List.foldl_cons, renameDelStep, hg, hname]
    have hval : ∀ u, (initDel a g key).val u = if u = p.1 then clearedInit (a.val p.1) else a.val u :=
      fun u => initDel_val a g key p.1 hlook u
    obtain ⟨h1, h2, h3⟩ := renameDel_late l (initDel a g key) hn.2 (initDel_WF _ _ _ ha) (by
      intro q hq
      have hne : q.1 ≠ p.1 := fun e => hn.1 (List.mem_map.2 ⟨q, hq, e⟩)
      rw [hval, if_neg hne]; exact hi q (List.mem_cons_of_mem _ hq))
    refine ⟨h1.trans (initDel_late _ _ _ (by simp [hlook])), h2, ?_⟩
    intro u
    rw [h3 u, hval]
    by_cases hu : u = p.1
    · subst hu; simp [hn.1]
    · have : (u ∈ List.map Prod.fst (p :: l)) ↔ (u ∈ List.map Prod.fst l) := by
        simp only [List.map_cons, List.mem_cons, hu, false_or]
      simp only [hu, if_false, this]

theorem clearedInit_facts (x : ValueS) :
    (clearedInit x).isInit = false ∧ (clearedInit x).name = x.name ∧ (clearedInit x).producer = x.producer ∧
    (clearedInit x).const = x.const ∧ ((clearedInit x).graph = x.graph ∨ (clearedInit x).graph = none) := by
  refine ⟨rfl, rfl, rfl, rfl, ?_⟩
  rw [clearedInit_graph]; split
  · exact Or.inl rfl
  · exact Or.inr rfl

/-- phase 2: plain renames of values none of which is an initializer any more -/
theorem renameSet_late : ∀ (l : List (Nat × String)) (a : World), (l.map Prod.fst).Nodup → WF a →
    (∀ p ∈ l, (a.val p.1).isInit = false) →
    (l.foldl (fun w p => setNameIfPlain w p.1 (some p.2)) a).late = a.late ∧
    WF (l.foldl (fun w p => setNameIfPlain w p.1 (some p.2)) a) ∧
    (∀ u, ((l.foldl (fun w p => setNameIfPlain w p.1 (some p.2)) a).val u) =
      match l.find? (fun p => p.1 = u) with
      | some p => { a.val u with name := some p.2 }
      | none => a.val u) ∧
    (∀ g, (l.foldl (fun w p => setNameIfPlain w p.1 (some p.2)) a).gr g = a.gr g) ∧
    (l.foldl (fun w p => setNameIfPlain w p.1 (some p.2)) a).locked = a.locked
  | [], a, _, ha, _ => ⟨rfl, ha, fun u => by simp, fun _ => rfl, rfl⟩
  | p :: l, a, hn, ha, hi => by
    simp only [List.map_cons, List.nodup_cons] at hn
    have hip := hi p List.mem_cons_self
    have hstep_val : ∀ u, (setNameIfPlain a p.1 (some p.2)).val u =
        if u = p.1 then { a.val p.1 with name := some p.2 } else a.val u := by
      intro u
      unfold setNameIfPlain
      split
      · rename_i he; split
        · subst_vars; rw [← he]
        · rfl
      · split
        · rename_i hc; rw [hip] at hc; cases hc
        · exact setNamePlain_val _ _ _ _
    have hstep_late : (setNameIfPlain a p.1 (some p.2)).late = a.late := by
      unfold setNameIfPlain; split
      · rfl
      · simp [hip]
    have hstep_gr : ∀ g, (setNameIfPlain a p.1 (some p.2)).gr g = a.gr g := by
      intro g; unfold setNameIfPlain; split
      · rfl
      · simp only [hip, Bool.false_eq_true, if_false]; exact setNamePlain_gr _ _ _ _
    have hstep_lk : (setNameIfPlain a p.1 (some p.2)).locked = a.locked := by
      unfold setNameIfPlain; split
      · rfl
      · simp only [hip, Bool.false_eq_true, if_false]; exact locked_setNamePlain _ _ _
    obtain ⟨h1, h2, h3, h4, h5⟩ := renameSet_late l (setNameIfPlain a p.1 (some p.2)) hn.2
      (setNameIfPlain_WF _ _ _ ha) (by
        intro q hq
        have hne : q.1 ≠ p.1 := fun e => hn.1 (List.mem_map.2 ⟨q, hq, e⟩)
        rw [hstep_val, if_neg hne]; exact hi q (List.mem_cons_of_mem _ hq))
    simp only [List.foldl_cons]
    refine ⟨h1.trans hstep_late, h2, ?_, fun g => (h4 g).trans (hstep_gr g), h5.trans hstep_lk⟩
    intro u
    rw [h3 u, List.find?_cons]
    by_cases hu : p.1 = u
    · subst hu
      have : l.find? (fun q => q.1 = p.1) = none := by
        rw [List.find?_eq_none]; intro q hq; simp
        exact fun e => hn.1 (List.mem_map.2 ⟨q, hq, e⟩)
      simp [this, hstep_val]
    · have hu' : ¬ u = p.1 := fun e => hu e.symm
      simp [hu, hstep_val, hu']


/-- phase 3: the renamed initializers go back under their new names -/
theorem renamePut_late (gOf : Nat → Option Nat) : ∀ (l : List (Nat × String)) (a : World),
    (l.map Prod.fst).Nodup → WF a →
    (∀ p ∈ l, (a.val p.1).isInit = false ∧ (a.val p.1).name = some p.2 ∧ p.2 ≠ "" ∧
      (a.val p.1).producer = none ∧ ∃ g, gOf p.1 = some g ∧ ((a.val p.1).graph = none ∨ (a.val p.1).graph = some g)) →
    (l.foldl (renamePutStep gOf) a).late = a.late
  | [], _, _, _, _ => rfl
  | p :: l, a, hn, ha, h => by
    simp only [List.map_cons, List.nodup_cons] at hn
    obtain ⟨hi, hname, hne, hprod, g, hg, hgr⟩ := h p List.mem_cons_self
    have hok : initOK a g p.2 p.1 = true := by
      rw [initOK_iff]
      refine ⟨hne, Or.inr hname, hprod, hgr, ?_⟩
      intro hf; simp [falsy, hname, hne] at hf
    simp only [List.foldl_cons, renamePutStep, hg]
    rw [renamePut_late gOf l _ hn.2 (initPut_WF _ _ _ _ ha), initPut_late _ _ _ _ hok]
    intro q hq
    have hqne : q.1 ≠ p.1 := fun e => hn.1 (List.mem_map.2 ⟨q, hq, e⟩)
    have hqi := (h q (List.mem_cons_of_mem _ hq)).1
    have hsame : (initPut a g p.2 p.1).val q.1 = a.val q.1 := by
      rw [initPut_val _ _ _ _ hok, if_neg hqne]
      split
      · rename_i hl
        have hm := lookupInit_some _ _ _ hl
        have := (ha.own.init_mem g p.2 q.1 hm).1
        rw [hqi] at this; cases this
      · rfl
    rw [hsame]
    exact h q (List.mem_cons_of_mem _ hq)


theorem find?_fst_of_nodup : ∀ (l : List (Nat × String)) (p : Nat × String), (l.map Prod.fst).Nodup → p ∈ l →
    l.find? (fun q => q.1 = p.1) = some p
  | [], _, _, h => by simp at h
  | x :: l, p, hn, h => by
    simp only [List.map_cons, List.nodup_cons] at hn
    rw [List.find?_cons]
    rcases List.mem_cons.1 h with rfl | h
    · simp
    · have hne : x.1 ≠ p.1 := fun e => hn.1 (List.mem_map.2 ⟨p, h, e.symm⟩)
      simp [hne]
      exact find?_fst_of_nodup l p hn.2 h

theorem renameValues_late (w : World) (hw : WF w) (vs : List Nat) (names : List String) :
    (renameValues w vs names).1.late = w.late := by
  unfold renameValues
  split
  · rfl
  · split
    · rfl
    · rename_i pairs hp
      simp only []
      apply guardOp_late
      intro hb
      simp only [Bool.or_eq_false_iff] at hb
      obtain ⟨hbad, _⟩ := hb
      have hnd : (pairs.map Prod.fst).Nodup := dedupPairs_nodup _ _ _ hp (by simp)
      have hsub : ((pairs.filter (fun p => (w.val p.1).isInit)).map Prod.fst).Sublist (pairs.map Prod.fst) :=
        List.Sublist.map _ List.filter_sublist
      have hndi := hnd.sublist hsub
      have hii : ∀ p ∈ pairs.filter (fun p => (w.val p.1).isInit), (w.val p.1).isInit = true :=
        fun p hp' => (List.mem_filter.1 hp').2
      obtain ⟨l1, w1, v1⟩ := renameDel_late _ w hndi hw hii
      have hni : ∀ p ∈ pairs, (((pairs.filter (fun p => (w.val p.1).isInit)).foldl
          renameDelStep w).val p.1).isInit = false := by
        intro p hpp
        rw [v1 p.1]
        split
        · rfl
        · rename_i hnot
          cases hi : (w.val p.1).isInit with
          | false => rfl
          | true => exact absurd (List.mem_map.2 ⟨p, List.mem_filter.2 ⟨hpp, hi⟩, rfl⟩) hnot
      obtain ⟨l2, w2, v2, g2, k2⟩ := renameSet_late pairs _ hnd w1 hni
      refine Eq.trans (renamePut_late (fun v => (w.val v).graph) _ _ hndi w2 ?_) (l2.trans l1)
      intro p hpi
      have hpp := (List.mem_filter.1 hpi).1
      have hinit := hii p hpi
      rw [v2 p.1, find?_fst_of_nodup pairs p hnd hpp, v1 p.1,
        if_pos (List.mem_map.2 ⟨p, hpi, rfl⟩)]
      obtain ⟨g, key, hg, hm⟩ := hw.own.init_flag p.1 hinit
      have hb1 : p.2 ≠ "" := by
        unfold renameBad at hbad
        rw [List.any_eq_false] at hbad
        have := hbad p hpi
        intro he
        apply this
        simp [he]
      refine ⟨rfl, rfl, hb1, ?_, g, hg, ?_⟩
      · exact hw.root p.1 (Or.inr hinit)
      · show (clearedInit (w.val p.1)).graph = none ∨ (clearedInit (w.val p.1)).graph = some g
        rw [clearedInit_graph]; split
        · exact Or.inr hg
        · exact Or.inl rfl


end IrVerif.Kernel

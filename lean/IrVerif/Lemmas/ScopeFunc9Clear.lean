/-
Worlds that differ from a certified (`ReloadableM`) world only in the info of function values:
clearing the info of the truthy-named function values keeps the certificate; `serializeM` of such a world
writes the same main graph and the same functions up to their value_info.
-/
import IrVerif.Lemmas.ScopeFunc9Sets
import IrVerif.Lemmas.ScopeModelDup
namespace IrVerif.Scope

/-- `w` is a truthy-named value of one of the functions (input or output of one of its own nodes) -/
def inSB (V : Nat → ValueS) (fs : List (FId × GraphT)) (w : Nat) : Bool :=
  nameTruthy (V w).name && fs.any fun f => (fvals f.2).contains w

theorem inSB_iff (V : Nat → ValueS) (fs : List (FId × GraphT)) (w : Nat) :
    inSB V fs w = true ↔ nameTruthy (V w).name = true ∧ ∃ f ∈ fs, w ∈ fvals f.2 := by
  simp only [inSB, Bool.and_eq_true, List.any_eq_true, List.contains_iff_mem]

/-- the info `J` with the truthy-named function values cleared -/
def clearI (V : Nat → ValueS) (fs : List (FId × GraphT)) (J : Nat → Info) : Nat → Info :=
  fun w => if inSB V fs w then {} else J w

theorem flatMap_nodup_each {α : Type} (h : α → List Nat) : ∀ (fs : List α), (fs.flatMap h).Nodup → ∀ f ∈ fs, (h f).Nodup
  | [], _, f, hf => by simp at hf
  | a :: fs, hnd, f, hf => by
    simp only [List.flatMap_cons] at hnd
    rw [List.nodup_append] at hnd
    simp only [List.mem_cons] at hf
    rcases hf with rfl | hf
    · exact hnd.1
    · exact flatMap_nodup_each h fs hnd.2.1 f hf

theorem flatMap_congr_mem {α : Type} (h1 h2 : α → List Nat) : ∀ (fs : List α), (∀ f ∈ fs, h1 f = h2 f) →
    fs.flatMap h1 = fs.flatMap h2
  | [], _ => rfl
  | a :: fs, h => by
    simp only [List.flatMap_cons, h a (by simp), flatMap_congr_mem h1 h2 fs (fun f hf => h f (by simp [hf]))]

/-- the world `w` with the info slots replaced -/
def withInfo (w : MWorld) (I : Nat → Info) : MWorld := ⟨{ w.st with vals := setInfo w.st.vals I }, w.root, w.funcs⟩

/-- what the certificate of a model introduces for the main graph is not a truthy-named function value -/
theorem notS_root (w : MWorld) (h : ReloadableM w) (v : Nat) (hv : v ∈ (replG w.st.vals [] w.root).new) :
    inSB w.st.vals w.funcs v = false := by
  obtain ⟨_, hfok, hnd, _⟩ := h
  rw [List.nodup_append] at hnd
  cases hs : inSB w.st.vals w.funcs v with
  | false => rfl
  | true =>
    obtain ⟨ht, f, hf, hvf⟩ := (inSB_iff _ _ _).mp hs
    have := fvals_truthy_new _ f.2 (hfok f hf) v hvf ht
    exact absurd rfl (hnd.2.2 v hv v (List.mem_flatMap.mpr ⟨f, hf, this⟩))

/-- nor is what the node phase of a function's certificate introduces -/
theorem notS_nodes (w : MWorld) (h : ReloadableM w) (k : FId) (gid : Nat) (ins : List Nat) (inits : List (Name × Nat))
    (nodes : List NodeT) (outs : List Nat) (hf : (k, GraphT.mk gid ins inits nodes outs) ∈ w.funcs) (v : Nat)
    (hv : v ∈ (replNs w.st.vals [] (replDecl w.st.vals (tblIns w.st.vals ins)
      (nodes.flatMap (liveOuts w.st.vals))).tbl nodes).new) :
    inSB w.st.vals w.funcs v = false := by
  obtain ⟨_, hfok, hnd, _⟩ := h
  rw [List.nodup_append] at hnd
  cases hs : inSB w.st.vals w.funcs v with
  | false => rfl
  | true =>
    obtain ⟨ht, g, hg, hvg⟩ := (inSB_iff _ _ _).mp hs
    by_cases he : g = (k, GraphT.mk gid ins inits nodes outs)
    · subst he
      exact absurd hv (fvals_truthy_not_nodes _ gid ins inits nodes outs (hfok _ hf)
        (flatMap_nodup_each (fun f => (replF w.st.vals f.2).new) _ hnd.2.1 _ hf) v hvg ht)
    · have h1 := fvals_truthy_new _ g.2 (hfok g hg) v hvg ht
      have h2 : v ∈ (replF w.st.vals (GraphT.mk gid ins inits nodes outs)).new := by
        rw [replF_new_eq]; exact List.mem_append_right _ hv
      exact absurd h2 (flatMap_nodup_disjoint (fun f => (replF w.st.vals f.2).new) _ hnd.2.1 g hg _ hf he v h1)

/-- clearing the info of the truthy-named function values keeps the certificate; `J` is any info that agrees
    with the world outside the function values -/
theorem clear_reloadable (w : MWorld) (h : ReloadableM w) (J : Nat → Info)
    (hJ : ∀ v, (∀ f ∈ w.funcs, v ∉ fvals f.2) → J v = (w.st.vals v).info) :
    ReloadableM (withInfo w (clearI w.st.vals w.funcs J)) := by
  have h0 := h
  obtain ⟨hok, hfok, hnd, hids⟩ := h
  have agree : ∀ v, nameTruthy (w.st.vals v).name = true → inSB w.st.vals w.funcs v = false →
      clearI w.st.vals w.funcs J v = (w.st.vals v).info := by
    intro v ht hs
    simp only [clearI, hs, Bool.false_eq_true, if_false]
    apply hJ
    intro f hf hvf
    have : inSB w.st.vals w.funcs v = true := (inSB_iff _ _ _).mpr ⟨ht, f, hf, hvf⟩
    rw [hs] at this
    cases this
  obtain ⟨r1, r2⟩ := replG_setInfo w.st.vals (clearI w.st.vals w.funcs J) w.root []
    (fun v hv ht => agree v ht (notS_root w h0 v hv))
  have hF : ∀ f ∈ w.funcs, (replF (setInfo w.st.vals (clearI w.st.vals w.funcs J)) f.2).new = (replF w.st.vals f.2).new ∧
      ((replF w.st.vals f.2).ok → (replF (setInfo w.st.vals (clearI w.st.vals w.funcs J)) f.2).ok) := by
    intro f hf
    obtain ⟨k, gid, ins, inits, nodes, outs⟩ := f
    apply replF_setInfo
    · intro a ha b hb ht hn
      simp only [GraphT.inputs] at ha hb
      have sa : inSB w.st.vals w.funcs a = true :=
        (inSB_iff _ _ _).mpr ⟨ht, _, hf, by simp [fvals, GraphT.inputs, ha]⟩
      have sb : inSB w.st.vals w.funcs b = true :=
        (inSB_iff _ _ _).mpr ⟨by rw [← hn]; exact ht, _, hf, by simp [fvals, GraphT.inputs, hb]⟩
      simp only [clearI, sa, sb, if_true]
    · intro v hv ht
      exact agree v ht (notS_nodes w h0 k gid ins inits nodes outs hf v hv)
  refine ⟨r2 hok, fun f hf => (hF f hf).2 (hfok f hf), ?_, hids⟩
  show ((replG (setInfo w.st.vals (clearI w.st.vals w.funcs J)) [] w.root).new ++
    w.funcs.flatMap fun f => (replF (setInfo w.st.vals (clearI w.st.vals w.funcs J)) f.2).new).Nodup
  rw [r1, flatMap_congr_mem _ _ w.funcs (fun f hf => (hF f hf).1)]
  exact hnd

/-- `serializeM` after a change of info slots that spares the values whose information the proto carries:
    same main graph, same functions up to their value_info -/
theorem frame_serializeM (w : MWorld) (J : Nat → Info) (w1 : MWorld) (q : ModelP)
    (hroot : ∀ v ∈ emitG w.st.vals w.root, J v = (w.st.vals v).info)
    (hsub : ∀ f ∈ w.funcs, ∀ v ∈ emitSubNs w.st.vals f.2.nodes, J v = (w.st.vals v).info)
    (hs : serializeM w = .ok (w1, q)) :
    ∃ w2 q2, serializeM (withInfo w J) = .ok (w2, q2) ∧ q2.graph = q.graph ∧ q2.funcs.map eraseF = q.funcs.map eraseF := by
  simp only [serializeM] at hs
  split at hs
  · simp at hs
  · rename_i p ws1 hp
    split at hs
    · simp at hs
    · rename_i fps ws2 hf
      simp only [Except.ok.injEq, Prod.mk.injEq] at hs
      obtain ⟨_, rfl⟩ := hs
      have e1 : serGraph (setInfo w.st.vals J) w.st.tdata w.root = .ok (p, ws1) := by
        rw [serGraph_setInfo _ _ _ _ hroot]; exact hp
      obtain ⟨fps', e2, e3⟩ := serFuncs_setInfo_weak w.st.vals J w.st.tdata w.funcs fps ws2 hsub hf
      have e1' : serGraph (withInfo w J).st.vals (withInfo w J).st.tdata (withInfo w J).root = .ok (p, ws1) := e1
      have e2' : serFuncs (withInfo w J).st.vals (withInfo w J).st.tdata (withInfo w J).funcs = .ok (fps', ws2) := e2
      exact ⟨_, ⟨p, fps'⟩, by simp only [serializeM, e1', e2']; rfl, rfl, e3⟩

/-- a function none of whose values has something to say is written without value_info -/
theorem serFunction_no_vinfo (V : Nat → ValueS) (td : TData) (k : FId) (g : GraphT) (fp : FuncP) (ws : Writes)
    (hq : ∀ v ∈ fvals g, shouldCreate (V v) = false) (hs : serFunction V td (k, g) = .ok (fp, ws)) :
    eraseF fp = fp := by
  obtain ⟨gid, ins, inits, nodes, outs⟩ := g
  obtain ⟨vis1, nps, vis2, hi, hn, _, rfl⟩ := serFunction_inv hs
  obtain ⟨_, _, hv1⟩ := serFInputs_ok V ins _ _ hi
  have hv2 := fun e => mem_serNodes_vi V td [] e nodes nps vis2 ws hn
  have : vis1 ++ vis2 = [] := by
    rw [List.eq_nil_iff_forall_not_mem]
    intro e he
    rw [List.mem_append] at he
    rcases he with he | he
    · obtain ⟨v, hv, hsc, _⟩ := (hv1 e).mp he
      rw [hq v (by simp [fvals, GraphT.inputs, hv])] at hsc
      cases hsc
    · obtain ⟨n, hn', he'⟩ := (hv2 e).mp he
      obtain ⟨v, hv, _, hsc, _⟩ := (mem_outVInfo V [] e n.outputs).mp he'
      rw [hq v (by
        simp only [fvals, GraphT.nodes, List.mem_append, List.mem_flatMap]
        exact .inr ⟨n, hn', hv⟩)] at hsc
      cases hsc
  simp only [eraseF, this]

theorem serFuncs_no_vinfo (V : Nat → ValueS) (td : TData) : ∀ (fs : List (FId × GraphT)) (fps : List FuncP) (ws : Writes),
    (∀ f ∈ fs, ∀ v ∈ fvals f.2, shouldCreate (V v) = false) → serFuncs V td fs = .ok (fps, ws) →
    fps.map eraseF = fps
  | [], fps, ws, _, h => by
    simp only [serFuncs, Except.ok.injEq, Prod.mk.injEq] at h
    obtain ⟨rfl, _⟩ := h
    rfl
  | f :: fs, fps, ws, hq, h => by
    obtain ⟨fp, ws1, fps', ws2, a, b, rfl, _⟩ := serFuncs_inv h
    obtain ⟨k, g⟩ := f
    simp only [List.map_cons, serFunction_no_vinfo V td k g fp ws1 (hq (k, g) (by simp)) a,
      serFuncs_no_vinfo V td fs fps' ws2 (fun f hf => hq f (by simp [hf])) b]

/-- every value_info entry of the serialized main graph carries a reserved name -/
theorem vinfo_reserved (V : Nat → ValueS) (td : TData) (g : GraphT) (p : GraphP) (ws : Writes)
    (hkeys : ∀ kv ∈ g.inits, (V kv.2).name = some kv.1) (hs : serGraph V td g = .ok (p, ws)) :
    ∀ e ∈ p.vinfo, e.name ∈ reservedNames V g := by
  obtain ⟨gid, ins, inits, nodes, outs⟩ := g
  obtain ⟨nps, vis2, ws2, hn, rfl⟩ := serGraph_inv hs
  intro e he
  simp only [GraphP.vinfo, List.mem_append] at he
  rw [reservedNames_eq, List.mem_append]
  rcases he with he | he
  · right
    obtain ⟨kv, hkv, hsc, _, rfl⟩ := (mem_serInits_vi V td _ e inits).mp he
    have hk := hkeys kv hkv
    have ht : nameTruthy (V kv.2).name = true := by
      simp only [shouldCreate, Bool.and_eq_true] at hsc; exact hsc.2
    have hnm : nm V kv.2 = kv.1 := nm_of_name hk
    simp only [List.mem_filter, List.mem_map, hnm]
    refine ⟨⟨kv, hkv, rfl⟩, ?_⟩
    rw [hk] at ht
    simpa [nameTruthy] using ht
  · left
    obtain ⟨n, hn', he'⟩ := (mem_serNodes_vi V td outs e nodes nps vis2 ws2 hn).mp he
    obtain ⟨v, hv, _, hsc, rfl⟩ := (mem_outVInfo V outs e n.outputs).mp he'
    have ht : nameTruthy (V v).name = true := by
      simp only [shouldCreate, Bool.and_eq_true] at hsc; exact hsc.2
    obtain ⟨h1, h2⟩ := name_some_of_truthy ht
    simp only [List.mem_filterMap, List.mem_flatMap, List.mem_append]
    refine ⟨v, ⟨n, hn', .inr hv⟩, ?_⟩
    simp only [nameNE, h1, h2, if_false]

theorem hkeys_of_ok (V : Nat → ValueS) (g : GraphT) (outer : List Table) (hok : (replG V outer g).ok) :
    ∀ kv ∈ g.inits, (V kv.2).name = some kv.1 := by
  obtain ⟨gid, ins, inits, nodes, outs⟩ := g
  simp only [replG] at hok
  have key : ∀ (l : List (Name × Nat)) (T : Table), (replInits V outs T l).ok → ∀ kv ∈ l, (V kv.2).name = some kv.1 := by
    intro l
    induction l with
    | nil => intro _ _ kv hkv; simp at hkv
    | cons a r ih =>
      intro T hok kv hkv
      obtain ⟨k, v⟩ := a
      simp only [replInits] at hok
      simp only [List.mem_cons] at hkv
      split at hok
      · rcases hkv with rfl | hkv
        · exact hok.1.1
        · exact ih _ hok.2.2 kv hkv
      · rcases hkv with rfl | hkv
        · exact hok.1.1
        · exact ih _ hok.2.2 kv hkv
  exact key inits _ hok.2.2.1

end IrVerif.Scope

/-
C14 (wave 5): AddDefaultAttributesPass - flag honesty, idempotence, measure (Model/PassFlags4.lean).
-/
import IrVerif.Model.PassFlags4
namespace IrVerif.PassFlags4

theorem hasAttr_append (attrs : List (String × Nat)) (k : String) (v : Nat) (k' : String) :
    hasAttr (attrs ++ [(k, v)]) k' = (hasAttr attrs k' || decide (k = k')) := by
  simp [hasAttr]

theorem addStep_flag_mono (p : List (String × Nat) × Bool) (d : AttrDef) (h : p.2 = true) : (addStep p d).2 = true := by
  unfold addStep; split
  · exact h
  · split
    · exact h
    · rfl

theorem foldl_flag_mono : ∀ (ds : List AttrDef) (p : List (String × Nat) × Bool), p.2 = true → (ds.foldl addStep p).2 = true
  | [], _, h => h
  | d :: ds, p, h => foldl_flag_mono ds (addStep p d) (addStep_flag_mono p d h)

/-- no absent default: the loop does nothing -/
theorem foldl_noop : ∀ (ds : List AttrDef) (p : List (String × Nat) × Bool),
    (∀ d ∈ ds, absentB p.1 d = false) → ds.foldl addStep p = p
  | [], _, _ => rfl
  | d :: ds, p, h => by
    have hd := h d List.mem_cons_self
    have : addStep p d = p := by
      unfold addStep
      simp only [absentB, Bool.and_eq_false_iff, Bool.not_eq_false', Bool.not_eq_eq_eq_not, Bool.not_true] at hd
      split
      · rfl
      · rename_i hc
        simp only [Bool.or_eq_true, not_or, Bool.not_eq_true] at hc
        rcases hd with (hd | hd) | hd
        · rw [hd] at hc; simp at hc
        · rw [hd] at hc; simp at hc
        · cases hdd : d.default with
          | none => rfl
          | some v => rw [hdd] at hd; simp at hd
    simp only [List.foldl_cons, this]
    exact foldl_noop ds p (fun d' hd' => h d' (List.mem_cons_of_mem _ hd'))

/-- the flag stays down only when nothing was added -/
theorem foldl_flag_false : ∀ (ds : List AttrDef) (p : List (String × Nat) × Bool),
    (ds.foldl addStep p).2 = false → ds.foldl addStep p = p
  | [], _, _ => rfl
  | d :: ds, p, h => by
    simp only [List.foldl_cons] at h ⊢
    have h1 : (addStep p d).2 = false := by
      cases hb : (addStep p d).2 with
      | false => rfl
      | true => rw [foldl_flag_mono ds _ hb] at h; simp at h
    have h2 : addStep p d = p := by
      unfold addStep at h1 ⊢
      split
      · rfl
      · rename_i hc
        simp only [hc] at h1
        cases hdd : d.default with
        | none => rfl
        | some v => simp [hdd] at h1
    rw [h2] at h ⊢
    exact foldl_flag_false ds p h

/-- absence only shrinks along the loop -/
theorem addStep_absent_mono (p : List (String × Nat) × Bool) (d d' : AttrDef) (h : absentB p.1 d' = false) :
    absentB (addStep p d).1 d' = false := by
  unfold addStep; split
  · exact h
  · split
    · exact h
    · simp only [absentB, hasAttr_append] at h ⊢
      cases hr : d'.required <;> cases hh : hasAttr p.1 d'.name <;> cases hd : d'.default.isSome <;> simp_all

theorem foldl_absent_mono : ∀ (ds : List AttrDef) (p : List (String × Nat) × Bool) (d' : AttrDef),
    absentB p.1 d' = false → absentB (ds.foldl addStep p).1 d' = false
  | [], _, _, h => h
  | d :: ds, p, d', h => foldl_absent_mono ds (addStep p d) d' (addStep_absent_mono p d d' h)

theorem addStep_self (p : List (String × Nat) × Bool) (d : AttrDef) : absentB (addStep p d).1 d = false := by
  unfold addStep; split
  · rename_i hc
    simp only [Bool.or_eq_true] at hc
    rcases hc with hc | hc <;> simp [absentB, hc]
  · split
    · rename_i hn; simp [absentB, hn]
    · simp [absentB, hasAttr_append]

/-- after the loop nothing is absent -/
theorem foldl_complete : ∀ (ds : List AttrDef) (p : List (String × Nat) × Bool),
    ∀ d ∈ ds, absentB (ds.foldl addStep p).1 d = false
  | [], _, _, h => by simp at h
  | d :: ds, p, d', h => by
    simp only [List.foldl_cons]
    rcases List.mem_cons.1 h with rfl | h
    · exact foldl_absent_mono ds _ _ (addStep_self p _)
    · exact foldl_complete ds _ d' h

theorem defsOf_attrs (tbl : SchemaTable) (imports : List (String × Nat)) (n : ANode) (a : List (String × Nat)) :
    defsOf tbl imports { n with attrs := a } = defsOf tbl imports n := rfl

theorem addNode_flag_false (tbl : SchemaTable) (imports : List (String × Nat)) (n : ANode)
    (h : (addNode tbl imports n).2 = false) : (addNode tbl imports n).1 = n := by
  unfold addNode at h ⊢
  simp only [] at h ⊢
  rw [foldl_flag_false _ _ h]

theorem absentNode_after (tbl : SchemaTable) (imports : List (String × Nat)) (n : ANode) :
    absentNode tbl imports (addNode tbl imports n).1 = 0 := by
  unfold absentNode addNode
  simp only [defsOf_attrs, List.length_eq_zero_iff, List.filter_eq_nil_iff, Bool.not_eq_true]
  exact fun d hd => foldl_complete _ _ d hd

theorem addNode_flag_iff (tbl : SchemaTable) (imports : List (String × Nat)) (n : ANode) :
    (addNode tbl imports n).2 = false ↔ absentNode tbl imports n = 0 := by
  constructor
  · intro h
    have := absentNode_after tbl imports n
    rw [addNode_flag_false tbl imports n h] at this
    exact this
  · intro h
    unfold absentNode at h
    simp only [List.length_eq_zero_iff, List.filter_eq_nil_iff, Bool.not_eq_true] at h
    unfold addNode
    simp only []
    rw [foldl_noop _ _ h]

theorem addNode_idem (tbl : SchemaTable) (imports : List (String × Nat)) (n : ANode) :
    addNode tbl imports (addNode tbl imports n).1 = ((addNode tbl imports n).1, false) := by
  have h0 := (addNode_flag_iff tbl imports (addNode tbl imports n).1).2 (absentNode_after tbl imports n)
  exact Prod.ext (addNode_flag_false tbl imports _ h0) h0

theorem addDefaults_flag_false (tbl : SchemaTable) (imports : List (String × Nat)) (ns : List ANode)
    (h : (addDefaults tbl imports ns).2 = false) : (addDefaults tbl imports ns).1 = ns := by
  unfold addDefaults at h ⊢
  simp only [List.any_eq_false, Bool.not_eq_true] at h ⊢
  conv => rhs; rw [← List.map_id ns]
  exact List.map_congr_left (fun n hn => addNode_flag_false tbl imports n (h n hn))

theorem absentCount_after (tbl : SchemaTable) (imports : List (String × Nat)) (ns : List ANode) :
    absentCount tbl imports (addDefaults tbl imports ns).1 = 0 := by
  unfold absentCount addDefaults
  simp only [List.map_map]
  induction ns with
  | nil => rfl
  | cons n ns ih => simp [absentNode_after, ih]

theorem addDefaults_flag_iff (tbl : SchemaTable) (imports : List (String × Nat)) (ns : List ANode) :
    (addDefaults tbl imports ns).2 = false ↔ absentCount tbl imports ns = 0 := by
  constructor
  · intro h
    have := absentCount_after tbl imports ns
    rw [addDefaults_flag_false tbl imports ns h] at this
    exact this
  · intro h
    unfold addDefaults; simp only [List.any_eq_false, Bool.not_eq_true]
    intro n hn
    refine (addNode_flag_iff tbl imports n).2 ?_
    unfold absentCount at h
    have : ∀ (l : List Nat), l.sum = 0 → ∀ x ∈ l, x = 0 := by
      intro l; induction l with
      | nil => intro _ x hx; simp at hx
      | cons a l ih =>
        intro hs x hx
        simp only [List.sum_cons] at hs
        rcases List.mem_cons.1 hx with rfl | hx
        · omega
        · exact ih (by omega) x hx
    exact this _ h _ (List.mem_map_of_mem hn)

theorem addDefaults_idem (tbl : SchemaTable) (imports : List (String × Nat)) (ns : List ANode) :
    addDefaults tbl imports (addDefaults tbl imports ns).1 = ((addDefaults tbl imports ns).1, false) := by
  have h0 := (addDefaults_flag_iff tbl imports (addDefaults tbl imports ns).1).2 (absentCount_after tbl imports ns)
  exact Prod.ext (addDefaults_flag_false tbl imports _ h0) h0

end IrVerif.PassFlags4

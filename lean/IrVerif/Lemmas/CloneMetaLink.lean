import IrVerif.Lemmas.CloneMeta
import IrVerif.Lemmas.CloneWire
/-! # The link between `IrVerif.Clone.Meta` and the `mstore` cells of `IrVerif.Clone` (round 6)

In the heap model `IrVerif.Clone` a `meta` store is a `dict` cell whose values are opaque atoms
(`String`): what the harness sends there is `str(value)`, i.e. what printing can see of the stored
object, NOT its identity.  `IrVerif.Clone.Meta` keeps the identities (a heap of `list` / `dict`
cells).  The two are tied here by

* the ABSTRACTION `absStore enc k h st`: the `DictS` whose value for a key is `enc` of the unfolding
  (`Meta.obs`, depth `k`) of the stored value in the Python heap `h` (`enc`, `k` arbitrary);
* the EMBEDDING `embStore d`: the `Meta.Store` holding the atoms of `d` (a section of the
  abstraction: `absStore enc k h (embStore d) = d` whenever `enc (.atom s) = s`).

`copyMeta_refines`: the one call of the cloner where `deep_copy` acts commutes with the abstraction,
for BOTH values of the flag.  `refines_all`: so does every family of (source store, clone store)
cell pairs with equal content (`MetaSim`: what the wiring image `GraphWire` gives for every owner
pair of a clone), in every order, with the Python heap threaded as `cloneMetaAll` does. -/
namespace IrVerif.Clone.MetaLink
open IrVerif.Clone.Meta

/-- the embedding of a main-model store: its atoms -/
def embStore (d : DictS) : Store :=
  { data := d.data.map fun e => (e.1, PyVal.atom e.2), invalid := d.invalid }

/-- the abstraction of a refined store: per key what can be seen of the value (identities are not
    visible), encoded by `enc`; a dangling reference yields the empty store -/
def absStore (enc : Tree → String) (k : Nat) (h : PyHeap) (st : Store) : DictS :=
  match obsStore k h st with
  | (some kts, inv) => { data := kts.map fun e => (e.1, enc e.2), invalid := inv }
  | (none, inv) => { data := [], invalid := inv }

/-- no value of the store is a dangling reference (`storeOkB`) -/
def StoreOk (h : PyHeap) (st : Store) : Prop := ∀ e ∈ st.data, Faithful.SrcOk h e.2

theorem StoreOk.mono {h h2 : PyHeap} {st : Store} (hs : StoreOk h st) (hl : h.length ≤ h2.length) :
    StoreOk h2 st := by
  intro e he j hj
  have := hs e he j hj
  omega

theorem storeOk_of_B {h : PyHeap} {st : Store} (hb : storeOkB h st = true) : StoreOk h st := by
  intro e he j hj
  exact Meta.storeOk_of_B hb e.1 j (by rw [← hj]; exact he)

theorem absStore_congr (enc : Tree → String) {k : Nat} {h h' : PyHeap} {st st' : Store}
    (he : obsStore k h' st' = obsStore k h st) : absStore enc k h' st' = absStore enc k h st := by
  unfold absStore
  rw [he]

/-! ## the embedding is a section of the abstraction -/

theorem optAll_map_some {α β : Type} (f : α → β) : ∀ xs : List α,
    optAll (xs.map fun x => some (f x)) = some (xs.map f)
  | [] => rfl
  | x :: xs => by simp [optAll, optAll_map_some f xs]

theorem zip_map_map {α β γ : Type} (f : α → β) (g : α → γ) : ∀ xs : List α,
    (xs.map f).zip (xs.map g) = xs.map fun x => (f x, g x)
  | [] => rfl
  | x :: xs => by simp [zip_map_map f g xs]

theorem absStore_embStore (enc : Tree → String) (henc : ∀ s, enc (.atom s) = s) (k : Nat)
    (h : PyHeap) (d : DictS) : absStore enc k h (embStore d) = d := by
  have h1 : (embStore d).data.map (fun e => obs k h e.2) = d.data.map fun e => some (Tree.atom e.2) := by
    simp only [embStore, List.map_map]
    apply List.map_congr_left
    intro e _
    cases k <;> simp [obs]
  have h2 : (embStore d).data.map (·.1) = d.data.map (·.1) := by
    simp [embStore, List.map_map, Function.comp_def]
  unfold absStore obsStore
  rw [h1, h2, optAll_map_some]
  simp only [Option.map_some, zip_map_map, List.map_map]
  cases d with
  | mk data invalid =>
    simp only [embStore, DictS.mk.injEq, and_true]
    conv => rhs; rw [← List.map_id data]
    apply List.map_congr_left
    intro e _
    simp [henc]

/-- deep or shallow, `clone_meta` of an embedded store is the embedded store and allocates nothing -/
theorem cloneData_atoms (b : Bool) (fuel : Nat) (h : PyHeap) : ∀ (d : List (String × String)),
    cloneData b fuel (d.map fun e => (e.1, PyVal.atom e.2)) h =
      .ok (d.map fun e => (e.1, PyVal.atom e.2), h)
  | [] => rfl
  | e :: d => by
    have ih := cloneData_atoms b fuel h d
    cases b
    · simp [cloneData, ih]
    · cases fuel <;> simp [cloneData, deepcopy, dc, ih]

theorem cloneMeta_embStore (b : Bool) (fuel : Nat) (h : PyHeap) (d : DictS) :
    cloneMeta b fuel (embStore d) h = .ok (embStore d, h) := by
  simp [cloneMeta, embStore, cloneData_atoms]

theorem cloneMetaAll_embStore (b : Bool) (fuel : Nat) (h : PyHeap) : ∀ ds : List DictS,
    cloneMetaAll b fuel (ds.map embStore) h = .ok (ds.map embStore, h)
  | [] => rfl
  | d :: ds => by simp [cloneMetaAll, cloneMeta_embStore, cloneMetaAll_embStore b fuel h ds]

/-! ## `clone_meta` and the abstraction -/

theorem cloneData_closed (fuel : Nat) :
    ∀ (data data' : List (String × PyVal)) (h h' : PyHeap), Faithful.Closed h →
      (∀ e ∈ data, Faithful.SrcOk h e.2) → cloneData true fuel data h = .ok (data', h') →
      Faithful.Closed h' ∧ (∀ e ∈ data', Faithful.SrcOk h' e.2) ∧ h.length ≤ h'.length := by
  intro data
  induction data with
  | nil =>
    intro data' h h' hwf _ hc
    simp only [cloneData, Except.ok.injEq, Prod.mk.injEq] at hc
    obtain ⟨rfl, rfl⟩ := hc
    exact ⟨hwf, fun e he => (by cases he), Nat.le_refl _⟩
  | cons e rest ih =>
    intro data' h h' hwf hst hc
    obtain ⟨key, v⟩ := e
    simp only [cloneData, if_true] at hc
    split at hc
    · cases hc
    · rename_i v' h1 hd
      split at hc
      · cases hc
      · rename_i rest' h2 hr
        simp only [Except.ok.injEq, Prod.mk.injEq] at hc
        obtain ⟨rfl, rfl⟩ := hc
        obtain ⟨hlen, _, hwf1, hv'⟩ := Faithful.deepcopy_frame fuel v v' h h1 hwf hd
        have hst1 : ∀ e ∈ rest, Faithful.SrcOk h1 e.2 := by
          intro e he j hj
          have := hst e (List.mem_cons_of_mem _ he) j hj
          omega
        obtain ⟨hwf2, hok2, hlen2⟩ := ih rest' h1 h2 hwf1 hst1 hr
        refine ⟨hwf2, ?_, by omega⟩
        intro e he
        rcases List.mem_cons.1 he with rfl | he
        · intro j hj
          have := hv' j hj
          omega
        · exact hok2 e he

/-- what one `clone_meta` call does to a closed heap, for both values of `deep_copy` -/
theorem cloneMeta_link (b : Bool) (fuel : Nat) (st st' : Store) (h h' : PyHeap)
    (hwf : Faithful.Closed h) (hst : StoreOk h st) (hc : cloneMeta b fuel st h = .ok (st', h')) :
    Faithful.Closed h' ∧ StoreOk h' st' ∧ h.length ≤ h'.length ∧
    (∀ i, i < h.length → h'[i]? = h[i]?) ∧ ∀ k, obsStore k h' st' = obsStore k h st := by
  cases b with
  | false =>
    obtain ⟨st2, h2, hd, hi⟩ := shallow_meta_shared fuel st h
    rw [h2] at hc
    simp only [Except.ok.injEq, Prod.mk.injEq] at hc
    obtain ⟨rfl, rfl⟩ := hc
    refine ⟨hwf, ?_, Nat.le_refl _, fun _ _ => rfl, fun k => by simp only [obsStore, hd, hi]⟩
    intro e he
    exact hst e (hd ▸ he)
  | true =>
    have hf := Faithful.deep_copy_meta_faithful fuel st st' h h' hwf hst hc
    unfold cloneMeta at hc
    split at hc
    · cases hc
    · rename_i d h2 hd
      simp only [Except.ok.injEq, Prod.mk.injEq] at hc
      obtain ⟨rfl, rfl⟩ := hc
      obtain ⟨hc1, hc2, _⟩ := cloneData_closed fuel st.data d h h2 hwf hst hd
      obtain ⟨_, hlen, hpre, _⟩ := Faithful.cloneData_faithful fuel st.data d h h2 hwf hst hd
      exact ⟨hc1, hc2, hlen, hpre, hf⟩

theorem obsStore_ext {h h2 : PyHeap} (hwf : Faithful.Closed h)
    (hpre : ∀ i, i < h.length → h2[i]? = h[i]?) {st : Store} (hst : StoreOk h st) (k : Nat) :
    obsStore k h2 st = obsStore k h st := by
  have : st.data.map (fun e => obs k h2 e.2) = st.data.map (fun e => obs k h e.2) :=
    List.map_congr_left fun e he => Faithful.obs_ext hwf hpre k e.2 (hst e he)
  simp only [obsStore, this]

theorem all2_imp_mem {α β : Type} {R S : α → β → Prop} :
    ∀ {xs : List α} {ys : List β}, All2 R xs ys → (∀ x ∈ xs, ∀ y, R x y → S x y) → All2 S xs ys
  | _, _, .nil, _ => .nil
  | _, _, .cons r rs, f =>
    .cons (f _ (List.mem_cons_self ..) _ r) (all2_imp_mem rs fun x hx => f x (List.mem_cons_of_mem _ hx))

/-- all the stores of a clone, the Python heap threaded: closedness, frame, and every clone store
    observes (in the FINAL heap) like its source (in the INITIAL heap) -/
theorem cloneMetaAll_link (b : Bool) (fuel : Nat) :
    ∀ (ss ss' : List Store) (h h' : PyHeap), Faithful.Closed h → (∀ s ∈ ss, StoreOk h s) →
      cloneMetaAll b fuel ss h = .ok (ss', h') →
      Faithful.Closed h' ∧ h.length ≤ h'.length ∧ (∀ i, i < h.length → h'[i]? = h[i]?) ∧
      (∀ s' ∈ ss', StoreOk h' s') ∧
      All2 (fun s s' => ∀ k, obsStore k h' s' = obsStore k h s) ss ss' := by
  intro ss
  induction ss with
  | nil =>
    intro ss' h h' hwf _ hc
    simp only [cloneMetaAll, Except.ok.injEq, Prod.mk.injEq] at hc
    obtain ⟨rfl, rfl⟩ := hc
    exact ⟨hwf, Nat.le_refl _, fun _ _ => rfl, fun s hs => (by cases hs), .nil⟩
  | cons s rest ih =>
    intro ss' h h' hwf hok hc
    simp only [cloneMetaAll] at hc
    split at hc
    · cases hc
    · rename_i s1 h1 h1e
      split at hc
      · cases hc
      · rename_i rest' h2 h2e
        simp only [Except.ok.injEq, Prod.mk.injEq] at hc
        obtain ⟨rfl, rfl⟩ := hc
        obtain ⟨hwf1, hok1, hlen1, hpre1, hobs1⟩ :=
          cloneMeta_link b fuel s s1 h h1 hwf (hok s (List.mem_cons_self ..)) h1e
        have hokr : ∀ s ∈ rest, StoreOk h1 s := fun s hs =>
          (hok s (List.mem_cons_of_mem _ hs)).mono hlen1
        obtain ⟨hwf2, hlen2, hpre2, hok2, hall⟩ := ih rest' h1 h2 hwf1 hokr h2e
        refine ⟨hwf2, by omega, ?_, ?_, .cons ?_ ?_⟩
        · intro i hi
          rw [hpre2 i (by omega), hpre1 i hi]
        · intro s' hs'
          rcases List.mem_cons.1 hs' with rfl | hs'
          · exact hok1.mono hlen2
          · exact hok2 s' hs'
        · intro k
          rw [obsStore_ext hwf1 hpre2 hok1 k, hobs1 k]
        · refine all2_imp_mem hall fun s hs s' r k => ?_
          rw [r k, obsStore_ext hwf hpre1 (hok s (List.mem_cons_of_mem _ hs)) k]

/-! ## the commuting squares -/

/-- **one call.**  `Cloner.clone_meta(old, new, deep_copy=b)` of `IrVerif.Clone.Meta`, followed by the
    abstraction, is `copyMeta` of `IrVerif.Clone` on the abstraction: when the source cell holds
    the abstraction of the refined source store, the new cell holds the abstraction of the refined
    clone store in the heap AFTER the (deep or shallow) copy. -/
theorem copyMeta_refines (b : Bool) (fuel : Nat) (enc : Tree → String) (k : Nat)
    (st st' : Store) (h h' : PyHeap) (hwf : HeapClosed h) (hst : StoreOk h st)
    (hc : cloneMeta b fuel st h = .ok (st', h')) (s : St) (old : Nat)
    (hold : s.w[old]? = some (.dict (absStore enc k h st))) :
    copyMeta old s = (.ok s.w.length, { s with w := s.w ++ [.dict (absStore enc k h' st')] }) := by
  obtain ⟨_, _, _, _, hobs⟩ := cloneMeta_link b fuel st st' h h' hwf hst hc
  rw [absStore_congr enc (hobs k)]
  show M.bind (readDict old) (fun (d : DictS) => alloc (.dict { data := d.data, invalid := d.invalid })) s = _
  simp only [M.bind, readDict, hold, alloc]

theorem all2_of_map {α : Type} {f : α → Store} {R : Store → Store → Prop} {Q : α → Prop}
    {S : α → Store → Prop} (hS : ∀ p s', Q p → R (f p) s' → S p s') :
    ∀ {ps : List α} {ss' : List Store}, All2 R (ps.map f) ss' → (∀ p ∈ ps, Q p) → All2 S ps ss'
  | [], _, h, _ => by cases h; exact .nil
  | p :: ps, _, h, hq => by
    cases h with
    | cons r rs =>
      exact .cons (hS p _ (hq p (List.mem_cons_self ..)) r)
        (all2_of_map hS rs fun p hp => hq p (List.mem_cons_of_mem _ hp))

theorem dict_eq_of_sim {x x' : DictS} (hd : x'.data = x.data) (hi : x'.invalid = x.invalid) : x' = x := by
  cases x; cases x'; simp_all

/-- **a whole clone.**  `ps`: pairs (source `meta` store cell, clone `meta` store cell) with equal
    content in the heap `w'` after cloning - for the clones of `IrVerif.Clone` every owner pair of
    the wiring image is one - in ANY order; `σ`: the refined content of the source cells in a closed
    Python heap `h`, consistent with the main heap `w` before cloning through the abstraction.
    Then `cloneMetaAll b` on the refined sources yields refined clone stores whose abstraction in the
    final Python heap is exactly what the main model put into the clone's cells; the sources stay
    consistent in the final Python heap, which is closed again. -/
theorem refines_all (b : Bool) (fuel : Nat) (enc : Tree → String) (k : Nat) {w w' : World}
    (hle : CoreLe w w') (ps : List (Nat × Nat)) (hps : ∀ p ∈ ps, MetaSim w' p.1 p.2)
    (σ : Nat → Store) (h : PyHeap) (hwf : HeapClosed h) (hok : ∀ p ∈ ps, StoreOk h (σ p.1))
    (hcons : ∀ p ∈ ps, cDict w p.1 = some (absStore enc k h (σ p.1)))
    (ss' : List Store) (h' : PyHeap)
    (hc : cloneMetaAll b fuel (ps.map fun p => σ p.1) h = .ok (ss', h')) :
    All2 (fun p st' => cDict w' p.2 = some (absStore enc k h' st')) ps ss' ∧
    (∀ p ∈ ps, cDict w' p.1 = some (absStore enc k h' (σ p.1))) ∧
    HeapClosed h' ∧ (∀ s' ∈ ss', StoreOk h' s') ∧
    h.length ≤ h'.length ∧ (∀ i, i < h.length → h'[i]? = h[i]?) := by
  have hok' : ∀ s ∈ ps.map (fun p => σ p.1), StoreOk h s := by
    intro s hs
    obtain ⟨p, hp, rfl⟩ := List.mem_map.1 hs
    exact hok p hp
  obtain ⟨hwf', hlen, hpre, hok2, hall⟩ := cloneMetaAll_link b fuel _ ss' h h' hwf hok' hc
  refine ⟨?_, ?_, hwf', hok2, hlen, hpre⟩
  · refine all2_of_map (Q := fun p => p ∈ ps) ?_ hall (fun p hp => hp)
    intro p s' hp hr
    obtain ⟨x, x', hx, hx', hd, hi⟩ := hps p hp
    have h1 := cDict_mono hle (hcons p hp)
    rw [hx] at h1
    rw [hx', dict_eq_of_sim hd hi, Option.some.inj h1, absStore_congr enc (hr k)]
  · intro p hp
    rw [cDict_mono hle (hcons p hp), absStore_congr enc (obsStore_ext hwf hpre (hok p hp) k)]

/-- the frame part for `deep_copy=True`: after ANY history of in-place edits of objects reached
    from the clone's stores the refined sources still abstract to the same main-model cells -/
theorem frame_all (fuel : Nat) (enc : Tree → String) (k : Nat) (ss ss' : List Store)
    (h h' : PyHeap) (hwf : HeapClosed h) (hc : cloneMetaAll true fuel ss h = .ok (ss', h'))
    (es : List PyEdit) (hh : ReachHistory (rootsOf ss') es h') (st : Store) (hst : StoreOk h st) :
    absStore enc k (runPyHistory es h') st = absStore enc k h st := by
  obtain ⟨_, hobs⟩ := deep_copy_meta_frame_all fuel ss ss' h h' hc es hh
  apply absStore_congr
  have : st.data.map (fun e => obs k (runPyHistory es h') e.2) = st.data.map (fun e => obs k h e.2) := by
    apply List.map_congr_left
    intro e he
    apply hobs e.2 _ k
    apply reach_closed hwf
    intro j hj
    simp only [List.mem_singleton] at hj
    exact hst e he j hj.symm
  simp only [obsStore, this]

/-! ## the `meta` store cells of a clone of `IrVerif.Clone` -/

/-- the `meta` store of an owner (value, node, graph) -/
def mstoreOf (w : World) (o : Nat) : Option Nat :=
  match coreAt w o with
  | some (.val v) => some v.mstore
  | some (.node n) => some n.mstore
  | some (.graph g) => some g.mstore
  | _ => none

/-- `o'` is the clone of the owner `o` in the wiring image of a clone (`C13_wiring_image`): a pair of
    the cloner's value map, a pair of `NodeWire`-related nodes or of `GraphWire`-related graphs (at any
    nesting depth: the relations are stated for the nested graphs too).  `GraphWire g g'` describes
    `g'` completely (its inputs, initializers and outputs are images under the value map, its nodes
    are `NodeWire`-related position by position, the graphs its attributes hold are `GraphWire`
    related), so every owner of a clone is the second component of such a pair. -/
inductive WiredOwner (allow : Bool) (w : World) (vm : List (Nat × Nat)) : Nat → Nat → Prop
  | value {v v' : Nat} : (v, v') ∈ vm → ValSim w v v' → WiredOwner allow w vm v v'
  | node {n n' : Nat} : NodeWire allow w vm n n' → WiredOwner allow w vm n n'
  | graph {g g' : Nat} : GraphWire allow w vm g g' → WiredOwner allow w vm g g'

theorem mstoreOf_val {w : World} {v : Nat} {vs : ValueS} (h : cVal w v = some vs) :
    mstoreOf w v = some vs.mstore := by
  unfold cVal at h
  unfold mstoreOf
  split at h <;> simp_all

theorem mstoreOf_node {w : World} {v : Nat} {vs : NodeS} (h : cNode w v = some vs) :
    mstoreOf w v = some vs.mstore := by
  unfold cNode at h
  unfold mstoreOf
  split at h <;> simp_all

theorem mstoreOf_graph {w : World} {v : Nat} {vs : GraphS} (h : cGraph w v = some vs) :
    mstoreOf w v = some vs.mstore := by
  unfold cGraph at h
  unfold mstoreOf
  split at h <;> simp_all

theorem vinfo_mstore {w : World} {v : Nat} {i : VInfo} (h : vinfo w v = some i) :
    ∃ vs m, cVal w v = some vs ∧ cDict w vs.mstore = some m ∧ m.data = i.mdata ∧
      m.invalid = i.minvalid := by
  unfold vinfo at h
  split at h
  · cases h
  · rename_i vs hvs
    split at h
    · rename_i ty sh p m _ _ _ hm
      cases h
      exact ⟨vs, m, hvs, hm, rfl, rfl⟩
    · cases h

/-- the stores of a wired owner pair have equal content (in the heap after cloning) -/
theorem WiredOwner.metaSim {allow : Bool} {w : World} {vm : List (Nat × Nat)} {o o' : Nat}
    (h : WiredOwner allow w vm o o') :
    ∃ c c', mstoreOf w o = some c ∧ mstoreOf w o' = some c' ∧ MetaSim w c c' := by
  cases h with
  | value _ hs =>
    obtain ⟨i, h1, h2⟩ := hs
    obtain ⟨vs, m, hv, hm, hd, hi⟩ := vinfo_mstore h1
    obtain ⟨vs', m', hv', hm', hd', hi'⟩ := vinfo_mstore h2
    exact ⟨_, _, mstoreOf_val hv, mstoreOf_val hv', m, m', hm, hm', by rw [hd, hd'], by rw [hi, hi']⟩
  | node hn =>
    cases hn with
    | mk n n' ns ns' na h1 h2 _ _ _ _ _ _ _ _ _ _ _ hm _ =>
      exact ⟨_, _, mstoreOf_node h1, mstoreOf_node h2, hm⟩
  | graph hg =>
    cases hg with
    | mk g g' gs gs' inits' h1 h2 _ _ _ _ _ _ _ _ _ _ hm =>
      exact ⟨_, _, mstoreOf_graph h1, mstoreOf_graph h2, hm⟩

/-- the store cell pairs of a list of wired owner pairs -/
theorem wired_pairs {allow : Bool} {w : World} {vm : List (Nat × Nat)} :
    ∀ (os : List (Nat × Nat)), (∀ o ∈ os, WiredOwner allow w vm o.1 o.2) →
      ∃ ps : List (Nat × Nat),
        All2 (fun o p => mstoreOf w o.1 = some p.1 ∧ mstoreOf w o.2 = some p.2) os ps ∧
        ∀ p ∈ ps, MetaSim w p.1 p.2
  | [], _ => ⟨[], .nil, fun p hp => by cases hp⟩
  | o :: os, h => by
    obtain ⟨ps, h1, h2⟩ := wired_pairs os fun o ho => h o (List.mem_cons_of_mem _ ho)
    obtain ⟨c, c', hc, hc', hm⟩ := (h o (List.mem_cons_self ..)).metaSim
    refine ⟨(c, c') :: ps, .cons ⟨hc, hc'⟩ h1, ?_⟩
    intro p hp
    rcases List.mem_cons.1 hp with rfl | hp
    · exact hm
    · exact h2 p hp

end IrVerif.Clone.MetaLink

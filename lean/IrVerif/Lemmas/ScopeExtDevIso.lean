/-
The sharding values of the node device configurations are preserved BY IDENTITY by the round trip of the extended
model: from the trace `DevTrG` (`Lemmas/ScopeExtDevTr.lean`, exported by the lock-step induction `rtE_graph`) and
the source-side certificate `DevCertG` (every sharding value resolves, in the scope tables of `replG` at its node,
to itself / a fresh name is unbound there), when the device configurations are written (IR version gate open).

* `ShardV.mapσ` / `DevR.mapσ`: the renaming of a configuration;
* `DevCertG V x outer g`: the certificate, along the tables of `replG`;
* `DevIsoG x x' σ g g'`: node by node, `x'.devs i' = (x.devs i).map (DevR.mapσ σ)`;
* `devIso_graph`: trace + certificate + serialization succeeded + gate open ⟹ `DevIsoG`.
-/
import IrVerif.Lemmas.ScopeExtDevTr
import IrVerif.Lemmas.ScopeExtSer
namespace IrVerif.Scope

/-- the renaming of a sharding value -/
def ShardV.mapσ (σ : Nat → Nat) : ShardV → ShardV
  | .none => .none
  | .val v => .val (σ v)
  | .fresh n => .fresh n

/-- the renaming of a device configuration -/
def DevR.mapσ (σ : Nat → Nat) (d : DevR) : DevR := ⟨d.cfg, d.stage, d.specs.map fun s => (s.1.mapσ σ, s.2)⟩

/-- every sharding value of the configurations `ds` is what its written name resolves to in `scopes` -/
def DevsCert (V : Nat → ValueS) (scopes : List Table) (ds : List DevR) : Prop :=
  ∀ d ∈ ds, ∀ s ∈ d.specs,
    (∀ v, s.1 = .val v → nameTruthy (V v).name = true ∧ resolve (nm V v) scopes = some v) ∧
    (∀ n, s.1 = .fresh n → n ≠ "" ∧ resolve n scopes = none)

mutual
/-- the source-side certificate of the device configurations, along the tables of `replG` -/
def DevCertG (V : Nat → ValueS) (x : Ext) (outer : List Table) : GraphT → Prop
  | .mk _ ins inits nodes outs =>
    DevCertNs V x outer (replDecl V (replInits V outs (tblIns V ins) inits).tbl (nodes.flatMap (liveOuts V))).tbl nodes
def DevCertNs (V : Nat → ValueS) (x : Ext) (outer : List Table) : Table → List NodeT → Prop
  | _, [] => True
  | T, n :: ns => DevCertN V x outer T n ∧ DevCertNs V x outer (replN V outer T n).tbl ns
def DevCertN (V : Nat → ValueS) (x : Ext) (outer : List Table) : Table → NodeT → Prop
  | T, .mk i _ ins _ subs =>
    DevsCert V ((replRes V outer T ins).tbl :: outer) (x.devs i) ∧
    DevCertGs V x ((replRes V outer T ins).tbl :: outer) subs
def DevCertGs (V : Nat → ValueS) (x : Ext) (scopes : List Table) : List GraphT → Prop
  | [] => True
  | g :: gs => DevCertG V x scopes g ∧ DevCertGs V x scopes gs
end

mutual
/-- node by node, the reloaded configurations are the source configurations renamed by `σ` -/
def DevIsoG (x x' : Ext) (σ : Nat → Nat) : GraphT → GraphT → Prop
  | .mk _ _ _ nodes _, .mk _ _ _ nodes' _ => DevIsoNs x x' σ nodes nodes'
def DevIsoNs (x x' : Ext) (σ : Nat → Nat) : List NodeT → List NodeT → Prop
  | [], [] => True
  | n :: ns, n' :: ns' => DevIsoN x x' σ n n' ∧ DevIsoNs x x' σ ns ns'
  | _, _ => False
def DevIsoN (x x' : Ext) (σ : Nat → Nat) : NodeT → NodeT → Prop
  | .mk i _ _ _ subs, .mk i' _ _ _ subs' =>
    x'.devs i' = (x.devs i).map (DevR.mapσ σ) ∧ DevIsoGs x x' σ subs subs'
def DevIsoGs (x x' : Ext) (σ : Nat → Nat) : List GraphT → List GraphT → Prop
  | [], [] => True
  | g :: gs, g' :: gs' => DevIsoG x x' σ g g' ∧ DevIsoGs x x' σ gs gs'
  | _, _ => False
end

/-! ### one configuration -/

/-- the open gate: the device configurations are written -/
def GateOpen (ver : Option Int) : Prop := ver = none ∨ ∃ v, ver = some v ∧ ¬ v < 11

theorem serDevRsGated_open {ver : Option Int} (h : GateOpen ver) (V : Nat → ValueS) (ds : List DevR) :
    serDevRsGated V ver ds = serDevRs V ds := by
  rcases h with rfl | ⟨v, rfl, hv⟩
  · rfl
  · simp only [serDevRsGated, if_neg hv]

/-- the specs: each written name resolves, in the renamed scopes, to the image of the source value -/
theorem specs_iso (V : Nat → ValueS) (A : Assoc) (scopes : List Table) :
    ∀ (specs : List (ShardV × String)) (sp : List (String × String)),
      serSpecs (specs.map fun s => (specName V s.1, s.2)) = .ok sp →
      (∀ s ∈ specs, (∀ v, s.1 = .val v → nameTruthy (V v).name = true ∧ resolve (nm V v) scopes = some v) ∧
        (∀ n, s.1 = .fresh n → n ≠ "" ∧ resolve n scopes = none)) →
      sp.map (fun s => (resolveShard (scopes.map (mapT A)) s.1, s.2)) = specs.map (fun s => (s.1.mapσ (sig A), s.2))
  | [], sp, h, _ => by
    simp only [List.map_nil, serSpecs, Except.ok.injEq] at h
    subst h
    rfl
  | (sv, t) :: r, sp, h, hc => by
    have hc0 := hc (sv, t) (List.mem_cons_self ..)
    have hcr : ∀ s ∈ r, (∀ v, s.1 = .val v → nameTruthy (V v).name = true ∧ resolve (nm V v) scopes = some v) ∧
        (∀ n, s.1 = .fresh n → n ≠ "" ∧ resolve n scopes = none) := fun s hs => hc s (List.mem_cons_of_mem _ hs)
    simp only [List.map_cons] at h
    cases hn : specName V sv with
    | none =>
      rw [hn] at h
      simp only [serSpecs] at h
      cases h
    | some n =>
      rw [hn] at h
      simp only [serSpecs] at h
      split at h
      · cases h
      · rename_i hne
        split at h
        · cases h
        · rename_i r' hr
          simp only [Except.ok.injEq] at h
          subst h
          have ih := specs_iso V A scopes r r' hr hcr
          simp only [List.map_cons, ih, List.cons.injEq, and_true, Prod.mk.injEq]
          simp only [resolveShard, if_neg hne, resolve_mapT]
          cases sv with
          | none => simp only [specName] at hn; cases hn
          | val v =>
            simp only [specName] at hn
            have h1 := (hc0.1 v rfl).2
            rw [nm_of_name hn] at h1
            rw [h1]
            rfl
          | fresh m =>
            simp only [specName, Option.some.injEq] at hn
            subst hn
            have h1 := (hc0.2 m rfl).2
            rw [h1]
            rfl

theorem serDevR_iso (V : Nat → ValueS) (A : Assoc) (scopes : List Table) (d : DevR) (p : DevP)
    (h : serDevR V d = .ok p)
    (hc : ∀ s ∈ d.specs, (∀ v, s.1 = .val v → nameTruthy (V v).name = true ∧ resolve (nm V v) scopes = some v) ∧
      (∀ n, s.1 = .fresh n → n ≠ "" ∧ resolve n scopes = none)) :
    deserDevR (scopes.map (mapT A)) p = d.mapσ (sig A) := by
  obtain ⟨cfg, stage, specs⟩ := d
  simp only [serDevR, serDev] at h
  split at h
  · cases h
  · rename_i c
    split at h
    · cases h
    · rename_i hne
      split at h
      · cases h
      · rename_i sp hsp
        simp only [Except.ok.injEq] at h
        subst h
        simp only [deserDevR, DevR.mapσ, nonEmpty, if_neg hne]
        rw [specs_iso V A scopes specs sp hsp hc]

theorem serDevRs_iso (V : Nat → ValueS) (A : Assoc) (scopes : List Table) :
    ∀ (l : List DevR) (ds : List DevP), serDevRs V l = .ok ds → DevsCert V scopes l →
      ds.map (deserDevR (scopes.map (mapT A))) = l.map (DevR.mapσ (sig A))
  | [], ds, h, _ => by
    simp only [serDevRs, Except.ok.injEq] at h
    subst h
    rfl
  | d :: r, ds, h, hc => by
    simp only [serDevRs] at h
    split at h
    · cases h
    · rename_i p hp
      split at h
      · cases h
      · rename_i ps hps
        simp only [Except.ok.injEq] at h
        subst h
        simp only [List.map_cons]
        rw [serDevR_iso V A scopes d p hp (hc d (List.mem_cons_self ..)),
          serDevRs_iso V A scopes r ps hps (fun d' hd' => hc d' (List.mem_cons_of_mem _ hd'))]

/-! ### the tree -/

mutual
theorem devIso_graph (V : Nat → ValueS) (x x' : Ext) (td : TData) (ver : Option Int) (hgate : GateOpen ver) (hi : Nat)
    (A : Assoc) :
    ∀ (g : GraphT) (outer : List Table) (p : GraphE) (g' : GraphT) (ws : Writes),
      serGraphE V x td ver g = .ok (p, ws) → DevCertG V x outer g → DevTrG V x' hi A outer g p g' →
      DevIsoG x x' (sig A) g g'
  | .mk gid ins inits nodes outs, outer, p, .mk _ _ _ nodes' _, ws, hser, hc, htr => by
    obtain ⟨qIn, seen1, qInit, seen2, nps, qNodes, vis2, ws2, qOut, seen3, _, _, _, _, hn, _, rfl⟩ := xserGraph_inv hser
    simp only [DevCertG] at hc
    simp only [DevTrG] at htr
    simp only [DevIsoG]
    exact devIso_nodes V x x' td ver hgate hi A nodes outer _ nps nodes' true outs qNodes vis2 ws2 hn hc htr
theorem devIso_nodes (V : Nat → ValueS) (x x' : Ext) (td : TData) (ver : Option Int) (hgate : GateOpen ver) (hi : Nat)
    (A : Assoc) :
    ∀ (nodes : List NodeT) (outer : List Table) (T : Table) (nps : List NodeE) (nts : List NodeT) (annot : Bool)
      (gouts : List Nat) (qs : List QuantP) (vis : List VInfoE) (ws : Writes),
      serNodesE V x td ver annot gouts nodes = .ok (nps, qs, vis, ws) → DevCertNs V x outer T nodes →
      DevTrNs V x' hi A outer T nodes nps nts → DevIsoNs x x' (sig A) nodes nts
  | [], _, _, [], [], _, _, _, _, _, _, _, _ => by simp only [DevIsoNs]
  | n :: rest, outer, T, np :: nps, nt :: nts, annot, gouts, qs, vis, ws, hser, hc, htr => by
    obtain ⟨np0, q1, vi1, ws1, nps', qs', vis', ws2, h1, h2, he, _, _⟩ := xserNodes_inv hser
    simp only [List.cons.injEq] at he
    obtain ⟨rfl, rfl⟩ := he
    simp only [DevCertNs] at hc
    simp only [DevTrNs] at htr
    simp only [DevIsoNs]
    exact ⟨devIso_node V x x' td ver hgate hi A n outer T np nt annot gouts q1 vi1 ws1 h1 hc.1 htr.1,
      devIso_nodes V x x' td ver hgate hi A rest outer _ nps nts annot gouts qs' vis' ws2 h2 hc.2 htr.2⟩
  | [], _, _, [], _ :: _, _, _, _, _, _, _, _, h => by simp only [DevTrNs] at h
  | [], _, _, _ :: _, _, _, _, _, _, _, _, _, h => by simp only [DevTrNs] at h
  | _ :: _, _, _, [], _, _, _, _, _, _, _, _, h => by simp only [DevTrNs] at h
  | _ :: _, _, _, _ :: _, [], _, _, _, _, _, _, _, h => by simp only [DevTrNs] at h
theorem devIso_node (V : Nat → ValueS) (x x' : Ext) (td : TData) (ver : Option Int) (hgate : GateOpen ver) (hi : Nat)
    (A : Assoc) :
    ∀ (n : NodeT) (outer : List Table) (T : Table) (np : NodeE) (nt : NodeT) (annot : Bool)
      (gouts : List Nat) (qs : List QuantP) (vis : List VInfoE) (ws : Writes),
      serNodeE V x td ver annot gouts n = .ok (np, qs, vis, ws) → DevCertN V x outer T n →
      DevTrN V x' hi A outer T n np nt → DevIsoN x x' (sig A) n nt
  | .mk i g ins outs subs, outer, T, np, .mk i' _ _ _ subs', annot, gouts, qs, vis, ws, hser, hc, htr => by
    obtain ⟨gps, ds, hs, hd, _, rfl, _, _⟩ := xserNode_inv hser
    simp only [DevCertN] at hc
    simp only [DevTrN] at htr
    simp only [DevIsoN]
    obtain ⟨⟨_, _, _, hdev⟩, htrs⟩ := htr
    refine ⟨?_, devIso_subs V x x' td ver hgate hi A subs _ gps subs' ws hs hc.2 htrs⟩
    rw [serDevRsGated_open hgate] at hd
    rw [hdev, ← serDevRs_iso V A _ (x.devs i) ds hd hc.1]
    rfl
theorem devIso_subs (V : Nat → ValueS) (x x' : Ext) (td : TData) (ver : Option Int) (hgate : GateOpen ver) (hi : Nat)
    (A : Assoc) :
    ∀ (subs : List GraphT) (scopes : List Table) (gps : List GraphE) (gts : List GraphT) (ws : Writes),
      serSubsE V x td ver subs = .ok (gps, ws) → DevCertGs V x scopes subs → DevTrGs V x' hi A scopes subs gps gts →
      DevIsoGs x x' (sig A) subs gts
  | [], _, [], [], _, _, _, _ => by simp only [DevIsoGs]
  | g :: rest, scopes, gp :: gps, gt :: gts, ws, hser, hc, htr => by
    obtain ⟨gp0, ws1, gps', ws2, h1, h2, he⟩ := xserSubs_inv hser
    simp only [List.cons.injEq] at he
    obtain ⟨rfl, rfl⟩ := he
    simp only [DevCertGs] at hc
    simp only [DevTrGs] at htr
    simp only [DevIsoGs]
    exact ⟨devIso_graph V x x' td ver hgate hi A g scopes gp gt ws1 h1 hc.1 htr.1,
      devIso_subs V x x' td ver hgate hi A rest scopes gps gts ws2 h2 hc.2 htr.2⟩
  | [], _, [], _ :: _, _, _, _, h => by simp only [DevTrGs] at h
  | [], _, _ :: _, _, _, _, _, h => by simp only [DevTrGs] at h
  | _ :: _, _, [], _, _, _, _, h => by simp only [DevTrGs] at h
  | _ :: _, _, _ :: _, [], _, _, _, h => by simp only [DevTrGs] at h
end

end IrVerif.Scope

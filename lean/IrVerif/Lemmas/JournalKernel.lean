import IrVerif.Model.JournalKernel
import IrVerif.Lemmas.Journal
/-!
Helper development for `C20_transparent_kernel` / `C20_transparent_kernel_spelled`: what the kernel instantiation
`kCfg` of the journal model does when nothing is wrapped.  Running the user code of a history of public calls
(`GCall`: plain kernel ops, or spelled ones) on the pristine class table executes exactly the calls of their call
trees, in order, leaves the kernel world of the kernel semantics, and logs the kernel's outcomes with the value a
direct call returns.  (The journaled run is then related to this one by the general theorems of Props/C20.lean.)
-/
namespace IrVerif.Journal

/-- the world after some calls: the argument register holds `reg`, the user code holds `last`, the calls `evs`
    were traced -/
def adv (w : World KState) (reg : List L1 × Bool × Val) (last : Outcome) (evs : List Ev) : World KState :=
  { w with ir := { w := w.ir.w, reg := reg, last := last }, trace := w.trace ++ evs }

theorem adv_nil (w : World KState) : adv w w.ir.reg w.ir.last [] = w := by
  cases w with
  | mk ir table current journals trace log =>
    cases ir
    simp [adv]

theorem adv_adv (w : World KState) (r r' : List L1 × Bool × Val) (l l' : Outcome) (e e' : List Ev) :
    adv (adv w r l e) r' l' e' = adv w r' l' (e ++ e') := by
  simp [adv, List.append_assoc]

theorem runProg_callL1 (disp : Nat → Obj → Val → World KState → World KState × Outcome)
    (c : L1) (rest : Prog KState) (w : World KState) :
    runProg disp (callL1 c rest) w =
      runProg disp rest
        (disp c.slot c.self .none { w with ir := { w.ir with reg := (c.kids.map lift0, c.ok, c.ret) } }).1 := rfl

theorem runProg_callL2 (disp : Nat → Obj → Val → World KState → World KState × Outcome)
    (c : L2) (rest : Prog KState) (w : World KState) :
    runProg disp (callL2 c rest) w =
      runProg disp rest
        { (disp c.slot c.self .none { w with ir := { w.ir with reg := (c.kids, c.ok, c.ret) } }).1 with
          ir := { (disp c.slot c.self .none { w with ir := { w.ir with reg := (c.kids, c.ok, c.ret) } }).1.ir with
            last := (disp c.slot c.self .none { w with ir := { w.ir with reg := (c.kids, c.ok, c.ret) } }).2 } } := rfl

theorem dispatch_pristine (f slot : Nat) (self : Obj) (arg : Val) (w : World KState)
    (h : w.table = pristine) :
    dispatch kCfg (f + 1) slot self arg w = runOrig kCfg (dispatch kCfg f) slot self arg w := by
  show runImpl kCfg (runOrig kCfg (dispatch kCfg f)) (w.table slot) self arg w = _
  rw [h]
  rfl

theorem runOrig_kCfg (disp : Nat → Obj → Val → World KState → World KState × Outcome)
    (slot : Nat) (self : Obj) (arg : Val) (w : World KState) :
    runOrig kCfg disp slot self arg w =
      ((emit (.finish slot self
          (runProg disp (callL1s w.ir.reg.1 (.done (outT slot w.ir.reg.2.1 w.ir.reg.2.2))) (emit (.start slot self) w)).2)
          (runProg disp (callL1s w.ir.reg.1 (.done (outT slot w.ir.reg.2.1 w.ir.reg.2.2))) (emit (.start slot self) w)).1),
       (runProg disp (callL1s w.ir.reg.1 (.done (outT slot w.ir.reg.2.1 w.ir.reg.2.2))) (emit (.start slot self) w)).2) := rfl

/-- level 0: calls that make no calls -/
theorem calls0 (f : Nat) : ∀ (kids : List L0) (rest : Prog KState) (w : World KState),
    w.table = pristine →
    ∃ reg', runProg (dispatch kCfg (f + 1)) (callL1s (kids.map lift0) rest) w =
      runProg (dispatch kCfg (f + 1)) rest (adv w reg' w.ir.last (kids.flatMap evs0)) := by
  intro kids
  induction kids with
  | nil => intro rest w _; exact ⟨w.ir.reg, by simp [callL1s, adv_nil]⟩
  | cons c cs ih =>
    intro rest w hw
    simp only [List.map_cons, callL1s, runProg_callL1]
    rw [dispatch_pristine f _ _ _ _ (by exact hw), runOrig_kCfg]
    simp only [lift0, List.map_nil, callL1s, runProg]
    obtain ⟨reg', h⟩ := ih rest (adv w ([], c.ok, c.ret) w.ir.last (evs0 c)) hw
    refine ⟨reg', ?_⟩
    have e : (emit (.finish c.slot c.self (outT c.slot c.ok c.ret))
        (emit (.start c.slot c.self) { w with ir := { w.ir with reg := ([], c.ok, c.ret) } })) =
        adv w ([], c.ok, c.ret) w.ir.last (evs0 c) := by
      simp [emit, adv, evs0, List.append_assoc]
    rw [e, h, adv_adv]
    simp [List.flatMap_cons, adv]

theorem emit_adv (slot : Nat) (self : Obj) (out : Outcome) (w : World KState) (R r0 : List L1 × Bool × Val)
    (evs : List Ev) :
    emit (.finish slot self out)
        (adv (emit (.start slot self) { w with ir := { w.ir with reg := R } })
          r0 (emit (.start slot self) { w with ir := { w.ir with reg := R } }).ir.last evs) =
      adv w r0 w.ir.last ([.start slot self] ++ evs ++ [.finish slot self out]) := by
  simp [emit, adv, List.append_assoc]

/-- level 1: calls whose callees make no calls -/
theorem calls1 (f : Nat) : ∀ (kids : List L1) (rest : Prog KState) (w : World KState),
    w.table = pristine →
    ∃ reg', runProg (dispatch kCfg (f + 2)) (callL1s kids rest) w =
      runProg (dispatch kCfg (f + 2)) rest (adv w reg' w.ir.last (kids.flatMap evs1)) := by
  intro kids
  induction kids with
  | nil => intro rest w _; exact ⟨w.ir.reg, by simp [callL1s, adv_nil]⟩
  | cons c cs ih =>
    intro rest w hw
    simp only [callL1s, runProg_callL1]
    rw [dispatch_pristine (f + 1) _ _ _ _ (by exact hw), runOrig_kCfg]
    obtain ⟨r0, h0⟩ := calls0 f c.kids (.done (outT c.slot c.ok c.ret))
      (emit (.start c.slot c.self) { w with ir := { w.ir with reg := (c.kids.map lift0, c.ok, c.ret) } }) hw
    rw [h0]
    simp only [runProg]
    rw [emit_adv]
    obtain ⟨reg', h⟩ := ih rest (adv w r0 w.ir.last (evs1 c)) hw
    refine ⟨reg', ?_⟩
    show runProg _ (callL1s cs rest) (adv w r0 w.ir.last (evs1 c)) = _
    rw [h, adv_adv]
    simp [List.flatMap_cons, adv]

/-- level 2: the top-level calls of a public call; the user code keeps what the last one handed back -/
theorem calls2 (f : Nat) : ∀ (kids : List L2) (rest : Prog KState) (w : World KState),
    w.table = pristine →
    ∃ reg', runProg (dispatch kCfg (f + 3)) (callL2s kids rest) w =
      runProg (dispatch kCfg (f + 3)) rest (adv w reg' (lastOf kids w.ir.last) (kids.flatMap evs2)) := by
  intro kids
  induction kids with
  | nil => intro rest w _; exact ⟨w.ir.reg, by simp [callL2s, lastOf, adv_nil]⟩
  | cons c cs ih =>
    intro rest w hw
    simp only [callL2s, runProg_callL2]
    rw [dispatch_pristine (f + 2) _ _ _ _ (by exact hw), runOrig_kCfg]
    obtain ⟨r0, h0⟩ := calls1 f c.kids (.done (outT c.slot c.ok c.ret))
      (emit (.start c.slot c.self) { w with ir := { w.ir with reg := (c.kids, c.ok, c.ret) } }) hw
    rw [h0]
    simp only [runProg]
    rw [emit_adv]
    obtain ⟨reg', h⟩ := ih rest (adv w r0 (outT c.slot c.ok c.ret) (evs2 c)) hw
    refine ⟨reg', ?_⟩
    have e : ({ adv w r0 w.ir.last ([Ev.start c.slot c.self] ++ c.kids.flatMap evs1 ++ [Ev.finish c.slot c.self (outT c.slot c.ok c.ret)]) with
        ir := { (adv w r0 w.ir.last ([Ev.start c.slot c.self] ++ c.kids.flatMap evs1 ++ [Ev.finish c.slot c.self (outT c.slot c.ok c.ret)])).ir with
          last := outT c.slot c.ok c.ret } } : World KState) = adv w r0 (outT c.slot c.ok c.ret) (evs2 c) := by
      simp [adv, evs2]
    rw [e, h, adv_adv]
    simp [List.flatMap_cons, lastOf, adv]

/-- the world after a history: kernel state, register, `last`, trace and log advanced -/
def advH (w : World KState) (ops : List GCall) (reg : List L1 × Bool × Val) (last : Outcome) : World KState :=
  { w with ir := { w := gWorld w.ir.w ops, reg := reg, last := last },
           trace := w.trace ++ gEvs w.ir.w ops, log := w.log ++ gLog w.ir.w ops }

theorem advH_nil (w : World KState) : advH w [] w.ir.reg w.ir.last = w := by
  cases w with
  | mk ir table current journals trace log =>
    cases ir
    simp [advH, gWorld, gEvs, gLog]

theorem gWorld_append (w : KW) (a b : List GCall) :
    gWorld w (a ++ b) = gWorld (gWorld w a) b := by
  simp [gWorld, List.foldl_append]

theorem gEvs_append (w : KW) (a b : List GCall) :
    gEvs w (a ++ b) = gEvs w a ++ gEvs (gWorld w a) b := by
  induction a generalizing w with
  | nil => simp [gEvs, gWorld]
  | cons op rest ih => simp [gEvs, gWorld, ih, List.append_assoc]

theorem gLog_append (w : KW) (a b : List GCall) :
    gLog w (a ++ b) = gLog w a ++ gLog (gWorld w a) b := by
  induction a generalizing w with
  | nil => simp [gLog, gWorld]
  | cons op rest ih => simp [gLog, gWorld, ih]

theorem advH_advH (w : World KState) (a b : List GCall) (r r' : List L1 × Bool × Val) (l l' : Outcome) :
    advH (advH w a r l) b r' l' = advH w (a ++ b) r' l' := by
  simp [advH, gWorld_append, gEvs_append, gLog_append, List.append_assoc]

/-- one public call on the pristine table -/
theorem run_op (f : Nat) (c : GCall) (w : World KState) (hw : w.table = pristine) :
    ∃ reg' last', runBlock kCfg (f + 3) (.attempt (.op (gProg c))) w = (advH w [c] reg' last', none) := by
  obtain ⟨r0, h0⟩ := calls2 f (c.trees w.ir.w)
    (.get fun st' => .put { st' with w := (c.step w.ir.w).1 }
        (.done (outOfV (c.step w.ir.w).2 (if c.direct then valOf st'.last else .none))))
    { w with ir := { w.ir with last := .ret .none } } hw
  refine ⟨r0, lastOf (c.trees w.ir.w) (.ret .none), ?_⟩
  have h1 : runProg (dispatch kCfg (f + 3)) (gProg c) w =
      runProg (dispatch kCfg (f + 3)) (callL2s (c.trees w.ir.w)
        (.get fun st' => .put { st' with w := (c.step w.ir.w).1 }
          (.done (outOfV (c.step w.ir.w).2 (if c.direct then valOf st'.last else .none)))))
        { w with ir := { w.ir with last := .ret .none } } := rfl
  simp only [runBlock, h1, h0, runProg]
  simp [adv, advH, gWorld, gEvs, gLog, gOut]

theorem run_hist (f : Nat) : ∀ (ops : List GCall) (w : World KState), w.table = pristine →
    ∃ reg' last', runBlock kCfg (f + 3) (gBlock ops) w = (advH w ops reg' last', none) := by
  intro ops
  induction ops with
  | nil => intro w _; exact ⟨w.ir.reg, w.ir.last, by simp [gBlock, runBlock, advH_nil]⟩
  | cons op rest ih =>
    intro w hw
    obtain ⟨r1, l1, h1⟩ := run_op f op w hw
    obtain ⟨r2, l2, h2⟩ := ih (advH w [op] r1 l1) hw
    refine ⟨r2, l2, ?_⟩
    show runBlock kCfg (f + 3) (.seq (.attempt (.op (gProg op))) (gBlock rest)) w = _
    rw [runBlock, h1]
    simp only []
    rw [h2, advH_advH]
    rfl

theorem strip_gBlock (ops : List GCall) : strip (gBlock ops) = gBlock ops := by
  induction ops with
  | nil => rfl
  | cons op rest ih => simp [gBlock, strip, ih]

/-- any history with its journals removed, on the pristine table -/
theorem run_gblk_plain (f : Nat) : ∀ (kb : GBlk) (w : World KState), w.table = pristine →
    ∃ reg' last', runBlock kCfg (f + 3) (strip kb.toBlock) w = (advH w kb.allOps reg' last', none) := by
  intro kb
  induction kb with
  | ops l => intro w hw; rw [GBlk.toBlock, strip_gBlock]; exact run_hist f l w hw
  | seq a b iha ihb =>
    intro w hw
    obtain ⟨r1, l1, h1⟩ := iha w hw
    obtain ⟨r2, l2, h2⟩ := ihb (advH w a.allOps r1 l1) hw
    refine ⟨r2, l2, ?_⟩
    show runBlock kCfg (f + 3) (.seq (strip a.toBlock) (strip b.toBlock)) w = _
    rw [runBlock, h1]
    simp only []
    rw [h2, advH_advH]
    rfl
  | withJ j body ih => intro w hw; exact ih w hw

/-! ### the hypotheses of `C20_transparent` hold for `kCfg` -/

theorem callL1s_out (disp : Nat → Obj → Val → World KState → World KState × Outcome) (o : Outcome) :
    ∀ (kids : List L1) (w : World KState), (runProg disp (callL1s kids (.done o)) w).2 = o := by
  intro kids
  induction kids with
  | nil => intro w; rfl
  | cons c cs ih => intro w; rw [callL1s, runProg_callL1]; exact ih _

theorem procNone_kCfg : ProcNone kCfg := by
  intro k hk disp self arg w v hv
  have h : (runProg disp (kCfg.impl k self arg) w).2 = outT k w.ir.reg.2.1 w.ir.reg.2.2 :=
    callL1s_out disp _ w.ir.reg.1 w
  rw [h] at hv
  cases hr : w.ir.reg.2.1 <;> simp [outT, outOfV, retFor, hr, hk] at hv
  exact hv.symm

theorem detailsOk_kCfg : DetailsOk kCfg := fun _ _ _ s => ⟨s, rfl⟩

theorem detailsPure_kCfg : DetailsPure kCfg := by
  intro k self arg s s' h
  simp [kCfg] at h
  exact h.symm

theorem allCall_evs0 (c : L0) : ∀ e ∈ evs0 c, isCall e = true := by
  intro e he
  simp [evs0] at he
  rcases he with h | h <;> subst h <;> rfl

theorem allCall_evs1 (c : L1) : ∀ e ∈ evs1 c, isCall e = true := by
  intro e he
  simp only [evs1, List.mem_append, List.mem_singleton, List.mem_flatMap] at he
  rcases he with (h | ⟨k, _, hk⟩) | h
  · subst h; rfl
  · exact allCall_evs0 k e hk
  · subst h; rfl

theorem allCall_evs2 (c : L2) : ∀ e ∈ evs2 c, isCall e = true := by
  intro e he
  simp only [evs2, List.mem_append, List.mem_singleton, List.mem_flatMap] at he
  rcases he with (h | ⟨k, _, hk⟩) | h
  · subst h; rfl
  · exact allCall_evs1 k e hk
  · subst h; rfl

theorem allCall_gEvs (w : KW) (ops : List GCall) : ∀ e ∈ gEvs w ops, isCall e = true := by
  induction ops generalizing w with
  | nil => intro e he; simp [gEvs] at he
  | cons op rest ih =>
    intro e he
    simp only [gEvs, List.mem_append, List.mem_flatMap] at he
    rcases he with ⟨t, _, ht⟩ | h
    · exact allCall_evs2 t e ht
    · exact ih _ e h

theorem isCall_gEvs (w : KW) (ops : List GCall) :
    (gEvs w ops).filter isCall = gEvs w ops :=
  List.filter_eq_self.mpr (allCall_gEvs w ops)

/-! ### the two instances -/

theorem histBlock_eq (ops : List Kernel.AnyOp) : histBlock ops = gBlock (ops.map gOf) := by
  induction ops with
  | nil => rfl
  | cons op rest ih => simp [histBlock, gBlock, opProg, ih]

theorem KBlk.toBlock_eq (kb : KBlk) : kb.toBlock = kb.toG.toBlock := by
  induction kb with
  | ops l => exact histBlock_eq l
  | seq a b iha ihb => simp [KBlk.toBlock, KBlk.toG, GBlk.toBlock, iha, ihb]
  | withJ j body ih => simp [KBlk.toBlock, KBlk.toG, GBlk.toBlock, ih]

theorem KBlk.allOps_toG (kb : KBlk) : kb.toG.allOps = kb.allOps.map gOf := by
  induction kb with
  | ops l => rfl
  | seq a b iha ihb => simp [KBlk.allOps, KBlk.toG, GBlk.allOps, iha, ihb]
  | withJ j body ih => simpa [KBlk.allOps, KBlk.toG, GBlk.allOps] using ih

theorem gWorld_gOf (w : KW) (ops : List Kernel.AnyOp) : gWorld w (ops.map gOf) = histWorld w ops := by
  induction ops generalizing w with
  | nil => rfl
  | cons op rest ih => simp only [List.map_cons, gWorld, histWorld, List.foldl_cons] at ih ⊢; exact ih _

theorem KBlkX.allOps_toG (kb : KBlkX) : kb.toG.allOps = kb.allCalls.map gOfX := by
  induction kb with
  | ops l => rfl
  | seq a b iha ihb => simp [KBlkX.allCalls, KBlkX.toG, GBlk.allOps, iha, ihb]
  | withJ j body ih => simpa [KBlkX.allCalls, KBlkX.toG, GBlk.allOps] using ih

theorem gWorld_gOfX (w : KW) (cs : List KCall) :
    gWorld w (cs.map gOfX) = histWorld w (cs.map (·.op)) := by
  induction cs generalizing w with
  | nil => rfl
  | cons c rest ih => simp only [List.map_cons, gWorld, histWorld, List.foldl_cons] at ih ⊢; exact ih _

end IrVerif.Journal

import IrVerif.Model.JournalKernel
import IrVerif.Lemmas.Journal
/-!
Helper development for `C20_transparent_kernel`: what the kernel instantiation `kCfg` of the journal
model does when nothing is wrapped.  Running the user code of a kernel history on the pristine class
table executes exactly the calls of `callTree`, in order, leaves the kernel world of
`Kernel.stepAny`, and logs the kernel's outcomes.  (The journaled run is then related to this one by
the general theorems of Props/C20.lean.)
-/
namespace IrVerif.Journal

/-- the world after some calls: the argument register holds `reg`, the calls `evs` were traced -/
def adv (w : World KState) (reg : List L1 × Bool) (evs : List Ev) : World KState :=
  { w with ir := { w := w.ir.w, reg := reg }, trace := w.trace ++ evs }

theorem adv_nil (w : World KState) : adv w w.ir.reg [] = w := by
  cases w with
  | mk ir table current journals trace log =>
    cases ir
    simp [adv]

theorem adv_adv (w : World KState) (r r' : List L1 × Bool) (e e' : List Ev) :
    adv (adv w r e) r' e' = adv w r' (e ++ e') := by
  simp [adv, List.append_assoc]

theorem runProg_callL1 (disp : Nat → Obj → Val → World KState → World KState × Outcome)
    (c : L1) (rest : Prog KState) (w : World KState) :
    runProg disp (callL1 c rest) w =
      runProg disp rest
        (disp c.slot c.self .none { w with ir := { w.ir with reg := (c.kids.map lift0, c.ok) } }).1 := rfl

theorem runProg_callL2 (disp : Nat → Obj → Val → World KState → World KState × Outcome)
    (c : L2) (rest : Prog KState) (w : World KState) :
    runProg disp (callL2 c rest) w =
      runProg disp rest
        (disp c.slot c.self .none { w with ir := { w.ir with reg := (c.kids, c.ok) } }).1 := rfl

theorem dispatch_pristine (f slot : Nat) (self : Obj) (arg : Val) (w : World KState)
    (h : w.table = pristine) :
    dispatch kCfg (f + 1) slot self arg w = runOrig kCfg (dispatch kCfg f) slot self arg w := by
  show runImpl kCfg (runOrig kCfg (dispatch kCfg f)) (w.table slot) self arg w = _
  rw [h]
  rfl

theorem runOrig_kCfg (disp : Nat → Obj → Val → World KState → World KState × Outcome)
    (slot : Nat) (self : Obj) (arg : Val) (w : World KState) :
    runOrig kCfg disp slot self arg w =
      ((emit (.finish slot self
          (runProg disp (callL1s w.ir.reg.1 (.done (outOf w.ir.reg.2))) (emit (.start slot self) w)).2)
          (runProg disp (callL1s w.ir.reg.1 (.done (outOf w.ir.reg.2))) (emit (.start slot self) w)).1),
       (runProg disp (callL1s w.ir.reg.1 (.done (outOf w.ir.reg.2))) (emit (.start slot self) w)).2) := rfl

/-- level 0: calls that make no calls -/
theorem calls0 (f : Nat) : ∀ (kids : List L0) (rest : Prog KState) (w : World KState),
    w.table = pristine →
    ∃ reg', runProg (dispatch kCfg (f + 1)) (callL1s (kids.map lift0) rest) w =
      runProg (dispatch kCfg (f + 1)) rest (adv w reg' (kids.flatMap evs0)) := by
  intro kids
  induction kids with
  | nil => intro rest w _; exact ⟨w.ir.reg, by simp [callL1s, adv_nil]⟩
  | cons c cs ih =>
    intro rest w hw
    simp only [List.map_cons, callL1s, runProg_callL1]
    rw [dispatch_pristine f _ _ _ _ (by exact hw), runOrig_kCfg]
    simp only [lift0, List.map_nil, callL1s, runProg]
    obtain ⟨reg', h⟩ := ih rest (adv w ([], c.ok) (evs0 c)) hw
    refine ⟨reg', ?_⟩
    have e : (emit (.finish c.slot c.self (outOf c.ok))
        (emit (.start c.slot c.self) { w with ir := { w.ir with reg := ([], c.ok) } })) =
        adv w ([], c.ok) (evs0 c) := by
      simp [emit, adv, evs0, List.append_assoc]
    rw [e, h, adv_adv]
    simp [List.flatMap_cons]

theorem emit_adv (slot : Nat) (self : Obj) (out : Outcome) (w : World KState) (R r0 : List L1 × Bool)
    (evs : List Ev) :
    emit (.finish slot self out)
        (adv (emit (.start slot self) { w with ir := { w.ir with reg := R } }) r0 evs) =
      adv w r0 ([.start slot self] ++ evs ++ [.finish slot self out]) := by
  simp [emit, adv, List.append_assoc]

/-- level 1: calls whose callees make no calls -/
theorem calls1 (f : Nat) : ∀ (kids : List L1) (rest : Prog KState) (w : World KState),
    w.table = pristine →
    ∃ reg', runProg (dispatch kCfg (f + 2)) (callL1s kids rest) w =
      runProg (dispatch kCfg (f + 2)) rest (adv w reg' (kids.flatMap evs1)) := by
  intro kids
  induction kids with
  | nil => intro rest w _; exact ⟨w.ir.reg, by simp [callL1s, adv_nil]⟩
  | cons c cs ih =>
    intro rest w hw
    simp only [callL1s, runProg_callL1]
    rw [dispatch_pristine (f + 1) _ _ _ _ (by exact hw), runOrig_kCfg]
    obtain ⟨r0, h0⟩ := calls0 f c.kids (.done (outOf c.ok))
      (emit (.start c.slot c.self) { w with ir := { w.ir with reg := (c.kids.map lift0, c.ok) } }) hw
    rw [h0]
    simp only [runProg]
    rw [emit_adv]
    obtain ⟨reg', h⟩ := ih rest (adv w r0 (evs1 c)) hw
    refine ⟨reg', ?_⟩
    show runProg _ (callL1s cs rest) (adv w r0 (evs1 c)) = _
    rw [h, adv_adv]
    simp [List.flatMap_cons]

/-- level 2: the top-level calls of a public call -/
theorem calls2 (f : Nat) : ∀ (kids : List L2) (rest : Prog KState) (w : World KState),
    w.table = pristine →
    ∃ reg', runProg (dispatch kCfg (f + 3)) (callL2s kids rest) w =
      runProg (dispatch kCfg (f + 3)) rest (adv w reg' (kids.flatMap evs2)) := by
  intro kids
  induction kids with
  | nil => intro rest w _; exact ⟨w.ir.reg, by simp [callL2s, adv_nil]⟩
  | cons c cs ih =>
    intro rest w hw
    simp only [callL2s, runProg_callL2]
    rw [dispatch_pristine (f + 2) _ _ _ _ (by exact hw), runOrig_kCfg]
    obtain ⟨r0, h0⟩ := calls1 f c.kids (.done (outOf c.ok))
      (emit (.start c.slot c.self) { w with ir := { w.ir with reg := (c.kids, c.ok) } }) hw
    rw [h0]
    simp only [runProg]
    rw [emit_adv]
    obtain ⟨reg', h⟩ := ih rest (adv w r0 (evs2 c)) hw
    refine ⟨reg', ?_⟩
    show runProg _ (callL2s cs rest) (adv w r0 (evs2 c)) = _
    rw [h, adv_adv]
    simp [List.flatMap_cons]

/-- the world after a history: kernel state, register, trace and log advanced -/
def advH (w : World KState) (ops : List Kernel.AnyOp) (reg : List L1 × Bool) : World KState :=
  { w with ir := { w := histWorld w.ir.w ops, reg := reg },
           trace := w.trace ++ histEvs w.ir.w ops, log := w.log ++ histLog w.ir.w ops }

theorem advH_nil (w : World KState) : advH w [] w.ir.reg = w := by
  cases w with
  | mk ir table current journals trace log =>
    cases ir
    simp [advH, histWorld, histEvs, histLog]

theorem histWorld_append (w : KW) (a b : List Kernel.AnyOp) :
    histWorld w (a ++ b) = histWorld (histWorld w a) b := by
  simp [histWorld, List.foldl_append]

theorem histEvs_append (w : KW) (a b : List Kernel.AnyOp) :
    histEvs w (a ++ b) = histEvs w a ++ histEvs (histWorld w a) b := by
  induction a generalizing w with
  | nil => simp [histEvs, histWorld]
  | cons op rest ih => simp [histEvs, histWorld, ih, List.append_assoc]

theorem histLog_append (w : KW) (a b : List Kernel.AnyOp) :
    histLog w (a ++ b) = histLog w a ++ histLog (histWorld w a) b := by
  induction a generalizing w with
  | nil => simp [histLog, histWorld]
  | cons op rest ih => simp [histLog, histWorld, ih]

theorem advH_advH (w : World KState) (a b : List Kernel.AnyOp) (r r' : List L1 × Bool) :
    advH (advH w a r) b r' = advH w (a ++ b) r' := by
  simp [advH, histWorld_append, histEvs_append, histLog_append, List.append_assoc]

/-- one public call on the pristine table -/
theorem run_op (f : Nat) (op : Kernel.AnyOp) (w : World KState) (hw : w.table = pristine) :
    ∃ reg', runBlock kCfg (f + 3) (.attempt (.op (opProg op))) w = (advH w [op] reg', none) := by
  obtain ⟨r0, h0⟩ := calls2 f (callTree w.ir.w op)
    (.get fun st' => .put { st' with w := (Kernel.stepAny w.ir.w op).1 }
        (.done (outOf (okOf (Kernel.stepAny w.ir.w op).2)))) w hw
  refine ⟨r0, ?_⟩
  have h1 : runProg (dispatch kCfg (f + 3)) (opProg op) w =
      runProg (dispatch kCfg (f + 3)) (callL2s (callTree w.ir.w op)
        (.get fun st' => .put { st' with w := (Kernel.stepAny w.ir.w op).1 }
          (.done (outOf (okOf (Kernel.stepAny w.ir.w op).2))))) w := rfl
  simp only [runBlock, h1, h0, runProg]
  simp [adv, advH, histWorld, histEvs, histLog]

theorem advH_table (w : World KState) (ops : List Kernel.AnyOp) (r : List L1 × Bool) :
    (advH w ops r).table = w.table := rfl

theorem run_hist (f : Nat) : ∀ (ops : List Kernel.AnyOp) (w : World KState), w.table = pristine →
    ∃ reg', runBlock kCfg (f + 3) (histBlock ops) w = (advH w ops reg', none) := by
  intro ops
  induction ops with
  | nil => intro w _; exact ⟨w.ir.reg, by simp [histBlock, runBlock, advH_nil]⟩
  | cons op rest ih =>
    intro w hw
    obtain ⟨r1, h1⟩ := run_op f op w hw
    obtain ⟨r2, h2⟩ := ih (advH w [op] r1) hw
    refine ⟨r2, ?_⟩
    show runBlock kCfg (f + 3) (.seq (.attempt (.op (opProg op))) (histBlock rest)) w = _
    rw [runBlock, h1]
    simp only []
    rw [h2, advH_advH]
    rfl

theorem strip_histBlock (ops : List Kernel.AnyOp) : strip (histBlock ops) = histBlock ops := by
  induction ops with
  | nil => rfl
  | cons op rest ih => simp [histBlock, strip, ih]

/-- any kernel history with its journals removed, on the pristine table -/
theorem run_kblk_plain (f : Nat) : ∀ (kb : KBlk) (w : World KState), w.table = pristine →
    ∃ reg', runBlock kCfg (f + 3) (strip kb.toBlock) w = (advH w kb.allOps reg', none) := by
  intro kb
  induction kb with
  | ops l => intro w hw; rw [KBlk.toBlock, strip_histBlock]; exact run_hist f l w hw
  | seq a b iha ihb =>
    intro w hw
    obtain ⟨r1, h1⟩ := iha w hw
    obtain ⟨r2, h2⟩ := ihb (advH w a.allOps r1) hw
    refine ⟨r2, ?_⟩
    show runBlock kCfg (f + 3) (.seq (strip a.toBlock) (strip b.toBlock)) w = _
    rw [runBlock, h1]
    simp only []
    rw [h2, advH_advH]
    rfl
  | withJ j body ih => intro w hw; exact ih w hw

/-! ### the hypotheses of `C20_transparent` hold for `kCfg` -/

theorem callL1s_out (disp : Nat → Obj → Val → World KState → World KState × Outcome) (o : Outcome) :
    ∀ (kids : List L1) (w : World KState), (runProg disp (callL1s kids (.done o)) w).2 = o := by
  intro kids
  induction kids with
  | nil => intro w; rfl
  | cons c cs ih => intro w; rw [callL1s, runProg_callL1]; exact ih _

theorem procNone_kCfg : ProcNone kCfg := by
  intro k _ disp self arg w v hv
  have h : (runProg disp (kCfg.impl k self arg) w).2 = outOf w.ir.reg.2 :=
    callL1s_out disp _ w.ir.reg.1 w
  rw [h] at hv
  cases hr : w.ir.reg.2 <;> simp [outOf, hr] at hv
  exact hv.symm

theorem detailsOk_kCfg : DetailsOk kCfg := fun _ _ _ s => ⟨s, rfl⟩

theorem detailsPure_kCfg : DetailsPure kCfg := by
  intro k self arg s s' h
  simp [kCfg] at h
  exact h.symm

theorem allCall_evs0 (c : L0) : ∀ e ∈ evs0 c, isCall e = true := by
  intro e he
  simp [evs0] at he
  rcases he with h | h <;> subst h <;> rfl

theorem allCall_evs1 (c : L1) : ∀ e ∈ evs1 c, isCall e = true := by
  intro e he
  simp only [evs1, List.mem_append, List.mem_singleton, List.mem_flatMap] at he
  rcases he with (h | ⟨k, _, hk⟩) | h
  · subst h; rfl
  · exact allCall_evs0 k e hk
  · subst h; rfl

theorem allCall_evs2 (c : L2) : ∀ e ∈ evs2 c, isCall e = true := by
  intro e he
  simp only [evs2, List.mem_append, List.mem_singleton, List.mem_flatMap] at he
  rcases he with (h | ⟨k, _, hk⟩) | h
  · subst h; rfl
  · exact allCall_evs1 k e hk
  · subst h; rfl

theorem allCall_histEvs (w : KW) (ops : List Kernel.AnyOp) : ∀ e ∈ histEvs w ops, isCall e = true := by
  induction ops generalizing w with
  | nil => intro e he; simp [histEvs] at he
  | cons op rest ih =>
    intro e he
    simp only [histEvs, List.mem_append, List.mem_flatMap] at he
    rcases he with ⟨t, _, ht⟩ | h
    · exact allCall_evs2 t e ht
    · exact ih _ e h

theorem isCall_histEvs (w : KW) (ops : List Kernel.AnyOp) :
    (histEvs w ops).filter isCall = histEvs w ops :=
  List.filter_eq_self.mpr (allCall_histEvs w ops)

end IrVerif.Journal

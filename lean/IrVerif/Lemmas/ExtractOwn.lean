/-
C18 follow-up: the ownership checks of the clone's `Graph(...)` constructors pass when no value is listed by two
graphs of the cloned tree and no graph input / initializer of the tree is a node output of the tree
(`ownStaticB`): whenever the key-level clone (`cloneG`) returns, the clone with ownership checks (`cloneGO`)
returns with the same keys.
-/
import IrVerif.Lemmas.ExtractSucceeds
namespace IrVerif.Extract

/-- no value of the first list occurs in the second -/
def DisjL (a b : List VId) : Prop := ∀ v, v ∈ a → ¬ v ∈ b

theorem disjFam_of_B : ∀ {l : List (List VId)}, disjFamB l = true → l.Pairwise DisjL
  | [], _ => List.Pairwise.nil
  | a :: rest, h => by
    rw [disjFamB, Bool.and_eq_true] at h
    refine List.Pairwise.cons ?_ (disjFam_of_B h.2)
    intro b hb v hv
    have := List.all_eq_true.mp (List.all_eq_true.mp h.1 b hb) v hv
    simpa using this

/-- the hypotheses threaded through the traversal: the clones owned so far are clones of values of `P`, the
    value lists of the part still to clone avoid `P` and each other, and the graph inputs / initializers still
    to come are not node outputs bound so far or in that part -/
structure OwnPre (s : CSt) (P : List VId) (post : List (List VId)) (ii oo : List VId) : Prop where
  owned : ∀ c, c ∈ s.owned → c.1 ∈ P
  avoid : ∀ L, L ∈ post → ∀ v, v ∈ L → ¬ v ∈ P
  disj : post.Pairwise DisjL
  fresh : ∀ v, v ∈ ii → ¬ v ∈ s.outs ∧ ¬ v ∈ oo

def OwnPost (s s' : CSt) (m' : List VId) (P : List VId) (post : List (List VId)) (oo : List VId) : Prop :=
  s'.m = m' ∧ (∀ c, c ∈ s'.owned → c.1 ∈ P ++ post.flatten) ∧ s'.outs = s.outs ++ oo

mutual
  theorem ownG : ∀ (t : GraphT) (s : CSt) (P : List VId) (m' : List VId),
      cloneG s.m t = .ok m' → OwnPre s P (postG t) (insInitsG t) (outsAllG t) →
      ∃ s', cloneGO s t = .ok s' ∧ OwnPost s s' m' P (postG t) (outsAllG t)
    | .mk gid ins inits outs ns, s, P, m', h, hpre => by
      rw [cloneG] at h
      cases hN : cloneNs (s.m ++ ins ++ inits) ns with
      | error e => rw [hN] at h; cases h
      | ok m1 =>
        rw [hN] at h
        simp only [] at h
        split at h
        · rename_i hall
          have hm : m' = m1 := by cases h; rfl
          subst hm
          have hdisj := hpre.disj
          rw [postG, List.pairwise_append] at hdisj
          obtain ⟨hd1, _, hcross⟩ := hdisj
          obtain ⟨s2, hs2, hm2, hown2, houts2⟩ := ownNs ns { s with m := s.m ++ ins ++ inits } P m' hN
            ⟨hpre.owned,
             fun L hL => hpre.avoid L (by rw [postG]; exact List.mem_append_left _ hL),
             hd1,
             fun v hv => hpre.fresh v (by rw [insInitsG]; exact List.mem_append_right _ hv)⟩
          have hL : ∀ v, v ∈ ins ++ inits ++ outs → ∀ c, c ∈ s2.owned → c.1 ≠ v := by
            intro v hv c hc he
            have hcP := hown2 c hc
            rw [he, List.mem_append] at hcP
            rcases hcP with hcP | hcP
            · exact hpre.avoid (ins ++ inits ++ outs) (by rw [postG]; simp) v hv hcP
            · obtain ⟨L', hL', hvL'⟩ := List.mem_flatten.mp hcP
              exact hcross L' hL' (ins ++ inits ++ outs) (by simp) v hvL' hv
          have hgen : ∀ v, v ∈ ins ++ inits → (s.cur v).2 = 0 := by
            intro v hv
            have := (hpre.fresh v (by rw [insInitsG]; exact List.mem_append_left _ hv)).1
            exact List.count_eq_zero.mpr this
          have hnotOwned : ∀ (st : CSt) v, v ∈ ins ++ inits ++ outs → s2.owned.contains (st.cur v) = false := by
            intro st v hv
            cases hc : s2.owned.contains (st.cur v) with
            | false => rfl
            | true =>
              exfalso
              have hmem : st.cur v ∈ s2.owned := by simpa using hc
              exact hL v hv _ hmem rfl
          have hgenB : ∀ v, v ∈ ins ++ inits → ((s.cur v).2 != 0) = false := by
            intro v hv
            rw [hgen v hv]; rfl
          have h1 : (ins.map s.cur).any (fun c => s2.owned.contains c || c.2 != 0) = false := by
            rw [List.any_eq_false]
            intro c hc
            obtain ⟨v, hv, rfl⟩ := List.mem_map.mp hc
            rw [hnotOwned s v (by simp [hv]), hgenB v (by simp [hv])]
            simp
          have h2 : (outs.map s2.cur).any (fun c => s2.owned.contains c) = false := by
            rw [List.any_eq_false]
            intro c hc
            obtain ⟨v, hv, rfl⟩ := List.mem_map.mp hc
            rw [hnotOwned s2 v (by simp [hv])]
            simp
          have h3 : (inits.map s.cur).any (fun c => s2.owned.contains c || c.2 != 0) = false := by
            rw [List.any_eq_false]
            intro c hc
            obtain ⟨v, hv, rfl⟩ := List.mem_map.mp hc
            rw [hnotOwned s v (by simp [hv]), hgenB v (by simp [hv])]
            simp
          have hbad : ((ins.map s.cur).any (fun c => s2.owned.contains c || c.2 != 0) ||
              (outs.map s2.cur).any (fun c => s2.owned.contains c) ||
              (inits.map s.cur).any (fun c => s2.owned.contains c || c.2 != 0)) = false := by
            rw [h1, h2, h3]; rfl
          refine ⟨{ s2 with owned := s2.owned ++ ins.map s.cur ++ outs.map s2.cur ++ inits.map s.cur }, ?_,
            hm2, ?_, ?_⟩
          · rw [cloneGO]
            simp only []
            rw [hs2]
            simp only []
            rw [hm2] at *
            rw [if_pos hall]
            simp only [hbad, Bool.false_eq_true, if_false]
          · intro c hc
            simp only [List.mem_append, List.mem_map] at hc
            rw [postG, List.flatten_append, List.mem_append, List.mem_append]
            rcases hc with ((hc | ⟨v, hv, rfl⟩) | ⟨v, hv, rfl⟩) | ⟨v, hv, rfl⟩
            · rcases List.mem_append.mp (hown2 c hc) with h' | h'
              · exact Or.inl h'
              · exact Or.inr (Or.inl h')
            · exact Or.inr (Or.inr (by simp [CSt.cur, hv]))
            · exact Or.inr (Or.inr (by simp [CSt.cur, hv]))
            · exact Or.inr (Or.inr (by simp [CSt.cur, hv]))
          · rw [outsAllG]; exact houts2
        · cases h
  theorem ownNs : ∀ (ns : List NodeT) (s : CSt) (P : List VId) (m' : List VId),
      cloneNs s.m ns = .ok m' → OwnPre s P (postNs ns) (insInitsNs ns) (outsAllNs ns) →
      ∃ s', cloneNsO s ns = .ok s' ∧ OwnPost s s' m' P (postNs ns) (outsAllNs ns)
    | [], s, P, m', h, _ => by
      rw [cloneNs] at h; cases h
      exact ⟨s, by rw [cloneNsO], rfl, fun c hc => by simpa [postNs] using ‹OwnPre s P _ _ _›.owned c hc,
        by simp [outsAllNs]⟩
    | n :: ns, s, P, m', h, hpre => by
      rw [cloneNs] at h
      cases hN : cloneN s.m n with
      | error e => rw [hN] at h; cases h
      | ok m1 =>
        rw [hN] at h
        simp only [] at h
        have hdisj := hpre.disj
        rw [postNs, List.pairwise_append] at hdisj
        obtain ⟨hd1, hd2, hcross⟩ := hdisj
        obtain ⟨s1, hs1, hm1, hown1, houts1⟩ := ownN n s P m1 hN
          ⟨hpre.owned, fun L hL => hpre.avoid L (by rw [postNs]; exact List.mem_append_left _ hL), hd1,
           fun v hv => by
             have := hpre.fresh v (by rw [insInitsNs]; exact List.mem_append_left _ hv)
             exact ⟨this.1, fun ho => this.2 (by rw [outsAllNs]; exact List.mem_append_left _ ho)⟩⟩
        obtain ⟨s2, hs2, hm2, hown2, houts2⟩ := ownNs ns s1 (P ++ (postN n).flatten) m' (by rw [hm1]; exact h)
          ⟨hown1,
           fun L hL v hv hP => by
             rcases List.mem_append.mp hP with hP | hP
             · exact hpre.avoid L (by rw [postNs]; exact List.mem_append_right _ hL) v hv hP
             · obtain ⟨L', hL', hvL'⟩ := List.mem_flatten.mp hP
               exact hcross L' hL' L hL v hvL' hv,
           hd2,
           fun v hv => by
             have := hpre.fresh v (by rw [insInitsNs]; exact List.mem_append_right _ hv)
             refine ⟨?_, fun ho => this.2 (by rw [outsAllNs]; exact List.mem_append_right _ ho)⟩
             rw [houts1, List.mem_append]
             rintro (ho | ho)
             · exact this.1 ho
             · exact this.2 (by rw [outsAllNs]; exact List.mem_append_left _ ho)⟩
        refine ⟨s2, by rw [cloneNsO, hs1]; exact hs2, hm2, ?_, ?_⟩
        · intro c hc
          have := hown2 c hc
          rw [postNs, List.flatten_append]
          simpa [List.append_assoc] using this
        · rw [houts2, houts1, outsAllNs, List.append_assoc]
  theorem ownN : ∀ (n : NodeT) (s : CSt) (P : List VId) (m' : List VId),
      cloneN s.m n = .ok m' → OwnPre s P (postN n) (insInitsN n) (outsAllN n) →
      ∃ s', cloneNO s n = .ok s' ∧ OwnPost s s' m' P (postN n) (outsAllN n)
    | .mk ins outs bs, s, P, m', h, hpre => by
      rw [cloneN] at h
      split at h
      · rename_i hin
        cases hG : cloneGs s.m bs with
        | error e => rw [hG] at h; cases h
        | ok m1 =>
          rw [hG] at h
          simp only [] at h
          cases h
          obtain ⟨s1, hs1, hm1, hown1, houts1⟩ := ownGs bs s P m1 hG
            ⟨hpre.owned, fun L hL => hpre.avoid L (by rw [postN]; exact hL), by simpa [postN] using hpre.disj,
             fun v hv => by
               have := hpre.fresh v (by rw [insInitsN]; exact hv)
               exact ⟨this.1, fun ho => this.2 (by rw [outsAllN]; exact List.mem_append_left _ ho)⟩⟩
          refine ⟨{ s1 with m := s1.m ++ outs, outs := s1.outs ++ outs }, ?_, ?_, ?_, ?_⟩
          · rw [cloneNO, if_pos hin, hs1]
          · show s1.m ++ outs = m1 ++ outs
            rw [hm1]
          · intro c hc
            rw [postN]
            exact hown1 c hc
          · show s1.outs ++ outs = s.outs ++ outsAllN (.mk ins outs bs)
            rw [houts1, outsAllN, List.append_assoc]
      · cases h
  theorem ownGs : ∀ (gs : List GraphT) (s : CSt) (P : List VId) (m' : List VId),
      cloneGs s.m gs = .ok m' → OwnPre s P (postGs gs) (insInitsGs gs) (outsAllGs gs) →
      ∃ s', cloneGsO s gs = .ok s' ∧ OwnPost s s' m' P (postGs gs) (outsAllGs gs)
    | [], s, P, m', h, hpre => by
      rw [cloneGs] at h; cases h
      exact ⟨s, by rw [cloneGsO], rfl, fun c hc => by simpa [postGs] using hpre.owned c hc,
        by simp [outsAllGs]⟩
    | g :: gs, s, P, m', h, hpre => by
      rw [cloneGs] at h
      cases hG : cloneG s.m g with
      | error e => rw [hG] at h; cases h
      | ok m1 =>
        rw [hG] at h
        simp only [] at h
        have hdisj := hpre.disj
        rw [postGs, List.pairwise_append] at hdisj
        obtain ⟨hd1, hd2, hcross⟩ := hdisj
        obtain ⟨s1, hs1, hm1, hown1, houts1⟩ := ownG g s P m1 hG
          ⟨hpre.owned, fun L hL => hpre.avoid L (by rw [postGs]; exact List.mem_append_left _ hL), hd1,
           fun v hv => by
             have := hpre.fresh v (by rw [insInitsGs]; exact List.mem_append_left _ hv)
             exact ⟨this.1, fun ho => this.2 (by rw [outsAllGs]; exact List.mem_append_left _ ho)⟩⟩
        obtain ⟨s2, hs2, hm2, hown2, houts2⟩ := ownGs gs s1 (P ++ (postG g).flatten) m' (by rw [hm1]; exact h)
          ⟨hown1,
           fun L hL v hv hP => by
             rcases List.mem_append.mp hP with hP | hP
             · exact hpre.avoid L (by rw [postGs]; exact List.mem_append_right _ hL) v hv hP
             · obtain ⟨L', hL', hvL'⟩ := List.mem_flatten.mp hP
               exact hcross L' hL' L hL v hvL' hv,
           hd2,
           fun v hv => by
             have := hpre.fresh v (by rw [insInitsGs]; exact List.mem_append_right _ hv)
             refine ⟨?_, fun ho => this.2 (by rw [outsAllGs]; exact List.mem_append_right _ ho)⟩
             rw [houts1, List.mem_append]
             rintro (ho | ho)
             · exact this.1 ho
             · exact this.2 (by rw [outsAllGs]; exact List.mem_append_left _ ho)⟩
        refine ⟨s2, by rw [cloneGsO, hs1]; exact hs2, hm2, ?_, ?_⟩
        · intro c hc
          have := hown2 c hc
          rw [postGs, List.flatten_append]
          simpa [List.append_assoc] using this
        · rw [houts2, houts1, outsAllGs, List.append_assoc]
end

/-- the ownership checks pass on a tree cloned with a fresh value map -/
theorem cloneGO_of_static {t : GraphT} {m' : List VId} (hs : ownStaticB t = true)
    (h : cloneG [] t = .ok m') : ∃ s, cloneGO {} t = .ok s := by
  unfold ownStaticB at hs
  rw [Bool.and_eq_true] at hs
  have hpre : OwnPre {} [] (postG t) (insInitsG t) (outsAllG t) := by
    refine ⟨?_, ?_, disjFam_of_B hs.1, ?_⟩
    · intro c hc; cases hc
    · intro L _ v _ hP; cases hP
    · intro v hv
      have := List.all_eq_true.mp hs.2 v hv
      exact ⟨fun ho => (by cases ho), (by simpa using this)⟩
  obtain ⟨s, hs', _⟩ := ownG t {} [] m' h hpre
  exact ⟨s, hs'⟩

end IrVerif.Extract

/-
Every model the extended deserializer returns satisfies the source-side certificate of the device configurations
`DevCertG` (`Lemmas/ScopeExtDevIso.lean`): the sharding values stored at a node are what `resolveShard (top1 :: outer)`
returned, and the scope tables of the run are the tables of the certificate (`deserGraph_tables`,
`repl_resolveInputs`); the configurations of a node are written once (`Ext.setDevs` at the node's creation index)
and kept by the rest of the run (`deserNodesE_devX` & co, `Lemmas/ScopeExtDev.lean`).
-/
import IrVerif.Lemmas.ScopeExtDevIso
import IrVerif.Lemmas.ScopeExtDev
import IrVerif.Lemmas.ScopeExtDeser
namespace IrVerif.Scope

/-! ### the certificate does not look at `node.graph` -/

theorem DevCertNs_setGraph (V : Nat → ValueS) (X : Ext) (outer : List Table) (gid : Nat) : ∀ (ns : List NodeT) (T : Table),
    DevCertNs V X outer T (ns.map (NodeT.setGraph gid)) = DevCertNs V X outer T ns := by
  intro ns
  induction ns with
  | nil => intro T; rfl
  | cons n ns ih =>
    intro T
    obtain ⟨i, g, a, b, c⟩ := n
    simp only [List.map_cons, NodeT.setGraph, DevCertNs, DevCertN, replN, ih]

/-! ### resolved sharding values -/

theorem resolveShard_val' {scopes : List Table} {n : Name} {v : Nat} (h : resolveShard scopes n = ShardV.val v) :
    n ≠ "" ∧ resolve n scopes = some v := by
  unfold resolveShard at h
  split at h
  · simp at h
  · rename_i hn
    split at h
    · rename_i w hw
      simp only [ShardV.val.injEq] at h
      subst h
      exact ⟨hn, hw⟩
    · simp at h

theorem resolveShard_fresh' {scopes : List Table} {n m : Name} (h : resolveShard scopes n = ShardV.fresh m) :
    n ≠ "" ∧ m = n ∧ resolve n scopes = none := by
  unfold resolveShard at h
  split at h
  · simp at h
  · rename_i hn
    split at h
    · simp at h
    · rename_i hw
      simp only [ShardV.fresh.injEq] at h
      exact ⟨hn, h.symm, hw⟩

/-- what `deserialize_node_device_configuration` stores satisfies the certificate in the scopes it was resolved in -/
theorem devsCert_deserDevR (V : Nat → ValueS) (scopes : List Table) (hN : ∀ T ∈ scopes, NamedV V T) (devs : List DevP) :
    DevsCert V scopes (devs.map (deserDevR scopes)) := by
  intro d hd s hs
  simp only [List.mem_map] at hd
  obtain ⟨dp, _, rfl⟩ := hd
  simp only [deserDevR, List.mem_map] at hs
  obtain ⟨sp, _, rfl⟩ := hs
  refine ⟨fun v hv => ?_, fun n hn => ?_⟩
  · obtain ⟨hne, hr⟩ := resolveShard_val' hv
    obtain ⟨t, ht, hm⟩ := resolve_mem sp.1 scopes v hr
    have hname : (V v).name = some sp.1 := hN t ht _ hm
    refine ⟨by simp [nameTruthy, hname, hne], ?_⟩
    rw [nm_of_name hname]
    exact hr
  · obtain ⟨hne, rfl, hr⟩ := resolveShard_fresh' hn
    exact ⟨hne, hr⟩

/-! ### the extended run satisfies the certificate -/

mutual
theorem deser_dev_graph :
    ∀ (p : GraphE) (st : Store) (x : Ext) (outer : List Table) (st' : Store) (x' : Ext) (g : GraphT),
      Fresh st → TablesLt st outer → (∀ T ∈ outer, Named st T) →
      deserGraphE st x outer p = .ok (st', x', g) →
      ∀ (V : Nat → ValueS) (X : Ext), NamesAgree V st' → (∀ v, st.nv ≤ v → v < st'.nv → CellAgree V st' v) →
        (∀ k, k < st'.nn → X.devs k = x'.devs k) → DevCertG V X outer g
  | .mk inputs inits vinfo nodes outputs quant, st, x, outer, st', x', g, hf, ho, hon, h, V, X, hV, hC, hX => by
    simp only [deserGraphE] at h
    -- inputs
    obtain ⟨i1, i2⟩ := deserInputsE_erase (quantTable quant) inputs st x
    generalize deserInputsE st x (quantTable quant) inputs = rI at h i1 i2
    obtain ⟨st1, x1, ins⟩ := rI
    simp only at h i1 i2
    have h1 : deserInputs st (inputs.map VInfoE.erase) = (st1, ins) := Prod.ext i1.symm i2.symm
    -- initializers
    obtain ⟨j1, j2, j3⟩ := deserInitsE_erase (vinfoTableE vinfo) (quantTable quant) inits st1 x1
      (inputTable (inputs.map VInfoE.erase) ins)
    generalize deserInitsE st1 x1 (inputTable (inputs.map VInfoE.erase) ins) (vinfoTableE vinfo) (quantTable quant)
      inits = rA at h j1 j2 j3
    obtain ⟨st2, x2, tbl2, iv⟩ := rA
    simp only at h j1 j2 j3
    have h2 : deserInits st1 (inputTable (inputs.map VInfoE.erase) ins) (vinfoTable (vinfo.map VInfoE.erase)) inits =
        (st2, tbl2, iv) := by
      rw [← eraseVT_vinfoTableE]
      exact Prod.ext j1.symm (Prod.ext j2.symm j3.symm)
    split at h
    · simp at h
    · rename_i st3 x3 tbl3 h3
      have e3 := declareNodesE_erase (vinfoTableE vinfo) (quantTable quant) nodes st2 x2 tbl2
      rw [h3, eraseVT_vinfoTableE] at e3
      simp only [dropX] at e3
      split at h
      · simp at h
      · rename_i st4 x4 tbl4 ns h4
        have e4 := deserNodesE_erase nodes st3 x3 tbl3 outer (vinfoTableE vinfo) (quantTable quant)
        rw [h4, eraseVT_vinfoTableE] at e4
        simp only [dropX] at e4
        -- outputs and the graph object
        obtain ⟨o1, o2⟩ := deserOutputsE_erase tbl4 outputs st4 x4
        have dO := deserOutputsE_devs tbl4 outputs st4 x4
        generalize deserOutputsE st4 x4 tbl4 outputs = rO at h o1 o2 dO
        obtain ⟨st5, x5, outs⟩ := rO
        simp only [Except.ok.injEq, Prod.mk.injEq] at h o1 o2 dO
        obtain ⟨rfl, rfl, rfl⟩ := h
        have h5 : deserOutputs st4 tbl4 (outputs.map VInfoE.erase) = (st5, outs) := Prod.ext o1.symm o2.symm
        have GT := deserGraph_tables (inputs.map VInfoE.erase) inits (vinfo.map VInfoE.erase) (eraseNs nodes)
          (outputs.map VInfoE.erase) st outer hf ho hon st1 ins h1 st2 tbl2 iv h2 st3 tbl3 e3.symm st4 tbl4 ns e4.symm
          st5 outs h5 V hV hC
        have hnn5 : st5.nn = st4.nn := by rw [o1]; exact deserOutputs_nn _ _ _
        rw [(mkGraph_fst_counters st5 ins outs ns iv).2.1, hnn5] at hX
        rw [mkGraph_snd]
        simp only [DevCertG, flatMap_liveOuts_setGraph, DevCertNs_setGraph, GT.t1, GT.t2, GT.t3]
        exact deser_dev_nodes nodes st3 x3 tbl3 outer (vinfoTableE vinfo) (quantTable quant) st.nv st4 x4 tbl4 ns
          GT.f3 GT.ok3 GT.ho3 GT.le3 GT.n3 GT.hon3 h4 GT.hdecl V X GT.hV4 GT.hCN
          (fun k hk => by rw [hX k hk, dO])
theorem deser_dev_nodes :
    ∀ (nps : List NodeE) (st : Store) (x : Ext) (top : Table) (outer : List Table) (vt : List (Name × Info × SS))
      (qt : List (Name × SS)) (b : Nat) (st' : Store) (x' : Ext) (top' : Table) (nts : List NodeT),
      Fresh st → TblOK st b top → TablesLt st outer → b ≤ st.nv → Named st top → (∀ T ∈ outer, Named st T) →
      deserNodesE st x top outer vt qt nps = .ok (st', x', top', nts) →
      (∀ n ∈ eraseNs nps, ∀ y ∈ n.outputs, y ≠ "" → ∃ u, top.lookup y = some u) →
      ∀ (V : Nat → ValueS) (X : Ext), NamesAgree V st' →
        (∀ v, st.nv ≤ v → v < st'.nv → v ∉ top'.map (·.2) → CellAgree V st' v) →
        (∀ k, k < st'.nn → X.devs k = x'.devs k) → DevCertNs V X outer top nts
  | [], st, x, top, outer, vt, qt, b, st', x', top', nts, _, _, _, _, _, _, h, _, V, X, _, _, _ => by
    simp only [deserNodesE, Except.ok.injEq, Prod.mk.injEq] at h
    obtain ⟨_, _, _, rfl⟩ := h
    trivial
  | n :: nps, st, x, top, outer, vt, qt, b, st', x', top', nts, hf, hok, ho, hb, hn, hon, h, hdecl, V, X, hV, hC,
      hX => by
    simp only [deserNodesE] at h
    split at h
    · simp at h
    · rename_i st1 x1 top1 nt h1
      split at h
      · simp at h
      · rename_i st2 x2 top2 nts' h2
        simp only [Except.ok.injEq, Prod.mk.injEq] at h
        obtain ⟨rfl, rfl, rfl, rfl⟩ := h
        simp only [eraseNs, List.mem_cons, forall_eq_or_imp] at hdecl
        have e1 := deserNodeE_erase n st x top outer vt qt
        rw [h1] at e1
        simp only [dropX] at e1
        have e2 := deserNodesE_erase nps st1 x1 top1 outer vt qt
        rw [h2] at e2
        simp only [dropX] at e2
        obtain ⟨f1, m1, ok1, stb1⟩ := deserNode_struct _ st top outer _ b st1 top1 nt hf hok ho hb e1.symm
        obtain ⟨_, n1⟩ := deserNode_tree _ st top outer _ b st1 top1 nt hf hok ho hb hn e1.symm
        obtain ⟨_, m2, _, stb2⟩ := deserNodes_struct _ st1 top1 outer _ b st2 top2 nts' f1 ok1
          (ho.mono m1.nv_le) (Nat.le_trans hb m1.nv_le) e2.symm
        have p2 := deserNodes_prim2 st1.nv _ st1 top1 outer _ b st2 top2 nts' f1 ok1 (ho.mono m1.nv_le)
          (Nat.le_trans hb m1.nv_le) (Nat.le_refl _) e2.symm
        have hV1 : NamesAgree V st1 := fun v hv => by rw [hV v (Nat.lt_of_lt_of_le hv m2.nv_le), m2.names v hv]
        have hon1 : ∀ T ∈ outer, Named st1 T := fun T hT => named_mono (hon T hT) (ho T hT) m1.names
        have hC1 : ∀ v, st.nv ≤ v → v < st1.nv → v ∉ top1.map (·.2) → CellAgree V st1 v := fun v hge hlt hnt => by
          have hnt' : v ∉ top2.map (·.2) := by
            intro hm
            simp only [List.mem_map] at hm
            obtain ⟨e, he, rfl⟩ := hm
            rcases stb2.grow e he with h' | h'
            · exact hnt (List.mem_map_of_mem h')
            · omega
          have := hC v hge (Nat.lt_of_lt_of_le hlt m2.nv_le) hnt'
          rw [CellAgree, (p2.cell v hlt).1, (p2.cell v hlt).2] at this
          exact this
        obtain ⟨_, fr2, _⟩ := deserNodesE_devX nps st1 x1 top1 outer vt qt b st2 x2 top2 nts' f1 ok1 (ho.mono m1.nv_le)
          (Nat.le_trans hb m1.nv_le) n1 hon1 h2
        have hX1 : ∀ k, k < st1.nn → X.devs k = x1.devs k := fun k hk => by
          rw [hX k (Nat.lt_of_lt_of_le hk m2.nn_le), fr2 k hk]
        obtain ⟨a1, _, _, _⟩ := deser_repl_node _ st top outer _ b st1 top1 nt hf hok ho hb hn hon e1.symm
          hdecl.1 V hV1 hC1
        have r1 := deser_dev_node n st x top outer vt qt b st1 x1 top1 nt hf hok ho hb hn hon h1 hdecl.1 V X hV1
          hC1 hX1
        have r2 := deser_dev_nodes nps st1 x1 top1 outer vt qt b st2 x2 top2 nts' f1 ok1 (ho.mono m1.nv_le)
          (Nat.le_trans hb m1.nv_le) n1 hon1 h2
          (fun n' hn' y hy hne => by
            obtain ⟨u, hu⟩ := hdecl.2 n' hn' y hy hne
            exact ⟨u, stb1.lookup y u hu⟩)
          V X hV (fun v hge hlt hnt => hC v (Nat.le_trans m1.nv_le hge) hlt hnt) hX
        simp only [DevCertNs, a1]
        exact ⟨r1, r2⟩
theorem deser_dev_node :
    ∀ (n : NodeE) (st : Store) (x : Ext) (top : Table) (outer : List Table) (vt : List (Name × Info × SS))
      (qt : List (Name × SS)) (b : Nat) (st' : Store) (x' : Ext) (top' : Table) (nt : NodeT),
      Fresh st → TblOK st b top → TablesLt st outer → b ≤ st.nv → Named st top → (∀ T ∈ outer, Named st T) →
      deserNodeE st x top outer vt qt n = .ok (st', x', top', nt) →
      (∀ y ∈ (eraseN n).outputs, y ≠ "" → ∃ u, top.lookup y = some u) →
      ∀ (V : Nat → ValueS) (X : Ext), NamesAgree V st' →
        (∀ v, st.nv ≤ v → v < st'.nv → v ∉ top'.map (·.2) → CellAgree V st' v) →
        (∀ k, k < st'.nn → X.devs k = x'.devs k) → DevCertN V X outer top nt
  | .mk inputs outputs devs subs, st, x, top, outer, vt, qt, b, st', x', top', nt, hf, hok, ho, hb, hn, hon, h,
      _, V, X, hV, hC, hX => by
    simp only [deserNodeE] at h
    obtain ⟨k1, k2, k3⟩ := resolveInputsE_erase outer vt qt inputs st x top
    generalize resolveInputsE st x top outer vt qt inputs = rR at h k1 k2 k3
    obtain ⟨st1, x1, top1, ins⟩ := rR
    simp only at h k1 k2 k3
    have hR : resolveInputs st top outer (eraseVT vt) inputs = (st1, top1, ins) :=
      Prod.ext k1.symm (Prod.ext k2.symm k3.symm)
    obtain ⟨q1, ok1, stb1, _⟩ := resolveInputs_spec outer (eraseVT vt) inputs st top b hok ho hb
    have n1 := resolveInputs_named outer (eraseVT vt) inputs st top hn hok.lt
    rw [hR] at q1 ok1 stb1 n1
    simp only at q1 ok1 stb1 n1
    have f1 := q1.fresh hf
    split at h
    · simp at h
    · rename_i st2 outs h2
      obtain ⟨q2, _, _, _, _⟩ := lookupOutputs_spec _ outputs _ _ _ h2
      have f2 := q2.fresh f1
      have hts : TablesLt st2 (top1 :: outer) :=
        TablesLt.cons (ok1.lt.mono q2.nv_le) (ho.mono (Nat.le_trans q1.nv_le q2.nv_le))
      split at h
      · simp at h
      · rename_i st3 x3 gs h3
        simp only [Except.ok.injEq, Prod.mk.injEq] at h
        obtain ⟨rfl, rfl, rfl, rfl⟩ := h
        have e3 := deserSubsE_erase subs st2 x1 (top1 :: outer)
        rw [h3] at e3
        simp only [dropX] at e3
        obtain ⟨f3, m3⟩ := deserSubs_struct _ st2 _ st3 gs f2 hts e3.symm
        have hk := mkNode_keeps st3 ins outs gs
        have hnv4 := mkNode_fst_nv st3 ins outs gs
        have hV3 : NamesAgree V st3 := fun v hv => by rw [hV v (by rw [hnv4]; exact hv), (hk v).1]
        have hV2 : NamesAgree V st2 := fun v hv => by rw [hV3 v (Nat.lt_of_lt_of_le hv m3.nv_le), m3.names v hv]
        have hV1 : NamesAgree V st1 := fun v hv => by rw [hV2 v (Nat.lt_of_lt_of_le hv q2.nv_le), q2.names v hv]
        have hVst : NamesAgree V st := fun v hv => by rw [hV1 v (Nat.lt_of_lt_of_le hv q1.nv_le), q1.names v hv]
        have hOV : ∀ T ∈ outer, NamedV V T := fun T hT => NamedV.of_named (hon T hT) (ho T hT) hVst
        have RR := repl_resolveInputs V outer (eraseVT vt) hOV inputs st top (NamedV.of_named hn hok.lt hVst)
          (by rw [hR]; exact hV1)
        rw [hR] at RR
        simp only at RR
        obtain ⟨r1, _, _, r4⟩ := RR
        have hon2 : ∀ T ∈ top1 :: outer, Named st2 T := by
          intro T hT
          simp only [List.mem_cons] at hT
          rcases hT with rfl | hT
          · exact named_mono n1 ok1.lt q2.names
          · exact named_mono (hon T hT) (ho T hT) (fun v hv => by
              rw [q2.names v (Nat.lt_of_lt_of_le hv q1.nv_le), q1.names v hv])
        rw [mkNode_fst_nn] at hX
        have hX3 : ∀ k, k < st3.nn → X.devs k = x3.devs k := fun k hk => by
          rw [hX k (Nat.lt_succ_of_lt hk)]
          simp only [Ext.setDevs]
          rw [if_neg (Nat.ne_of_lt hk)]
        have hXn : X.devs st3.nn = devs.map (deserDevR (top1 :: outer)) := by
          rw [hX st3.nn (Nat.lt_succ_self _)]
          simp only [Ext.setDevs, if_true]
        have sub := deser_dev_subs subs st2 x1 (top1 :: outer) st3 x3 gs f2 hts hon2 h3 V X hV3
          (fun v hge hlt => by
            have hnt : v ∉ top1.map (·.2) := by
              intro hm
              simp only [List.mem_map] at hm
              obtain ⟨e, he, rfl⟩ := hm
              have := ok1.lt e he
              have := q2.nv_le
              omega
            have := hC v (Nat.le_trans (Nat.le_trans q1.nv_le q2.nv_le) hge) (by rw [hnv4]; exact hlt) hnt
            rw [CellAgree, (hk v).2.1, (hk v).2.2.1] at this
            exact this)
          hX3
        rw [mkNode_snd]
        simp only [DevCertN, r1]
        refine ⟨?_, sub⟩
        rw [hXn]
        apply devsCert_deserDevR
        intro T hT
        simp only [List.mem_cons] at hT
        rcases hT with rfl | hT
        · exact r4
        · exact hOV T hT
theorem deser_dev_subs :
    ∀ (gps : List GraphE) (st : Store) (x : Ext) (scopes : List Table) (st' : Store) (x' : Ext) (gts : List GraphT),
      Fresh st → TablesLt st scopes → (∀ T ∈ scopes, Named st T) →
      deserSubsE st x scopes gps = .ok (st', x', gts) →
      ∀ (V : Nat → ValueS) (X : Ext), NamesAgree V st' → (∀ v, st.nv ≤ v → v < st'.nv → CellAgree V st' v) →
        (∀ k, k < st'.nn → X.devs k = x'.devs k) → DevCertGs V X scopes gts
  | [], st, x, scopes, st', x', gts, _, _, _, h, V, X, _, _, _ => by
    simp only [deserSubsE, Except.ok.injEq, Prod.mk.injEq] at h
    obtain ⟨_, _, rfl⟩ := h
    trivial
  | gp :: gps, st, x, scopes, st', x', gts, hf, hs, hon, h, V, X, hV, hC, hX => by
    simp only [deserSubsE] at h
    split at h
    · simp at h
    · rename_i st1 x1 gt h1
      split at h
      · simp at h
      · rename_i st2 x2 gts' h2
        simp only [Except.ok.injEq, Prod.mk.injEq] at h
        obtain ⟨rfl, rfl, rfl⟩ := h
        have e1 := deserGraphE_erase gp st x scopes
        rw [h1] at e1
        simp only [dropX] at e1
        have e2 := deserSubsE_erase gps st1 x1 scopes
        rw [h2] at e2
        simp only [dropX] at e2
        obtain ⟨f1, m1⟩ := deserGraph_struct _ st scopes st1 gt hf hs e1.symm
        obtain ⟨_, m2⟩ := deserSubs_struct _ st1 scopes st2 gts' f1 (hs.mono m1.nv_le) e2.symm
        have p2 := deserSubs_prim _ st1 scopes st2 gts' f1 (hs.mono m1.nv_le) e2.symm
        have hV1 : NamesAgree V st1 := fun v hv => by rw [hV v (Nat.lt_of_lt_of_le hv m2.nv_le), m2.names v hv]
        have hon1 : ∀ T ∈ scopes, Named st1 T := fun T hT => named_mono (hon T hT) (hs T hT) m1.names
        obtain ⟨_, fr2⟩ := deserSubsE_devX gps st1 x1 scopes st2 x2 gts' f1 (hs.mono m1.nv_le) hon1 h2
        have r1 := deser_dev_graph gp st x scopes st1 x1 gt hf hs hon h1 V X hV1
          (fun v hge hlt => by
            have := hC v hge (Nat.lt_of_lt_of_le hlt m2.nv_le)
            rw [CellAgree, (p2.cell v hlt).1, (p2.cell v hlt).2] at this
            exact this)
          (fun k hk => by rw [hX k (Nat.lt_of_lt_of_le hk m2.nn_le), fr2 k hk])
        have r2 := deser_dev_subs gps st1 x1 scopes st2 x2 gts' f1 (hs.mono m1.nv_le) hon1 h2 V X hV
          (fun v hge hlt => hC v (Nat.le_trans m1.nv_le hge) hlt) hX
        simp only [DevCertGs]
        exact ⟨r1, r2⟩
end

/-- **every model the extended deserializer returns satisfies the certificate of the device configurations** -/
theorem deserializeE_devCert (p : GraphE) (w : WorldE) (h : deserializeE p = .ok w) :
    DevCertG w.st.vals w.ext [] w.root := by
  simp only [deserializeE] at h
  split at h
  · simp at h
  · rename_i st x g hg
    simp only [Except.ok.injEq] at h
    subst h
    exact deser_dev_graph p {} {} [] st x g (fun _ _ => rfl) (fun _ ht => by simp at ht) (fun _ ht => by simp at ht)
      hg st.vals x (fun _ _ => rfl) (fun _ _ _ => ⟨rfl, rfl⟩) (fun _ _ => rfl)

end IrVerif.Scope

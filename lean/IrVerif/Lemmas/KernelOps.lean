/-
Kernel: every operation of the alphabet preserves `WF` (assembled from the primitive lemmas).
-/
import IrVerif.Lemmas.KernelProd
namespace IrVerif.Kernel

structure WF (w : World) : Prop where
  use : I_use w
  prod : I_prod w
  root : I_root w

theorem WF_empty : WF World.empty := by
  have hv : ∀ v, World.empty.val v = {} := fun v => lget_nil v
  have hn : ∀ n, World.empty.node n = {} := fun n => lget_nil n
  refine ⟨⟨?_, ?_⟩, ⟨?_, ?_⟩, ?_⟩ <;> intros <;> simp_all [I_root]

theorem guardOp_WF (bad : Bool) (kind : String) (w w' : World) (h : WF w) (h' : WF w') :
    WF (guardOp bad kind w w').1 := by
  unfold guardOp; split <;> assumption

/-! ### primitives -/

theorem setInput_WF (w : World) (n i : Nat) (nv : Option Nat) (h : WF w) : WF (setInput w n i nv) :=
  ⟨setInput_I_use _ _ _ _ h.use, setInput_I_prod _ _ _ _ h.prod, setInput_I_root _ _ _ _ h.root⟩

theorem popInput_WF (w : World) (n : Nat) (h : WF w) : WF (popInput w n) :=
  ⟨popInput_I_use _ _ h.use, popInput_I_prod _ _ h.prod, popInput_I_root _ _ h.root⟩

theorem padInputs_WF (w : World) (n k : Nat) (h : WF w) :
    WF (w.setNode n { w.node n with inputs := (w.node n).inputs ++ List.replicate k none }) := by
  refine ⟨padInputs_I_use _ _ _ h.use, ?_, ?_⟩
  · apply I_prod_congr _ _ h.prod <;> frame_tac
  · apply I_root_congr _ h.root; intros; simp

theorem attachOutput_WF (w : World) (n v : Nat) (h : WF w) : WF (attachOutput w n v) :=
  ⟨attachOutput_I_use _ _ _ h.use, attachOutput_I_prod _ _ _ h.prod, attachOutput_I_root _ _ _ h.root⟩

theorem allocVal_WF (w : World) (x : ValueS) (hu : x.uses = []) (hp : x.producer = none) (h : WF w) :
    WF (allocVal w x).1 :=
  ⟨allocVal_I_use _ _ hu h.use, allocVal_I_prod _ _ hp h.prod, allocVal_I_root _ _ hp h.root⟩

theorem addOutput_WF (w : World) (n : Nat) (h : WF w) : WF (addOutput w n) :=
  ⟨addOutput_I_use _ _ h.use, addOutput_I_prod _ _ h.prod, addOutput_I_root _ _ h.root⟩

theorem detachLast_WF (w : World) (n : Nat) (h : WF w) : WF (detachLast w n) :=
  ⟨detachLast_I_use _ _ h.use, detachLast_I_prod _ _ h.prod, detachLast_I_root _ _ h.root⟩

theorem allocNode_WF (w : World) (k : Nat) (name : Option String) (opType : String) (h : WF w) :
    WF (w.setNode w.nodes.length { inputs := List.replicate k none, name := name, opType := opType }) := by
  refine ⟨allocNode_I_use _ _ _ _ h.use, allocNode_I_prod _ _ _ _ h.prod, ?_⟩
  apply I_root_congr _ h.root; intros; simp

/-! ### operations -/

theorem replaceInput_WF (w : World) (n : Nat) (idx : Int) (nv : Option Nat) (h : WF w) :
    WF (replaceInput w n idx nv).1 :=
  guardOp_WF _ _ _ _ h (setInput_WF _ _ _ _ h)

theorem resizeInputs_WF (w : World) (n : Nat) (k : Int) (h : WF w) : WF (resizeInputs w n k).1 := by
  apply guardOp_WF _ _ _ _ h
  split
  · exact iter_inv WF _ (fun a ha => popInput_WF a n ha) _ _ h
  · exact padInputs_WF _ _ _ h

theorem resizeOutputs_WF (w : World) (n : Nat) (k : Int) (h : WF w) : WF (resizeOutputs w n k).1 := by
  apply guardOp_WF _ _ _ _ h
  repeat' split
  all_goals first
    | exact iter_inv WF _ (fun a ha => detachLast_WF a n ha) _ _ h
    | exact iter_inv WF _ (fun a ha => addOutput_WF a n ha) _ _ h

theorem newValue_WF (w : World) (name : Option String) (h : WF w) : WF (newValue w name).1 :=
  allocVal_WF _ _ rfl rfl h

theorem newNodeCore_WF (w : World) (opType : String) (name : Option String) (inputs : List (Option Nat))
    (numOutputs : Option Int) (outputs : Option (List Nat)) (h : WF w) :
    WF (newNodeCore w opType name inputs numOutputs outputs).1 := by
  apply guardOp_WF _ _ _ _ h
  unfold newNodeMut
  simp only []
  have h1 := allocNode_WF w inputs.length name opType h
  apply foldl_inv WF _ (fun a b ha => setInput_WF a _ _ _ ha)
  cases outputs with
  | some os => exact foldl_inv WF _ (fun a b ha => attachOutput_WF a _ b ha) _ _ h1
  | none => exact iter_inv WF _ (fun a ha => addOutput_WF a _ ha) _ _ h1

theorem rauwUses_WF (w : World) (v r : Nat) (h : WF w) : WF (rauwUses w v r) :=
  foldl_inv WF _ (fun a b ha => setInput_WF a _ _ _ ha) _ _ h

theorem step_WF (w : World) (op : Op) (h : WF w) : WF (step w op).1 := by
  cases op with
  | newValue name => exact newValue_WF _ _ h
  | newNode opType name inputs numOutputs outputs => exact newNodeCore_WF _ _ _ _ _ _ h
  | replaceInput n idx v => exact replaceInput_WF _ _ _ _ h
  | resizeInputs n k => exact resizeInputs_WF _ _ _ h
  | resizeOutputs n k => exact resizeOutputs_WF _ _ _ h
  | rauw v r => exact rauwUses_WF _ _ _ h

end IrVerif.Kernel

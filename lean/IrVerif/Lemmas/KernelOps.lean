/-
Kernel: `WF` (the conjunction of the six clauses) is preserved by every guarded primitive and hence
by every operation of the alphabet.
-/
import IrVerif.Lemmas.KernelNode
namespace IrVerif.Kernel

structure WF (w : World) : Prop where
  use : I_use w
  prod : I_prod w
  root : I_root w
  own : I_own w
  key : I_key w
  node : I_node w

theorem WF_empty : WF World.empty := by
  have hv : ∀ v, World.empty.val v = {} := fun v => lget_nil v
  have hn : ∀ n, World.empty.node n = {} := fun n => lget_nil n
  have hg : ∀ g, World.empty.gr g = {} := fun g => lget_nil g
  refine ⟨⟨?_, ?_⟩, ⟨?_, ?_⟩, ?_, ⟨?_, ?_, ?_, ?_, ?_, ?_⟩, ⟨?_, ?_⟩, ⟨?_, ?_⟩⟩ <;> intros <;>
    simp_all [I_root, lget_nil] <;> (try cases ‹IOKind› <;> simp_all [ioList, ioCnt, ioFlag, lget_nil])

theorem guardOp_WF (bad : Bool) (kind : String) (w w' : World) (h : WF w) (h' : WF w') :
    WF (guardOp bad kind w w').1 := by
  unfold guardOp; split
  · assumption
  · split <;> assumption

theorem bump_WF {w : World} (h : WF w) : WF (bump w) :=
  ⟨I_use_bump h.use, I_prod_bump h.prod, I_root_bump h.root, I_own_bump h.own, I_key_bump h.key, I_node_bump h.node⟩

/-- a change that leaves every field read by the invariant alone (names of nodes, counters and
name sets of the authority, const tensors, ...) -/
theorem WF_of_same_core {w w' : World}
    (hv : ∀ v, (w'.val v).uses = (w.val v).uses ∧ (w'.val v).producer = (w.val v).producer ∧
      (w'.val v).index = (w.val v).index ∧ (w'.val v).graph = (w.val v).graph ∧
      (w'.val v).isIn = (w.val v).isIn ∧ (w'.val v).isOut = (w.val v).isOut ∧
      (w'.val v).isInit = (w.val v).isInit ∧ (w'.val v).name = (w.val v).name)
    (hn : ∀ n, (w'.node n).inputs = (w.node n).inputs ∧ (w'.node n).outputs = (w.node n).outputs ∧
      (w'.node n).graph = (w.node n).graph)
    (hg : ∀ g, (w'.gr g).inputs = (w.gr g).inputs ∧ (w'.gr g).outputs = (w.gr g).outputs ∧
      (w'.gr g).inCnt = (w.gr g).inCnt ∧ (w'.gr g).outCnt = (w.gr g).outCnt ∧
      (w'.gr g).inits = (w.gr g).inits ∧ (w'.gr g).nodes = (w.gr g).nodes) (h : WF w) : WF w' :=
  ⟨I_use_congr (fun v => (hv v).1) (fun n => (hn n).1) h.use,
   I_prod_congr (fun v => ⟨(hv v).2.1, (hv v).2.2.1⟩) (fun n => (hn n).2.1) h.prod,
   I_root_congr (fun v => ⟨(hv v).2.1, (hv v).2.2.2.2.1, (hv v).2.2.2.2.2.2.1⟩) h.root,
   I_own_congr (fun v => ⟨(hv v).2.2.2.1, (hv v).2.2.2.2.1, (hv v).2.2.2.2.2.1, (hv v).2.2.2.2.2.2.1⟩)
     (fun g => ⟨(hg g).1, (hg g).2.1, (hg g).2.2.1, (hg g).2.2.2.1, (hg g).2.2.2.2.1⟩) h.own,
   I_key_congr (fun v => (hv v).2.2.2.2.2.2.2) (fun g => (hg g).2.2.2.2.1) h.key,
   I_node_congr (fun n => (hn n).2.2) (fun g => (hg g).2.2.2.2.2) h.node⟩


/-! ### stage-1 primitives: the ownership / key / membership clauses are frames -/

theorem setInput_WF (w : World) (n i : Nat) (nv : Option Nat) (h : WF w) : WF (setInput w n i nv) := by
  refine ⟨setInput_I_use _ _ _ _ h.use, setInput_I_prod _ _ _ _ h.prod, setInput_I_root _ _ _ _ h.root, ?_, ?_, ?_⟩
  · apply I_own_congr _ _ h.own <;> unfold setInput <;> frame_tac
  · apply I_key_congr _ _ h.key <;> unfold setInput <;> frame_tac
  · apply I_node_congr _ _ h.node <;> unfold setInput <;> frame_tac

theorem popInput_WF (w : World) (n : Nat) (h : WF w) : WF (popInput w n) := by
  refine ⟨popInput_I_use _ _ h.use, popInput_I_prod _ _ h.prod, popInput_I_root _ _ h.root, ?_, ?_, ?_⟩
  · apply I_own_congr _ _ h.own <;> unfold popInput setInput <;> frame_tac
  · apply I_key_congr _ _ h.key <;> unfold popInput setInput <;> frame_tac
  · apply I_node_congr _ _ h.node <;> unfold popInput setInput <;> frame_tac

theorem padInputs_WF (w : World) (n k : Nat) (h : WF w) :
    WF (w.setNode n { w.node n with inputs := (w.node n).inputs ++ List.replicate k none }) := by
  refine ⟨padInputs_I_use _ _ _ h.use, ?_, ?_, ?_, ?_, ?_⟩
  · apply I_prod_congr _ _ h.prod <;> frame_tac
  · apply I_root_congr _ h.root; intros; simp
  · apply I_own_congr _ _ h.own <;> intros <;> simp
  · apply I_key_congr _ _ h.key <;> intros <;> simp
  · apply I_node_congr _ _ h.node <;> frame_tac

theorem attachOutput_WF (w : World) (n v : Nat) (h : WF w) : WF (attachOutput w n v) := by
  refine ⟨attachOutput_I_use _ _ _ h.use, attachOutput_I_prod _ _ _ h.prod, attachOutput_I_root _ _ _ h.root,
    ?_, ?_, ?_⟩
  · apply I_own_congr _ _ h.own <;> unfold attachOutput <;> frame_tac
  · apply I_key_congr _ _ h.key <;> unfold attachOutput <;> frame_tac
  · apply I_node_congr _ _ h.node <;> unfold attachOutput <;> frame_tac

theorem detachLast_WF (w : World) (n : Nat) (h : WF w) : WF (detachLast w n) := by
  refine ⟨detachLast_I_use _ _ h.use, detachLast_I_prod _ _ h.prod, detachLast_I_root _ _ h.root, ?_, ?_, ?_⟩
  · apply I_own_congr _ _ h.own <;> unfold detachLast <;> frame_tac
  · apply I_key_congr _ _ h.key <;> unfold detachLast <;> frame_tac
  · apply I_node_congr _ _ h.node <;> unfold detachLast <;> frame_tac

/-- allocation of a value record without uses, producer, owner or flags -/
theorem allocVal_WF (w : World) (x : ValueS) (hu : x.uses = []) (hp : x.producer = none)
    (hg : x.graph = none) (hi : x.isIn = false) (ho : x.isOut = false) (hin : x.isInit = false) (h : WF w) :
    WF (allocVal w x).1 := by
  have hfresh := w.val_fresh w.vals.length (Nat.le_refl _)
  refine ⟨allocVal_I_use _ _ hu h.use, allocVal_I_prod _ _ hp h.prod, allocVal_I_root _ _ hp h.root, ?_, ?_, ?_⟩
  · apply I_own_congr _ _ h.own
    · intro v; simp [allocVal]; split
      · subst_vars; simp [hfresh, hg, hi, ho, hin]
      · exact ⟨rfl, rfl, rfl, rfl⟩
    · intro g; exact ⟨rfl, rfl, rfl, rfl, rfl⟩
  · constructor
    · intro g key u hm
      have hm' : (key, u) ∈ (w.gr g).inits := hm
      have hne : u ≠ w.vals.length := by
        intro e; subst e
        have := (h.own.init_mem g key _ hm').1
        simp [hfresh] at this
      simp [allocVal, hne]
      exact h.key.name g key u hm'
    · intro g; exact h.key.keys g
  · apply I_node_congr _ _ h.node <;> intros <;> rfl

theorem addOutput_WF (w : World) (n : Nat) (h : WF w) : WF (addOutput w n) :=
  attachOutput_WF _ _ _ (allocVal_WF w {} rfl rfl rfl rfl rfl rfl h)

theorem allocNode_WF (w : World) (k : Nat) (name : Option String) (opType : String) (h : WF w) :
    WF (w.setNode w.nodes.length { inputs := List.replicate k none, name := name, opType := opType }) := by
  have hfresh := w.node_fresh w.nodes.length (Nat.le_refl _)
  refine ⟨allocNode_I_use _ _ _ _ h.use, allocNode_I_prod _ _ _ _ h.prod, ?_, ?_, ?_, ?_⟩
  · apply I_root_congr _ h.root; intros; simp
  · apply I_own_congr _ _ h.own <;> intros <;> simp
  · apply I_key_congr _ _ h.key <;> intros <;> simp
  · apply I_node_congr _ _ h.node
    · intro m; simp; split
      · subst_vars; simp [hfresh]
      · rfl
    · intro g; rfl

/-! ### stage-2/3/4 primitives -/

theorem ioInsert_WF (w : World) (g : Nat) (k : IOKind) (pos v : Nat) (h : WF w) : WF (ioInsert w g k pos v) :=
  ⟨ioInsert_I_use _ _ _ _ _ h.use, ioInsert_I_prod _ _ _ _ _ h.prod, ioInsert_I_root _ _ _ _ _ h.root,
   ioInsert_I_own _ _ _ _ _ h.own, ioInsert_I_key _ _ _ _ _ h.key, ioInsert_I_node _ _ _ _ _ h.node⟩

theorem ioRemoveAt_WF (w : World) (g : Nat) (k : IOKind) (pos : Nat) (h : WF w) : WF (ioRemoveAt w g k pos) :=
  ⟨ioRemoveAt_I_use _ _ _ _ h.use, ioRemoveAt_I_prod _ _ _ _ h.prod, ioRemoveAt_I_root _ _ _ _ h.root,
   ioRemoveAt_I_own _ _ _ _ h.own, ioRemoveAt_I_key _ _ _ _ h.key, ioRemoveAt_I_node _ _ _ _ h.node⟩

theorem ioReverse_WF (w : World) (g : Nat) (k : IOKind) (h : WF w) : WF (ioReverse w g k) := by
  refine ⟨?_, ?_, ?_, ioReverse_I_own _ _ _ h.own, ?_, ?_⟩
  · apply I_use_congr _ _ h.use <;> intros <;> rfl
  · apply I_prod_congr _ _ h.prod <;> intros <;> first | rfl | exact ⟨rfl, rfl⟩
  · apply I_root_congr _ h.root; intros; exact ⟨rfl, rfl, rfl⟩
  · apply I_key_congr _ _ h.key
    · intros; rfl
    · intro g'; simp [ioReverse]; split <;> simp_all
  · apply I_node_congr _ _ h.node
    · intros; rfl
    · intro g'; simp [ioReverse]; split <;> simp_all

/-- rearranging a tracked list in place (`list.sort`): membership and multiplicities are those of a
permutation, the counters / flags / owning graphs are not written -/
theorem ioPermute_I_own (w : World) (g : Nat) (k : IOKind) (l : List Nat) (hp : l.Perm (ioList k (w.gr g)))
    (h : I_own w) : I_own (ioPermute w g k l) := by
  have hl : ∀ k' g', ∀ u, u ∈ ioList k' ((ioPermute w g k l).gr g') ↔ u ∈ ioList k' (w.gr g') := by
    intro k' g' u; simp only [ioPermute, World.gr_setGr]; split
    · subst_vars; cases k <;> cases k' <;> simp [setIoList, ioList] at hp ⊢ <;> exact hp.mem_iff
    · rfl
  have hc : ∀ k' g', ∀ u, (ioList k' ((ioPermute w g k l).gr g')).count u = (ioList k' (w.gr g')).count u := by
    intro k' g' u; simp only [ioPermute, World.gr_setGr]; split
    · subst_vars; cases k <;> cases k' <;> simp [setIoList, ioList] at hp ⊢ <;> exact hp.count_eq u
    · rfl
  have hcnt : ∀ k' g', ioCnt k' ((ioPermute w g k l).gr g') = ioCnt k' (w.gr g') := by
    intro k' g'; simp only [ioPermute, World.gr_setGr]; split
    · subst_vars; cases k <;> cases k' <;> simp [setIoList, ioCnt]
    · rfl
  have hi : ∀ g', ((ioPermute w g k l).gr g').inits = (w.gr g').inits := by
    intro g'; simp only [ioPermute, World.gr_setGr]; split
    · subst_vars; cases k <;> simp [setIoList]
    · rfl
  have hv : ∀ u, (ioPermute w g k l).val u = w.val u := fun u => rfl
  constructor
  · intro k' g' u; rw [hcnt, hc]; exact h.cnt k' g' u
  · intro k' g' u; rw [hl, hv]; exact h.io_mem k' g' u
  · intro k' u; rw [hv]; simp only [hl]; exact h.io_flag k' u
  · intro g' key u; rw [hi, hv]; exact h.init_mem g' key u
  · intro u; rw [hv]; simp only [hi]; exact h.init_flag u
  · intro u g'; rw [hv]; exact h.graph_owned u g'

theorem ioPermute_WF (w : World) (g : Nat) (k : IOKind) (l : List Nat) (hp : l.Perm (ioList k (w.gr g)))
    (h : WF w) : WF (ioPermute w g k l) := by
  refine ⟨?_, ?_, ?_, ioPermute_I_own _ _ _ _ hp h.own, ?_, ?_⟩
  · apply I_use_congr _ _ h.use <;> intros <;> rfl
  · apply I_prod_congr _ _ h.prod <;> intros <;> first | rfl | exact ⟨rfl, rfl⟩
  · apply I_root_congr _ h.root; intros; exact ⟨rfl, rfl, rfl⟩
  · apply I_key_congr _ _ h.key
    · intros; rfl
    · intro g'; simp only [ioPermute, World.gr_setGr]; split
      · subst_vars; cases k <;> simp [setIoList]
      · rfl
  · apply I_node_congr _ _ h.node
    · intros; rfl
    · intro g'; simp only [ioPermute, World.gr_setGr]; split
      · subst_vars; cases k <;> simp [setIoList]
      · rfl

theorem sortedBy_perm (keys : List Nat) (rev : Bool) (l : List Nat) : (sortedBy keys rev l).Perm l := by
  unfold sortedBy; split
  · exact (List.reverse_perm _).trans ((List.mergeSort_perm _ _).trans (List.reverse_perm _))
  · exact List.mergeSort_perm _ _

theorem initPut_WF (w : World) (g : Nat) (key : String) (v : Nat) (h : WF w) : WF (initPut w g key v) :=
  ⟨initPut_I_use _ _ _ _ h.use, initPut_I_prod _ _ _ _ h.prod, initPut_I_root _ _ _ _ h.root,
   initPut_I_own _ _ _ _ h.own h.key, initPut_I_key _ _ _ _ h.own h.key, initPut_I_node _ _ _ _ h.node⟩

theorem initDel_WF (w : World) (g : Nat) (key : String) (h : WF w) : WF (initDel w g key) :=
  ⟨initDel_I_use _ _ _ h.use, initDel_I_prod _ _ _ h.prod, initDel_I_root _ _ _ h.root,
   initDel_I_own _ _ _ h.own h.key, initDel_I_key _ _ _ h.key, initDel_I_node _ _ _ h.node⟩

theorem setNamePlain_WF (w : World) (v : Nat) (s : Option String) (h : WF w)
    (hv : (w.val v).isInit = false) : WF (setNamePlain w v s) :=
  ⟨setNamePlain_I_use _ _ _ h.use, setNamePlain_I_prod _ _ _ h.prod, setNamePlain_I_root _ _ _ h.root,
   setNamePlain_I_own _ _ _ h.own, setNamePlain_I_key _ _ _ h.own h.key hv, setNamePlain_I_node _ _ _ h.node⟩

theorem nodeLink_WF (w : World) (g : Nat) (a : Option Nat) (n : Nat) (h : WF w) : WF (nodeLink w g a n) :=
  ⟨nodeLink_I_use _ _ _ _ h.use, nodeLink_I_prod _ _ _ _ h.prod, nodeLink_I_root _ _ _ _ h.root,
   nodeLink_I_own _ _ _ _ h.own, nodeLink_I_key _ _ _ _ h.key, nodeLink_I_node _ _ _ _ h.node⟩

theorem nodeUnlink_WF (w : World) (g n : Nat) (h : WF w) : WF (nodeUnlink w g n) :=
  ⟨nodeUnlink_I_use _ _ _ h.use, nodeUnlink_I_prod _ _ _ h.prod, nodeUnlink_I_root _ _ _ h.root,
   nodeUnlink_I_own _ _ _ h.own, nodeUnlink_I_key _ _ _ h.key, nodeUnlink_I_node _ _ _ h.node⟩

/-- only the authority's counters / name sets of one graph change -/
theorem setAuth_WF (w : World) (g : Nat) (r : GraphS)
    (hr : r.inputs = (w.gr g).inputs ∧ r.outputs = (w.gr g).outputs ∧ r.inCnt = (w.gr g).inCnt ∧
      r.outCnt = (w.gr g).outCnt ∧ r.inits = (w.gr g).inits ∧ r.nodes = (w.gr g).nodes) (h : WF w) :
    WF (w.setGr g r) := by
  apply WF_of_same_core _ _ _ h
  · intro v; simp
  · intro n; simp
  · intro g'; simp; split
    · subst_vars; exact hr
    · simp

theorem registerValue_WF (w : World) (g v : Nat) (h : WF w) : WF (registerValue w g v) := by
  unfold registerValue
  split
  · exact setAuth_WF _ _ _ ⟨rfl, rfl, rfl, rfl, rfl, rfl⟩ h
  · simp only []
    have h1 : ∀ c s, WF (w.setGr g { w.gr g with vCtr := c, vNames := s }) :=
      fun c s => setAuth_WF w g _ ⟨rfl, rfl, rfl, rfl, rfl, rfl⟩ h
    split
    · exact bump_WF (h1 _ _)
    · rename_i hi
      exact setNamePlain_WF _ _ _ (h1 _ _) (by simp at hi; simpa using hi.1)

theorem registerNode_WF (w : World) (g n : Nat) (h : WF w) : WF (registerNode w g n) := by
  unfold registerNode
  split
  · exact setAuth_WF _ _ _ ⟨rfl, rfl, rfl, rfl, rfl, rfl⟩ h
  · simp only []
    have h1 := setAuth_WF w g { w.gr g with
        nCtr := (uniqueLoop (nodeName (w.node n).opType) (w.gr g).nNames ((w.gr g).nNames.length + 1) (w.gr g).nCtr).2,
        nNames := addName (w.gr g).nNames
          (uniqueLoop (nodeName (w.node n).opType) (w.gr g).nNames ((w.gr g).nNames.length + 1) (w.gr g).nCtr).1 }
      ⟨rfl, rfl, rfl, rfl, rfl, rfl⟩ h
    apply WF_of_same_core _ _ _ h1
    · intro v; simp
    · intro m; simp; split
      · subst_vars; simp
      · simp
    · intro g'; simp

theorem assignNames_WF (w : World) (g n : Nat) (h : WF w) : WF (assignNames w g n) :=
  foldl_inv WF _ (fun a b ha => registerValue_WF a g b ha) _ _ (registerNode_WF w g n h)

theorem allocGraph_WF (w : World) (h : WF w) : WF (w.setGr w.graphs.length {}) := by
  have hfresh := w.gr_fresh w.graphs.length (Nat.le_refl _)
  apply WF_of_same_core _ _ _ h
  · intro v; simp
  · intro n; simp
  · intro g; simp; split
    · subst_vars; simp [hfresh]
    · simp


/-! ### operations -/

theorem replaceInput_WF (w : World) (n : Nat) (idx : Int) (nv : Option Nat) (h : WF w) :
    WF (replaceInput w n idx nv).1 :=
  guardOp_WF _ _ _ _ h (setInput_WF _ _ _ _ h)

theorem resizeInputs_WF (w : World) (n : Nat) (k : Int) (h : WF w) : WF (resizeInputs w n k).1 := by
  apply guardOp_WF _ _ _ _ h
  split
  · exact iter_inv WF _ (fun a ha => popInput_WF a n ha) _ _ h
  · exact padInputs_WF _ _ _ h

theorem resizeOutputs_WF (w : World) (n : Nat) (k : Int) (h : WF w) : WF (resizeOutputs w n k).1 := by
  apply guardOp_WF _ _ _ _ h
  repeat' split
  all_goals first
    | exact iter_inv WF _ (fun a ha => detachLast_WF a n ha) _ _ h
    | exact iter_inv WF _ (fun a ha => addOutput_WF a n ha) _ _ h

theorem newValue_WF (w : World) (name : Option String) (h : WF w) : WF (newValue w name).1 :=
  guardOp_WF _ _ _ _ h (allocVal_WF _ _ rfl rfl rfl rfl rfl rfl h)

theorem newNodeMut_WF (w : World) (opType : String) (name : Option String) (inputs : List (Option Nat))
    (numOutputs : Option Int) (outputs : Option (List Nat)) (h : WF w) :
    WF (newNodeMut w opType name inputs numOutputs outputs) := by
  unfold newNodeMut
  simp only []
  have h1 := allocNode_WF w inputs.length name opType h
  apply foldl_inv WF _ (fun a b ha => setInput_WF a _ _ _ ha)
  cases outputs with
  | some os => exact foldl_inv WF _ (fun a b ha => attachOutput_WF a _ b ha) _ _ h1
  | none => exact iter_inv WF _ (fun a ha => addOutput_WF a _ ha) _ _ h1

theorem newNodeCore_WF (w : World) (opType : String) (name : Option String) (inputs : List (Option Nat))
    (numOutputs : Option Int) (outputs : Option (List Nat)) (h : WF w) :
    WF (newNodeCore w opType name inputs numOutputs outputs).1 :=
  guardOp_WF _ _ _ _ h (newNodeMut_WF _ _ _ _ _ _ h)

theorem newNode_WF (w : World) (opType : String) (name : Option String) (inputs : List (Option Nat))
    (numOutputs : Option Int) (outputs : Option (List Nat)) (graph : Option Nat) (h : WF w) :
    WF (newNode w opType name inputs numOutputs outputs graph).1 := by
  apply guardOp_WF _ _ _ _ h
  have h1 := newNodeMut_WF w opType name inputs numOutputs outputs h
  cases graph with
  | none => exact h1
  | some g => exact nodeLink_WF _ _ _ _ (assignNames_WF _ _ _ h1)

theorem rauwUses_WF (w : World) (v r : Nat) (h : WF w) : WF (rauwUses w v r) :=
  foldl_inv WF _ (fun a _ ha => setInput_WF a _ _ _ ha) _ _ h

theorem ioInsertMany_WF (w : World) (g : Nat) (k : IOKind) (pos : Nat) (vs : List Nat) (h : WF w) :
    WF (ioInsertMany w g k pos vs) :=
  foldl_inv WF _ (fun a _ ha => ioInsert_WF a _ _ _ _ ha) _ _ h

theorem ioRemoveMany_WF (w : World) (g : Nat) (k : IOKind) (ps : List Nat) (h : WF w) :
    WF (ioRemoveMany w g k ps) :=
  foldl_inv WF _ (fun a _ ha => ioRemoveAt_WF a _ _ _ ha) _ _ h

theorem ioReplaceMany_WF (w : World) (g : Nat) (k : IOKind) (ps vs : List Nat) (h : WF w) :
    WF (ioReplaceMany w g k ps vs) :=
  foldl_inv WF _ (fun a _ ha => ioInsert_WF _ _ _ _ _ (ioRemoveAt_WF a _ _ _ ha)) _ _ h

theorem rauw_WF (w : World) (v r : Nat) (rgo : Bool) (h : WF w) : WF (rauw w v r rgo).1 := by
  apply guardOp_WF _ _ _ _ h
  apply rauwUses_WF
  split
  · exact ioReplaceMany_WF _ _ _ _ _ h
  · exact h

theorem atPos_WF (o : Option Nat) (f : Nat → World) (w : World) (h : WF w) (hf : ∀ p, WF (f p)) :
    WF (atPos o f w) := by
  unfold atPos; split
  · exact hf _
  · exact bump_WF h

theorem withName_WF (o : Option String) (f : String → World) (w : World) (h : WF w) (hf : ∀ p, WF (f p)) :
    WF (withName o f w) := by
  unfold withName; split
  · exact hf _
  · exact bump_WF h

theorem ioMut_WF (w : World) (g : Nat) (k : IOKind) (m : IOMut) (h : WF w) : WF (ioMut w g k m).1 := by
  cases m <;> simp only [ioMut]
  case append v => exact guardOp_WF _ _ _ _ h (ioInsert_WF _ _ _ _ _ h)
  case extend vs => exact guardOp_WF _ _ _ _ h (ioInsertMany_WF _ _ _ _ _ h)
  case insert i v => exact guardOp_WF _ _ _ _ h (ioInsert_WF _ _ _ _ _ h)
  case pop i => exact guardOp_WF _ _ _ _ h (atPos_WF _ _ _ h (fun p => ioRemoveAt_WF _ _ _ _ h))
  case remove v => exact guardOp_WF _ _ _ _ h (atPos_WF _ _ _ h (fun p => ioRemoveAt_WF _ _ _ _ h))
  case clear => exact guardOp_WF _ _ _ _ h (iter_inv WF _ (fun a ha => ioRemoveAt_WF a _ _ _ ha) _ _ h)
  case setItem i v =>
    exact guardOp_WF _ _ _ _ h (atPos_WF _ _ _ h (fun p => ioInsert_WF _ _ _ _ _ (ioRemoveAt_WF _ _ _ _ h)))
  case setSlice start stop step vs =>
    split
    · exact h
    · apply guardOp_WF _ _ _ _ h
      split
      · exact ioInsertMany_WF _ _ _ _ _ (iter_inv WF _ (fun a ha => ioRemoveAt_WF a _ _ _ ha) _ _ h)
      · exact ioReplaceMany_WF _ _ _ _ _ h
  case delItem i => exact guardOp_WF _ _ _ _ h (atPos_WF _ _ _ h (fun p => ioRemoveAt_WF _ _ _ _ h))
  case delSlice start stop step =>
    split <;> first | exact h | exact guardOp_WF _ _ _ _ h (ioRemoveMany_WF _ _ _ _ h)
  case reverse => exact guardOp_WF _ _ _ _ h (ioReverse_WF _ _ _ h)
  case iadd vs => exact h
  case imul k => exact h
  case sort keys rev => exact guardOp_WF _ _ _ _ h (ioPermute_WF _ _ _ _ (sortedBy_perm _ _ _) h)

theorem initSetItem_WF (w : World) (g : Nat) (key : String) (v : Nat) (h : WF w) :
    WF (initSetItem w g key v).1 :=
  guardOp_WF _ _ _ _ h (initPut_WF _ _ _ _ h)

theorem initUpdateSeq_WF (g : Nat) : ∀ (kvs : List (String × Nat)) (w : World), WF w → WF (initUpdateSeq w g kvs).1
  | [], w, h => h
  | (k, v) :: rest, w, h => by
    have h1 := initSetItem_WF w g k v h
    unfold initUpdateSeq
    split
    · rename_i w1 heq
      rw [heq] at h1
      exact initUpdateSeq_WF g rest w1 h1
    · rename_i r hne
      exact h1

theorem initUpdate_WF (w : World) (g : Nat) (kvs : List (String × Nat)) (h : WF w) : WF (initUpdate w g kvs).1 :=
  guardOp_WF _ _ _ _ h (initUpdateSeq_WF g kvs w h)

theorem initMut_WF (w : World) (g : Nat) (m : InitMut) (h : WF w) : WF (initMut w g m).1 := by
  cases m <;> simp only [initMut]
  case setItem key v => exact initSetItem_WF _ _ _ _ h
  case delItem key => exact guardOp_WF _ _ _ _ h (initDel_WF _ _ _ h)
  case add v => exact guardOp_WF _ _ _ _ h (withName_WF _ _ _ h (fun _ => initPut_WF _ _ _ _ h))
  case pop key => exact guardOp_WF _ _ _ _ h (initDel_WF _ _ _ h)
  case popitem => exact guardOp_WF _ _ _ _ h (withName_WF _ _ _ h (fun _ => initDel_WF _ _ _ h))
  case clear =>
    apply guardOp_WF _ _ _ _ h
    apply iter_inv WF _ _ _ _ h
    intro a ha; exact withName_WF _ _ _ ha (fun _ => initDel_WF _ _ _ ha)
  case update kvs => exact initUpdate_WF _ _ _ h
  case setdefault key v =>
    apply guardOp_WF _ _ _ _ h
    split
    · exact h
    · exact initPut_WF _ _ _ _ h
  case register v => exact guardOp_WF _ _ _ _ h (initPut_WF _ _ _ _ h)

theorem initDel_isInit (w : World) (g : Nat) (key : String) (v : Nat) (h : WF w)
    (hg : (w.val v).graph = some g) (hn : (w.val v).name = some key) (hi : (w.val v).isInit = true) :
    ((initDel w g key).val v).isInit = false := by
  obtain ⟨g', key', hg', hm⟩ := h.own.init_flag v hi
  rw [hg] at hg'; cases hg'
  have := (h.key.name g key' v hm).1
  rw [hn] at this; cases this
  have hl := lookupInit_of_mem _ _ _ (h.key.keys g) hm
  rw [initDel_val _ _ _ _ hl]; simp

theorem setName_WF (w : World) (v : Nat) (s : Option String) (h : WF w) : WF (setName w v s).1 := by
  unfold setName
  simp only []
  apply guardOp_WF _ _ _ _ h
  split
  · exact h
  · split
    · rename_i hi
      split
      · rename_i new g old heq
        have hq : s = some new ∧ (w.val v).graph = some g ∧ (w.val v).name = some old := by
          revert heq; split <;> simp_all
        apply initPut_WF
        apply setNamePlain_WF _ _ _ (initDel_WF _ _ _ h)
        exact initDel_isInit w g old v h hq.2.1 hq.2.2 hi
      · exact h
    · rename_i hi
      exact setNamePlain_WF _ _ _ h (by simpa using hi)

theorem extendMut_WF (w : World) (g : Nat) (ns : List Nat) (h : WF w) : WF (extendMut w g ns) :=
  foldl_inv WF _ (fun a _ ha => nodeLink_WF _ _ _ _ (assignNames_WF a _ _ ha)) _ _ h

theorem linkMany_WF (w : World) (g : Nat) (anchor : Option Nat) (ns : List Nat) (h : WF w) :
    WF (linkMany w g anchor ns) := by
  unfold linkMany
  exact foldl_inv (fun (p : World × Option Nat) => WF p.1) _
    (fun a _ ha => nodeLink_WF _ _ _ _ (assignNames_WF a.1 _ _ ha)) _ _ h

theorem graphAppend_WF (w : World) (g n : Nat) (h : WF w) : WF (graphAppend w g n).1 :=
  guardOp_WF _ _ _ _ h (nodeLink_WF _ _ _ _ (assignNames_WF _ _ _ h))

theorem graphExtend_WF (w : World) (g : Nat) (ns : List Nat) (h : WF w) : WF (graphExtend w g ns).1 :=
  guardOp_WF _ _ _ _ h (extendMut_WF _ _ _ h)

theorem graphInsertAfter_WF (w : World) (g a : Nat) (ns : List Nat) (h : WF w) :
    WF (graphInsertAfter w g a ns).1 :=
  guardOp_WF _ _ _ _ h (linkMany_WF _ _ _ _ h)

theorem graphInsertBefore_WF (w : World) (g a : Nat) (ns : List Nat) (h : WF w) :
    WF (graphInsertBefore w g a ns).1 :=
  guardOp_WF _ _ _ _ h (linkMany_WF _ _ _ _ h)

theorem detachInputs_WF (w : World) (n : Nat) (h : WF w) : WF (detachInputs w n) :=
  foldl_inv WF _ (fun a _ ha => setInput_WF a _ _ _ ha) _ _ h

theorem graphRemove_WF (w : World) (g : Nat) (ns : List Nat) (safe : Bool) (h : WF w) :
    WF (graphRemove w g ns safe).1 := by
  apply guardOp_WF _ _ _ _ h
  apply foldl_inv WF _ _ _ _ h
  intro a n ha
  apply nodeUnlink_WF
  split
  · exact detachInputs_WF _ _ ha
  · exact ha

theorem sortApply_WF (w : World) (orders : List (Nat × List Nat)) (h : WF w) : WF (sortApply w orders) := by
  apply foldl_inv WF _ _ _ _ h
  intro a p ha
  split
  · exact extendMut_WF _ _ _ ha
  · exact ha

theorem newGraph_WF (w : World) (inputs outputs nodes inits : List Nat) (h : WF w) :
    WF (newGraph w inputs outputs nodes inits).1 := by
  apply guardOp_WF _ _ _ _ h
  apply extendMut_WF
  apply foldl_inv WF _ (fun a _ ha => registerValue_WF a _ _ ha)
  apply foldl_inv WF _ (fun a _ ha => registerValue_WF a _ _ ha)
  apply foldl_inv WF _ (fun a _ ha => initPut_WF a _ _ _ ha)
  apply ioInsertMany_WF
  apply ioInsertMany_WF
  exact allocGraph_WF w h

theorem setConst_WF (w : World) (v : Nat) (lk : Bool) (h : WF w) : WF (setConst w v lk).1 := by
  apply guardOp_WF _ _ _ _ h
  apply WF_of_same_core _ _ _ h
  · intro u; simp [World.val, World.setVal, lget_lset]; split <;> simp_all
  · intro n; exact ⟨rfl, rfl, rfl⟩
  · intro g; exact ⟨rfl, rfl, rfl, rfl, rfl, rfl⟩

/-! ### fields no clause reads: attribute dicts, node names / op types, const tensors -/

/-- **the frame lemma of attribute edits**: replacing the attribute dict of a node writes no field that
`WF` reads — every value record, every graph record, and the inputs / outputs / owning graph / name / op type
of every node are what they were -/
theorem setAttrs_frame (w : World) (n : Nat) (as : List (String × List Nat)) :
    (∀ v, (setAttrs w n as).val v = w.val v) ∧ (∀ g, (setAttrs w n as).gr g = w.gr g) ∧
    (∀ m, ((setAttrs w n as).node m).inputs = (w.node m).inputs ∧
      ((setAttrs w n as).node m).outputs = (w.node m).outputs ∧
      ((setAttrs w n as).node m).graph = (w.node m).graph ∧
      ((setAttrs w n as).node m).name = (w.node m).name ∧
      ((setAttrs w n as).node m).opType = (w.node m).opType) ∧
    (setAttrs w n as).late = w.late ∧ (setAttrs w n as).tensors = w.tensors ∧
    (setAttrs w n as).locked = w.locked ∧ (setAttrs w n as).extra = w.extra := by
  refine ⟨fun _ => rfl, fun _ => rfl, ?_, rfl, rfl, rfl, rfl⟩
  intro m; simp only [setAttrs, World.node_setNode]; split
  · subst_vars; exact ⟨rfl, rfl, rfl, rfl, rfl⟩
  · exact ⟨rfl, rfl, rfl, rfl, rfl⟩

theorem setAttrs_WF (w : World) (n : Nat) (as : List (String × List Nat)) (h : WF w) : WF (setAttrs w n as) := by
  obtain ⟨hv, hg, hn, _⟩ := setAttrs_frame w n as
  apply WF_of_same_core _ _ _ h
  · intro v; rw [hv]; simp
  · intro m; exact ⟨(hn m).1, (hn m).2.1, (hn m).2.2.1⟩
  · intro g; rw [hg]; simp

theorem withAttrs_WF (r : World × Outcome) (n : Nat) (as : List (String × List Nat)) (h : WF r.1) :
    WF (withAttrs r n as).1 := by
  unfold withAttrs; split
  · exact setAttrs_WF _ _ _ h
  · exact h

theorem setNodeName_WF (w : World) (n : Nat) (s : Option String) (h : WF w) : WF (setNodeName w n s).1 := by
  apply guardOp_WF _ _ _ _ h
  have h1 : WF (w.setNode n { w.node n with name := s }) := by
    apply WF_of_same_core _ _ _ h
    · intro v; simp
    · intro m; simp; split
      · subst_vars; simp
      · simp
    · intro g; simp
  simp only []
  split
  · exact setAuth_WF _ _ _ ⟨rfl, rfl, rfl, rfl, rfl, rfl⟩ h1
  · exact h1

theorem setOpType_WF (w : World) (n : Nat) (s : String) (h : WF w) : WF (setOpType w n s).1 := by
  apply guardOp_WF _ _ _ _ h
  apply WF_of_same_core _ _ _ h
  · intro v; simp
  · intro m; simp; split
    · subst_vars; simp
    · simp
  · intro g; simp

theorem clearConst_WF (w : World) (v : Nat) (h : WF w) : WF (clearConst w v).1 := by
  apply guardOp_WF _ _ _ _ h
  apply WF_of_same_core _ _ _ h
  · intro u; simp; split
    · subst_vars; simp
    · simp
  · intro n; exact ⟨rfl, rfl, rfl⟩
  · intro g; exact ⟨rfl, rfl, rfl, rfl, rfl, rfl⟩

theorem graphSort_WF (w : World) (g : Nat) (h : WF w) : WF (graphSort w g).1 := by
  unfold graphSort; split
  · exact h
  · exact guardOp_WF _ _ _ _ h (sortApply_WF _ _ h)

theorem step_WF (w : World) (op : Op) (h : WF w) : WF (step w op).1 := by
  cases op <;> simp only [step]
  case newValue name => exact newValue_WF _ _ h
  case setConst v lk => exact setConst_WF _ _ _ h
  case newNode opType name inputs numOutputs outputs graph => exact newNode_WF _ _ _ _ _ _ _ h
  case newGraph inputs outputs nodes inits => exact newGraph_WF _ _ _ _ _ h
  case replaceInput n idx v => exact replaceInput_WF _ _ _ _ h
  case resizeInputs n k => exact resizeInputs_WF _ _ _ h
  case resizeOutputs n k => exact resizeOutputs_WF _ _ _ h
  case rauw v r rgo => exact rauw_WF _ _ _ _ h
  case io g k m => exact ioMut_WF _ _ _ _ h
  case init g m => exact initMut_WF _ _ _ h
  case setName v s => exact setName_WF _ _ _ h
  case append g n => exact graphAppend_WF _ _ _ h
  case extend g ns => exact graphExtend_WF _ _ _ h
  case insertAfter g a ns => exact graphInsertAfter_WF _ _ _ _ h
  case insertBefore g a ns => exact graphInsertBefore_WF _ _ _ _ h
  case remove g ns safe => exact graphRemove_WF _ _ _ _ h
  case sortOk orders => exact guardOp_WF _ _ _ _ h (sortApply_WF _ _ h)
  case sortCycle => exact guardOp_WF _ _ _ _ h h
  case attrEdit => exact guardOp_WF _ _ _ _ h h
  case newNodeAttrs opType name inputs numOutputs outputs graph attrs =>
    exact withAttrs_WF _ _ _ (newNode_WF _ _ _ _ _ _ _ h)
  case sort g => exact graphSort_WF _ _ h
  case setNodeName n s => exact setNodeName_WF _ _ _ h
  case setOpType n s => exact setOpType_WF _ _ _ h
  case clearConst v => exact clearConst_WF _ _ h
  case attrSet n key gs => exact guardOp_WF _ _ _ _ h (setAttrs_WF _ _ _ h)
  case attrDel n key strict => exact guardOp_WF _ _ _ _ h (setAttrs_WF _ _ _ h)
  case attrClear n => exact guardOp_WF _ _ _ _ h (setAttrs_WF _ _ _ h)


/-! ### composite calls -/

theorem andThen_WF (r : World × Outcome) (f : World → World × Outcome) (h : WF r.1)
    (hf : ∀ w, WF w → WF (f w).1) : WF (andThen r f).1 := by
  unfold andThen; split
  · exact hf _ h
  · exact h

theorem rauwSeq_WF (rgo : Bool) : ∀ (ps : List (Nat × Nat)) (w : World), WF w → WF (rauwSeq w rgo ps).1
  | [], _, h => h
  | (v, r) :: rest, w, h => by
    unfold rauwSeq
    exact andThen_WF _ _ (rauw_WF w v r rgo h) (fun w1 h1 => rauwSeq_WF rgo rest w1 h1)

theorem rauwMany_WF (w : World) (vs rs : List Nat) (rgo : Bool) (h : WF w) : WF (rauwMany w vs rs rgo).1 := by
  unfold rauwMany; split
  · exact h
  · exact rauwSeq_WF _ _ _ h

theorem rauwManyChecked_WF (w : World) (vs rs : List Nat) (rgo : Bool) (h : WF w) :
    WF (rauwManyChecked w vs rs rgo).1 := by
  unfold rauwManyChecked; split
  · exact h
  · split
    · exact h
    · exact rauwSeq_WF _ _ _ h

theorem rauwManyExact_WF (w : World) (vs rs : List Nat) (rgo : Bool) (h : WF w) :
    WF (rauwManyExact w vs rs rgo).1 := by
  unfold rauwManyExact; split
  · exact h
  · exact guardOp_WF _ _ _ _ h (rauwSeq_WF _ _ _ h)

theorem setNameIfPlain_WF (w : World) (v : Nat) (s : Option String) (h : WF w) : WF (setNameIfPlain w v s) := by
  unfold setNameIfPlain; split
  · exact h
  · split
    · exact bump_WF h
    · rename_i hc; exact setNamePlain_WF _ _ _ h (by simpa using hc)

theorem renameValues_WF (w : World) (vs : List Nat) (names : List String) (h : WF w) :
    WF (renameValues w vs names).1 := by
  unfold renameValues
  split
  · exact h
  · split
    · exact h
    · apply guardOp_WF _ _ _ _ h
      apply foldl_inv WF _ _ _ _ _
      · intro a p ha; unfold renamePutStep; split
        · exact initPut_WF _ _ _ _ ha
        · exact bump_WF ha
      · apply foldl_inv WF _ (fun a p ha => setNameIfPlain_WF a _ _ ha)
        apply foldl_inv WF _ _ _ _ h
        intro a p ha; unfold renameDelStep; split
        · exact initDel_WF _ _ _ ha
        · exact bump_WF ha

theorem copyInfo_WF : ∀ (ps : List (Nat × Nat)) (w : World), WF w → WF (copyInfo w ps).1
  | [], _, h => h
  | (o, n) :: rest, w, h => by
    unfold copyInfo
    simp only []
    have h1 : WF (match (w.val o).const with
        | some t => w.setVal n { w.val n with const := some t }
        | none => w) := by
      split
      · apply WF_of_same_core _ _ _ h
        · intro u; simp; split
          · subst_vars; simp
          · simp
        · intro m; exact ⟨rfl, rfl, rfl⟩
        · intro g; exact ⟨rfl, rfl, rfl, rfl, rfl, rfl⟩
      · exact h
    apply andThen_WF _ _ _ (fun w2 h2 => copyInfo_WF rest w2 h2)
    split
    · exact setName_WF _ _ _ h1
    · exact h1

theorem replaceNodesAndValues_WF (w : World) (g ip : Nat) (oldNodes newNodes oldVals newVals : List Nat)
    (h : WF w) : WF (replaceNodesAndValues w g ip oldNodes newNodes oldVals newVals).1 := by
  unfold replaceNodesAndValues
  apply andThen_WF _ _ (copyInfo_WF _ _ h)
  intro w1 h1
  apply andThen_WF _ _ (rauwMany_WF _ _ _ _ h1)
  intro w2 h2
  apply andThen_WF _ _ (graphInsertAfter_WF _ _ _ _ h2)
  intro w3 h3
  exact graphRemove_WF _ _ _ _ h3

theorem tapeInitializer_WF (w : World) (g : Option Nat) (name tname : Option String) (locked : Bool) (h : WF w) :
    WF (tapeInitializer w g name tname locked).1 := by
  unfold tapeInitializer
  split
  · exact h
  · rename_i nm _
    have h0 : WF { w with tensors := lset w.tensors w.tensors.length tname,
                          locked := lset w.locked w.tensors.length locked } := by
      apply WF_of_same_core _ _ _ h
      · intro v; exact ⟨rfl, rfl, rfl, rfl, rfl, rfl, rfl, rfl⟩
      · intro n; exact ⟨rfl, rfl, rfl⟩
      · intro g; exact ⟨rfl, rfl, rfl, rfl, rfl, rfl⟩
    have h1 := allocVal_WF _ { name := some nm, const := some w.tensors.length } rfl rfl rfl rfl rfl rfl h0
    split
    · exact h1
    · exact initMut_WF _ _ _ h1

theorem setNameSeq_WF : ∀ (ps : List (Nat × String)) (w : World), WF w → WF (setNameSeq w ps).1
  | [], _, h => h
  | (v, s) :: rest, w, h => by
    unfold setNameSeq
    exact andThen_WF _ _ (setName_WF w v _ h) (fun w1 h1 => setNameSeq_WF rest w1 h1)

theorem builderNode_WF (w : World) (g : Option Nat) (opType : String) (inputs : List (Option Nat)) (k : Nat)
    (names : Option (List String)) (h : WF w) : WF (builderNode w g opType inputs k names).1 := by
  unfold builderNode
  apply andThen_WF _ _ (newNode_WF _ _ _ _ _ _ _ h)
  intro w1 h1
  split
  · exact h1
  · exact setNameSeq_WF _ _ h1

theorem replaceNodesAndValuesExact_WF (w : World) (g ip : Nat) (oldNodes newNodes oldVals newVals : List Nat)
    (h : WF w) : WF (replaceNodesAndValuesExact w g ip oldNodes newNodes oldVals newVals).1 := by
  unfold replaceNodesAndValuesExact
  apply andThen_WF _ _ (copyInfo_WF _ _ h)
  intro w1 h1
  apply andThen_WF _ _ (rauwManyExact_WF _ _ _ _ h1)
  intro w2 h2
  apply andThen_WF _ _ (graphInsertAfter_WF _ _ _ _ h2)
  intro w3 h3
  exact graphRemove_WF _ _ _ _ h3

theorem stepConv_WF (w : World) (op : ConvOp) (h : WF w) : WF (stepConv w op).1 := by
  cases op <;> simp only [stepConv]
  case tapeInitializer g name tname locked => exact tapeInitializer_WF _ _ _ _ _ h
  case builderNode g opType inputs k names => exact builderNode_WF _ _ _ _ _ _ h
  case rauwMany vs rs rgo => exact rauwMany_WF _ _ _ _ h
  case rauwManyExact vs rs rgo => exact rauwManyExact_WF _ _ _ _ h
  case renameValues vs names => exact renameValues_WF _ _ _ h
  case replaceNodesAndValues g ip a b c d => exact replaceNodesAndValues_WF _ _ _ _ _ _ _ h
  case replaceNodesAndValuesExact g ip a b c d => exact replaceNodesAndValuesExact_WF _ _ _ _ _ _ _ h

theorem stepAny_WF (w : World) (op : AnyOp) (h : WF w) : WF (stepAny w op).1 := by
  cases op with
  | one op => exact step_WF w op h
  | conv op => exact stepConv_WF w op h

end IrVerif.Kernel

import IrVerif.Lemmas.ScopeSerdeBridgeSub
/-!
The C02 bridge WITH nested graphs, part 2: one graph and one node, the statement about the parts below them
(the node list of the graph, the attributes of the node) as a hypothesis supplied by the mutual induction.
-/
namespace IrVerif.Bridge
open IrVerif.Proto IrVerif.Serde

/-- what the mutual induction provides for the node list of a graph -/
def NodesBr (outerN : Scopes) (outerS : List Scope.Table) (bases : List Nat) (vis : List ValueInfoP)
    (q : List AnnotP) (nodes : List NodeP) : Prop :=
  ∀ (tbl : List IRValue) (st : Scope.Store) (P : List Cell) (top : Scope.Table) (b : Nat),
    wfNodes (tableNames tbl :: outerN) nodes = true → CoreEq st P → TblRelB top (tableNames tbl) b →
    ∃ xs st', desNodes outerN vis q nodes tbl = .ok (xs, tbl) ∧
      Scope.deserNodes st top outerS (Scope.vinfoTable (vis.map absVI)) (absNsFull nodes)
        = .ok (st', top, treeNodes (b :: bases) P.length st.nn st.ng xs) ∧
      CoreEq st' (P ++ cellsNodes xs) ∧ st'.nn = st.nn + nnNodes xs ∧ st'.ng = st.ng + ngNodes xs

/-- what the mutual induction provides for the attributes of a node -/
def AttrsBr (scN : Scopes) (scS : List Scope.Table) (bases : List Nat) (attrs : List AttrP) : Prop :=
  wfAttrs scN attrs = true → ∀ (st : Scope.Store) (P : List Cell), CoreEq st P →
    ∃ xs st', desAttrs scN attrs = .ok xs ∧
      Scope.deserSubs st scS (subsAttrs attrs) = .ok (st', treeAttrs bases P.length st.nn st.ng xs) ∧
      CoreEq st' (P ++ cellsAttrs xs) ∧ st'.nn = st.nn + nnAttrs xs ∧ st'.ng = st.ng + ngAttrs xs ∧
      xs.map IRAttr.name = attrs.map AttrP.name

/-! ## one node -/

theorem node_coreB (outerN : Scopes) (outerS : List Scope.Table) (bases : List Nat) (vis : List ValueInfoP)
    (q : List AnnotP) (tbl : List IRValue) (top : Scope.Table) (b : Nat)
    (hsc : ScRel outerS outerN bases) (ht : TblRelB top (tableNames tbl) b)
    (inputs outputs : List String) (name opType domain overload doc : String)
    (attrs : List AttrP) (metadata : List Entry) (devcfgs : List NodeDevCfgP)
    (hw : wfNode (tableNames tbl :: outerN)
      (.mk inputs outputs name opType domain overload doc attrs metadata devcfgs) = true)
    (hattrs : AttrsBr (tableNames tbl :: outerN) (top :: outerS) (b :: bases) attrs)
    (st : Scope.Store) (P : List Cell) (hc : CoreEq st P) :
    ∃ x st', desNode outerN vis q tbl (.mk inputs outputs name opType domain overload doc attrs metadata devcfgs)
        = .ok (x, tbl) ∧
      Scope.deserNode st top outerS (Scope.vinfoTable (vis.map absVI))
          (absNFull (.mk inputs outputs name opType domain overload doc attrs metadata devcfgs))
        = .ok (st', top, treeNode (b :: bases) P.length st.nn st.ng x) ∧
      CoreEq st' (P ++ cellsNode x) ∧ st'.nn = st.nn + nnNode x ∧ st'.ng = st.ng + ngNode x := by
  simp only [wfNode, Bool.and_eq_true, List.headD_cons] at hw
  obtain ⟨⟨⟨⟨⟨hin, hout⟩, hnd⟩, hattrsW⟩, _⟩, _⟩ := hw
  have hsc' : ScRel (top :: outerS) (tableNames tbl :: outerN) (b :: bases) := .cons ht hsc
  have hres : ∀ x, Scope.resolve x (top :: outerS)
      = (Serde.resolve (tableNames tbl :: outerN) x).map (refId (b :: bases)) := fun x => scRel_resolve x hsc'
  have b1 : ∀ x ∈ inputs, x ≠ "" → (Scope.resolve x (top :: outerS)).isSome = true := by
    intro x hx hne
    have := List.all_eq_true.1 hin x hx
    rcases Bool.or_eq_true_iff.1 this with h1 | h1
    · simp [String.isEmpty_iff] at h1; exact absurd h1 hne
    · rw [hres]; simpa using h1
  have b2 : AllBound top outputs := by
    intro x hx hne
    have := List.all_eq_true.1 hout x hx
    rcases Bool.or_eq_true_iff.1 this with h1 | h1
    · simp [String.isEmpty_iff] at h1; exact absurd h1 hne
    · rw [tblRelB_lookup ht]
      have := lookupLast_isSome (names := tableNames tbl) (n := x) (by simpa using h1)
      simpa using this
  obtain ⟨st2, l1, l2, l3, l4⟩ := lookupOutputs_bound top outputs st P hc b2
  have hshift : (outputs.map fun x => if x = "" then none else top.lookup x)
      = (outputs.map fun s => if s = "" then none else lookupLast (tableNames tbl) s).map
          (fun o => o.map (b + ·)) := by
    rw [List.map_map]
    apply List.map_congr_left
    intro s _
    by_cases he : s = ""
    · simp [he]
    · simp [he, tblRelB_lookup ht]
  rw [hshift, absOuts_shift] at l1
  rw [hshift, numNone_shift] at l2
  obtain ⟨xs, st3, a1, a2, a3, a4, a5, a6⟩ := hattrs hattrsW st2 _ l2
  have hnd' := nodupStr_iff.1 hnd
  have hord : orderByFirst (attrs.map AttrP.name) xs = xs := by
    rw [← a6]; exact orderByFirst_self (by rw [a6]; exact hnd')
  have hins : (inputs.map fun x => if x = "" then none else Scope.resolve x (top :: outerS))
      = absInsB (b :: bases) (inputs.map fun n => if n = "" then none else resolve (tableNames tbl :: outerN) n) := by
    simp only [absInsB, List.map_map]
    apply List.map_congr_left
    intro s _
    by_cases he : s = ""
    · simp [he]
    · simp [he, hres]
  have hm := sameCore_mkNode st3
    (absInsB (b :: bases) (inputs.map fun n => if n = "" then none else resolve (tableNames tbl :: outerN) n))
    (absOutsB b P.length (outputs.map fun s => if s = "" then none else lookupLast (tableNames tbl) s))
    (treeAttrs (b :: bases)
      (P ++ List.replicate (numNone (outputs.map fun s => if s = "" then none else lookupLast (tableNames tbl) s))
        blankCell).length st2.nn st2.ng xs)
  refine ⟨IRNode.mk (normDomain domain) opType overload name doc
      (inputs.map (fun n => if n = "" then none else resolve (tableNames tbl :: outerN) n))
      (outputs.map (fun n => if n = "" then none else lookupLast (tableNames tbl) n))
      xs (dictOfEntries metadata) (devcfgs.map (desNodeDevCfg (tableNames tbl :: outerN))), _, ?_, ?_,
      coreEq_same (by simpa [cellsNode, List.append_assoc] using a3) hm, ?_, ?_⟩
  · simp only [desNode, desNodeInputs_wf outerN vis q tbl inputs hin, desNodeOutputs_wf _ outputs hout,
      desAttrsLast_eq hnd', a1, bind, Except.bind, hord]
  · simp only [absNFull, Scope.deserNode, resolveInputs_res st top outerS _ inputs b1, l1, a2, hins,
      Scope.mkNode_snd, treeNode, List.headD_cons]
    simp [a4, l3, l4]
  · rw [Scope.mkNode_fst_nn, a4, l3]; simp [nnNode]; omega
  · rw [Scope.mkNode_fst_ng, a5, l4]; simp [ngNode]

/-! ## one graph -/

theorem graph_coreB (outerN : Scopes) (outerS : List Scope.Table) (bases : List Nat)
    (name doc : String) (nodes : List NodeP) (inits : List TensorP)
    (inputs outputs vis : List ValueInfoP) (quant : List AnnotP) (metadata : List Entry)
    (hwf : wfGraph outerN (.mk name doc nodes inits inputs outputs vis quant metadata) = true)
    (hnodes : NodesBr outerN outerS bases vis quant nodes)
    (st : Scope.Store) (P : List Cell) (hc : CoreEq st P) :
    ∃ x st', desGraph outerN (.mk name doc nodes inits inputs outputs vis quant metadata) = .ok x ∧
      Scope.deserGraph st outerS (absGFull (.mk name doc nodes inits inputs outputs vis quant metadata))
        = .ok (st', treeG bases P.length st.nn st.ng x) ∧
      CoreEq st' (P ++ cellsG x) ∧ st'.nn = st.nn + nnG x ∧ st'.ng = st.ng + ngG x := by
  obtain ⟨hw, hwn⟩ := graphWF_of_wf outerN name doc nodes inits inputs outputs vis quant metadata hwf
  have hNpre := tableNames_tblPre (inits := inits) (inputs := inputs) (vis := vis) (quant := quant)
    (outs := nodeOutNames nodes)
  have hnd := hw.nodupNames
  simp only [scopeNames] at hnd
  rw [List.nodup_append] at hnd
  obtain ⟨hndAB, hndC, hdisC⟩ := hnd
  rw [List.nodup_append] at hndAB
  obtain ⟨hndA, _hndB, _hdisB⟩ := hndAB
  -- C02 side, phase by phase (as in `graph_core`)
  have hA := desGraphInputs_eq quant inputs hw.wfIn
  have hwfT : inits.all wfTensor = true := by
    rw [List.all_eq_true]
    intro p hp
    have := List.all_eq_true.1 hw.wfInit p hp
    simp only [Bool.and_eq_true] at this
    exact this.1
  have hwfT2 : ∀ p ∈ inits, wfTensor p = true ∧ validDType p.dataType = true := by
    intro p hp
    have := List.all_eq_true.1 hw.wfInit p hp
    simpa [Bool.and_eq_true] using this
  have hT := desTensors_eq inits hwfT
  have hne : ∀ p ∈ inits, p.name ≠ "" := by
    intro p hp
    apply hw.nonempty
    by_cases hin : p.name ∈ inputs.map (·.name)
    · exact mem_scopeNames.2 (Or.inl hin)
    · exact mem_scopeNames.2 (Or.inr (Or.inl ⟨List.mem_map_of_mem hp, hin⟩))
  obtain ⟨idxs, hB, hidx⟩ := desInitializers_spec vis quant hw.wfVis inits (inputs.map (inputValT quant))
    hw.wfInit hne hw.nodupInit (by rw [tableNames_inputVals]; exact hndA)
  rw [tableNames_inputVals] at hB hidx
  have hNB : tableNames ((inputs.map (inputValT quant)).map (constFrom inits)
      ++ (newInits (inputs.map (·.name)) inits).map (initValT vis quant))
      = inputs.map (·.name) ++ (inits.map (·.name)).filter (fun n => !(inputs.map (·.name)).contains n) := by
    simp only [tableNames, List.map_append, List.map_map]
    congr 1
    · apply List.map_congr_left; intro vi _; simp
    · rw [← newInits_names]
      apply List.map_congr_left; intro p _; simp
  have hC := declareAll_spec vis quant hw.wfVis nodes
    ((inputs.map (inputValT quant)).map (constFrom inits)
      ++ (newInits (inputs.map (·.name)) inits).map (initValT vis quant))
    (by intro n hn hm; rw [hNB] at hm; exact hdisC n hm n hn rfl) hndC
  have hpre : (inputs.map (inputValT quant)).map (constFrom inits)
      ++ (newInits (inputs.map (·.name)) inits).map (initValT vis quant)
      ++ (nodeOutNames nodes).map (newValueT vis quant)
      = tblPre inits inputs vis quant (nodeOutNames nodes) := rfl
  rw [hpre] at hC
  have hE := desGraphOutputs_spec outputs (tblPre inits inputs vis quant (nodeOutNames nodes))
    hw.wfOut hw.consOut (by rw [hNpre]; exact hw.nodupNames)
  have hEf : (tblPre inits inputs vis quant (nodeOutNames nodes)).map (outUpd outputs)
      = tblFinal inits inputs outputs vis quant (nodeOutNames nodes) := rfl
  rw [hEf] at hE
  have hidx' : idxs.map some = inits.map (fun p => lookupLast
      (scopeNames (inputs.map (·.name)) (inits.map (·.name)) (nodeOutNames nodes)) p.name) := by
    rw [hidx, hNB]
    apply List.map_congr_left
    intro p hp
    simp only [scopeNames]
    symm
    apply lookupLast_append_left
    intro hm
    have hpAB : p.name ∈ inputs.map (·.name)
        ++ (inits.map (·.name)).filter (fun n => !(inputs.map (·.name)).contains n) := by
      by_cases hin : p.name ∈ inputs.map (·.name)
      · exact List.mem_append_left _ hin
      · refine List.mem_append_right _ (List.mem_filter.2 ⟨List.mem_map_of_mem hp, by simpa using hin⟩)
    exact hdisC _ hpAB _ hm rfl
  obtain ⟨_, _, s3, _⟩ := ser_inits hw inits idxs (fun p hp => hp) hidx'
  have hidxnd : idxs.Nodup := by
    have : (idxs.map (fun i => ((tblFinal inits inputs outputs vis quant (nodeOutNames nodes)).getD i
        (IRValue.blank "")).name)).Nodup := by rw [s3]; exact hw.nodupInit
    exact nodup_of_map _ this
  have f_idx := dedupNat_of_nodup hidxnd
  have hidxlt : ∀ i ∈ idxs, i < (tblFinal inits inputs outputs vis quant (nodeOutNames nodes)).length := by
    intro i hi
    have : some i ∈ idxs.map some := List.mem_map_of_mem hi
    rw [hidx'] at this
    obtain ⟨p, _, hp⟩ := List.mem_map.1 this
    have := lookupLast_lt hp
    rw [← tableNames_tblFinal (inits := inits) (inputs := inputs) (outputs := outputs) (vis := vis)
      (quant := quant)] at this
    simpa [tableNames] using this
  have hlenF : (tblFinal inits inputs outputs vis quant (nodeOutNames nodes)).length
      = (tblPre inits inputs vis quant (nodeOutNames nodes)).length := by simp [tblFinal]
  -- abbreviations
  obtain ⟨TP, hTP⟩ : ∃ TP, TP = tblPre inits inputs vis quant (nodeOutNames nodes) := ⟨_, rfl⟩
  obtain ⟨TF, hTF⟩ : ∃ TF, TF = tblFinal inits inputs outputs vis quant (nodeOutNames nodes) := ⟨_, rfl⟩
  rw [← hTP] at hC hE hNpre hlenF
  rw [← hTF] at hE s3 hidxlt hlenF
  -- Scope side, phase by phase
  obtain ⟨p1a, p1b, p1c, p1d⟩ := ph1_inputs quant inputs st P hc
  generalize hI : Scope.deserInputs st (inputs.map absVI) = rI at p1a p1b p1c p1d
  obtain ⟨st1, ins⟩ := rI
  simp only at p1a p1b p1c p1d
  subst p1a
  have ht1 : TblRelB (Scope.inputTable (inputs.map absVI) (List.range' P.length inputs.length))
      (tableNames (inputs.map (inputValT quant))) P.length := by
    rw [tableNames_inputVals]
    unfold TblRelB Scope.inputTable
    simp [List.map_map, Function.comp_def, absVI]
  obtain ⟨st2, tbl2, p2a, p2b, p2c, p2d, p2e⟩ := ph2B vis quant hw.wfVis P inits _ st1 _ _ idxs hwfT2 p1b ht1 hB
  obtain ⟨st3, tbl3, p3a, p3b, p3c, p3d, p3e⟩ :=
    ph3B_declareAll vis quant hw.wfVis P nodes _ st2 tbl2 _ p2b p2c hC
  obtain ⟨xs, st4, hD1, p4a, p4b, p4c, p4d⟩ := hnodes TP st3 (P ++ TP.map absCell) tbl3 P.length
    (by rw [hNpre]; exact hwn) p3b p3c
  obtain ⟨st5, p5a, p5b, _, p5d, p5e⟩ := ph5B tbl3 P outputs TP st4 (cellsNodes xs) _ _ p4b p3c hE
  have hng5 : st5.ng = st.ng + ngNodes xs := by rw [p5e, p4d, p3e, p2e, p1d]
  have hnn5 : st5.nn = st.nn + nnNodes xs := by rw [p5d, p4c, p3d, p2d, p1c]
  have hnn3 : st3.nn = st.nn := by rw [p3d, p2d, p1c]
  have hng3 : st3.ng = st.ng := by rw [p3e, p2e, p1d]
  obtain ⟨OUTS, hOUTS⟩ : ∃ OUTS, OUTS = absGOutsB P.length (P.length + TP.length + (cellsNodes xs).length)
      (outputs.map (gOutT (tableNames TP))) := ⟨_, rfl⟩
  obtain ⟨NS, hNS⟩ : ∃ NS, NS = treeNodes (P.length :: bases) (P ++ TP.map absCell).length st3.nn st3.ng xs :=
    ⟨_, rfl⟩
  rw [← hOUTS] at p5a
  rw [← hNS] at p4a
  have hS : Scope.deserGraph st outerS (absGFull (.mk name doc nodes inits inputs outputs vis quant metadata))
      = .ok (Scope.mkGraph st5 (List.range' P.length inputs.length) OUTS NS (idxs.map (P.length + ·))) := by
    simp only [absGFull, Scope.deserGraph, hI, p2a, p3a, p4a, p5a]
  have hsame := mkGraph_same st5 (List.range' P.length inputs.length) OUTS NS (idxs.map (P.length + ·))
  have hcnt := Scope.mkGraph_fst_counters st5 (List.range' P.length inputs.length) OUTS NS (idxs.map (P.length + ·))
  -- names of the initializer values in the store `Graph(...)` reads them from
  have hs1 := sameCore_setOwner st5.ng (fun c => { c with isIn := true }) (fun _ => rfl) (fun _ => rfl)
    (fun _ => rfl) (List.range' P.length inputs.length) st5
  have hs2 := sameCore_setOwner st5.ng (fun c => { c with isOut := true }) (fun _ => rfl) (fun _ => rfl)
    (fun _ => rfl) OUTS
    (Scope.setOwner st5 st5.ng (fun c => { c with isIn := true }) (List.range' P.length inputs.length))
  have hs := hs1.trans hs2
  have hname : ∀ i ∈ idxs, (st5.vals (P.length + i)).name = some (TF.getD i (IRValue.blank "")).name := by
    intro i hi
    have hlt := hidxlt i hi
    have hcell := p5b.cells (P.length + i) (by simp; omega)
    rw [List.append_assoc (P ++ TF.map absCell), getD_PT P TF _ i hlt] at hcell
    simp only [cellAt, absCell, Cell.mk.injEq] at hcell
    exact hcell.1
  have hnm : ∀ i ∈ idxs, ((Scope.setOwner (Scope.setOwner st5 st5.ng (fun c => { c with isIn := true })
      (List.range' P.length inputs.length)) st5.ng (fun c => { c with isOut := true }) OUTS).vals
        (P.length + i)).name.getD "" = (TF.getD i (IRValue.blank "")).name := by
    intro i hi
    rw [hs.name, hname i hi]; rfl
  have hinits : Scope.mkGraphInits st5 (List.range' P.length inputs.length) OUTS (idxs.map (P.length + ·))
      = idxs.map (fun i => ((TF.getD i (IRValue.blank "")).name, P.length + i)) := by
    unfold Scope.mkGraphInits
    rw [initDict_nodup _ _ [] (by
      simp only [List.map_nil, List.nil_append, List.map_map]
      have e : idxs.map ((fun v => ((Scope.setOwner (Scope.setOwner st5 st5.ng (fun c => { c with isIn := true })
          (List.range' P.length inputs.length)) st5.ng (fun c => { c with isOut := true }) OUTS).vals v).name.getD "")
            ∘ (fun x => P.length + x))
          = idxs.map (fun i => (TF.getD i (IRValue.blank "")).name) :=
        List.map_congr_left (fun i hi => hnm i hi)
      rw [e, s3]
      exact hw.nodupInit)]
    simp only [List.nil_append, List.map_map]
    apply List.map_congr_left
    intro i hi
    simp only [Function.comp]
    rw [hnm i hi]
  refine ⟨IRGraph.mk TF (List.range inputs.length) (dedupNat idxs) xs (outputs.map (gOutT (tableNames TP)))
    name doc [] (dictOfEntries metadata), _, ?_, ?_, coreEq_same (by simpa [cellsG, List.append_assoc] using p5b) hsame,
    ?_, ?_⟩
  · simp only [desGraph, hA, hT, hB, hC, hD1, hE, bind, Except.bind]
  · rw [hS]
    have : (Scope.mkGraph st5 (List.range' P.length inputs.length) OUTS NS (idxs.map (P.length + ·)))
        = ((Scope.mkGraph st5 (List.range' P.length inputs.length) OUTS NS (idxs.map (P.length + ·))).1,
           (Scope.mkGraph st5 (List.range' P.length inputs.length) OUTS NS (idxs.map (P.length + ·))).2) := rfl
    rw [this, Scope.mkGraph_snd, hinits]
    simp only [treeG, f_idx, hng5, hOUTS, hNS, hnn3, hng3, hlenF, List.length_append, List.length_map]
    simp [List.range'_eq_map_range]
  · rw [hcnt.2.1, hnn5]; simp [nnG]
  · rw [hcnt.2.2, hng5]; simp [ngG]; omega

end IrVerif.Bridge

/-
The association between source values and round-tripped values, and the scope table it induces.
-/
import IrVerif.Lemmas.ScopeRT
namespace IrVerif.Scope

abbrev Assoc := List (Nat × Nat)

/-- the round-tripped id of source value `v` -/
def sig (A : Assoc) (v : Nat) : Nat := (A.lookup v).getD 0

theorem lookup_append_some {A B : Assoc} {v d : Nat} (h : A.lookup v = some d) : (A ++ B).lookup v = some d := by
  rw [List.lookup_append, h]; rfl

theorem lookup_isSome_of_mem_keys {A : Assoc} {v : Nat} (h : v ∈ A.map (·.1)) : ∃ d, A.lookup v = some d := by
  induction A with
  | nil => simp at h
  | cons e A ih =>
    obtain ⟨k, d⟩ := e
    by_cases hk : v = k
    · subst hk; exact ⟨d, by simp [List.lookup_cons]⟩
    · simp only [List.map_cons, List.mem_cons] at h
      rcases h with h | h
      · exact absurd h hk
      · obtain ⟨d', hd⟩ := ih h
        refine ⟨d', ?_⟩
        have : (v == k) = false := by simpa using hk
        simp [List.lookup_cons, this, hd]

theorem lookup_none_of_not_mem_keys {A : Assoc} {v : Nat} (h : v ∉ A.map (·.1)) : A.lookup v = none := by
  induction A with
  | nil => rfl
  | cons e A ih =>
    obtain ⟨k, d⟩ := e
    simp only [List.map_cons, List.mem_cons, not_or] at h
    have : (v == k) = false := by simpa using h.1
    simp [List.lookup_cons, this, ih h.2]

theorem sig_append_of_mem {A B : Assoc} {v : Nat} (h : v ∈ A.map (·.1)) : sig (A ++ B) v = sig A v := by
  obtain ⟨d, hd⟩ := lookup_isSome_of_mem_keys h
  simp [sig, lookup_append_some hd, hd]

theorem sig_append_single {A : Assoc} {v d : Nat} (h : v ∉ A.map (·.1)) : sig (A ++ [(v, d)]) v = d := by
  simp [sig, List.lookup_append, lookup_none_of_not_mem_keys h, List.lookup_cons]

theorem lookup_mem_assoc {A : Assoc} {v d : Nat} (h : A.lookup v = some d) : (v, d) ∈ A := by
  induction A with
  | nil => simp at h
  | cons e A ih =>
    obtain ⟨k, d'⟩ := e
    simp only [List.lookup_cons] at h
    split at h
    · rename_i hk
      have : v = k := by simpa using hk
      simp only [Option.some.injEq] at h
      subst this; subst h; simp
    · exact List.mem_cons_of_mem _ (ih h)

/-! ### the table induced by an association -/

/-- the scope entry of source value `v`: values with an empty name are never bound -/
def entryOf (V : Nat → ValueS) (A : Assoc) (v : Nat) : Option (Name × Nat) :=
  if nameTruthy (V v).name then some (nm V v, sig A v) else none

/-- the scope after the definitions `P` were processed in this order (newest first) -/
def tableOf (V : Nat → ValueS) (A : Assoc) (P : List Nat) : Table := (P.filterMap (entryOf V A)).reverse

theorem tableOf_snoc (V : Nat → ValueS) (A : Assoc) (P : List Nat) (v : Nat) :
    tableOf V A (P ++ [v]) = (entryOf V A v).toList ++ tableOf V A P := by
  simp only [tableOf, List.filterMap_append, List.reverse_append]
  cases h : entryOf V A v <;> simp [List.filterMap, h]

theorem tableOf_append (V : Nat → ValueS) (A : Assoc) (P Q : List Nat) :
    tableOf V A (P ++ Q) = tableOf V A Q ++ tableOf V A P := by
  simp [tableOf, List.filterMap_append, List.reverse_append]

theorem tableOf_cons (V : Nat → ValueS) (A : Assoc) (v : Nat) (P : List Nat) :
    tableOf V A (v :: P) = tableOf V A P ++ (entryOf V A v).toList := by
  simp only [tableOf, List.filterMap_cons]
  cases h : entryOf V A v <;> simp

theorem tableOf_congr (V : Nat → ValueS) (A B : Assoc) (P : List Nat) (h : ∀ v ∈ P, sig A v = sig B v) :
    tableOf V A P = tableOf V B P := by
  induction P with
  | nil => rfl
  | cons v P ih =>
    rw [tableOf_cons, tableOf_cons, ih (fun w hw => h w (by simp [hw]))]
    simp [entryOf, h v (by simp)]

theorem tableOf_extend (V : Nat → ValueS) (A B : Assoc) (P : List Nat) (h : ∀ v ∈ P, v ∈ A.map (·.1)) :
    tableOf V (A ++ B) P = tableOf V A P :=
  tableOf_congr V _ _ P (fun v hv => sig_append_of_mem (h v hv))

theorem nameTruthy_iff {o : Option Name} : nameTruthy o = true ↔ ∃ x, o = some x ∧ x ≠ "" := by
  cases o with
  | none => simp [nameTruthy]
  | some x => simp [nameTruthy]

theorem nm_of_name {V : Nat → ValueS} {v : Nat} {x : Name} (h : (V v).name = some x) : nm V v = x := by
  simp [nm, h]

/-- a name that no processed definition carries is unbound -/
theorem tableOf_lookup_none (V : Nat → ValueS) (A : Assoc) (P : List Nat) (x : Name)
    (h : ∀ v ∈ P, nameTruthy (V v).name = true → nm V v ≠ x) : (tableOf V A P).lookup x = none := by
  induction P with
  | nil => rfl
  | cons w P ih =>
    rw [tableOf_cons, List.lookup_append, ih (fun v hv => h v (by simp [hv]))]
    by_cases hw : nameTruthy (V w).name = true
    · have := h w (by simp) hw
      simp [entryOf, hw, lookup_cons_ne _ _ _ _ (Ne.symm this)]
    · simp [entryOf, hw]

/-- looking up the name of a processed definition finds its round-tripped id -/
theorem tableOf_lookup_mem (V : Nat → ValueS) (A : Assoc) (P : List Nat) (hu : NamesUnique V P) (v : Nat)
    (hv : v ∈ P) (ht : nameTruthy (V v).name = true) : (tableOf V A P).lookup (nm V v) = some (sig A v) := by
  induction P with
  | nil => simp at hv
  | cons w P ih =>
    have huP : NamesUnique V P := fun a ha b hb => hu a (by simp [ha]) b (by simp [hb])
    rw [tableOf_cons, List.lookup_append]
    by_cases hvP : v ∈ P
    · rw [ih huP hvP]; rfl
    · simp only [List.mem_cons] at hv
      rcases hv with rfl | hv
      · have hnone : (tableOf V A P).lookup (nm V v) = none := by
          apply tableOf_lookup_none
          intro u hu' hut hne
          apply hvP
          have : u = v := by
            apply hu u (by simp [hu']) v (by simp) hut
            obtain ⟨x, hx, _⟩ := nameTruthy_iff.mp ht
            obtain ⟨y, hy, _⟩ := nameTruthy_iff.mp hut
            rw [nm_of_name hx, nm_of_name hy] at hne
            rw [hx, hy, hne]
          rw [← this]; exact hu'
        rw [hnone]
        simp [entryOf, ht]
      · exact absurd hv hvP

theorem tableOf_mem (V : Nat → ValueS) (A : Assoc) (P : List Nat) (e : Name × Nat) (he : e ∈ tableOf V A P) :
    ∃ v ∈ P, nameTruthy (V v).name = true ∧ e = (nm V v, sig A v) := by
  simp only [tableOf, List.mem_reverse, List.mem_filterMap] at he
  obtain ⟨v, hv, h⟩ := he
  simp only [entryOf] at h
  split at h
  · rename_i ht
    simp only [Option.some.injEq] at h
    exact ⟨v, hv, ht, h.symm⟩
  · cases h

/-! ### the state of a round-trip run -/

/-- `A` relates source values to allocated cells of `s` carrying the same name -/
structure RS (V : Nat → ValueS) (s : Store) (A : Assoc) : Prop where
  keys_nodup : (A.map (·.1)).Nodup
  vals_lt : ∀ e ∈ A, e.2 < s.nv
  vals_nodup : (A.map (·.2)).Nodup
  names : ∀ e ∈ A, (s.vals e.2).name = (V e.1).name

theorem RS.sig_lt {V : Nat → ValueS} {s : Store} {A : Assoc} (h : RS V s A) {v : Nat}
    (hv : v ∈ A.map (·.1)) : sig A v < s.nv := by
  obtain ⟨d, hd⟩ := lookup_isSome_of_mem_keys hv
  have := h.vals_lt _ (lookup_mem_assoc hd)
  simpa [sig, hd] using this

theorem RS.sig_name {V : Nat → ValueS} {s : Store} {A : Assoc} (h : RS V s A) {v : Nat}
    (hv : v ∈ A.map (·.1)) : (s.vals (sig A v)).name = (V v).name := by
  obtain ⟨d, hd⟩ := lookup_isSome_of_mem_keys hv
  have := h.names _ (lookup_mem_assoc hd)
  simpa [sig, hd] using this

theorem RS.sig_inj {V : Nat → ValueS} {s : Store} {A : Assoc} (h : RS V s A) {a b : Nat}
    (ha : a ∈ A.map (·.1)) (hb : b ∈ A.map (·.1)) (he : sig A a = sig A b) : a = b := by
  obtain ⟨da, hda⟩ := lookup_isSome_of_mem_keys ha
  obtain ⟨db, hdb⟩ := lookup_isSome_of_mem_keys hb
  simp only [sig, hda, hdb, Option.getD_some] at he
  subst he
  have m1 := lookup_mem_assoc hda
  have m2 := lookup_mem_assoc hdb
  -- two entries with the same second component
  have key : ∀ (A : Assoc), (A.map (·.2)).Nodup → ∀ a b d, (a, d) ∈ A → (b, d) ∈ A → a = b := by
    intro A
    induction A with
    | nil => intro _ a b d h; simp at h
    | cons e A ih =>
      intro hn a b d h1 h2
      simp only [List.map_cons, List.nodup_cons, List.mem_map, not_exists, not_and] at hn
      simp only [List.mem_cons] at h1 h2
      rcases h1 with rfl | h1 <;> rcases h2 with h2 | h2
      · exact (congrArg Prod.fst h2).symm
      · exact absurd rfl (hn.1 (b, d) h2)
      · subst h2; exact absurd rfl (hn.1 (a, d) h1)
      · exact ih hn.2 a b d h1 h2
  exact key A h.vals_nodup a b da m1 m2

/-- binding a fresh cell to a source value that has no image yet -/
theorem RS.alloc {V : Nat → ValueS} {s : Store} {A : Assoc} (h : RS V s A) (v : Nat) (c : ValueS)
    (hv : v ∉ A.map (·.1)) (hc : c.name = (V v).name) : RS V (s.alloc c).1 (A ++ [(v, s.nv)]) where
  keys_nodup := by
    simp only [List.map_append, List.map_cons, List.map_nil]
    rw [List.nodup_append]
    exact ⟨h.keys_nodup, by simp, fun a ha b hb hab => by
      simp only [List.mem_singleton] at hb; subst hb; subst hab; exact hv ha⟩
  vals_lt := fun e he => by
    simp only [List.mem_append, List.mem_singleton] at he
    rcases he with he | rfl
    · have := h.vals_lt e he; simp; omega
    · simp
  vals_nodup := by
    simp only [List.map_append, List.map_cons, List.map_nil]
    rw [List.nodup_append]
    refine ⟨h.vals_nodup, by simp, fun a ha b hb hab => ?_⟩
    simp only [List.mem_singleton] at hb; subst hb; subst hab
    simp only [List.mem_map] at ha
    obtain ⟨e, he, heq⟩ := ha
    have := h.vals_lt e he
    omega
  names := fun e he => by
    simp only [List.mem_append, List.mem_singleton] at he
    rcases he with he | rfl
    · rw [alloc_vals_lt _ _ (h.vals_lt e he)]; exact h.names e he
    · simp [hc]

/-- a step that keeps the names of allocated cells keeps the relation -/
theorem RS.step {V : Nat → ValueS} {s s' : Store} {A : Assoc} (h : RS V s A) (hle : s.nv ≤ s'.nv)
    (hn : ∀ v, v < s.nv → (s'.vals v).name = (s.vals v).name) : RS V s' A where
  keys_nodup := h.keys_nodup
  vals_lt := fun e he => Nat.lt_of_lt_of_le (h.vals_lt e he) hle
  vals_nodup := h.vals_nodup
  names := fun e he => by rw [hn _ (h.vals_lt e he)]; exact h.names e he

end IrVerif.Scope

/-
Frame lemmas for the primitive stores of `Model/LinkedSet.lean`: every accessor (`nx pv val own
stp size`) after every mutator (`setNext setPrev setErased pushBox`).  Everything above this file
reasons through these equations only.
-/
import IrVerif.Model.LinkedSet
namespace IrVerif.LinkedSet

theorem box_def (s : LSet) (b : Nat) : box s b = (s.boxes[b]?).getD Box.dflt := by
  simp [box, Array.getD_eq_getD_getElem?]

theorem box_setBox (s : LSet) (b c : Nat) (x : Box) :
    box (setBox s b x) c = if b = c ∧ b < size s then x else box s c := by
  simp only [box_def, setBox, Array.getElem?_setIfInBounds, size]
  by_cases h : b = c
  · subst h
    by_cases h2 : b < s.boxes.size <;> simp [h2]
  · simp [h]

@[simp] theorem size_setBox (s : LSet) (b : Nat) (x : Box) : size (setBox s b x) = size s := by
  simp [size, setBox]

@[simp] theorem size_setNext (s : LSet) (b n : Nat) : size (setNext s b n) = size s := by simp [setNext]
@[simp] theorem size_setPrev (s : LSet) (b n : Nat) : size (setPrev s b n) = size s := by simp [setPrev]
@[simp] theorem size_setErased (s : LSet) (b : Nat) : size (setErased s b) = size s := by
  simp [setErased, size, setBox]
@[simp] theorem size_pushBox (s : LSet) (v : Nat) : size (pushBox s v) = size s + 1 := by
  simp [pushBox, size]

theorem box_oob (s : LSet) (b : Nat) (h : size s ≤ b) : box s b = Box.dflt := by
  simp only [box_def, size] at *
  rw [Array.getElem?_eq_none (by omega)]; rfl

/-! setNext -/
theorem nx_setNext (s : LSet) (b n c : Nat) :
    nx (setNext s b n) c = if c = b ∧ b < size s then n else nx s c := by
  simp only [nx, setNext, box_setBox]
  by_cases h : b = c ∧ b < size s
  · obtain ⟨h1, h2⟩ := h; subst h1; simp [h2]
  · have : ¬ (c = b ∧ b < size s) := fun ⟨h1, h2⟩ => h ⟨h1.symm, h2⟩
    simp [h, this]
theorem pv_setNext (s : LSet) (b n c : Nat) : pv (setNext s b n) c = pv s c := by
  simp only [pv, setNext, box_setBox]; split
  · rename_i h; rw [h.1]
  · rfl
theorem val_setNext (s : LSet) (b n c : Nat) : val (setNext s b n) c = val s c := by
  simp only [val, setNext, box_setBox]; split
  · rename_i h; rw [h.1]
  · rfl
theorem own_setNext (s : LSet) (b n c : Nat) : own (setNext s b n) c = own s c := by
  simp only [own, setNext, box_setBox]; split
  · rename_i h; rw [h.1]
  · rfl
theorem stp_setNext (s : LSet) (b n c : Nat) : stp (setNext s b n) c = stp s c := by
  simp only [stp, setNext, box_setBox]; split
  · rename_i h; rw [h.1]
  · rfl

/-! setPrev -/
theorem pv_setPrev (s : LSet) (b n c : Nat) :
    pv (setPrev s b n) c = if c = b ∧ b < size s then n else pv s c := by
  simp only [pv, setPrev, box_setBox]
  by_cases h : b = c ∧ b < size s
  · obtain ⟨h1, h2⟩ := h; subst h1; simp [h2]
  · have : ¬ (c = b ∧ b < size s) := fun ⟨h1, h2⟩ => h ⟨h1.symm, h2⟩
    simp [h, this]
theorem nx_setPrev (s : LSet) (b n c : Nat) : nx (setPrev s b n) c = nx s c := by
  simp only [nx, setPrev, box_setBox]; split
  · rename_i h; rw [h.1]
  · rfl
theorem val_setPrev (s : LSet) (b n c : Nat) : val (setPrev s b n) c = val s c := by
  simp only [val, setPrev, box_setBox]; split
  · rename_i h; rw [h.1]
  · rfl
theorem own_setPrev (s : LSet) (b n c : Nat) : own (setPrev s b n) c = own s c := by
  simp only [own, setPrev, box_setBox]; split
  · rename_i h; rw [h.1]
  · rfl
theorem stp_setPrev (s : LSet) (b n c : Nat) : stp (setPrev s b n) c = stp s c := by
  simp only [stp, setPrev, box_setBox]; split
  · rename_i h; rw [h.1]
  · rfl

/-! setErased -/
theorem box_setErased (s : LSet) (b c : Nat) :
    box (setErased s b) c =
      if b = c ∧ b < size s then { box s b with value := none, stamp := s.clock } else box s c := by
  have : box (setErased s b) c = box (setBox s b { box s b with value := none, stamp := s.clock }) c := rfl
  rw [this, box_setBox]
theorem nx_setErased (s : LSet) (b c : Nat) : nx (setErased s b) c = nx s c := by
  simp only [nx, box_setErased]; split
  · rename_i h; rw [h.1]
  · rfl
theorem pv_setErased (s : LSet) (b c : Nat) : pv (setErased s b) c = pv s c := by
  simp only [pv, box_setErased]; split
  · rename_i h; rw [h.1]
  · rfl
theorem own_setErased (s : LSet) (b c : Nat) : own (setErased s b) c = own s c := by
  simp only [own, box_setErased]; split
  · rename_i h; rw [h.1]
  · rfl
theorem val_setErased (s : LSet) (b c : Nat) :
    val (setErased s b) c = if c = b ∧ b < size s then none else val s c := by
  simp only [val, box_setErased]
  by_cases h : b = c ∧ b < size s
  · obtain ⟨h1, h2⟩ := h; subst h1; simp [h2]
  · have : ¬ (c = b ∧ b < size s) := fun ⟨h1, h2⟩ => h ⟨h1.symm, h2⟩
    simp [h, this]
theorem stp_setErased (s : LSet) (b c : Nat) :
    stp (setErased s b) c = if c = b ∧ b < size s then s.clock else stp s c := by
  simp only [stp, box_setErased]
  by_cases h : b = c ∧ b < size s
  · obtain ⟨h1, h2⟩ := h; subst h1; simp [h2]
  · have : ¬ (c = b ∧ b < size s) := fun ⟨h1, h2⟩ => h ⟨h1.symm, h2⟩
    simp [h, this]
@[simp] theorem clock_setErased (s : LSet) (b : Nat) : (setErased s b).clock = s.clock + 1 := rfl
@[simp] theorem clock_setNext (s : LSet) (b n : Nat) : (setNext s b n).clock = s.clock := rfl
@[simp] theorem clock_setPrev (s : LSet) (b n : Nat) : (setPrev s b n).clock = s.clock := rfl
@[simp] theorem clock_pushBox (s : LSet) (v : Nat) : (pushBox s v).clock = s.clock := rfl
@[simp] theorem index_setErased (s : LSet) (b : Nat) : (setErased s b).index = s.index := rfl
@[simp] theorem index_setNext (s : LSet) (b n : Nat) : (setNext s b n).index = s.index := rfl
@[simp] theorem index_setPrev (s : LSet) (b n : Nat) : (setPrev s b n).index = s.index := rfl
@[simp] theorem index_pushBox (s : LSet) (v : Nat) : (pushBox s v).index = s.index := rfl
@[simp] theorem length_setErased (s : LSet) (b : Nat) : (setErased s b).length = s.length := rfl
@[simp] theorem length_setNext (s : LSet) (b n : Nat) : (setNext s b n).length = s.length := rfl
@[simp] theorem length_setPrev (s : LSet) (b n : Nat) : (setPrev s b n).length = s.length := rfl
@[simp] theorem length_pushBox (s : LSet) (v : Nat) : (pushBox s v).length = s.length := rfl

/-! pushBox -/
theorem box_pushBox (s : LSet) (v c : Nat) :
    box (pushBox s v) c = if c = size s then ⟨size s, size s, some v, true, 0⟩ else box s c := by
  simp only [box_def, pushBox, size, Array.getElem?_push]
  split <;> simp
theorem nx_pushBox (s : LSet) (v c : Nat) : nx (pushBox s v) c = if c = size s then size s else nx s c := by
  simp only [nx, box_pushBox]; split <;> rfl
theorem pv_pushBox (s : LSet) (v c : Nat) : pv (pushBox s v) c = if c = size s then size s else pv s c := by
  simp only [pv, box_pushBox]; split <;> rfl
theorem val_pushBox (s : LSet) (v c : Nat) : val (pushBox s v) c = if c = size s then some v else val s c := by
  simp only [val, box_pushBox]; split <;> rfl
theorem own_pushBox (s : LSet) (v c : Nat) : own (pushBox s v) c = if c = size s then true else own s c := by
  simp only [own, box_pushBox]; split <;> rfl
theorem stp_pushBox (s : LSet) (v c : Nat) : stp (pushBox s v) c = if c = size s then 0 else stp s c := by
  simp only [stp, box_pushBox]; split <;> rfl

/-- fields that do not live in `boxes` -/
@[simp] theorem size_with (s : LSet) (l : Nat) (ix : List (Nat × Nat)) :
    size { s with length := l, index := ix } = size s := rfl
@[simp] theorem nx_with (s : LSet) (l : Nat) (ix : List (Nat × Nat)) (b : Nat) :
    nx { s with length := l, index := ix } b = nx s b := rfl
@[simp] theorem pv_with (s : LSet) (l : Nat) (ix : List (Nat × Nat)) (b : Nat) :
    pv { s with length := l, index := ix } b = pv s b := rfl
@[simp] theorem val_with (s : LSet) (l : Nat) (ix : List (Nat × Nat)) (b : Nat) :
    val { s with length := l, index := ix } b = val s b := rfl
@[simp] theorem own_with (s : LSet) (l : Nat) (ix : List (Nat × Nat)) (b : Nat) :
    own { s with length := l, index := ix } b = own s b := rfl
@[simp] theorem stp_with (s : LSet) (l : Nat) (ix : List (Nat × Nat)) (b : Nat) :
    stp { s with length := l, index := ix } b = stp s b := rfl

end IrVerif.LinkedSet

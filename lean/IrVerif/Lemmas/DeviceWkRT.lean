/-
C19 - the weak invariant, part 2: the serialize -> deserialize round trip preserves `Wk.DevOK G` when the ghost
predicate contains every value id that does not exist yet.  Port of `Lemmas/DeviceRT.lean` (see `Lemmas/DeviceWk.lean`).
Core Lean only.
-/
import IrVerif.Lemmas.DeviceWk
import IrVerif.Lemmas.DeviceRT
namespace IrVerif.Device.Wk

variable {G : VId → Prop}

inductive All2 {α β : Type} (R : α → β → Prop) : List α → List β → Prop
  | nil : All2 R [] []
  | cons {a : α} {b : β} {l1 : List α} {l2 : List β} : R a b → All2 R l1 l2 → All2 R (a :: l1) (b :: l2)

theorem All2.map_right {α β : Type} {R : α → β → Prop} (f : α → β) : ∀ (l : List α),
    (∀ a ∈ l, R a (f a)) → All2 R l (l.map f)
  | [], _ => All2.nil
  | a :: l, h => All2.cons (h a (by simp)) (All2.map_right f l (fun x hx => h x (by simp [hx])))

theorem All2.imp {α β : Type} {R S : α → β → Prop} (h : ∀ a b, R a b → S a b) :
    ∀ {l1 : List α} {l2 : List β}, All2 R l1 l2 → All2 S l1 l2
  | _, _, All2.nil => All2.nil
  | _, _, All2.cons hab t => All2.cons (h _ _ hab) (All2.imp h t)

/-! ### scopes -/

theorem slookup_mem {sc : Scope} {a : String} {b : VId} (h : slookup sc a = some b) : (a, b) ∈ sc := by
  unfold slookup at h
  cases hf : sc.find? (fun p => decide (p.1 = a)) with
  | none => simp [hf] at h
  | some p =>
    simp [hf] at h
    have h1 := List.mem_of_find?_eq_some hf
    have h2 := List.find?_some hf
    simp at h2
    have : p = (a, b) := by cases p; simp_all
    rw [← this]; exact h1

theorem slookup_isSome_of_mem {sc : Scope} {a : String} {b : VId} (h : (a, b) ∈ sc) :
    ∃ b', slookup sc a = some b' := by
  unfold slookup
  cases hf : sc.find? (fun p => decide (p.1 = a)) with
  | none =>
    rw [List.find?_eq_none] at hf
    have := hf (a, b) h
    simp at this
  | some p => exact ⟨p.2, rfl⟩

theorem slookup_cons (sc : Scope) (a x : String) (b : VId) :
    slookup ((a, b) :: sc) x = if a = x then some b else slookup sc x := by
  unfold slookup
  simp only [List.find?_cons]
  by_cases h : a = x <;> simp [h]

/-- same id means same name when ids are pairwise different -/
theorem sc_inj {sc : Scope} (hinj : (sc.map (·.2)).Nodup) {a1 a2 : String} {b : VId}
    (h1 : (a1, b) ∈ sc) (h2 : (a2, b) ∈ sc) : a1 = a2 := by
  have := inj_of_nodup_map hinj h1 h2 rfl
  exact (Prod.mk.inj this).1

/-- the world only grew: values and nodes were appended, configuration records and models kept -/
structure VExt (a b : World) : Prop where
  values : ∃ extra, b.values = a.values ++ extra
  cfgs : b.cfgs = a.cfgs
  nodes : ∃ extra, b.nodes = a.nodes ++ extra
  models : b.models = a.models

theorem VExt.refl (a : World) : VExt a a := ⟨⟨[], by simp⟩, rfl, ⟨[], by simp⟩, rfl⟩

theorem VExt.trans {a b c : World} (h1 : VExt a b) (h2 : VExt b c) : VExt a c := by
  obtain ⟨e1, he1⟩ := h1.values
  obtain ⟨e2, he2⟩ := h2.values
  obtain ⟨n1, hn1⟩ := h1.nodes
  obtain ⟨n2, hn2⟩ := h2.nodes
  exact ⟨⟨e1 ++ e2, by rw [he2, he1, List.append_assoc]⟩, h2.cfgs.trans h1.cfgs,
    ⟨n1 ++ n2, by rw [hn2, hn1, List.append_assoc]⟩, h2.models.trans h1.models⟩

theorem VExt.len {a b : World} (h : VExt a b) : a.values.length ≤ b.values.length := by
  obtain ⟨e, he⟩ := h.values; rw [he]; simp

theorem VExt.nlen {a b : World} (h : VExt a b) : a.nodes.length ≤ b.nodes.length := by
  obtain ⟨e, he⟩ := h.nodes; rw [he]; simp

theorem VExt.value {a b : World} (h : VExt a b) {v : VId} (hv : v < a.values.length) : b.value v = a.value v := by
  obtain ⟨e, he⟩ := h.values
  simp [World.value, he, List.getD_eq_getElem?_getD, List.getElem?_append_left hv]

theorem VExt.node {a b : World} (h : VExt a b) {n : NId} (hn : n < a.nodes.length) : b.node n = a.node n := by
  obtain ⟨e, he⟩ := h.nodes
  simp [World.node, he, List.getD_eq_getElem?_getD, List.getElem?_append_left hn]

theorem VExt.toExt {a b : World} (h : VExt a b) : Ext a b := by
  obtain ⟨e, he⟩ := h.values
  exact Ext.of_append e he h.cfgs

theorem VExt.push (a : World) (x : ValueS) : VExt a { a with values := a.values ++ [x] } :=
  ⟨⟨[x], rfl⟩, rfl, ⟨[], by simp⟩, rfl⟩

theorem VExt.of_eq {a b : World} (hv : b.values = a.values) (hc : b.cfgs = a.cfgs) (hn : b.nodes = a.nodes)
    (hm : b.models = a.models) : VExt a b :=
  ⟨⟨[], by simp [hv]⟩, hc, ⟨[], by simp [hn]⟩, hm⟩

theorem value_push (a : World) (x : ValueS) : World.value { a with values := a.values ++ [x] } a.values.length = x := by
  simp [World.value, List.getD_eq_getElem?_getD]

theorem slookup_append (l1 l2 : Scope) (a : String) :
    slookup (l1 ++ l2) a = (slookup l1 a).or (slookup l2 a) := by
  unfold slookup
  rw [List.find?_append]
  cases List.find? (fun p => decide (p.1 = a)) l1 <;> simp

theorem slookup_append_left {l1 l2 : Scope} {a : String} {b : VId} (h : slookup l1 a = some b) :
    slookup (l1 ++ l2) a = some b := by
  rw [slookup_append, h]; rfl

/-- what holds of a scope of value names during deserialization (relative to the source world `w`
    and the values `vals` the source graphs mention): ids exist and are pairwise different, the value
    behind an entry carries the entry's name, and its shape is that of the source value of that name
    (or unknown) -/
structure ScopeOK (w : World) (vals : List VId) (wd : World) (sc : Scope) : Prop where
  lt : ∀ p ∈ sc, p.2 < wd.values.length
  inj : (sc.map (·.2)).Nodup
  name : ∀ p ∈ sc, (wd.value p.2).name = p.1
  shape : ∀ p ∈ sc, p.1 ≠ "" → ∀ v ∈ vals, (w.value v).name = p.1 →
    (wd.value p.2).shape = (w.value v).shape ∨ (wd.value p.2).shape = none
  len : w.values.length ≤ wd.values.length
  fresh : ∀ p ∈ sc, w.values.length ≤ p.2

theorem ScopeOK.vext {w : World} {vals : List VId} {wd wd' : World} {sc : Scope}
    (h : ScopeOK w vals wd sc) (he : VExt wd wd') : ScopeOK w vals wd' sc := by
  refine ⟨fun p hp => Nat.lt_of_lt_of_le (h.lt p hp) he.len, h.inj, ?_, ?_, Nat.le_trans h.len he.len, h.fresh⟩
  · intro p hp; rw [he.value (h.lt p hp)]; exact h.name p hp
  · intro p hp hne v hv hname
    rw [he.value (h.lt p hp)]
    exact h.shape p hp hne v hv hname

/-- entering a fresh value under a name -/
theorem ScopeOK.push {w : World} {vals : List VId} {wd : World} {sc : Scope} (h : ScopeOK w vals wd sc)
    (name : String) (x : ValueS) (hxn : x.name = name)
    (hx : name ≠ "" → ∀ v ∈ vals, (w.value v).name = name → x.shape = (w.value v).shape ∨ x.shape = none) :
    ScopeOK w vals { wd with values := wd.values ++ [x] } ((name, wd.values.length) :: sc) := by
  have he := VExt.push wd x
  refine ⟨?_, ?_, ?_, ?_, Nat.le_trans h.len he.len, ?_⟩
  rotate_right
  · intro p hp
    simp only [List.mem_cons] at hp
    rcases hp with hp | hp
    · subst hp; exact h.len
    · exact h.fresh p hp
  · intro p hp
    simp only [List.mem_cons] at hp
    rcases hp with hp | hp
    · subst hp; simp
    · exact Nat.lt_of_lt_of_le (h.lt p hp) he.len
  · simp only [List.map_cons, List.nodup_cons, List.mem_map, not_exists, not_and]
    refine ⟨?_, h.inj⟩
    intro p hp e
    have := h.lt p hp
    rw [e] at this
    exact Nat.lt_irrefl _ this
  · intro p hp
    simp only [List.mem_cons] at hp
    rcases hp with hp | hp
    · subst hp; simp only; rw [value_push]; exact hxn
    · rw [he.value (h.lt p hp)]; exact h.name p hp
  · intro p hp hne v hv hname
    simp only [List.mem_cons] at hp
    rcases hp with hp | hp
    · subst hp
      simp only
      rw [value_push]
      exact hx hne v hv hname
    · rw [he.value (h.lt p hp)]
      exact h.shape p hp hne v hv hname

theorem ScopeOK.of_values_eq {w : World} {vals : List VId} {wd wd' : World} {sc : Scope}
    (h : ScopeOK w vals wd sc) (hv : wd'.values = wd.values) : ScopeOK w vals wd' sc := by
  have hval : ∀ x, wd'.value x = wd.value x := by intro x; simp [World.value, hv]
  refine ⟨fun p hp => by rw [hv]; exact h.lt p hp, h.inj, ?_, ?_, by rw [hv]; exact h.len, h.fresh⟩
  · intro p hp; rw [hval]; exact h.name p hp
  · intro p hp hne v hvm hname
    rw [hval]; exact h.shape p hp hne v hvm hname


/-! ### node inputs by name -/

structure InputsSpec (w : World) (vals : List VId) (wd : World) (cur outer : Scope) (ins : List (Option VId))
    (r : World × Scope × List (Option VId)) : Prop where
  vext : VExt wd r.1
  nodes : r.1.nodes = wd.nodes
  ok : ScopeOK w vals r.1 (r.2.1 ++ outer)
  mono : ∀ x b, slookup (cur ++ outer) x = some b → slookup (r.2.1 ++ outer) x = some b
  monoCur : ∀ x b, slookup cur x = some b → slookup r.2.1 x = some b
  found : ∀ v, some v ∈ ins → (w.value v).name ≠ "" →
    ∃ b, slookup (r.2.1 ++ outer) (w.value v).name = some b ∧ some b ∈ r.2.2
  lt : ∀ b, some b ∈ r.2.2 → b < r.1.values.length
  /-- every new input carries the name of the source input at its position -/
  names : All2 (fun (o o' : Option VId) => match o, o' with
    | some v, some b => (r.1.value b).name = (w.value v).name
    | _, _ => True) ins r.2.2

theorem deserInputs_spec (w : World) (vals : List VId) (outer : Scope) :
    ∀ (ins : List (Option VId)) (wd : World) (cur : Scope),
    ScopeOK w vals wd (cur ++ outer) → InputsSpec w vals wd cur outer ins (deserInputs w outer (wd, cur) ins) := by
  intro ins
  induction ins with
  | nil =>
    intro wd cur h
    exact ⟨VExt.refl wd, rfl, h, fun _ _ hx => hx, fun _ _ hx => hx, by simp, by simp [deserInputs],
      by simp only [deserInputs]; exact All2.nil⟩
  | cons o rest ih =>
    intro wd cur h
    cases o with
    | none =>
      obtain ⟨a, an, b, c, cc, d, e, f⟩ := ih wd cur h
      simp only [deserInputs]
      refine ⟨a, an, b, c, cc, ?_, ?_, All2.cons trivial f⟩
      · intro v hv hne
        simp only [List.mem_cons] at hv
        rcases hv with hv | hv
        · cases hv
        · obtain ⟨x, hx1, hx2⟩ := d v hv hne
          exact ⟨x, hx1, by simp [hx2]⟩
      · intro x hx
        simp only [List.mem_cons] at hx
        rcases hx with hx | hx
        · cases hx
        · exact e x hx
    | some v0 =>
      simp only [deserInputs]
      split
      · rename_i hname
        obtain ⟨a, an, b, c, cc, d, e, f⟩ := ih wd cur h
        refine ⟨a, an, b, c, cc, ?_, ?_, All2.cons trivial f⟩
        · intro v hv hne
          simp only [List.mem_cons] at hv
          rcases hv with hv | hv
          · cases hv; exact absurd hname hne
          · obtain ⟨x, hx1, hx2⟩ := d v hv hne
            exact ⟨x, hx1, by simp [hx2]⟩
        · intro x hx
          simp only [List.mem_cons] at hx
          rcases hx with hx | hx
          · cases hx
          · exact e x hx
      · rename_i hname
        cases hl : slookup (cur ++ outer) (w.value v0).name with
        | some v' =>
          simp only
          obtain ⟨a, an, b, c, cc, d, e, f⟩ := ih wd cur h
          have hnm : ((deserInputs w outer (wd, cur) rest).1.value v').name = (w.value v0).name := by
            rw [a.value (h.lt _ (slookup_mem hl))]
            exact h.name _ (slookup_mem hl)
          refine ⟨a, an, b, c, cc, ?_, ?_, All2.cons hnm f⟩
          · intro v hv hne
            simp only [List.mem_cons] at hv
            rcases hv with hv | hv
            · cases hv; exact ⟨v', c _ _ hl, by simp⟩
            · obtain ⟨x, hx1, hx2⟩ := d v hv hne
              exact ⟨x, hx1, by simp [hx2]⟩
          · intro x hx
            simp only [List.mem_cons] at hx
            rcases hx with hx | hx
            · cases hx
              exact Nat.lt_of_lt_of_le (h.lt _ (slookup_mem hl)) a.len
            · exact e x hx
        | none =>
          simp only
          have hpush := h.push (w.value v0).name ({ name := (w.value v0).name, shape := none } : ValueS) rfl
            (fun _ _ _ _ => Or.inr rfl)
          have hpush' : ScopeOK w vals { wd with values := wd.values ++ [({ name := (w.value v0).name, shape := none } : ValueS)] }
              ((((w.value v0).name, wd.values.length) :: cur) ++ outer) := hpush
          obtain ⟨a, an, b, c, cc, d, e, f⟩ := ih _ _ hpush'
          have hnew : slookup ((((w.value v0).name, wd.values.length) :: cur) ++ outer) (w.value v0).name = some wd.values.length := by
            rw [List.cons_append, slookup_cons]; simp
          have hlcur : slookup cur (w.value v0).name = none := by
            rw [slookup_append] at hl
            cases hx : slookup cur (w.value v0).name with
            | none => rfl
            | some y => simp [hx] at hl
          have hlt0 : wd.values.length < (wd.values ++ [({ name := (w.value v0).name, shape := none } : ValueS)]).length := by simp
          have hnm : ((deserInputs w outer ({ wd with values := wd.values ++ [({ name := (w.value v0).name, shape := none } : ValueS)] },
              ((w.value v0).name, wd.values.length) :: cur) rest).1.value wd.values.length).name = (w.value v0).name := by
            rw [a.value hlt0, value_push]
          refine ⟨(VExt.push wd _).trans a, an, b, ?_, ?_, ?_, ?_, All2.cons hnm f⟩
          · intro x y hxy
            apply c
            rw [List.cons_append, slookup_cons]
            split
            · rename_i hx; subst hx; rw [hl] at hxy; cases hxy
            · exact hxy
          · intro x y hxy
            apply cc
            rw [slookup_cons]
            split
            · rename_i hx; subst hx; rw [hlcur] at hxy; cases hxy
            · exact hxy
          · intro v hv hne
            simp only [List.mem_cons] at hv
            rcases hv with hv | hv
            · cases hv; exact ⟨wd.values.length, c _ _ hnew, by simp⟩
            · obtain ⟨x, hx1, hx2⟩ := d v hv hne
              exact ⟨x, hx1, by simp [hx2]⟩
          · intro x hx
            simp only [List.mem_cons] at hx
            rcases hx with hx | hx
            · cases hx
              exact Nat.lt_of_lt_of_le hlt0 a.len
            · exact e x hx

/-! ### node outputs by name (current scope only) -/

structure OutputsSpec (w : World) (wd : World) (sc : Scope) (outs : List VId)
    (r : World × List VId) : Prop where
  vext : VExt wd r.1
  nodes : r.1.nodes = wd.nodes
  found : ∀ o ∈ outs, (w.value o).name ≠ "" → ∀ b, slookup sc (w.value o).name = some b → b ∈ r.2
  lt : ∀ b ∈ r.2, b < r.1.values.length

theorem deserOutputs_spec (w : World) (sc : Scope) : ∀ (outs : List VId) (wd : World),
    (∀ p ∈ sc, p.2 < wd.values.length) → OutputsSpec w wd sc outs (deserOutputs w sc wd outs) := by
  intro outs
  induction outs with
  | nil => intro wd _; exact ⟨VExt.refl wd, rfl, by simp, by simp [deserOutputs]⟩
  | cons o rest ih =>
    intro wd h
    simp only [deserOutputs]
    cases hm : (if (w.value o).name = "" then none else slookup sc (w.value o).name) with
    | some v' =>
      simp only
      obtain ⟨a, an, b, c⟩ := ih wd h
      have hv' : slookup sc (w.value o).name = some v' := by
        split at hm
        · cases hm
        · exact hm
      refine ⟨a, an, ?_, ?_⟩
      · intro x hx hne y hy
        simp only [List.mem_cons] at hx
        rcases hx with hx | hx
        · subst hx; rw [hv'] at hy; cases hy; simp
        · exact List.mem_cons_of_mem _ (b x hx hne y hy)
      · intro y hy
        simp only [List.mem_cons] at hy
        rcases hy with hy | hy
        · subst hy; exact Nat.lt_of_lt_of_le (h _ (slookup_mem hv')) a.len
        · exact c y hy
    | none =>
      simp only
      have he := VExt.push wd ({ name := (w.value o).name, shape := none } : ValueS)
      obtain ⟨a, an, b, c⟩ := ih _ (fun p hp => Nat.lt_of_lt_of_le (h p hp) he.len)
      refine ⟨he.trans a, an, ?_, ?_⟩
      · intro x hx hne y hy
        simp only [List.mem_cons] at hx
        rcases hx with hx | hx
        · subst hx
          simp only [hne, if_false] at hm
          rw [hm] at hy; cases hy
        · exact List.mem_cons_of_mem _ (b x hx hne y hy)
      · intro y hy
        simp only [List.mem_cons] at hy
        rcases hy with hy | hy
        · subst hy
          have : wd.values.length < (wd.values ++ [({ name := (w.value o).name, shape := none } : ValueS)]).length := by simp
          exact Nat.lt_of_lt_of_le this a.len
        · exact c y hy


/-! ### device configurations by name, when every name resolves -/

def resolveSpec (sc : Scope) (p : PSpec) : Spec :=
  { value := (slookup sc p.tensor).getD 0, device := p.device, dims := p.dims }

theorem deserSpecs_resolved (sc : Scope) : ∀ (ps : List PSpec) (wd : World),
    (∀ p ∈ ps, ∃ b, slookup sc p.tensor = some b) →
    deserSpecs sc wd ps = (wd, ps.map (resolveSpec sc)) := by
  intro ps
  induction ps with
  | nil => intro wd _; rfl
  | cons p rest ih =>
    intro wd h
    obtain ⟨b, hb⟩ := h p (by simp)
    simp only [deserSpecs, hb]
    rw [ih wd (fun q hq => h q (by simp [hq]))]
    simp [resolveSpec, hb]

def klookup (known : List (String × CId)) (s : String) : Option CId :=
  (known.find? (fun q => decide (q.1 = s))).map (·.2)

def resolveCfg (sc : Scope) (known : List (String × CId)) (p : PCfg) : NodeCfg :=
  { cfg := (klookup known p.id).getD 0, specs := p.specs.map (resolveSpec sc), stage := p.stage }

theorem deserCfgs_resolved (sc : Scope) (known : List (String × CId)) : ∀ (ps : List PCfg) (wd : World),
    (∀ p ∈ ps, (∃ c, klookup known p.id = some c) ∧ ∀ q ∈ p.specs, ∃ b, slookup sc q.tensor = some b) →
    deserCfgs sc known wd ps = (wd, ps.map (resolveCfg sc known)) := by
  intro ps
  induction ps with
  | nil => intro wd _; rfl
  | cons p rest ih =>
    intro wd h
    obtain ⟨⟨c, hc⟩, hsp⟩ := h p (by simp)
    have hc' : (known.find? (fun q => decide (q.1 = p.id))).map (·.2) = some c := hc
    simp only [deserCfgs, deserSpecs_resolved sc p.specs wd hsp, hc']
    rw [ih wd (fun q hq => h q (by simp [hq]))]
    simp [resolveCfg, hc]

/-! ### one node -/

theorem mem_dropWhile_of_not {α : Type} {p : α → Bool} : ∀ {l : List α} {x : α}, x ∈ l → p x = false →
    x ∈ l.dropWhile p := by
  intro l
  induction l with
  | nil => intro x hx; cases hx
  | cons a rest ih =>
    intro x hx hp
    simp only [List.dropWhile_cons]
    split
    · rename_i hpa
      simp only [List.mem_cons] at hx
      rcases hx with hx | hx
      · subst hx; rw [hp] at hpa; cases hpa
      · exact ih hx hp
    · exact hx

theorem mem_serOutputs {w : World} {nd : NodeS} {o : VId} (ho : o ∈ nd.outputs)
    (hne : (w.value o).name ≠ "") : o ∈ serOutputs w nd := by
  unfold serOutputs
  rw [List.mem_reverse]
  apply mem_dropWhile_of_not (List.mem_reverse.mpr ho)
  simp [hne]

theorem serOutputs_sub {w : World} {nd : NodeS} {o : VId} (ho : o ∈ serOutputs w nd) : o ∈ nd.outputs := by
  unfold serOutputs at ho
  rw [List.mem_reverse] at ho
  exact List.mem_reverse.mp ((List.dropWhile_sublist _).subset ho)

/-- the registered configurations of the source resolve, by name, to their copies -/
structure KnownOK (w : World) (ms : ModelS) (wd : World) (known : List (String × CId))
    (newCfgs : List CId) : Prop where
  found : ∀ c ∈ rtRegs ms, ∃ c', klookup known (w.cfg c).name = some c' ∧ c' ∈ newCfgs ∧
    c' < wd.cfgs.length ∧ wd.cfg c' = w.cfg c
  inj : ∀ n1 n2 c', klookup known n1 = some c' → klookup known n2 = some c' → n1 = n2

/-- the annotations the deserialized node gets -/
def rtDev (w : World) (sc : Scope) (known : List (String × CId)) (dev0 : List NodeCfg) : List NodeCfg :=
  (dev0.map (cfgProto w)).map (resolveCfg sc known)

theorem rtNode_ok {w : World} [hGf : Fresh G w.values.length] {ms : ModelS} {nd : NodeS} {dev0 : List NodeCfg}
    {wd w3 : World} {sc1 : Scope} {known : List (String × CId)} {newCfgs : List CId}
    {ins' : List (Option VId)} {outs' : List VId} {vals : List VId}
    (hU : ∀ a ∈ vals, ∀ b ∈ vals, (w.value a).name = (w.value b).name → (w.value a).name ≠ "" → a = b) (hmo : ModelOK w ms) (hnd : NodeOK G w nd)
    (hvals : ∀ v, InIO nd v → v ∈ vals)
    (hsub : dev0.Sublist nd.dev)
    (hnamed : ∀ nc ∈ dev0, ∀ s ∈ nc.specs, (w.value s.value).name ≠ "")
    (hregs : ∀ nc ∈ dev0, nc.cfg ∈ rtRegs ms)
    (hk : KnownOK w ms wd known newCfgs) (hcf : w3.cfgs = wd.cfgs)
    (hsc : ScopeOK w vals w3 sc1)
    (hin : ∀ v, some v ∈ nd.inputs → (w.value v).name ≠ "" →
      ∃ b, slookup sc1 (w.value v).name = some b ∧ some b ∈ ins')
    (hout : ∀ o ∈ nd.outputs, (w.value o).name ≠ "" →
      ∃ b, slookup sc1 (w.value o).name = some b ∧ b ∈ outs')
    (hinlt : ∀ b, some b ∈ ins' → b < w3.values.length) (houtlt : ∀ b ∈ outs', b < w3.values.length) :
    NodeOK G w3 { inputs := ins', outputs := outs', dev := rtDev w sc1 known dev0 } ∧
    (∀ nc ∈ rtDev w sc1 known dev0, nc.cfg ∈ newCfgs) ∧
    (∀ p ∈ dev0.map (cfgProto w), (∃ c, klookup known p.id = some c) ∧
      ∀ q ∈ p.specs, ∃ b, slookup sc1 q.tensor = some b) := by
  obtain ⟨hids, hndup, hall⟩ := hnd
  have hregsub : ∀ c ∈ rtRegs ms, c ∈ ms.cfgs := by
    intro c hc; unfold rtRegs at hc; split at hc
    · exact hc
    · cases hc
  -- every spec value resolves into the new node
  have hres : ∀ nc ∈ dev0, ∀ s ∈ nc.specs, ∃ b, slookup sc1 (w.value s.value).name = some b ∧
      InIO ({ inputs := ins', outputs := outs', dev := rtDev w sc1 known dev0 } : NodeS) b := by
    intro nc hnc s hs
    have hio := ((hall nc (hsub.subset hnc)).2.2.2 s hs).1
    have hne := hnamed nc hnc s hs
    rcases hio with hio | hio
    · obtain ⟨b, hb1, hb2⟩ := hin _ hio hne
      exact ⟨b, hb1, Or.inl hb2⟩
    · obtain ⟨b, hb1, hb2⟩ := hout _ hio hne
      exact ⟨b, hb1, Or.inr hb2⟩
  have hresc : ∀ nc ∈ dev0, ∃ c', klookup known (w.cfg nc.cfg).name = some c' ∧ c' ∈ newCfgs ∧
      c' < wd.cfgs.length ∧ wd.cfg c' = w.cfg nc.cfg := fun nc hnc => hk.found _ (hregs nc hnc)
  have hdev : rtDev w sc1 known dev0 = dev0.map (fun nc => resolveCfg sc1 known (cfgProto w nc)) := by
    simp [rtDev, List.map_map, Function.comp_def]
  refine ⟨⟨⟨?_, ?_⟩, ?_, ?_⟩, ?_, ?_⟩
  · intro o ho v hov; subst hov; exact hinlt v ho
  · exact houtlt
  · -- one record per configuration
    show ((rtDev w sc1 known dev0).map (·.cfg)).Nodup
    rw [hdev, List.map_map]
    have : dev0.map ((fun nc : NodeCfg => nc.cfg) ∘ fun nc => resolveCfg sc1 known (cfgProto w nc))
        = (dev0.map (·.cfg)).map (fun c => (klookup known (w.cfg c).name).getD 0) := by
      rw [List.map_map]; rfl
    rw [this]
    apply nodup_map_of_inj_on ((hsub.map _).nodup hndup)
    intro c1 h1 c2 h2 e
    simp only [List.mem_map] at h1 h2
    obtain ⟨nc1, hn1, rfl⟩ := h1
    obtain ⟨nc2, hn2, rfl⟩ := h2
    obtain ⟨a1, ha1, _⟩ := hresc nc1 hn1
    obtain ⟨a2, ha2, _⟩ := hresc nc2 hn2
    simp only [ha1, ha2, Option.getD_some] at e
    subst e
    have hnames := hk.inj _ _ _ ha1 ha2
    exact inj_of_nodup_map hmo.2.2 (hregsub _ (hregs nc1 hn1)) (hregsub _ (hregs nc2 hn2)) hnames
  · intro nc' hnc'
    have hnc'' : nc' ∈ rtDev w sc1 known dev0 := hnc'
    rw [hdev] at hnc''
    simp only [List.mem_map] at hnc''
    obtain ⟨nc, hnc, rfl⟩ := hnc''
    obtain ⟨c', hc1, hc2, hc3, hc4⟩ := hresc nc hnc
    obtain ⟨a, b, c, d⟩ := hall nc (hsub.subset hnc)
    have hcfgeq : (resolveCfg sc1 known (cfgProto w nc)).cfg = c' := by
      simp [resolveCfg, cfgProto, hc1]
    refine ⟨by rw [hcfgeq, hcf]; exact hc3, b, ?_, ?_⟩
    · trivial
    · intro s' hs'
      have hs'' : s' ∈ (cfgProto w nc).specs.map (resolveSpec sc1) := hs'
      simp only [cfgProto, List.map_map, List.mem_map] at hs''
      obtain ⟨s, hs, rfl⟩ := hs''
      obtain ⟨b0, hb1, hb2⟩ := hres nc hnc s hs
      have hval : ((resolveSpec sc1 ∘ specProto w) s).value = b0 := by
        simp [resolveSpec, specProto, hb1]
      refine ⟨by rw [hval]; exact hb2, ?_⟩
      obtain ⟨hio, hwf1, hwf2, hwf3, hwf4⟩ := d s hs
      have hshape := hsc.shape _ (slookup_mem hb1) (hnamed nc hnc s hs) s.value (hvals _ hio) rfl
      have hnum : (w3.cfg (resolveCfg sc1 known (cfgProto w nc)).cfg).numDevices = (w.cfg nc.cfg).numDevices := by
        rw [hcfgeq]
        have : w3.cfg c' = wd.cfg c' := by simp [World.cfg, hcf]
        rw [this, hc4]
      show SpecWF G w3 (w3.cfg (resolveCfg sc1 known (cfgProto w nc)).cfg).numDevices _
      rw [hnum]
      unfold SpecWF
      rw [hval]
      have hdims : ((resolveSpec sc1 ∘ specProto w) s).dims = s.dims := rfl
      have hdevs : ((resolveSpec sc1 ∘ specProto w) s).device = s.device := rfl
      rw [hdims, hdevs]
      have hgb : G b0 := hGf.out _ (hsc.fresh _ (slookup_mem hb1))
      exact ⟨fun hg => absurd hgb hg, fun hg => absurd hgb hg, hwf3, hwf4⟩
  · intro nc' hnc'
    rw [hdev] at hnc'
    simp only [List.mem_map] at hnc'
    obtain ⟨nc, hnc, rfl⟩ := hnc'
    obtain ⟨c', hc1, hc2, _, _⟩ := hresc nc hnc
    have : (resolveCfg sc1 known (cfgProto w nc)).cfg = c' := by simp [resolveCfg, cfgProto, hc1]
    rw [this]; exact hc2
  · intro p hp
    simp only [List.mem_map] at hp
    obtain ⟨nc, hnc, rfl⟩ := hp
    obtain ⟨c', hc1, _⟩ := hresc nc hnc
    refine ⟨⟨c', hc1⟩, ?_⟩
    intro q hq
    simp only [cfgProto, List.mem_map] at hq
    obtain ⟨s, hs, rfl⟩ := hq
    obtain ⟨b, hb, _⟩ := hres nc hnc s hs
    exact ⟨b, hb⟩

/-! ### the correspondence between a source node and its deserialized copy -/

/-- a spec and its copy: the copy targets an existing value of the *same name*, same devices, same
    sharded axes (axis, dimension, number of shards) in the same order -/
def SpecRel (w w' : World) (s s' : Spec) : Prop :=
  s'.value < w'.values.length ∧ (w'.value s'.value).name = (w.value s.value).name ∧
  s'.device = s.device ∧ s'.dims = s.dims

/-- a node configuration and its copy: the copy's configuration object is a record-for-record copy
    (name, num_devices, device names), same stage, specs correspond position by position -/
def CfgRel (w w' : World) (nc nc' : NodeCfg) : Prop :=
  w'.cfg nc'.cfg = w.cfg nc.cfg ∧ nc'.stage = nc.stage ∧ All2 (SpecRel w w') nc.specs nc'.specs

/-- a node and its copy: the annotation records correspond position by position -/
def NodeRel (w w' : World) (nd nd' : NodeS) : Prop := All2 (CfgRel w w') nd.dev nd'.dev

theorem SpecRel.vext {w a b : World} {s s' : Spec} (h : SpecRel w a s s') (he : VExt a b) : SpecRel w b s s' :=
  ⟨Nat.lt_of_lt_of_le h.1 he.len, by rw [he.value h.1]; exact h.2.1, h.2.2⟩

theorem CfgRel.vext {w a b : World} {nc nc' : NodeCfg} (h : CfgRel w a nc nc') (he : VExt a b) : CfgRel w b nc nc' := by
  refine ⟨?_, h.2.1, All2.imp (fun _ _ hs => hs.vext he) h.2.2⟩
  have : b.cfg nc'.cfg = a.cfg nc'.cfg := by simp [World.cfg, he.cfgs]
  rw [this]; exact h.1

theorem NodeRel.vext {w a b : World} {nd nd' : NodeS} (h : NodeRel w a nd nd') (he : VExt a b) : NodeRel w b nd nd' :=
  All2.imp (fun _ _ hc => hc.vext he) h

theorem rtNode_rel {w : World} {ms : ModelS} {dev0 : List NodeCfg}
    {wd w3 : World} {sc1 : Scope} {known : List (String × CId)} {newCfgs : List CId} {vals : List VId}
    (hregs : ∀ nc ∈ dev0, nc.cfg ∈ rtRegs ms)
    (hk : KnownOK w ms wd known newCfgs) (hcf : w3.cfgs = wd.cfgs)
    (hsc : ScopeOK w vals w3 sc1)
    (hres : ∀ nc ∈ dev0, ∀ s ∈ nc.specs, ∃ b, slookup sc1 (w.value s.value).name = some b) :
    All2 (CfgRel w w3) dev0 (rtDev w sc1 known dev0) := by
  have hdev : rtDev w sc1 known dev0 = dev0.map (fun nc => resolveCfg sc1 known (cfgProto w nc)) := by
    simp [rtDev, List.map_map, Function.comp_def]
  rw [hdev]
  apply All2.map_right
  intro nc hnc
  obtain ⟨c', hc1, _, _, hc4⟩ := hk.found _ (hregs nc hnc)
  refine ⟨?_, rfl, ?_⟩
  · have : (resolveCfg sc1 known (cfgProto w nc)).cfg = c' := by simp [resolveCfg, cfgProto, hc1]
    rw [this]
    have : w3.cfg c' = wd.cfg c' := by simp [World.cfg, hcf]
    rw [this, hc4]
  · show All2 (SpecRel w w3) nc.specs ((cfgProto w nc).specs.map (resolveSpec sc1))
    have : (cfgProto w nc).specs.map (resolveSpec sc1) = nc.specs.map (fun s => resolveSpec sc1 (specProto w s)) := by
      simp [cfgProto, List.map_map, Function.comp_def]
    rw [this]
    apply All2.map_right
    intro s hs
    obtain ⟨b, hb⟩ := hres nc hnc s hs
    have hval : (resolveSpec sc1 (specProto w s)).value = b := by simp [resolveSpec, specProto, hb]
    refine ⟨?_, ?_, rfl, rfl⟩
    · rw [hval]; exact hsc.lt _ (slookup_mem hb)
    · rw [hval]; exact hsc.name _ (slookup_mem hb)

/-! ### declaring graph inputs and node outputs -/

theorem declareInputs_spec (w : World) (vals : List VId) (outer : Scope)
    (hU : ∀ a ∈ vals, ∀ b ∈ vals, (w.value a).name = (w.value b).name → (w.value a).name ≠ "" → a = b) :
    ∀ (ins : List VId) (wd : World) (cur : Scope), ScopeOK w vals wd (cur ++ outer) → (∀ v ∈ ins, v ∈ vals) →
    VExt wd (declareInputs w (wd, cur) ins).1 ∧ (declareInputs w (wd, cur) ins).1.nodes = wd.nodes ∧
    ScopeOK w vals (declareInputs w (wd, cur) ins).1 ((declareInputs w (wd, cur) ins).2 ++ outer) := by
  intro ins
  induction ins with
  | nil => intro wd cur h _; exact ⟨VExt.refl wd, rfl, h⟩
  | cons v rest ih =>
    intro wd cur h hvals
    simp only [declareInputs]
    have hpush := h.push (w.value v).name (w.value v) rfl (by
      intro hne x hx hnm
      left
      have := hU x hx v (hvals v (by simp)) hnm (by rw [hnm]; exact hne)
      rw [this])
    have hpush' : ScopeOK w vals { wd with values := wd.values ++ [w.value v] }
        ((((w.value v).name, wd.values.length) :: cur) ++ outer) := hpush
    obtain ⟨a, an, b⟩ := ih _ _ hpush' (fun x hx => hvals x (by simp [hx]))
    exact ⟨(VExt.push wd _).trans a, an, b⟩

theorem declareOutputs_spec (w : World) (vals : List VId) (outer : Scope)
    (hU : ∀ a ∈ vals, ∀ b ∈ vals, (w.value a).name = (w.value b).name → (w.value a).name ≠ "" → a = b) :
    ∀ (outs : List VId) (wd : World) (cur : Scope) (st : World × Scope),
    ScopeOK w vals wd (cur ++ outer) → (∀ o ∈ outs, o ∈ vals) → declareOutputs w (wd, cur) outs = some st →
    VExt wd st.1 ∧ st.1.nodes = wd.nodes ∧ ScopeOK w vals st.1 (st.2 ++ outer) ∧
    (∀ x b, slookup cur x = some b → slookup st.2 x = some b) ∧
    (∀ o ∈ outs, (w.value o).name ≠ "" → ∃ b, slookup st.2 (w.value o).name = some b) := by
  intro outs
  induction outs with
  | nil =>
    intro wd cur st h _ hd
    simp only [declareOutputs, Option.some.injEq] at hd
    subst hd
    exact ⟨VExt.refl wd, rfl, h, fun _ _ hx => hx, by simp⟩
  | cons o rest ih =>
    intro wd cur st h hvals hd
    simp only [declareOutputs] at hd
    split at hd
    · rename_i hname
      obtain ⟨a, an, b, c, d⟩ := ih wd cur st h (fun x hx => hvals x (by simp [hx])) hd
      refine ⟨a, an, b, c, ?_⟩
      intro x hx hne
      simp only [List.mem_cons] at hx
      rcases hx with hx | hx
      · subst hx; exact absurd hname hne
      · exact d x hx hne
    · rename_i hname
      split at hd
      · cases hd
      · rename_i hnone
        have hl : slookup cur (w.value o).name = none := by
          cases hx : slookup cur (w.value o).name with
          | none => rfl
          | some y => simp [hx] at hnone
        have hpush := h.push (w.value o).name (w.value o) rfl (by
          intro _ v hv hnm
          left
          have := hU v hv o (hvals o (by simp)) hnm (by rw [hnm]; exact hname)
          rw [this])
        have hpush' : ScopeOK w vals { wd with values := wd.values ++ [w.value o] }
            ((((w.value o).name, wd.values.length) :: cur) ++ outer) := hpush
        obtain ⟨a, an, b, c, d⟩ := ih _ _ st hpush' (fun x hx => hvals x (by simp [hx])) hd
        have hnew : slookup (((w.value o).name, wd.values.length) :: cur) (w.value o).name = some wd.values.length := by
          rw [slookup_cons]; simp
        refine ⟨(VExt.push wd _).trans a, an, b, ?_, ?_⟩
        · intro x y hxy
          apply c
          rw [slookup_cons]
          split
          · rename_i hx; subst hx; rw [hl] at hxy; cases hxy
          · exact hxy
        · intro x hx hne
          simp only [List.mem_cons] at hx
          rcases hx with hx | hx
          · subst hx; exact ⟨_, c _ _ hnew⟩
          · exact d x hx hne

theorem mem_modelValues_of_io {w : World} {ms : ModelS} {n : NId} (hn : n ∈ ms.nodes) {v : VId}
    (hv : InIO (w.node n) v) : v ∈ modelValues w ms := by
  unfold modelValues
  rw [List.mem_append]
  right
  simp only [List.mem_flatten, List.mem_map]
  refine ⟨_, ⟨n, hn, rfl⟩, ?_⟩
  rw [List.mem_append]
  rcases hv with hv | hv
  · left; simp only [List.mem_filterMap, id]; exact ⟨some v, hv, rfl⟩
  · right; exact hv

theorem mem_modelValues_of_input {w : World} {ms : ModelS} {g : GId} (hg : g ∈ ms.graphs) {v : VId}
    (hv : v ∈ (w.graph g).inputs) : v ∈ modelValues w ms := by
  unfold modelValues
  rw [List.mem_append]
  left
  simp only [List.mem_flatten, List.mem_map]
  exact ⟨_, ⟨g, hg, rfl⟩, List.mem_append_left _ hv⟩

theorem mem_modelValues_of_init {w : World} {ms : ModelS} {g : GId} (hg : g ∈ ms.graphs) {v : VId}
    (hv : v ∈ (w.graph g).inits) : v ∈ modelValues w ms := by
  unfold modelValues
  rw [List.mem_append]
  left
  simp only [List.mem_flatten, List.mem_map]
  exact ⟨_, ⟨g, hg, rfl⟩, List.mem_append_right _ hv⟩

theorem declareInits_spec (w : World) (vals : List VId) (outer : Scope)
    (hU : ∀ a ∈ vals, ∀ b ∈ vals, (w.value a).name = (w.value b).name → (w.value a).name ≠ "" → a = b) :
    ∀ (ins : List VId) (wd : World) (cur : Scope), ScopeOK w vals wd (cur ++ outer) → (∀ v ∈ ins, v ∈ vals) →
    VExt wd (declareInits w (wd, cur) ins).1 ∧ (declareInits w (wd, cur) ins).1.nodes = wd.nodes ∧
    ScopeOK w vals (declareInits w (wd, cur) ins).1 ((declareInits w (wd, cur) ins).2 ++ outer) := by
  intro ins
  induction ins with
  | nil => intro wd cur h _; exact ⟨VExt.refl wd, rfl, h⟩
  | cons v rest ih =>
    intro wd cur h hvals
    simp only [declareInits]
    split
    · exact ih wd cur h (fun x hx => hvals x (by simp [hx]))
    · rename_i hcond
      simp only [not_or] at hcond
      have hpush := h.push (w.value v).name (w.value v) rfl (by
        intro hne x hx hnm
        left
        have := hU x hx v (hvals v (by simp)) hnm (by rw [hnm]; exact hne)
        rw [this])
      have hpush' : ScopeOK w vals { wd with values := wd.values ++ [w.value v] }
          ((((w.value v).name, wd.values.length) :: cur) ++ outer) := hpush
      obtain ⟨a, an, b⟩ := ih _ _ hpush' (fun x hx => hvals x (by simp [hx]))
      exact ⟨(VExt.push wd _).trans a, an, b⟩

theorem optAll_all {α : Type} : ∀ {l : List (Option α)} {r : List α}, optAll l = some r →
    ∀ o ∈ l, ∃ a, o = some a := by
  intro l
  induction l with
  | nil => intro _ _ o ho; cases ho
  | cons x rest ih =>
    intro r h o ho
    cases x with
    | none => simp [optAll] at h
    | some a =>
      simp only [optAll] at h
      cases hr : optAll rest with
      | none => simp [hr] at h
      | some r0 =>
        simp only [List.mem_cons] at ho
        rcases ho with ho | ho
        · exact ⟨a, ho⟩
        · exact ih hr o ho

theorem zip_map_left' {α β γ : Type} (f : α → γ) : ∀ (l : List α) (r : List β),
    (l.map f).zip r = (l.zip r).map (fun p => (f p.1, p.2)) := by
  intro l
  induction l with
  | nil => intro r; simp
  | cons a rest ih =>
    intro r
    cases r with
    | nil => simp
    | cons b rs => simp [ih]

theorem known_ok (w : World) (ms : ModelS) (hmo : ModelOK w ms) (wd : World)
    (hc : wd.cfgs = w.cfgs ++ (rtRegs ms).map w.cfg) :
    KnownOK w ms wd (rtKnown w ms) (rtNewCfgs w ms) := by
  unfold rtKnown rtNewCfgs
  have hregsub : ∀ c ∈ rtRegs ms, c ∈ ms.cfgs := by
    intro c hc; unfold rtRegs at hc; split at hc
    · exact hc
    · cases hc
  have hnd : ((rtRegs ms).map (fun c => (w.cfg c).name)).Nodup := by
    unfold rtRegs; split
    · exact hmo.2.2
    · simp
  rw [zip_map_left']
  -- a pair of the table: index i, name of regs[i], id base + i
  have hpair : ∀ x c', (x, c') ∈ ((rtRegs ms).zip (List.range' w.cfgs.length (rtRegs ms).length)).map
        (fun p => ((w.cfg p.1).name, p.2)) →
      ∃ c ∈ rtRegs ms, x = (w.cfg c).name ∧ c' ∈ List.range' w.cfgs.length (rtRegs ms).length ∧
        c' < wd.cfgs.length ∧ wd.cfg c' = w.cfg c := by
    intro x c' hp
    rw [List.mem_map] at hp
    obtain ⟨q, hq, he⟩ := hp
    simp only [Prod.mk.injEq] at he
    obtain ⟨he1, he2⟩ := he
    subst he2
    obtain ⟨i, hi, hqi⟩ := List.getElem_of_mem hq
    simp only [List.length_zip, List.length_range', Nat.min_self] at hi
    rw [List.getElem_zip] at hqi
    have hq1 : q.1 = (rtRegs ms)[i] := by rw [← hqi]
    have hq2 : q.2 = w.cfgs.length + i := by rw [← hqi]; simp
    refine ⟨q.1, by rw [hq1]; exact List.getElem_mem _, he1.symm, ?_, ?_, ?_⟩
    · rw [hq2, List.mem_range'_1]; exact ⟨Nat.le_add_right _ _, Nat.add_lt_add_left hi _⟩
    · rw [hq2, hc]; simp only [List.length_append, List.length_map]; exact Nat.add_lt_add_left hi _
    · rw [hq2, hq1]
      have : wd.cfg (w.cfgs.length + i) = (wd.cfgs[w.cfgs.length + i]?).getD {} := by
        simp [World.cfg, List.getD_eq_getElem?_getD]
      rw [this, hc, List.getElem?_append_right (Nat.le_add_right _ _)]
      simp [hi]
  constructor
  · intro c hcr
    have hmem : ((w.cfg c).name, w.cfgs.length) ∈ [((w.cfg c).name, w.cfgs.length)] := by simp
    -- the name of c occurs in the table
    have hex : ∃ c', ((w.cfg c).name, c') ∈ (((rtRegs ms).zip (List.range' w.cfgs.length (rtRegs ms).length)).map
        (fun p => ((w.cfg p.1).name, p.2))).reverse := by
      obtain ⟨i, hi, hci⟩ := List.getElem_of_mem hcr
      refine ⟨w.cfgs.length + i, ?_⟩
      rw [List.mem_reverse, List.mem_map]
      refine ⟨(c, w.cfgs.length + i), ?_, rfl⟩
      have hlen : i < ((rtRegs ms).zip (List.range' w.cfgs.length (rtRegs ms).length)).length := by simp [hi]
      have : ((rtRegs ms).zip (List.range' w.cfgs.length (rtRegs ms).length))[i] = (c, w.cfgs.length + i) := by
        rw [List.getElem_zip]; simp [hci]
      rw [← this]; exact List.getElem_mem hlen
    obtain ⟨c0, hc0⟩ := hex
    obtain ⟨c', hc'⟩ := slookup_isSome_of_mem hc0
    have hin := slookup_mem hc'
    rw [List.mem_reverse] at hin
    obtain ⟨c2, hc2, hname, h3, h4, h5⟩ := hpair _ _ hin
    have : c2 = c := inj_of_nodup_map hnd hc2 hcr hname.symm
    subst this
    exact ⟨c', hc', h3, h4, h5⟩
  · intro n1 n2 c' h1 h2
    have hm1 := slookup_mem h1
    have hm2 := slookup_mem h2
    refine sc_inj ?_ hm1 hm2
    rw [List.map_reverse, nodup_reverse', List.map_map]
    have : ((rtRegs ms).zip (List.range' w.cfgs.length (rtRegs ms).length)).map
        ((fun p : String × VId => p.2) ∘ fun p => ((w.cfg p.1).name, p.2))
        = ((rtRegs ms).zip (List.range' w.cfgs.length (rtRegs ms).length)).map Prod.snd := by
      apply List.map_congr_left; intro p _; rfl
    rw [this, List.map_snd_zip (by simp)]
    exact List.nodup_range' (h := by decide)

/-! ### the round trip -/


/-! ### the deserializer over nested graphs -/

theorem optAll_map_some {α β : Type} {f : α → Option β} {g : α → β} : ∀ {l : List α},
    (∀ a ∈ l, f a = some (g a)) → optAll (l.map f) = some (l.map g) := by
  intro l
  induction l with
  | nil => intro _; rfl
  | cons a rest ih =>
    intro h
    simp only [List.map_cons, h a (by simp), optAll, ih (fun x hx => h x (by simp [hx]))]
    rfl

/-- when every name is non-empty the ungated device field of a node is its annotations by name -/
theorem serNodeDev_named {w : World} {nd : NodeS}
    (hc : ∀ nc ∈ nd.dev, (w.cfg nc.cfg).name ≠ "")
    (hs : ∀ nc ∈ nd.dev, ∀ s ∈ nc.specs, (w.value s.value).name ≠ "") :
    serNodeDev w false nd = some (nd.dev.map (cfgProto w)) := by
  unfold serNodeDev
  simp only [Bool.false_eq_true, if_false]
  apply optAll_map_some
  intro nc hnc
  unfold serCfg
  simp only [hc nc hnc, if_false]
  have : optAll (nc.specs.map (serSpec w)) = some (nc.specs.map (specProto w)) := by
    apply optAll_map_some
    intro s hs'
    unfold serSpec
    simp [hs nc hnc s hs', specProto]
  rw [this]; rfl

/-- the fixed facts about the source model during a round trip -/
structure RTCtx (G : VId → Prop) (w : World) (ms : ModelS) : Prop where
  hD : DevOK G w
  hmo : ModelOK w ms
  hcl : Closed w ms
  hir : 11 ≤ ms.irVersion
  hnamed : ∀ n ∈ ms.nodes, ∀ nc ∈ (w.node n).dev, ∀ s ∈ nc.specs, (w.value s.value).name ≠ ""

/-- invariant of the deserializer state relative to the source world `w` and model `ms` -/
structure DInv (G : VId → Prop) (w : World) (ms : ModelS) (st : DSt) : Prop where
  ext : Ext w st.w
  cfgs : st.w.cfgs = w.cfgs ++ (rtRegs ms).map w.cfg
  models : st.w.models = w.models
  nodes : ∃ extra, st.w.nodes = w.nodes ++ extra ∧
    ∀ nd ∈ extra, NodeOK G st.w nd ∧ ∀ nc ∈ nd.dev, nc.cfg ∈ rtNewCfgs w ms
  plen : st.srcNodes.length = st.newNodes.length
  pairs : ∀ p ∈ st.srcNodes.zip st.newNodes, p.1 ∈ ms.nodes ∧ w.nodes.length ≤ p.2 ∧ p.2 < st.w.nodes.length ∧
      NodeRel w st.w (w.node p.1) (st.w.node p.2)

/-- the invariant survives growth of the value heap -/
theorem DInv.grow {w : World} {ms : ModelS} {st : DSt} (h : DInv G w ms st) {w2 : World}
    (he : VExt st.w w2) (hn : w2.nodes = st.w.nodes) : DInv G w ms { st with w := w2 } := by
  obtain ⟨extra, hex, hok⟩ := h.nodes
  have hpp := h.pairs
  refine ⟨h.ext.trans he.toExt, by show w2.cfgs = _; rw [he.cfgs, h.cfgs], by show w2.models = _; rw [he.models, h.models],
    ⟨extra, by show w2.nodes = _; rw [hn, hex], ?_⟩, h.plen, ?_⟩
  · intro nd hnd; exact ⟨(hok nd hnd).1.ext he.toExt, (hok nd hnd).2⟩
  · intro p hp
    obtain ⟨a, b, c, d⟩ := hpp p hp
    refine ⟨a, b, by show p.2 < w2.nodes.length; rw [hn]; exact c, ?_⟩
    show NodeRel w w2 (w.node p.1) (w2.node p.2)
    have : w2.node p.2 = st.w.node p.2 := by simp [World.node, hn]
    rw [this]; exact d.vext he

/-- every named entry of a scope carries the name of some value of `vals` -/
def ScopeSrc (w : World) (vals : List VId) (sc : Scope) : Prop :=
  ∀ p ∈ sc, p.1 ≠ "" → ∃ u ∈ vals, (w.value u).name = p.1

theorem ScopeSrc.mono {w : World} {vals vals' : List VId} {sc : Scope} (h : ScopeSrc w vals sc)
    (hs : ∀ v ∈ vals, v ∈ vals') : ScopeSrc w vals' sc :=
  fun p hp hne => by obtain ⟨u, hu, hn⟩ := h p hp hne; exact ⟨u, hs u hu, hn⟩

/-- a scope that is fine for `vals` is fine for a larger list of values with unique names, provided every entry
    stems from a value of `vals` -/
theorem ScopeOK.mono {w : World} {vals vals' : List VId} {wd : World} {sc : Scope} (h : ScopeOK w vals wd sc)
    (hsrc : ScopeSrc w vals sc) (hs : ∀ v ∈ vals, v ∈ vals') (hU : UniqueOn w vals') : ScopeOK w vals' wd sc := by
  refine ⟨h.lt, h.inj, h.name, ?_, h.len, h.fresh⟩
  intro p hp hne v hv hname
  obtain ⟨u, hu, hun⟩ := hsrc p hp hne
  have : u = v := hU u (hs u hu) v hv (by rw [hun, hname]) (by rw [hun]; exact hne)
  subst this
  exact h.shape p hp hne u hu hname

theorem declareInputs_names (w : World) : ∀ (ins : List VId) (st : World × Scope),
    ∀ p ∈ (declareInputs w st ins).2, p ∈ st.2 ∨ ∃ v ∈ ins, p.1 = (w.value v).name := by
  intro ins
  induction ins with
  | nil => intro st p hp; exact Or.inl hp
  | cons v rest ih =>
    intro st p hp
    simp only [declareInputs] at hp
    rcases ih _ p hp with h | ⟨x, hx, hn⟩
    · simp only [List.mem_cons] at h
      rcases h with h | h
      · exact Or.inr ⟨v, by simp, by rw [h]⟩
      · exact Or.inl h
    · exact Or.inr ⟨x, by simp [hx], hn⟩

theorem declareInits_names (w : World) : ∀ (ins : List VId) (st : World × Scope),
    ∀ p ∈ (declareInits w st ins).2, p ∈ st.2 ∨ ∃ v ∈ ins, p.1 = (w.value v).name := by
  intro ins
  induction ins with
  | nil => intro st p hp; exact Or.inl hp
  | cons v rest ih =>
    intro st p hp
    simp only [declareInits] at hp
    split at hp
    · rcases ih _ p hp with h | ⟨x, hx, hn⟩
      · exact Or.inl h
      · exact Or.inr ⟨x, by simp [hx], hn⟩
    · rcases ih _ p hp with h | ⟨x, hx, hn⟩
      · simp only [List.mem_cons] at h
        rcases h with h | h
        · exact Or.inr ⟨v, by simp, by rw [h]⟩
        · exact Or.inl h
      · exact Or.inr ⟨x, by simp [hx], hn⟩

theorem declareOutputs_names (w : World) : ∀ (outs : List VId) (st st' : World × Scope),
    declareOutputs w st outs = some st' → ∀ p ∈ st'.2, p ∈ st.2 ∨ ∃ v ∈ outs, p.1 = (w.value v).name := by
  intro outs
  induction outs with
  | nil => intro st st' h p hp; simp only [declareOutputs, Option.some.injEq] at h; subst h; exact Or.inl hp
  | cons o rest ih =>
    intro st st' h p hp
    simp only [declareOutputs] at h
    split at h
    · rcases ih _ _ h p hp with h1 | ⟨x, hx, hn⟩
      · exact Or.inl h1
      · exact Or.inr ⟨x, by simp [hx], hn⟩
    · split at h
      · cases h
      · rcases ih _ _ h p hp with h1 | ⟨x, hx, hn⟩
        · simp only [List.mem_cons] at h1
          rcases h1 with h1 | h1
          · exact Or.inr ⟨o, by simp, by rw [h1]⟩
          · exact Or.inl h1
        · exact Or.inr ⟨x, by simp [hx], hn⟩

theorem deserInputs_names (w : World) (outer : Scope) : ∀ (ins : List (Option VId)) (st : World × Scope),
    ∀ p ∈ (deserInputs w outer st ins).2.1, p ∈ st.2 ∨ ∃ v, some v ∈ ins ∧ p.1 = (w.value v).name := by
  intro ins
  induction ins with
  | nil => intro st p hp; exact Or.inl hp
  | cons o rest ih =>
    intro st p hp
    cases o with
    | none =>
      simp only [deserInputs] at hp
      rcases ih _ p hp with h | ⟨x, hx, hn⟩
      · exact Or.inl h
      · exact Or.inr ⟨x, by simp [hx], hn⟩
    | some v0 =>
      simp only [deserInputs] at hp
      split at hp
      · rcases ih _ p hp with h | ⟨x, hx, hn⟩
        · exact Or.inl h
        · exact Or.inr ⟨x, by simp [hx], hn⟩
      · split at hp
        · rcases ih _ p hp with h | ⟨x, hx, hn⟩
          · exact Or.inl h
          · exact Or.inr ⟨x, by simp [hx], hn⟩
        · rcases ih _ p hp with h | ⟨x, hx, hn⟩
          · simp only [List.mem_cons] at h
            rcases h with h | h
            · exact Or.inr ⟨v0, by simp, by rw [h]⟩
            · exact Or.inl h
          · exact Or.inr ⟨x, by simp [hx], hn⟩

/-- `ScopeSrc` of a scope all of whose new entries are named after values of `vals` -/
theorem ScopeSrc.extend {w : World} {vals : List VId} {sc sc' : Scope} (h : ScopeSrc w vals sc)
    (hnew : ∀ p ∈ sc', p ∈ sc ∨ ∃ v ∈ vals, p.1 = (w.value v).name) : ScopeSrc w vals sc' := by
  intro p hp hne
  rcases hnew p hp with h1 | ⟨v, hv, hn⟩
  · exact h p h1 hne
  · exact ⟨v, hv, hn.symm⟩

/-- what the recursive call for a subgraph is assumed to do: `f` bounds the nesting depth, `ov` are the values of
    the enclosing graphs, and the names are unique along every scope chain from here on -/
def RecSpecD (G : VId → Prop) (w : World) (ms : ModelS) (f : Nat) (rec : DSt → Scope → GId → Option (DSt × GId)) : Prop :=
  ∀ st outer g st' g' ov, g ∈ ms.graphs → (∀ vs ∈ chainsF w f ov g, UniqueOn w vs) →
    rec st outer g = some (st', g') → DInv G w ms st →
    ScopeOK w ov st.w outer → ScopeSrc w ov outer → DInv G w ms st' ∧ VExt st.w st'.w

theorem deserSubgraphs_spec {w : World} {ms : ModelS} {f : Nat} {rec : DSt → Scope → GId → Option (DSt × GId)}
    (hrec : RecSpecD G w ms f rec) (outer : Scope) (ov : List VId) :
    ∀ (gs : List GId) (st st' : DSt) (subs : List GId),
    (∀ g ∈ gs, g ∈ ms.graphs) → (∀ g ∈ gs, ∀ vs ∈ chainsF w f ov g, UniqueOn w vs) →
    deserSubgraphs rec outer st gs = some (st', subs) → DInv G w ms st →
    ScopeOK w ov st.w outer → ScopeSrc w ov outer → DInv G w ms st' ∧ VExt st.w st'.w := by
  intro gs
  induction gs with
  | nil =>
    intro st st' subs _ _ hc hinv _ _
    simp only [deserSubgraphs, Option.some.injEq, Prod.mk.injEq] at hc
    obtain ⟨rfl, _⟩ := hc
    exact ⟨hinv, VExt.refl _⟩
  | cons g rest ih =>
    intro st st' subs hgs hch hc hinv hsc hsrc
    simp only [deserSubgraphs] at hc
    cases hr : rec st outer g with
    | none => simp [hr] at hc
    | some r =>
      obtain ⟨st1, g1⟩ := r
      simp only [hr] at hc
      cases hr2 : deserSubgraphs rec outer st1 rest with
      | none => simp [hr2] at hc
      | some r2 =>
        obtain ⟨st2, subs2⟩ := r2
        simp only [hr2, Option.map_some, Option.some.injEq, Prod.mk.injEq] at hc
        obtain ⟨rfl, _⟩ := hc
        obtain ⟨b1, e1⟩ := hrec st outer g st1 g1 ov (hgs g (by simp)) (hch g (by simp)) hr hinv hsc hsrc
        obtain ⟨b2, e2⟩ := ih st1 st2 subs2 (fun x hx => hgs x (by simp [hx])) (fun x hx => hch x (by simp [hx]))
          hr2 b1 (hsc.vext e1) hsrc
        exact ⟨b2, e1.trans e2⟩

theorem KnownOK.of_cfgs {w : World} {ms : ModelS} (hmo : ModelOK w ms) {wd : World}
    (hc : wd.cfgs = w.cfgs ++ (rtRegs ms).map w.cfg) : KnownOK w ms wd (rtKnown w ms) (rtNewCfgs w ms) :=
  known_ok w ms hmo wd hc

/-- the node `_deserialize_node` creates for source node `n` -/
def deserNodeRec (w : World) (ms : ModelS) (n : NId) (sc1 : Scope) (ins' : List (Option VId))
    (outs' : List VId) (subs : List GId) : NodeS :=
  { inputs := ins', outputs := outs', dev := rtDev w sc1 (rtKnown w ms) (w.node n).dev, subgraphs := subs }

theorem deserNode_spec {w : World} [hGf : Fresh G w.values.length] {ms : ModelS} {f : Nat} {vals : List VId}
    {rec : DSt → Scope → GId → Option (DSt × GId)}
    (ctx : RTCtx G w ms) (hU : UniqueOn w vals) (hrec : RecSpecD G w ms f rec) {outer : Scope} {st st' : DSt} {cur cur1 : Scope}
    {n k : NId} (hn : n ∈ ms.nodes) (hvio : ∀ v, InIO (w.node n) v → v ∈ vals)
    (hsubch : ∀ sg ∈ (w.node n).subgraphs, ∀ vs ∈ chainsF w f vals sg, UniqueOn w vs)
    (hc : deserNode rec w false (rtKnown w ms) outer st cur n = some (st', cur1, k))
    (hinv : DInv G w ms st) (hsc : ScopeOK w vals st.w (cur ++ outer)) (hsrc : ScopeSrc w vals (cur ++ outer))
    (hdecl : ∀ o ∈ serOutputs w (w.node n), (w.value o).name ≠ "" →
      ∃ b, slookup cur (w.value o).name = some b) :
    DInv G w ms st' ∧ VExt st.w st'.w ∧ ScopeOK w vals st'.w (cur1 ++ outer) ∧ ScopeSrc w vals (cur1 ++ outer) ∧
    (∀ x b, slookup cur x = some b → slookup cur1 x = some b) := by
  unfold deserNode at hc
  simp only at hc
  have hsrc1 : ScopeSrc w vals ((deserInputs w outer (st.w, cur) (w.node n).inputs).2.1 ++ outer) := by
    apply hsrc.extend
    intro p hp
    rw [List.mem_append] at hp
    rcases hp with hp | hp
    · rcases deserInputs_names w outer _ _ p hp with h1 | ⟨v, hv, hnm⟩
      · exact Or.inl (List.mem_append_left _ h1)
      · exact Or.inr ⟨v, hvio v (Or.inl hv), hnm⟩
    · exact Or.inl (List.mem_append_right _ hp)
  -- inputs
  have h1 := deserInputs_spec w vals outer (w.node n).inputs st.w cur hsc
  generalize hr1 : deserInputs w outer (st.w, cur) (w.node n).inputs = r1 at h1 hc hsrc1
  obtain ⟨wd1, sc1, ins'⟩ := r1
  obtain ⟨e1, n1, ok1, mono1, monoCur1, found1, lt1, _⟩ := h1
  simp only at e1 n1 ok1 mono1 monoCur1 found1 lt1 hc
  -- outputs
  have h2 := deserOutputs_spec w sc1 (serOutputs w (w.node n)) wd1
    (fun p hp => ok1.lt p (List.mem_append_left _ hp))
  generalize hr2 : deserOutputs w sc1 wd1 (serOutputs w (w.node n)) = r2 at h2 hc
  obtain ⟨wd2, outs'⟩ := r2
  obtain ⟨e2, n2, found2, lt2⟩ := h2
  simp only at e2 n2 found2 lt2 hc
  have e12 : VExt st.w wd2 := e1.trans e2
  have hn12 : wd2.nodes = st.w.nodes := by rw [n2, n1]
  have ok2 : ScopeOK w vals wd2 (sc1 ++ outer) := ok1.vext e2
  -- the annotations
  have hcfgnamed : ∀ nc ∈ (w.node n).dev, (w.cfg nc.cfg).name ≠ "" := by
    intro nc hnc
    exact (ctx.hmo.2.1 nc.cfg ((ctx.hmo.1 n hn).2 nc hnc)).2
  have hregs : ∀ nc ∈ (w.node n).dev, nc.cfg ∈ rtRegs ms := by
    intro nc hnc
    simp only [rtRegs, ctx.hir, if_true]
    exact (ctx.hmo.1 n hn).2 nc hnc
  have hk := KnownOK.of_cfgs ctx.hmo hinv.cfgs
  have hnode := rtNode_ok (nd := w.node n) (dev0 := (w.node n).dev) (wd := st.w) (w3 := wd2)
    (sc1 := sc1 ++ outer) (known := rtKnown w ms) (newCfgs := rtNewCfgs w ms) (ins' := ins') (outs' := outs')
    hU ctx.hmo (ctx.hD.node n) hvio (List.Sublist.refl _)
    (ctx.hnamed n hn) hregs hk e12.cfgs ok2
    (fun v hv hne => found1 v hv hne)
    (by
      intro o ho hne
      have hso := mem_serOutputs ho hne
      obtain ⟨b, hb⟩ := hdecl o hso hne
      have hb1 := monoCur1 _ _ hb
      exact ⟨b, slookup_append_left hb1, found2 o hso hne b hb1⟩)
    (fun b hb => Nat.lt_of_lt_of_le (lt1 b hb) e2.len) lt2
  obtain ⟨hnok, hncfg, hresolved⟩ := hnode
  have hrel := rtNode_rel (dev0 := (w.node n).dev) (wd := st.w) (w3 := wd2) (sc1 := sc1 ++ outer)
    hregs hk e12.cfgs ok2 (by
      intro nc hnc s hs
      obtain ⟨_, hq⟩ := hresolved (cfgProto w nc) (List.mem_map_of_mem hnc)
      exact hq (specProto w s) (by simp only [cfgProto]; exact List.mem_map_of_mem hs))
  rw [serNodeDev_named hcfgnamed (ctx.hnamed n hn)] at hc
  simp only [Option.getD_some] at hc
  rw [deserCfgs_resolved (sc1 ++ outer) (rtKnown w ms) _ wd2 hresolved] at hc
  simp only at hc
  -- the subgraphs
  have hinv2 : DInv G w ms { st with w := wd2 } := hinv.grow e12 hn12
  cases hsub : deserSubgraphs rec (sc1 ++ outer) { st with w := wd2 } (w.node n).subgraphs with
  | none => simp [hsub] at hc
  | some r =>
    obtain ⟨st4, subs⟩ := r
    simp only [hsub, Option.some.injEq, Prod.mk.injEq] at hc
    obtain ⟨hst', hcur1, hk'⟩ := hc
    obtain ⟨hinv4, e4⟩ := deserSubgraphs_spec hrec (sc1 ++ outer) vals _ _ _ _ (ctx.hcl.2.2.1 n hn) hsubch hsub hinv2 ok2 hsrc1
    have e4' : VExt wd2 st4.w := e4
    subst hcur1
    -- the final world
    have hnd' : NodeOK G st4.w (deserNodeRec w ms n (sc1 ++ outer) ins' outs' subs) := by
      have := hnok.ext e4'.toExt
      exact this
    have hrel' : NodeRel w st4.w (w.node n) (deserNodeRec w ms n (sc1 ++ outer) ins' outs' subs) :=
      NodeRel.vext (nd' := deserNodeRec w ms n (sc1 ++ outer) ins' outs' subs) hrel e4'
    obtain ⟨extra, hex, hok⟩ := hinv4.nodes
    have hpp := hinv4.pairs
    have hvfin : VExt st4.w st'.w := by
      rw [← hst']
      exact ⟨⟨[], by simp⟩, rfl, ⟨[_], rfl⟩, rfl⟩
    have hnodes' : st'.w.nodes = st4.w.nodes ++ [deserNodeRec w ms n (sc1 ++ outer) ins' outs' subs] := by
      rw [← hst']; rfl
    have hnn' : st'.newNodes = st4.newNodes ++ [st4.w.nodes.length] := by rw [← hst']
    have hsn' : st'.srcNodes = st4.srcNodes ++ [n] := by rw [← hst']
    have hextfin : Ext st4.w st'.w := hvfin.toExt
    refine ⟨⟨hinv4.ext.trans hextfin, by rw [hvfin.cfgs, hinv4.cfgs], by rw [hvfin.models, hinv4.models],
      ⟨extra ++ [deserNodeRec w ms n (sc1 ++ outer) ins' outs' subs], by rw [hnodes', hex, List.append_assoc], ?_⟩,
      by rw [hnn', hsn']; simp [hinv4.plen], ?_⟩,
      (e12.trans e4').trans hvfin, ?_, hsrc1, monoCur1⟩
    · intro x hx
      simp only [List.mem_append, List.mem_singleton] at hx
      rcases hx with hx | hx
      · exact ⟨(hok x hx).1.ext hextfin, (hok x hx).2⟩
      · subst hx; exact ⟨hnd'.ext hextfin, hncfg⟩
    · intro p hp
      rw [hnn', hsn', List.zip_append hinv4.plen] at hp
      simp only [List.zip_cons_cons, List.zip_nil_right, List.mem_append, List.mem_singleton] at hp
      rcases hp with hp | hp
      · obtain ⟨a, b, c, d⟩ := hpp p hp
        refine ⟨a, b, Nat.lt_of_lt_of_le c hvfin.nlen, ?_⟩
        rw [hvfin.node c]; exact d.vext hvfin
      · subst hp
        refine ⟨hn, ?_, ?_, ?_⟩
        · show w.nodes.length ≤ st4.w.nodes.length
          rw [hex]; simp
        · show st4.w.nodes.length < st'.w.nodes.length
          rw [hnodes']; simp
        · show NodeRel w st'.w (w.node n) (st'.w.node st4.w.nodes.length)
          have : st'.w.node st4.w.nodes.length = deserNodeRec w ms n (sc1 ++ outer) ins' outs' subs := by
            simp [World.node, hnodes', List.getD_eq_getElem?_getD]
          rw [this]; exact hrel'.vext hvfin
    · exact (ok2.vext e4').vext hvfin

theorem deserNodes_spec {w : World} [hGf : Fresh G w.values.length] {ms : ModelS} {f : Nat} {vals : List VId}
    {rec : DSt → Scope → GId → Option (DSt × GId)}
    (ctx : RTCtx G w ms) (hU : UniqueOn w vals) (hrec : RecSpecD G w ms f rec) (outer : Scope) :
    ∀ (ns : List NId) (st : DSt) (cur : Scope) (acc : List NId) (st' : DSt) (res : List NId),
    (∀ n ∈ ns, n ∈ ms.nodes ∧ (∀ v, InIO (w.node n) v → v ∈ vals) ∧
      ∀ sg ∈ (w.node n).subgraphs, ∀ vs ∈ chainsF w f vals sg, UniqueOn w vs) →
    deserNodes rec w false (rtKnown w ms) outer st cur ns acc = some (st', res) →
    DInv G w ms st → ScopeOK w vals st.w (cur ++ outer) → ScopeSrc w vals (cur ++ outer) →
    (∀ n ∈ ns, ∀ o ∈ serOutputs w (w.node n), (w.value o).name ≠ "" → ∃ b, slookup cur (w.value o).name = some b) →
    DInv G w ms st' ∧ VExt st.w st'.w := by
  intro ns
  induction ns with
  | nil =>
    intro st cur acc st' res _ hc hinv _ _ _
    simp only [deserNodes, Option.some.injEq, Prod.mk.injEq] at hc
    obtain ⟨rfl, _⟩ := hc
    exact ⟨hinv, VExt.refl _⟩
  | cons n rest ih =>
    intro st cur acc st' res hns hc hinv hsc hsrc hdecl
    simp only [deserNodes] at hc
    cases hdn : deserNode rec w false (rtKnown w ms) outer st cur n with
    | none => simp [hdn] at hc
    | some r =>
      obtain ⟨st1, cur1, k⟩ := r
      simp only [hdn] at hc
      obtain ⟨hn1, hn2, hn3⟩ := hns n (by simp)
      obtain ⟨b1, e1, sc1, src1, m1⟩ := deserNode_spec ctx hU hrec hn1 hn2 hn3 hdn hinv hsc hsrc (hdecl n (by simp))
      obtain ⟨b2, e2⟩ := ih st1 cur1 _ st' res (fun x hx => hns x (by simp [hx])) hc b1 sc1 src1
        (fun x hx o ho hne => by
          obtain ⟨b, hb⟩ := hdecl x (by simp [hx]) o ho hne
          exact ⟨b, m1 _ _ hb⟩)
      exact ⟨b2, e1.trans e2⟩

theorem DInv.of_eq {w : World} {ms : ModelS} {st st' : DSt} (h : DInv G w ms st)
    (hv : st'.w.values = st.w.values) (hc : st'.w.cfgs = st.w.cfgs) (hn : st'.w.nodes = st.w.nodes)
    (hm : st'.w.models = st.w.models) (hnn : st'.newNodes = st.newNodes) (hsn : st'.srcNodes = st.srcNodes) :
    DInv G w ms st' := by
  have he : VExt st.w st'.w := VExt.of_eq hv hc hn hm
  have hg := h.grow he hn
  exact ⟨hg.ext, hg.cfgs, hg.models, hg.nodes, by rw [hnn, hsn]; exact hg.plen,
    by rw [hnn, hsn]; exact hg.pairs⟩

theorem mem_ownVals_of_input {w : World} {g : GId} {v : VId} (hv : v ∈ (w.graph g).inputs) : v ∈ ownVals w g := by
  unfold ownVals; simp [hv]

theorem mem_ownVals_of_init {w : World} {g : GId} {v : VId} (hv : v ∈ (w.graph g).inits) : v ∈ ownVals w g := by
  unfold ownVals; simp [hv]

theorem mem_ownVals_of_io {w : World} {g : GId} {n : NId} (hn : n ∈ (w.graph g).nodes) {v : VId}
    (hv : InIO (w.node n) v) : v ∈ ownVals w g := by
  unfold ownVals
  simp only [List.mem_append, List.mem_flatten, List.mem_map]
  right
  refine ⟨_, ⟨n, hn, rfl⟩, ?_⟩
  rcases hv with hv | hv
  · simp only [List.mem_append, List.mem_filterMap, id]
    exact Or.inl ⟨some v, hv, rfl⟩
  · exact List.mem_append_right _ hv

theorem deserGraphBody_spec {w : World} [hGf : Fresh G w.values.length] {ms : ModelS} {f : Nat} {rec : DSt → Scope → GId → Option (DSt × GId)}
    (ctx : RTCtx G w ms) (hrec : RecSpecD G w ms f rec) :
    RecSpecD G w ms (f + 1) (deserGraphBody rec w false (rtKnown w ms)) := by
  intro st outer g st' g' ov hg hch hc hinv hsc0 hsrc0
  unfold deserGraphBody at hc
  simp only at hc
  have hUv : UniqueOn w (ov ++ ownVals w g) := hch _ (by simp [chainsF])
  have hsubch : ∀ n ∈ (w.graph g).nodes, ∀ sg ∈ (w.node n).subgraphs,
      ∀ vs ∈ chainsF w f (ov ++ ownVals w g) sg, UniqueOn w vs := by
    intro n hn sg hsg vs hvs
    apply hch
    simp only [chainsF, List.mem_cons, List.mem_flatten, List.mem_map]
    right
    exact ⟨_, ⟨n, hn, rfl⟩, by simp only [List.mem_flatten, List.mem_map]; exact ⟨_, ⟨sg, hsg, rfl⟩, hvs⟩⟩
  have hsc : ScopeOK w (ov ++ ownVals w g) st.w outer :=
    hsc0.mono hsrc0 (fun v hv => List.mem_append_left _ hv) hUv
  have hsrc : ScopeSrc w (ov ++ ownVals w g) outer := hsrc0.mono (fun v hv => List.mem_append_left _ hv)
  -- graph inputs
  have h0 := declareInputs_spec w (ov ++ ownVals w g) outer hUv (w.graph g).inputs st.w [] (by simpa using hsc)
    (fun v hv => List.mem_append_right _ (mem_ownVals_of_input hv))
  have hs0 : ScopeSrc w (ov ++ ownVals w g) ((declareInputs w (st.w, []) (w.graph g).inputs).2 ++ outer) := by
    apply hsrc.extend
    intro p hp
    rw [List.mem_append] at hp
    rcases hp with hp | hp
    · rcases declareInputs_names w _ _ p hp with h1 | ⟨v, hv, hnm⟩
      · cases h1
      · exact Or.inr ⟨v, List.mem_append_right _ (mem_ownVals_of_input hv), hnm⟩
    · exact Or.inl hp
  generalize hr00 : declareInputs w (st.w, []) (w.graph g).inputs = r00 at h0 hc hs0
  obtain ⟨e00, n00, ok00⟩ := h0
  -- initializers
  have hr00' : r00 = (r00.1, r00.2) := rfl
  rw [hr00'] at hc
  have hI := declareInits_spec w (ov ++ ownVals w g) outer hUv (w.graph g).inits r00.1 r00.2 ok00
    (fun v hv => List.mem_append_right _ (mem_ownVals_of_init hv))
  have hsI : ScopeSrc w (ov ++ ownVals w g) ((declareInits w (r00.1, r00.2) (w.graph g).inits).2 ++ outer) := by
    apply hs0.extend
    intro p hp
    rw [List.mem_append] at hp
    rcases hp with hp | hp
    · rcases declareInits_names w _ _ p hp with h1 | ⟨v, hv, hnm⟩
      · exact Or.inl (List.mem_append_left _ h1)
      · exact Or.inr ⟨v, List.mem_append_right _ (mem_ownVals_of_init hv), hnm⟩
    · exact Or.inl (List.mem_append_right _ hp)
  generalize hr0 : declareInits w (r00.1, r00.2) (w.graph g).inits = r0 at hI hc hsI
  obtain ⟨eI, nI, ok0⟩ := hI
  have e0 : VExt st.w r0.1 := e00.trans eI
  have n0 : r0.1.nodes = st.w.nodes := by rw [nI, n00]
  have hvalsO : ∀ o ∈ (((w.graph g).nodes.map (fun n => serOutputs w (w.node n))).flatten), o ∈ ov ++ ownVals w g := by
    intro o ho
    simp only [List.mem_flatten, List.mem_map] at ho
    obtain ⟨l, ⟨n, hn, rfl⟩, hol⟩ := ho
    exact List.mem_append_right _ (mem_ownVals_of_io hn (Or.inr (serOutputs_sub hol)))
  -- declared outputs
  cases hdo : declareOutputs w r0 (((w.graph g).nodes.map (fun n => serOutputs w (w.node n))).flatten) with
  | none => simp [hdo] at hc
  | some r1 =>
    simp only [hdo] at hc
    have hr0' : r0 = (r0.1, r0.2) := rfl
    have hs1 : ScopeSrc w (ov ++ ownVals w g) (r1.2 ++ outer) := by
      apply hsI.extend
      intro p hp
      rw [List.mem_append] at hp
      rcases hp with hp | hp
      · rcases declareOutputs_names w _ _ _ hdo p hp with h1 | ⟨v, hv, hnm⟩
        · exact Or.inl (List.mem_append_left _ h1)
        · exact Or.inr ⟨v, hvalsO v hv, hnm⟩
      · exact Or.inl (List.mem_append_right _ hp)
    rw [hr0'] at hdo
    obtain ⟨e1, n1, ok1, _, decl1⟩ := declareOutputs_spec w (ov ++ ownVals w g) outer hUv _ r0.1 r0.2 r1 ok0 hvalsO hdo
    have e01 : VExt st.w r1.1 := e0.trans e1
    have hn01 : r1.1.nodes = st.w.nodes := by rw [n1, n0]
    have hinv1 : DInv G w ms { st with w := r1.1 } := hinv.grow e01 hn01
    cases hdn : deserNodes rec w false (rtKnown w ms) outer { st with w := r1.1 } r1.2 (w.graph g).nodes [] with
    | none => simp [hdn] at hc
    | some r2 =>
      obtain ⟨st2, ns⟩ := r2
      simp only [hdn, Option.some.injEq, Prod.mk.injEq] at hc
      obtain ⟨hst', _⟩ := hc
      obtain ⟨b2, e2⟩ := deserNodes_spec ctx hUv hrec outer _ _ _ _ _ _
        (fun n hn => ⟨ctx.hcl.2.1 g hg n hn, fun v hv => List.mem_append_right _ (mem_ownVals_of_io hn hv),
          hsubch n hn⟩) hdn hinv1 ok1 hs1 (by
        intro n hn o ho hne
        apply decl1 o _ hne
        simp only [List.mem_flatten, List.mem_map]
        exact ⟨_, ⟨n, hn, rfl⟩, ho⟩)
      have e2' : VExt r1.1 st2.w := e2
      subst hst'
      exact ⟨b2.of_eq rfl rfl rfl rfl rfl rfl, (e01.trans e2').trans (VExt.of_eq rfl rfl rfl rfl)⟩

theorem deserGraphF_spec {w : World} [hGf : Fresh G w.values.length] {ms : ModelS} (ctx : RTCtx G w ms) :
    ∀ (f : Nat), RecSpecD G w ms f (deserGraphF w false (rtKnown w ms) f) := by
  intro f
  induction f with
  | zero => intro st outer g st' g' ov _ _ hc; simp [deserGraphF] at hc
  | succ f ih =>
    intro st outer g st' g' ov hg hch hc
    simp only [deserGraphF] at hc
    exact deserGraphBody_spec ctx ih st outer g st' g' ov hg hch hc

/-! ### which source nodes are visited -/

def SrcSpec (w : World) (f : Nat) (rec : DSt → Scope → GId → Option (DSt × GId)) : Prop :=
  ∀ st outer g st' g', rec st outer g = some (st', g') → st'.srcNodes = st.srcNodes ++ allNodesF w f g

theorem deserSubgraphs_src {w : World} {f : Nat} {rec : DSt → Scope → GId → Option (DSt × GId)}
    (hrec : SrcSpec w f rec) (outer : Scope) : ∀ (gs : List GId) (st st' : DSt) (subs : List GId),
    deserSubgraphs rec outer st gs = some (st', subs) →
    st'.srcNodes = st.srcNodes ++ (gs.map (allNodesF w f)).flatten := by
  intro gs
  induction gs with
  | nil =>
    intro st st' subs hc
    simp only [deserSubgraphs, Option.some.injEq, Prod.mk.injEq] at hc
    obtain ⟨rfl, _⟩ := hc; simp
  | cons g rest ih =>
    intro st st' subs hc
    simp only [deserSubgraphs] at hc
    cases hr : rec st outer g with
    | none => simp [hr] at hc
    | some r =>
      obtain ⟨st1, g1⟩ := r
      simp only [hr] at hc
      cases hr2 : deserSubgraphs rec outer st1 rest with
      | none => simp [hr2] at hc
      | some r2 =>
        obtain ⟨st2, subs2⟩ := r2
        simp only [hr2, Option.map_some, Option.some.injEq, Prod.mk.injEq] at hc
        obtain ⟨rfl, _⟩ := hc
        rw [ih st1 st2 subs2 hr2, hrec st outer g st1 g1 hr]
        simp

theorem deserNode_src {w : World} {f : Nat} {rec : DSt → Scope → GId → Option (DSt × GId)}
    (hrec : SrcSpec w f rec) {gate : Bool} {known : List (String × CId)} {outer : Scope} {st st' : DSt}
    {cur cur1 : Scope} {n k : NId}
    (hc : deserNode rec w gate known outer st cur n = some (st', cur1, k)) :
    st'.srcNodes = st.srcNodes ++ (((w.node n).subgraphs.map (allNodesF w f)).flatten ++ [n]) := by
  unfold deserNode at hc
  simp only at hc
  split at hc
  · cases hc
  · rename_i st4 subs hsub
    simp only [Option.some.injEq, Prod.mk.injEq] at hc
    obtain ⟨rfl, _, _⟩ := hc
    have := deserSubgraphs_src hrec _ _ _ _ _ hsub
    simp only [this, List.append_assoc]

theorem deserNodes_src {w : World} {f : Nat} {rec : DSt → Scope → GId → Option (DSt × GId)}
    (hrec : SrcSpec w f rec) {gate : Bool} {known : List (String × CId)} (outer : Scope) :
    ∀ (ns : List NId) (st : DSt) (cur : Scope) (acc : List NId) (st' : DSt) (res : List NId),
    deserNodes rec w gate known outer st cur ns acc = some (st', res) →
    st'.srcNodes = st.srcNodes ++
      (ns.map (fun n => ((w.node n).subgraphs.map (allNodesF w f)).flatten ++ [n])).flatten := by
  intro ns
  induction ns with
  | nil =>
    intro st cur acc st' res hc
    simp only [deserNodes, Option.some.injEq, Prod.mk.injEq] at hc
    obtain ⟨rfl, _⟩ := hc; simp
  | cons n rest ih =>
    intro st cur acc st' res hc
    simp only [deserNodes] at hc
    cases hdn : deserNode rec w gate known outer st cur n with
    | none => simp [hdn] at hc
    | some r =>
      obtain ⟨st1, cur1, k⟩ := r
      simp only [hdn] at hc
      rw [ih st1 cur1 _ st' res hc, deserNode_src hrec hdn]
      simp

theorem deserGraphBody_src {w : World} {f : Nat} {rec : DSt → Scope → GId → Option (DSt × GId)}
    (hrec : SrcSpec w f rec) (gate : Bool) (known : List (String × CId)) :
    SrcSpec w (f + 1) (deserGraphBody rec w gate known) := by
  intro st outer g st' g' hc
  unfold deserGraphBody at hc
  simp only at hc
  split at hc
  · cases hc
  · split at hc
    · cases hc
    · rename_i r1 _ st2 ns hdn
      simp only [Option.some.injEq, Prod.mk.injEq] at hc
      obtain ⟨rfl, _⟩ := hc
      have := deserNodes_src hrec outer _ _ _ _ _ _ hdn
      simp only [this, allNodesF]

theorem deserGraphF_src (w : World) (gate : Bool) (known : List (String × CId)) :
    ∀ (f : Nat), SrcSpec w f (deserGraphF w gate known f) := by
  intro f
  induction f with
  | zero => intro st outer g st' g' hc; simp [deserGraphF] at hc
  | succ f ih =>
    intro st outer g st' g' hc
    simp only [deserGraphF] at hc
    exact deserGraphBody_src ih gate known st outer g st' g' hc

/-- what the serialized device fields say when serialization succeeds at IR version >= 11 -/
theorem serModelDev_named {w : World} {m : MId} {protos : List (List PCfg)}
    (h : serModelDev w m = some protos) (hir : 11 ≤ (w.model m).irVersion) :
    ∀ n ∈ (w.model m).nodes, ∀ nc ∈ (w.node n).dev, ∀ s ∈ nc.specs, (w.value s.value).name ≠ "" := by
  intro n hn nc hnc s hs
  unfold serModelDev at h
  obtain ⟨a, ha⟩ := optAll_all h (serNodeDev w (nodeGated w (w.model m) n) (w.node n))
    (List.mem_map_of_mem (f := fun n => serNodeDev w (nodeGated w (w.model m) n) (w.node n)) hn)
  unfold serNodeDev at ha
  rw [nodeGated_false hir] at ha
  simp only [Bool.false_eq_true, if_false] at ha
  obtain ⟨p, hp⟩ := optAll_all ha (serCfg w nc) (List.mem_map_of_mem hnc)
  unfold serCfg at hp
  split at hp
  · cases hp
  · cases ho : optAll (nc.specs.map (serSpec w)) with
    | none => simp [ho] at hp
    | some sp =>
      obtain ⟨q, hq⟩ := optAll_all ho (serSpec w s) (List.mem_map_of_mem hs)
      unfold serSpec at hq
      split at hq
      · cases hq
      · assumption

/-- the main graph and every function: each with a scope stack of its own -/
theorem deserRoots_spec {w : World} [hGf : Fresh G w.values.length] {ms : ModelS} (ctx : RTCtx G w ms) (f : Nat) :
    ∀ (gs : List GId) (st st' : DSt) (res : List GId),
    (∀ g ∈ gs, g ∈ ms.graphs ∧ ∀ vs ∈ chainsF w f [] g, UniqueOn w vs) →
    deserRoots w false (rtKnown w ms) f st gs = some (st', res) → DInv G w ms st →
    DInv G w ms st' ∧ st'.srcNodes = st.srcNodes ++ (gs.map (allNodesF w f)).flatten ∧ VExt st.w st'.w := by
  intro gs
  induction gs with
  | nil =>
    intro st st' res _ hc hinv
    simp only [deserRoots, Option.some.injEq, Prod.mk.injEq] at hc
    obtain ⟨rfl, _⟩ := hc
    exact ⟨hinv, by simp, VExt.refl _⟩
  | cons g rest ih =>
    intro st st' res hgs hc hinv
    simp only [deserRoots] at hc
    cases hr : deserGraphF w false (rtKnown w ms) f st [] g with
    | none => simp [hr] at hc
    | some r =>
      obtain ⟨st1, g1⟩ := r
      simp only [hr] at hc
      cases hr2 : deserRoots w false (rtKnown w ms) f st1 rest with
      | none => simp [hr2] at hc
      | some r2 =>
        obtain ⟨st2, res2⟩ := r2
        simp only [hr2, Option.map_some, Option.some.injEq, Prod.mk.injEq] at hc
        obtain ⟨rfl, _⟩ := hc
        obtain ⟨hgm, hgch⟩ := hgs g (by simp)
        have hsc0 : ScopeOK w [] st.w [] := ⟨by simp, by simp, by simp, by simp, hinv.ext.vlen, by simp⟩
        have hsrc0 : ScopeSrc w [] [] := by intro p hp; cases hp
        obtain ⟨b1, e1⟩ := deserGraphF_spec ctx f st [] g st1 g1 [] hgm hgch hr hinv hsc0 hsrc0
        have hsrc := deserGraphF_src w false (rtKnown w ms) f st [] g st1 g1 hr
        obtain ⟨b2, hs2, e2⟩ := ih st1 st2 res2 (fun x hx => hgs x (by simp [hx])) hr2 b1
        refine ⟨b2, ?_, e1.trans e2⟩
        rw [hs2, hsrc]; simp

/-- the result of a successful `deserModel`, with everything the theorems need -/
theorem deserModel_spec {w : World} [hGf : Fresh G w.values.length] (h : DevOK G w) (m : MId) (hir : 11 ≤ (w.model m).irVersion)
    (hcl : Closed w (w.model m)) (hU : NamesChain w (w.model m))
    {protos : List (List PCfg)} (hser : serModelDev w m = some protos) {w' : World}
    (hd : deserModel w m = some w') :
    ∃ (st : DSt) (newm : ModelS), w' = rtFinish st.w newm ∧ DInv G w (w.model m) st ∧
      newm.nodes = st.newNodes ∧ newm.cfgs = rtNewCfgs w (w.model m) ∧ newm.irVersion = (w.model m).irVersion ∧
      st.srcNodes = ((w.model m).roots.map (allNodesF w (w.graphs.length + 1))).flatten ∧
      ∃ extra, st.w.values = w.values ++ extra := by
  have ctx : RTCtx G w (w.model m) := ⟨h, h.model m, hcl, hir, serModelDev_named hser hir⟩
  unfold deserModel at hd
  simp only at hd
  have hgate : decide ((w.model m).irVersion < 11) = false := by
    have : ¬ (w.model m).irVersion < 11 := by omega
    simp [this]
  rw [hgate] at hd
  cases hdg : deserRoots w false (rtKnown w (w.model m)) (w.graphs.length + 1)
      { w := rtWorld0 w (w.model m) } (w.model m).roots with
  | none => simp [hdg] at hd
  | some r =>
    obtain ⟨st, gs'⟩ := r
    simp only [hdg, Option.some.injEq] at hd
    have hinit : DInv G w (w.model m) { w := rtWorld0 w (w.model m) } := by
      refine ⟨?_, rfl, rfl, ⟨[], by simp [rtWorld0], by simp⟩, rfl, by simp⟩
      refine ⟨Nat.le_refl _, fun _ _ => rfl, by simp [rtWorld0], ?_⟩
      intro c hc
      simp [World.cfg, rtWorld0, List.getD_eq_getElem?_getD, List.getElem?_append_left hc]
    obtain ⟨hinv, hsrc, hve⟩ := deserRoots_spec ctx _ _ _ _ _ (fun g hg => ⟨hcl.1 g hg, hU g hg⟩) hdg hinit
    exact ⟨st, _, hd.symm, hinv, rfl, rfl, rfl, by simpa using hsrc, hve.values⟩

theorem NodeRel.of_eq {w a b : World} {nd nd' : NodeS} (h : NodeRel w a nd nd')
    (hv : b.values = a.values) (hc : b.cfgs = a.cfgs) : NodeRel w b nd nd' := by
  have hval : ∀ x, b.value x = a.value x := by intro x; simp [World.value, hv]
  have hcfg : ∀ x, b.cfg x = a.cfg x := by intro x; simp [World.cfg, hc]
  refine All2.imp ?_ h
  intro nc nc' hcr
  refine ⟨by rw [hcfg]; exact hcr.1, hcr.2.1, All2.imp ?_ hcr.2.2⟩
  intro s s' hs
  exact ⟨by rw [hv]; exact hs.1, by rw [hval]; exact hs.2.1, hs.2.2⟩

/-- the configuration objects of the new model are record-for-record copies, in order -/
theorem rtFinish_cfgs {w : World} {ms : ModelS} {st : DSt} (hinv : DInv G w ms st) (hir : 11 ≤ ms.irVersion)
    (newm : ModelS) :
    (rtNewCfgs w ms).map (rtFinish st.w newm).cfg = ms.cfgs.map w.cfg := by
  have hregs : rtRegs ms = ms.cfgs := by simp [rtRegs, hir]
  apply List.ext_getElem
  · simp [rtNewCfgs, hregs]
  · intro i h1 h2
    simp only [rtNewCfgs, List.length_map, List.length_range', hregs] at h1
    simp only [rtNewCfgs, List.getElem_map, List.getElem_range', Nat.one_mul]
    have : World.cfg (rtFinish st.w newm) (w.cfgs.length + i) = (st.w.cfgs[w.cfgs.length + i]?).getD {} := by
      simp [World.cfg, rtFinish, List.getD_eq_getElem?_getD]
    rw [this, hinv.cfgs, List.getElem?_append_right (Nat.le_add_right _ _), hregs]
    simp [h1]

theorem DevOK_rtFinish {w : World} {ms : ModelS} (h : DevOK G w) (hmo : ModelOK w ms) (hir : 11 ≤ ms.irVersion)
    {st : DSt} (hinv : DInv G w ms st) {newm : ModelS} (hnn : newm.nodes = st.newNodes)
    (hnc : newm.cfgs = rtNewCfgs w ms) : DevOK G (rtFinish st.w newm) := by
  obtain ⟨extra, hex, hok⟩ := hinv.nodes
  have hpp := hinv.pairs
  have hps : st.newNodes = (st.srcNodes.zip st.newNodes).map (·.2) := by
    rw [List.map_snd_zip (Nat.le_of_eq hinv.plen.symm)]
  generalize st.srcNodes.zip st.newNodes = ps at hpp hps
  have hextf : Ext w (rtFinish st.w newm) := hinv.ext.trans (Ext.of_eq rfl rfl)
  have hnodef : ∀ n, World.node (rtFinish st.w newm) n = st.w.node n := fun _ => rfl
  have hregs : rtRegs ms = ms.cfgs := by simp [rtRegs, hir]
  have hcopies := rtFinish_cfgs hinv hir newm
  constructor
  · intro nd hnd
    have hnd' : nd ∈ st.w.nodes := hnd
    rw [hex, List.mem_append] at hnd'
    rcases hnd' with h1 | h1
    · exact (h.1 nd h1).ext hextf
    · exact (hok nd h1).1.ext (Ext.of_eq rfl rfl)
  · intro ms' hms'
    have hms'' : ms' ∈ st.w.models ++ [newm] := hms'
    rw [hinv.models, List.mem_append, List.mem_singleton] at hms''
    rcases hms'' with h1 | h1
    · refine (h.2 ms' h1).ext hextf ?_ ?_
      · show w.nodes.length ≤ st.w.nodes.length
        rw [hex]; simp
      · intro n _ hn nc hnc
        have : World.node (rtFinish st.w newm) n = w.node n := by
          rw [hnodef]
          simp [World.node, hex, List.getD_eq_getElem?_getD, List.getElem?_append_left hn]
        rw [this] at hnc
        exact ⟨nc, hnc, rfl⟩
    · subst h1
      refine ⟨?_, ?_, ?_⟩
      · intro n hn
        rw [hnn, hps] at hn
        simp only [List.mem_map] at hn
        obtain ⟨p, hp, rfl⟩ := hn
        obtain ⟨_, hge, hlt, _⟩ := hpp p hp
        refine ⟨hlt, ?_⟩
        intro nc hncm
        have hmem : World.node (rtFinish st.w ms') p.2 ∈ extra := by
          have : World.node (rtFinish st.w ms') p.2 = st.w.nodes[p.2] := by
            rw [hnodef]; simp [World.node, List.getD_eq_getElem?_getD, hlt]
          rw [this]
          have hlt' : p.2 < (w.nodes ++ extra).length := by rw [← hex]; exact hlt
          have : st.w.nodes[p.2] = (w.nodes ++ extra)[p.2] := by simp [hex]
          rw [this, List.getElem_append_right hge]
          exact List.getElem_mem _
        rw [hnc]
        exact (hok _ hmem).2 nc hncm
      · intro c hc
        rw [hnc] at hc
        have hc' : c ∈ List.range' w.cfgs.length (rtRegs ms).length := hc
        rw [List.mem_range'_1] at hc'
        obtain ⟨hc1, hc2⟩ := hc'
        have hi0 : c - w.cfgs.length < (rtRegs ms).length := Nat.sub_lt_left_of_lt_add hc1 hc2
        obtain ⟨i, hi, rfl⟩ : ∃ i, i < (rtRegs ms).length ∧ c = w.cfgs.length + i :=
          ⟨c - w.cfgs.length, hi0, (Nat.add_sub_cancel' hc1).symm⟩
        refine ⟨?_, ?_⟩
        · show w.cfgs.length + i < st.w.cfgs.length
          rw [hinv.cfgs]; simp only [List.length_append, List.length_map]; omega
        · -- the i-th copy has the name of the i-th registered configuration
          have hi' : i < ms.cfgs.length := by rw [← hregs]; exact hi
          have hlen1 : i < ((rtNewCfgs w ms).map (rtFinish st.w ms').cfg).length := by simp [rtNewCfgs, hi]
          have hget : ((rtNewCfgs w ms).map (rtFinish st.w ms').cfg)[i] = (ms.cfgs.map w.cfg)[i]'(by simp [hi']) := by
            simp only [hcopies]
          simp only [rtNewCfgs, List.getElem_map, List.getElem_range', Nat.one_mul] at hget
          rw [hget]
          exact (hmo.2.1 _ (List.getElem_mem hi')).2
      · rw [hnc]
        have : (rtNewCfgs w ms).map (fun c => (World.cfg (rtFinish st.w ms') c).name)
            = (ms.cfgs.map w.cfg).map (·.name) := by
          rw [← hcopies, List.map_map]; rfl
        rw [this, List.map_map]
        exact hmo.2.2

theorem DevOK_roundTrip {w : World} [hGf : Fresh G w.values.length] (h : DevOK G w) (m : MId) (hpre : Pre w (.roundTrip m)) :
    DevOK G (roundTrip w m).1 := by
  obtain ⟨hir, hcl, hU⟩ := hpre
  unfold roundTrip
  cases hser : serModelDev w m with
  | none => exact h
  | some protos =>
    simp only
    cases hd : deserModel w m with
    | none => exact h
    | some w' =>
      obtain ⟨st, newm, rfl, hinv, hnn, hnc, _, _, _⟩ := deserModel_spec h m hir hcl hU hser hd
      exact DevOK_rtFinish h (h.model m) hir hinv hnn hnc


end IrVerif.Device.Wk

/-
C15 part B: the declarative ownership rule implies the (operational) scoping rule used by the
NameFixPass theorems.
-/
import IrVerif.Lemmas.NamesModel
namespace IrVerif.Names

theorem wellOwned_bodyVis (iv : Nat → List Nat) : ∀ (t : Tr) (V : List Nat), wellOwnedB iv t V = true →
    ∀ x ∈ bodyVis t V, x ∈ V := by
  intro t
  induction t with
  | nil => intro V _ x h; exact h
  | node n ins outs subs rest ihs ihr =>
    intro V h x hx
    simp only [wellOwnedB, Bool.and_eq_true, List.all_eq_true] at h
    obtain ⟨⟨h1, h2⟩, h3⟩ := h
    simp only [bodyVis] at hx
    have := ihs _ h2 x (ihr _ h3 x hx)
    rcases List.mem_append.mp this with h | h
    · exact h
    · simpa using h1 x h
  | graph g isG ins outs body rest _ ihr =>
    intro V h x hx
    simp only [wellOwnedB, Bool.and_eq_true] at h
    simp only [bodyVis] at hx
    exact ihr _ h.2 x hx

/-- values met by the traversal are owned by a graph entered so far -/
theorem scoped_of_wellOwned (iv : Nat → List Nat) : ∀ (t : Tr) (S V E : List Nat),
    (∀ x ∈ S, x ∈ E) → (∀ x ∈ V, x ∈ E) → wellOwnedB iv t V = true →
    (∀ L ∈ ownedLists iv t, ∀ x ∈ L, x ∉ E) → (ownedLists iv t).Pairwise DisjointL →
    scopedB iv t S V = true ∧ ∀ x ∈ seenAfter iv t S, x ∈ E ∨ ∃ L ∈ ownedLists iv t, x ∈ L := by
  intro t
  induction t with
  | nil => intro S V E hS _ _ _ _; exact ⟨rfl, fun x hx => Or.inl (hS x hx)⟩
  | node n ins outs subs rest ihs ihr =>
    intro S V E hS hV hw hE hP
    simp only [wellOwnedB, Bool.and_eq_true, List.all_eq_true] at hw
    obtain ⟨⟨h1, h2⟩, h3⟩ := hw
    have hnv : ∀ x ∈ nodeVals ins outs, x ∈ V := fun x hx => by simpa using h1 x hx
    simp only [ownedLists, List.pairwise_append] at hP
    obtain ⟨hPs, hPr, hPd⟩ := hP
    simp only [ownedLists, List.mem_append] at hE
    obtain ⟨s1, a1⟩ := ihs (S ++ nodeVals ins outs) (V ++ nodeVals ins outs) E
      (fun x hx => (List.mem_append.mp hx).elim (hS x) (fun h => hV x (hnv x h)))
      (fun x hx => (List.mem_append.mp hx).elim (hV x) (fun h => hV x (hnv x h)))
      h2 (fun L hL => hE L (Or.inl hL)) hPs
    -- for the following nodes: everything owned under `subs` counts as entered
    obtain ⟨s2, a2⟩ := ihr (seenAfter iv subs (S ++ nodeVals ins outs)) (bodyVis subs (V ++ nodeVals ins outs))
      (E ++ (ownedLists iv subs).flatten)
      (fun x hx => by
        rcases a1 x hx with h | ⟨L, hL, h⟩
        · exact List.mem_append_left _ h
        · exact List.mem_append_right _ (List.mem_flatten.mpr ⟨L, hL, h⟩))
      (fun x hx => by
        have := wellOwned_bodyVis iv subs _ h2 x hx
        exact List.mem_append_left _ ((List.mem_append.mp this).elim (hV x) (fun h => hV x (hnv x h))))
      h3
      (fun L hL x hx hin => by
        rcases List.mem_append.mp hin with h | h
        · exact hE L (Or.inr hL) x hx h
        · obtain ⟨L', hL', hx'⟩ := List.mem_flatten.mp h
          exact hPd L' hL' L hL x hx' hx)
      hPr
    refine ⟨?_, ?_⟩
    · simp only [scopedB, Bool.and_eq_true, List.all_eq_true]
      refine ⟨⟨?_, s1⟩, s2⟩
      intro v hv
      have := hnv v hv
      simp [this]
    · intro x hx
      simp only [seenAfter] at hx
      simp only [ownedLists, List.mem_append]
      rcases a2 x hx with h | ⟨L, hL, h⟩
      · rcases List.mem_append.mp h with h | h
        · exact Or.inl h
        · obtain ⟨L', hL', hx'⟩ := List.mem_flatten.mp h
          exact Or.inr ⟨L', Or.inl hL', hx'⟩
      · exact Or.inr ⟨L, Or.inr hL, h⟩
  | graph g isG ins outs body rest ihb ihr =>
    intro S V E hS hV hw hE hP
    simp only [wellOwnedB, Bool.and_eq_true] at hw
    simp only [ownedLists, List.pairwise_cons, List.pairwise_append, List.mem_append] at hP
    obtain ⟨hP0, hPb, hPr, hPd⟩ := hP
    simp only [ownedLists, List.mem_cons, List.mem_append] at hE
    have hgvE : ∀ x ∈ gvals iv g isG ins outs (bodyOuts body), x ∉ E := fun x hx => hE _ (Or.inl rfl) x hx
    obtain ⟨s1, a1⟩ := ihb (S ++ gvals iv g isG ins outs (bodyOuts body)) (V ++ gvals iv g isG ins outs (bodyOuts body))
      (E ++ gvals iv g isG ins outs (bodyOuts body))
      (fun x hx => (List.mem_append.mp hx).elim (fun h => List.mem_append_left _ (hS x h)) (List.mem_append_right _))
      (fun x hx => (List.mem_append.mp hx).elim (fun h => List.mem_append_left _ (hV x h)) (List.mem_append_right _))
      hw.1
      (fun L hL x hx hin => by
        rcases List.mem_append.mp hin with h | h
        · exact hE L (Or.inr (Or.inl hL)) x hx h
        · exact hP0 L (Or.inl hL) x h hx)
      hPb
    obtain ⟨s2, a2⟩ := ihr (seenAfter iv body (S ++ gvals iv g isG ins outs (bodyOuts body))) V
      (E ++ gvals iv g isG ins outs (bodyOuts body) ++ (ownedLists iv body).flatten)
      (fun x hx => by
        rcases a1 x hx with h | ⟨L, hL, h⟩
        · exact List.mem_append_left _ h
        · exact List.mem_append_right _ (List.mem_flatten.mpr ⟨L, hL, h⟩))
      (fun x hx => List.mem_append_left _ (List.mem_append_left _ (hV x hx)))
      hw.2
      (fun L hL x hx hin => by
        rcases List.mem_append.mp hin with h | h
        · rcases List.mem_append.mp h with h | h
          · exact hE L (Or.inr (Or.inr hL)) x hx h
          · exact hP0 L (Or.inr hL) x h hx
        · obtain ⟨L', hL', hx'⟩ := List.mem_flatten.mp h
          exact hPd L' hL' L hL x hx' hx)
      hPr
    refine ⟨?_, ?_⟩
    · simp only [scopedB, Bool.and_eq_true, List.all_eq_true]
      refine ⟨⟨?_, s1⟩, s2⟩
      intro v hv
      have : v ∉ S := fun h => hgvE v hv (hS v h)
      simp [this]
    · intro x hx
      simp only [seenAfter] at hx
      simp only [ownedLists, List.mem_cons, List.mem_append]
      rcases a2 x hx with h | ⟨L, hL, h⟩
      · rcases List.mem_append.mp h with h | h
        · rcases List.mem_append.mp h with h | h
          · exact Or.inl h
          · exact Or.inr ⟨_, Or.inl rfl, h⟩
        · obtain ⟨L', hL', hx'⟩ := List.mem_flatten.mp h
          exact Or.inr ⟨L', Or.inr (Or.inl hL'), hx'⟩
      · exact Or.inr ⟨L, Or.inr (Or.inr hL), h⟩

end IrVerif.Names

/-
Serializing the reloaded model gives the same proto, for every reloadable model: `serGraph` only reads
names (of every value it mentions) and type / shape / documentation / tensors of the values it emits.
-/
import IrVerif.Lemmas.ScopeReplMain
import IrVerif.Lemmas.ScopeIdem
namespace IrVerif.Scope

/-! ### inversion of the serializer, with the facts about names -/

theorem serGraph_names {V : Nat → ValueS} {td : TData} {gid : Nat} {ins : List Nat} {inits : List (Name × Nat)}
    {nodes : List NodeT} {outs : List Nat} {p : GraphP} {ws : Writes}
    (h : serGraph V td (.mk gid ins inits nodes outs) = .ok (p, ws)) :
    (∀ v ∈ ins, (V v).name ≠ none) ∧ (∀ v ∈ outs, (V v).name ≠ none) := by
  simp only [serGraph] at h
  split at h
  · simp at h
  · rename_i insP hi
    split at h
    · simp at h
    · split at h
      · simp at h
      · rename_i outsP ho
        exact ⟨(serValues_ok hi).2, (serValues_ok ho).2⟩

theorem serNode_names {V : Nat → ValueS} {td : TData} {go : List Nat} {i : Nat} {g : Option Nat}
    {ins : List (Option Nat)} {outs : List Nat} {subs : List GraphT} {np : NodeP} {vi : List VInfoP} {ws : Writes}
    (h : serNode V td go (.mk i g ins outs subs) = .ok (np, vi, ws)) :
    (∀ v, some v ∈ ins → (V v).name ≠ none) ∧ (∀ v ∈ stripTrailing V outs, (V v).name ≠ none) := by
  simp only [serNode] at h
  split at h
  · simp at h
  · rename_i insN hi
    split at h
    · simp at h
    · rename_i outsN ho
      exact ⟨(serInputs_ok hi).2, (serOutNames_ok ho).2⟩

theorem img2_serInputs {V V' : Nat → ValueS} {A : Assoc}
    (hn : ∀ v ∈ A.map (·.1), (V' (sig A v)).name = (V v).name) :
    ∀ (ins : List (Option Nat)), (∀ v, some v ∈ ins → v ∈ A.map (·.1) ∧ (V v).name ≠ none) →
      serInputs V' (ins.map (Option.map (sig A))) = .ok (ins.map (inName V)) := by
  intro ins hU
  rw [serInputs_of_names (V := V') (ins := ins.map (Option.map (sig A))) (fun w hw => by
    simp only [List.mem_map] at hw
    obtain ⟨o, ho, he⟩ := hw
    cases o with
    | none => simp at he
    | some v =>
      simp only [Option.map_some, Option.some.injEq] at he
      subst he
      rw [hn v (hU v ho).1]; exact (hU v ho).2)]
  congr 1
  rw [List.map_map]
  apply List.map_congr_left
  intro o ho
  cases o with
  | none => rfl
  | some v => simp [inName, nm, hn v (hU v ho).1]

theorem img2_stripTrailing {V V' : Nat → ValueS} {A : Assoc}
    (hn : ∀ v ∈ A.map (·.1), (V' (sig A v)).name = (V v).name) :
    ∀ (l : List Nat), (∀ v ∈ l, v ∈ A.map (·.1)) → stripTrailing V' (l.map (sig A)) = (stripTrailing V l).map (sig A) := by
  intro l
  induction l with
  | nil => intro _; rfl
  | cons a r ih =>
    intro hU
    have ih' := ih (fun v hv => hU v (by simp [hv]))
    simp only [List.map_cons, stripTrailing, ih']
    cases hs : stripTrailing V r with
    | nil => simp [hn a (hU a (by simp))]; split <;> simp
    | cons b t => simp

theorem img2_serOutNames {V V' : Nat → ValueS} {A : Assoc}
    (hn : ∀ v ∈ A.map (·.1), (V' (sig A v)).name = (V v).name) :
    ∀ (vs : List Nat), (∀ v ∈ vs, v ∈ A.map (·.1)) → (∀ v ∈ vs, (V v).name ≠ none) →
      serOutNames V' (vs.map (sig A)) = .ok (vs.map (nm V)) := by
  intro vs hU hne
  rw [serOutNames_of_names (V := V') (vs := vs.map (sig A)) (fun w hw => by
    simp only [List.mem_map] at hw
    obtain ⟨v, hv, rfl⟩ := hw
    rw [hn v (hU v hv)]; exact hne v hv)]
  congr 1
  rw [List.map_map]
  exact List.map_congr_left (fun v hv => by simp [nm, hn v (hU v hv)])

/-- the value_info entries of node outputs: only named outputs have one, so only their information
    matters -/
theorem img2_outVInfo {V V' : Nat → ValueS} {A : Assoc} {E : List Nat} (h : Img V V' (sig A) E)
    (hn : ∀ v ∈ A.map (·.1), (V' (sig A v)).name = (V v).name)
    (hinj : ∀ a ∈ A.map (·.1), ∀ b ∈ A.map (·.1), sig A a = sig A b → a = b)
    (gouts : List Nat) (hg : ∀ v ∈ gouts, v ∈ A.map (·.1)) :
    ∀ (l : List Nat), (∀ v ∈ l, v ∈ A.map (·.1)) → (∀ v ∈ l, nameTruthy (V v).name = true → v ∈ E) →
      outVInfo V' (gouts.map (sig A)) (l.map (sig A)) = outVInfo V gouts l := by
  intro l
  induction l with
  | nil => intro _ _; rfl
  | cons a r ih =>
    intro hK hE
    have ha := hK a (by simp)
    have ih' := ih (fun v hv => hK v (by simp [hv])) (fun v hv => hE v (by simp [hv]))
    simp only [List.map_cons, outVInfo, ih']
    have hc : (gouts.map (sig A)).contains (sig A a) = gouts.contains a := by
      simp only [List.contains_eq_mem, List.mem_map, decide_eq_decide]
      constructor
      · rintro ⟨b, hb, he⟩
        rw [← hinj b (hg b hb) a ha he]; exact hb
      · exact fun hm => ⟨a, hm, rfl⟩
    rw [hc]
    by_cases ht : nameTruthy (V a).name = true
    · have haE := hE a (by simp) ht
      simp only [h.shouldCreate haE, h.name a haE, h.info a haE, emit_emit]
    · have hf : nameTruthy (V a).name = false := by simpa using ht
      have h1 : shouldCreate (V a) = false := by simp [shouldCreate, hf]
      have h2 : shouldCreate (V' (sig A a)) = false := by simp [shouldCreate, hn a ha, hf]
      simp [h1, h2]

/-- what the second serialization needs to know about the tensors of the initializers -/
def ConstImg (V V' : Nat → ValueS) (td td' : TData) (σ : Nat → Nat) (I : List (Name × Nat)) : Prop :=
  ∀ kv ∈ I, (V kv.2).const ≠ none ∧
    ∀ t, (V kv.2).const = some t → ∃ t', (V' (σ kv.2)).const = some t' ∧ td' t' = td t

mutual
theorem img2_serGraph {V V' : Nat → ValueS} {td td' : TData} {A : Assoc} {E : List Nat} (h : Img V V' (sig A) E)
    (hn : ∀ v ∈ A.map (·.1), (V' (sig A v)).name = (V v).name)
    (hinj : ∀ a ∈ A.map (·.1), ∀ b ∈ A.map (·.1), sig A a = sig A b → a = b) :
    ∀ (g g' : GraphT) (p : GraphP) (ws : Writes), TreeRelG V A g g' → (∀ v ∈ emitG V g, v ∈ E) →
      ConstImg V V' td td' (sig A) (allInitsG g) →
      serGraph V td g = .ok (p, ws) → ∃ ws', serGraph V' td' g' = .ok (p, ws')
  | .mk _ ins inits nodes outs, .mk _ ins' inits' nodes' outs', p, ws, ht, hE, hc, hser => by
    simp only [TreeRelG] at ht
    obtain ⟨rfl, _, rfl, _, htn, rfl, houtK⟩ := ht
    obtain ⟨hins_n, houts_n⟩ := serGraph_names hser
    obtain ⟨nps, vis2, ws2, hn', rfl⟩ := serGraph_inv hser
    have hinsU : ∀ v ∈ ins, v ∈ E := fun v hv => hE v (by simp [emitG, hv])
    have hinitU : ∀ kv ∈ inits, kv.2 ∈ E := fun kv hkv => hE _ (by
      simp only [emitG, List.mem_append, List.mem_map]
      exact .inl (.inl (.inl (.inr ⟨kv, hkv, rfl⟩))))
    have houtU : ∀ v ∈ outs, v ∈ E := fun v hv => hE v (by simp [emitG, hv])
    have hliveU : ∀ v ∈ nodes.flatMap (liveOuts V), nameTruthy (V v).name = true → v ∈ E := fun v hv ht => hE v (by
      simp only [emitG, List.mem_append, List.mem_filter]
      exact .inl (.inl (.inr ⟨hv, ht⟩)))
    have e1 := img_serValues h ins hinsU hins_n
    have e5 := img_serValues h outs houtU houts_n
    have hnames : (ins.map (sig A)).map (fun v => (V' v).name) = ins.map (fun v => (V v).name) := by
      rw [List.map_map]
      exact List.map_congr_left (fun v hv => h.name v (hinsU v hv))
    obtain ⟨e2, e3⟩ := img_serInits (td := td) (td' := td') h (ins.map fun v => (V v).name) inits hinitU
      (fun kv hkv => (hc kv (by simp [allInitsG, hkv])).1) (fun kv hkv => (hc kv (by simp [allInitsG, hkv])).2)
    obtain ⟨ws2', e4⟩ := img2_serNodes h hn hinj nodes nodes' outs nps vis2 ws2 htn houtK hliveU
      (fun v hv => hE v (by simp [emitG, hv]))
      (fun kv hkv => hc kv (by simp [allInitsG, hkv])) hn'
    exact ⟨_, by simp only [serGraph, e1, hnames, e2, e3, e4, e5]; rfl⟩
theorem img2_serNodes {V V' : Nat → ValueS} {td td' : TData} {A : Assoc} {E : List Nat} (h : Img V V' (sig A) E)
    (hn : ∀ v ∈ A.map (·.1), (V' (sig A v)).name = (V v).name)
    (hinj : ∀ a ∈ A.map (·.1), ∀ b ∈ A.map (·.1), sig A a = sig A b → a = b) :
    ∀ (ns ns' : List NodeT) (gouts : List Nat) (nps : List NodeP) (vi : List VInfoP) (ws : Writes),
      TreeRelNs V A ns ns' → (∀ v ∈ gouts, v ∈ A.map (·.1)) →
      (∀ v ∈ ns.flatMap (liveOuts V), nameTruthy (V v).name = true → v ∈ E) → (∀ v ∈ emitSubNs V ns, v ∈ E) →
      ConstImg V V' td td' (sig A) (allInitsNs ns) →
      serNodes V td gouts ns = .ok (nps, vi, ws) →
      ∃ ws', serNodes V' td' (gouts.map (sig A)) ns' = .ok (nps, vi, ws')
  | [], [], _, nps, vi, ws, _, _, _, _, _, hser => by
    simp only [serNodes, Except.ok.injEq, Prod.mk.injEq] at hser
    obtain ⟨rfl, rfl, _⟩ := hser
    exact ⟨[], rfl⟩
  | n :: ns, n' :: ns', gouts, nps, vi, ws, ht, hg, hL, hU, hc, hser => by
    simp only [TreeRelNs] at ht
    simp only [serNodes] at hser
    split at hser
    · simp at hser
    · rename_i np vi1 ws1 h1
      split at hser
      · simp at hser
      · rename_i nps' vis' ws2 h2
        simp only [Except.ok.injEq, Prod.mk.injEq] at hser
        obtain ⟨rfl, rfl, _⟩ := hser
        obtain ⟨w1, e1⟩ := img2_serNode h hn hinj n n' gouts np vi1 ws1 ht.1 hg
          (fun v hv => hL v (by simp [hv]))
          (fun v hv => hU v (by simp [emitSubNs, hv])) (fun kv hkv => hc kv (by simp [allInitsNs, hkv])) h1
        obtain ⟨w2, e2⟩ := img2_serNodes h hn hinj ns ns' gouts nps' vis' ws2 ht.2 hg
          (fun v hv => hL v (by simp [hv]))
          (fun v hv => hU v (by simp [emitSubNs, hv])) (fun kv hkv => hc kv (by simp [allInitsNs, hkv])) h2
        exact ⟨_, by simp only [serNodes, e1, e2]; rfl⟩
  | [], _ :: _, _, _, _, _, ht, _, _, _, _, _ => by simp [TreeRelNs] at ht
  | _ :: _, [], _, _, _, _, ht, _, _, _, _, _ => by simp [TreeRelNs] at ht
theorem img2_serNode {V V' : Nat → ValueS} {td td' : TData} {A : Assoc} {E : List Nat} (h : Img V V' (sig A) E)
    (hn : ∀ v ∈ A.map (·.1), (V' (sig A v)).name = (V v).name)
    (hinj : ∀ a ∈ A.map (·.1), ∀ b ∈ A.map (·.1), sig A a = sig A b → a = b) :
    ∀ (n n' : NodeT) (gouts : List Nat) (np : NodeP) (vi : List VInfoP) (ws : Writes),
      TreeRelN V A n n' → (∀ v ∈ gouts, v ∈ A.map (·.1)) →
      (∀ v ∈ liveOuts V n, nameTruthy (V v).name = true → v ∈ E) → (∀ v ∈ emitSubN V n, v ∈ E) →
      ConstImg V V' td td' (sig A) (allInitsN n) →
      serNode V td gouts n = .ok (np, vi, ws) → ∃ ws', serNode V' td' (gouts.map (sig A)) n' = .ok (np, vi, ws')
  | .mk _ _ ins outs subs, .mk _ _ ins' outs' subs', gouts, np, vi, ws, ht, hg, hL, hU, hc, hser => by
    simp only [TreeRelN] at ht
    obtain ⟨rfl, hinK, rfl, hliveK, hts⟩ := ht
    obtain ⟨hins_n, hlive_n⟩ := serNode_names hser
    obtain ⟨gps, ws', hs, rfl, rfl⟩ := serNode_inv hser
    simp only [liveOuts] at hL
    have e1 := img2_serInputs hn ins (fun v hv => ⟨hinK v hv, hins_n v hv⟩)
    have e2 : stripTrailing V' ((stripTrailing V outs).map (sig A)) = (stripTrailing V outs).map (sig A) := by
      rw [img2_stripTrailing hn _ hliveK, stripTrailing_idem]
    have e3 := img2_serOutNames hn (stripTrailing V outs) hliveK hlive_n
    obtain ⟨ws'', e4⟩ := img2_serSubs h hn hinj subs subs' gps ws' hts
      (fun v hv => hU v (by simpa [emitSubN] using hv)) (fun kv hkv => hc kv (by simpa [allInitsN] using hkv)) hs
    have e5 : outVInfo V' (gouts.map (sig A)) ((stripTrailing V outs).map (sig A)) = outVInfo V gouts outs := by
      rw [img2_outVInfo h hn hinj gouts hg _ hliveK hL, outVInfo_strip]
    exact ⟨_, by simp only [serNode, e1, e2, e3, e4, e5]; rfl⟩
theorem img2_serSubs {V V' : Nat → ValueS} {td td' : TData} {A : Assoc} {E : List Nat} (h : Img V V' (sig A) E)
    (hn : ∀ v ∈ A.map (·.1), (V' (sig A v)).name = (V v).name)
    (hinj : ∀ a ∈ A.map (·.1), ∀ b ∈ A.map (·.1), sig A a = sig A b → a = b) :
    ∀ (gs gs' : List GraphT) (gps : List GraphP) (ws : Writes),
      TreeRelGs V A gs gs' → (∀ v ∈ emitGs V gs, v ∈ E) →
      ConstImg V V' td td' (sig A) (allInitsGs gs) →
      serSubs V td gs = .ok (gps, ws) → ∃ ws', serSubs V' td' gs' = .ok (gps, ws')
  | [], [], gps, ws, _, _, _, hser => by
    simp only [serSubs, Except.ok.injEq, Prod.mk.injEq] at hser
    obtain ⟨rfl, _⟩ := hser
    exact ⟨[], rfl⟩
  | g :: gs, g' :: gs', gps, ws, ht, hU, hc, hser => by
    simp only [TreeRelGs] at ht
    obtain ⟨gp, ws1, gps', ws2, h1, h2, rfl⟩ := serSubs_inv hser
    obtain ⟨w1, e1⟩ := img2_serGraph h hn hinj g g' gp ws1 ht.1
      (fun v hv => hU v (by simp [emitGs, hv])) (fun kv hkv => hc kv (by simp [allInitsGs, hkv])) h1
    obtain ⟨w2, e2⟩ := img2_serSubs h hn hinj gs gs' gps' ws2 ht.2
      (fun v hv => hU v (by simp [emitGs, hv])) (fun kv hkv => hc kv (by simp [allInitsGs, hkv])) h2
    exact ⟨_, by simp only [serSubs, e1, e2]; rfl⟩
  | [], _ :: _, _, _, ht, _, _, _ => by simp [TreeRelGs] at ht
  | _ :: _, [], _, _, ht, _, _, _ => by simp [TreeRelGs] at ht
end

/-! ### a reloadable model can be serialized -/

theorem replRes_truthy (V : Nat → ValueS) (outer : List Table) : ∀ (ins : List (Option Nat)) (T : Table),
    (replRes V outer T ins).ok → ∀ v, some v ∈ ins → nameTruthy (V v).name = true := by
  intro ins
  induction ins with
  | nil => intro T _ v hv; simp at hv
  | cons a r ih =>
    intro T hok v hv
    cases a with
    | none =>
      simp only [replRes] at hok
      simp only [List.mem_cons] at hv
      rcases hv with hv | hv
      · cases hv
      · exact ih T hok v hv
    | some u =>
      simp only [replRes] at hok
      simp only [List.mem_cons, Option.some.injEq] at hv
      split at hok
      · rcases hv with rfl | hv
        · exact hok.1
        · exact ih T hok.2.2 v hv
      · rcases hv with rfl | hv
        · exact hok.1
        · exact ih _ hok.2 v hv

theorem replOuts_names (V : Nat → ValueS) (T : Table) : ∀ (outs : List Nat),
    (replOuts V T outs).ok → ∀ v ∈ outs, (V v).name ≠ none := by
  intro outs
  induction outs with
  | nil => intro _ v hv; simp at hv
  | cons a r ih =>
    intro hok v hv
    simp only [replOuts] at hok
    simp only [List.mem_cons] at hv
    split at hok
    · rcases hv with rfl | hv
      · exact hok.1
      · exact ih hok.2.2 v hv
    · rcases hv with rfl | hv
      · exact hok.1
      · exact ih hok.2 v hv

mutual
theorem replG_ser_ok (V : Nat → ValueS) (td : TData) :
    ∀ (g : GraphT) (outer : List Table), (replG V outer g).ok → ∃ p ws, serGraph V td g = .ok (p, ws)
  | .mk gid ins inits nodes outs, outer, h => by
    simp only [replG] at h
    obtain ⟨hins, _, _, _, hN, hO⟩ := h
    obtain ⟨nps, vis, ws, hn⟩ := replNs_ser_ok V td nodes outer _ outs hN
    have h1 := serValues_of_names (V := V) (vs := ins) hins
    have h2 := serValues_of_names (V := V) (vs := outs) (replOuts_names V _ outs hO)
    exact ⟨_, _, by simp only [serGraph, h1, hn, h2]; rfl⟩
theorem replNs_ser_ok (V : Nat → ValueS) (td : TData) :
    ∀ (ns : List NodeT) (outer : List Table) (T : Table) (gouts : List Nat), (replNs V outer T ns).ok →
      ∃ nps vi ws, serNodes V td gouts ns = .ok (nps, vi, ws)
  | [], _, _, _, _ => ⟨[], [], [], rfl⟩
  | n :: ns, outer, T, gouts, h => by
    simp only [replNs] at h
    obtain ⟨np, vi1, ws1, h1⟩ := replN_ser_ok V td n outer T gouts h.1
    obtain ⟨nps, vi2, ws2, h2⟩ := replNs_ser_ok V td ns outer _ gouts h.2
    exact ⟨_, _, _, by simp only [serNodes, h1, h2]; rfl⟩
theorem replN_ser_ok (V : Nat → ValueS) (td : TData) :
    ∀ (n : NodeT) (outer : List Table) (T : Table) (gouts : List Nat), (replN V outer T n).ok →
      ∃ np vi ws, serNode V td gouts n = .ok (np, vi, ws)
  | .mk i g ins outs subs, outer, T, gouts, h => by
    simp only [replN] at h
    obtain ⟨hR, houts, _, hS⟩ := h
    obtain ⟨gps, ws, hs⟩ := replGs_ser_ok V td subs _ hS
    have h1 := serInputs_of_names (V := V) (ins := ins)
      (fun v hv => ne_none_of_truthy (replRes_truthy V outer ins T hR v hv))
    have h2 := serOutNames_of_names (V := V) (vs := stripTrailing V outs) houts
    exact ⟨_, _, _, by simp only [serNode, h1, h2, hs]; rfl⟩
theorem replGs_ser_ok (V : Nat → ValueS) (td : TData) :
    ∀ (gs : List GraphT) (scopes : List Table), (replGs V scopes gs).ok → ∃ gps ws, serSubs V td gs = .ok (gps, ws)
  | [], _, _ => ⟨[], [], rfl⟩
  | g :: gs, scopes, h => by
    simp only [replGs] at h
    obtain ⟨gp, ws1, h1⟩ := replG_ser_ok V td g scopes h.1
    obtain ⟨gps, ws2, h2⟩ := replGs_ser_ok V td gs scopes h.2
    exact ⟨_, _, by simp only [serSubs, h1, h2]; rfl⟩
end

/-! ### the round trip of a reloadable model -/

/-- the reloaded model: same tree up to the renaming `sig B` of the values the deserializer introduces,
    same names, same serializable information of every emitted value, same initializer tensors -/
theorem reloadable_roundtrip (w : World) (h : Reloadable w) :
    ∃ (p : GraphP) (ws : Writes) (D : World) (B : Assoc),
      serGraph w.st.vals w.st.tdata w.root = .ok (p, ws) ∧ deserialize p = .ok D ∧
      RS w.st.vals D.st B ∧ B.map (·.1) = (replG w.st.vals [] w.root).new ∧
      TreeRelG w.st.vals B w.root D.root ∧ InfoOK2 w.st.vals D.st B (emitG w.st.vals w.root) ∧
      ConstOK2 w.st.vals w.st.tdata D.st B (allInitsG w.root) := by
  obtain ⟨hok, hnd⟩ := h
  obtain ⟨p, ws, hp⟩ := replG_ser_ok w.st.vals w.st.tdata w.root [] hok
  obtain ⟨s', g', B, hd, hrs, _, hk, ht, _, _, hio, hco⟩ := rt2_graph w.st.vals w.st.tdata w.root {} [] [] p ws hp
    hok hnd (fun _ _ => by simp) (fun _ hT => by simp at hT)
    ⟨by simp, fun _ he => by simp at he, by simp, fun _ he => by simp at he⟩ (fun _ _ => rfl)
  simp only [List.map_nil, List.nil_append] at hd hrs ht hio hco
  exact ⟨p, ws, ⟨s', g'⟩, B, hp, by simp only [deserialize, hd], hrs, hk, ht, hio, hco⟩

/-- serializing the reloaded model gives the proto it was read from -/
theorem reloadable_fixpoint (w : World) (h : Reloadable w) :
    ∃ (w1 : World) (q : GraphP) (D : World) (w2 : World),
      serialize w = .ok (w1, q) ∧ deserialize q = .ok D ∧ serialize D = .ok (w2, q) := by
  obtain ⟨q, ws, D, B, hq, hD, hrs, _, ht, hio, hco⟩ := reloadable_roundtrip w h
  have hn : ∀ v ∈ B.map (·.1), (D.st.vals (sig B v)).name = (w.st.vals v).name := fun v hv => hrs.sig_name hv
  have himg : Img w.st.vals D.st.vals (sig B) (emitG w.st.vals w.root) :=
    ⟨fun v hv => hn v (hio v hv).1, fun v hv => (hio v hv).2,
      fun a ha b hb he => hrs.sig_inj (hio a ha).1 (hio b hb).1 he⟩
  obtain ⟨ws', hq'⟩ := img2_serGraph (td := w.st.tdata) (td' := D.st.tdata) himg hn
    (fun a ha b hb he => hrs.sig_inj ha hb he) w.root D.root q ws ht
    (fun _ hv => hv)
    (fun kv hkv => by
      obtain ⟨_, hne, hc⟩ := hco kv hkv
      refine ⟨hne, fun t ht => ?_⟩
      obtain ⟨t', h1, _, _, h4⟩ := hc t ht
      exact ⟨t', h1, h4⟩) hq
  exact ⟨⟨w.st.writes ws, w.root⟩, q, D, ⟨D.st.writes ws', D.root⟩, by simp only [serialize, hq], hD,
    by simp only [serialize, hq']⟩

end IrVerif.Scope

/-
Helper development for the strided-memory theorems of C04 (`Model/Strided.lean`): the row-major
specification (`indices`, `addr`, `unravel`) and its relation to the copy walk `gather`.
-/
import IrVerif.Model.Strided
import IrVerif.Lemmas.TensorReprAgree
namespace IrVerif.Strided
open IrVerif.Pack IrVerif.TensorRepr

/-! ## Specification side -/

/-- all multi-indices of an array of the given shape, in lexicographic = row-major order -/
def indices : List Nat → List (List Nat)
  | [] => [[]]
  | n :: ns => (List.range n).flatMap (fun i => (indices ns).map (i :: ·))

/-- the byte address of the element with the given multi-index: `base + Σ index_k * stride_k` -/
def addr : List Int → Int → List Nat → Int
  | st :: sts, p, i :: is => addr sts (p + (i : Int) * st) is
  | _, p, _ => p

/-- the multi-index of the `k`-th element in row-major order (`np.unravel_index`) -/
def unravel : List Nat → Nat → List Nat
  | [], _ => []
  | _ :: ns, k => (k / prod ns) :: unravel ns (k % prod ns)

/-- the item bytes of the logical element at a multi-index -/
def Arr.itemAt (a : Arr) (idx : List Nat) : List Nat := item a.storage a.itemsize (addr a.strides a.offset idx)

/-- the value (bit pattern) of the logical element at a multi-index -/
def Arr.valueAt (a : Arr) (idx : List Nat) : Nat := ofLeBytes (leItem a.bigEndian a.complex (a.itemAt idx))

/-! ## `gather` is the row-major enumeration -/

theorem gather_eq (storage : List Nat) (isz : Nat) (shape : List Nat) :
    ∀ (strides : List Int) (p : Int), strides.length = shape.length →
      gather storage isz shape strides p = (indices shape).map (fun idx => item storage isz (addr strides p idx)) := by
  induction shape with
  | nil => intro strides p _; cases strides <;> simp [gather, indices, addr]
  | cons n ns ih =>
    intro strides p h
    cases strides with
    | nil => simp at h
    | cons st sts =>
      have hl : sts.length = ns.length := by simpa using h
      simp only [gather, indices, List.map_flatMap, List.map_map]
      congr 1
      funext i
      rw [ih sts _ hl]
      apply List.map_congr_left
      intro idx _
      simp [addr]

theorem length_flatMap_range (n P : Nat) {α : Type} (f : Nat → List α) (h : ∀ i, (f i).length = P) :
    ((List.range n).flatMap f).length = n * P := by
  induction n with
  | zero => simp
  | succ n ih => rw [List.range_succ, List.flatMap_append, List.length_append, ih]; simp [h, Nat.succ_mul]

theorem indices_length (shape : List Nat) : (indices shape).length = prod shape := by
  induction shape with
  | nil => rfl
  | cons n ns ih =>
    simp only [indices]
    rw [length_flatMap_range n (prod ns)]
    · rfl
    · intro i; simp [ih]

theorem getElem?_flatMap_range {α : Type} (f : Nat → List α) (P : Nat) (h : ∀ i, (f i).length = P) :
    ∀ (n k : Nat), k < n * P → ((List.range n).flatMap f)[k]? = (f (k / P))[k % P]? := by
  intro n
  induction n with
  | zero => intro k hk; simp at hk
  | succ n ih =>
    intro k hk
    rw [List.range_succ, List.flatMap_append]
    have hlen := length_flatMap_range n P f h
    by_cases hlt : k < n * P
    · rw [List.getElem?_append_left (by omega)]
      exact ih k hlt
    · have hge : n * P ≤ k := by omega
      rw [List.getElem?_append_right (by omega), hlen]
      have hk' : k < (n + 1) * P := hk
      have hd : k / P = n := Nat.div_eq_of_lt_le hge hk'
      have hm : k % P = k - n * P := by
        have := Nat.div_add_mod k P
        rw [hd, Nat.mul_comm] at this
        omega
      simp [hd, hm]

theorem indices_getElem (shape : List Nat) : ∀ k, k < prod shape → (indices shape)[k]? = some (unravel shape k) := by
  induction shape with
  | nil => intro k hk; have : k = 0 := by simp [prod] at hk; omega
           subst this; rfl
  | cons n ns ih =>
    intro k hk
    have hk' : k < n * prod ns := hk
    simp only [indices]
    rw [getElem?_flatMap_range _ (prod ns) (by intro i; simp [indices_length]) n k hk']
    have hP : 0 < prod ns := by
      cases h : prod ns with
      | zero => rw [h] at hk'; simp at hk'
      | succ m => omega
    rw [List.getElem?_map, ih (k % prod ns) (Nat.mod_lt _ hP)]
    rfl

/-! ## bytes and values -/

theorem ofLeBytes_lt : ∀ bs : List Nat, (∀ b ∈ bs, b < 256) → ofLeBytes bs < 256 ^ bs.length
  | [], _ => by simp [ofLeBytes]
  | b :: bs, h => by
    have hb : b < 256 := h b (by simp)
    have ih := ofLeBytes_lt bs (fun x hx => h x (by simp [hx]))
    simp only [ofLeBytes, List.length_cons, Nat.pow_succ]
    have : 256 * ofLeBytes bs + 256 ≤ 256 * 256 ^ bs.length := by
      have := Nat.mul_le_mul_left 256 (Nat.succ_le_of_lt ih)
      simpa [Nat.mul_succ] using this
    rw [Nat.mul_comm (256 ^ bs.length)]
    omega

theorem leBytes_ofLeBytes : ∀ bs : List Nat, (∀ b ∈ bs, b < 256) → leBytes bs.length (ofLeBytes bs) = bs
  | [], _ => rfl
  | b :: bs, h => by
    have hb : b < 256 := h b (by simp)
    have ih := leBytes_ofLeBytes bs (fun x hx => h x (by simp [hx]))
    simp only [List.length_cons, leBytes, ofLeBytes]
    have h1 : (b + 256 * ofLeBytes bs) % 256 = b := by omega
    have h2 : (b + 256 * ofLeBytes bs) / 256 = ofLeBytes bs := by omega
    rw [h1, h2, ih]

theorem leItem_length (be cplx : Bool) (it : List Nat) : (leItem be cplx it).length = it.length := by
  unfold leItem
  cases be <;> cases cplx <;> simp
  omega

theorem leItem_mem (be cplx : Bool) (it : List Nat) : ∀ b ∈ leItem be cplx it, b ∈ it := by
  unfold leItem
  intro b hb
  cases be <;> cases cplx <;> simp at hb
  · exact hb
  · exact hb
  · exact hb
  · rcases hb with h | h
    · exact List.mem_of_mem_take h
    · exact List.mem_of_mem_drop h

theorem item_mem (storage : List Nat) (isz : Nat) (p : Int) : ∀ b ∈ item storage isz p, b ∈ storage := by
  intro b hb
  unfold item at hb
  split at hb
  · simp at hb
  · exact List.mem_of_mem_drop (List.mem_of_mem_take hb)

theorem gather_mem (storage : List Nat) (isz : Nat) (shape : List Nat) :
    ∀ (strides : List Int) (p : Int), ∀ it ∈ gather storage isz shape strides p, ∀ b ∈ it, b ∈ storage := by
  induction shape with
  | nil =>
    intro strides p it hit b hb
    simp only [gather, List.mem_singleton] at hit
    subst hit
    exact item_mem _ _ _ b hb
  | cons n ns ih =>
    intro strides p it hit b hb
    cases strides with
    | nil => simp [gather] at hit
    | cons st sts =>
      simp only [gather, List.mem_flatMap] at hit
      obtain ⟨i, _, hi⟩ := hit
      exact ih sts _ it hi b hb

/-! ## the strided array as a representation -/

theorem items_eq (a : Arr) (h : a.strides.length = a.shape.length) :
    a.items = (indices a.shape).map a.itemAt :=
  gather_eq a.storage a.itemsize a.shape a.strides a.offset h

theorem units_eq (a : Arr) (h : a.strides.length = a.shape.length) :
    a.units = (indices a.shape).map a.valueAt := by
  unfold Arr.units
  rw [items_eq a h, List.map_map]
  rfl

theorem inBounds_elim {a : Arr} (h : a.inBounds = true) :
    a.strides.length = a.shape.length ∧ ∀ it ∈ a.items, it.length = a.itemsize := by
  unfold Arr.inBounds at h
  simp only [Bool.and_eq_true, beq_iff_eq, List.all_eq_true] at h
  exact h

theorem units_lt {a : Arr} (hib : a.inBounds = true) (hbytes : ∀ b ∈ a.storage, b < 256) :
    ∀ u ∈ a.units, u < 256 ^ a.itemsize := by
  intro u hu
  unfold Arr.units at hu
  obtain ⟨it, hit, rfl⟩ := List.mem_map.mp hu
  have hl := (inBounds_elim hib).2 it hit
  have hb : ∀ b ∈ leItem a.bigEndian a.complex it, b < 256 := fun b hb =>
    hbytes b (gather_mem _ _ _ _ _ it hit b (leItem_mem _ _ _ b hb))
  have := ofLeBytes_lt _ hb
  rwa [leItem_length, hl] at this

theorem flatMap_congr' {α β : Type} (l : List α) (f g : α → List β) (h : ∀ x ∈ l, f x = g x) :
    l.flatMap f = l.flatMap g := by
  induction l with
  | nil => rfl
  | cons x xs ih =>
    rw [List.flatMap_cons, List.flatMap_cons, h x (by simp), ih (fun y hy => h y (by simp [hy]))]

theorem flatMap_units {a : Arr} (hib : a.inBounds = true) (hbytes : ∀ b ∈ a.storage, b < 256) :
    a.units.flatMap (leBytes a.itemsize) = a.items.flatMap (leItem a.bigEndian a.complex) := by
  unfold Arr.units
  rw [List.flatMap_map]
  apply flatMap_congr'
  intro it hit
  have hl := (inBounds_elim hib).2 it hit
  have hb : ∀ b ∈ leItem a.bigEndian a.complex it, b < 256 := fun b hb =>
    hbytes b (gather_mem _ _ _ _ _ it hit b (leItem_mem _ _ _ b hb))
  have := leBytes_ofLeBytes _ hb
  rwa [leItem_length, hl] at this

/-- the transcribed `Tensor.tobytes` over strided memory is `tobytes` of the denoted representation -/
theorem tobytes_eq_rep (d : DType) (a : Arr) (nd : Bool) (hisz : a.itemsize = npItemBytes d)
    (hib : a.inBounds = true) (hbytes : ∀ b ∈ a.storage, b < 256) :
    a.tobytes d nd = (a.toRep d nd).tobytes := by
  unfold Arr.tobytes Arr.toRep
  by_cases hnb : (nd && a.bigEndian) = true
  · simp [hnb, Rep.tobytes, arrayMemBytes, arrayMemElems]
  · simp only [hnb, Bool.false_eq_true, ↓reduceIte, Rep.tobytes, arrayBytes]
    split
    · rfl
    · split
      · rfl
      · cases d.bitwidth with
        | none => rfl
        | some bw =>
          simp only [← hisz]
          by_cases h : bw = 8 * a.itemsize <;> simp [h, flatMap_units hib hbytes]

theorem torch_small (d : DType) (bw : Nat) (h : d.bitwidth = some bw) (ht : d.torchMapped = true)
    (hs : bw < 8) : d.bytePack2 = true := by
  have hb : bw = (d.bitwidth).getD 0 := by simp [h]
  subst hb
  revert ht hs h
  cases d <;> decide

/-- the same for the torch adapter (little-endian memory) -/
theorem torchTobytes_eq_rep (d : DType) (bw : Nat) (a : Arr) (hbw : d.bitwidth = some bw)
    (hisz : a.itemsize = npItemBytes d) (hle : a.bigEndian = false)
    (hib : a.inBounds = true) (hbytes : ∀ b ∈ a.storage, b < 256) :
    a.torchTobytes d = (a.toTorchRep d).tobytes := by
  unfold Arr.torchTobytes Arr.toTorchRep
  simp only [Rep.tobytes, torchBytes, hbw]
  split
  · rfl
  · split
    · rfl
    · rename_i ht h2
      have F := facts d bw hbw
      have ht' : d.torchMapped = true := by simpa using ht
      have h8 : ¬ bw < 8 := fun hs => h2 (torch_small d bw hbw ht' hs)
      have hw : bw / 8 = a.itemsize := by
        rcases F.item with h | h | h
        · omega
        · omega
        · rw [hisz, h]; omega
      rw [hw, flatMap_units hib hbytes, hle]
      have : leItem false a.complex = id := by funext it; simp [leItem]
      rw [this]
      simp

/-- what the strided array denotes is a legal representation of its logical elements -/
theorem legal_strided (d : DType) (bw : Nat) (a : Arr) (nd : Bool) (hbw : d.bitwidth = some bw)
    (hisz : a.itemsize = npItemBytes d) (hnb : (nd && a.bigEndian) = false)
    (hib : a.inBounds = true) (hbytes : ∀ b ∈ a.storage, b < 256) :
    WF d a.shape bw (obsBits bw a.units) ∧ Legal d a.shape bw (obsBits bw a.units) (a.toRep d nd) := by
  have hs := (inBounds_elim hib).1
  constructor
  · refine ⟨hbw, ?_, ?_⟩
    · simp [obsBits, units_eq a hs, indices_length]
    · intro x hx
      simp only [obsBits, List.mem_map] at hx
      obtain ⟨u, _, rfl⟩ := hx
      exact Nat.mod_lt _ (Nat.two_pow_pos bw)
  · unfold Arr.toRep
    simp only [hnb, Bool.false_eq_true, ↓reduceIte]
    exact Legal.array a.units (by rw [← hisz]; exact units_lt hib hbytes) rfl

theorem legal_strided_torch (d : DType) (bw : Nat) (a : Arr)
    (hisz : a.itemsize = npItemBytes d) (ht : d.torchMapped = true)
    (hib : a.inBounds = true) (hbytes : ∀ b ∈ a.storage, b < 256) :
    Legal d a.shape bw (obsBits bw a.units) (a.toTorchRep d) :=
  Legal.torch a.units ht (by rw [← hisz]; exact units_lt hib hbytes) rfl

end IrVerif.Strided

/-
C15 part C: `convenience.rename_values` is all-or-nothing.
-/
import IrVerif.Lemmas.NamesFix
import Mathlib.Data.List.Nodup
namespace IrVerif.Names

/-! ### association lists keyed by value ids -/

theorem lookupN_some_mem {β : Type} {d : List (Nat × β)} {k : Nat} {v : β} (h : d.lookup k = some v) : (k, v) ∈ d := by
  induction d with
  | nil => simp at h
  | cons e d ih =>
    obtain ⟨k', v'⟩ := e
    simp only [List.lookup_cons] at h
    by_cases hk : k = k'
    · subst hk; simp at h; simp [h]
    · have : (k == k') = false := by simpa using hk
      simp only [this] at h
      exact List.mem_cons_of_mem _ (ih h)

theorem lookupN_none {β : Type} {d : List (Nat × β)} {k : Nat} (h : d.lookup k = none) : k ∉ d.map (·.1) := by
  induction d with
  | nil => simp
  | cons e d ih =>
    obtain ⟨k', v'⟩ := e
    simp only [List.lookup_cons] at h
    by_cases hk : k = k'
    · subst hk; simp at h
    · have : (k == k') = false := by simpa using hk
      simp only [this] at h
      simp only [List.map_cons, List.mem_cons, not_or]
      exact ⟨hk, ih h⟩

/-! ### the first loop -/

theorem dedupPairs_spec : ∀ (pairs acc : List (Nat × String)) (ordered : List (Nat × String)),
    dedupPairs pairs acc = some ordered → (acc.map (·.1)).Nodup →
      (ordered.map (·.1)).Nodup ∧ (∀ p, p ∈ ordered ↔ (p ∈ acc ∨ p ∈ pairs)) := by
  intro pairs
  induction pairs with
  | nil =>
    intro acc ordered h hnd
    simp only [dedupPairs, Option.some.injEq] at h
    subst h
    refine ⟨?_, fun p => by simp⟩
    rw [List.map_reverse]; exact List.nodup_reverse.mpr hnd
  | cons q rest ih =>
    intro acc ordered h hnd
    obtain ⟨v, n⟩ := q
    simp only [dedupPairs] at h
    split at h
    · rename_i n' hl
      split at h
      · cases h
      · rename_i hn
        have hn' : n' = n := by simpa using hn
        subst hn'
        obtain ⟨h1, h2⟩ := ih acc ordered h hnd
        refine ⟨h1, fun p => ?_⟩
        rw [h2 p, List.mem_cons]
        constructor
        · rintro (h | h)
          · exact Or.inl h
          · exact Or.inr (Or.inr h)
        · rintro (h | rfl | h)
          · exact Or.inl h
          · exact Or.inl (lookupN_some_mem hl)
          · exact Or.inr h
    · rename_i hl
      obtain ⟨h1, h2⟩ := ih ((v, n) :: acc) ordered h
        (by simp only [List.map_cons, List.nodup_cons]; exact ⟨lookupN_none hl, hnd⟩)
      refine ⟨h1, fun p => ?_⟩
      rw [h2 p, List.mem_cons, List.mem_cons]
      constructor
      · rintro ((rfl | h) | h)
        · exact Or.inr (Or.inl rfl)
        · exact Or.inl h
        · exact Or.inr (Or.inr h)
      · rintro (h | rfl | h)
        · exact Or.inl (Or.inr h)
        · exact Or.inl (Or.inl rfl)
        · exact Or.inr h

/-! ### grouping -/

theorem nodup_eraseDups : ∀ (n : Nat) (l : List Nat), l.length ≤ n → l.eraseDups.Nodup := by
  intro n
  induction n with
  | zero => intro l h; have : l = [] := List.eq_nil_of_length_eq_zero (by omega); subst this; simp
  | succ n ih =>
    intro l h
    cases l with
    | nil => simp
    | cons a as =>
      rw [List.eraseDups_cons, List.nodup_cons]
      refine ⟨?_, ih _ ?_⟩
      · rw [List.mem_eraseDups]; simp
      · have := List.length_filter_le (fun b => !b == a) as
        simp only [List.length_cons] at h; omega

theorem mem_initTriples {io : Nat → Option Nat} {ordered : List (Nat × String)} {g v : Nat} {n : String} :
    (g, v, n) ∈ initTriples (groupByGraph io ordered) ↔ ((v, n) ∈ ordered ∧ io v = some g) := by
  simp only [initTriples, groupByGraph, List.mem_flatMap, List.mem_map, List.mem_eraseDups, List.mem_filterMap]
  constructor
  · rintro ⟨gp, ⟨g0, _, rfl⟩, p, hp, he⟩
    have hp' : p ∈ ordered.filter (fun p => io p.1 == some g0) := hp
    obtain ⟨hp1, hp2⟩ := List.mem_filter.mp hp'
    simp only [Prod.mk.injEq] at he
    obtain ⟨rfl, rfl, rfl⟩ := he
    exact ⟨hp1, by simpa using hp2⟩
  · rintro ⟨hp, hio⟩
    refine ⟨(g, ordered.filter (fun p => io p.1 == some g)), ⟨g, ⟨(v, n), hp, hio⟩, rfl⟩, (v, n), ?_, rfl⟩
    show (v, n) ∈ ordered.filter (fun p => io p.1 == some g)
    exact List.mem_filter.mpr ⟨hp, by simpa using hio⟩

theorem initTriples_nodup {io : Nat → Option Nat} {ordered : List (Nat × String)} (hnd : (ordered.map (·.1)).Nodup) :
    ((initTriples (groupByGraph io ordered)).map (·.2.1)).Nodup := by
  simp only [initTriples, groupByGraph, List.map_flatMap, List.flatMap_map, List.map_map]
  rw [List.nodup_flatMap]
  constructor
  · intro g _
    have : (List.map ((fun x => x.2.1) ∘ fun p => (g, p.1, p.2)) (List.filter (fun p => io p.1 == some g) ordered))
        = (List.filter (fun p => io p.1 == some g) ordered).map (·.1) := by
      apply List.map_congr_left; intro p _; rfl
    rw [this]
    exact (List.Sublist.map _ List.filter_sublist).nodup hnd
  · have hg := nodup_eraseDups _ (ordered.filterMap (fun p => io p.1)) (Nat.le_refl _)
    refine List.Pairwise.imp ?_ hg
    intro a b hab
    simp only [Function.onFun]
    rw [List.disjoint_left]
    intro x hx hx'
    simp only [List.mem_map, List.mem_filter, beq_iff_eq, Function.comp] at hx hx'
    obtain ⟨p, ⟨_, hp⟩, rfl⟩ := hx
    obtain ⟨q, ⟨_, hq⟩, he⟩ := hx'
    rw [he] at hq
    exact hab (Option.some.inj (hp.symm.trans hq))


/-! ### validation -/

theorem lookup_of_mem_nodup {d : List (String × Nat)} (hn : (d.map (·.1)).Nodup) {k : String} {u : Nat}
    (h : (k, u) ∈ d) : d.lookup k = some u := by
  cases hl : d.lookup k with
  | none => exact absurd h (lookup_none_iff.mp hl u)
  | some u' => rw [keys_nodup_unique hn (lookup_some_mem hl) h]

theorem validateLoop_spec (d : List (String × Nat)) (R : List Nat) :
    ∀ (ps : List (Nat × String)) (seenT : List (String × Nat)), validateLoop d R ps seenT = true →
      (∀ p ∈ ps, p.2 ≠ "" ∧ (∀ ex, d.lookup p.2 = some ex → ex = p.1 ∨ ex ∈ R)
          ∧ (∀ e, seenT.lookup p.2 = some e → e = p.1))
      ∧ ps.Pairwise (fun p q => p.2 = q.2 → p.1 = q.1) := by
  intro ps
  induction ps with
  | nil => intro _ _; simp
  | cons p ps ih =>
    intro seenT h
    obtain ⟨v, n⟩ := p
    simp only [validateLoop] at h
    by_cases c1 : (n == "") = true
    · rw [if_pos c1] at h; cases h
    rw [if_neg c1] at h
    by_cases c2 : isOther (seenT.lookup n) v = true
    · rw [if_pos c2] at h; cases h
    rw [if_neg c2] at h
    by_cases c3 : isOutside (d.lookup n) v R = true
    · rw [if_pos c3] at h; cases h
    rw [if_neg c3] at h
    have hn : n ≠ "" := by simpa using c1
    have hseen : ∀ e, seenT.lookup n = some e → e = v := by
      intro e he; rw [he] at c2; simpa [isOther] using c2
    have hdict : ∀ ex, d.lookup n = some ex → ex = v ∨ ex ∈ R := by
      intro ex hex; rw [hex] at c3
      by_cases he : ex = v
      · exact Or.inl he
      · right; simpa [isOutside, he] using c3
    obtain ⟨h1, h2⟩ := ih _ h
    refine ⟨?_, ?_⟩
    · intro q hq
      rcases List.mem_cons.mp hq with rfl | hq
      · exact ⟨hn, hdict, hseen⟩
      · obtain ⟨a, b, c⟩ := h1 q hq
        refine ⟨a, b, ?_⟩
        intro e he
        by_cases hqn : q.2 = n
        · have hv : v = q.1 := c v (by simp [hqn])
          rw [hqn] at he
          rw [hseen e he, hv]
        · apply c e
          have : (q.2 == n) = false := by simpa using hqn
          simp [List.lookup_cons, this, he]
    · rw [List.pairwise_cons]
      refine ⟨?_, h2⟩
      intro q hq hnq
      exact (h1 q hq).2.2 v (by simp [← hnq])


/-! ### phase 1: detach the renamed initializers -/

theorem popInit_spec {w : World} (h : InitsOk w) {g v : Nat} (hio : w.initOf v = some g) :
    ∃ w', popInit (w, false) g v = (w', false) ∧ InitsOk w' ∧ w'.vname = w.vname ∧ w'.nname = w.nname
      ∧ w'.initOf = upd w.initOf v none
      ∧ ∀ g' e, e ∈ w'.dicts g' ↔ (e ∈ w.dicts g' ∧ e.2 ≠ v) := by
  obtain ⟨k, hk, hkne, hkm⟩ := h.name_of_init hio
  have hhas : dictHas (w.dicts g) k = true := dictHas_iff.mpr ⟨v, hkm⟩
  have hlook : (w.dicts g).lookup k = some v := lookup_of_mem_nodup (h.keys_nodup g) hkm
  have hmem : ∀ g' e, e ∈ (upd w.dicts g (dictErase (w.dicts g) k)) g' ↔ (e ∈ w.dicts g' ∧ e.2 ≠ v) := by
    intro g' e
    by_cases hg : g' = g
    · subst hg
      simp only [upd_eq, mem_dictErase]
      constructor
      · rintro ⟨h1, h2⟩
        refine ⟨h1, fun hv => h2 ?_⟩
        have := (h.key_name g' e.1 e.2 (by simpa using h1)).1
        rw [hv, hk] at this
        exact (Option.some.inj this).symm
      · rintro ⟨h1, h2⟩
        refine ⟨h1, fun hv => h2 ?_⟩
        have : (k, e.2) ∈ w.dicts g' := by rw [← hv]; simpa using h1
        exact keys_nodup_unique (h.keys_nodup g') this hkm
    · rw [upd_ne _ _ hg]
      constructor
      · intro h1
        refine ⟨h1, fun hv => hg ?_⟩
        have := (h.key_name g' e.1 e.2 (by simpa using h1)).2.2
        rw [hv, hio] at this
        exact (Option.some.inj this).symm
      · exact fun h1 => h1.1
  refine ⟨{ w with dicts := upd w.dicts g (dictErase (w.dicts g) k), initOf := upd w.initOf v none }, ?_, ?_, rfl, rfl, rfl, hmem⟩
  · simp [popInit, hk, hhas, hlook]
  · refine ⟨?_, ?_, ?_⟩
    · intro g' k' u hm
      obtain ⟨hm1, hm2⟩ := (hmem g' (k', u)).mp hm
      have := h.key_name g' k' u hm1
      exact ⟨this.1, this.2.1, by simp only; rw [upd_ne _ _ hm2]; exact this.2.2⟩
    · intro g'
      by_cases hg : g' = g
      · subst hg; simp only [upd_eq]
        exact (List.Sublist.map _ List.filter_sublist).nodup (h.keys_nodup g')
      · simp only [upd_ne _ _ hg]; exact h.keys_nodup g'
    · intro u g' hu
      simp only at hu
      have huv : u ≠ v := by intro e; subst e; simp at hu
      rw [upd_ne _ _ huv] at hu
      obtain ⟨k', hk'⟩ := h.complete u g' hu
      exact ⟨k', (hmem g' (k', u)).mpr ⟨hk', huv⟩⟩

theorem popAll_spec : ∀ (T : List (Nat × Nat × String)) {w : World}, InitsOk w →
    (∀ t ∈ T, w.initOf t.2.1 = some t.1) → (T.map (·.2.1)).Nodup →
    ∃ w', T.foldl (fun wr t => popInit wr t.1 t.2.1) (w, false) = (w', false) ∧ InitsOk w'
      ∧ w'.vname = w.vname ∧ w'.nname = w.nname
      ∧ (∀ u, w'.initOf u = if u ∈ T.map (·.2.1) then none else w.initOf u)
      ∧ ∀ g e, e ∈ w'.dicts g ↔ (e ∈ w.dicts g ∧ e.2 ∉ T.map (·.2.1))
  | [], w, h, _, _ => ⟨w, rfl, h, rfl, rfl, fun _ => by simp, fun _ _ => by simp⟩
  | t :: T, w, h, hio, hnd => by
    simp only [List.map_cons, List.nodup_cons] at hnd
    obtain ⟨w1, e1, ok1, v1, n1, i1, d1⟩ := popInit_spec h (hio t List.mem_cons_self)
    have hio1 : ∀ t' ∈ T, w1.initOf t'.2.1 = some t'.1 := by
      intro t' ht'
      have : t'.2.1 ≠ t.2.1 := fun e => hnd.1 (e ▸ List.mem_map.mpr ⟨t', ht', rfl⟩)
      rw [i1, upd_ne _ _ this]; exact hio t' (List.mem_cons_of_mem _ ht')
    obtain ⟨w2, e2, ok2, v2, n2, i2, d2⟩ := popAll_spec T ok1 hio1 hnd.2
    refine ⟨w2, by simp only [List.foldl_cons, e1, e2], ok2, v2.trans v1, n2.trans n1, ?_, ?_⟩
    · intro u
      rw [i2 u, i1]
      simp only [List.map_cons, List.mem_cons]
      by_cases hu : u = t.2.1
      · subst hu; simp
      · rw [upd_ne _ _ hu]; simp only [hu, false_or]
    · intro g e
      rw [d2 g e, d1 g e]
      simp only [List.map_cons, List.mem_cons, not_or]
      exact ⟨fun ⟨⟨a, b⟩, c⟩ => ⟨a, b, c⟩, fun ⟨a, b, c⟩ => ⟨⟨a, b⟩, c⟩⟩

/-! ### phase 2: assign the names (none of the values is an initializer now) -/

theorem setName_plain {w : World} {v : Nat} (hio : w.initOf v = none) (n : String) :
    (w.setName v n).2 = false ∧ (w.setName v n).1.vname = upd w.vname v (some n)
    ∧ (w.setName v n).1.nname = w.nname ∧ (w.setName v n).1.initOf = w.initOf ∧ (w.setName v n).1.dicts = w.dicts := by
  unfold World.setName
  split
  · rename_i he
    exact ⟨rfl, by rw [← he, upd_same], rfl, rfl, rfl⟩
  · simp only [hio]
    refine ⟨?_, ?_, ?_, ?_, ?_⟩ <;> first | rfl | trivial

theorem setAll_spec : ∀ (ps : List (Nat × String)) {w : World}, (∀ p ∈ ps, w.initOf p.1 = none) →
    (ps.map (·.1)).Nodup →
    ∃ w', ps.foldl setNameStep (w, false) = (w', false) ∧ w'.nname = w.nname ∧ w'.initOf = w.initOf
      ∧ w'.dicts = w.dicts ∧ (∀ p ∈ ps, w'.vname p.1 = some p.2) ∧ (∀ u, u ∉ ps.map (·.1) → w'.vname u = w.vname u)
  | [], w, _, _ => ⟨w, rfl, rfl, rfl, rfl, fun _ h => by simp at h, fun _ _ => rfl⟩
  | p :: ps, w, hio, hnd => by
    simp only [List.map_cons, List.nodup_cons] at hnd
    obtain ⟨r1, v1, n1, i1, d1⟩ := setName_plain (hio p List.mem_cons_self) p.2
    obtain ⟨w2, e2, n2, i2, d2, a2, o2⟩ := setAll_spec ps (w := (w.setName p.1 p.2).1)
      (fun q hq => by rw [i1]; exact hio q (List.mem_cons_of_mem _ hq)) hnd.2
    refine ⟨w2, ?_, n2.trans n1, i2.trans i1, d2.trans d1, ?_, ?_⟩
    · simp only [List.foldl_cons]
      have : setNameStep (w, false) p = ((w.setName p.1 p.2).1, false) := by
        simp only [setNameStep, Bool.false_eq_true, if_false]
        exact Prod.ext rfl r1
      rw [this, e2]
    · intro q hq
      rcases List.mem_cons.mp hq with rfl | hq
      · rw [o2 q.1 hnd.1, v1]; simp
      · exact a2 q hq
    · intro u hu
      simp only [List.map_cons, List.mem_cons, not_or] at hu
      rw [o2 u hu.2, v1, upd_ne _ _ hu.1]


/-! ### phase 3: register the renamed initializers again -/

theorem addInit_spec {w : World} (h : InitsOk w) {g v : Nat} {n : String} (hio : w.initOf v = none)
    (hn : w.vname v = some n) (hne : n ≠ "") (hfresh : ∀ u, (n, u) ∉ w.dicts g) :
    ∃ w', addInit (w, false) g v = (w', false) ∧ InitsOk w' ∧ w'.vname = w.vname ∧ w'.nname = w.nname
      ∧ w'.initOf = upd w.initOf v (some g)
      ∧ ∀ g' e, e ∈ w'.dicts g' ↔ (e ∈ w.dicts g' ∨ (g' = g ∧ e = (n, v))) := by
  have hlook : (w.dicts g).lookup n = none := lookup_none_iff.mpr hfresh
  have hany : (w.dicts g).any (fun e => e.1 == n) = false := by
    rw [List.any_eq_false]
    intro e he hk
    exact hfresh e.2 (by have : e.1 = n := by simpa using hk
                         rw [← this]; exact he)
  have hset : dictSet (w.dicts g) n v = w.dicts g ++ [(n, v)] := by simp [dictSet, hany]
  have hmem : ∀ g' e, e ∈ (upd w.dicts g (w.dicts g ++ [(n, v)])) g' ↔ (e ∈ w.dicts g' ∨ (g' = g ∧ e = (n, v))) := by
    intro g' e
    by_cases hg : g' = g
    · subst hg; simp
    · rw [upd_ne _ _ hg]; simp [hg]
  have hnotin : ∀ g' k u, (k, u) ∈ w.dicts g' → u ≠ v := by
    intro g' k u hm e
    subst e
    have := (h.key_name g' k u hm).2.2
    rw [hio] at this; cases this
  refine ⟨{ w with dicts := upd w.dicts g (w.dicts g ++ [(n, v)]), initOf := upd w.initOf v (some g) }, ?_, ?_, rfl, rfl, rfl, hmem⟩
  · have hne' : (n == "") = false := by simpa using hne
    simp [addInit, addInit.addCore, hn, hne', hio, hlook, hset]
  · refine ⟨?_, ?_, ?_⟩
    · intro g' k u hm
      rcases (hmem g' (k, u)).mp hm with hm | ⟨rfl, he⟩
      · have := h.key_name g' k u hm
        exact ⟨this.1, this.2.1, by simp only; rw [upd_ne _ _ (hnotin g' k u hm)]; exact this.2.2⟩
      · simp only [Prod.mk.injEq] at he
        obtain ⟨rfl, rfl⟩ := he
        exact ⟨hn, hne, by simp⟩
    · intro g'
      by_cases hg : g' = g
      · subst hg
        simp only [upd_eq, List.map_append, List.map_cons, List.map_nil]
        rw [List.nodup_append]
        refine ⟨h.keys_nodup g', by simp, ?_⟩
        intro a ha b hb
        simp only [List.mem_singleton] at hb
        subst hb
        obtain ⟨e, he, rfl⟩ := List.mem_map.mp ha
        intro hk
        exact hfresh e.2 (by rw [← hk]; exact he)
      · simp only [upd_ne _ _ hg]; exact h.keys_nodup g'
    · intro u g' hu
      simp only at hu
      by_cases huv : u = v
      · subst huv
        simp only [upd_eq, Option.some.injEq] at hu
        subst hu
        exact ⟨n, (hmem g (n, u)).mpr (Or.inr ⟨rfl, rfl⟩)⟩
      · rw [upd_ne _ _ huv] at hu
        obtain ⟨k, hk⟩ := h.complete u g' hu
        exact ⟨k, (hmem g' (k, u)).mpr (Or.inl hk)⟩

theorem addAll_spec : ∀ (T : List (Nat × Nat × String)) {w : World}, InitsOk w →
    (∀ t ∈ T, w.initOf t.2.1 = none ∧ w.vname t.2.1 = some t.2.2 ∧ t.2.2 ≠ "" ∧ ∀ u, (t.2.2, u) ∉ w.dicts t.1) →
    (T.map (·.2.1)).Nodup → (∀ a ∈ T, ∀ b ∈ T, a.1 = b.1 → a.2.2 = b.2.2 → a.2.1 = b.2.1) →
    ∃ w', T.foldl (fun wr t => addInit wr t.1 t.2.1) (w, false) = (w', false) ∧ InitsOk w'
      ∧ w'.vname = w.vname ∧ w'.nname = w.nname
      ∧ (∀ t ∈ T, w'.initOf t.2.1 = some t.1) ∧ (∀ u, u ∉ T.map (·.2.1) → w'.initOf u = w.initOf u)
      ∧ ∀ g e, e ∈ w'.dicts g ↔ (e ∈ w.dicts g ∨ ∃ t ∈ T, t.1 = g ∧ e = (t.2.2, t.2.1))
  | [], w, h, _, _, _ => ⟨w, rfl, h, rfl, rfl, fun _ h => by simp at h, fun _ _ => rfl, fun _ _ => by simp⟩
  | t :: T, w, h, hpre, hnd, hinj => by
    simp only [List.map_cons, List.nodup_cons] at hnd
    obtain ⟨p1, p2, p3, p4⟩ := hpre t List.mem_cons_self
    obtain ⟨w1, e1, ok1, v1, n1, i1, d1⟩ := addInit_spec h p1 p2 p3 p4
    have hne : ∀ t' ∈ T, t'.2.1 ≠ t.2.1 := fun t' ht' e => hnd.1 (e ▸ List.mem_map.mpr ⟨t', ht', rfl⟩)
    have hpre1 : ∀ t' ∈ T, w1.initOf t'.2.1 = none ∧ w1.vname t'.2.1 = some t'.2.2 ∧ t'.2.2 ≠ ""
        ∧ ∀ u, (t'.2.2, u) ∉ w1.dicts t'.1 := by
      intro t' ht'
      obtain ⟨q1, q2, q3, q4⟩ := hpre t' (List.mem_cons_of_mem _ ht')
      refine ⟨by rw [i1, upd_ne _ _ (hne t' ht')]; exact q1, by rw [v1]; exact q2, q3, ?_⟩
      intro u hu
      rcases (d1 t'.1 (t'.2.2, u)).mp hu with hu | ⟨hg, he⟩
      · exact q4 u hu
      · simp only [Prod.mk.injEq] at he
        exact hne t' ht' (hinj t' (List.mem_cons_of_mem _ ht') t List.mem_cons_self hg he.1)
    obtain ⟨w2, e2, ok2, v2, n2, i2, o2, d2⟩ := addAll_spec T ok1 hpre1 hnd.2
      (fun a ha b hb => hinj a (List.mem_cons_of_mem _ ha) b (List.mem_cons_of_mem _ hb))
    refine ⟨w2, by simp only [List.foldl_cons, e1, e2], ok2, v2.trans v1, n2.trans n1, ?_, ?_, ?_⟩
    · intro t' ht'
      rcases List.mem_cons.mp ht' with rfl | ht'
      · rw [o2 _ hnd.1, i1]; simp
      · exact i2 t' ht'
    · intro u hu
      simp only [List.map_cons, List.mem_cons, not_or] at hu
      rw [o2 u hu.2, i1, upd_ne _ _ hu.1]
    · intro g e
      rw [d2 g e, d1 g e]
      simp only [List.mem_cons, exists_eq_or_imp]
      constructor
      · rintro ((h | ⟨rfl, rfl⟩) | h)
        · exact Or.inl h
        · exact Or.inr (Or.inl ⟨rfl, rfl⟩)
        · exact Or.inr (Or.inr h)
      · rintro (h | ⟨rfl, rfl⟩ | h)
        · exact Or.inl (Or.inl h)
        · exact Or.inl (Or.inr ⟨rfl, rfl⟩)
        · exact Or.inr h


/-! ### all or nothing -/

theorem validateLoop_targets {d : List (String × Nat)} {R : List Nat} {ps : List (Nat × String)}
    (h : validateLoop d R ps [] = true) : ∀ p ∈ ps, ∀ q ∈ ps, p.2 = q.2 → p.1 = q.1 := by
  have hp := (validateLoop_spec d R ps [] h).2
  intro p hp' q hq'
  exact List.Pairwise.forall_of_forall_of_flip (R := fun p q => p.2 = q.2 → p.1 = q.1) (fun _ _ _ => rfl) hp
    (hp.imp (fun {a b} hab e => (hab e.symm).symm)) hp' hq'

theorem group_mem {io : Nat → Option Nat} {ordered : List (Nat × String)} {g v : Nat} {n : String}
    (hp : (v, n) ∈ ordered) (hio : io v = some g) :
    (g, ordered.filter (fun p => io p.1 == some g)) ∈ groupByGraph io ordered := by
  simp only [groupByGraph, List.mem_map, List.mem_eraseDups, List.mem_filterMap]
  exact ⟨g, ⟨(v, n), hp, hio⟩, rfl⟩

/-- the phases after a successful validation: no exception, and the assignment is applied -/
theorem applyRename_spec (w : World) (pairs ordered : List (Nat × String)) (hok : InitsOk w)
    (hd : dedupPairs pairs [] = some ordered) (hval : validateAll w (groupByGraph w.initOf ordered) = true) :
    (applyRename w ordered).2 = false
    ∧ (∀ p ∈ pairs, (applyRename w ordered).1.vname p.1 = some p.2)
    ∧ (∀ u, u ∉ pairs.map (·.1) → (applyRename w ordered).1.vname u = w.vname u)
    ∧ (applyRename w ordered).1.nname = w.nname
    ∧ (applyRename w ordered).1.initOf = w.initOf
    ∧ InitsOk (applyRename w ordered).1
    ∧ ∀ g u, u ∈ (applyRename w ordered).1.inits g ↔ u ∈ w.inits g := by
  unfold applyRename
  simp only
  -- the deduplicated assignment
  obtain ⟨hnd, hmem⟩ := dedupPairs_spec pairs [] ordered hd (by simp)
  have hmem' : ∀ p, p ∈ ordered ↔ p ∈ pairs := fun p => by rw [hmem p]; simp
  -- the renamed initializers
  generalize hT : initTriples (groupByGraph w.initOf ordered) = T
  have hTmem : ∀ g v n, (g, v, n) ∈ T ↔ ((v, n) ∈ ordered ∧ w.initOf v = some g) := by
    intro g v n; rw [← hT]; exact mem_initTriples
  have hTnd : (T.map (·.2.1)).Nodup := by rw [← hT]; exact initTriples_nodup hnd
  -- what validation established
  have hvalid : ∀ t ∈ T, validateLoop (w.dicts t.1)
      ((ordered.filter (fun p => w.initOf p.1 == some t.1)).map (·.1))
      (ordered.filter (fun p => w.initOf p.1 == some t.1)) [] = true := by
    intro t ht
    obtain ⟨g, v, n⟩ := t
    obtain ⟨h1, h2⟩ := (hTmem g v n).mp ht
    have := List.all_eq_true.mp hval _ (group_mem h1 h2)
    simpa using this
  have hin : ∀ t ∈ T, (t.2.1, t.2.2) ∈ ordered.filter (fun p => w.initOf p.1 == some t.1) := by
    intro t ht
    obtain ⟨g, v, n⟩ := t
    obtain ⟨h1, h2⟩ := (hTmem g v n).mp ht
    exact List.mem_filter.mpr ⟨h1, by simpa using h2⟩
  -- phase 1
  obtain ⟨w1, e1, ok1, v1, n1, i1, d1⟩ := popAll_spec T hok
    (fun t ht => by obtain ⟨g, v, n⟩ := t; exact ((hTmem g v n).mp ht).2) hTnd
  -- phase 2
  have hio1 : ∀ p ∈ ordered, w1.initOf p.1 = none := by
    intro p hp
    rw [i1 p.1]
    split
    · rfl
    · rename_i hnot
      cases hio : w.initOf p.1 with
      | none => rfl
      | some g =>
        exfalso; apply hnot
        exact List.mem_map.mpr ⟨(g, p.1, p.2), (hTmem g p.1 p.2).mpr ⟨hp, hio⟩, rfl⟩
  obtain ⟨w2, e2, n2, i2, d2, a2, o2⟩ := setAll_spec ordered hio1 hnd
  have ok2 : InitsOk w2 := by
    refine ⟨?_, fun g => by rw [d2]; exact ok1.keys_nodup g, fun v g hv => by rw [d2]; exact ok1.complete v g (i2 ▸ hv)⟩
    intro g k u hm
    rw [d2] at hm
    have hk := ok1.key_name g k u hm
    have hu : u ∉ ordered.map (·.1) := by
      intro hu
      obtain ⟨p, hp, rfl⟩ := List.mem_map.mp hu
      rw [hio1 p hp] at hk; exact absurd hk.2.2 (by simp)
    exact ⟨by rw [o2 u hu]; exact hk.1, hk.2.1, by rw [i2]; exact hk.2.2⟩
  -- phase 3
  have hpre3 : ∀ t ∈ T, w2.initOf t.2.1 = none ∧ w2.vname t.2.1 = some t.2.2 ∧ t.2.2 ≠ ""
      ∧ ∀ u, (t.2.2, u) ∉ w2.dicts t.1 := by
    intro t ht
    have hv := validateLoop_spec _ _ _ _ (hvalid t ht)
    obtain ⟨c1, c2, _⟩ := hv.1 _ (hin t ht)
    obtain ⟨g, v, n⟩ := t
    obtain ⟨h1, h2⟩ := (hTmem g v n).mp ht
    refine ⟨by rw [i2]; exact hio1 (v, n) h1, a2 (v, n) h1, c1, ?_⟩
    intro u hu
    rw [d2] at hu
    obtain ⟨hu1, hu2⟩ := (d1 g (n, u)).mp hu
    have hl := lookup_of_mem_nodup (hok.keys_nodup g) hu1
    rcases c2 u hl with rfl | hR
    · exact hu2 (List.mem_map.mpr ⟨(g, u, n), ht, rfl⟩)
    · obtain ⟨q, hq, rfl⟩ := List.mem_map.mp hR
      obtain ⟨hq1, hq2⟩ := List.mem_filter.mp hq
      exact hu2 (List.mem_map.mpr ⟨(g, q.1, q.2), (hTmem g q.1 q.2).mpr ⟨hq1, by simpa using hq2⟩, rfl⟩)
  have hinj3 : ∀ a ∈ T, ∀ b ∈ T, a.1 = b.1 → a.2.2 = b.2.2 → a.2.1 = b.2.1 := by
    intro a ha b hb hg hn
    have hb' := hin b hb
    rw [← hg] at hb'
    exact validateLoop_targets (hvalid a ha) _ (hin a ha) _ hb' hn
  obtain ⟨w3, e3, ok3, v3, n3, i3, o3, d3⟩ := addAll_spec T ok2 hpre3 hTnd hinj3
  rw [e1, e2, e3]
  refine ⟨rfl, ?_, ?_, n3.trans (n2.trans n1), ?_, ok3, ?_⟩
  · intro p hp
    show w3.vname p.1 = some p.2
    rw [v3]; exact a2 p ((hmem' p).mpr hp)
  · intro u hu
    show w3.vname u = w.vname u
    rw [v3, o2 u, v1]
    intro hu'
    obtain ⟨p, hp, rfl⟩ := List.mem_map.mp hu'
    exact hu (List.mem_map.mpr ⟨p, (hmem' p).mp hp, rfl⟩)
  · show w3.initOf = w.initOf
    funext u
    by_cases hu : u ∈ T.map (·.2.1)
    · obtain ⟨t, ht, rfl⟩ := List.mem_map.mp hu
      rw [i3 t ht]
      obtain ⟨g, v, n⟩ := t
      exact ((hTmem g v n).mp ht).2.symm
    · rw [o3 u hu, i2, i1 u, if_neg hu]
  · intro g u
    show u ∈ (w3.dicts g).map (·.2) ↔ u ∈ (w.dicts g).map (·.2)
    simp only [List.mem_map]
    constructor
    · rintro ⟨e, he, rfl⟩
      rcases (d3 g e).mp he with he | ⟨t, ht, rfl, rfl⟩
      · rw [d2] at he
        exact ⟨e, ((d1 g e).mp he).1, rfl⟩
      · obtain ⟨g', v, n⟩ := t
        obtain ⟨k, hk⟩ := hok.complete v g' ((hTmem g' v n).mp ht).2
        exact ⟨(k, v), hk, rfl⟩
    · rintro ⟨e, he, rfl⟩
      by_cases hu : e.2 ∈ T.map (·.2.1)
      · obtain ⟨t, ht, htv⟩ := List.mem_map.mp hu
        obtain ⟨g', v, n⟩ := t
        simp only at htv
        have hg : g' = g := by
          have h1 := ((hTmem g' v n).mp ht).2
          have h2 := (hok.key_name g e.1 e.2 (by simpa using he)).2.2
          rw [← htv, h1] at h2
          exact Option.some.inj h2
        exact ⟨(n, v), (d3 g (n, v)).mpr (Or.inr ⟨(g', v, n), ht, hg, rfl⟩), htv⟩
      · exact ⟨e, (d3 g e).mpr (Or.inl (by rw [d2]; exact (d1 g e).mpr ⟨he, hu⟩)), rfl⟩


theorem renameValues_eq (w : World) (pairs : List (Nat × String)) :
    renameValues w pairs = match dedupPairs pairs [] with
      | none => (w, true)
      | some ordered =>
        if !validateAll w (groupByGraph w.initOf ordered) then (w, true) else applyRename w ordered := rfl

/-- **`rename_values` is all-or-nothing** (on a world whose initializers are keyed by names): it
either raises and returns the very same world, or it does not raise and then every requested value
carries its target name, no other name changed, `is_initializer`/graph links are as before, every
dictionary holds the same values and is keyed by the new names. -/
theorem renameValues_spec (w : World) (pairs : List (Nat × String)) (hok : InitsOk w) :
    ((renameValues w pairs).2 = true → (renameValues w pairs).1 = w)
    ∧ ((renameValues w pairs).2 = false →
        (∀ p ∈ pairs, (renameValues w pairs).1.vname p.1 = some p.2)
        ∧ (∀ u, u ∉ pairs.map (·.1) → (renameValues w pairs).1.vname u = w.vname u)
        ∧ (renameValues w pairs).1.nname = w.nname
        ∧ (renameValues w pairs).1.initOf = w.initOf
        ∧ InitsOk (renameValues w pairs).1
        ∧ ∀ g u, u ∈ (renameValues w pairs).1.inits g ↔ u ∈ w.inits g) := by
  rw [renameValues_eq]
  cases hd : dedupPairs pairs [] with
  | none => exact ⟨fun _ => rfl, fun h => (by cases h)⟩
  | some ordered =>
    simp only
    by_cases hval : validateAll w (groupByGraph w.initOf ordered) = true
    swap
    · have : (!validateAll w (groupByGraph w.initOf ordered)) = true := by simpa using hval
      rw [if_pos this]
      exact ⟨fun _ => rfl, fun h => (by cases h)⟩
    have : ¬ ((!validateAll w (groupByGraph w.initOf ordered)) = true) := by simp [hval]
    rw [if_neg this]
    obtain ⟨h0, h1⟩ := applyRename_spec w pairs ordered hok hd hval
    exact ⟨fun h => (by rw [h0] at h; cases h), fun _ => h1⟩


/-! ### the backing tensors: rename first, undo on refusal -/

theorem upd_upd_same {α : Type} (f : Nat → α) (i : Nat) (x y : α) : upd (upd f i x) i y = upd f i y := by
  funext j; simp only [upd]; split <;> rfl

theorem renTensor_some_iff (w : TWorld) (p : Nat × String) (t : Nat) :
    renTensor w p = some t ↔ (w.constOf p.1 = some t ∧ w.vname p.1 ≠ some p.2) := by
  unfold renTensor
  cases hc : w.constOf p.1 with
  | none => simp
  | some t' =>
    by_cases hn : w.vname p.1 = some p.2
    · simp [hn]
    · simp [hn]

/-- when the loop raises, the undo list restores the tensor names it started from -/
theorem tensorLoop_raise (w : TWorld) (tn0 : Nat → Option String) : ∀ (ps : List (Nat × String))
    (tn : Nat → Option String) (undo : List (Nat × Option String)), undoAll undo tn = tn0 →
    (tensorLoop w ps tn undo).2 = true → (tensorLoop w ps tn undo).1 = tn0 := by
  intro ps
  induction ps with
  | nil => intro tn undo _ h; simp [tensorLoop] at h
  | cons p ps ih =>
    intro tn undo hu h
    simp only [tensorLoop] at h ⊢
    cases hr : renTensor w p with
    | none => simp only [hr] at h ⊢; exact ih _ _ hu h
    | some t =>
      simp only [hr] at h ⊢
      by_cases hf : w.frozen t = true
      · simp only [hf, if_true]; exact hu
      · simp only [hf, if_false] at h ⊢
        refine ih _ _ ?_ h
        simp only [undoAll, upd_upd_same, upd_same]
        exact hu

/-- when the loop does not raise it performed exactly the assignments of `tensorAssign` -/
theorem tensorLoop_ok (w : TWorld) : ∀ (ps : List (Nat × String)) (tn : Nat → Option String)
    (undo : List (Nat × Option String)), (tensorLoop w ps tn undo).2 = false →
    (tensorLoop w ps tn undo).1 = tensorAssign w ps tn := by
  intro ps
  induction ps with
  | nil => intro tn undo _; rfl
  | cons p ps ih =>
    intro tn undo h
    simp only [tensorLoop, tensorAssign] at h ⊢
    cases hr : renTensor w p with
    | none => simp only [hr] at h ⊢; exact ih _ _ h
    | some t =>
      simp only [hr] at h ⊢
      by_cases hf : w.frozen t = true
      · simp [hf] at h
      · simp only [hf, if_false] at h ⊢
        exact ih _ _ h

theorem tensorLoop_noraise (w : TWorld) : ∀ (ps : List (Nat × String)) (tn : Nat → Option String)
    (undo : List (Nat × Option String)),
    (∀ p ∈ ps, ∀ t, w.constOf p.1 = some t → w.vname p.1 ≠ some p.2 → w.frozen t = false) →
    (tensorLoop w ps tn undo).2 = false := by
  intro ps
  induction ps with
  | nil => intro tn undo _; rfl
  | cons p ps ih =>
    intro tn undo h
    have hrest := fun q hq => h q (List.mem_cons_of_mem _ hq)
    simp only [tensorLoop]
    cases hr : renTensor w p with
    | none => exact ih _ _ hrest
    | some t =>
      obtain ⟨h1, h2⟩ := (renTensor_some_iff w p t).mp hr
      have := h p List.mem_cons_self t h1 h2
      simp only [this, Bool.false_eq_true, if_false]
      exact ih _ _ hrest

/-- what the assignments do to one tensor `t` when all pairs that touch it agree on the target -/
theorem tensorAssign_spec (w : TWorld) (t : Nat) (n : String) : ∀ (ps : List (Nat × String)) (tn : Nat → Option String),
    (∀ q ∈ ps, renTensor w q = some t → q.2 = n) →
    (tensorAssign w ps tn t = some n ∧ ∃ q ∈ ps, renTensor w q = some t)
    ∨ (tensorAssign w ps tn t = tn t ∧ ∀ q ∈ ps, renTensor w q ≠ some t) := by
  intro ps
  induction ps with
  | nil => intro tn _; exact Or.inr ⟨rfl, fun q hq => by simp at hq⟩
  | cons p ps ih =>
    intro tn h
    have hrest := fun q hq => h q (List.mem_cons_of_mem _ hq)
    simp only [tensorAssign]
    cases hr : renTensor w p with
    | none =>
      dsimp only
      rcases ih tn hrest with ⟨a, q, hq, b⟩ | ⟨a, b⟩
      · exact Or.inl ⟨a, q, List.mem_cons_of_mem _ hq, b⟩
      · refine Or.inr ⟨a, ?_⟩
        intro q hq
        rcases List.mem_cons.mp hq with rfl | hq
        · rw [hr]; simp
        · exact b q hq
    | some t' =>
      dsimp only
      by_cases htt : t' = t
      · subst htt
        have hm : p.2 = n := h p List.mem_cons_self hr
        rcases ih (upd tn t' (some p.2)) hrest with ⟨a, q, hq, b⟩ | ⟨a, b⟩
        · exact Or.inl ⟨a, q, List.mem_cons_of_mem _ hq, b⟩
        · exact Or.inl ⟨by rw [a, upd_eq, hm], p, List.mem_cons_self, hr⟩
      · rcases ih (upd tn t' (some p.2)) hrest with ⟨a, q, hq, b⟩ | ⟨a, b⟩
        · exact Or.inl ⟨a, q, List.mem_cons_of_mem _ hq, b⟩
        · refine Or.inr ⟨by rw [a, upd_ne _ _ (Ne.symm htt)], ?_⟩
          intro q hq
          rcases List.mem_cons.mp hq with rfl | hq
          · rw [hr]; simpa using htt
          · exact b q hq

theorem tensorAssign_congr (w : TWorld) : ∀ (ps : List (Nat × String)) (tn tn' : Nat → Option String) (t : Nat),
    (tn t = tn' t) → tensorAssign w ps tn t = tensorAssign w ps tn' t := by
  intro ps
  induction ps with
  | nil => intro tn tn' t h; exact h
  | cons p ps ih =>
    intro tn tn' t h
    simp only [tensorAssign]
    cases hr : renTensor w p with
    | none => exact ih _ _ _ h
    | some t' =>
      apply ih
      by_cases htt : t = t'
      · subst htt; simp
      · rw [upd_ne _ _ htt, upd_ne _ _ htt]; exact h

/-! ### when `rename_values` succeeds -/

theorem dedupPairs_complete : ∀ (pairs acc : List (Nat × String)),
    (∀ p ∈ pairs, ∀ q ∈ pairs, p.1 = q.1 → p.2 = q.2) → (∀ p ∈ pairs, ∀ q ∈ acc, p.1 = q.1 → p.2 = q.2) →
    ∃ o, dedupPairs pairs acc = some o := by
  intro pairs
  induction pairs with
  | nil => intro acc _ _; exact ⟨_, rfl⟩
  | cons p rest ih =>
    intro acc h1 h2
    obtain ⟨v, n⟩ := p
    simp only [dedupPairs]
    have h1' := fun a ha b hb => h1 a (List.mem_cons_of_mem _ ha) b (List.mem_cons_of_mem _ hb)
    split
    · rename_i n' hl
      have : n = n' := h2 (v, n) List.mem_cons_self (v, n') (lookupN_some_mem hl) rfl
      subst this
      simp only [bne_self_eq_false, Bool.false_eq_true, if_false]
      exact ih acc h1' (fun a ha b hb => h2 a (List.mem_cons_of_mem _ ha) b hb)
    · refine ih _ h1' ?_
      intro a ha b hb hab
      rcases List.mem_cons.mp hb with rfl | hb
      · exact h1 a (List.mem_cons_of_mem _ ha) (v, n) List.mem_cons_self hab
      · exact h2 a (List.mem_cons_of_mem _ ha) b hb hab

theorem validateLoop_complete (d : List (String × Nat)) (R : List Nat) :
    ∀ (ps : List (Nat × String)) (seenT : List (String × Nat)),
      (∀ p ∈ ps, p.2 ≠ "" ∧ (∀ ex, d.lookup p.2 = some ex → ex = p.1 ∨ ex ∈ R)
          ∧ (∀ e, seenT.lookup p.2 = some e → e = p.1)) →
      ps.Pairwise (fun p q => p.2 = q.2 → p.1 = q.1) → validateLoop d R ps seenT = true := by
  intro ps
  induction ps with
  | nil => intro _ _ _; rfl
  | cons p ps ih =>
    intro seenT h hp
    obtain ⟨v, n⟩ := p
    obtain ⟨c1, c2, c3⟩ := h (v, n) List.mem_cons_self
    rw [List.pairwise_cons] at hp
    simp only [validateLoop]
    have e1 : (n == "") = false := by simpa using c1
    have e2 : isOther (seenT.lookup n) v = false := by
      cases hl : seenT.lookup n with
      | none => rfl
      | some e => simp [isOther, c3 e hl]
    have e3 : isOutside (d.lookup n) v R = false := by
      cases hl : d.lookup n with
      | none => rfl
      | some ex =>
        rcases c2 ex hl with rfl | hR
        · simp [isOutside]
        · simp [isOutside, hR]
    simp only [e1, e2, e3, Bool.false_eq_true, if_false]
    refine ih _ ?_ hp.2
    intro q hq
    obtain ⟨a, b, c⟩ := h q (List.mem_cons_of_mem _ hq)
    refine ⟨a, b, ?_⟩
    intro e he
    simp only [List.lookup_cons] at he
    by_cases hqn : q.2 = n
    · simp only [hqn, beq_self_eq_true, Option.some.injEq] at he
      rw [← he]; exact (hp.1 q hq hqn.symm)
    · have : (q.2 == n) = false := by simpa using hqn
      simp only [this] at he
      exact c e he


theorem validateAll_complete (w : World) (ordered : List (Nat × String))
    (hne : ∀ p ∈ ordered, w.initOf p.1 ≠ none → p.2 ≠ "")
    (hdist : ∀ p ∈ ordered, ∀ q ∈ ordered, w.initOf p.1 ≠ none → w.initOf p.1 = w.initOf q.1 → p.2 = q.2 → p.1 = q.1)
    (hout : ∀ p ∈ ordered, ∀ g, w.initOf p.1 = some g → ∀ u, (p.2, u) ∈ w.dicts g → u = p.1 ∨ (u ∈ ordered.map (·.1) ∧ w.initOf u = some g)) :
    validateAll w (groupByGraph w.initOf ordered) = true := by
  simp only [validateAll, List.all_eq_true]
  intro gp hgp
  simp only [groupByGraph, List.mem_map, List.mem_eraseDups, List.mem_filterMap] at hgp
  obtain ⟨g, _, rfl⟩ := hgp
  simp only
  have hmemf : ∀ p, p ∈ ordered.filter (fun p => w.initOf p.1 == some g) ↔ (p ∈ ordered ∧ w.initOf p.1 = some g) := by
    intro p; simp [List.mem_filter]
  apply validateLoop_complete
  · intro p hp
    obtain ⟨hp1, hp2⟩ := (hmemf p).mp hp
    refine ⟨hne p hp1 (by rw [hp2]; simp), ?_, fun e he => by simp at he⟩
    intro ex hex
    rcases hout p hp1 g hp2 ex (lookup_some_mem hex) with h | ⟨h1, h2⟩
    · exact Or.inl h
    · right
      obtain ⟨q, hq, rfl⟩ := List.mem_map.mp h1
      exact List.mem_map.mpr ⟨q, (hmemf q).mpr ⟨hq, h2⟩, rfl⟩
  · have : ∀ p ∈ ordered.filter (fun p => w.initOf p.1 == some g), ∀ q ∈ ordered.filter (fun p => w.initOf p.1 == some g),
        p.2 = q.2 → p.1 = q.1 := by
      intro p hp q hq he
      obtain ⟨hp1, hp2⟩ := (hmemf p).mp hp
      obtain ⟨hq1, hq2⟩ := (hmemf q).mp hq
      exact hdist p hp1 q hq1 (by rw [hp2]; simp) (by rw [hp2, hq2]) he
    exact List.pairwise_of_forall_mem_list (fun p hp q hq => this p hp q hq)

/-- **`rename_values` with backing tensors is all-or-nothing**, and when it goes through every
tensor that backs renamed values carries the target name (when the values sharing it agree) -/
theorem renameValuesT_spec (w : TWorld) (pairs : List (Nat × String)) (hok : InitsOk w.toWorld) :
    ((renameValuesT w pairs).2 = true → (renameValuesT w pairs).1 = w)
    ∧ ((renameValuesT w pairs).2 = false →
        (∀ p ∈ pairs, (renameValuesT w pairs).1.vname p.1 = some p.2)
        ∧ (∀ u, u ∉ pairs.map (·.1) → (renameValuesT w pairs).1.vname u = w.vname u)
        ∧ (renameValuesT w pairs).1.nname = w.nname
        ∧ (renameValuesT w pairs).1.initOf = w.initOf
        ∧ InitsOk (renameValuesT w pairs).1.toWorld
        ∧ (∀ g u, u ∈ (renameValuesT w pairs).1.toWorld.inits g ↔ u ∈ w.toWorld.inits g)
        ∧ (renameValuesT w pairs).1.constOf = w.constOf
        ∧ (∀ p ∈ pairs, ∀ t, renTensor w p = some t → (∀ q ∈ pairs, renTensor w q = some t → q.2 = p.2) →
              (renameValuesT w pairs).1.tname t = some p.2)
        ∧ (∀ t, (∀ q ∈ pairs, renTensor w q ≠ some t) → (renameValuesT w pairs).1.tname t = w.tname t)) := by
  unfold renameValuesT
  cases hd : dedupPairs pairs [] with
  | none => exact ⟨fun _ => rfl, fun h => (by cases h)⟩
  | some ordered =>
    simp only
    by_cases hval : validateAll w.toWorld (groupByGraph w.initOf ordered) = true
    swap
    · have : (!validateAll w.toWorld (groupByGraph w.initOf ordered)) = true := by simpa using hval
      rw [if_pos this]
      exact ⟨fun _ => rfl, fun h => (by cases h)⟩
    have : ¬ ((!validateAll w.toWorld (groupByGraph w.initOf ordered)) = true) := by simp [hval]
    rw [if_neg this]
    obtain ⟨_, hmem⟩ := dedupPairs_spec pairs [] ordered hd (by simp)
    have hmem' : ∀ p, p ∈ ordered ↔ p ∈ pairs := fun p => by rw [hmem p]; simp
    by_cases htl : (tensorLoop w ordered w.tname []).2 = true
    · rw [if_pos htl]
      have := tensorLoop_raise w w.tname ordered w.tname [] rfl htl
      refine ⟨fun _ => ?_, fun h => (by cases h)⟩
      show { w with tname := (tensorLoop w ordered w.tname []).1 } = w
      rw [this]
    · rw [if_neg htl]
      have htl' : (tensorLoop w ordered w.tname []).2 = false := by simpa using htl
      have htn := tensorLoop_ok w ordered w.tname [] htl'
      obtain ⟨h0, h1, h2, h3, h4, h5, h6⟩ := applyRename_spec w.toWorld pairs ordered hok hd hval
      refine ⟨fun h => (by rw [h0] at h; cases h), fun _ => ⟨h1, h2, h3, h4, h5, h6, rfl, ?_, ?_⟩⟩
      · intro p hp t hr hall
        show tensorAssign w ordered (tensorLoop w ordered w.tname []).1 t = some p.2
        have hall' : ∀ q ∈ ordered, renTensor w q = some t → q.2 = p.2 := fun q hq => hall q ((hmem' q).mp hq)
        rcases tensorAssign_spec w t p.2 ordered (tensorLoop w ordered w.tname []).1 hall' with ⟨a, _⟩ | ⟨_, b⟩
        · exact a
        · exact absurd hr (b p ((hmem' p).mpr hp))
      · intro t hno
        show tensorAssign w ordered (tensorLoop w ordered w.tname []).1 t = w.tname t
        have hno' : ∀ q ∈ ordered, renTensor w q = some t → q.2 = "" :=
          fun q hq h => absurd h (hno q ((hmem' q).mp hq))
        rw [htn]
        rcases tensorAssign_spec w t "" ordered (tensorAssign w ordered w.tname) hno' with ⟨_, q, hq, b⟩ | ⟨a, _⟩
        · exact absurd b (hno q ((hmem' q).mp hq))
        · rw [a]
          rcases tensorAssign_spec w t "" ordered w.tname hno' with ⟨_, q, hq, b⟩ | ⟨a', _⟩
          · exact absurd b (hno q ((hmem' q).mp hq))
          · exact a'

/-- **`rename_values` succeeds** whenever nothing forces it to refuse: no value is given two
different targets, initializers get non-empty targets that are pairwise different per graph and do
not hit an initializer outside the renamed set, and no tensor refuses its new name.  Swaps, cycles
and arbitrary permutations of initializer names satisfy this. -/
theorem renameValuesT_succeeds (w : TWorld) (pairs : List (Nat × String)) (hok : InitsOk w.toWorld)
    (hcons : ∀ p ∈ pairs, ∀ q ∈ pairs, p.1 = q.1 → p.2 = q.2)
    (hne : ∀ p ∈ pairs, w.initOf p.1 ≠ none → p.2 ≠ "")
    (hdist : ∀ p ∈ pairs, ∀ q ∈ pairs, w.initOf p.1 ≠ none → w.initOf p.1 = w.initOf q.1 → p.2 = q.2 → p.1 = q.1)
    (hout : ∀ p ∈ pairs, ∀ g, w.initOf p.1 = some g → ∀ u, (p.2, u) ∈ w.dicts g → u ∈ pairs.map (·.1))
    (hfz : ∀ p ∈ pairs, ∀ t, renTensor w p = some t → w.frozen t = false) :
    (renameValuesT w pairs).2 = false := by
  obtain ⟨ordered, hd⟩ := dedupPairs_complete pairs [] hcons (fun _ _ q hq => by simp at hq)
  obtain ⟨_, hmem⟩ := dedupPairs_spec pairs [] ordered hd (by simp)
  have hmem' : ∀ p, p ∈ ordered ↔ p ∈ pairs := fun p => by rw [hmem p]; simp
  have hval : validateAll w.toWorld (groupByGraph w.initOf ordered) = true := by
    apply validateAll_complete
    · exact fun p hp => hne p ((hmem' p).mp hp)
    · exact fun p hp q hq => hdist p ((hmem' p).mp hp) q ((hmem' q).mp hq)
    · intro p hp g hg u hu
      right
      have h1 := hout p ((hmem' p).mp hp) g hg u hu
      obtain ⟨q, hq, rfl⟩ := List.mem_map.mp h1
      exact ⟨List.mem_map.mpr ⟨q, (hmem' q).mpr hq, rfl⟩, (hok.key_name g p.2 q.1 hu).2.2⟩
  have htl : (tensorLoop w ordered w.tname []).2 = false := by
    apply tensorLoop_noraise
    intro p hp t h1 h2
    exact hfz p ((hmem' p).mp hp) t ((renTensor_some_iff w p t).mpr ⟨h1, h2⟩)
  obtain ⟨h0, _⟩ := applyRename_spec w.toWorld pairs ordered hok hd hval
  unfold renameValuesT
  simp only [hd, hval, Bool.not_true, Bool.false_eq_true, if_false, htl]
  exact h0

end IrVerif.Names

/-
The public mutating methods of `Attributes` (`AMeth`, Model/Traversal.lean) as sequences of primitive
dict writes: the insertion-ordered-mapping view of `PyDict` (`live`) under `set` / `del`, the effect
of every method on that view, and the world after a method call.
-/
import IrVerif.Lemmas.TraversalLocal
namespace IrVerif.LinkedSet

/-! ### `live` under the primitive writes -/

theorem filterMap_id_map_some {α : Type} : ∀ (l : List α), (l.map some).filterMap id = l
  | [] => rfl
  | a :: l => by simp [filterMap_id_map_some l]

theorem filterMap_setSlot_some (k : Nat) (a : AVal) : ∀ (es : List (Option (Nat × AVal))),
    (es.map (setSlot k (some a))).filterMap id =
      (es.filterMap id).map (fun e => if e.1 == k then (k, a) else e)
  | [] => rfl
  | none :: es => by simpa [setSlot] using filterMap_setSlot_some k a es
  | some (k', a') :: es => by
      have ih := filterMap_setSlot_some k a es
      by_cases h : k' = k
      · subst h
        simp [setSlot, ih]
      · simp [setSlot, h, ih]

theorem filterMap_setSlot_none (k : Nat) : ∀ (es : List (Option (Nat × AVal))),
    (es.map (setSlot k none)).filterMap id = (es.filterMap id).filter (fun e => e.1 != k)
  | [] => rfl
  | none :: es => by simpa [setSlot] using filterMap_setSlot_none k es
  | some (k', a') :: es => by
      have ih := filterMap_setSlot_none k es
      by_cases h : k' = k
      · subst h
        simp [setSlot, ih]
      · simp [setSlot, h, ih]

theorem live_set (d : PyDict) (k : Nat) (a : AVal) : (d.set k a).live = omSet d.live k a := by
  have hh : (d.live.any fun e => e.1 == k) = d.has k := rfl
  unfold omSet
  rw [hh]
  unfold PyDict.set
  cases h : d.has k with
  | true =>
    simp only [↓reduceIte]
    exact filterMap_setSlot_some k a d.entries
  | false =>
    simp only [Bool.false_eq_true, ↓reduceIte]
    by_cases hu : d.usable = 0
    · simp [hu, PyDict.live, filterMap_id_map_some]
    · simp [hu, PyDict.live]

theorem live_del (d : PyDict) (k : Nat) : (d.del k).1.live = omDel d.live k := by
  unfold PyDict.del omDel
  cases h : d.has k with
  | true =>
    simp only [↓reduceIte]
    exact filterMap_setSlot_none k d.entries
  | false =>
    simp only [Bool.false_eq_true, ↓reduceIte]
    symm
    apply List.filter_eq_self.2
    intro e he
    have h2 : d.live.any (fun e => e.1 == k) = false := h
    have := List.any_eq_false.1 h2 e he
    simpa using this

theorem live_prim (d : PyDict) (p : APrim) :
    (d.prim p).live = match p with
      | .set k a => omSet d.live k a
      | .del k => omDel d.live k := by
  cases p with
  | set k a => exact live_set d k a
  | del k => exact live_del d k

/-! ### the documented effect of every method on the insertion-ordered mapping -/

theorem omDel_absent (l : List (Nat × AVal)) (k : Nat) (h : l.any (fun e => e.1 == k) = false) : omDel l k = l := by
  apply List.filter_eq_self.2
  intro e he
  have := List.any_eq_false.1 h e he
  simpa using this

theorem foldl_updPrims : ∀ (kvs : List (Nat × Option AVal)) (d : PyDict),
    (((updPrims kvs).1.foldl PyDict.prim d).live, (updPrims kvs).2) = updEffect d.live kvs
  | [], _ => rfl
  | (k, some a) :: r, d => by
      simp only [updPrims, List.foldl_cons, updEffect, PyDict.prim]
      rw [foldl_updPrims r (d.set k a), live_set]
  | (_, none) :: _, _ => rfl

theorem length_omDel_lt (l : List (Nat × AVal)) (k : Nat) (a : AVal) (tl : List (Nat × AVal)) (h : l = (k, a) :: tl) :
    (omDel l k).length ≤ tl.length := by
  subst h
  simp only [omDel, List.filter_cons]
  simp only [bne_self_eq_false, Bool.false_eq_true, if_false]
  exact List.length_filter_le _ _

theorem clear_live : ∀ (n : Nat) (d : PyDict), d.live.length ≤ n → ((clearPrims n d).foldl PyDict.prim d).live = []
  | 0, d, h => by
      simp only [clearPrims, List.foldl_nil]
      exact List.eq_nil_of_length_eq_zero (by omega)
  | n + 1, d, h => by
      cases hl : d.live with
      | nil => simp [clearPrims, PyDict.firstKey, hl]
      | cons e tl =>
        obtain ⟨k, a⟩ := e
        have hf : d.firstKey = some k := by simp [PyDict.firstKey, hl]
        simp only [clearPrims, hf, List.foldl_cons, PyDict.prim]
        apply clear_live n
        rw [live_del]
        have := length_omDel_lt d.live k a tl hl
        rw [hl] at h
        simp only [List.length_cons] at h
        omega

/-- **every method has its documented effect** on the mapping, and raises exactly when documented -/
theorem meth_effect (d : PyDict) (m : AMeth) : ((m.run d).1.live, (m.run d).2) = m.effect d.live := by
  have hh : d.has = fun k => d.live.any (fun e => e.1 == k) := rfl
  unfold AMeth.run
  cases m with
  | setitem k a =>
    cases a with
    | some a => simp [AMeth.prims, AMeth.effect, PyDict.prim, live_set]
    | none => simp [AMeth.prims, AMeth.effect]
  | add k a => simp [AMeth.prims, AMeth.effect, PyDict.prim, live_set]
  | update kvs => exact foldl_updPrims kvs d
  | delitem k =>
    simp only [AMeth.prims, AMeth.effect, hh]
    cases h : d.live.any (fun e => e.1 == k) with
    | true => simp [PyDict.prim, live_del]
    | false => simp [omDel_absent _ _ h]
  | pop k dflt =>
    simp only [AMeth.prims, AMeth.effect, hh]
    cases h : d.live.any (fun e => e.1 == k) with
    | true => simp [PyDict.prim, live_del]
    | false => simp [omDel_absent _ _ h]
  | popitem =>
    simp only [AMeth.prims, AMeth.effect, PyDict.firstKey]
    cases hl : d.live with
    | nil => simp [hl]
    | cons e tl => simp [PyDict.prim, live_del, hl]
  | clear =>
    simp only [AMeth.prims, AMeth.effect]
    rw [clear_live d.used d (Nat.le_refl _)]
  | setdefault k a =>
    simp only [AMeth.prims, AMeth.effect, hh]
    cases h : d.live.any (fun e => e.1 == k) with
    | true => simp
    | false =>
      cases a with
      | some a => simp [PyDict.prim, live_set, omSet, h]
      | none => simp

/-! ### the world after a method call -/

theorem AgreeOff.refl (v : Nat) (w : TWorld) : AgreeOff v w w := ⟨rfl, rfl, fun _ _ => rfl⟩

theorem AgreeOff.trans {v : Nat} {w1 w2 w3 : TWorld} (h1 : AgreeOff v w1 w2) (h2 : AgreeOff v w2 w3) :
    AgreeOff v w1 w3 :=
  ⟨h2.sets.trans h1.sets, h2.recf.trans h1.recf, fun u hu => (h2.dict u hu).trans (h1.dict u hu)⟩

theorem dictOf_setDict_self (w : TWorld) (v : Nat) (dct : PyDict) : (w.setDict v dct).dictOf v = dct := by
  simp [TWorld.setDict, TWorld.dictOf, List.lookup]

theorem dictOf_applyPrimEv (w : TWorld) (v : Nat) (p : APrim) :
    (w.applyEv (p.toEv v)).dictOf v = (w.dictOf v).prim p ∧ AgreeOff v w (w.applyEv (p.toEv v)) := by
  cases p with
  | set k a => exact ⟨dictOf_setDict_self w v _, agreeOff_setAttr w v k a⟩
  | del k =>
    refine ⟨?_, agreeOff_delAttr w v k⟩
    simp only [APrim.toEv, TWorld.applyEv, TWorld.delAttr, PyDict.prim]
    by_cases h : (w.dictOf v).has k = true
    · simp [PyDict.del, h, dictOf_setDict_self]
    · simp [PyDict.del, h]

theorem foldl_prims_world (v : Nat) : ∀ (ps : List APrim) (w : TWorld),
    ((ps.map (APrim.toEv v)).foldl TWorld.applyEv w).dictOf v = ps.foldl PyDict.prim (w.dictOf v) ∧
    AgreeOff v w ((ps.map (APrim.toEv v)).foldl TWorld.applyEv w)
  | [], w => ⟨rfl, AgreeOff.refl v w⟩
  | p :: ps, w => by
      obtain ⟨h1, h2⟩ := dictOf_applyPrimEv w v p
      obtain ⟨i1, i2⟩ := foldl_prims_world v ps (w.applyEv (p.toEv v))
      simp only [List.map_cons, List.foldl_cons]
      exact ⟨by rw [i1, h1], h2.trans i2⟩

end IrVerif.LinkedSet

/-
C09 on top of C07: the configuration `planCfg` builds from the arguments of a save (Model/WriterPlan.lean,
offsets from C07's `Layout.computeInfos`, shards from `Layout.shardRaw`, start images from the
preallocation step) satisfies `Layout` (pairwise disjoint ranges — from `Layout.C07_disjoint`) and
`Prealloc` (zero start image, as long as the last end — from `Layout.totalSize_eq_layoutEnd`), the two
hypotheses of the byte-identity theorems of C09.
-/
import IrVerif.Props.C07
import IrVerif.Lemmas.WriterNFiles
import IrVerif.Model.WriterPlan
namespace IrVerif.WriterN
open IrVerif.Layout (Info computeInfos computeInfosFrom layoutEnd layoutEndFrom alignOffset totalSize)

/-! ### the preallocation step -/

theorem preallocImage_eq (al : Option Nat) (athr : Nat) (sh : List TSpec) (old : List Nat) :
    preallocImage al athr sh old = List.replicate (layoutEnd al athr (sh.map TSpec.nbytes)) 0 := by
  simp [preallocImage, truncate, openWb, fileInfos, Layout.totalSize_eq_layoutEnd]

/-! ### one data file -/

def toInfo (t : Tensor) : Info := ⟨t.off, t.data.length⟩

theorem placeZip_infos (file : Nat) (jobOf : Nat → Nat) (al : Option Nat) (athr : Nat) :
    ∀ (sh : List TSpec) (k cur : Nat),
      (placeZip file jobOf k (computeInfosFrom al athr cur (sh.map TSpec.nbytes)) sh).map toInfo =
        computeInfosFrom al athr cur (sh.map TSpec.nbytes)
  | [], _, _ => rfl
  | t :: rest, k, cur => by
      simp only [List.map_cons, computeInfosFrom, placeZip, toInfo]
      rw [placeZip_infos file jobOf al athr rest]
      rfl

theorem placeFile_infos (al : Option Nat) (athr : Nat) (file : Nat) (jobOf : Nat → Nat) (sh : List TSpec) :
    (placeFile al athr file jobOf sh).map toInfo = computeInfos al athr (sh.map TSpec.nbytes) :=
  placeZip_infos file jobOf al athr sh 0 0

theorem placeZip_file (file : Nat) (jobOf : Nat → Nat) : ∀ (infs : List Info) (sh : List TSpec) (k : Nat),
    ∀ t ∈ placeZip file jobOf k infs sh, t.file = file
  | [], _, _ => by intro t h; simp [placeZip] at h
  | _ :: _, [], _ => by intro t h; simp [placeZip] at h
  | inf :: infs, x :: sh, k => by
      intro t h
      simp only [placeZip, List.mem_cons] at h
      rcases h with rfl | h
      · rfl
      · exact placeZip_file file jobOf infs sh (k + 1) t h

theorem placeFile_file (al : Option Nat) (athr : Nat) (file : Nat) (jobOf : Nat → Nat) (sh : List TSpec) :
    ∀ t ∈ placeFile al athr file jobOf sh, t.file = file :=
  placeZip_file file jobOf _ sh 0

/-- **the ranges of one data file are disjoint** — C07's theorem about `computeInfos`, read on the
    tensors of the writer configuration -/
theorem placeFile_pairwise (al : Option Nat) (athr : Nat) (file : Nat) (jobOf : Nat → Nat)
    (sh : List TSpec) :
    (placeFile al athr file jobOf sh).Pairwise (fun a b => a.off + a.data.length ≤ b.off) := by
  have h := Layout.C07_disjoint al athr (sh.map TSpec.nbytes)
  rw [← placeFile_infos al athr file jobOf sh, List.pairwise_map] at h
  exact h

/-- the running offset ends at the end of the last non-empty tensor (zero-length tensors are never
    aligned: `0 ≤ align_threshold`), or nothing was placed -/
theorem layoutEndFrom_attained (al : Option Nat) (athr : Nat) : ∀ (sizes : List Nat) (cur : Nat),
    layoutEndFrom al athr cur sizes = cur ∨
      ∃ inf ∈ computeInfosFrom al athr cur sizes, inf.length ≠ 0 ∧
        inf.offset + inf.length = layoutEndFrom al athr cur sizes
  | [], _ => Or.inl rfl
  | s :: rest, cur => by
      simp only [layoutEndFrom, computeInfosFrom]
      rcases layoutEndFrom_attained al athr rest (alignOffset cur s al athr + s) with h | ⟨inf, hm, h1, h2⟩
      · by_cases hs : s = 0
        · left
          subst hs
          rw [h, Layout.alignOffset_small cur 0 al athr (Nat.zero_le _)]; rfl
        · right
          exact ⟨⟨alignOffset cur s al athr, s⟩, List.mem_cons_self .., hs, h.symm⟩
      · right
        exact ⟨inf, List.mem_cons_of_mem _ hm, h1, h2⟩

theorem placeFile_pairwise' (al : Option Nat) (athr : Nat) (file : Nat) (jobOf : Nat → Nat)
    (sh : List TSpec) :
    (placeFile al athr file jobOf sh).Pairwise
      (fun a b => a.file = b.file → a.off + a.data.length ≤ b.off) :=
  List.Pairwise.imp (S := fun (a b : Tensor) => a.file = b.file → a.off + a.data.length ≤ b.off)
    (fun h _ => h) (placeFile_pairwise al athr file jobOf sh)

theorem placeFile_end (al : Option Nat) (athr : Nat) (file : Nat) (jobOf : Nat → Nat) (sh : List TSpec) :
    layoutEnd al athr (sh.map TSpec.nbytes) = 0 ∨
      ∃ t ∈ placeFile al athr file jobOf sh, t.data ≠ [] ∧
        layoutEnd al athr (sh.map TSpec.nbytes) = t.off + t.data.length := by
  rcases layoutEndFrom_attained al athr (sh.map TSpec.nbytes) 0 with h | ⟨inf, hm, h1, h2⟩
  · exact Or.inl h
  · right
    have hm' : inf ∈ (placeFile al athr file jobOf sh).map toInfo := by
      rw [placeFile_infos]; exact hm
    obtain ⟨t, ht, rfl⟩ := List.mem_map.1 hm'
    refine ⟨t, ht, ?_, h2.symm⟩
    intro e; apply h1; simp [toInfo, e]

/-! ### what the byte theorems need, on lists -/

/-- tensors and start images of a plan: ranges in one file are ordered and disjoint, every tensor goes
    to an existing file, every start image is all zeros and as long as the end of some non-empty
    tensor of that file (or empty) -/
structure PlanOK (tensors : List Tensor) (files : List (List Nat)) : Prop where
  pw : tensors.Pairwise (fun a b => a.file = b.file → a.off + a.data.length ≤ b.off)
  file_lt : ∀ t ∈ tensors, t.file < files.length
  zeros : ∀ f ∈ files, ∀ b ∈ f, b = 0
  tight : ∀ φ, (files.getD φ []).length = 0 ∨
    ∃ t ∈ tensors, t.file = φ ∧ t.data ≠ [] ∧ (files.getD φ []).length = t.off + t.data.length

theorem cfg_get {cfg : Cfg} {i : Nat} (hi : i < cfg.n) :
    cfg.tensors.getD i default = cfg.tensors[i]'hi := by
  have hi' : i < cfg.tensors.length := hi
  rw [List.getD_eq_getElem?_getD, List.getElem?_eq_getElem hi']; rfl

theorem layout_of_planOK {cfg : Cfg} (h : PlanOK cfg.tensors cfg.files) : Layout cfg := by
  refine ⟨fun i hi => ?_, ?_⟩
  · simp only [Cfg.file, cfg_get hi]
    exact h.file_lt _ (List.getElem_mem _)
  · have key : ∀ i j, i < j → (hj : j < cfg.n) → cfg.file i = cfg.file j →
        cfg.off i + (cfg.data i).length ≤ cfg.off j := by
      intro i j hij hj hf
      have hi : i < cfg.n := by omega
      have := (List.pairwise_iff_getElem.1 h.pw) i j hi hj hij
      simp only [Cfg.file, Cfg.off, Cfg.data, cfg_get hi, cfg_get hj] at hf ⊢
      exact this hf
    intro i j hi hj hne hf
    rcases Nat.lt_or_gt_of_ne hne with hlt | hlt
    · exact Or.inl (key i j hlt hj hf)
    · exact Or.inr (key j i hlt hi hf.symm)

theorem prealloc_of_planOK {cfg : Cfg} (h : PlanOK cfg.tensors cfg.files) : Prealloc cfg := by
  refine ⟨fun φ k => ?_, fun φ => ?_⟩
  · simp only [getB, List.getD_eq_getElem?_getD]
    cases hf : cfg.files[φ]? with
    | none => simp
    | some f =>
        simp only [Option.getD_some]
        cases hk : f[k]? with
        | none => rfl
        | some b =>
            have := h.zeros f (List.mem_of_getElem? hf) b (List.mem_of_getElem? hk)
            simp [this]
  · rcases h.tight φ with e | ⟨t, ht, hf, hd, e⟩
    · exact Or.inl e
    · right
      obtain ⟨i, hi, rfl⟩ := List.mem_iff_getElem.1 ht
      have hi' : i < cfg.n := hi
      refine ⟨i, hi', ?_, ?_, ?_⟩
      · simp only [Cfg.file, cfg_get hi']; exact hf
      · simp only [Cfg.data, cfg_get hi']; exact hd
      · simp only [Cfg.off, Cfg.data, cfg_get hi']; exact e

/-! ### the single-file writer -/

theorem replicate_zeros (n : Nat) : ∀ b ∈ List.replicate n 0, b = 0 := by
  intro b hb; exact (List.mem_replicate.1 hb).2

theorem planSingle_ok (ts : List TSpec) (al : Option Nat) (athr : Nat) (workers capacity : Nat) :
    PlanOK (planSingle ts al athr workers capacity).tensors
      (planSingle ts al athr workers capacity).files := by
  refine ⟨?_, ?_, ?_, ?_⟩
  · exact placeFile_pairwise' al athr 0 _ ts
  · intro t ht
    rw [placeFile_file al athr 0 _ ts t ht]; simp [planSingle]
  · intro f hf b hb
    simp only [planSingle, List.mem_singleton] at hf
    subst hf
    rw [preallocImage_eq] at hb
    exact replicate_zeros _ b hb
  · intro φ
    cases φ with
    | zero =>
        simp only [planSingle, List.getD_cons_zero, preallocImage_eq, List.length_replicate]
        rcases placeFile_end al athr 0 (fun k => k) ts with h | ⟨t, ht, hd, he⟩
        · exact Or.inl h
        · exact Or.inr ⟨t, ht, placeFile_file al athr 0 _ ts t ht, hd, he⟩
    | succ φ => left; simp [planSingle]

/-! ### the shard loop -/

theorem planShards_files_length (al : Option Nat) (athr : Nat) (S wps : Nat) :
    ∀ (shards : List (List TSpec)) (j st np nj : Nat),
      (planShards al athr S wps j st np nj shards).files.length = shards.length
  | [], _, _, _, _ => rfl
  | sh :: rest, j, st, np, nj => by
      simp only [planShards]
      split
      · simp [planShards_files_length al athr S wps rest]
      · simp [planShards_files_length al athr S wps rest]

theorem planShards_file_range (al : Option Nat) (athr : Nat) (S wps : Nat) :
    ∀ (shards : List (List TSpec)) (j st np nj : Nat),
      ∀ t ∈ (planShards al athr S wps j st np nj shards).tensors, j ≤ t.file ∧ t.file < j + shards.length
  | [], _, _, _, _ => by intro t h; simp [planShards] at h
  | sh :: rest, j, st, np, nj => by
      intro t h
      simp only [planShards] at h
      split at h
      · simp only [List.mem_append] at h
        rcases h with h | h
        · rw [placeFile_file al athr j _ sh t h]; simp
        · have := planShards_file_range al athr S wps rest _ _ _ _ t h
          simp only [List.length_cons]; omega
      · simp only [List.mem_append] at h
        rcases h with h | h
        · rw [placeFile_file al athr j _ sh t h]; simp
        · have := planShards_file_range al athr S wps rest _ _ _ _ t h
          simp only [List.length_cons]; omega

theorem planShards_pairwise (al : Option Nat) (athr : Nat) (S wps : Nat) :
    ∀ (shards : List (List TSpec)) (j st np nj : Nat),
      (planShards al athr S wps j st np nj shards).tensors.Pairwise
        (fun a b => a.file = b.file → a.off + a.data.length ≤ b.off)
  | [], _, _, _, _ => by simp [planShards]
  | sh :: rest, j, st, np, nj => by
      have cross : ∀ (jobOf : Nat → Nat) (st' np' nj' : Nat),
          (placeFile al athr j jobOf sh ++
            (planShards al athr S wps (j + 1) st' np' nj' rest).tensors).Pairwise
            (fun a b => a.file = b.file → a.off + a.data.length ≤ b.off) := by
        intro jobOf st' np' nj'
        rw [List.pairwise_append]
        refine ⟨placeFile_pairwise' al athr j jobOf sh,
          planShards_pairwise al athr S wps rest _ _ _ _, fun a ha b hb hf => ?_⟩
        have h1 := placeFile_file al athr j jobOf sh a ha
        have h2 := (planShards_file_range al athr S wps rest _ _ _ _ b hb).1
        omega
      simp only [planShards]
      split
      · exact cross _ _ _ _
      · exact cross _ _ _ _

theorem planShards_zeros (al : Option Nat) (athr : Nat) (S wps : Nat) :
    ∀ (shards : List (List TSpec)) (j st np nj : Nat),
      ∀ f ∈ (planShards al athr S wps j st np nj shards).files, ∀ b ∈ f, b = 0
  | [], _, _, _, _ => by intro f h; simp [planShards] at h
  | sh :: rest, j, st, np, nj => by
      intro f h b hb
      simp only [planShards] at h
      split at h
      · simp only [List.mem_cons] at h
        rcases h with rfl | h
        · rw [preallocImage_eq] at hb; exact replicate_zeros _ b hb
        · exact planShards_zeros al athr S wps rest _ _ _ _ f h b hb
      · simp only [List.mem_cons] at h
        rcases h with rfl | h
        · simp [openWb] at hb
        · exact planShards_zeros al athr S wps rest _ _ _ _ f h b hb

theorem planShards_tight (al : Option Nat) (athr : Nat) (S wps : Nat) :
    ∀ (shards : List (List TSpec)) (j st np nj φ : Nat),
      ((planShards al athr S wps j st np nj shards).files.getD φ []).length = 0 ∨
      ∃ t ∈ (planShards al athr S wps j st np nj shards).tensors, t.file = j + φ ∧ t.data ≠ [] ∧
        ((planShards al athr S wps j st np nj shards).files.getD φ []).length = t.off + t.data.length
  | [], _, _, _, _, _ => by left; simp [planShards]
  | sh :: rest, j, st, np, nj, φ => by
      simp only [planShards]
      split
      · cases φ with
        | zero =>
            simp only [List.getD_cons_zero, preallocImage_eq, List.length_replicate]
            rcases placeFile_end al athr j (fun k => S + nj + k) sh with h | ⟨t, ht, hd, he⟩
            · exact Or.inl h
            · exact Or.inr ⟨t, List.mem_append_left _ ht, by
                rw [placeFile_file al athr j _ sh t ht]; rfl, hd, he⟩
        | succ φ =>
            simp only [List.getD_cons_succ]
            rcases planShards_tight al athr S wps rest (j + 1) (st + sh.length) (np + 1)
              (nj + sh.length) φ with h | ⟨t, ht, hf, hd, he⟩
            · exact Or.inl h
            · exact Or.inr ⟨t, List.mem_append_right _ ht, by omega, hd, he⟩
      · cases φ with
        | zero => left; simp [openWb]
        | succ φ =>
            simp only [List.getD_cons_succ]
            rcases planShards_tight al athr S wps rest (j + 1) (st + sh.length) np nj φ with
              h | ⟨t, ht, hf, hd, he⟩
            · exact Or.inl h
            · exact Or.inr ⟨t, List.mem_append_right _ ht, by omega, hd, he⟩

theorem planSharded_ok (ts : List TSpec) (shards : List (List TSpec)) (al : Option Nat) (athr : Nat)
    (workers capacity : Nat) :
    PlanOK (planSharded ts shards al athr workers capacity).tensors
      (planSharded ts shards al athr workers capacity).files := by
  refine ⟨planShards_pairwise al athr _ _ shards 0 0 0 0, ?_, planShards_zeros al athr _ _ shards 0 0 0 0, ?_⟩
  · intro t ht
    have := (planShards_file_range al athr _ _ shards 0 0 0 0 t ht).2
    simp only [planSharded, planShards_files_length]
    omega
  · intro φ
    have := planShards_tight al athr shards.length
      (max 1 ((workers - min workers shards.length) / min workers shards.length)) shards 0 0 0 0 φ
    simpa [planSharded] using this

/-- **the configuration of every concurrent save has disjoint ranges and a zero start image** -/
theorem planCfg_ok {ts : List TSpec} {maxShard al : Option Nat} {athr workers capacity : Nat} {cfg : Cfg}
    (h : planCfg ts maxShard al athr workers capacity = some cfg) : PlanOK cfg.tensors cfg.files := by
  simp only [planCfg] at h
  split at h
  · split at h
    · cases h; exact planSingle_ok ts al athr workers capacity
    · simp at h
  · split at h
    · cases h; exact planSharded_ok ts _ al athr workers capacity
    · simp at h

theorem planCfg_layout {ts : List TSpec} {maxShard al : Option Nat} {athr workers capacity : Nat} {cfg : Cfg}
    (h : planCfg ts maxShard al athr workers capacity = some cfg) : Layout cfg :=
  layout_of_planOK (planCfg_ok h)

theorem planCfg_prealloc {ts : List TSpec} {maxShard al : Option Nat} {athr workers capacity : Nat}
    {cfg : Cfg} (h : planCfg ts maxShard al athr workers capacity = some cfg) : Prealloc cfg :=
  prealloc_of_planOK (planCfg_ok h)

end IrVerif.WriterN

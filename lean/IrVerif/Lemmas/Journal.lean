/-
Helper development for C20 (journaling): invariants that every instrumented call preserves,
the simulation between a journaled and a plain run, and the accounting of entries.
Core Lean only.
-/
import IrVerif.Model.Journal
namespace IrVerif.Journal

variable {σ : Type}

/-! ### generic: predicates that instrumented calls preserve -/

/-- A predicate on worlds that survives the three primitive effects of a call. -/
structure Stable (I : World σ → Prop) : Prop where
  put : ∀ (w : World σ) (s : σ), I w → I { w with ir := s }
  record : ∀ (w : World σ) (j k t : Nat), I w → I (record j k t w)
  emit : ∀ (w : World σ) (e : Ev), I w → I (emit e w)

theorem runProg_stable {I : World σ → Prop} (hI : Stable I)
    {disp : Nat → Obj → Val → World σ → World σ × Outcome}
    (hd : ∀ s o a w, I w → I (disp s o a w).1) :
    ∀ (p : Prog σ) (w : World σ), I w → I (runProg disp p w).1 := by
  intro p
  induction p with
  | done o => intro w h; simpa [runProg] using h
  | get k ih => intro w h; simpa [runProg] using ih _ w h
  | put s k ih => intro w h; simpa [runProg] using ih _ (hI.put w s h)
  | call slot self arg k ih => intro w h; simpa [runProg] using ih _ _ (hd slot self arg w h)

theorem runImpl_stable {I : World σ → Prop} (hI : Stable I) (cfg : Cfg σ)
    {body : Nat → Obj → Val → World σ → World σ × Outcome}
    (hb : ∀ k s a w, I w → I (body k s a w).1) :
    ∀ (impl : Impl) (s : Obj) (a : Val) (w : World σ), I w → I (runImpl cfg body impl s a w).1 := by
  intro impl
  induction impl with
  | orig k => intro s a w h; simpa [runImpl] using hb k s a w h
  | wrap j k inner ih =>
    intro s a w h
    cases hk : kindOf k
    · -- init
      have h1 := ih s a w h
      simp only [runImpl, hk]
      split
      · split
        · exact hI.record _ _ _ _ (hI.put _ _ h1)
        · exact h1
      · exact h1
    all_goals
      simp only [runImpl, hk]
      split
      · exact h
      · next s' _ =>
        have h1 := ih s a _ (hI.put w s' h)
        split
        · exact hI.record _ _ _ _ h1
        · exact h1

theorem runOrig_stable {I : World σ → Prop} (hI : Stable I) (cfg : Cfg σ)
    {disp : Nat → Obj → Val → World σ → World σ × Outcome}
    (hd : ∀ s o a w, I w → I (disp s o a w).1) :
    ∀ k s a w, I w → I (runOrig cfg disp k s a w).1 := by
  intro k s a w h
  simp only [runOrig]
  exact hI.emit _ _ (runProg_stable hI hd _ _ (hI.emit _ _ h))

theorem dispatch_stable {I : World σ → Prop} (hI : Stable I) (cfg : Cfg σ) :
    ∀ (f slot : Nat) (s : Obj) (a : Val) (w : World σ), I w → I (dispatch cfg f slot s a w).1 := by
  intro f
  induction f with
  | zero => intro slot s a w h; simpa [dispatch] using h
  | succ f ih =>
    intro slot s a w h
    simp only [dispatch]
    exact runImpl_stable hI cfg (runOrig_stable hI cfg ih) _ _ _ _ h

/-! ### frame: control state that no instrumented call touches -/

/-- `w'` has the same class table, current journal, captured tables, previous links, active
    flags and log as `w`. -/
structure SameCtl (w w' : World σ) : Prop where
  table : w'.table = w.table
  current : w'.current = w.current
  captured : ∀ i, (w'.journals i).captured = (w.journals i).captured
  previous : ∀ i, (w'.journals i).previous = (w.journals i).previous
  active : ∀ i, (w'.journals i).active = (w.journals i).active
  log : w'.log = w.log

theorem SameCtl.refl (w : World σ) : SameCtl w w :=
  ⟨rfl, rfl, fun _ => rfl, fun _ => rfl, fun _ => rfl, rfl⟩

theorem sameCtl_stable (w : World σ) : Stable (SameCtl w) where
  put := fun w' s h => ⟨h.table, h.current, h.captured, h.previous, h.active, h.log⟩
  emit := fun w' e h => ⟨h.table, h.current, h.captured, h.previous, h.active, h.log⟩
  record := by
    intro w' j k t h
    refine ⟨h.table, h.current, ?_, ?_, ?_, h.log⟩
    · intro i
      simp only [record, upd]
      split
      · next hi => subst hi; exact h.captured i
      · exact h.captured i
    · intro i
      simp only [record, upd]
      split
      · next hi => subst hi; exact h.previous i
      · exact h.previous i
    · intro i
      simp only [record, upd]
      split
      · next hi => subst hi; exact h.active i
      · exact h.active i

theorem dispatch_frame (cfg : Cfg σ) (f slot : Nat) (s : Obj) (a : Val) (w : World σ) :
    SameCtl w (dispatch cfg f slot s a w).1 :=
  dispatch_stable (sameCtl_stable w) cfg f slot s a w (SameCtl.refl w)

theorem runProg_frame (cfg : Cfg σ) (f : Nat) (p : Prog σ) (w : World σ) :
    SameCtl w (runProg (dispatch cfg f) p w).1 :=
  runProg_stable (sameCtl_stable w) (fun s o a w' h => dispatch_stable (sameCtl_stable w) cfg f s o a w' h)
    p w (SameCtl.refl w)

/-! ### blocks: an active journal keeps its control fields; tables are restored -/

theorem enterRaw_other (j i : Nat) (w : World σ) (h : i ≠ j) :
    (enterRaw j w).journals i = w.journals i := by
  simp [enterRaw, upd, h]

theorem exit_other (j i : Nat) (w : World σ) (h : i ≠ j) : (exit j w).journals i = w.journals i := by
  simp only [exit]
  split
  · rfl
  · simp [upd, h]

theorem exit_captured (j i : Nat) (w : World σ) :
    ((exit j w).journals i).captured = (w.journals i).captured := by
  simp only [exit]
  split
  · rfl
  · simp only [upd]
    split
    · next h => subst h; rfl
    · rfl

theorem exit_entries (j i : Nat) (w : World σ) :
    ((exit j w).journals i).entries = (w.journals i).entries := by
  simp only [exit]
  split
  · rfl
  · simp only [upd]
    split
    · next h => subst h; rfl
    · rfl

theorem runBlock_withJ_refused (cfg : Cfg σ) (fuel j : Nat) (body : Block σ) (w : World σ)
    (h : (w.journals j).active = true) :
    runBlock cfg fuel (.withJ j body) w = (w, some enterExn) := by
  simp [runBlock, enter, h]

theorem runBlock_withJ_entered (cfg : Cfg σ) (fuel j : Nat) (body : Block σ) (w : World σ)
    (h : (w.journals j).active = false) :
    runBlock cfg fuel (.withJ j body) w =
      (exit j (runBlock cfg fuel body (enterRaw j w)).1, (runBlock cfg fuel body (enterRaw j w)).2) := by
  simp [runBlock, enter, h]

/-- A journal that is active keeps its captured table, previous link and active flag through any
    block: its own `__enter__` is refused, and nothing else writes them. -/
theorem runBlock_frame_active (cfg : Cfg σ) (fuel : Nat) :
    ∀ (b : Block σ) (w : World σ) (i : Nat), (w.journals i).active = true →
      ((runBlock cfg fuel b w).1.journals i).captured = (w.journals i).captured ∧
      ((runBlock cfg fuel b w).1.journals i).previous = (w.journals i).previous ∧
      ((runBlock cfg fuel b w).1.journals i).active = true := by
  intro b
  induction b with
  | skip => intro w i h; exact ⟨rfl, rfl, h⟩
  | op p =>
    intro w i h
    have hf := runProg_frame cfg fuel p w
    exact ⟨hf.captured i, hf.previous i, (hf.active i).trans h⟩
  | seq a b iha ihb =>
    intro w i hi
    have h1 := iha w i hi
    simp only [runBlock]
    split
    · have h2 := ihb (runBlock cfg fuel a w).1 i h1.2.2
      exact ⟨h2.1.trans h1.1, h2.2.1.trans h1.2.1, h2.2.2⟩
    · exact h1
  | withJ j body ih =>
    intro w i hi
    cases hj : (w.journals j).active with
    | true => rw [runBlock_withJ_refused cfg fuel j body w hj]; exact ⟨rfl, rfl, hi⟩
    | false =>
      rw [runBlock_withJ_entered cfg fuel j body w hj]
      have hij : i ≠ j := by intro e; subst e; rw [hi] at hj; cases hj
      have hi1 : ((enterRaw j w).journals i).active = true := by rw [enterRaw_other j i w hij]; exact hi
      have h1 := ih (enterRaw j w) i hi1
      rw [enterRaw_other j i w hij] at h1
      show ((exit j _).journals i).captured = _ ∧ ((exit j _).journals i).previous = _ ∧ ((exit j _).journals i).active = true
      rw [exit_other j i _ hij]
      exact h1
  | attempt body ih =>
    intro w i hi
    exact ih w i hi

/-- table and current journal after any block are those before it -/
theorem block_restore (cfg : Cfg σ) (fuel : Nat) :
    ∀ (b : Block σ) (w : World σ),
      (runBlock cfg fuel b w).1.table = w.table ∧ (runBlock cfg fuel b w).1.current = w.current := by
  intro b
  induction b with
  | skip => intro w; exact ⟨rfl, rfl⟩
  | op p =>
    intro w
    have h := runProg_frame cfg fuel p w
    exact ⟨h.table, h.current⟩
  | seq a b iha ihb =>
    intro w
    have h1 := iha w
    simp only [runBlock]
    split
    · have h2 := ihb (runBlock cfg fuel a w).1
      exact ⟨h2.1.trans h1.1, h2.2.trans h1.2⟩
    · exact h1
  | withJ j body ih =>
    intro w
    cases hj : (w.journals j).active with
    | true => rw [runBlock_withJ_refused cfg fuel j body w hj]; exact ⟨rfl, rfl⟩
    | false =>
      rw [runBlock_withJ_entered cfg fuel j body w hj]
      have hact : ((enterRaw j w).journals j).active = true := by simp [enterRaw, upd]
      have hc := runBlock_frame_active cfg fuel body (enterRaw j w) j hact
      have hcap : ((runBlock cfg fuel body (enterRaw j w)).1.journals j).captured = some w.table := by
        rw [hc.1]; simp [enterRaw, upd]
      have hprev : ((runBlock cfg fuel body (enterRaw j w)).1.journals j).previous = w.current := by
        rw [hc.2.1]; simp [enterRaw, upd]
      simp [exit, hcap, hprev]
  | attempt body ih =>
    intro w
    exact ih w

/-- so are the active flags -/
theorem block_active_restore (cfg : Cfg σ) (fuel : Nat) :
    ∀ (b : Block σ) (w : World σ) (i : Nat),
      ((runBlock cfg fuel b w).1.journals i).active = (w.journals i).active := by
  intro b
  induction b with
  | skip => intro w i; rfl
  | op p => intro w i; exact (runProg_frame cfg fuel p w).active i
  | seq a b iha ihb =>
    intro w i
    simp only [runBlock]
    split
    · exact (ihb _ i).trans (iha w i)
    · exact iha w i
  | withJ j body ih =>
    intro w i
    cases hj : (w.journals j).active with
    | true => rw [runBlock_withJ_refused cfg fuel j body w hj]
    | false =>
      rw [runBlock_withJ_entered cfg fuel j body w hj]
      by_cases hij : i = j
      · subst hij
        have hact : ((enterRaw i w).journals i).active = true := by simp [enterRaw, upd]
        have hc := runBlock_frame_active cfg fuel body (enterRaw i w) i hact
        have hcap : ((runBlock cfg fuel body (enterRaw i w)).1.journals i).captured = some w.table := by
          rw [hc.1]; simp [enterRaw, upd]
        simp [exit, hcap, upd, hj]
      · show ((exit j _).journals i).active = _
        rw [exit_other j i _ hij, ih (enterRaw j w) i, enterRaw_other j i w hij]
  | attempt body ih => intro w i; exact ih w i

/-! ### simulation: a journaled world against the plain one -/

/-- `impl` is a stack of wrappers, all made for slot `k`, around the original of slot `k`. -/
def ChainFor (k : Nat) : Impl → Prop
  | .orig k' => k' = k
  | .wrap _ k' inner => k' = k ∧ ChainFor k inner

/-- every slot of the table holds wrappers around its own original -/
def Chain (t : Table) : Prop := ∀ k, ChainFor k (t k)

theorem chain_pristine : Chain pristine := fun _ => rfl

/-- every table captured by a journal is a chain -/
def CapturedOk (w : World σ) : Prop := ∀ j t, (w.journals j).captured = some t → Chain t

/-- constructors and property setters return None (`_init_wrapper` and `_setter_wrapper` discard
    what the original returned) -/
def ProcNone (cfg : Cfg σ) : Prop :=
  ∀ k, (kindOf k = .init ∨ kindOf k = .setter) →
    ∀ (disp : Nat → Obj → Val → World σ → World σ × Outcome)
    (self : Obj) (arg : Val) (w : World σ) (v : Val),
    (runProg disp (cfg.impl k self arg) w).2 = .ret v → v = .none

/-- the wrappers' `details` expressions never raise -/
def DetailsOk (cfg : Cfg σ) : Prop := ∀ k self arg s, ∃ s', cfg.details k self arg s = some s'

/-- evaluating a `details` expression leaves the state (including one-shot iterable arguments) as
    it was -/
def DetailsPure (cfg : Cfg σ) : Prop :=
  ∀ k self arg s s', cfg.details k self arg s = some s' → s' = s

theorem details_eq {cfg : Cfg σ} (hok : DetailsOk cfg) (hpure : DetailsPure cfg)
    (k : Nat) (self : Obj) (arg : Val) (s : σ) : cfg.details k self arg s = some s := by
  obtain ⟨s', h⟩ := hok k self arg s
  rw [h, hpure k self arg s s' h]

/-- `w` (any wrappers installed) and `w0` (no wrapper anywhere) are in the same IR state, with the
    same outcomes so far and the same original functions executed so far. -/
structure Rel (w w0 : World σ) : Prop where
  ir : w.ir = w0.ir
  log : w.log = w0.log
  calls : w.trace.filter isCall = w0.trace.filter isCall
  chain : Chain w.table
  plain : w0.table = pristine

theorem Rel.record {w w0 : World σ} (h : Rel w w0) (j k t : Nat) : Rel (record j k t w) w0 :=
  ⟨h.ir, h.log, h.calls, h.chain, h.plain⟩

theorem Rel.emit {w w0 : World σ} (h : Rel w w0) (e : Ev) : Rel (emit e w) (emit e w0) := by
  refine ⟨h.ir, h.log, ?_, h.chain, h.plain⟩
  show List.filter isCall (w.trace ++ [e]) = List.filter isCall (w0.trace ++ [e])
  rw [List.filter_append, List.filter_append, h.calls]

theorem runProg_rel {disp disp0 : Nat → Obj → Val → World σ → World σ × Outcome}
    (hd : ∀ s o a w w0, Rel w w0 →
      Rel (disp s o a w).1 (disp0 s o a w0).1 ∧ (disp s o a w).2 = (disp0 s o a w0).2) :
    ∀ (p : Prog σ) (w w0 : World σ), Rel w w0 →
      Rel (runProg disp p w).1 (runProg disp0 p w0).1 ∧
      (runProg disp p w).2 = (runProg disp0 p w0).2 := by
  intro p
  induction p with
  | done o => intro w w0 h; exact ⟨h, rfl⟩
  | get k ih =>
    intro w w0 h
    simp only [runProg]
    rw [h.ir]
    exact ih _ w w0 h
  | put s k ih =>
    intro w w0 h
    simp only [runProg]
    exact ih _ _ ⟨rfl, h.log, h.calls, h.chain, h.plain⟩
  | call slot self arg k ih =>
    intro w w0 h
    simp only [runProg]
    have h1 := hd slot self arg w w0 h
    rw [h1.2]
    exact ih _ _ _ h1.1

theorem runImpl_rel (cfg : Cfg σ) (hd : ∀ k s a st, cfg.details k s a st = some st)
    {body body0 : Nat → Obj → Val → World σ → World σ × Outcome}
    (hb : ∀ k s a w w0, Rel w w0 →
      Rel (body k s a w).1 (body0 k s a w0).1 ∧ (body k s a w).2 = (body0 k s a w0).2)
    (hnone : ∀ k, (kindOf k = .init ∨ kindOf k = .setter) →
      ∀ s a w0 v, (body0 k s a w0).2 = .ret v → v = .none)
    (k : Nat) :
    ∀ (impl : Impl), ChainFor k impl → ∀ (s : Obj) (a : Val) (w w0 : World σ), Rel w w0 →
      Rel (runImpl cfg body impl s a w).1 (body0 k s a w0).1 ∧
      (runImpl cfg body impl s a w).2 = (body0 k s a w0).2 := by
  intro impl
  induction impl with
  | orig k' =>
    intro hc s a w w0 h
    simp only [ChainFor] at hc
    subst hc
    simpa [runImpl] using hb k' s a w w0 h
  | wrap j k' inner ih =>
    intro hc s a w w0 h
    obtain ⟨hk, hc⟩ := hc
    subst hk
    have hw : Rel { w with ir := w.ir } w0 := ⟨h.ir, h.log, h.calls, h.chain, h.plain⟩
    cases hkind : kindOf k'
    · -- init
      have h1 := ih hc s a w w0 h
      simp only [runImpl, hkind]
      split
      · next v hv =>
        have hv0 : (body0 k' s a w0).2 = .ret v := by rw [← h1.2]; exact hv
        have := hnone k' (Or.inl hkind) s a w0 v hv0
        subst this
        simp only [hd k' s a _]
        exact ⟨⟨h1.1.ir, h1.1.log, h1.1.calls, h1.1.chain, h1.1.plain⟩, hv0.symm⟩
      · next e he =>
        exact ⟨h1.1, by rw [← h1.2]; exact he.symm⟩
    · -- setter: the wrapper returns None
      have h1 := ih hc s a _ w0 hw
      simp only [runImpl, hkind, hd k' s a _]
      split
      · next v hv =>
        have hv0 : (body0 k' s a w0).2 = .ret v := by rw [← h1.2]; exact hv
        have := hnone k' (Or.inr hkind) s a w0 v hv0
        subst this
        exact ⟨h1.1.record _ _ _, by simpa using hv0.symm⟩
      · next e he =>
        exact ⟨h1.1, by rw [← h1.2]; exact he.symm⟩
    all_goals
      have h1 := ih hc s a _ w0 hw
      simp only [runImpl, hkind, hd k' s a _]
      split
      · next v hv =>
        have hv0 : (body0 k' s a w0).2 = .ret v := by rw [← h1.2]; exact hv
        exact ⟨h1.1.record _ _ _, by simpa using hv0.symm⟩
      · next e he =>
        exact ⟨h1.1, by rw [← h1.2]; exact he.symm⟩

theorem runOrig_rel (cfg : Cfg σ) {disp disp0 : Nat → Obj → Val → World σ → World σ × Outcome}
    (hd : ∀ s o a w w0, Rel w w0 →
      Rel (disp s o a w).1 (disp0 s o a w0).1 ∧ (disp s o a w).2 = (disp0 s o a w0).2) :
    ∀ k s a w w0, Rel w w0 →
      Rel (runOrig cfg disp k s a w).1 (runOrig cfg disp0 k s a w0).1 ∧
      (runOrig cfg disp k s a w).2 = (runOrig cfg disp0 k s a w0).2 := by
  intro k s a w w0 h
  have h1 := runProg_rel hd (cfg.impl k s a) _ _ (h.emit (.start k s))
  simp only [runOrig]
  refine ⟨?_, h1.2⟩
  rw [h1.2]
  exact h1.1.emit _

theorem dispatch_rel (cfg : Cfg σ) (hinit : ProcNone cfg)
    (hdet : ∀ k s a st, cfg.details k s a st = some st) :
    ∀ (f slot : Nat) (s : Obj) (a : Val) (w w0 : World σ), Rel w w0 →
      Rel (dispatch cfg f slot s a w).1 (dispatch cfg f slot s a w0).1 ∧
      (dispatch cfg f slot s a w).2 = (dispatch cfg f slot s a w0).2 := by
  intro f
  induction f with
  | zero => intro slot s a w w0 h; exact ⟨h, rfl⟩
  | succ f ih =>
    intro slot s a w w0 h
    have hb := runOrig_rel cfg ih
    have hnone : ∀ k, (kindOf k = .init ∨ kindOf k = .setter) → ∀ s a (w0 : World σ) v,
        (runOrig cfg (dispatch cfg f) k s a w0).2 = .ret v → v = .none := by
      intro k hk s a w0 v hv
      exact hinit k hk _ s a _ v hv
    have := runImpl_rel cfg hdet hb hnone slot (w.table slot) (h.chain slot) s a w w0 h
    simp only [dispatch]
    rw [h.plain]
    simpa [pristine, runImpl] using this

theorem capturedOk_of_sameCtl {w w' : World σ} (h : SameCtl w w') (hc : CapturedOk w) : CapturedOk w' := by
  intro j t ht
  rw [h.captured j] at ht
  exact hc j t ht

/-- Block level: a block run with journals against the stripped block run on the plain table.
    No `__enter__` is refused: no re-entry inside the block, and the block's journals are not
    active when it starts. -/
theorem block_rel (cfg : Cfg σ) (hinit : ProcNone cfg)
    (hdet : ∀ k s a st, cfg.details k s a st = some st) (fuel : Nat) :
    ∀ (b : Block σ) (w w0 : World σ), Rel w w0 → CapturedOk w → NoReentry b →
      (∀ j ∈ journalsOf b, (w.journals j).active = false) →
      Rel (runBlock cfg fuel b w).1 (runBlock cfg fuel (strip b) w0).1 ∧
      CapturedOk (runBlock cfg fuel b w).1 ∧
      (runBlock cfg fuel b w).2 = (runBlock cfg fuel (strip b) w0).2 := by
  intro b
  induction b with
  | skip => intro w w0 h hc _ _; exact ⟨h, hc, rfl⟩
  | op p =>
    intro w w0 h hc _ _
    have h1 := runProg_rel (dispatch_rel cfg hinit hdet fuel) p w w0 h
    have hf := runProg_frame cfg fuel p w
    simp only [runBlock, strip]
    rw [h1.2]
    refine ⟨⟨h1.1.ir, ?_, h1.1.calls, h1.1.chain, h1.1.plain⟩, ?_, rfl⟩
    · show (runProg (dispatch cfg fuel) p w).1.log ++ _ = (runProg (dispatch cfg fuel) p w0).1.log ++ _
      rw [h1.1.log]
    · intro j t ht
      exact capturedOk_of_sameCtl hf hc j t ht
  | seq a b iha ihb =>
    intro w w0 h hc hn hfresh
    have hfa : ∀ j ∈ journalsOf a, (w.journals j).active = false :=
      fun j hj => hfresh j (by simp [journalsOf, hj])
    have h1 := iha w w0 h hc hn.1 hfa
    simp only [runBlock, strip]
    rw [← h1.2.2]
    split
    · have hfb : ∀ j ∈ journalsOf b, ((runBlock cfg fuel a w).1.journals j).active = false := by
        intro j hj
        rw [block_active_restore]
        exact hfresh j (by simp [journalsOf, hj])
      exact ihb _ _ h1.1 h1.2.1 hn.2 hfb
    · exact ⟨h1.1, h1.2.1, rfl⟩
  | withJ j body ih =>
    intro w w0 h hc hn hfresh
    have hj : (w.journals j).active = false := hfresh j (by simp [journalsOf])
    have hrel : Rel (enterRaw j w) w0 := by
      refine ⟨h.ir, h.log, ?_, ?_, h.plain⟩
      · show List.filter isCall (w.trace ++ [Ev.enter j]) = _
        rw [List.filter_append]; simpa [isCall] using h.calls
      · intro k; exact ⟨rfl, h.chain k⟩
    have hcap : CapturedOk (enterRaw j w) := by
      intro i t ht
      by_cases hi : i = j
      · subst hi
        simp [enterRaw, upd] at ht
        subst ht; exact h.chain
      · rw [enterRaw_other j i w hi] at ht; exact hc i t ht
    have hfb : ∀ i ∈ journalsOf body, ((enterRaw j w).journals i).active = false := by
      intro i hi
      have hij : i ≠ j := by intro e; subst e; exact hn.1 hi
      rw [enterRaw_other j i w hij]
      exact hfresh i (by simp [journalsOf, hi])
    have h1 := ih (enterRaw j w) w0 hrel hcap hn.2 hfb
    rw [runBlock_withJ_entered cfg fuel j body w hj]
    simp only [strip]
    refine ⟨?_, ?_, h1.2.2⟩
    · simp only [exit]
      split
      · exact h1.1
      · next t ht =>
        refine ⟨h1.1.ir, h1.1.log, ?_, h1.2.1 j t ht, h1.1.plain⟩
        show List.filter isCall (_ ++ [Ev.exit j]) = _
        rw [List.filter_append]; simpa [isCall] using h1.1.calls
    · intro i t ht
      have ht' : ((exit j (runBlock cfg fuel body (enterRaw j w)).1).journals i).captured = some t := ht
      rw [exit_captured] at ht'
      exact h1.2.1 i t ht'
  | attempt body ih =>
    intro w w0 h hc hn hfresh
    have h1 := ih w w0 h hc hn hfresh
    exact ⟨h1.1, h1.2.1, rfl⟩

/-! ### accounting of entries -/

/-- entries of journal `j` -/
def ent (j : Nat) (w : World σ) : List Entry := (w.journals j).entries

def isRet : Outcome → Bool
  | .ret _ => true
  | .raise _ => false

def b2n (b : Bool) : Nat := if b then 1 else 0

theorem ent_record (j i k t : Nat) (w : World σ) :
    ent j (record i k t w) = if i = j then ent j w ++ [mkEntry k t] else ent j w := by
  simp only [ent, record, upd]
  by_cases h : i = j
  · subst h; simp
  · have : ¬ j = i := fun e => h e.symm
    simp [h, this]

theorem expectedFor_calls_append (owner : Obj → Obj) (j : Nat) (act : Bool) :
    ∀ (e1 e2 : List Ev), (∀ e ∈ e1, isCall e = true) →
      expectedFor owner j act (e1 ++ e2) = expectedFor owner j act e1 ++ expectedFor owner j act e2 := by
  intro e1
  induction e1 with
  | nil => intro e2 _; simp [expectedFor]
  | cons e t ih =>
    intro e2 h
    have ht : ∀ x ∈ t, isCall x = true := fun x hx => h x (List.mem_cons_of_mem _ hx)
    have he := h e (List.mem_cons_self ..)
    cases e with
    | start k s =>
      simp only [List.cons_append, expectedFor]
      exact ih e2 ht
    | finish k s o =>
      cases o with
      | ret v =>
        simp only [List.cons_append, expectedFor]
        split <;> simp [ih e2 ht]
      | raise x => simp only [List.cons_append, expectedFor]; exact ih e2 ht
    | enter i => simp [isCall] at he
    | exit i => simp [isCall] at he

/-- what a computation step does to the trace and to journal `j`'s entries, the table being `T` -/
def CallSpec (owner : Obj → Obj) (j : Nat) (act : Bool) (T : Table)
    (f : World σ → World σ × Outcome) : Prop :=
  ∀ w, w.table = T → (f w).1.table = T ∧
    ∃ evs, (f w).1.trace = w.trace ++ evs ∧ (∀ e ∈ evs, isCall e = true) ∧
      ent j (f w).1 = ent j w ++ expectedFor owner j act evs

theorem runProg_callSpec (owner : Obj → Obj) (j : Nat) (act : Bool) (T : Table)
    {disp : Nat → Obj → Val → World σ → World σ × Outcome}
    (hd : ∀ s o a, CallSpec owner j act T (disp s o a)) :
    ∀ (p : Prog σ), CallSpec owner j act T (runProg disp p) := by
  intro p
  induction p with
  | done o => intro w hw; exact ⟨hw, [], by simp [runProg], by simp, by simp [runProg, expectedFor]⟩
  | get k ih => intro w hw; simpa [runProg] using ih _ w hw
  | put s k ih =>
    intro w hw
    have := ih { w with ir := s } hw
    simpa [runProg, ent] using this
  | call slot self arg k ih =>
    intro w hw
    obtain ⟨ht1, evs1, htr1, hc1, he1⟩ := hd slot self arg w hw
    obtain ⟨ht2, evs2, htr2, hc2, he2⟩ := ih (disp slot self arg w).2 (disp slot self arg w).1 ht1
    refine ⟨by simpa [runProg] using ht2, evs1 ++ evs2, ?_, ?_, ?_⟩
    · simp only [runProg]; rw [htr2, htr1, List.append_assoc]
    · intro e he
      rcases List.mem_append.mp he with h | h
      · exact hc1 e h
      · exact hc2 e h
    · simp only [runProg]
      rw [he2, he1, expectedFor_calls_append owner j act evs1 evs2 hc1, List.append_assoc]

/-- entries contributed after the original returned by `n` layers of journal `j`'s wrappers -/
def post (owner : Obj → Obj) (k s n : Nat) (o : Outcome) : List Entry :=
  if isRet o = true then List.replicate n (mkEntry k (targetOf owner k s)) else []

theorem targetOf_init (owner : Obj → Obj) (k s : Nat) (h : kindOf k = .init) : targetOf owner k s = s := by
  simp [targetOf, h]

/-- what the original function of a slot does (as seen from journal `j`) -/
def BodySpec (owner : Obj → Obj) (j : Nat) (act : Bool) (T : Table)
    (body : Nat → Obj → Val → World σ → World σ × Outcome) : Prop :=
  ∀ k s a w, w.table = T → (body k s a w).1.table = T ∧
    ∃ evs, (body k s a w).1.trace = w.trace ++ [.start k s] ++ evs ++ [.finish k s (body k s a w).2] ∧
      (∀ e ∈ evs, isCall e = true) ∧
      ent j (body k s a w).1 = ent j w ++ expectedFor owner j act evs

theorem runImpl_spec (cfg : Cfg σ) (hdet : DetailsOk cfg) (j : Nat) (act : Bool) (T : Table)
    {body : Nat → Obj → Val → World σ → World σ × Outcome}
    (hb : BodySpec cfg.owner j act T body) (k : Nat) :
    ∀ (impl : Impl), ChainFor k impl → ∀ (s : Obj) (a : Val) (w : World σ), w.table = T →
      (runImpl cfg body impl s a w).1.table = T ∧
      ∃ evs o, (runImpl cfg body impl s a w).1.trace = w.trace ++ [.start k s] ++ evs ++ [.finish k s o] ∧
        (∀ e ∈ evs, isCall e = true) ∧
        isRet (runImpl cfg body impl s a w).2 = isRet o ∧
        ent j (runImpl cfg body impl s a w).1 =
          ent j w ++ expectedFor cfg.owner j act evs ++ post cfg.owner k s (impl.cnt j) o := by
  intro impl
  induction impl with
  | orig k' =>
    intro hc s a w hw
    simp only [ChainFor] at hc
    subst hc
    obtain ⟨ht, evs, htr, hcalls, he⟩ := hb k' s a w hw
    refine ⟨by simpa [runImpl] using ht, evs, (body k' s a w).2, by simpa [runImpl] using htr, hcalls, rfl, ?_⟩
    simp [runImpl, Impl.cnt, post, he]
  | wrap i k' inner ih =>
    intro hc s a w hw
    obtain ⟨hk, hc⟩ := hc
    subst hk
    cases hkind : kindOf k'
    · -- init: original, details, record
      obtain ⟨ht, evs, o, htr, hcalls, hret, he⟩ := ih hc s a w hw
      simp only [runImpl, hkind]
      split
      · next v hv =>
        obtain ⟨s', hs⟩ := hdet k' s a (runImpl cfg body inner s a w).1.ir
        simp only [hs]
        have ho : isRet o = true := by rw [← hret, hv]; rfl
        refine ⟨ht, evs, o, htr, hcalls, by rw [ho]; rfl, ?_⟩
        rw [ent_record]
        show (if i = j then ent j (runImpl cfg body inner s a w).1 ++ _ else ent j (runImpl cfg body inner s a w).1) = _
        rw [he]
        simp only [post, ho, Impl.cnt, if_true, targetOf_init cfg.owner k' s hkind]
        by_cases hij : i = j
        · simp [hij, Nat.add_comm 1, List.replicate_succ', List.append_assoc]
        · simp [hij]
      · next e hev =>
        have ho : isRet o = false := by rw [← hret, hev]; rfl
        refine ⟨ht, evs, o, htr, hcalls, by rw [ho]; rfl, ?_⟩
        rw [he]
        simp [post, ho]
    all_goals
      -- setter / method / container: details, original, record
      obtain ⟨s', hs⟩ := hdet k' s a w.ir
      simp only [runImpl, hkind, hs]
      have hw' : ({ w with ir := s' } : World σ).table = T := hw
      obtain ⟨ht, evs, o, htr, hcalls, hret, he⟩ := ih hc s a _ hw'
      split
      · next v hv =>
        have ho : isRet o = true := by rw [← hret, hv]; rfl
        refine ⟨ht, evs, o, htr, hcalls, by rw [ho]; rfl, ?_⟩
        rw [ent_record, he]
        simp only [post, ho, Impl.cnt, if_true]
        show (if i = j then ent j w ++ _ ++ _ ++ _ else ent j w ++ _ ++ _) = _
        by_cases hij : i = j
        · simp [hij, Nat.add_comm 1, List.replicate_succ', List.append_assoc]
        · simp [hij]
      · next e hev =>
        have ho : isRet o = false := by rw [← hret, hev]; rfl
        refine ⟨ht, evs, o, htr, hcalls, by rw [ho]; rfl, ?_⟩
        rw [he]
        simp only [post, ho]
        show ent j w ++ _ ++ _ = _
        simp

theorem runOrig_bodySpec (cfg : Cfg σ) (j : Nat) (act : Bool) (T : Table)
    {disp : Nat → Obj → Val → World σ → World σ × Outcome}
    (hd : ∀ s o a, CallSpec cfg.owner j act T (disp s o a)) :
    BodySpec cfg.owner j act T (runOrig cfg disp) := by
  intro k s a w hw
  have hw' : (emit (.start k s) w).table = T := hw
  obtain ⟨ht, evs, htr, hcalls, he⟩ := runProg_callSpec cfg.owner j act T hd (cfg.impl k s a) _ hw'
  refine ⟨ht, evs, ?_, hcalls, ?_⟩
  · show (runProg disp (cfg.impl k s a) (emit (.start k s) w)).1.trace ++ [_] = _
    rw [htr]; rfl
  · exact he

/-- one whole call, seen from a journal that has `b2n act` layers installed -/
theorem expected_call (owner : Obj → Obj) (j : Nat) (act : Bool) (k s : Nat) (o : Outcome)
    (evs : List Ev) (hcalls : ∀ e ∈ evs, isCall e = true) :
    expectedFor owner j act (.start k s :: (evs ++ [.finish k s o])) =
      expectedFor owner j act evs ++ post owner k s (b2n act) o := by
  have happ := expectedFor_calls_append owner j act evs [.finish k s o] hcalls
  cases act <;> cases o <;> simp [expectedFor, happ, post, b2n, isRet]

theorem dispatch_callSpec (cfg : Cfg σ) (hdet : DetailsOk cfg) (j : Nat) (act : Bool) (T : Table)
    (hT : Chain T) (hcnt : ∀ k, (T k).cnt j = b2n act) :
    ∀ (f slot : Nat) (s : Obj) (a : Val), CallSpec cfg.owner j act T (dispatch cfg f slot s a) := by
  intro f
  induction f with
  | zero =>
    intro slot s a w hw
    exact ⟨hw, [], by simp [dispatch], by simp, by simp [dispatch, expectedFor]⟩
  | succ f ih =>
    intro slot s a w hw
    have hb := runOrig_bodySpec cfg j act T ih
    have hc : ChainFor slot (w.table slot) := by rw [hw]; exact hT slot
    obtain ⟨ht, evs, o, htr, hcalls, _, he⟩ := runImpl_spec cfg hdet j act T hb slot (w.table slot) hc s a w hw
    simp only [dispatch]
    refine ⟨ht, .start slot s :: (evs ++ [.finish slot s o]), ?_, ?_, ?_⟩
    · rw [htr]; simp
    · intro e he'
      rcases List.mem_cons.mp he' with h | h
      · subst h; rfl
      · rcases List.mem_append.mp h with h | h
        · exact hcalls e h
        · simp at h; subst h; rfl
    · rw [he, expected_call cfg.owner j act slot s o evs hcalls, hw, hcnt slot]
      simp [List.append_assoc]

/-- the events of a block leave `act` as it was: later events are accounted for independently -/
def Balanced (owner : Obj → Obj) (j : Nat) (act : Bool) (evs : List Ev) : Prop :=
  ∀ rest, expectedFor owner j act (evs ++ rest) =
    expectedFor owner j act evs ++ expectedFor owner j act rest

theorem cnt_enter (j i : Nat) (t : Table) (k : Nat) :
    (Impl.wrap i k (t k)).cnt j = (if i = j then 1 else 0) + (t k).cnt j := rfl

theorem ent_enterRaw (j i : Nat) (w : World σ) : ent j (enterRaw i w) = ent j w := by
  simp only [ent, enterRaw, upd]
  split
  · next h => subst h; rfl
  · rfl

theorem ent_exit (j i : Nat) (w : World σ) : ent j (exit i w) = ent j w := exit_entries i j w

theorem trace_exit_some (i : Nat) (w : World σ) (t : Table) (h : (w.journals i).captured = some t) :
    (exit i w).trace = w.trace ++ [.exit i] := by
  simp [exit, h]

theorem block_entries (cfg : Cfg σ) (hdet : DetailsOk cfg) (fuel : Nat) (j : Nat) :
    ∀ (b : Block σ) (w : World σ) (act : Bool), Chain w.table →
      (∀ k, (w.table k).cnt j = b2n act) → (w.journals j).active = act →
      ∃ evs, (runBlock cfg fuel b w).1.trace = w.trace ++ evs ∧
        ent j (runBlock cfg fuel b w).1 = ent j w ++ expectedFor cfg.owner j act evs ∧
        Balanced cfg.owner j act evs := by
  intro b
  induction b with
  | skip =>
    intro w act _ _ _
    exact ⟨[], by simp [runBlock], by simp [runBlock, expectedFor], fun rest => by simp [expectedFor]⟩
  | op p =>
    intro w act hch hcnt _
    obtain ⟨_, evs, htr, hcalls, he⟩ :=
      runProg_callSpec cfg.owner j act w.table (dispatch_callSpec cfg hdet j act w.table hch hcnt fuel) p w rfl
    exact ⟨evs, htr, he, fun rest => expectedFor_calls_append cfg.owner j act evs rest hcalls⟩
  | seq a b iha ihb =>
    intro w act hch hcnt hact
    obtain ⟨evs1, htr1, he1, hb1⟩ := iha w act hch hcnt hact
    have hres := (block_restore cfg fuel a w).1
    simp only [runBlock]
    split
    · have hch' : Chain (runBlock cfg fuel a w).1.table := by rw [hres]; exact hch
      have hcnt' : ∀ k, ((runBlock cfg fuel a w).1.table k).cnt j = b2n act := by rw [hres]; exact hcnt
      have hact' : ((runBlock cfg fuel a w).1.journals j).active = act := by
        rw [block_active_restore]; exact hact
      obtain ⟨evs2, htr2, he2, hb2⟩ := ihb _ act hch' hcnt' hact'
      refine ⟨evs1 ++ evs2, by rw [htr2, htr1, List.append_assoc], ?_, ?_⟩
      · rw [he2, he1, hb1 evs2, List.append_assoc]
      · intro rest
        rw [List.append_assoc, hb1 (evs2 ++ rest), hb2 rest, hb1 evs2, List.append_assoc]
    · exact ⟨evs1, htr1, he1, hb1⟩
  | withJ i body ih =>
    intro w act hch hcnt hact
    cases hi : (w.journals i).active with
    | true =>
      -- refused: nothing happens
      rw [runBlock_withJ_refused cfg fuel i body w hi]
      exact ⟨[], by simp, by simp [expectedFor], fun rest => by simp [expectedFor]⟩
    | false =>
      rw [runBlock_withJ_entered cfg fuel i body w hi]
      have hacti : ((enterRaw i w).journals i).active = true := by simp [enterRaw, upd]
      have hcapt := runBlock_frame_active cfg fuel body (enterRaw i w) i hacti
      have hcap : ((runBlock cfg fuel body (enterRaw i w)).1.journals i).captured = some w.table := by
        rw [hcapt.1]; simp [enterRaw, upd]
      have hch1 : Chain (enterRaw i w).table := fun k => ⟨rfl, hch k⟩
      by_cases hij : i = j
      · subst hij
        have hact' : act = false := by rw [← hact]; exact hi
        subst hact'
        have hcnt1 : ∀ k, ((enterRaw i w).table k).cnt i = b2n true := by
          intro k
          show (Impl.wrap i k (w.table k)).cnt i = _
          rw [cnt_enter, hcnt k]; simp [b2n]
        obtain ⟨evs, htr, he, hb⟩ := ih (enterRaw i w) true hch1 hcnt1 hacti
        refine ⟨.enter i :: (evs ++ [.exit i]), ?_, ?_, ?_⟩
        · show (exit i _).trace = _
          rw [trace_exit_some i _ _ hcap, htr]; simp [enterRaw]
        · show ent _ (exit i _) = _
          rw [ent_exit, he, ent_enterRaw]
          have := hb [.exit i]
          simp only [expectedFor, if_true] at this ⊢
          rw [this]; simp
        · intro rest
          have h1 := hb (.exit i :: rest)
          have h2 := hb [.exit i]
          simp only [List.cons_append, List.append_assoc, List.nil_append, List.append_nil, expectedFor, if_true] at h1 h2 ⊢
          rw [h1, h2]
      · have hcnt1 : ∀ k, ((enterRaw i w).table k).cnt j = b2n act := by
          intro k
          show (Impl.wrap i k (w.table k)).cnt j = _
          rw [cnt_enter, hcnt k]; simp [hij]
        have hactj : ((enterRaw i w).journals j).active = act := by
          rw [enterRaw_other i j w (fun e => hij e.symm)]; exact hact
        obtain ⟨evs, htr, he, hb⟩ := ih (enterRaw i w) act hch1 hcnt1 hactj
        refine ⟨.enter i :: (evs ++ [.exit i]), ?_, ?_, ?_⟩
        · show (exit i _).trace = _
          rw [trace_exit_some i _ _ hcap, htr]; simp [enterRaw]
        · show ent _ (exit i _) = _
          rw [ent_exit, he, ent_enterRaw]
          have := hb [.exit i]
          simp only [expectedFor, hij, if_false] at this ⊢
          rw [this]; simp
        · intro rest
          have h1 := hb (.exit i :: rest)
          have h2 := hb [.exit i]
          simp only [List.cons_append, List.append_assoc, List.nil_append, List.append_nil, expectedFor, hij, if_false] at h1 h2 ⊢
          rw [h1, h2]
  | attempt body ih =>
    intro w act hch hcnt hact
    exact ih w act hch hcnt hact

/-! ### entries hold no strong reference — BY CONSTRUCTION, not a property theorem

`record` (the only writer of entries) builds `Handle.weak`; `timestamp`, `class_`, `stack_trace`
and `details` of the real `JournalEntry` are not represented in the model at all.  The lemmas below
therefore only say that the model has no other writer of entries; that the real entries keep no IR
object alive (weakref, FrameSummary without locals, details being a `str`) is established by the
gc + weakref oracle of harness/c20.py alone. -/

/-- no entry of any journal designates an IR instance other than weakly -/
def AllWeak (w : World σ) : Prop := ∀ i, heldBy (w.journals i) = []

theorem allWeak_stable : Stable (AllWeak (σ := σ)) where
  put := fun _ _ h => h
  emit := fun _ _ h => h
  record := by
    intro w j k t h i
    simp only [record, upd]
    split
    · next hi =>
      subst hi
      have := h i
      simp only [heldBy] at this ⊢
      simp [List.flatMap_append, this, mkEntry, Entry.strong]
    · exact h i

theorem heldBy_enterRaw (j i : Nat) (w : World σ) :
    heldBy ((enterRaw j w).journals i) = heldBy (w.journals i) := by
  simp only [enterRaw, upd, heldBy]
  split
  · next h => subst h; rfl
  · rfl

theorem heldBy_exit (j i : Nat) (w : World σ) : heldBy ((exit j w).journals i) = heldBy (w.journals i) := by
  simp only [heldBy, exit_entries]

theorem block_allWeak (cfg : Cfg σ) (fuel : Nat) :
    ∀ (b : Block σ) (w : World σ), AllWeak w → AllWeak (runBlock cfg fuel b w).1 := by
  intro b
  induction b with
  | skip => intro w h; exact h
  | op p =>
    intro w h
    exact runProg_stable allWeak_stable (fun s o a w' h' => dispatch_stable allWeak_stable cfg fuel s o a w' h') p w h
  | seq a b iha ihb =>
    intro w h
    simp only [runBlock]
    split
    · exact ihb _ (iha w h)
    · exact iha w h
  | withJ j body ih =>
    intro w h
    cases hj : (w.journals j).active with
    | true => rw [runBlock_withJ_refused cfg fuel j body w hj]; exact h
    | false =>
      rw [runBlock_withJ_entered cfg fuel j body w hj]
      have h1 : AllWeak (enterRaw j w) := fun i => by rw [heldBy_enterRaw]; exact h i
      have h2 := ih (enterRaw j w) h1
      intro i
      show heldBy ((exit j _).journals i) = []
      rw [heldBy_exit]
      exact h2 i
  | attempt body ih => intro w h; exact ih w h

/-- objects reachable from `roots` along strong references `edges` -/
inductive Reach (edges : Obj → List Obj) (roots : List Obj) : Obj → Prop where
  | root {o : Obj} : o ∈ roots → Reach edges roots o
  | step {a b : Obj} : Reach edges roots a → b ∈ edges a → Reach edges roots b

end IrVerif.Journal

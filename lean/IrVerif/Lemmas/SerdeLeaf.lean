import IrVerif.Model.Serde
/-! Helper lemmas for C02, stage A: string-string maps, shapes and types, tensors, scope lookups. -/
namespace IrVerif.Serde
open IrVerif.Proto

/-! ### reflection of the Bool predicates -/

theorem nodupStr_iff {l : List String} : nodupStr l = true ↔ l.Nodup := by
  induction l with
  | nil => simp [nodupStr]
  | cons x xs ih => simp [nodupStr, ih, List.nodup_cons]

/-! ### dicts -/

def dkeys (d : Dict) : List String := d.map (·.1)

theorem dictSet_of_not_mem {d : Dict} {k v : String} (h : k ∉ dkeys d) :
    dictSet d k v = d ++ [(k, v)] := by
  induction d with
  | nil => rfl
  | cons x xs ih =>
    obtain ⟨k', v'⟩ := x
    simp only [dkeys, List.map_cons, List.mem_cons, not_or] at h
    have hne : ¬ k' = k := fun e => h.1 e.symm
    simp only [dictSet, hne, if_false, List.cons_append]
    rw [ih (by simpa [dkeys] using h.2)]

theorem dictUpdate_append {d u : Dict} (hu : (dkeys u).Nodup)
    (hd : ∀ k, k ∈ dkeys u → k ∉ dkeys d) : dictUpdate d u = d ++ u := by
  induction u generalizing d with
  | nil => simp [dictUpdate]
  | cons x xs ih =>
    obtain ⟨k, v⟩ := x
    simp only [dkeys, List.map_cons, List.nodup_cons] at hu
    have hk : k ∉ dkeys d := hd k (by simp [dkeys])
    simp only [dictUpdate]
    rw [dictSet_of_not_mem hk, ih (by simpa [dkeys] using hu.2)]
    · simp
    · intro k' hk' hmem
      simp only [dkeys, List.map_append, List.map_cons, List.map_nil, List.mem_append,
        List.mem_singleton] at hmem
      rcases hmem with hmem | rfl
      · exact hd k' (by simp only [dkeys, List.map_cons, List.mem_cons]; exact Or.inr hk') hmem
      · exact hu.1 hk'

def pairOf (e : Entry) : String × String := (e.key, e.value)

theorem dictOfEntries_of_nodup {es : List Entry} (h : (es.map (·.key)).Nodup) :
    dictOfEntries es = es.map pairOf := by
  unfold dictOfEntries
  have : (es.map fun e => (e.key, e.value)) = es.map pairOf := rfl
  rw [this, dictUpdate_append]
  · simp
  · simpa [dkeys, pairOf, List.map_map, Function.comp_def] using h
  · intro k _ hk; simp [dkeys] at hk

theorem dkeys_dictSet (d : Dict) (k v : String) :
    dkeys (dictSet d k v) = if k ∈ dkeys d then dkeys d else dkeys d ++ [k] := by
  induction d with
  | nil => simp [dictSet, dkeys]
  | cons x xs ih =>
    obtain ⟨k', v'⟩ := x
    by_cases hk : k' = k
    · subst hk; simp [dictSet, dkeys]
    · have hk' : ¬ k = k' := fun e => hk e.symm
      simp only [dictSet, hk, if_false]
      simp only [dkeys, List.map_cons, List.mem_cons, hk', false_or] at ih ⊢
      rw [ih]
      by_cases hm : k ∈ List.map (fun x => x.fst) xs <;> simp [hm]

theorem nodup_dkeys_dictSet {d : Dict} (h : (dkeys d).Nodup) (k v : String) :
    (dkeys (dictSet d k v)).Nodup := by
  rw [dkeys_dictSet]
  split
  · exact h
  · rename_i hk
    rw [List.nodup_append]
    refine ⟨h, by simp, ?_⟩
    intro a ha b hb
    simp only [List.mem_singleton] at hb
    subst hb
    intro e; subst e; exact hk ha

theorem nodup_dkeys_dictUpdate {d : Dict} (h : (dkeys d).Nodup) (u : Dict) :
    (dkeys (dictUpdate d u)).Nodup := by
  induction u generalizing d with
  | nil => simpa [dictUpdate]
  | cons x xs ih =>
    obtain ⟨k, v⟩ := x
    simp only [dictUpdate]
    exact ih (nodup_dkeys_dictSet h k v)

theorem nodup_dkeys_dictOfEntries (es : List Entry) : (dkeys (dictOfEntries es)).Nodup :=
  nodup_dkeys_dictUpdate (by simp [dkeys]) _

theorem dictSet_ne_nil (d : Dict) (k v : String) : dictSet d k v ≠ [] := by
  cases d with
  | nil => simp [dictSet]
  | cons x xs => obtain ⟨k', v'⟩ := x; simp only [dictSet]; split <;> simp

theorem dictUpdate_ne_nil {d : Dict} (h : d ≠ []) (u : Dict) : dictUpdate d u ≠ [] := by
  induction u generalizing d with
  | nil => simpa [dictUpdate]
  | cons x xs ih => obtain ⟨k, v⟩ := x; simp only [dictUpdate]; exact ih (dictSet_ne_nil d k v)

theorem dictOfEntries_isEmpty (es : List Entry) : (dictOfEntries es).isEmpty = es.isEmpty := by
  cases es with
  | nil => rfl
  | cons e es =>
    have : dictOfEntries (e :: es) ≠ [] := by
      unfold dictOfEntries
      simp only [List.map_cons, dictUpdate]
      exact dictUpdate_ne_nil (dictSet_ne_nil _ _ _) _
    simp [List.isEmpty_iff, this]

/-! ### sorting -/

def SortedE (l : List Entry) : Prop := l.Pairwise (fun a b => a.key < b.key)

theorem mem_insertEntry {e y : Entry} {l : List Entry} : y ∈ insertEntry e l ↔ y = e ∨ y ∈ l := by
  induction l with
  | nil => simp [insertEntry]
  | cons x xs ih =>
    simp only [insertEntry]
    split
    · simp
    · simp only [List.mem_cons, ih]
      constructor
      · rintro (h | h | h) <;> simp [h]
      · rintro (h | h | h) <;> simp [h]

theorem sorted_insertEntry {e : Entry} {l : List Entry} (hs : SortedE l)
    (hk : ∀ y ∈ l, y.key ≠ e.key) : SortedE (insertEntry e l) := by
  induction l with
  | nil => simp [insertEntry, SortedE]
  | cons x xs ih =>
    unfold SortedE at hs ⊢
    rw [List.pairwise_cons] at hs
    simp only [insertEntry]
    split
    · rename_i hlt
      rw [List.pairwise_cons]
      refine ⟨?_, List.pairwise_cons.2 hs⟩
      intro y hy
      rcases List.mem_cons.1 hy with rfl | hy
      · exact hlt
      · exact String.lt_trans hlt (hs.1 y hy)
    · rename_i hnlt
      rw [List.pairwise_cons]
      refine ⟨?_, ih hs.2 (fun y hy => hk y (List.mem_cons_of_mem _ hy))⟩
      intro y hy
      rcases mem_insertEntry.1 hy with rfl | hy
      · have hne : x.key ≠ y.key := hk x (by simp)
        have hle : x.key ≤ y.key := String.not_lt.1 hnlt
        rcases Decidable.em (x.key < y.key) with h | h
        · exact h
        · exact absurd (String.le_antisymm hle (String.not_lt.1 h)) hne
      · exact hs.1 y hy

theorem keys_sortEntries_mem {d : Dict} {y : Entry} (h : y ∈ sortEntries d) : y.key ∈ dkeys d := by
  induction d with
  | nil => simp [sortEntries] at h
  | cons x xs ih =>
    obtain ⟨k, v⟩ := x
    simp only [sortEntries] at h
    rcases mem_insertEntry.1 h with rfl | h
    · simp [dkeys]
    · simp only [dkeys, List.map_cons, List.mem_cons]; exact Or.inr (ih h)

theorem sorted_sortEntries {d : Dict} (h : (dkeys d).Nodup) : SortedE (sortEntries d) := by
  induction d with
  | nil => simp [sortEntries, SortedE]
  | cons x xs ih =>
    obtain ⟨k, v⟩ := x
    simp only [dkeys, List.map_cons, List.nodup_cons] at h
    simp only [sortEntries]
    apply sorted_insertEntry (ih h.2)
    intro y hy e
    exact h.1 (by have := keys_sortEntries_mem hy; rw [e] at this; exact this)

theorem insertEntry_of_lt {e : Entry} {l : List Entry} (h : ∀ y ∈ l, e.key < y.key) :
    insertEntry e l = e :: l := by
  cases l with
  | nil => rfl
  | cons x xs => simp [insertEntry, h x (by simp)]

theorem sortEntries_of_sorted {l : List Entry} (h : SortedE l) : sortEntries (l.map pairOf) = l := by
  induction l with
  | nil => rfl
  | cons x xs ih =>
    unfold SortedE at h
    rw [List.pairwise_cons] at h
    simp only [List.map_cons, pairOf, sortEntries]
    have := ih h.2
    rw [this, insertEntry_of_lt h.1]

theorem nodup_keys_of_sorted {l : List Entry} (h : SortedE l) : (l.map (·.key)).Nodup := by
  induction l with
  | nil => simp
  | cons x xs ih =>
    unfold SortedE at h
    rw [List.pairwise_cons] at h
    simp only [List.map_cons, List.nodup_cons, List.mem_map, not_exists, not_and]
    refine ⟨?_, ih h.2⟩
    intro y hy e
    have := h.1 y hy
    rw [e] at this
    exact String.lt_irrefl _ this

theorem sorted_normEntries (es : List Entry) : SortedE (normEntries es) :=
  sorted_sortEntries (nodup_dkeys_dictOfEntries es)

theorem normEntries_of_sorted {l : List Entry} (h : SortedE l) : normEntries l = l := by
  unfold normEntries
  rw [dictOfEntries_of_nodup (nodup_keys_of_sorted h), sortEntries_of_sorted h]

theorem normEntries_idem (es : List Entry) : normEntries (normEntries es) = normEntries es :=
  normEntries_of_sorted (sorted_normEntries es)

theorem perm_insertEntry (e : Entry) (l : List Entry) : (insertEntry e l).Perm (e :: l) := by
  induction l with
  | nil => simp [insertEntry]
  | cons x xs ih =>
    simp only [insertEntry]
    split
    · exact List.Perm.refl _
    · exact (List.Perm.cons x ih).trans (List.Perm.swap e x xs)

theorem perm_sortEntries (l : List Entry) : (sortEntries (l.map pairOf)).Perm l := by
  induction l with
  | nil => simp [sortEntries]
  | cons x xs ih =>
    simp only [List.map_cons, pairOf, sortEntries]
    exact (perm_insertEntry _ _).trans (List.Perm.cons _ ih)

theorem perm_normEntries {es : List Entry} (h : wfEntries es = true) : (normEntries es).Perm es := by
  unfold normEntries
  rw [dictOfEntries_of_nodup (nodupStr_iff.1 h)]
  exact perm_sortEntries es

theorem normEntries_nil : normEntries [] = [] := rfl

theorem sortEntries_dictOfEntries_isEmpty (es : List Entry) :
    (dictOfEntries es).isEmpty = true → es = [] := by
  rw [dictOfEntries_isEmpty]; simp

/-! ### dims, shapes, types -/

theorem serDimVal_desDimVal (d : DimVal) : serDimVal (desDimVal d) = d := by
  cases d <;> rfl

theorem serDim_desDim (d : DimP) : serDim (desDim d) = d := by
  cases d; simp [serDim, desDim, serDimVal_desDimVal]

theorem serShape_desShape (s : ShapeP) : serShape (desShape s) = s := by
  simp [serShape, desShape, List.map_map, Function.comp_def, serDim_desDim]

theorem type_roundtrip_set (t : TypeP) (h : wfTypeSet t = true) :
    ∃ ty sh, desTypeForType t = .ok (some ty) ∧ desTypeForShape t = .ok sh ∧
      serTypeAndShape (some ty) sh = t := by
  induction t with
  | unset den => simp [wfTypeSet] at h
  | map den => simp [wfTypeSet] at h
  | tensor e sh den =>
    cases e with
    | none => simp [wfTypeSet] at h
    | some e =>
      simp only [wfTypeSet] at h
      refine ⟨.tensor e den, sh.map desShape, by simp [desTypeForType, h], by simp [desTypeForShape], ?_⟩
      cases sh <;> simp [serTypeAndShape, serType, serShapeInto, serShape_desShape]
  | sparse e sh den =>
    cases e with
    | none => simp [wfTypeSet] at h
    | some e =>
      simp only [wfTypeSet] at h
      refine ⟨.sparse e den, sh.map desShape, by simp [desTypeForType, h], by simp [desTypeForShape], ?_⟩
      cases sh <;> simp [serTypeAndShape, serType, serShapeInto, serShape_desShape]
  | sequence e den ih =>
    simp only [wfTypeSet] at h
    obtain ⟨ty, sh, h1, h2, h3⟩ := ih h
    refine ⟨.sequence ty den, sh, ?_, by simpa [desTypeForShape] using h2, ?_⟩
    · simp [desTypeForType, h1, bind, Except.bind]
    · cases sh <;> simp_all [serTypeAndShape, serType, serShapeInto]
  | optional e den ih =>
    simp only [wfTypeSet] at h
    obtain ⟨ty, sh, h1, h2, h3⟩ := ih h
    refine ⟨.optional ty den, sh, ?_, by simpa [desTypeForShape] using h2, ?_⟩
    · simp [desTypeForType, h1, bind, Except.bind]
    · cases sh <;> simp_all [serTypeAndShape, serType, serShapeInto]

theorem type_roundtrip (t : TypeP) (h : wfType t = true) :
    ∃ ty sh, desTypeForType t = .ok ty ∧ desTypeForShape t = .ok sh ∧ serTypeAndShape ty sh = t := by
  cases t with
  | unset den =>
    simp only [wfType, String.isEmpty_iff] at h
    subst h
    exact ⟨none, none, rfl, rfl, rfl⟩
  | tensor e sh den =>
    obtain ⟨ty, s, h1, h2, h3⟩ := type_roundtrip_set _ (by simpa [wfType] using h)
    exact ⟨some ty, s, h1, h2, h3⟩
  | sparse e sh den =>
    obtain ⟨ty, s, h1, h2, h3⟩ := type_roundtrip_set _ (by simpa [wfType] using h)
    exact ⟨some ty, s, h1, h2, h3⟩
  | sequence e den =>
    obtain ⟨ty, s, h1, h2, h3⟩ := type_roundtrip_set _ (by simpa [wfType] using h)
    exact ⟨some ty, s, h1, h2, h3⟩
  | optional e den =>
    obtain ⟨ty, s, h1, h2, h3⟩ := type_roundtrip_set _ (by simpa [wfType] using h)
    exact ⟨some ty, s, h1, h2, h3⟩
  | map den => simp [wfType, wfTypeSet] at h

/-- `deserialize_value_info_proto` on a well-formed type: what the value holds afterwards -/
theorem applyInfo_ok (v : IRValue) (vi : ValueInfoP) (h : wfType vi.type = true) :
    ∃ ty sh, serTypeAndShape ty sh = vi.type ∧
      (ty.isNone = viIsUnset vi.type ∧ (ty = none → sh = none)) ∧
      applyInfo v vi = .ok { v with shape := sh, type := ty,
                                    mprops := dictUpdate v.mprops (dictOfEntries vi.metadata),
                                    doc := vi.doc } := by
  obtain ⟨ty, sh, h1, h2, h3⟩ := type_roundtrip vi.type h
  refine ⟨ty, sh, h3, ?_, by simp [applyInfo, h1, h2, bind, Except.bind]⟩
  cases hvt : vi.type with
  | unset den =>
    rw [hvt] at h1 h2
    simp [desTypeForType] at h1; simp [desTypeForShape] at h2
    subst h1 h2; exact ⟨rfl, fun _ => rfl⟩
  | map den => rw [hvt] at h; simp [wfType, wfTypeSet] at h
  | tensor e s den =>
    rw [hvt] at h1 h
    cases e with
    | none => simp [wfType, wfTypeSet] at h
    | some e =>
      simp only [wfType, wfTypeSet] at h
      simp [desTypeForType, h] at h1; subst h1; simp [viIsUnset]
  | sparse e s den =>
    rw [hvt] at h1 h
    cases e with
    | none => simp [wfType, wfTypeSet] at h
    | some e =>
      simp only [wfType, wfTypeSet] at h
      simp [desTypeForType, h] at h1; subst h1; simp [viIsUnset]
  | sequence e den =>
    rw [hvt] at h1 h
    obtain ⟨ty', s', g1, _, _⟩ := type_roundtrip_set _ (by simpa [wfType] using h)
    rw [g1] at h1; cases h1; simp [viIsUnset]
  | optional e den =>
    rw [hvt] at h1 h
    obtain ⟨ty', s', g1, _, _⟩ := type_roundtrip_set _ (by simpa [wfType] using h)
    rw [g1] at h1; cases h1; simp [viIsUnset]

theorem dictUpdate_nil (d : Dict) (h : (dkeys d).Nodup) : dictUpdate [] d = d := by
  rw [dictUpdate_append h (by intro k _ hk; simp [dkeys] at hk)]; simp

/-- a value whose info came from `vi`, applied to a value with empty metadata -/
def infoValue (vi : ValueInfoP) (ty : Option IRType) (sh : Option IRShape) (q : Dict)
    (c : Option IRTensor) : IRValue :=
  { name := vi.name, type := ty, shape := sh, doc := vi.doc,
    mprops := dictUpdate [] (dictOfEntries vi.metadata), quant := q, const := c }

/-- serializing a value whose info came from `vi` (fresh metadata): `normValueInfo vi` -/
theorem serValue_of_info (vi : ValueInfoP) (ty : Option IRType) (sh : Option IRShape) (q : Dict)
    (c : Option IRTensor) (h3 : serTypeAndShape ty sh = vi.type) :
    serValue (infoValue vi ty sh q c) = normValueInfo vi := by
  simp only [infoValue, serValue, serValueAs, normValueInfo, h3, normEntries,
    dictUpdate_nil _ (nodup_dkeys_dictOfEntries _)]
  cases vi; simp

theorem shouldCreateVI_of_info (vi : ValueInfoP) (ty : Option IRType) (sh : Option IRShape) (q : Dict)
    (c : Option IRTensor) (hty : ty.isNone = viIsUnset vi.type) :
    shouldCreateVI (infoValue vi ty sh q c) = (viHasInfo vi && !vi.name.isEmpty) := by
  simp only [infoValue, shouldCreateVI, viHasInfo, dictUpdate_nil _ (nodup_dkeys_dictOfEntries _),
    dictOfEntries_isEmpty, ← hty]

/-! ### scope lookups -/

theorem lookupLast_getElem {names : List String} {n : String} {i : Nat}
    (h : lookupLast names n = some i) : names[i]? = some n := by
  induction names generalizing i with
  | nil => simp [lookupLast] at h
  | cons x xs ih =>
    simp only [lookupLast] at h
    split at h
    · rename_i j hj
      cases h
      simpa using ih hj
    · split at h
      · cases h; rename_i hx; simp [hx]
      · cases h

theorem lookupLast_isSome {names : List String} {n : String} (h : n ∈ names) :
    (lookupLast names n).isSome = true := by
  induction names with
  | nil => cases h
  | cons x xs ih =>
    simp only [lookupLast]
    rcases List.mem_cons.1 h with rfl | h
    · split <;> simp
    · have := ih h
      cases hl : lookupLast xs n with
      | none => rw [hl] at this; cases this
      | some j => simp

theorem lookupLast_none {names : List String} {n : String} (h : n ∉ names) :
    lookupLast names n = none := by
  cases hl : lookupLast names n with
  | none => rfl
  | some i => exact absurd (List.mem_of_getElem? (lookupLast_getElem hl)) h

theorem resolve_refName {scopes : Scopes} {n : String} {r : Ref} (h : resolve scopes n = some r) :
    refName scopes r = n := by
  induction scopes generalizing r with
  | nil => simp [resolve] at h
  | cons sc rest ih =>
    simp only [resolve] at h
    split at h
    · rename_i i hi
      cases h
      have := lookupLast_getElem hi
      simp [refName, List.getD, this]
    · cases hr : resolve rest n with
      | none => rw [hr] at h; cases h
      | some r' =>
        rw [hr] at h
        cases h
        have := ih hr
        simpa [refName, List.getD] using this

theorem resolve_isSome_of_mem {scopes : Scopes} {n : String} (h : ∃ sc ∈ scopes, n ∈ sc) :
    (resolve scopes n).isSome = true := by
  induction scopes with
  | nil => obtain ⟨sc, hsc, _⟩ := h; cases hsc
  | cons sc rest ih =>
    simp only [resolve]
    cases hl : lookupLast sc n with
    | some i => simp
    | none =>
      obtain ⟨sc', hsc', hn⟩ := h
      rcases List.mem_cons.1 hsc' with rfl | hsc'
      · have := lookupLast_isSome hn; rw [hl] at this; cases this
      · have := ih ⟨sc', hsc', hn⟩
        cases hr : resolve rest n with
        | none => rw [hr] at this; cases this
        | some r => simp

/-! ### tensors -/

theorem findLast?_eq_find? {α : Type} (key : α → String) (k : String) (es : List α)
    (h : (es.map key).Nodup) :
    findLast? (fun e => key e = k) es = es.find? (fun e => key e = k) := by
  induction es with
  | nil => rfl
  | cons x xs ih =>
    simp only [List.map_cons, List.nodup_cons] at h
    simp only [findLast?, List.find?_cons, ih h.2]
    by_cases hx : key x = k
    · have : xs.find? (fun e => key e = k) = none := by
        rw [List.find?_eq_none]
        intro y hy hyk
        simp only [decide_eq_true_eq] at hyk
        exact h.1 (by rw [hx, ← hyk]; exact List.mem_map_of_mem hy)
      simp [hx, this]
    · simp only [hx, decide_false]
      cases xs.find? (fun e => key e = k) <;> simp

theorem extGet_eq {es : List Entry} (h : (es.map (·.key)).Nodup) (k : String) :
    extGet es k = (es.find? (fun e => e.key = k)).map (·.value) := by
  simp only [extGet]
  rw [findLast?_eq_find? (·.key) k es h]

theorem entry_eta {e : Entry} {k : String} (h : e.key = k) : (⟨k, e.value⟩ : Entry) = e := by
  cases e; simp_all

theorem tensor_roundtrip (p : TensorP) (h : wfTensor p = true) :
    ∃ t, desTensor p = .ok t ∧ serTensor t = normTensor p ∧ t.name = p.name := by
  simp only [wfTensor, Bool.and_eq_true] at h
  obtain ⟨hmeta, h⟩ := h
  by_cases hloc : p.dataLocation = 1
  · -- external
    simp only [hloc, if_true, Bool.and_eq_true, noPayload] at h
    obtain ⟨⟨⟨⟨⟨⟨hdt, hpay⟩, hstr⟩, hkeys⟩, _hallowed⟩, hlocp⟩, hnat⟩ := h
    have hnd := nodupStr_iff.1 hkeys
    have hnum : ∀ k, (k = "offset" ∨ k = "length") →
        ∃ o, extNat p.externalData k = .ok o ∧
          optEntry k (o.map toString) = (p.externalData.find? (fun e => e.key = k)).toList := by
      intro k hk
      simp only [extNat, extGet_eq hnd]
      cases hf : p.externalData.find? (fun e => e.key = k) with
      | none => exact ⟨none, rfl, rfl⟩
      | some e =>
        have hmem := List.mem_of_find?_eq_some hf
        have hek : e.key = k := by simpa using List.find?_some hf
        have := List.all_eq_true.1 hnat e hmem
        simp only [Bool.decide_or, Bool.or_eq_true, decide_eq_true_eq, hek, isNatStr,
          decide_eq_true_eq] at this
        have hn := this (by rcases hk with rfl | rfl <;> simp)
        simp only [Option.map_some]
        cases hp : parseInt e.value with
        | none => rw [hp] at hn; cases hn
        | some i =>
          rw [hp] at hn
          simp only [Bool.and_eq_true, decide_eq_true_eq] at hn
          refine ⟨some i.toNat, ?_, ?_⟩
          · have : ¬ i < 0 := by omega
            simp [this]
          · simp only [Option.map_some, optEntry, hn.2, Option.toList]
            rw [entry_eta hek]
    obtain ⟨off, ho1, ho2⟩ := hnum "offset" (Or.inl rfl)
    obtain ⟨len, hl1, hl2⟩ := hnum "length" (Or.inr rfl)
    refine ⟨_, by simp [desTensor, hloc, ho1, hl1, hdt, bind, Except.bind]; rfl, ?_, rfl⟩
    simp only [serTensor, normTensor, hloc, if_true, normExternal, ho2, hl2, extGet_eq hnd, normEntries]
    obtain ⟨eloc, hel, helk⟩ : ∃ e, p.externalData.find? (fun e => e.key = "location") = some e
        ∧ e.key = "location" := by
      cases hf : p.externalData.find? (fun e => e.key = "location") with
      | none =>
        rw [List.find?_eq_none] at hf
        obtain ⟨e, he, hek⟩ := List.any_eq_true.1 hlocp
        exact absurd hek (hf e he)
      | some e => exact ⟨e, rfl, by simpa using List.find?_some hf⟩
    have hck : optEntry "checksum" ((p.externalData.find? (fun e => e.key = "checksum")).map (·.value))
        = (p.externalData.find? (fun e => e.key = "checksum")).toList := by
      cases hf : p.externalData.find? (fun e => e.key = "checksum") with
      | none => rfl
      | some e =>
        have hek : e.key = "checksum" := by simpa using List.find?_some hf
        simp only [Option.map_some, optEntry, Option.toList]; rw [entry_eta hek]
    simp only [hel, Option.map_some, Option.getD_some, hck]
    simp only [Bool.and_eq_true, Option.isNone_iff_eq_none, List.isEmpty_iff] at hpay hstr
    obtain ⟨⟨⟨⟨⟨h1, h2⟩, h3⟩, h4⟩, h5⟩, h6⟩ := hpay
    cases p
    simp_all only [emptyTensorP, entry_eta helk]
    simp only [TensorP.mk.injEq, true_and]
    refine ⟨?_, trivial⟩
    simp [List.filterMap_cons, hel]
    rename_i ext _
    cases List.find? (fun e : Entry => decide (e.key = "offset")) ext <;>
      cases List.find? (fun e : Entry => decide (e.key = "length")) ext <;>
      cases List.find? (fun e : Entry => decide (e.key = "checksum")) ext <;> simp
  · simp only [hloc, if_false] at h
    by_cases hs : p.dataType = 8
    · -- string tensor
      simp only [hs, if_true, Bool.and_eq_true, noPayload, decide_eq_true_eq] at h
      obtain ⟨⟨hpay, hext⟩, hl0⟩ := h
      refine ⟨_, by simp [desTensor, hloc, hs]; rfl, ?_, rfl⟩
      simp only [serTensor, normTensor, hloc, if_false, normEntries]
      simp only [Bool.and_eq_true, Option.isNone_iff_eq_none, List.isEmpty_iff] at hpay hext
      obtain ⟨⟨⟨⟨⟨h1, h2⟩, h3⟩, h4⟩, h5⟩, h6⟩ := hpay
      cases p
      simp_all [emptyTensorP]
    · -- proto-backed tensor
      refine ⟨_, by simp [desTensor, hloc, hs]; rfl, ?_, rfl⟩
      simp only [serTensor, normTensor, hloc, if_false, normEntries]
      split
      · rename_i he
        have := sortEntries_dictOfEntries_isEmpty _ he
        cases p; simp_all [dictOfEntries, dictUpdate, sortEntries]
      · rfl

/-- a proto-backed tensor (neither external nor string) round-trips for EVERY proto -/
theorem tensor_roundtrip_proto_backed (p : TensorP) (hloc : p.dataLocation ≠ 1) (hs : p.dataType ≠ 8) :
    ∃ t, desTensor p = .ok t ∧ serTensor t = normTensor p := by
  refine ⟨_, by simp [desTensor, hloc, hs]; rfl, ?_⟩
  simp only [serTensor, normTensor, hloc, if_false, normEntries]
  split
  · rename_i he
    have := sortEntries_dictOfEntries_isEmpty _ he
    cases p; simp_all [dictOfEntries, dictUpdate, sortEntries]
  · rfl

theorem setName_self (p : TensorP) (t : IRTensor) (h : desTensor p = .ok t) :
    t.setName p.name = t := by
  unfold desTensor at h
  split at h
  · simp only [bind, Except.bind] at h
    split at h
    · cases h
    · split at h
      · cases h
      · split at h
        · cases h; rfl
        · cases h
  · split at h
    · cases h; rfl
    · cases h; rfl


/-! ### attribute payloads, device configurations -/

theorem typeAndShape_roundtrip (t : TypeP) (h : wfType t = true) :
    ∃ ty sh, desTypeAndShape t = .ok (ty, sh) ∧ serTypeAndShape ty sh = t := by
  obtain ⟨ty, sh, h1, h2, h3⟩ := type_roundtrip t h
  exact ⟨ty, sh, by simp [desTypeAndShape, h1, h2, bind, Except.bind], h3⟩

theorem shardedDim_roundtrip (d : ShardedDimP) : serShardedDim (desShardedDim d) = d := by
  cases d with
  | mk axis simple =>
    simp only [serShardedDim, desShardedDim, List.map_map, ShardedDimP.mk.injEq, true_and]
    have : (serSimpleShard ∘ desSimpleShard) = id := by
      funext s; cases s; simp [serSimpleShard, desSimpleShard, serDimVal_desDimVal]
    rw [this, List.map_id]

theorem shardingSpecs_roundtrip (scopes : Scopes) (ss : List ShardingSpecP)
    (h : ss.all wfShardingSpec = true) :
    serShardingSpecs scopes (ss.map (desShardingSpec scopes)) = .ok ss := by
  induction ss with
  | nil => rfl
  | cons s ss ih =>
    simp only [List.all_cons, Bool.and_eq_true] at h
    have hs : serShardingSpec scopes (desShardingSpec scopes s) = .ok s := by
      have hne : s.tensorName.isEmpty = false := by simpa [wfShardingSpec] using h.1
      have hdims : (s.dims.map desShardedDim).map serShardedDim = s.dims := by
        simp [List.map_map, Function.comp_def, shardedDim_roundtrip]
      cases s with
      | mk tn dev gm dims =>
        simp only at hne hdims
        simp only [desShardingSpec, hne, Bool.false_eq_true, if_false]
        cases hr : resolve scopes tn with
        | some r => simp [serShardingSpec, resolve_refName hr, hne, hdims]
        | none => simp [serShardingSpec, hne, hdims]
    simp only [List.map_cons, serShardingSpecs, hs, ih h.2, bind, Except.bind]

theorem nodeDevCfgs_roundtrip (scopes : Scopes) (cs : List NodeDevCfgP)
    (h : cs.all wfNodeDevCfg = true) :
    serNodeDevCfgs scopes (cs.map (desNodeDevCfg scopes)) = .ok cs := by
  induction cs with
  | nil => rfl
  | cons c cs ih =>
    simp only [List.all_cons, Bool.and_eq_true] at h
    have hc : serNodeDevCfg scopes (desNodeDevCfg scopes c) = .ok c := by
      simp only [wfNodeDevCfg, Bool.and_eq_true, Bool.not_eq_true'] at h
      cases c with
      | mk id specs stage =>
        simp only at h
        simp [desNodeDevCfg, serNodeDevCfg, h.1.1, shardingSpecs_roundtrip scopes specs h.1.2,
          bind, Except.bind]
    simp only [List.map_cons, serNodeDevCfgs, hc, ih h.2, bind, Except.bind]

theorem desBStrs_utf8 (xs : List BStr) (h : xs.all bstrIsUtf8 = true) :
    ∃ ys, desBStrs xs = .ok ys ∧ serBStrs ys = xs := by
  induction xs with
  | nil => exact ⟨[], rfl, rfl⟩
  | cons x xs ih =>
    simp only [List.all_cons, Bool.and_eq_true] at h
    obtain ⟨ys, h1, h2⟩ := ih h.2
    cases x with
    | utf8 s => exact ⟨s :: ys, by simp [desBStrs, h1, bind, Except.bind], by simp [serBStrs] at h2 ⊢; exact h2⟩
    | raw b => simp [bstrIsUtf8] at h

theorem desTensors_roundtrip (ts : List TensorP) (h : ts.all wfTensor = true) :
    ∃ xs, desTensors ts = .ok xs ∧ xs.map serTensor = ts.map normTensor := by
  induction ts with
  | nil => exact ⟨[], rfl, rfl⟩
  | cons t ts ih =>
    simp only [List.all_cons, Bool.and_eq_true] at h
    obtain ⟨xs, h1, h2⟩ := ih h.2
    obtain ⟨x, g1, g2, _⟩ := tensor_roundtrip t h.1
    exact ⟨x :: xs, by simp [desTensors, g1, h1, bind, Except.bind], by simp [g2, h2]⟩

theorem desTypeAndShapes_roundtrip (tps : List TypeP) (h : tps.all wfType = true) :
    ∃ xs, desTypeAndShapes tps = .ok xs ∧ serTypeAndShapes xs = tps := by
  induction tps with
  | nil => exact ⟨[], rfl, rfl⟩
  | cons t ts ih =>
    simp only [List.all_cons, Bool.and_eq_true] at h
    obtain ⟨xs, h1, h2⟩ := ih h.2
    obtain ⟨ty, sh, g1, g2⟩ := typeAndShape_roundtrip t h.1
    refine ⟨(ty, sh) :: xs, by simp [desTypeAndShapes, g1, h1, bind, Except.bind], ?_⟩
    simp only [serTypeAndShapes, List.map_cons, g2] at h2 ⊢
    rw [h2]

end IrVerif.Serde

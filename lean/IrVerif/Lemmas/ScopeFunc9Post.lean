/-
The IR version < 10 format: the post-pass of `deserializeM9` (`applyInfos`, `applyExpFunc`, the fold over the
functions) in closed form; `parseExp` inverts `formatExp`; what a lookup in the per-function table of
experimental entries finds; membership in the entries `expOfFunc` writes.
-/
import IrVerif.Lemmas.ScopeFunc9Frame
namespace IrVerif.Scope

/-! ### `parseExp s = some (d, f, v)` only if `s = formatExp d f v` -/

theorem isPrefixL_eq : ∀ (sep l : List Char), isPrefixL sep l = true → l = sep ++ l.drop sep.length
  | [], _, _ => rfl
  | _ :: _, [], h => by simp [isPrefixL] at h
  | a :: as, b :: bs, h => by
    simp only [isPrefixL, Bool.and_eq_true, beq_iff_eq] at h
    obtain ⟨rfl, h2⟩ := h
    have := isPrefixL_eq as bs h2
    simp only [List.length_cons, List.drop_succ_cons, List.cons_append]
    rw [← this]

theorem splitFirstL_eq (sep : List Char) : ∀ (s a b : List Char), splitFirstL sep s = some (a, b) → s = a ++ sep ++ b
  | [], a, b, h => by
    simp only [splitFirstL] at h
    split at h
    · rename_i he
      simp only [Option.some.injEq, Prod.mk.injEq] at h
      obtain ⟨rfl, rfl⟩ := h
      simp only [List.isEmpty_iff] at he
      simp [he]
    · simp at h
  | c :: cs, a, b, h => by
    simp only [splitFirstL] at h
    split at h
    · rename_i hp
      simp only [Option.some.injEq, Prod.mk.injEq] at h
      obtain ⟨rfl, rfl⟩ := h
      simpa using isPrefixL_eq sep (c :: cs) hp
    · split at h
      · simp at h
      · rename_i a' b' hr
        simp only [Option.some.injEq, Prod.mk.injEq] at h
        obtain ⟨rfl, rfl⟩ := h
        have := splitFirstL_eq sep cs a' b' hr
        simp [this]

theorem splitFirst_eq (sep s a b : String) (h : splitFirst sep s = some (a, b)) : s = a ++ sep ++ b := by
  simp only [splitFirst] at h
  split at h
  · simp at h
  · rename_i a' b' hr
    simp only [Option.some.injEq, Prod.mk.injEq] at h
    obtain ⟨rfl, rfl⟩ := h
    have := splitFirstL_eq _ _ _ _ hr
    rw [← String.toList_inj]
    simp only [String.toList_append, String.toList_ofList]
    exact this

theorem parseExp_eq (s d f v : String) (h : parseExp s = some (d, f, v)) : s = formatExp d f v := by
  simp only [parseExp] at h
  split at h
  · simp at h
  · rename_i d' rest h1
    split at h
    · simp at h
    · rename_i f' v' h2
      simp only [Option.some.injEq, Prod.mk.injEq] at h
      obtain ⟨rfl, rfl, rfl⟩ := h
      have e1 := splitFirst_eq _ _ _ _ h1
      have e2 := splitFirst_eq _ _ _ _ h2
      rw [e1, e2, formatExp]
      simp only [String.append_assoc]

/-! ### the post-pass in closed form -/

/-- `deserialize_value_info_proto(mapping[value.name], value)` when the name is in the mapping -/
def updInfo (tbl : List (Name × Info)) (c : ValueS) : ValueS :=
  match c.name with
  | none => c
  | some n =>
    match tbl.lookup n with
    | some i => { c with info := i }
    | none => c

theorem updInfo_name (tbl : List (Name × Info)) (c : ValueS) : (updInfo tbl c).name = c.name := by
  unfold updInfo; split
  · rfl
  · split <;> rfl

theorem updInfo_eq (tbl : List (Name × Info)) (c : ValueS) : updInfo tbl c = { c with info := (updInfo tbl c).info } := by
  unfold updInfo; split
  · rfl
  · split <;> rfl

theorem updInfo_idem (tbl : List (Name × Info)) (c : ValueS) : updInfo tbl (updInfo tbl c) = updInfo tbl c := by
  cases hn : c.name with
  | none => simp only [updInfo, hn]
  | some n =>
    cases hl : tbl.lookup n with
    | none => simp only [updInfo, hn, hl]
    | some i => simp only [updInfo, hn, hl]

theorem updInfo_some (tbl : List (Name × Info)) (c : ValueS) (n : Name) (i : Info) (hn : c.name = some n)
    (hl : tbl.lookup n = some i) : (updInfo tbl c).info = i := by
  simp only [updInfo, hn, hl]

theorem updInfo_none (tbl : List (Name × Info)) (c : ValueS) (n : Name) (hn : c.name = some n)
    (hl : tbl.lookup n = none) : updInfo tbl c = c := by
  simp only [updInfo, hn, hl]

theorem store_vals_congr (st : Store) (f g : Nat → ValueS) (h : ∀ w, f w = g w) :
    ({ st with vals := f } : Store) = { st with vals := g } := by
  have : f = g := funext h
  rw [this]

theorem applyInfos_eq (tbl : List (Name × Info)) : ∀ (l : List Nat) (st : Store),
    applyInfos st tbl l = { st with vals := fun w => if w ∈ l then updInfo tbl (st.vals w) else st.vals w }
  | [], st => by simp [applyInfos]
  | v :: vs, st => by
    cases hn : (st.vals v).name with
    | none =>
      simp only [applyInfos, hn, applyInfos_eq tbl vs]
      apply store_vals_congr
      intro w
      by_cases hw : w = v
      · subst hw
        have : updInfo tbl (st.vals w) = st.vals w := by simp only [updInfo, hn]
        simp [this]
      · simp [hw]
    | some n =>
      cases hl : tbl.lookup n with
      | none =>
        simp only [applyInfos, hn, hl, applyInfos_eq tbl vs]
        apply store_vals_congr
        intro w
        by_cases hw : w = v
        · subst hw
          have : updInfo tbl (st.vals w) = st.vals w := updInfo_none tbl _ n hn hl
          simp [this]
        · simp [hw]
      | some i =>
        simp only [applyInfos, hn, hl, applyInfos_eq tbl vs]
        show ({ st with vals := _ } : Store) = _
        apply store_vals_congr
        intro w
        by_cases hw : w = v
        · subst hw
          have e1 : (st.modify w fun c => { c with info := i }).vals w = { st.vals w with info := i } := by
            simp [Store.modify]
          have e2 : updInfo tbl (st.vals w) = { st.vals w with info := i } := by simp only [updInfo, hn, hl]
          have e3 : updInfo tbl { st.vals w with info := i } = { st.vals w with info := i } := by
            simp only [updInfo, hn, hl]
          simp only [e1, e2, e3, List.mem_cons, true_or, if_true]
          split <;> rfl
        · have e1 : (st.modify v fun c => { c with info := i }).vals w = st.vals w := by
            simp [Store.modify, hw]
          simp only [e1, List.mem_cons, hw, false_or]

/-- the values whose info the post-pass may set: the inputs and the outputs of the function's own nodes -/
def fvals (g : GraphT) : List Nat := g.inputs ++ g.nodes.flatMap NodeT.outputs

/-- the mapping of one function, newest entry first -/
def tblOf (vi : List VInfoP) (fids : List FId) (k : FId) : List (Name × Info) := (expEntriesFor fids vi k).reverse

theorem applyExpFunc_eq (vi : List VInfoP) (fids : List FId) (st : Store) (f : FId × GraphT) :
    applyExpFunc vi fids st f =
      { st with vals := fun w => if w ∈ fvals f.2 then updInfo (tblOf vi fids f.1) (st.vals w) else st.vals w } := by
  obtain ⟨k, g⟩ := f
  obtain ⟨gid, ins, inits, nodes, outs⟩ := g
  simp only [applyExpFunc, applyInfos_eq, fvals, GraphT.inputs, GraphT.nodes, tblOf, List.mem_append]
  apply store_vals_congr
  intro w
  by_cases h1 : w ∈ ins <;> by_cases h2 : w ∈ nodes.flatMap NodeT.outputs <;> simp [h1, h2, updInfo_idem]

/-- the post-pass of `deserializeM9` -/
def postFold (vi : List VInfoP) (fids : List FId) (fs : List (FId × GraphT)) (st : Store) : Store :=
  fs.foldl (applyExpFunc vi fids) st

theorem postFold_cons (vi : List VInfoP) (fids : List FId) (f : FId × GraphT) (fs : List (FId × GraphT)) (st : Store) :
    postFold vi fids (f :: fs) st = postFold vi fids fs (applyExpFunc vi fids st f) := rfl

/-- the post-pass only changes `info` slots -/
theorem postFold_setInfo (vi : List VInfoP) (fids : List FId) : ∀ (fs : List (FId × GraphT)) (st : Store),
    postFold vi fids fs st =
      { st with vals := setInfo st.vals fun w => ((postFold vi fids fs st).vals w).info }
  | [], st => rfl
  | f :: fs, st => by
    rw [postFold_cons]
    have ih := postFold_setInfo vi fids fs (applyExpFunc vi fids st f)
    rw [ih]
    rw [applyExpFunc_eq]
    show ({ st with vals := _ } : Store) = _
    apply store_vals_congr
    intro w
    simp only [setInfo]
    split
    · rw [updInfo_eq]
    · rfl

theorem postFold_out (vi : List VInfoP) (fids : List FId) (w : Nat) : ∀ (fs : List (FId × GraphT)) (st : Store),
    (∀ f ∈ fs, w ∉ fvals f.2) → (postFold vi fids fs st).vals w = st.vals w
  | [], _, _ => rfl
  | f :: fs, st, h => by
    rw [postFold_cons, postFold_out vi fids w fs _ (fun g hg => h g (by simp [hg])), applyExpFunc_eq]
    simp [h f (by simp)]

theorem postFold_at (vi : List VInfoP) (fids : List FId) (w : Nat) (f : FId × GraphT) :
    ∀ (fs : List (FId × GraphT)) (st : Store), (fs.map (·.1)).Nodup → f ∈ fs → w ∈ fvals f.2 →
      (∀ g ∈ fs, g ≠ f → w ∉ fvals g.2) →
      (postFold vi fids fs st).vals w = updInfo (tblOf vi fids f.1) (st.vals w)
  | [], _, _, hf, _, _ => by simp at hf
  | g :: fs, st, hnd, hf, hw, hother => by
    simp only [List.map_cons, List.nodup_cons] at hnd
    rw [postFold_cons]
    by_cases hg : g = f
    · subst hg
      rw [postFold_out vi fids w fs _ (fun g' hg' => hother g' (by simp [hg']) (fun e => by
        subst e; exact hnd.1 (List.mem_map_of_mem hg'))), applyExpFunc_eq]
      simp [hw]
    · have hf' : f ∈ fs := by
        simp only [List.mem_cons] at hf
        rcases hf with rfl | hf
        · exact absurd rfl hg
        · exact hf
      rw [postFold_at vi fids w f fs _ hnd.2 hf' hw (fun g' hg' => hother g' (by simp [hg'])), applyExpFunc_eq]
      simp [hother g (by simp) hg]

/-! ### what a lookup in the mapping of one function finds -/

/-- the entries recorded for the function `k`, as value infos under the value name -/
def expL (fids : List FId) (vi : List VInfoP) (k : FId) : List VInfoP :=
  vi.filterMap fun e =>
    match parseExp e.name with
    | none => none
    | some (d, f, v) => if (⟨d, f, ""⟩ : FId) = k && fids.contains ⟨d, f, ""⟩ then some ⟨v, e.info⟩ else none

theorem tblOf_eq (vi : List VInfoP) (fids : List FId) (k : FId) : tblOf vi fids k = vinfoTable (expL fids vi k) := by
  simp only [tblOf, vinfoTable, expEntriesFor, expL, List.map_filterMap]
  congr 2
  funext e
  cases parseExp e.name with
  | none => rfl
  | some t =>
    obtain ⟨d, f, v⟩ := t
    simp only
    split <;> rfl

theorem mem_expL (fids : List FId) (vi : List VInfoP) (k : FId) (e' : VInfoP) :
    e' ∈ expL fids vi k ↔ ∃ e ∈ vi, ∃ d f, parseExp e.name = some (d, f, e'.name) ∧ (⟨d, f, ""⟩ : FId) = k ∧
      fids.contains k = true ∧ e'.info = e.info := by
  simp only [expL, List.mem_filterMap]
  constructor
  · rintro ⟨e, he, h⟩
    split at h
    · simp at h
    · rename_i d f v hp
      split at h
      · rename_i hc
        simp only [Option.some.injEq] at h
        subst h
        simp only [Bool.and_eq_true, decide_eq_true_eq] at hc
        exact ⟨e, he, d, f, hp, hc.1, by rw [← hc.1]; exact hc.2, rfl⟩
      · simp at h
  · rintro ⟨e, he, d, f, hp, hk, hc, hi⟩
    refine ⟨e, he, ?_⟩
    simp only [hp, hk, hc, decide_true, Bool.and_self, if_true, Option.some.injEq]
    cases e' with
    | mk n i => simp only at hi ⊢; rw [hi]

theorem tblOf_lookup_some (vi : List VInfoP) (fids : List FId) (k : FId) (n : Name) (i : Info)
    (hk : k.overload = "") (hc : fids.contains k = true)
    (hall : ∀ e ∈ vi, parseExp e.name = some (k.domain, k.name, n) → e.info = i)
    (hex : ∃ e ∈ vi, parseExp e.name = some (k.domain, k.name, n)) : (tblOf vi fids k).lookup n = some i := by
  rw [tblOf_eq]
  apply vinfoTable_lookup_some
  · intro e' he' hn
    obtain ⟨e, he, d, f, hp, hkk, _, hi⟩ := (mem_expL fids vi k e').mp he'
    rw [hi]
    apply hall e he
    rw [hp, hn, ← hkk]
  · obtain ⟨e, he, hp⟩ := hex
    refine ⟨⟨n, e.info⟩, (mem_expL fids vi k _).mpr ⟨e, he, k.domain, k.name, hp, ?_, hc, rfl⟩, rfl⟩
    cases k with
    | mk d f o => simp only at hk ⊢; rw [hk]

theorem tblOf_lookup_none (vi : List VInfoP) (fids : List FId) (k : FId) (n : Name)
    (hall : ∀ e ∈ vi, parseExp e.name ≠ some (k.domain, k.name, n)) : (tblOf vi fids k).lookup n = none := by
  rw [tblOf_eq]
  apply vinfoTable_lookup_none
  intro e' he' hn
  obtain ⟨e, he, d, f, hp, hkk, _, _⟩ := (mem_expL fids vi k e').mp he'
  apply hall e he
  rw [hp, hn, ← hkk]

/-! ### the entries `expOfFunc` writes -/

theorem mem_expVInfo (V : Nat → ValueS) (R : List Name) (k : FId) (e : VInfoP) : ∀ (l : List Nat),
    e ∈ expVInfo V R k l ↔ ∃ u ∈ l, nameTruthy (V u).name = true ∧ shouldCreate (V u) = true ∧
      canParseBack R k (nm V u) = true ∧ e = ⟨formatExp k.domain k.name (nm V u), (V u).info.emit⟩
  | [] => by simp [expVInfo]
  | v :: vs => by
    simp only [expVInfo]
    have ih := mem_expVInfo V R k e vs
    by_cases hc : (nameTruthy (V v).name && shouldCreate (V v) && canParseBack R k ((V v).name.getD "")) = true
    · rw [if_pos hc]
      simp only [List.mem_cons, ih]
      simp only [Bool.and_eq_true] at hc
      constructor
      · rintro (rfl | ⟨u, hu, h⟩)
        · exact ⟨v, .inl rfl, hc.1.1, hc.1.2, hc.2, rfl⟩
        · exact ⟨u, .inr hu, h⟩
      · rintro ⟨u, hu | hu, h⟩
        · subst hu; exact .inl h.2.2.2
        · exact .inr ⟨u, hu, h⟩
    · rw [if_neg hc]
      simp only [List.mem_cons, ih]
      constructor
      · rintro ⟨u, hu, h⟩
        exact ⟨u, .inr hu, h⟩
      · rintro ⟨u, hu | hu, h⟩
        · subst hu
          exact absurd (by simp only [Bool.and_eq_true]; exact ⟨⟨h.1, h.2.1⟩, h.2.2.1⟩) hc
        · exact ⟨u, hu, h⟩

theorem mem_expOfFunc (V : Nat → ValueS) (R : List Name) (f : FId × GraphT) (e : VInfoP) :
    e ∈ expOfFunc V R f ↔ f.1.overload = "" ∧ ∃ u ∈ fvals f.2, nameTruthy (V u).name = true ∧
      shouldCreate (V u) = true ∧ canParseBack R f.1 (nm V u) = true ∧
      e = ⟨formatExp f.1.domain f.1.name (nm V u), (V u).info.emit⟩ := by
  obtain ⟨k, g⟩ := f
  obtain ⟨gid, ins, inits, nodes, outs⟩ := g
  simp only [expOfFunc]
  by_cases ho : k.overload = ""
  · simp only [ho, bne_self_eq_false, Bool.false_eq_true, if_false, List.mem_append, mem_expVInfo, fvals, GraphT.inputs,
      GraphT.nodes, true_and]
    constructor
    · rintro (⟨u, hu, h⟩ | ⟨u, hu, h⟩)
      · exact ⟨u, .inl hu, h⟩
      · exact ⟨u, .inr hu, h⟩
    · rintro ⟨u, hu | hu, h⟩
      · exact .inl ⟨u, hu, h⟩
      · exact .inr ⟨u, hu, h⟩
  · have : (k.overload != "") = true := by simpa using ho
    simp [this, ho]

end IrVerif.Scope

/-
C09 on top of C07, several data files: the serial image of EVERY planned configuration (`planSingle` and
`planSharded`, Model/WriterPlan.lean) is C07's file model of the whole save,
`Layout.dataFiles (tensors' bytes) maxShard al athr none` = one `Layout.serialImage (Layout.writesOf ..)` per
shard of `Layout.shardRaw` — so `C07_roundtrip` / `C07_readback` speak about every shard file the concurrent
writer leaves.
-/
import IrVerif.Lemmas.WriterLayoutSerial
import IrVerif.Lemmas.WriterPlanShardsWF
namespace IrVerif.WriterN
open IrVerif.Layout (Info computeInfos computeInfosFrom)

/-! ### the serial writer as a fold over the tensor list -/

/-- `seek; write` of one tensor on the list of file images -/
def writeT (fs : List (List Nat)) (t : Tensor) : List (List Nat) :=
  fs.set t.file (writeAt (fs.getD t.file []) t.off t.data)

/-- the serial writer on a list of tensors -/
def applyT (fs : List (List Nat)) (T : List Tensor) : List (List Nat) := T.foldl writeT fs

theorem map_getD_range {α : Type} (l : List α) (d : α) :
    (List.range l.length).map (fun i => l.getD i d) = l := by
  apply List.ext_getElem
  · simp
  · intro i h1 h2
    simp [List.getD_eq_getElem?_getD, h2]

theorem serialFiles_eq_applyT (cfg : Cfg) : serialFiles cfg = applyT cfg.files cfg.tensors := by
  unfold serialFiles applyT
  have h : ∀ fs i, writeTask cfg fs i = writeT fs (cfg.tensors.getD i default) := fun _ _ => rfl
  have h2 : (List.range cfg.n).foldl (writeTask cfg) cfg.files =
      ((List.range cfg.tensors.length).map (fun i => cfg.tensors.getD i default)).foldl writeT cfg.files := by
    rw [List.foldl_map]; rfl
  rw [h2, map_getD_range]

theorem applyT_append (fs : List (List Nat)) (A B : List Tensor) :
    applyT fs (A ++ B) = applyT (applyT fs A) B := by
  simp [applyT, List.foldl_append]

theorem set_getD_self (fs : List (List Nat)) (j : Nat) (hj : j < fs.length) :
    fs.set j (fs.getD j []) = fs := by
  apply List.ext_getElem
  · simp
  · intro i h1 h2
    by_cases e : j = i
    · subst e; simp [List.getD_eq_getElem?_getD, hj]
    · simp [List.getElem_set_ne e]

/-! ### one data file -/

theorem applyT_placeZip (j : Nat) (jobOf : Nat → Nat) :
    ∀ (infs : List Info) (sh : List TSpec) (k : Nat) (fs : List (List Nat)), j < fs.length →
      applyT fs (placeZip j jobOf k infs sh) =
        fs.set j (Layout.applyWrites (fs.getD j [])
          ((infs.zip (sh.map (·.data))).map fun p => (p.1.offset, p.2)))
  | [], sh, k, fs, hj => by
      have := set_getD_self fs j hj
      simp only [placeZip, applyT, Layout.applyWrites, List.zip_nil_left, List.map_nil, List.foldl_nil]
      exact this.symm
  | _ :: _, [], k, fs, hj => by
      have := set_getD_self fs j hj
      simp only [placeZip, applyT, Layout.applyWrites, List.map_nil, List.zip_nil_right, List.foldl_nil]
      exact this.symm
  | inf :: infs, t :: sh, k, fs, hj => by
      have ih := applyT_placeZip j jobOf infs sh (k + 1)
        (fs.set j (writeAt (fs.getD j []) inf.offset t.data)) (by simpa using hj)
      simp only [placeZip, applyT, List.foldl_cons, writeT] at ih ⊢
      rw [ih]
      simp only [List.map_cons, List.zip_cons_cons, Layout.applyWrites, List.foldl_cons, List.set_set]
      congr 2
      rw [List.getD_eq_getElem?_getD, List.getElem?_set_self (by simpa using hj)]
      simp [writeAt_eq_layout]

theorem applyT_placeFile (al : Option Nat) (athr : Nat) (j : Nat) (jobOf : Nat → Nat) (sh : List TSpec)
    (fs : List (List Nat)) (hj : j < fs.length) :
    applyT fs (placeFile al athr j jobOf sh) =
      fs.set j (Layout.applyWrites (fs.getD j []) (Layout.writesOf al athr (sh.map (·.data)))) := by
  unfold placeFile
  rw [applyT_placeZip j jobOf _ sh 0 fs hj]
  have : (sh.map (·.data)).map List.length = sh.map TSpec.nbytes := by
    simp [TSpec.nbytes, Function.comp_def]
  simp only [Layout.writesOf, fileInfos, this]

/-! ### the shard loop -/

/-- the files after the serial writer went through the shards `j, j+1, ..` -/
def setShards (al : Option Nat) (athr : Nat) : List (List Nat) → Nat → List (List TSpec) → List (List Nat)
  | fs, _, [] => fs
  | fs, j, sh :: rest =>
    setShards al athr
      (fs.set j (Layout.applyWrites (fs.getD j []) (Layout.writesOf al athr (sh.map (·.data))))) (j + 1) rest

theorem applyT_planShards (al : Option Nat) (athr : Nat) (S wps : Nat) :
    ∀ (shards : List (List TSpec)) (j st np nj : Nat) (fs : List (List Nat)), j + shards.length ≤ fs.length →
      applyT fs (planShards al athr S wps j st np nj shards).tensors = setShards al athr fs j shards
  | [], _, _, _, _, fs, _ => by simp [planShards, applyT, setShards]
  | sh :: rest, j, st, np, nj, fs, h => by
      rw [ps_tensors, applyT_append, applyT_placeFile al athr j _ sh fs (by simp at h; omega)]
      simp only [setShards]
      exact applyT_planShards al athr S wps rest _ _ _ _ _ (by simp at h ⊢; omega)

theorem setShards_empty (al : Option Nat) (athr : Nat) :
    ∀ (shards : List (List TSpec)) (pre : List (List Nat)),
      setShards al athr (pre ++ List.replicate shards.length []) pre.length shards =
        pre ++ shards.map fun sh => Layout.serialImage (Layout.writesOf al athr (sh.map (·.data)))
  | [], pre => by simp [setShards]
  | sh :: rest, pre => by
      simp only [setShards, List.length_cons, List.replicate_succ, List.map_cons]
      have h1 : (pre ++ ([] : List Nat) :: List.replicate rest.length []).getD pre.length [] = [] := by
        simp [List.getD_eq_getElem?_getD]
      have h2 : (pre ++ ([] : List Nat) :: List.replicate rest.length []).set pre.length
          (Layout.serialImage (Layout.writesOf al athr (sh.map (·.data)))) =
          (pre ++ [Layout.serialImage (Layout.writesOf al athr (sh.map (·.data)))]) ++
            List.replicate rest.length [] := by
        simp
      rw [h1, show Layout.applyWrites [] (Layout.writesOf al athr (sh.map (·.data))) =
        Layout.serialImage (Layout.writesOf al athr (sh.map (·.data))) from rfl, h2]
      have ih := setShards_empty al athr rest
        (pre ++ [Layout.serialImage (Layout.writesOf al athr (sh.map (·.data)))])
      simp only [List.length_append, List.length_singleton] at ih
      rw [ih]; simp

/-- **the serial image of the planned sharded configuration: one C07 serial image per shard** -/
theorem planSharded_serial_eq_C07 (ts : List TSpec) (shards : List (List TSpec)) (al : Option Nat)
    (athr workers capacity : Nat) :
    serialFiles (cfgEmpty (planSharded ts shards al athr workers capacity)) =
      shards.map fun sh => Layout.serialImage (Layout.writesOf al athr (sh.map (·.data))) := by
  rw [serialFiles_eq_applyT]
  have hf : (cfgEmpty (planSharded ts shards al athr workers capacity)).files =
      [] ++ List.replicate shards.length [] := by
    simp only [cfgEmpty, planSharded, List.nil_append]
    rw [List.map_const', planShards_files_length]
  have ht : (cfgEmpty (planSharded ts shards al athr workers capacity)).tensors =
      (planShards al athr shards.length
        (max 1 ((workers - min workers shards.length) / min workers shards.length)) 0 0 0 0 shards).tensors := rfl
  rw [ht, hf, applyT_planShards _ _ _ _ shards 0 0 0 0 _ (by simp)]
  have := setShards_empty al athr shards []
  simpa using this

/-! ### the shards of the tensors and the shards of their bytes -/

theorem shardRawGo_mapf {α β : Type} (sa : α → Nat) (sb : β → Nat) (f : α → β) (hf : ∀ a, sb (f a) = sa a)
    (limit : Nat) (al : Option Nat) (thr : Nat) (cur : List α) (sz : Nat) (ts : List α) :
    (Layout.shardRawGo sa limit al thr cur sz ts).map (List.map f) =
      Layout.shardRawGo sb limit al thr (cur.map f) sz (ts.map f) := by
  induction ts generalizing cur sz with
  | nil => simp [Layout.shardRawGo]
  | cons t rest ih =>
    simp only [Layout.shardRawGo, List.map_cons, hf]
    have e : (cur.map f ≠ []) ↔ cur ≠ [] := by simp
    simp only [e]
    by_cases hc : Layout.alignOffset sz (sa t) al thr + sa t > limit ∧ cur ≠ []
    · rw [if_pos hc, if_pos hc, List.map_cons, ih]; simp
    · rw [if_neg hc, if_neg hc, ih]; simp

/-- the shards of the tensors' bytes (C07's `byteShards`) are the bytes of the shards of the tensors -/
theorem byteShards_eq (ts : List TSpec) (maxShard al : Option Nat) (athr : Nat) :
    Layout.byteShards (ts.map (·.data)) maxShard al athr =
      (shardsOf ts maxShard al athr).map (List.map (·.data)) := by
  cases maxShard with
  | none => simp [Layout.byteShards, shardsOf]
  | some m =>
      simp only [Layout.byteShards, shardsOf, Layout.shardRaw]
      have := shardRawGo_mapf TSpec.nbytes List.length (·.data) (fun _ => rfl) m al athr [] 0 ts
      simpa using this.symm

theorem shardRawGo_ne_nil {α : Type} (size : α → Nat) (limit : Nat) (al : Option Nat) (thr : Nat) :
    ∀ (ts cur : List α) (sz : Nat), Layout.shardRawGo size limit al thr cur sz ts ≠ []
  | [], _, _ => by simp [Layout.shardRawGo]
  | t :: rest, cur, sz => by
      simp only [Layout.shardRawGo]
      split
      · simp
      · exact shardRawGo_ne_nil size limit al thr rest _ _

/-- the shards always concatenate to the tensor list (`C07_shards_partition`) -/
theorem shardsOf_flatten (ts : List TSpec) (maxShard al : Option Nat) (athr : Nat) :
    (shardsOf ts maxShard al athr).flatten = ts := by
  cases maxShard with
  | none => simp [shardsOf]
  | some m => exact (Layout.C07_shards_partition TSpec.nbytes m al athr ts).1

/-- at most one shard: it is the whole tensor list -/
theorem shardsOf_single {ts : List TSpec} {maxShard al : Option Nat} {athr : Nat}
    (h1 : (shardsOf ts maxShard al athr).length ≤ 1) : shardsOf ts maxShard al athr = [ts] := by
  have hfl := shardsOf_flatten ts maxShard al athr
  have hne : shardsOf ts maxShard al athr ≠ [] := by
    cases maxShard with
    | none => simp [shardsOf]
    | some m => exact shardRawGo_ne_nil TSpec.nbytes m al athr ts [] 0
  match hs : shardsOf ts maxShard al athr, hne, h1 with
  | [sh], _, _ => rw [hs] at hfl; simp at hfl; rw [hfl]
  | _ :: _ :: _, _, h => simp at h

/-- **the serial image of every planned configuration is C07's `dataFiles` of the save** -/
theorem planCfg_serial_eq_C07 {ts : List TSpec} {maxShard al : Option Nat} {athr workers capacity : Nat}
    {cfg : Cfg} (h : planCfg ts maxShard al athr workers capacity = some cfg) :
    serialFiles (cfgEmpty cfg) =
      (shardsOf ts maxShard al athr).map fun sh => Layout.serialImage (Layout.writesOf al athr (sh.map (·.data))) := by
  simp only [planCfg] at h
  split at h
  · rename_i h1
    split at h
    · cases h
      rw [planSingle_serial_eq_C07, shardsOf_single h1]; rfl
    · simp at h
  · split at h
    · cases h; exact planSharded_serial_eq_C07 ts _ al athr workers capacity
    · simp at h

theorem dataFiles_eq_shards (ts : List TSpec) (maxShard al : Option Nat) (athr : Nat) :
    Layout.dataFiles (ts.map (·.data)) maxShard al athr none =
      (shardsOf ts maxShard al athr).map fun sh => Layout.serialImage (Layout.writesOf al athr (sh.map (·.data))) := by
  rw [Layout.dataFiles_serial, byteShards_eq, List.map_map]; rfl

end IrVerif.WriterN

/-
Auxiliary facts for the lock-step round trip of the extended model (`Lemmas/ScopeExtRT.lean`).
-/
import IrVerif.Lemmas.ScopeExtSer
namespace IrVerif.Scope

/-! ### frames of the extension state -/

structure XKeep (b : Nat) (x x' : Ext) : Prop where
  vmeta : ∀ d, d < b → x'.vmeta d = x.vmeta d
  quant : ∀ d, d < b → x'.quant d = x.quant d

theorem XKeep.refl (b : Nat) (x : Ext) : XKeep b x x := ⟨fun _ _ => rfl, fun _ _ => rfl⟩

theorem XKeep.trans {b : Nat} {x y z : Ext} (h1 : XKeep b x y) (h2 : XKeep b y z) : XKeep b x z :=
  ⟨fun d hd => by rw [h2.vmeta d hd, h1.vmeta d hd], fun d hd => by rw [h2.quant d hd, h1.quant d hd]⟩

theorem XKeep.weaken {b b' : Nat} {x y : Ext} (h : XKeep b x y) (hb : b' ≤ b) : XKeep b' x y :=
  ⟨fun d hd => h.vmeta d (by omega), fun d hd => h.quant d (by omega)⟩

theorem NStep.keep {st st' : Store} {x x' : Ext} {vt : List (Name × Info × SS)} {qt : List (Name × SS)}
    (h : NStep st st' x x' vt qt) : XKeep st.nv x x' := ⟨h.vmeta, h.quant⟩

theorem XKeep.setDevs (b : Nat) (x : Ext) (n : Nat) (d : List DevR) : XKeep b x (x.setDevs n d) :=
  ⟨fun _ _ => rfl, fun _ _ => rfl⟩

/-! ### the extension state on images -/

def MetaOKk (x x' : Ext) (A : Assoc) (L : List Nat) : Prop :=
  ∀ v ∈ L, v ∈ A.map (·.1) ∧ x'.vmeta (sig A v) = normM (x.vmeta v)

def QuantOKk (x x' : Ext) (A : Assoc) (L : List Nat) : Prop :=
  ∀ v ∈ L, v ∈ A.map (·.1) ∧ x'.quant (sig A v) = normQ (x.quant v)

theorem MetaOKk.step {V : Nat → ValueS} {s : Store} {x xa xb : Ext} {A B : Assoc} {L : List Nat}
    (h : MetaOKk x xa A L) (hrs : RS V s A) (hk : XKeep s.nv xa xb) : MetaOKk x xb (A ++ B) L := by
  intro v hv
  obtain ⟨hm, he⟩ := h v hv
  exact ⟨mem_keys_append hm, by rw [sig_append_of_mem hm, hk.vmeta _ (hrs.sig_lt hm)]; exact he⟩

theorem QuantOKk.step {V : Nat → ValueS} {s : Store} {x xa xb : Ext} {A B : Assoc} {L : List Nat}
    (h : QuantOKk x xa A L) (hrs : RS V s A) (hk : XKeep s.nv xa xb) : QuantOKk x xb (A ++ B) L := by
  intro v hv
  obtain ⟨hm, he⟩ := h v hv
  exact ⟨mem_keys_append hm, by rw [sig_append_of_mem hm, hk.quant _ (hrs.sig_lt hm)]; exact he⟩

theorem MetaOKk.prim {V : Nat → ValueS} {s : Store} {x xa xb : Ext} {A : Assoc} {L : List Nat}
    (h : MetaOKk x xa A L) (hrs : RS V s A) (hk : XKeep s.nv xa xb) : MetaOKk x xb A L := by
  have := h.step (B := []) hrs hk
  simpa using this

theorem QuantOKk.prim {V : Nat → ValueS} {s : Store} {x xa xb : Ext} {A : Assoc} {L : List Nat}
    (h : QuantOKk x xa A L) (hrs : RS V s A) (hk : XKeep s.nv xa xb) : QuantOKk x xb A L := by
  have := h.step (B := []) hrs hk
  simpa using this

/-- the annotations of the values bound in a table of source values -/
def TblQ (x' : Ext) (A : Assoc) (qt : List (Name × SS)) (T : Table) : Prop :=
  ∀ e ∈ T, x'.quant (sig A e.2) = quantOf qt e.1

/-- the metadata of the values bound in a table of source values, the graph inputs `I` excepted -/
def TblM (x' : Ext) (A : Assoc) (vt : List (Name × Info × SS)) (I : List Nat) (T : Table) : Prop :=
  ∀ e ∈ T, e.2 ∉ I → x'.vmeta (sig A e.2) = metaOf vt e.1

theorem TblQ.step {V : Nat → ValueS} {s : Store} {xa xb : Ext} {A B : Assoc} {qt : List (Name × SS)} {T : Table}
    (h : TblQ xa A qt T) (hT : TblIn A T) (hrs : RS V s A) (hk : XKeep s.nv xa xb) : TblQ xb (A ++ B) qt T := by
  intro e he
  have hm := hT e he
  rw [sig_append_of_mem hm, hk.quant _ (hrs.sig_lt hm)]
  exact h e he

theorem TblM.step {V : Nat → ValueS} {s : Store} {xa xb : Ext} {A B : Assoc} {vt : List (Name × Info × SS)}
    {I : List Nat} {T : Table}
    (h : TblM xa A vt I T) (hT : TblIn A T) (hrs : RS V s A) (hk : XKeep s.nv xa xb) : TblM xb (A ++ B) vt I T := by
  intro e he hI
  have hm := hT e he
  rw [sig_append_of_mem hm, hk.vmeta _ (hrs.sig_lt hm)]
  exact h e he hI

/-! ### associations -/

theorem sig_append_new {A B : Assoc} {v : Nat} (hA : v ∉ A.map (·.1)) (hB : v ∈ B.map (·.1)) :
    (v, sig (A ++ B) v) ∈ B := by
  obtain ⟨d, hd⟩ := lookup_isSome_of_mem_keys hB
  have : sig (A ++ B) v = d := by
    simp [sig, List.lookup_append, lookup_none_of_not_mem_keys hA, hd]
  rw [this]
  exact lookup_mem_assoc hd

/-! ### the tables of the certificate: where entries come from, lookups are kept -/

theorem replInits_tbl_mem (V : Nat → ValueS) (go : List Nat) : ∀ (l : List (Name × Nat)) (T : Table),
    ∀ e ∈ (replInits V go T l).tbl, e ∈ T ∨ (e ∈ l ∧ e.2 ∈ (replInits V go T l).new) := by
  intro l
  induction l with
  | nil => intro T e he; exact .inl (by simpa [replInits] using he)
  | cons kv l ih =>
    obtain ⟨k, v⟩ := kv
    intro T e he
    simp only [replInits] at he ⊢
    split at he
    · rename_i u hl
      simp only [hl]
      rcases ih T e he with h | ⟨h1, h2⟩
      · exact .inl h
      · exact .inr ⟨by simp [h1], h2⟩
    · rename_i hl
      simp only [hl]
      rcases ih _ e he with h | ⟨h1, h2⟩
      · simp only [List.mem_cons] at h
        rcases h with rfl | h
        · exact .inr ⟨by simp, by simp⟩
        · exact .inl h
      · exact .inr ⟨by simp [h1], by simp [h2]⟩

theorem replDecl_tbl_mem (V : Nat → ValueS) : ∀ (l : List Nat) (T : Table),
    ∀ e ∈ (replDecl V T l).tbl, e ∈ T ∨ (e.2 ∈ (replDecl V T l).new ∧ e.1 = nm V e.2) := by
  intro l
  induction l with
  | nil => intro T e he; exact .inl (by simpa [replDecl] using he)
  | cons v l ih =>
    intro T e he
    simp only [replDecl] at he ⊢
    split at he
    · rename_i ht
      simp only [ht, if_true]
      rcases ih _ e he with h | ⟨h1, h2⟩
      · simp only [List.mem_cons] at h
        rcases h with rfl | h
        · exact .inr ⟨by simp, rfl⟩
        · exact .inl h
      · exact .inr ⟨by simp [h1], h2⟩
    · rename_i ht
      simp only [ht, if_false]
      exact ih T e he

theorem replRes_tbl_mem (V : Nat → ValueS) (outer : List Table) : ∀ (l : List (Option Nat)) (T : Table),
    ∀ e ∈ (replRes V outer T l).tbl, e ∈ T ∨ (e.2 ∈ (replRes V outer T l).new ∧ e.1 = nm V e.2) := by
  intro l
  induction l with
  | nil => intro T e he; exact .inl (by simpa [replRes] using he)
  | cons a l ih =>
    intro T e he
    cases a with
    | none =>
      simp only [replRes] at he ⊢
      exact ih T e he
    | some v =>
      simp only [replRes] at he ⊢
      split at he
      · rename_i u hr
        simp only [hr]
        exact ih T e he
      · rename_i hr
        simp only [hr]
        rcases ih _ e he with h | ⟨h1, h2⟩
        · simp only [List.mem_cons] at h
          rcases h with rfl | h
          · exact .inr ⟨by simp, rfl⟩
          · exact .inl h
        · exact .inr ⟨by simp [h1], h2⟩

theorem resolve_top_none {x : Name} {T : Table} {outer : List Table} (h : resolve x (T :: outer) = none) :
    T.lookup x = none := by
  simp only [resolve] at h
  cases hl : T.lookup x with
  | none => rfl
  | some v => simp [hl] at h

theorem replRes_lookup_mono (V : Nat → ValueS) (outer : List Table) : ∀ (l : List (Option Nat)) (T : Table)
    (y : Name) (u : Nat), T.lookup y = some u → (replRes V outer T l).tbl.lookup y = some u := by
  intro l
  induction l with
  | nil => intro T y u h; simpa [replRes] using h
  | cons a l ih =>
    intro T y u h
    cases a with
    | none => simp only [replRes]; exact ih T y u h
    | some v =>
      simp only [replRes]
      split
      · exact ih T y u h
      · rename_i hr
        apply ih
        have hne : y ≠ nm V v := fun e => by
          subst e
          rw [resolve_top_none hr] at h
          cases h
        rw [lookup_cons_ne _ _ _ _ hne]; exact h

mutual
theorem replNs_lookup_mono (V : Nat → ValueS) (outer : List Table) : ∀ (ns : List NodeT) (T : Table)
    (y : Name) (u : Nat), T.lookup y = some u → (replNs V outer T ns).tbl.lookup y = some u
  | [], T, y, u, h => by simpa [replNs] using h
  | n :: ns, T, y, u, h => by
    simp only [replNs]
    exact replNs_lookup_mono V outer ns _ y u (replN_lookup_mono V outer n T y u h)
theorem replN_lookup_mono (V : Nat → ValueS) (outer : List Table) : ∀ (n : NodeT) (T : Table)
    (y : Name) (u : Nat), T.lookup y = some u → (replN V outer T n).tbl.lookup y = some u
  | .mk _ _ ins _ _, T, y, u, h => by
    simp only [replN]
    exact replRes_lookup_mono V outer ins T y u h
end

/-! ### running the extended deserializer from its phases -/

theorem deserGraphE_assemble (s : Store) (xs : Ext) (outer : List Table) (inputs : List VInfoE) (inits : List TensorP)
    (vinfo : List VInfoE) (nodes : List NodeE) (outputs : List VInfoE) (quant : List QuantP)
    (s1 : Store) (x1 : Ext) (ids : List Nat) (h1 : deserInputsE s xs (quantTable quant) inputs = (s1, x1, ids))
    (s2 : Store) (x2 : Ext) (tbl2 : Table) (iv : List Nat)
    (h2 : deserInitsE s1 x1 (inputTable (inputs.map VInfoE.erase) ids) (vinfoTableE vinfo) (quantTable quant) inits =
      (s2, x2, tbl2, iv))
    (s3 : Store) (x3 : Ext) (tbl3 : Table)
    (h3 : declareNodesE s2 x2 tbl2 (vinfoTableE vinfo) (quantTable quant) nodes = .ok (s3, x3, tbl3))
    (s4 : Store) (x4 : Ext) (tbl4 : Table) (ns : List NodeT)
    (h4 : deserNodesE s3 x3 tbl3 outer (vinfoTableE vinfo) (quantTable quant) nodes = .ok (s4, x4, tbl4, ns))
    (s5 : Store) (x5 : Ext) (os : List Nat) (h5 : deserOutputsE s4 x4 tbl4 outputs = (s5, x5, os)) :
    deserGraphE s xs outer (.mk inputs inits vinfo nodes outputs quant) =
      .ok ((mkGraph s5 ids os ns iv).1, x5, (mkGraph s5 ids os ns iv).2) := by
  simp only [deserGraphE, h1, h2, h3, h4, h5]

theorem declareNodesE_of_core (vt : List (Name × Info × SS)) (qt : List (Name × SS)) (ns : List NodeE) (st : Store)
    (x : Ext) (tbl : Table) (st' : Store) (tbl' : Table)
    (h : declareNodes st tbl (eraseVT vt) (eraseNs ns) = .ok (st', tbl')) :
    ∃ x', declareNodesE st x tbl vt qt ns = .ok (st', x', tbl') := by
  have he := declareNodesE_erase vt qt ns st x tbl
  rw [h] at he
  cases hd : declareNodesE st x tbl vt qt ns with
  | error e => rw [hd] at he; simp [dropX] at he
  | ok r =>
    obtain ⟨a, b, c⟩ := r
    rw [hd] at he
    simp only [dropX, Except.ok.injEq, Prod.mk.injEq] at he
    obtain ⟨rfl, rfl⟩ := he
    exact ⟨b, rfl⟩

theorem map_viOfE_erase (V : Nat → ValueS) (x : Ext) (vs : List Nat) :
    (vs.map (viOfE V x)).map VInfoE.erase = vs.map (viOf V) := by
  simp [List.map_map, Function.comp_def, viOfE, VInfoE.erase, viOf]

theorem normM_nil : normM [] = [] := by
  simp [normM, ssSorted, ssUpdate]

/-- metadata of a value with something to say: what its value_info entry carries is read back as `normM` -/
theorem metaOf_of_lookup {vt : List (Name × Info × SS)} {n : Name} {i : Info} {m : SS}
    (h : vt.lookup n = some (i, ssSorted m)) : metaOf vt n = normM m := by
  simp [metaOf, h, normM]

theorem metaOf_of_none {vt : List (Name × Info × SS)} {n : Name} (h : vt.lookup n = none) : metaOf vt n = [] := by
  simp [metaOf, h]

theorem shouldCreateE_false_meta {c : ValueS} {m : SS} (h : shouldCreateE c m = false) (ht : nameTruthy c.name = true) :
    m = [] := by
  simp only [shouldCreateE, presentE, ht, Bool.and_true, Bool.or_eq_false_iff, Bool.not_eq_false'] at h
  simpa using h.2

end IrVerif.Scope

/-
Lemmas/AddDefaults.lean — AddDefaultAttributesPass keeps the denotation under a default-respecting operator
interpretation (Model/AddDefaults.lean; theorem C05_add_defaults).
-/
import IrVerif.Model.AddDefaults
import IrVerif.Lemmas.InlineSem
namespace IrVerif.Inline
open IrVerif.Sem IrVerif.Passes
variable {Val : Type}

/-- the interpretation does not distinguish "attribute `k` absent" from "attribute `k` = `d`" at operator `op`
    (ONNX: an absent optional attribute has its default value).  Stated for the results of a node, so that the
    fixed meaning of Identity and Constant is covered. -/
def RespectsDefault (I : Interp Val) (op : OpId) (k : String) (d : AttrData) : Prop :=
  ∀ (attrs : List (String × AttrData)) (outs : List VId) (bodies : List (BodyFn Val)) (args : List (Option Val)),
    k ∉ attrs.map Prod.fst →
    nodeResultsF I op (attrs ++ [(k, d)]) outs bodies args = nodeResultsF I op attrs outs bodies args

/-- what `C05_add_defaults` assumes of a node: a call of a model-local function gets no new attribute; at any
    other node the interpretation respects every default that the schema found for the node declares -/
def NodeRespects (I : Interp Val) (fs : List Func) (S : FNode → List SchemaAttr) (n : FNode) : Prop :=
  ((findFunc fs n.op).isSome = true → addMissing n.attrs (S n) = n.attrs) ∧
  ((findFunc fs n.op).isSome = false →
    ∀ a ∈ S n, ∀ d, a.default = some d → a.required = false → RespectsDefault I n.op a.name d)

mutual
/-- `P` holds of every node (deep) -/
def AllG (P : FNode → Prop) : FGraph → Prop
  | .mk _ _ _ nodes => AllNodes P nodes
def AllNodes (P : FNode → Prop) : List FNode → Prop
  | [] => True
  | n :: ns => AllN P n ∧ AllNodes P ns
def AllN (P : FNode → Prop) : FNode → Prop
  | .mk op attrs ins outs bodies => P (.mk op attrs ins outs bodies) ∧ AllBodies P bodies
def AllBodies (P : FNode → Prop) : List FGraph → Prop
  | [] => True
  | b :: bs => AllG P b ∧ AllBodies P bs
end

/-- the operator interpretation is default-respecting for the schema table on the model: at every node (main
    graph, subgraphs, function bodies) for the schema the pass looks up for that node -/
def DefaultRespecting (I : Interp Val) (T : SchemaTable) (imports : List (String × Nat)) (nver : FNode → Option Nat)
    (m : FModel) : Prop :=
  AllG (NodeRespects I m.funcs (nodeSchema T imports nver)) m.graph ∧
  ∀ f ∈ m.funcs, AllNodes (NodeRespects I m.funcs (nodeSchema T imports nver)) f.nodes

theorem resolveAttrs_names (α : List (String × AttrData)) :
    ∀ (attrs : List (String × FAttr)) (k : String), k ∈ (resolveAttrs α attrs).map Prod.fst → k ∈ attrs.map Prod.fst
  | [], k, h => by simp [resolveAttrs] at h
  | (k', a) :: rest, k, h => by
    simp only [resolveAttrs, List.filterMap_cons] at h
    have ih := resolveAttrs_names α rest k
    simp only [resolveAttrs] at ih
    simp only [List.map_cons, List.mem_cons]
    cases a with
    | val v =>
      simp only [resolveAttr, List.map_cons, List.mem_cons] at h
      rcases h with h | h
      · exact Or.inl h
      · exact Or.inr (ih h)
    | ref p =>
      simp only [resolveAttr] at h
      cases hl : α.lookup p with
      | none =>
        rw [hl] at h
        simp only [Option.map_none] at h
        exact Or.inr (ih h)
      | some v =>
        rw [hl] at h
        simp only [Option.map_some, List.map_cons, List.mem_cons] at h
        rcases h with h | h
        · exact Or.inl h
        · exact Or.inr (ih h)

theorem resolveAttrs_append_val (α : List (String × AttrData)) (attrs : List (String × FAttr)) (k : String) (d : AttrData) :
    resolveAttrs α (attrs ++ [(k, .val d)]) = resolveAttrs α attrs ++ [(k, d)] := by
  simp [resolveAttrs, List.filterMap_append, resolveAttr]

/-- the attributes the pass adds to a node that is not a call are invisible to a default-respecting interpretation -/
theorem addMissing_results (I : Interp Val) (op : OpId) (α : List (String × AttrData)) (outs : List VId)
    (bodies : List (BodyFn Val)) (args : List (Option Val)) :
    ∀ (D : List SchemaAttr) (attrs : List (String × FAttr)),
      (∀ a ∈ D, ∀ d, a.default = some d → a.required = false → RespectsDefault I op a.name d) →
      nodeResultsF I op (resolveAttrs α (addMissing attrs D)) outs bodies args =
        nodeResultsF I op (resolveAttrs α attrs) outs bodies args
  | [], attrs, _ => by simp [addMissing]
  | a :: rest, attrs, h => by
    have hrest : ∀ a' ∈ rest, ∀ d, a'.default = some d → a'.required = false → RespectsDefault I op a'.name d :=
      fun a' ha' => h a' (List.mem_cons_of_mem _ ha')
    rw [addMissing]
    split
    · exact addMissing_results I op α outs bodies args rest attrs hrest
    · rename_i hc
      simp only [Bool.or_eq_true, not_or, Bool.not_eq_true] at hc
      cases hd : a.default with
      | none => simp only; exact addMissing_results I op α outs bodies args rest attrs hrest
      | some d =>
        simp only
        rw [addMissing_results I op α outs bodies args rest _ hrest, resolveAttrs_append_val]
        refine h a (List.mem_cons_self ..) d hd hc.1 _ outs bodies args (fun hk => ?_)
        have := resolveAttrs_names α attrs a.name hk
        have hc2 := hc.2
        simp only [List.contains_eq_mem, decide_eq_false_iff_not] at hc2
        exact hc2 this

mutual
theorem evalGF_addDef (I : Interp Val) (Φ : FEnv Val) (fs : List Func) (S : FNode → List SchemaAttr)
    (hΦ : ∀ op, (Φ op).isSome = true → (findFunc fs op).isSome = true) (α : List (String × AttrData)) :
    ∀ (g : FGraph) (ρ : Env Val), AllG (NodeRespects I fs S) g → evalGF I Φ α (addDefG S g) ρ = evalGF I Φ α g ρ
  | .mk inputs outputs inits nodes, ρ, hg => by
    simp only [AllG] at hg
    funext xs
    simp only [addDefG, evalGF]
    rw [evalNodesF_addDef I Φ fs S hΦ α nodes _ hg]
theorem evalNodesF_addDef (I : Interp Val) (Φ : FEnv Val) (fs : List Func) (S : FNode → List SchemaAttr)
    (hΦ : ∀ op, (Φ op).isSome = true → (findFunc fs op).isSome = true) (α : List (String × AttrData)) :
    ∀ (ns : List FNode) (ρ : Env Val), AllNodes (NodeRespects I fs S) ns →
      evalNodesF I Φ α (addDefNodes S ns) ρ = evalNodesF I Φ α ns ρ
  | [], _, _ => by simp [addDefNodes, evalNodesF]
  | n :: ns, ρ, hn => by
    simp only [AllNodes] at hn
    simp only [addDefNodes, evalNodesF]
    rw [evalNF_addDef I Φ fs S hΦ α n ρ hn.1, evalNodesF_addDef I Φ fs S hΦ α ns _ hn.2]
theorem evalNF_addDef (I : Interp Val) (Φ : FEnv Val) (fs : List Func) (S : FNode → List SchemaAttr)
    (hΦ : ∀ op, (Φ op).isSome = true → (findFunc fs op).isSome = true) (α : List (String × AttrData)) :
    ∀ (n : FNode) (ρ : Env Val), AllN (NodeRespects I fs S) n → evalNF I Φ α (addDefN S n) ρ = evalNF I Φ α n ρ
  | .mk op attrs ins outs bodies, ρ, hn => by
    simp only [AllN] at hn
    obtain ⟨⟨hcall, hop⟩, hb⟩ := hn
    simp only [FNode.op, FNode.attrs] at hcall hop
    simp only [addDefN, evalNF]
    rw [evalBodiesF_addDef I Φ fs S hΦ α bodies ρ hb]
    cases hf : (findFunc fs op).isSome with
    | true => rw [hcall hf]
    | false =>
      cases hΦop : Φ op with
      | some F =>
        have := hΦ op (by rw [hΦop]; rfl)
        rw [hf] at this; cases this
      | none =>
        simp only
        rw [addMissing_results I op α outs _ _ _ attrs (hop hf)]
theorem evalBodiesF_addDef (I : Interp Val) (Φ : FEnv Val) (fs : List Func) (S : FNode → List SchemaAttr)
    (hΦ : ∀ op, (Φ op).isSome = true → (findFunc fs op).isSome = true) (α : List (String × AttrData)) :
    ∀ (bs : List FGraph) (ρ : Env Val), AllBodies (NodeRespects I fs S) bs →
      evalBodiesF I Φ α (addDefBodies S bs) ρ = evalBodiesF I Φ α bs ρ
  | [], _, _ => by simp [addDefBodies, evalBodiesF]
  | b :: bs, ρ, hb => by
    simp only [AllBodies] at hb
    simp only [addDefBodies, evalBodiesF]
    rw [evalBodiesF_addDef I Φ fs S hΦ α bs ρ hb.2]
    congr 1
    funext xs
    rw [evalGF_addDef I Φ fs S hΦ α b ρ hb.1]
end

theorem findFunc_map_addDef (S : FNode → List SchemaAttr) (fs : List Func) (op : OpId) :
    findFunc (fs.map (addDefFunc S)) op = (findFunc fs op).map (addDefFunc S) := by
  induction fs with
  | nil => simp [findFunc]
  | cons f fs ih =>
    simp only [findFunc, List.map_cons, List.find?_cons] at ih ⊢
    have : (addDefFunc S f).id = f.id := rfl
    rw [this]
    cases f.id == op with
    | true => simp
    | false => simpa using ih

theorem fenv_isSome (I : Interp Val) (fs : List Func) : ∀ (d : Nat) (op : OpId),
    (fenv I fs d op).isSome = true → (findFunc fs op).isSome = true
  | 0, op, h => by simp [fenv] at h
  | d + 1, op, h => by
    simp only [fenv, Option.isSome_map] at h
    exact h

theorem funcDen_addDef (I : Interp Val) (Φ : FEnv Val) (fs : List Func) (S : FNode → List SchemaAttr)
    (hΦ : ∀ op, (Φ op).isSome = true → (findFunc fs op).isSome = true) (f : Func)
    (hf : AllNodes (NodeRespects I fs S) f.nodes) : funcDen I Φ (addDefFunc S f) = funcDen I Φ f := by
  funext cattrs args
  simp only [funcDen, addDefFunc]
  rw [evalNodesF_addDef I Φ fs S hΦ _ f.nodes _ hf]

/-- the function environment of the model after the pass is the one before, at every unrolling depth -/
theorem fenv_addDef (I : Interp Val) (fs : List Func) (S : FNode → List SchemaAttr)
    (h : ∀ f ∈ fs, AllNodes (NodeRespects I fs S) f.nodes) :
    ∀ d : Nat, fenv I (fs.map (addDefFunc S)) d = fenv I fs d
  | 0 => by simp [fenv]
  | d + 1 => by
    funext op
    simp only [fenv]
    rw [findFunc_map_addDef, fenv_addDef I fs S h d]
    cases hf : findFunc fs op with
    | none => simp
    | some f =>
      simp only [Option.map_some]
      rw [funcDen_addDef I _ fs S (fenv_isSome I fs d) f (h f (findFunc_some hf).1)]

/-- an interpretation whose `sem` does not see the added default respects it at every operator other than
    Constant (whose meaning is fixed by its only attribute) -/
theorem respectsDefault_of_sem (I : Interp Val) (op : OpId) (k : String) (d : AttrData)
    (hc : isConstantOp op = false)
    (h : ∀ (attrs : List (String × AttrData)) (bodies : List (BodyFn Val)) (args : List (Option Val)) (t : List VId),
      k ∉ attrs.map Prod.fst → I.sem op (attrs ++ [(k, d)]) bodies args t = I.sem op attrs bodies args t) :
    RespectsDefault I op k d := by
  intro attrs outs bodies args hk
  simp only [nodeResultsF, nodeResults, constOf, hc]
  simp only [Bool.false_eq_true, if_false]
  rw [h attrs bodies args _ hk]

end IrVerif.Inline

/-
The link invariants of deserialization (uses <-> input slots, producer/index <-> output slots, node
ids, ownership flags <-> graph collections) and their preservation by each primitive step.
-/
import IrVerif.Lemmas.ScopeStruct
namespace IrVerif.Scope

/-- what the invariants need to know about a node -/
structure NRec where
  id : Nat
  inputs : List (Option Nat)
  outputs : List Nat

/-- what the invariants need to know about a graph -/
structure GRec where
  id : Nat
  inputs : List Nat
  outputs : List Nat
  inits : List Nat

mutual
/-- the nodes of a graph tree in creation order (the nodes of nested graphs before their owner) -/
def recsG : GraphT → List NRec
  | .mk _ _ _ ns _ => recsNs ns
def recsNs : List NodeT → List NRec
  | [] => []
  | n :: ns => recsN n ++ recsNs ns
def recsN : NodeT → List NRec
  | .mk i _ a b subs => recsGs subs ++ [⟨i, a, b⟩]
def recsGs : List GraphT → List NRec
  | [] => []
  | g :: gs => recsG g ++ recsGs gs
end

mutual
/-- the graphs of a graph tree in creation order (nested graphs before the graph that holds them) -/
def grecsG : GraphT → List GRec
  | .mk i ins inits ns outs => grecsNs ns ++ [⟨i, ins, outs, inits.map (·.2)⟩]
def grecsNs : List NodeT → List GRec
  | [] => []
  | n :: ns => grecsN n ++ grecsNs ns
def grecsN : NodeT → List GRec
  | .mk _ _ _ _ subs => grecsGs subs
def grecsGs : List GraphT → List GRec
  | [] => []
  | g :: gs => grecsG g ++ grecsGs gs
end

theorem recsNs_setGraph (gid : Nat) (ns : List NodeT) : recsNs (ns.map (NodeT.setGraph gid)) = recsNs ns := by
  induction ns with
  | nil => rfl
  | cons n ns ih =>
    obtain ⟨i, g, a, b, s⟩ := n
    simp [recsNs, recsN, NodeT.setGraph, ih]

theorem grecsNs_setGraph (gid : Nat) (ns : List NodeT) : grecsNs (ns.map (NodeT.setGraph gid)) = grecsNs ns := by
  induction ns with
  | nil => rfl
  | cons n ns ih =>
    obtain ⟨i, g, a, b, s⟩ := n
    simp [grecsNs, grecsN, NodeT.setGraph, ih]

/-! ### the invariants -/

def usesIn (v : Nat) (R : List NRec) : List (Nat × Nat) := R.flatMap fun r => slotsOf v r.id 0 r.inputs

/-- `uses` of every value = the input slots holding it, in creation order -/
def InvU (st : Store) (R : List NRec) : Prop := ∀ v, (st.vals v).uses = usesIn v R

structure InvP (st : Store) (R : List NRec) : Prop where
  p1 : ∀ r ∈ R, ∀ k v, r.outputs[k]? = some v →
    (st.vals v).producer = some r.id ∧ (st.vals v).index = some k
  p2 : ∀ v, (∀ r ∈ R, v ∉ r.outputs) → (st.vals v).producer = none ∧ (st.vals v).index = none

structure InvN (st : Store) (R : List NRec) : Prop where
  lt : ∀ r ∈ R, r.id < st.nn
  nodup : (R.map (·.id)).Nodup

structure InvO (st : Store) (G : List GRec) : Prop where
  own : ∀ g ∈ G,
    (∀ v ∈ g.inputs, (st.vals v).isIn = true ∧ (st.vals v).graph = some g.id) ∧
    (∀ v ∈ g.outputs, (st.vals v).isOut = true ∧ (st.vals v).graph = some g.id) ∧
    (∀ v ∈ g.inits, (st.vals v).isInit = true ∧ (st.vals v).graph = some g.id)
  back : ∀ v,
    ((st.vals v).isIn = true → ∃ g ∈ G, (st.vals v).graph = some g.id ∧ v ∈ g.inputs) ∧
    ((st.vals v).isOut = true → ∃ g ∈ G, (st.vals v).graph = some g.id ∧ v ∈ g.outputs) ∧
    ((st.vals v).isInit = true → ∃ g ∈ G, (st.vals v).graph = some g.id ∧ v ∈ g.inits) ∧
    ((st.vals v).graph ≠ none →
      (st.vals v).isIn = true ∨ (st.vals v).isOut = true ∨ (st.vals v).isInit = true)
  lt : ∀ g ∈ G, g.id < st.ng
  nodup : (G.map (·.id)).Nodup

/-- graph inputs and initializer values have no producer -/
def InvR (st : Store) (G : List GRec) : Prop :=
  ∀ g ∈ G, (∀ v ∈ g.inputs, (st.vals v).producer = none) ∧ (∀ v ∈ g.inits, (st.vals v).producer = none)

structure Inv (st : Store) (R : List NRec) (G : List GRec) : Prop where
  u : InvU st R
  p : InvP st R
  n : InvN st R
  o : InvO st G
  r : InvR st G

/-- a cell with default link fields -/
def Unlinked (c : ValueS) : Prop := linksOf c = linksOf {}

theorem linksOf_eq {a b : ValueS} (h : linksOf a = linksOf b) :
    a.uses = b.uses ∧ a.producer = b.producer ∧ a.index = b.index ∧ a.graph = b.graph ∧
    a.isIn = b.isIn ∧ a.isOut = b.isOut ∧ a.isInit = b.isInit := by
  simp only [linksOf, Prod.mk.injEq] at h
  exact h

/-! ### quiet steps preserve everything -/

theorem Inv.quiet {st st' : Store} {R : List NRec} {G : List GRec} (h : Inv st R G) (q : Quiet st st')
    (hf : Fresh st) : Inv st' R G := by
  have hl : ∀ v, _ := fun v => linksOf_eq (q.links hf v)
  refine ⟨?_, ⟨?_, ?_⟩, ⟨?_, h.n.nodup⟩, ⟨?_, ?_, ?_, h.o.nodup⟩, ?_⟩
  rotate_right
  · intro g hg
    refine ⟨fun v hv => ?_, fun v hv => ?_⟩
    · rw [(hl v).2.1]; exact (h.r g hg).1 v hv
    · rw [(hl v).2.1]; exact (h.r g hg).2 v hv
  · intro v; rw [(hl v).1]; exact h.u v
  · intro r hr k v hk
    rw [(hl v).2.1, (hl v).2.2.1]; exact h.p.p1 r hr k v hk
  · intro v hv
    rw [(hl v).2.1, (hl v).2.2.1]; exact h.p.p2 v hv
  · intro r hr; rw [q.nn_eq]; exact h.n.lt r hr
  · intro g hg
    obtain ⟨a, b, c⟩ := h.o.own g hg
    refine ⟨fun v hv => ?_, fun v hv => ?_, fun v hv => ?_⟩
    · rw [(hl v).2.2.2.2.1, (hl v).2.2.2.1]; exact a v hv
    · rw [(hl v).2.2.2.2.2.1, (hl v).2.2.2.1]; exact b v hv
    · rw [(hl v).2.2.2.2.2.2, (hl v).2.2.2.1]; exact c v hv
  · intro v
    rw [(hl v).2.2.2.2.1, (hl v).2.2.2.1, (hl v).2.2.2.2.2.1, (hl v).2.2.2.2.2.2]
    exact h.o.back v
  · intro g hg; rw [q.ng_eq]; exact h.o.lt g hg

/-! ### mkNode -/

theorem usesIn_append (v : Nat) (R S : List NRec) : usesIn v (R ++ S) = usesIn v R ++ usesIn v S := by
  simp [usesIn, List.flatMap_append]

theorem Inv.of_mkNode {st : Store} {R : List NRec} {G : List GRec} (h : Inv st R G)
    (ins : List (Option Nat)) (outs : List Nat) (gs : List GraphT)
    (hprod : ∀ v ∈ outs, (st.vals v).producer = none) (hnd : outs.Nodup)
    (hunown : ∀ v ∈ outs, (st.vals v).graph = none) :
    Inv (mkNode st ins outs gs).1 (R ++ [⟨st.nn, ins, outs⟩]) G := by
  have hk := mkNode_keeps st ins outs gs
  refine ⟨?_, ⟨?_, ?_⟩, ⟨?_, ?_⟩, ⟨?_, ?_, ?_, h.o.nodup⟩, ?_⟩
  rotate_right
  · intro g hg
    obtain ⟨a, _, c⟩ := h.o.own g hg
    refine ⟨fun v hv => ?_, fun v hv => ?_⟩
    · have hv' : v ∉ outs := fun hm => by
        have := hunown v hm; rw [(a v hv).2] at this; cases this
      rw [mkNode_vals, setProducers_not_mem _ _ _ _ _ hv']
      exact (h.r g hg).1 v hv
    · have hv' : v ∉ outs := fun hm => by
        have := hunown v hm; rw [(c v hv).2] at this; cases this
      rw [mkNode_vals, setProducers_not_mem _ _ _ _ _ hv']
      exact (h.r g hg).2 v hv
  · intro v
    rw [mkNode_vals, usesIn_append]
    simp only [setProducers_uses, h.u v]
    simp [usesIn]
  · intro r hr k v hkv
    rw [mkNode_vals]
    simp only [List.mem_append, List.mem_singleton] at hr
    rcases hr with hr | rfl
    · have hp := h.p.p1 r hr k v hkv
      have hv : v ∉ outs := by
        intro hm
        have := hprod v hm
        rw [hp.1] at this
        cases this
      rw [setProducers_not_mem _ _ _ _ _ hv]
      exact hp
    · rw [setProducers_mem _ _ _ _ hnd k v hkv]
      simp
  · intro v hv
    have hv' : v ∉ outs := by
      have := hv ⟨st.nn, ins, outs⟩ (by simp)
      exact this
    rw [mkNode_vals, setProducers_not_mem _ _ _ _ _ hv']
    exact h.p.p2 v (fun r hr => hv r (by simp [hr]))
  · intro r hr
    rw [mkNode_fst_nn]
    simp only [List.mem_append, List.mem_singleton] at hr
    rcases hr with hr | rfl
    · have := h.n.lt r hr; omega
    · simp
  · simp only [List.map_append, List.map_cons, List.map_nil]
    rw [List.nodup_append]
    refine ⟨h.n.nodup, by simp, ?_⟩
    intro a ha b hb hab
    simp only [List.mem_singleton] at hb
    subst hb; subst hab
    simp only [List.mem_map] at ha
    obtain ⟨r, hr, hid⟩ := ha
    have := h.n.lt r hr
    omega
  · intro g hg
    obtain ⟨a, b, c⟩ := h.o.own g hg
    refine ⟨fun v hv => ?_, fun v hv => ?_, fun v hv => ?_⟩
    · rw [(hk v).2.2.2.2.1, (hk v).2.2.2.1]; exact a v hv
    · rw [(hk v).2.2.2.2.2.1, (hk v).2.2.2.1]; exact b v hv
    · rw [(hk v).2.2.2.2.2.2, (hk v).2.2.2.1]; exact c v hv
  · intro v
    rw [(hk v).2.2.2.2.1, (hk v).2.2.2.1, (hk v).2.2.2.2.2.1, (hk v).2.2.2.2.2.2]
    exact h.o.back v
  · intro g hg; rw [mkNode_fst_ng]; exact h.o.lt g hg

/-! ### mkGraph -/

theorem setOwner_cell (st : Store) (gid : Nat) (f : ValueS → ValueS)
    (hf : ∀ c, f { f c with graph := some gid } = { f c with graph := some gid })
    (vs : List Nat) (v : Nat) :
    (setOwner st gid f vs).vals v = if v ∈ vs then { f (st.vals v) with graph := some gid } else st.vals v := by
  split
  · rename_i h; exact setOwner_mem _ _ _ hf _ _ h
  · rename_i h; exact setOwner_not_mem _ _ _ _ _ h

/-- the values stored in the initializer dict of the graph built by `mkGraph` -/
def mkGraphInits (st : Store) (ins outs iv : List Nat) : List (Name × Nat) :=
  initDict (setOwner (setOwner st st.ng (fun c => { c with isIn := true }) ins) st.ng
    (fun c => { c with isOut := true }) outs) [] iv

theorem mkGraph_snd (st : Store) (ins outs : List Nat) (ns : List NodeT) (iv : List Nat) :
    (mkGraph st ins outs ns iv).2 =
      .mk st.ng ins (mkGraphInits st ins outs iv) (ns.map (NodeT.setGraph st.ng)) outs := rfl

theorem mkGraphInits_sub (st : Store) (ins outs iv : List Nat) :
    ∀ e ∈ mkGraphInits st ins outs iv, e.2 ∈ iv := by
  intro e he
  rcases initDict_vals _ _ _ e he with h | h
  · simp at h
  · exact h

theorem mkGraph_cell (st : Store) (ins outs : List Nat) (ns : List NodeT) (iv : List Nat) (v : Nat) :
    (mkGraph st ins outs ns iv).1.vals v =
      { st.vals v with
        isIn := (st.vals v).isIn || decide (v ∈ ins)
        isOut := (st.vals v).isOut || decide (v ∈ outs)
        isInit := (st.vals v).isInit || decide (v ∈ (mkGraphInits st ins outs iv).map (·.2))
        graph := if v ∈ ins ∨ v ∈ outs ∨ v ∈ (mkGraphInits st ins outs iv).map (·.2) then some st.ng
                 else (st.vals v).graph } := by
  show (setOwner (setOwner (setOwner st st.ng _ ins) st.ng _ outs) st.ng _
    ((mkGraphInits st ins outs iv).map (·.2))).vals v = _
  rw [setOwner_cell _ _ _ (fun _ => rfl), setOwner_cell _ _ _ (fun _ => rfl),
    setOwner_cell _ _ _ (fun _ => rfl)]
  by_cases h1 : v ∈ ins <;> by_cases h2 : v ∈ outs <;>
    by_cases h3 : v ∈ (mkGraphInits st ins outs iv).map (·.2) <;> simp [h1, h2, h3]

theorem Inv.of_mkGraph {st : Store} {R : List NRec} {G : List GRec} (h : Inv st R G)
    (ins outs : List Nat) (ns : List NodeT) (iv : List Nat)
    (hun : ∀ v, v ∈ ins ∨ v ∈ outs ∨ v ∈ iv → (st.vals v).graph = none ∧ (st.vals v).isIn = false ∧
      (st.vals v).isOut = false ∧ (st.vals v).isInit = false)
    (hroot : ∀ v, v ∈ ins ∨ v ∈ iv → (st.vals v).producer = none) :
    Inv (Scope.mkGraph st ins outs ns iv).1 R
      (G ++ [⟨st.ng, ins, outs, (mkGraphInits st ins outs iv).map (·.2)⟩]) := by
  obtain ⟨c1, c2, c3⟩ := mkGraph_fst_counters st ins outs ns iv
  have hdv : ∀ v, v ∈ (mkGraphInits st ins outs iv).map (·.2) → v ∈ iv := by
    intro v hv
    simp only [List.mem_map] at hv
    obtain ⟨e, he, rfl⟩ := hv
    exact mkGraphInits_sub _ _ _ _ e he
  -- cells owned by an earlier graph are not touched
  have hold : ∀ v, (st.vals v).graph ≠ none →
      (mkGraph st ins outs ns iv).1.vals v = st.vals v := by
    intro v hg
    have hn : ¬ (v ∈ ins ∨ v ∈ outs ∨ v ∈ iv) := fun hm => hg (hun v hm).1
    rw [mkGraph_cell]
    have h1 : v ∉ ins := fun x => hn (.inl x)
    have h2 : v ∉ outs := fun x => hn (.inr (.inl x))
    have h3 : v ∉ (mkGraphInits st ins outs iv).map (·.2) := fun x => hn (.inr (.inr (hdv v x)))
    simp [h1, h2, h3]
  refine ⟨?_, ⟨?_, ?_⟩, ⟨?_, h.n.nodup⟩, ⟨?_, ?_, ?_, ?_⟩, ?_⟩
  rotate_right
  · intro g hg
    simp only [List.mem_append, List.mem_singleton] at hg
    rcases hg with hg | rfl
    · refine ⟨fun v hv => ?_, fun v hv => ?_⟩
      · rw [mkGraph_cell]; exact (h.r g hg).1 v hv
      · rw [mkGraph_cell]; exact (h.r g hg).2 v hv
    · refine ⟨fun v hv => ?_, fun v hv => ?_⟩
      · rw [mkGraph_cell]; exact hroot v (.inl hv)
      · rw [mkGraph_cell]; exact hroot v (.inr (hdv v hv))
  · intro v; rw [mkGraph_cell]; exact h.u v
  · intro r hr k v hk; rw [mkGraph_cell]; exact h.p.p1 r hr k v hk
  · intro v hv; rw [mkGraph_cell]; exact h.p.p2 v hv
  · intro r hr; rw [c2]; exact h.n.lt r hr
  · intro g hg
    simp only [List.mem_append, List.mem_singleton] at hg
    rcases hg with hg | rfl
    · obtain ⟨a, b, c⟩ := h.o.own g hg
      refine ⟨fun v hv => ?_, fun v hv => ?_, fun v hv => ?_⟩
      · have := a v hv
        rw [hold v (by rw [this.2]; simp)]; exact this
      · have := b v hv
        rw [hold v (by rw [this.2]; simp)]; exact this
      · have := c v hv
        rw [hold v (by rw [this.2]; simp)]; exact this
    · refine ⟨fun v hv => ?_, fun v hv => ?_, fun v hv => ?_⟩ <;> rw [mkGraph_cell] <;> simp [hv]
  · intro v
    rw [mkGraph_cell]
    obtain ⟨b1, b2, b3, b4⟩ := h.o.back v
    by_cases hm : v ∈ ins ∨ v ∈ outs ∨ v ∈ (mkGraphInits st ins outs iv).map (·.2)
    · have hu := hun v (by
        rcases hm with x | x | x
        · exact .inl x
        · exact .inr (.inl x)
        · exact .inr (.inr (hdv v x)))
      let gr : GRec := ⟨st.ng, ins, outs, (mkGraphInits st ins outs iv).map (·.2)⟩
      refine ⟨?_, ?_, ?_, ?_⟩
      · simp only [hm, if_true, hu.2.1, Bool.false_or, decide_eq_true_eq]
        exact fun x => ⟨gr, by simp [gr], rfl, x⟩
      · simp only [hm, if_true, hu.2.2.1, Bool.false_or, decide_eq_true_eq]
        exact fun x => ⟨gr, by simp [gr], rfl, x⟩
      · simp only [hm, if_true, hu.2.2.2, Bool.false_or, decide_eq_true_eq]
        exact fun x => ⟨gr, by simp [gr], rfl, x⟩
      · intro _
        simp only [hu.2.1, hu.2.2.1, hu.2.2.2, Bool.false_or, decide_eq_true_eq]
        exact hm
    · have h1 : v ∉ ins := fun x => hm (.inl x)
      have h2 : v ∉ outs := fun x => hm (.inr (.inl x))
      have h3 : v ∉ (mkGraphInits st ins outs iv).map (·.2) := fun x => hm (.inr (.inr x))
      simp only [hm, if_false, h1, h2, h3, decide_false, Bool.or_false]
      refine ⟨fun x => ?_, fun x => ?_, fun x => ?_, b4⟩
      · obtain ⟨g, hg, e⟩ := b1 x; exact ⟨g, by simp [hg], e⟩
      · obtain ⟨g, hg, e⟩ := b2 x; exact ⟨g, by simp [hg], e⟩
      · obtain ⟨g, hg, e⟩ := b3 x; exact ⟨g, by simp [hg], e⟩
  · intro g hg
    rw [c3]
    simp only [List.mem_append, List.mem_singleton] at hg
    rcases hg with hg | rfl
    · have := h.o.lt g hg; omega
    · simp
  · simp only [List.map_append, List.map_cons, List.map_nil]
    rw [List.nodup_append]
    refine ⟨h.o.nodup, by simp, ?_⟩
    intro a ha b hb hab
    simp only [List.mem_singleton] at hb
    subst hb; subst hab
    simp only [List.mem_map] at ha
    obtain ⟨g, hg, hid⟩ := ha
    have := h.o.lt g hg
    omega

end IrVerif.Scope

import IrVerif.Lemmas.ScopeSerdeBridgeSub
/-!
The C02 bridge WITH nested graphs, part 4 (serialization): `GOKFull`, what a store shows of an IR graph entered at
value counter `k`, and the simulation of `serialize_node_into` / `serialize_graph_into` for one node / one graph
(the parts below them as hypotheses supplied by the mutual induction of part 5).
-/
namespace IrVerif.Bridge
open IrVerif.Proto IrVerif.Serde

/-! ## what a store shows -/

/-- the store shows the cells `cs` from creation index `k` on -/
def ShowsAt (st : Scope.Store) (k : Nat) (cs : List Cell) : Prop :=
  ∀ j, j < cs.length → cellAt st (k + j) = cs.getD j default

theorem showsAt_left {st : Scope.Store} {k : Nat} {a b : List Cell} (h : ShowsAt st k (a ++ b)) :
    ShowsAt st k a := by
  intro j hj
  have := h j (by simp; omega)
  rw [this]
  simp [List.getD, List.getElem?_append_left hj]

theorem showsAt_right {st : Scope.Store} {k : Nat} {a b : List Cell} (h : ShowsAt st k (a ++ b)) :
    ShowsAt st (k + a.length) b := by
  intro j hj
  have := h (a.length + j) (by simp; omega)
  rw [Nat.add_assoc, this]
  simp [List.getD, List.getElem?_append_right]

/-- the names of the enclosing scopes, as the store shows them -/
def SeesOuter (st : Scope.Store) (scN : Scopes) (bases : List Nat) : Prop :=
  ∀ r : Ref, r.idx < (scN.getD r.up []).length → (st.vals (refId bases r)).name = some (refName scN r)

theorem seesOuter_nil (st : Scope.Store) : SeesOuter st [] [] := by
  intro r h
  simp [List.getD] at h

theorem refName_tblF (tbl : List IRValue) (outer : Scopes) (j : Nat) :
    refName (tableNames tbl :: outer) ⟨0, j⟩ = (tbl.getD j (IRValue.blank "")).name := by
  simp only [refName, tableNames, List.getD]
  simp only [List.getElem?_cons_zero, Option.getD_some, List.getElem?_map]
  cases tbl[j]? <;> rfl

theorem seesOuter_cons {st : Scope.Store} {scN : Scopes} {bases : List Nat} (h : SeesOuter st scN bases)
    (tbl : List IRValue) (k : Nat)
    (hs : ∀ i, i < tbl.length → cellAt st (k + i) = absCell (tbl.getD i (IRValue.blank ""))) :
    SeesOuter st (tableNames tbl :: scN) (k :: bases) := by
  intro r hr
  obtain ⟨u, i⟩ := r
  cases u with
  | zero =>
    have hi : i < tbl.length := by simpa [tableNames] using hr
    have := (cell_fields (hs i hi)).1
    rw [refName_tblF]
    simpa [refId] using this
  | succ u =>
    have := h ⟨u, i⟩ (by simpa using hr)
    simpa [refId, refName] using this

theorem getD_map_length (scN : Scopes) (u : Nat) :
    (scN.map List.length).getD u 0 = (scN.getD u []).length := by
  simp only [List.getD, List.getElem?_map]
  cases scN[u]? <;> rfl

def nameOfInS (scN : Scopes) : Option Ref → String
  | none => ""
  | some r => refName scN r

def nameOfOutS (scN : Scopes) : Option Nat → String
  | none => ""
  | some j => refName scN ⟨0, j⟩

theorem nameOfOut_eq (names : List String) (outer : Scopes) :
    nameOfOut names = nameOfOutS (names :: outer) := by
  funext o
  cases o <;> rfl

theorem serInputs_seesF (st : Scope.Store) (scN : Scopes) (lens bases : List Nat)
    (hl : lens = scN.map List.length) (hs : SeesOuter st scN bases) :
    ∀ ins : List (Option Ref), ins.all (refOKF lens) = true →
    Scope.serInputs st.vals (absInsB bases ins) = .ok (ins.map (nameOfInS scN))
  | [], _ => rfl
  | none :: ins, h => by
    simp only [List.all_cons, Bool.and_eq_true] at h
    have ih := serInputs_seesF st scN lens bases hl hs ins h.2
    simp only [absInsB] at ih
    simp [absInsB, Scope.serInputs, ih, nameOfInS]
  | some r :: ins, h => by
    simp only [List.all_cons, Bool.and_eq_true, refOKF, decide_eq_true_eq] at h
    have ih := serInputs_seesF st scN lens bases hl hs ins h.2
    simp only [absInsB] at ih
    have hr : r.idx < (scN.getD r.up []).length := by
      have := h.1
      rw [hl, getD_map_length] at this
      exact this
    have f1 := hs r hr
    simp [absInsB, Scope.serInputs, ih, f1, nameOfInS]

/-! ## shifting the store -/

def shiftSt (st : Scope.Store) (b : Nat) : Scope.Store := { st with vals := fun i => st.vals (b + i) }

theorem serValues_shift (vals : Nat → Scope.ValueS) (b : Nat) : ∀ is : List Nat,
    Scope.serValues vals (is.map (b + ·)) = Scope.serValues (fun i => vals (b + i)) is
  | [] => rfl
  | i :: is => by simp only [List.map_cons, Scope.serValues, serValues_shift vals b is]

theorem serValues_shiftSt (st : Scope.Store) (b : Nat) (is : List Nat) :
    Scope.serValues st.vals (is.map (b + ·)) = Scope.serValues (shiftSt st b).vals is :=
  serValues_shift st.vals b is

theorem serInits_shift (vals : Nat → Scope.ValueS) (td : Scope.TData) (nm : List (Option Scope.Name)) (b : Nat) :
    ∀ l : List (Scope.Name × Nat),
    Scope.serInits vals td nm (l.map fun p => (p.1, b + p.2)) = Scope.serInits (fun i => vals (b + i)) td nm l
  | [] => rfl
  | (n, v) :: r => by simp only [List.map_cons, Scope.serInits, serInits_shift vals td nm b r]

theorem serInits_shiftSt (st : Scope.Store) (nm : List (Option Scope.Name)) (b : Nat) (l : List (Scope.Name × Nat)) :
    Scope.serInits st.vals st.tdata nm (l.map fun p => (p.1, b + p.2))
      = Scope.serInits (shiftSt st b).vals (shiftSt st b).tdata nm l :=
  serInits_shift st.vals st.tdata nm b l

theorem contains_map_add (b : Nat) (G : List Nat) (v : Nat) : (G.map (b + ·)).contains (b + v) = G.contains v := by
  induction G with
  | nil => rfl
  | cons x xs ih => simp

theorem outVInfo_shift (vals : Nat → Scope.ValueS) (b : Nat) (G : List Nat) : ∀ l : List Nat,
    Scope.outVInfo vals (G.map (b + ·)) (l.map (b + ·)) = Scope.outVInfo (fun i => vals (b + i)) G l
  | [] => rfl
  | v :: vs => by simp only [List.map_cons, Scope.outVInfo, contains_map_add, outVInfo_shift vals b G vs]

theorem outVInfo_shiftSt (st : Scope.Store) (b : Nat) (G l : List Nat) :
    Scope.outVInfo st.vals (G.map (b + ·)) (l.map (b + ·)) = Scope.outVInfo (shiftSt st b).vals G l :=
  outVInfo_shift st.vals b G l

theorem absOutsB_map (b : Nat) : ∀ (outs : List (Option Nat)) (k' : Nat),
    absOutsB b (b + k') outs = (absOuts k' outs).map (b + ·)
  | [], _ => rfl
  | some j :: r, k' => by simp [absOutsB, absOuts, absOutsB_map b r k']
  | none :: r, k' => by
    have := absOutsB_map b r (k' + 1)
    rw [← Nat.add_assoc] at this
    simp [absOutsB, absOuts, this]

theorem absGOutsB_map (b : Nat) : ∀ (os : List IRGOut) (k' : Nat),
    absGOutsB b (b + k') os = (absGOuts k' os).map (b + ·)
  | [], _ => rfl
  | .tbl i :: r, k' => by simp [absGOutsB, absGOuts, absGOutsB_map b r k']
  | .dangling _ :: r, k' => by
    have := absGOutsB_map b r (k' + 1)
    rw [← Nat.add_assoc] at this
    simp [absGOutsB, absGOuts, this]

theorem serNode_setGraph (vals : Nat → Scope.ValueS) (td : Scope.TData) (gouts : List Nat) (g : Nat)
    (n : Scope.NodeT) : Scope.serNode vals td gouts (Scope.NodeT.setGraph g n) = Scope.serNode vals td gouts n := by
  cases n
  simp only [Scope.NodeT.setGraph, Scope.serNode]

theorem serNodes_setGraph (vals : Nat → Scope.ValueS) (td : Scope.TData) (gouts : List Nat) (g : Nat) :
    ∀ ns : List Scope.NodeT,
    Scope.serNodes vals td gouts (ns.map (Scope.NodeT.setGraph g)) = Scope.serNodes vals td gouts ns
  | [] => rfl
  | n :: ns => by
    simp only [List.map_cons, Scope.serNodes, serNode_setGraph, serNodes_setGraph vals td gouts g ns]

theorem serSubs_append (vals : Nat → Scope.ValueS) (td : Scope.TData) : ∀ (a b : List Scope.GraphT)
    (ga gb : List Scope.GraphP) (wa wb : Scope.Writes),
    Scope.serSubs vals td a = .ok (ga, wa) → Scope.serSubs vals td b = .ok (gb, wb) →
    Scope.serSubs vals td (a ++ b) = .ok (ga ++ gb, wa ++ wb)
  | [], b, ga, gb, wa, wb, h1, h2 => by
    simp only [Scope.serSubs, Except.ok.injEq, Prod.mk.injEq] at h1
    obtain ⟨rfl, rfl⟩ := h1
    simpa using h2
  | x :: a, b, ga, gb, wa, wb, h1, h2 => by
    simp only [Scope.serSubs, List.cons_append] at h1 ⊢
    split at h1
    · cases h1
    · rename_i gx wx hx
      split at h1
      · cases h1
      · rename_i gs ws ha
        simp only [Except.ok.injEq, Prod.mk.injEq] at h1
        obtain ⟨rfl, rfl⟩ := h1
        simp only [serSubs_append vals td a b gs gb ws wb ha h2, List.cons_append, List.append_assoc]

/-! ## one node -/

/-- the graph a node list belongs to, as the store shows it -/
structure GCtx (st : Scope.Store) (tbl : List IRValue) (outerN : Scopes) (lens bases : List Nat) (b : Nat)
    (G outIs : List Nat) : Prop where
  lens : lens = outerN.map List.length
  sees : SeesOuter st (tableNames tbl :: outerN) (b :: bases)
  hs : ∀ i, i < tbl.length → cellAt st (b + i) = absCell (tbl.getD i (IRValue.blank ""))
  hok : ∀ v ∈ tbl, (valOK v && tensOK v) = true
  hg : ∀ j, j < tbl.length → G.contains j = outIs.contains j

/-- what the mutual induction provides for the attributes of a node -/
def AttrsSer (st : Scope.Store) (ver : Option Int) (scN : Scopes) (bases : List Nat) (attrs : List IRAttr) : Prop :=
  ∀ (k nn ng : Nat) (as : List AttrP), ShowsAt st k (cellsAttrs attrs) → serAttrs scN ver attrs = .ok as →
    ∃ ws, Scope.serSubs st.vals st.tdata (treeAttrs bases k nn ng attrs) = .ok (subsAttrs as, ws)

/-- what the mutual induction provides for the node list of a graph -/
def NodesSer (st : Scope.Store) (ver : Option Int) (tbl : List IRValue) (outerN : Scopes) (bases : List Nat) (b : Nat)
    (G outIs : List Nat) (nodes : List IRNode) : Prop :=
  ∀ (k' nn ng : Nat) (nps : List NodeP), ShowsAt st (b + k') (cellsNodes nodes) →
    Serde.serNodes (tableNames tbl :: outerN) ver nodes = .ok nps →
    ∃ ws, Scope.serNodes st.vals st.tdata (G.map (b + ·)) (treeNodes (b :: bases) (b + k') nn ng nodes)
      = .ok (absNsFull nps, (nodeOutVIs tbl outIs (nodes.flatMap IRNode.outputs)).map absVI, ws)

theorem serNode_absF (scN : Scopes) (ver : Option Int) (domain opType overload name doc : String)
    (inputs : List (Option Ref)) (outputs : List (Option Nat)) (attrs : List IRAttr) (mprops : Dict)
    (devcfgs : List IRNodeDevCfg) (np : NodeP)
    (h : Serde.serNode scN ver (.mk domain opType overload name doc inputs outputs attrs mprops devcfgs) = .ok np) :
    ∃ as, serAttrs scN ver attrs = .ok as ∧
      absNFull np = .mk (inputs.map (nameOfInS scN)) (trimTrailingEmpty (outputs.map (nameOfOutS scN)))
        (subsAttrs as) := by
  have key : ∀ as dcs, absNFull (NodeP.mk
        (inputs.map fun | none => "" | some r => refName scN r)
        (trimTrailingEmpty (outputs.map fun | none => "" | some j => refName scN ⟨0, j⟩))
        name opType domain overload doc as (sortEntries mprops) dcs)
      = .mk (inputs.map (nameOfInS scN)) (trimTrailingEmpty (outputs.map (nameOfOutS scN))) (subsAttrs as) := by
    intro as dcs
    have e1 : ∀ l : List (Option Ref), (l.map fun | none => "" | some r => refName scN r)
        = l.map (nameOfInS scN) := by
      intro l; apply List.map_congr_left; intro r _; cases r <;> rfl
    have e2 : ∀ l : List (Option Nat), (l.map fun | none => "" | some j => refName scN ⟨0, j⟩)
        = l.map (nameOfOutS scN) := by
      intro l; apply List.map_congr_left; intro r _; cases r <;> rfl
    simp only [absNFull]
    rw [e1, e2]
  simp only [Serde.serNode, bind, Except.bind] at h
  split at h
  · cases h
  · rename_i as has
    cases devcfgs with
    | nil =>
      simp only [List.isEmpty_nil, if_true] at h
      cases h
      exact ⟨as, has, key _ _⟩
    | cons c cs =>
      simp only [List.isEmpty_cons, Bool.false_eq_true, if_false] at h
      split at h
      · cases h
      · cases h
        exact ⟨as, has, key _ _⟩

theorem node_ser_core (st : Scope.Store) (ver : Option Int) (tbl : List IRValue) (outerN : Scopes)
    (lens bases : List Nat) (b : Nat) (G outIs : List Nat) (ctx : GCtx st tbl outerN lens bases b G outIs)
    (domain opType overload name doc : String) (ins : List (Option Ref)) (outs : List (Option Nat))
    (attrs : List IRAttr) (mprops : Dict) (devcfgs : List IRNodeDevCfg) (k' nn ng : Nat) (np : NodeP)
    (hx : (ins.all (refOKF (tbl.length :: lens)) && outs.all (outOK tbl.length)) = true)
    (hattrs : AttrsSer st ver (tableNames tbl :: outerN) (b :: bases) attrs)
    (hsh : ShowsAt st (b + k') (cellsNode (.mk domain opType overload name doc ins outs attrs mprops devcfgs)))
    (hq : Serde.serNode (tableNames tbl :: outerN) ver
      (.mk domain opType overload name doc ins outs attrs mprops devcfgs) = .ok np) :
    ∃ ws, Scope.serNode st.vals st.tdata (G.map (b + ·))
        (treeNode (b :: bases) (b + k') nn ng (.mk domain opType overload name doc ins outs attrs mprops devcfgs))
      = .ok (absNFull np, (nodeOutVIs tbl outIs outs).map absVI, ws) := by
  simp only [Bool.and_eq_true] at hx
  simp only [cellsNode] at hsh
  have hb := showsAt_left hsh
  have ha := showsAt_right hsh
  simp only [List.length_replicate] at ha
  obtain ⟨as, has, habs⟩ := serNode_absF _ ver domain opType overload name doc ins outs attrs mprops devcfgs np hq
  obtain ⟨ws, hsub⟩ := hattrs (b + k' + numNone outs) nn ng as ha has
  have e1 := serInputs_seesF st (tableNames tbl :: outerN) (tbl.length :: lens) (b :: bases)
    (by simp [ctx.lens, tableNames]) ctx.sees ins hx.1
  have hs' : ∀ i, i < tbl.length → cellAt (shiftSt st b) i = absCell (tbl.getD i (IRValue.blank "")) :=
    fun i hi => ctx.hs i hi
  have hb' : ∀ j, k' ≤ j → j < k' + numNone outs → cellAt (shiftSt st b) j = blankCell := by
    intro j h1 h2
    have := hb (j - k') (by simp; omega)
    have e : b + k' + (j - k') = b + j := by omega
    rw [e] at this
    show cellAt st (b + j) = blankCell
    rw [this]
    have hlt : j - k' < numNone outs := by omega
    simp [List.getD, hlt]
  have e2 := outNames_sees (shiftSt st b) tbl hs' outs k' hx.2 hb'
  have e2' : (absOutsB b (b + k') outs).map (fun v => (st.vals v).name)
      = (outs.map (nameOfOutS (tableNames tbl :: outerN))).map some := by
    rw [absOutsB_map, List.map_map, ← nameOfOut_eq]
    exact e2
  have e3 := stripTrailing_names st.vals _ _ e2'
  have e4 := serOutNames_of_names st.vals _ _ e3
  have e5 : Scope.outVInfo st.vals (G.map (b + ·)) (absOutsB b (b + k') outs)
      = (nodeOutVIs tbl outIs outs).map absVI := by
    rw [absOutsB_map, outVInfo_shiftSt]
    exact outVInfo_sees (shiftSt st b) tbl G outIs hs' ctx.hok ctx.hg outs k' hx.2 hb'
  refine ⟨ws, ?_⟩
  rw [habs]
  simp only [treeNode, List.headD_cons, Scope.serNode, e1, e4, hsub, e5]

/-! ## one graph -/

theorem graph_ser_core (st : Scope.Store) (ver : Option Int) (tbl : List IRValue) (inputs inits : List Nat)
    (nodes : List IRNode) (outputs : List IRGOut) (name doc : String) (opsets : List OpsetP) (mprops : Dict)
    (outerN : Scopes) (lens bases : List Nat) (k nn ng : Nat) (q : GraphP)
    (hok : okG lens (.mk tbl inputs inits nodes outputs name doc opsets mprops) = true)
    (hl : lens = outerN.map List.length) (hsees : SeesOuter st outerN bases)
    (hsh : ShowsAt st k (cellsG (.mk tbl inputs inits nodes outputs name doc opsets mprops)))
    (hnodes : ∀ G outIs, GCtx st tbl outerN lens bases k G outIs →
      NodesSer st ver tbl outerN bases k G outIs nodes)
    (hq : Serde.serGraph outerN ver (.mk tbl inputs inits nodes outputs name doc opsets mprops) = .ok q) :
    ∃ ws, Scope.serGraph st.vals st.tdata
        (treeG bases k nn ng (.mk tbl inputs inits nodes outputs name doc opsets mprops)) = .ok (absGFull q, ws) := by
  simp only [okG, Bool.and_eq_true] at hok
  obtain ⟨⟨⟨⟨hv, hin⟩, hinit⟩, _⟩, hout⟩ := hok
  have hv' : ∀ v ∈ tbl, (valOK v && tensOK v) = true := List.all_eq_true.1 hv
  have hin' : ∀ i ∈ inputs, i < tbl.length := fun i hi => of_decide_eq_true (List.all_eq_true.1 hin i hi)
  have hinit' : ∀ i ∈ inits, i < tbl.length := fun i hi => of_decide_eq_true (List.all_eq_true.1 hinit i hi)
  simp only [cellsG] at hsh
  have hsT := showsAt_left (showsAt_left hsh)
  have hsN := showsAt_right (showsAt_left hsh)
  have hsD := showsAt_right hsh
  simp only [List.length_map] at hsN
  simp only [List.length_append, List.length_map] at hsD
  have hs : ∀ i, i < tbl.length → cellAt st (k + i) = absCell (tbl.getD i (IRValue.blank "")) := by
    intro i hi
    rw [hsT i (by simpa using hi)]
    exact getD_map_absCell tbl i hi
  have hs' : ∀ i, i < tbl.length → cellAt (shiftSt st k) i = absCell (tbl.getD i (IRValue.blank "")) :=
    fun i hi => hs i hi
  have hvo : ∀ i, i < tbl.length → valOK (tbl.getD i (IRValue.blank "")) = true := by
    intro i hi
    have := hv' (tbl.getD i (IRValue.blank "")) (by simp [List.getD, List.getElem?_eq_getElem hi])
    simp only [Bool.and_eq_true] at this
    exact this.1
  simp only [Serde.serGraph, bind, Except.bind] at hq
  split at hq
  · cases hq
  · rename_i ns hns
    cases hq
    have hg : ∀ j, j < tbl.length →
        (absGOuts (tbl.length + (cellsNodes nodes).length) outputs).contains j = (outIdxs outputs).contains j :=
      fun j hj => gouts_contains tbl.length outputs _ j (by omega)
    have ctx : GCtx st tbl outerN lens bases k (absGOuts (tbl.length + (cellsNodes nodes).length) outputs)
        (outIdxs outputs) := ⟨hl, seesOuter_cons hsees tbl k hs, hs, hv', hg⟩
    obtain ⟨ws2, hn⟩ := hnodes _ _ ctx tbl.length nn ng ns hsN hns
    have hinNames : (inputs.map (k + ·)).map (fun v => (st.vals v).name)
        = (inputs.map fun i => (tbl.getD i (IRValue.blank "")).name).map some := by
      rw [List.map_map, List.map_map]
      apply List.map_congr_left
      intro i hi
      exact (cell_fields (hs i (hin' i hi))).1
    have hil : (inits.map fun i => ((tbl.getD i (IRValue.blank "")).name, k + i))
        = (inits.map fun i => ((tbl.getD i (IRValue.blank "")).name, i)).map (fun p => (p.1, k + p.2)) := by
      rw [List.map_map]
      rfl
    obtain ⟨ws1, hi1⟩ := serInits_sees (shiftSt st k) tbl (inputs.map fun i => (tbl.getD i (IRValue.blank "")).name)
      hs' hv' inits hinit'
    have hd' : ∀ j, j < (dangCells outputs).length →
        cellAt (shiftSt st k) (tbl.length + (cellsNodes nodes).length + j) = (dangCells outputs).getD j default := by
      intro j hj
      have := hsD j hj
      rw [Nat.add_assoc] at this
      exact this
    simp only [treeG, Scope.serGraph]
    rw [serValues_shiftSt, serValues_tbl (shiftSt st k) tbl hs' inputs hin', hinNames, hil, serInits_shiftSt, hi1]
    simp only [Nat.add_assoc k]
    rw [absGOutsB_map, serNodes_setGraph, hn]
    simp only
    rw [serValues_shiftSt, serValues_gouts (shiftSt st k) tbl hs' outputs _ hout hd']
    refine ⟨ws1 ++ ws2, ?_⟩
    simp only [absGFull, List.map_map, List.map_append]
    congr 3
    · apply List.map_congr_left
      intro i hi
      exact (absVI_serValue (hvo i (hin' i hi))).symm
    · apply List.map_congr_left
      intro o ho
      have := List.all_eq_true.1 hout o ho
      cases o with
      | tbl i =>
        simp only [goutOK, decide_eq_true_eq] at this
        exact (absVI_serValue (hvo i this)).symm
      | dangling v =>
        simp only [goutOK] at this
        exact (absVI_serValue this).symm

end IrVerif.Bridge

/-
C09 helper development (general model): completed futures (`KInv`) — what a successful return
implies for every tensor.
-/
import IrVerif.Lemmas.WriterNLog
namespace IrVerif.WriterN

structure KInv (cfg : Cfg) (s : State) : Prop where
  act_run : ∀ i p, s.tasks[i]? = some p → act p = true → s.futs[cfg.job i]? = some .running
  own_run : ∀ q jp, (cfg.pool q).parent = some jp → ownAct (s.pl q).owner = true →
    s.futs[jp]? = some .running
  ok_done : ∀ j : Nat, s.futs[j]? = some .ok → ∀ i, i < cfg.n → cfg.job i = j →
    s.tasks[i]? = some (.done true)
  ok_sub : ∀ (j q' : Nat), s.futs[j]? = some .ok → (cfg.jobc j).sub = some q' →
    (s.pl q').owner = .closed false
  cok : ∀ q, ((s.pl q).owner = .collect ∨ (s.pl q).owner = .join false ∨ (s.pl q).owner = .closed false) →
    ∀ j ∈ (s.pl q).collected, s.futs[j]? = some .ok
  call : ∀ q, ((s.pl q).owner = .join false ∨ (s.pl q).owner = .closed false) →
    (s.pl q).collected.length = (cfg.pool q).jobs.length

theorem KInv_init {cfg : Cfg} (wf : WF cfg) : KInv cfg (init cfg) := by
  have hown : ∀ q, (q = 0 ∧ ((init cfg).pl q).owner = .submit 0) ∨ ((init cfg).pl q).owner = .notCreated := by
    intro q; rw [init_pl]; split
    · unfold initPool; split
      · rename_i h0; left; exact ⟨h0, rfl⟩
      · right; rfl
    · right; rfl
  refine ⟨?_, ?_, ?_, ?_, ?_, ?_⟩
  · intro i p hi hp; simp [init, List.getElem?_replicate] at hi; rw [← hi.2] at hp; simp at hp
  · intro q jp hpar ho
    exfalso
    rcases hown q with ⟨rfl, _⟩ | e
    · rw [wf.root] at hpar; simp at hpar
    · rw [e] at ho; simp [ownAct] at ho
  · intro j hj; simp [init, List.getElem?_replicate] at hj
  · intro j q' hj; simp [init, List.getElem?_replicate] at hj
  · intro q hq; rcases hown q with ⟨_, e⟩ | e <;> rw [e] at hq <;> simp at hq
  · intro q hq; rcases hown q with ⟨_, e⟩ | e <;> rw [e] at hq <;> simp at hq

/-- `KInv` reads tasks, futs and of every pool `owner` and `collected` -/
theorem KInv_congr {cfg : Cfg} {s s' : State} (h : KInv cfg s) (ht : s'.tasks = s.tasks)
    (hf : s'.futs = s.futs) (ho : ∀ q, (s'.pl q).owner = (s.pl q).owner)
    (hc : ∀ q, (s'.pl q).collected = (s.pl q).collected) : KInv cfg s' := by
  refine ⟨by rw [ht, hf]; exact h.act_run, fun q jp hp hq => by rw [ho] at hq; rw [hf]; exact h.own_run q jp hp hq,
    by rw [ht, hf]; exact h.ok_done, fun j q' hj hs => by rw [hf] at hj; rw [ho]; exact h.ok_sub j q' hj hs,
    fun q hq j hj => by rw [ho] at hq; rw [hc] at hj; rw [hf]; exact h.cok q hq j hj,
    fun q hq => by rw [ho] at hq; rw [hc]; exact h.call q hq⟩

theorem KInv_set {cfg : Cfg} {s s' : State} (h : KInv cfg s) {i : Nat} {p x : Pc}
    (hi : s.tasks[i]? = some p) (hp : act p = true)
    (ht : s'.tasks = s.tasks.set i x) (hf : s'.futs = s.futs) (hps : s'.pools = s.pools) :
    KInv cfg s' := by
  have hpl : ∀ q, s'.pl q = s.pl q := fun q => by simp [State.pl, hps]
  refine ⟨?_, fun q jp hpar hq => by rw [hpl] at hq; rw [hf]; exact h.own_run q jp hpar hq, ?_,
    fun j q' hj hs => by rw [hf] at hj; rw [hpl]; exact h.ok_sub j q' hj hs,
    fun q hq j hj => by rw [hpl] at hq hj; rw [hf]; exact h.cok q hq j hj,
    fun q hq => by rw [hpl] at hq ⊢; exact h.call q hq⟩
  · intro k q hk hq
    rw [hf]; rw [ht] at hk
    by_cases e : i = k
    · subst e; exact h.act_run i p hi hp
    · simp only [List.getElem?_set, e, if_false] at hk; exact h.act_run k q hk hq
  · intro j hj k hk hjk
    rw [hf] at hj; rw [ht]
    have := h.ok_done j hj k hk hjk
    by_cases e : i = k
    · subst e
      have := h.act_run i p hi hp
      rw [hjk, hj] at this; simp at this
    · simp only [List.getElem?_set, e, if_false]; exact this

theorem KInv_wake {cfg : Cfg} {s : State} (h : KInv cfg s) :
    KInv cfg { s with tasks := s.tasks.map wake } := by
  refine ⟨?_, h.own_run, ?_, h.ok_sub, h.cok, h.call⟩
  · intro k q hk hq
    simp only [List.getElem?_map, Option.map_eq_some_iff] at hk
    obtain ⟨q0, hq0, rfl⟩ := hk
    exact h.act_run k q0 hq0 (by rw [act_wake] at hq; exact hq)
  · intro j hj k hk hjk
    simp [h.ok_done j hj k hk hjk, wake]

theorem SInv.act_unique {cfg : Cfg} {s : State} (h : SInv cfg s) {i k : Nat} {p q : Pc}
    (hi : s.tasks[i]? = some p) (hk : s.tasks[k]? = some q) (hp : act p = true) (hq : act q = true)
    (hj : cfg.job i = cfg.job k) : i = k := by
  have hpn : p ≠ .notStarted := by intro e; subst e; simp at hp
  have hqn : q ≠ .notStarted := by intro e; subst e; simp at hq
  rcases Nat.lt_trichotomy i k with hlt | heq | hgt
  · have := h.order i k q hlt hj.symm hk hqn
    rw [hi] at this; simp at this; subst this; simp at hp
  · exact heq
  · have := h.order k i p hgt hj hi hpn
    rw [hk] at this; simp at this; subst this; simp at hq

theorem KInv_finish {cfg : Cfg} (wf : WF cfg) {s : State} (h : KInv cfg s) (hs : SInv cfg s)
    {i : Nat} {p : Pc} (ok : Bool) (hi : s.tasks[i]? = some p) (hp : act p = true) :
    KInv cfg (finishTask cfg s i ok) := by
  have hlt := getElem?_lt hi
  have hil : i < cfg.n := by rw [← hs.tasks_len]; exact hlt
  have hpd : p ≠ .done true := by intro e; subst e; simp at hp
  have hpn : p ≠ .notStarted := by intro e; subst e; simp at hp
  have hrun := h.act_run i p hi hp
  have hjf : cfg.job i < s.futs.length := getElem?_lt hrun
  have hser := wf.job_serial i hil
  rcases finishTask_cases cfg s i ok with ⟨rfl, hn, e⟩ | ⟨hno, e⟩
  · rw [e]
    have hnext := hs.next_notStarted hi hpd hn
    obtain ⟨hlt1, hj1⟩ := hasNext_iff.1 hn
    refine ⟨?_, h.own_run, ?_, h.ok_sub, h.cok, h.call⟩
    · intro k q hk hq
      by_cases e2 : i + 1 = k
      · subst e2; rw [hj1]; exact hrun
      · simp only [List.getElem?_set, e2, if_false] at hk
        by_cases e1 : i = k
        · subst e1; simp [hlt] at hk; subst hk; simp at hq
        · simp only [e1, if_false] at hk; exact h.act_run k q hk hq
    · intro j hj k hk hjk
      have := h.ok_done j hj k hk hjk
      have hne : cfg.job i ≠ j := by intro e3; rw [e3, hj] at hrun; simp at hrun
      have e1 : i ≠ k := by intro e1; subst e1; exact hne hjk
      have e2 : i + 1 ≠ k := by intro e2; subst e2; rw [hj1] at hjk; exact hne hjk
      simp only [List.getElem?_set, e1, e2, if_false]; exact this
  · rw [e]
    have hown : ∀ q, (({ s with tasks := s.tasks.set i (.done ok)
                                futs := s.futs.set (cfg.job i) (if ok then .ok else .err)
                                pools := addIdle s.pools (cfg.poolOf i) } : State).pl q).owner = (s.pl q).owner :=
      fun q => addIdle_owner _ _ _
    have hcol : ∀ q, (({ s with tasks := s.tasks.set i (.done ok)
                                futs := s.futs.set (cfg.job i) (if ok then .ok else .err)
                                pools := addIdle s.pools (cfg.poolOf i) } : State).pl q).collected = (s.pl q).collected :=
      fun q => addIdle_collected _ _ _
    have okold : ∀ j : Nat, (s.futs.set (cfg.job i) (if ok then Fut.ok else Fut.err))[j]? = some .ok →
        j ≠ cfg.job i → s.futs[j]? = some .ok := by
      intro j hj hne
      simp only [List.getElem?_set, Ne.symm hne, if_false] at hj; exact hj
    refine ⟨?_, ?_, ?_, ?_, ?_, ?_⟩
    · intro k q hk hq
      by_cases e1 : i = k
      · subst e1; simp [hlt] at hk; subst hk; simp at hq
      · simp only [List.getElem?_set, e1, if_false] at hk
        have hne : cfg.job i ≠ cfg.job k := fun e2 => e1 (hs.act_unique hi hk hp hq e2)
        simp only [List.getElem?_set, hne, if_false]
        exact h.act_run k q hk hq
    · intro q jp hpar hq
      rw [hown] at hq
      have := h.own_run q jp hpar hq
      have hne : cfg.job i ≠ jp := by
        intro e1
        have hql : q < cfg.nPools := by
          rw [← hs.pools_len]; exact pl_lt_of_owner (by intro e2; rw [e2] at hq; simp [ownAct] at hq)
        have := (wf.parent_sub q jp hql hpar).2
        rw [← e1, hser] at this; simp at this
      simp only [List.getElem?_set, hne, if_false]; exact this
    · intro j hj k hk hjk
      by_cases hje : j = cfg.job i
      · -- the job of tensor `i` has just completed successfully
        have hok : ok = true := by
          cases ok
          · rw [hje] at hj; simp [hjf] at hj
          · rfl
        subst hok
        have hnn : cfg.hasNext i = false := by rcases hno with h0 | h0 <;> simp_all
        rcases Nat.lt_trichotomy k i with hlt' | heq | hgt
        · have := hs.order k i p hlt' (by rw [hjk, hje]) hi hpn
          have e1 : i ≠ k := by omega
          simp only [List.getElem?_set, e1, if_false]; exact this
        · subst heq; simp [hlt]
        · exfalso
          have := wf.contig i k hgt hk (by rw [hjk, hje])
          have : cfg.hasNext i = true := hasNext_iff.2 ⟨by omega, this⟩
          rw [hnn] at this; simp at this
      · have := h.ok_done j (okold j hj hje) k hk hjk
        have e1 : i ≠ k := by intro e1; subst e1; exact hje hjk.symm
        simp only [List.getElem?_set, e1, if_false]; exact this
    · intro j q' hj hsub
      rw [hown]
      have hne : j ≠ cfg.job i := by intro e1; rw [e1, hser] at hsub; simp at hsub
      exact h.ok_sub j q' (okold j hj hne) hsub
    · intro q hq j hj
      rw [hown] at hq; rw [hcol] at hj
      have := h.cok q hq j hj
      have hne : cfg.job i ≠ j := by intro e1; rw [e1, this] at hrun; simp at hrun
      simp only [List.getElem?_set, hne, if_false]; exact this
    · intro q hq
      rw [hown] at hq; rw [hcol]; exact h.call q hq


/-- only futures change; running ones stay running, `ok` is neither gained nor lost -/
theorem K_futs {cfg : Cfg} {s : State} (h : KInv cfg s) {fs : List Fut}
    (hR : ∀ j : Nat, s.futs[j]? = some .running → fs[j]? = some .running)
    (hO1 : ∀ j : Nat, fs[j]? = some .ok → s.futs[j]? = some .ok)
    (hO2 : ∀ j : Nat, s.futs[j]? = some .ok → fs[j]? = some .ok) :
    KInv cfg { s with futs := fs } :=
  ⟨fun i p hi hp => hR _ (h.act_run i p hi hp), fun q jp hpar hq => hR _ (h.own_run q jp hpar hq),
   fun j hj => h.ok_done j (hO1 j hj), fun j q' hj hs => h.ok_sub j q' (hO1 j hj) hs,
   fun q hq j hj => hO2 j (h.cok q hq j hj), h.call⟩

theorem K_set_pool {cfg : Cfg} {s : State} (h : KInv cfg s) {q : Nat} {P P' : PoolSt}
    (hP : s.pools[q]? = some P)
    (hact : ownAct P'.owner = true → ownAct P.owner = true ∨
      ∀ jp, (cfg.pool q).parent = some jp → s.futs[jp]? = some .running)
    (hcl : P.owner = .closed false → P'.owner = .closed false)
    (hcok : (P'.owner = .collect ∨ P'.owner = .join false ∨ P'.owner = .closed false) →
      ∀ j ∈ P'.collected, s.futs[j]? = some .ok)
    (hcall : (P'.owner = .join false ∨ P'.owner = .closed false) →
      P'.collected.length = (cfg.pool q).jobs.length) :
    KInv cfg { s with pools := s.pools.set q P' } := by
  have hplq := pl_of_get hP
  have hpl : ∀ q', ({ s with pools := s.pools.set q P' } : State).pl q' = if q' = q then P' else s.pl q' :=
    fun q' => pl_upd hP q'
  refine ⟨h.act_run, ?_, h.ok_done, ?_, ?_, ?_⟩
  · intro q' jp hpar hq'
    rw [hpl] at hq'
    split at hq'
    · rename_i e; subst e
      rcases hact hq' with h1 | h1
      · exact h.own_run q' jp hpar (by rw [hplq]; exact h1)
      · exact h1 jp hpar
    · exact h.own_run q' jp hpar hq'
  · intro j q' hj hsub
    rw [hpl]; split
    · rename_i e; subst e
      have := h.ok_sub j q' hj hsub
      rw [hplq] at this; exact hcl this
    · exact h.ok_sub j q' hj hsub
  · intro q' hq' j hj
    rw [hpl] at hq' hj
    by_cases e : q' = q
    · simp only [e, if_true] at hq' hj; exact hcok hq' j hj
    · simp only [e, if_false] at hq' hj; exact h.cok q' hq' j hj
  · intro q' hq'
    rw [hpl] at hq' ⊢
    split at hq'
    · rename_i e; subst e; simp only [if_true]; exact hcall hq'
    · rename_i e; simp only [e, if_false]; exact h.call q' hq'

/-- a pool thread starts the first tensor of a job whose future is running -/
theorem K_start_task {cfg : Cfg} {s : State} (h : KInv cfg s) {k : Nat} {x : Pc}
    (hk : s.tasks[k]? = some .notStarted) (hrun : s.futs[cfg.job k]? = some .running) :
    KInv cfg { s with tasks := s.tasks.set k x } := by
  refine ⟨?_, h.own_run, ?_, h.ok_sub, h.cok, h.call⟩
  · intro i p hi hp
    by_cases e : k = i
    · subst e; exact hrun
    · simp only [List.getElem?_set, e, if_false] at hi; exact h.act_run i p hi hp
  · intro j hj i hi hji
    have := h.ok_done j hj i hi hji
    by_cases e : k = i
    · subst e; rw [hk] at this; simp at this
    · simp only [List.getElem?_set, e, if_false]; exact this

/-- the future of a sub job (no tensors of its own, its pool just closed) is completed -/
theorem K_set_fut_sub {cfg : Cfg} (wf : WF cfg) {s : State} (h : KInv cfg s)
    (htl : s.tasks.length = cfg.n) (hpll : s.pools.length = cfg.nPools) {q jp : Nat} {e : Bool} (hql : q < cfg.nPools) (hpar : (cfg.pool q).parent = some jp)
    (hclosed : (s.pl q).owner = .closed e) (hold : s.futs[jp]? = some .running) :
    KInv cfg { s with futs := s.futs.set jp (if e then .err else .ok) } := by
  obtain ⟨hjpl, hjsub⟩ := wf.parent_sub q jp hql hpar
  have hjf : jp < s.futs.length := getElem?_lt hold
  have okold : ∀ j : Nat, (s.futs.set jp (if e then Fut.err else Fut.ok))[j]? = some .ok → j ≠ jp →
      s.futs[j]? = some .ok := by
    intro j hj hne
    simp only [List.getElem?_set, Ne.symm hne, if_false] at hj; exact hj
  refine ⟨?_, ?_, ?_, ?_, ?_, h.call⟩
  · intro i p hi hp
    have := h.act_run i p hi hp
    have hil : i < cfg.n := by rw [← htl]; exact getElem?_lt hi
    have hne : jp ≠ cfg.job i := by
      intro e1; have := wf.job_serial i hil; rw [← e1, hjsub] at this; simp at this
    simp only [List.getElem?_set, hne, if_false]; exact this
  · intro q' jp' hpar' hq0
    have hq' : ownAct (s.pl q').owner = true := hq0
    have := h.own_run q' jp' hpar' hq'
    have hne : jp ≠ jp' := by
      intro e1; subst e1
      have hq'l : q' < cfg.nPools := by
        rw [← hpll]; exact pl_lt_of_owner (by intro e2; rw [e2] at hq'; simp [ownAct] at hq')
      have := (wf.parent_sub q' jp hq'l hpar').2
      rw [hjsub] at this; simp at this; subst this
      rw [hclosed] at hq'; simp [ownAct] at hq'
    simp only [List.getElem?_set, hne, if_false]; exact this
  · intro j hj i hi hji
    by_cases hje : j = jp
    · exfalso; have := wf.job_serial i hi; rw [hji, hje, hjsub] at this; simp at this
    · exact h.ok_done j (okold j hj hje) i hi hji
  · intro j q' hj hsub
    by_cases hje : j = jp
    · subst hje
      rw [hjsub] at hsub; simp at hsub; subst hsub
      cases e
      · exact hclosed
      · simp [hjf] at hj
    · exact h.ok_sub j q' (okold j hj hje) hsub
  · intro q' hq' j hj
    have := h.cok q' hq' j hj
    have hne : jp ≠ j := by intro e1; subst e1; rw [hold] at this; simp at this
    simp only [List.getElem?_set, hne, if_false]; exact this


theorem KInv_step {cfg : Cfg} (wf : WF cfg) {s s' : State} {l : Label} (hI : Inv cfg s)
    (h : KInv cfg s) (hst : StepRel cfg s l s') : KInv cfg s' := by
  have hs := hI.s
  -- pool `q` replaced by a record with the same owner and collected list
  have same : ∀ {q : Nat} {P P' : PoolSt}, s.pools[q]? = some P → P'.owner = P.owner →
      P'.collected = P.collected → KInv cfg { s with pools := s.pools.set q P' } := by
    intro q P P' hP ho hc
    have hplq := pl_of_get hP
    refine K_set_pool h hP (fun x => Or.inl (by rw [← ho]; exact x)) (fun x => by rw [ho]; exact x)
      (fun hq j hj => h.cok q (by rw [hplq, ← ho]; exact hq) j (by rw [hplq, ← hc]; exact hj))
      (fun hq => by rw [hc, ← hplq]; exact h.call q (by rw [hplq, ← ho]; exact hq))
  cases hst with
  | submit q c k j P hP hk hj =>
      have hplq := pl_of_get hP
      have hcol : P.collected = [] := by
        have := hI.c.sub q (Or.inr ⟨k, by rw [hplq]; exact hk⟩); rw [hplq] at this; exact this
      refine K_set_pool h hP (fun _ => Or.inl (by rw [hk]; rfl)) (fun x => by rw [hk] at x; simp at x)
        (fun _ j' hj' => by simp [hcol] at hj') (fun hq => ?_)
      simp only at hq; rcases hq with hq | hq <;> (split at hq <;> simp at hq)
  | collect q c j ok P hP hm hjj hf =>
      have hplq := pl_of_get hP
      have hcokP := h.cok q (Or.inl (by rw [hplq]; exact hm))
      rw [hplq] at hcokP
      unfold collectOne
      cases ok
      · simp only [Bool.false_eq_true, if_false]
        split
        · -- cancel: first the futures, then the pool record
          have hqp : ∀ x ∈ P.queue, s.futs[x]? = some .pending := fun x hx =>
            (hs.q_pending q x (by rw [hplq]; exact hx)).1
          have h1 := K_futs h (fs := P.queue.foldl (fun fs x => fs.set x .cancelled) s.futs)
            (by intro x hx; rw [foldl_set_get]; split
                · rename_i hin; rw [hqp x hin.1] at hx; simp at hx
                · exact hx)
            (by intro x hx; rw [foldl_set_get] at hx; split at hx
                · simp at hx
                · exact hx)
            (by intro x hx; rw [foldl_set_get]; split
                · rename_i hin; rw [hqp x hin.1] at hx; simp at hx
                · exact hx)
          exact K_set_pool h1 (P' := { P with collected := j :: P.collected, shutdown := true
                                              owner := .join true, queue := [] }) hP
            (fun _ => Or.inl (by rw [hm]; rfl)) (fun x => by rw [hm] at x; simp at x)
            (fun hq => by simp at hq) (fun hq => by simp at hq)
        · exact K_set_pool h (P' := { P with collected := j :: P.collected, shutdown := true
                                             owner := .join true }) hP
            (fun _ => Or.inl (by rw [hm]; rfl)) (fun x => by rw [hm] at x; simp at x)
            (fun hq => by simp at hq) (fun hq => by simp at hq)
      · simp only [if_true] at hf ⊢
        have hok' : ∀ x ∈ j :: P.collected, s.futs[x]? = some .ok := by
          intro x hx; simp at hx; rcases hx with rfl | hx
          · exact hf
          · exact hcokP x hx
        split
        · rename_i hl
          exact K_set_pool h (P' := { P with collected := j :: P.collected, shutdown := true
                                             owner := .join false }) hP
            (fun _ => Or.inl (by rw [hm]; rfl)) (fun x => by rw [hm] at x; simp at x)
            (fun _ => hok') (fun _ => hl)
        · exact K_set_pool h (P' := { P with collected := j :: P.collected }) hP
            (fun _ => Or.inl (by rw [hm]; rfl)) (fun x => by rw [hm] at x; simp at x)
            (fun _ => hok') (fun hq => by simp [hm] at hq)
  | joinRoot q c e P hP hm hex hpar =>
      have hplq := pl_of_get hP
      refine K_set_pool h hP (fun x => by simp [ownAct] at x) (fun x => by rw [hm] at x; simp at x)
        (fun hq j hj => ?_) (fun hq => ?_)
      · simp at hq; subst hq
        exact h.cok q (Or.inr (Or.inl (by rw [hplq]; exact hm))) j (by rw [hplq]; exact hj)
      · simp at hq; subst hq
        have := h.call q (Or.inl (by rw [hplq]; exact hm)); rw [hplq] at this; exact this
  | joinSub q c e P jp hP hm hex hpar =>
      have hplq := pl_of_get hP
      have hql : q < cfg.nPools := by rw [← hs.pools_len]; exact getElem?_lt hP
      have hold := h.own_run q jp hpar (by rw [hplq, hm]; rfl)
      have h1 := K_set_pool h (P' := { P with owner := .closed e }) hP (fun x => by simp [ownAct] at x)
        (fun x => by rw [hm] at x; simp at x)
        (fun hq j hj => by
          simp at hq; subst hq
          exact h.cok q (Or.inr (Or.inl (by rw [hplq]; exact hm))) j (by rw [hplq]; exact hj))
        (fun hq => by
          simp at hq; subst hq
          have := h.call q (Or.inl (by rw [hplq]; exact hm)); rw [hplq] at this; exact this)
      have h2 : KInv cfg { s with pools := addIdle (s.pools.set q { P with owner := .closed e })
                                            (cfg.jobc jp).pool } :=
        KInv_congr h1 rfl rfl (fun q' => addIdle_owner _ _ _) (fun q' => addIdle_collected _ _ _)
      have hcl : (({ s with pools := addIdle (s.pools.set q { P with owner := .closed e })
                                       (cfg.jobc jp).pool } : State).pl q).owner = .closed e := by
        simp only [State.pl]; rw [addIdle_owner, pl_upd hP]; simp
      exact K_set_fut_sub wf h2 hs.tasks_len (by simp [addIdle_length, hs.pools_len]) hql hpar hcl hold
  | takeSerial q j rest P hP hq hidle hsub =>
      have hplq := pl_of_get hP
      obtain ⟨_, _, hpj, hpool, hjl, hncP, _, _⟩ := take_facts wf hs hP hq
      have hjq : j ∈ (s.pl q).queue := by rw [hplq, hq]; simp
      have hst := hs.start_notStarted wf hjq hsub
      have hjf : j < s.futs.length := getElem?_lt hpj
      have h1 := K_futs h (fs := s.futs.set j .running)
        (by intro x hx
            have hne : j ≠ x := by intro e; subst e; rw [hpj] at hx; simp at hx
            simp only [List.getElem?_set, hne, if_false]; exact hx)
        (by intro x hx
            have hne : j ≠ x := by intro e; subst e; simp [hjf] at hx
            simp only [List.getElem?_set, hne, if_false] at hx; exact hx)
        (by intro x hx
            have hne : j ≠ x := by intro e; subst e; rw [hpj] at hx; simp at hx
            simp only [List.getElem?_set, hne, if_false]; exact hx)
      have h2 := K_set_pool h1 (P' := { P with queue := rest, idle := P.idle - 1 }) hP
        (fun x => Or.inl x) (fun x => x)
        (fun hq' x hx => h1.cok q (by rw [show ({ s with futs := s.futs.set j .running } : State).pl q = P from hplq]; exact hq') x
          (by rw [show ({ s with futs := s.futs.set j .running } : State).pl q = P from hplq]; exact hx))
        (fun hq' => by
          have := h1.call q (by rw [show ({ s with futs := s.futs.set j .running } : State).pl q = P from hplq]; exact hq')
          rw [show ({ s with futs := s.futs.set j .running } : State).pl q = P from hplq] at this; exact this)
      exact K_start_task h2 hst (by
        show (s.futs.set j .running)[cfg.job (cfg.jobc j).start]? = some .running
        rw [wf.start_job j hjl hsub]; simp [hjf])
  | takeSub q j rest P q' hP hq hidle hsub =>
      have hplq := pl_of_get hP
      obtain ⟨_, _, hpj, hpool, hjl, hncP, _, _⟩ := take_facts wf hs hP hq
      obtain ⟨hq'l, hpar, hlt⟩ := wf.sub_pool j q' hjl hsub
      have hqq : q' ≠ q := by rw [hpool] at hlt; omega
      have hjf : j < s.futs.length := getElem?_lt hpj
      have hfr : (s.pl q').owner = .notCreated := by
        cases ho : (s.pl q').owner with
        | notCreated => rfl
        | _ => exact absurd hpj (hs.created q' j hpar (by rw [ho]; simp))
      have hq'len : q' < (s.pools.set q { P with queue := rest, idle := P.idle - 1 }).length := by
        simp [hs.pools_len]; exact hq'l
      have hget : (s.pools.set q { P with queue := rest, idle := P.idle - 1 })[q']? = some (s.pl q') := by
        have := pl_upd (P' := { P with queue := rest, idle := P.idle - 1 }) hP q'
        simp only [hqq, if_false] at this
        rw [List.getD_eq_getElem?_getD] at this
        rw [List.getElem?_eq_getElem hq'len] at this ⊢
        simp at this; rw [this]
      have h1 := K_futs h (fs := s.futs.set j .running)
        (by intro x hx
            have hne : j ≠ x := by intro e; subst e; rw [hpj] at hx; simp at hx
            simp only [List.getElem?_set, hne, if_false]; exact hx)
        (by intro x hx
            have hne : j ≠ x := by intro e; subst e; simp [hjf] at hx
            simp only [List.getElem?_set, hne, if_false] at hx; exact hx)
        (by intro x hx
            have hne : j ≠ x := by intro e; subst e; rw [hpj] at hx; simp at hx
            simp only [List.getElem?_set, hne, if_false]; exact hx)
      have hpl1 : ({ s with futs := s.futs.set j .running } : State).pl q = P := hplq
      have h2 := K_set_pool h1 (P' := { P with queue := rest, idle := P.idle - 1 }) hP
        (fun x => Or.inl x) (fun x => x)
        (fun hq' x hx => h1.cok q (by rw [hpl1]; exact hq') x (by rw [hpl1]; exact hx))
        (fun hq' => by have := h1.call q (by rw [hpl1]; exact hq'); rw [hpl1] at this; exact this)
      have h3 := K_set_pool h2 (q := q')
        (P' := { (s.pools.set q { P with queue := rest, idle := P.idle - 1 }).getD q' default with
                 owner := .submit 0, idle := (cfg.pool q').size }) hget
        (fun _ => Or.inr (fun jp' hp' => by
          rw [hpar] at hp'; simp at hp'; subst hp'
          show (s.futs.set j .running)[j]? = some .running
          simp [hjf]))
        (fun x => by rw [hfr] at x; simp at x) (fun hq' => by simp at hq') (fun hq' => by simp at hq')
      exact h3
  | exit q P hP hq hsd hidle =>
      exact same (P' := { P with idle := P.idle - 1, exited := P.exited + 1 }) hP rfl rfl
  | cbAcqIn i hi hl => exact KInv_set h hi rfl rfl rfl rfl
  | cbAcq i hi hl => exact KInv_set h hi rfl rfl rfl rfl
  | cbFail i hi hf =>
      exact KInv_finish wf (s := { s with log := s.log ++ [i], cbLock := false,
                                          cbIn := if (cfg.pool (cfg.poolOf i)).innerCb
                                            then s.cbIn.set (cfg.poolOf i) false else s.cbIn,
                                          tLocks := s.tLocks.set (cfg.obj i) false })
        (KInv_congr h rfl rfl (fun _ => rfl) (fun _ => rfl))
        (SInv_congr hs rfl rfl (by simp) rfl (by simp only; split <;> simp) (fun _ => rfl) (fun _ => rfl))
        false hi rfl
  | cbOk i hi hf => exact KInv_set h hi rfl rfl rfl rfl
  | tAcq i hi hl => exact KInv_set h hi rfl rfl rfl rfl
  | bTry i p hi hp' =>
      have hp1 : act p = true := by rcases hp' with rfl | rfl <;> rfl
      rcases budgetTry_cases cfg s i with ⟨_, _, e⟩ | ⟨_, _, e⟩ | ⟨_, _, e⟩ | ⟨_, _, e⟩ <;> rw [e] <;>
        exact KInv_set h hi hp1 rfl rfl rfl
  | writeFail i hi hf => exact KInv_set h hi rfl rfl rfl rfl
  | writeOk i hi hf => exact KInv_set h hi rfl rfl rfl rfl
  | bRel i ok hi =>
      unfold budgetRelease
      refine KInv_finish wf (p := .bRel ok) ?_ ?_ ok (by simp [hi, wake]) rfl
      · exact KInv_congr (s := { s with tasks := s.tasks.map wake }) (KInv_wake h) rfl rfl
          (fun _ => rfl) (fun _ => rfl)
      · exact SInv_congr (s := { s with tasks := s.tasks.map wake }) (SInv_wake hs) rfl rfl
          (by simp) rfl rfl (fun _ => rfl) (fun _ => rfl)


theorem nodup_subset_length_le : ∀ (l m : List Nat), l.Nodup → (∀ x ∈ l, x ∈ m) → l.length ≤ m.length
  | [], _, _, _ => by simp
  | a :: l', m, hl, hsub => by
      have ha : a ∈ m := hsub a (by simp)
      have hl' := List.nodup_cons.1 hl
      have ih := nodup_subset_length_le l' (m.erase a) hl'.2 (fun y hy => by
        have hne : y ≠ a := fun e => hl'.1 (e ▸ hy)
        exact (List.mem_erase_of_ne hne).2 (hsub y (by simp [hy])))
      have hlen : (m.erase a).length = m.length - 1 := List.length_erase_of_mem ha
      have hpos : 0 < m.length := List.length_pos_of_mem ha
      simp only [List.length_cons]; omega

/-- a duplicate-free sub-list as long as the whole contains everything -/
theorem mem_of_full {m l : List Nat} (hl : l.Nodup) (hsub : ∀ x ∈ l, x ∈ m)
    (hlen : l.length = m.length) : ∀ x ∈ m, x ∈ l := by
  intro x hx
  apply Classical.byContradiction
  intro hxl
  have h1 := nodup_subset_length_le l (m.erase x) hl (fun y hy => by
    have hne : y ≠ x := fun e => hxl (e ▸ hy)
    exact (List.mem_erase_of_ne hne).2 (hsub y hy))
  have hlen' : (m.erase x).length = m.length - 1 := List.length_erase_of_mem hx
  have hpos : 0 < m.length := List.length_pos_of_mem hx
  omega

/-- after a successful return every pool that exists below the root has been closed successfully,
    hence every tensor has been written -/
theorem closed_ok_all {cfg : Cfg} (wf : WF cfg) {s : State} (hI : Inv cfg s) (h : KInv cfg s)
    (hroot : (s.pl 0).owner = .closed false) :
    ∀ (m q : Nat), q ≤ m → q < cfg.nPools → (s.pl q).owner = .closed false
  | m, q, hm, hq => by
      by_cases h0 : q = 0
      · subst h0; exact hroot
      obtain ⟨jp, hjp⟩ := wf.nonroot q hq h0
      obtain ⟨hjpl, hjsub⟩ := wf.parent_sub q jp hq hjp
      obtain ⟨_, _, hlt⟩ := wf.sub_pool jp q hjpl hjsub
      have hpql : (cfg.jobc jp).pool < cfg.nPools := (wf.job_pool _ _ (wf.pool_job jp hjpl)).2.2
      have hpar : (s.pl (cfg.jobc jp).pool).owner = .closed false :=
        match m, hm with
        | 0, hm => by omega
        | m' + 1, hm => closed_ok_all wf hI h hroot m' (cfg.jobc jp).pool (by omega) hpql
      -- the parent pool has consumed all its futures, all `ok`
      have hall := h.call _ (Or.inr hpar)
      have hmem := mem_of_full (hI.c.nodup _) (hI.c.mem _) hall jp (wf.pool_job jp hjpl)
      have hok := h.cok _ (Or.inr (Or.inr hpar)) jp hmem
      exact h.ok_sub jp q hok hjsub

theorem all_done_of_closed_ok {cfg : Cfg} (wf : WF cfg) {s : State} (hI : Inv cfg s) (h : KInv cfg s)
    (hroot : (s.pl 0).owner = .closed false) : ∀ i, i < cfg.n → s.tasks[i]? = some (.done true) := by
  intro i hi
  have hjl := wf.job_lt i hi
  have hql := wf.poolOf_lt hi
  have hcl := closed_ok_all wf hI h hroot (cfg.poolOf i) (cfg.poolOf i) (Nat.le_refl _) hql
  have hall := h.call _ (Or.inr hcl)
  have hmem := mem_of_full (hI.c.nodup _) (hI.c.mem _) hall (cfg.job i) (wf.pool_job _ hjl)
  have hok := h.cok _ (Or.inr (Or.inr hcl)) (cfg.job i) hmem
  exact h.ok_done _ hok i hi rfl


/-! ### failures are reported -/

structure EInv (cfg : Cfg) (s : State) : Prop where
  err_cause : ∀ j : Nat, s.futs[j]? = some .err →
    (∃ i, cfg.job i = j ∧ s.tasks[i]? = some (.done false)) ∨
    (∃ q', (cfg.jobc j).sub = some q' ∧ (s.pl q').owner = .closed true)
  closed_err : ∀ q, ((s.pl q).owner = .join true ∨ (s.pl q).owner = .closed true) →
    ∃ j, j ∈ (s.pl q).collected ∧ s.futs[j]? = some .err

theorem EInv_init (cfg : Cfg) : EInv cfg (init cfg) := by
  refine ⟨fun j hj => by simp [init, List.getElem?_replicate] at hj, fun q hq => ?_⟩
  exfalso
  rw [init_pl] at hq; split at hq
  · unfold initPool at hq; split at hq <;> simp at hq
  · simp at hq

theorem EInv_congr {cfg : Cfg} {s s' : State} (h : EInv cfg s) (ht : s'.tasks = s.tasks)
    (hf : s'.futs = s.futs) (ho : ∀ q, (s'.pl q).owner = (s.pl q).owner)
    (hc : ∀ q, (s'.pl q).collected = (s.pl q).collected) : EInv cfg s' := by
  refine ⟨fun j hj => ?_, fun q hq => ?_⟩
  · rw [hf] at hj
    rcases h.err_cause j hj with ⟨i, h1, h2⟩ | ⟨q', h1, h2⟩
    · exact Or.inl ⟨i, h1, by rw [ht]; exact h2⟩
    · exact Or.inr ⟨q', h1, by rw [ho]; exact h2⟩
  · rw [ho] at hq; rw [hc, hf]; exact h.closed_err q hq

/-- tensor `i` (in progress) changes its program counter; finished tensors are untouched -/
theorem EInv_set {cfg : Cfg} {s s' : State} (h : EInv cfg s) {i : Nat} {p x : Pc}
    (hi : s.tasks[i]? = some p) (hp : act p = true)
    (ht : s'.tasks = s.tasks.set i x) (hf : s'.futs = s.futs) (hps : s'.pools = s.pools) :
    EInv cfg s' := by
  have hpl : ∀ q, s'.pl q = s.pl q := fun q => by simp [State.pl, hps]
  refine ⟨fun j hj => ?_, fun q hq => by rw [hpl] at hq ⊢; rw [hf]; exact h.closed_err q hq⟩
  rw [hf] at hj
  rcases h.err_cause j hj with ⟨i', h1, h2⟩ | ⟨q', h1, h2⟩
  · have e : i ≠ i' := by intro e; subst e; rw [hi] at h2; simp at h2; subst h2; simp at hp
    exact Or.inl ⟨i', h1, by rw [ht]; simp only [List.getElem?_set, e, if_false]; exact h2⟩
  · exact Or.inr ⟨q', h1, by rw [hpl]; exact h2⟩

theorem EInv_wake {cfg : Cfg} {s : State} (h : EInv cfg s) :
    EInv cfg { s with tasks := s.tasks.map wake } := by
  refine ⟨fun j hj => ?_, h.closed_err⟩
  rcases h.err_cause j hj with ⟨i', h1, h2⟩ | ⟨q', h1, h2⟩
  · exact Or.inl ⟨i', h1, by simp [h2, wake]⟩
  · exact Or.inr ⟨q', h1, h2⟩

theorem EInv_finish {cfg : Cfg} (wf : WF cfg) {s : State} (h : EInv cfg s) (hk : KInv cfg s)
    (hs : SInv cfg s) {i : Nat} {p : Pc} (ok : Bool) (hi : s.tasks[i]? = some p) (hp : act p = true) :
    EInv cfg (finishTask cfg s i ok) := by
  have hlt := getElem?_lt hi
  have hpd : p ≠ .done true := by intro e; subst e; simp at hp
  have hrun := hk.act_run i p hi hp
  have hjf : cfg.job i < s.futs.length := getElem?_lt hrun
  rcases finishTask_cases cfg s i ok with ⟨rfl, hn, e⟩ | ⟨hno, e⟩
  · rw [e]
    have hnext := hs.next_notStarted hi hpd hn
    refine ⟨fun j hj => ?_, h.closed_err⟩
    rcases h.err_cause j hj with ⟨i', h1, h2⟩ | ⟨q', h1, h2⟩
    · have e1 : i ≠ i' := by intro e1; subst e1; rw [hi] at h2; simp at h2; subst h2; simp at hp
      have e2 : i + 1 ≠ i' := by intro e2; subst e2; rw [hnext] at h2; simp at h2
      exact Or.inl ⟨i', h1, by simp only [List.getElem?_set, e1, e2, if_false]; exact h2⟩
    · exact Or.inr ⟨q', h1, h2⟩
  · rw [e]
    refine ⟨fun j hj => ?_, fun q hq => ?_⟩
    · by_cases hje : cfg.job i = j
      · subst hje
        cases ok
        · exact Or.inl ⟨i, rfl, by simp [hlt]⟩
        · simp [hjf] at hj
      · simp only [List.getElem?_set, hje, if_false] at hj
        rcases h.err_cause j hj with ⟨i', h1, h2⟩ | ⟨q', h1, h2⟩
        · have e1 : i ≠ i' := by intro e1; subst e1; exact hje h1
          exact Or.inl ⟨i', h1, by simp only [List.getElem?_set, e1, if_false]; exact h2⟩
        · refine Or.inr ⟨q', h1, ?_⟩
          show ((addIdle s.pools (cfg.poolOf i)).getD q' default).owner = _
          rw [addIdle_owner]; exact h2
    · have hq' : (s.pl q).owner = .join true ∨ (s.pl q).owner = .closed true := by
        have e1 : ((addIdle s.pools (cfg.poolOf i)).getD q default).owner = (s.pl q).owner := addIdle_owner _ _ _
        rcases hq with hq | hq
        · left; rw [← e1]; exact hq
        · right; rw [← e1]; exact hq
      obtain ⟨j, hj1, hj2⟩ := h.closed_err q hq'
      refine ⟨j, ?_, ?_⟩
      · show j ∈ ((addIdle s.pools (cfg.poolOf i)).getD q default).collected
        rw [addIdle_collected]; exact hj1
      · have hne : cfg.job i ≠ j := by intro e1; rw [e1, hj2] at hrun; simp at hrun
        simp only [List.getElem?_set, hne, if_false]; exact hj2

/-- only futures change; `err` is neither gained nor lost -/
theorem E_futs {cfg : Cfg} {s : State} (h : EInv cfg s) {fs : List Fut}
    (hE1 : ∀ j : Nat, fs[j]? = some .err → s.futs[j]? = some .err)
    (hE2 : ∀ j : Nat, s.futs[j]? = some .err → fs[j]? = some .err) :
    EInv cfg { s with futs := fs } :=
  ⟨fun j hj => h.err_cause j (hE1 j hj), fun q hq => by
    obtain ⟨j, h1, h2⟩ := h.closed_err q hq; exact ⟨j, h1, hE2 j h2⟩⟩

theorem E_set_pool {cfg : Cfg} {s : State} (h : EInv cfg s) {q : Nat} {P P' : PoolSt}
    (hP : s.pools[q]? = some P)
    (hcl : P.owner = .closed true → P'.owner = .closed true)
    (hce : (P'.owner = .join true ∨ P'.owner = .closed true) →
      ∃ j, j ∈ P'.collected ∧ s.futs[j]? = some .err) :
    EInv cfg { s with pools := s.pools.set q P' } := by
  have hplq := pl_of_get hP
  have hpl : ∀ q', ({ s with pools := s.pools.set q P' } : State).pl q' = if q' = q then P' else s.pl q' :=
    fun q' => pl_upd hP q'
  refine ⟨fun j hj => ?_, fun q' hq' => ?_⟩
  · rcases h.err_cause j hj with ⟨i', h1, h2⟩ | ⟨q', h1, h2⟩
    · exact Or.inl ⟨i', h1, h2⟩
    · refine Or.inr ⟨q', h1, ?_⟩
      rw [hpl]; split
      · rename_i e; subst e; rw [hplq] at h2; exact hcl h2
      · exact h2
  · rw [hpl] at hq' ⊢
    by_cases e : q' = q
    · simp only [e, if_true] at hq' ⊢; exact hce hq'
    · simp only [e, if_false] at hq' ⊢; exact h.closed_err q' hq'


theorem E_start_task {cfg : Cfg} {s : State} (h : EInv cfg s) {k : Nat} {x : Pc}
    (hk : s.tasks[k]? = some .notStarted) : EInv cfg { s with tasks := s.tasks.set k x } := by
  refine ⟨fun j hj => ?_, h.closed_err⟩
  rcases h.err_cause j hj with ⟨i', h1, h2⟩ | ⟨q', h1, h2⟩
  · have e : k ≠ i' := by intro e; subst e; rw [hk] at h2; simp at h2
    exact Or.inl ⟨i', h1, by simp only [List.getElem?_set, e, if_false]; exact h2⟩
  · exact Or.inr ⟨q', h1, h2⟩

theorem EInv_step {cfg : Cfg} (wf : WF cfg) {s s' : State} {l : Label} (hI : Inv cfg s)
    (hk : KInv cfg s) (h : EInv cfg s) (hst : StepRel cfg s l s') : EInv cfg s' := by
  have hs := hI.s
  have same : ∀ {q : Nat} {P P' : PoolSt}, s.pools[q]? = some P → P'.owner = P.owner →
      P'.collected = P.collected → EInv cfg { s with pools := s.pools.set q P' } := by
    intro q P P' hP ho hc
    have hplq := pl_of_get hP
    refine E_set_pool h hP (fun x => by rw [ho]; exact x) (fun hq => ?_)
    rw [ho] at hq; rw [hc, ← hplq]; exact h.closed_err q (by rw [hplq]; exact hq)
  have setrun : ∀ {j : Nat}, s.futs[j]? = some .pending →
      EInv cfg { s with futs := s.futs.set j .running } := by
    intro j hpj
    have hjf := getElem?_lt hpj
    refine E_futs h (fun x hx => ?_) (fun x hx => ?_)
    · have hne : j ≠ x := by intro e; subst e; simp [hjf] at hx
      simp only [List.getElem?_set, hne, if_false] at hx; exact hx
    · have hne : j ≠ x := by intro e; subst e; rw [hpj] at hx; simp at hx
      simp only [List.getElem?_set, hne, if_false]; exact hx
  cases hst with
  | submit q c k j P hP hk' hj =>
      refine E_set_pool h hP (fun x => by rw [hk'] at x; simp at x) (fun hq => ?_)
      simp only at hq; rcases hq with hq | hq <;> (split at hq <;> simp at hq)
  | collect q c j ok P hP hm hjj hf =>
      have hplq := pl_of_get hP
      unfold collectOne
      cases ok
      · simp only [Bool.false_eq_true, if_false] at hf ⊢
        split
        · have hqp : ∀ x ∈ P.queue, s.futs[x]? = some .pending := fun x hx =>
            (hs.q_pending q x (by rw [hplq]; exact hx)).1
          have h1 := E_futs h (fs := P.queue.foldl (fun fs x => fs.set x .cancelled) s.futs)
            (by intro x hx; rw [foldl_set_get] at hx; split at hx
                · simp at hx
                · exact hx)
            (by intro x hx; rw [foldl_set_get]; split
                · rename_i hin; rw [hqp x hin.1] at hx; simp at hx
                · exact hx)
          refine E_set_pool h1 (P' := { P with collected := j :: P.collected, shutdown := true
                                               owner := .join true, queue := [] }) hP
            (fun x => by rw [hm] at x; simp at x) (fun _ => ⟨j, by simp, ?_⟩)
          show (P.queue.foldl (fun fs x => fs.set x Fut.cancelled) s.futs)[j]? = some .err
          rw [foldl_set_get]; split
          · rename_i hin; rw [hqp j hin.1] at hf; simp at hf
          · exact hf
        · exact E_set_pool h (P' := { P with collected := j :: P.collected, shutdown := true
                                             owner := .join true }) hP
            (fun x => by rw [hm] at x; simp at x) (fun _ => ⟨j, by simp, hf⟩)
      · simp only [if_true]
        split
        · exact E_set_pool h (P' := { P with collected := j :: P.collected, shutdown := true
                                             owner := .join false }) hP
            (fun x => by rw [hm] at x; simp at x) (fun hq => by simp at hq)
        · exact E_set_pool h (P' := { P with collected := j :: P.collected }) hP
            (fun x => by rw [hm] at x; simp at x) (fun hq => by simp [hm] at hq)
  | joinRoot q c e P hP hm hex hpar =>
      have hplq := pl_of_get hP
      refine E_set_pool h hP (fun x => by rw [hm] at x; simp at x) (fun hq => ?_)
      simp at hq; subst hq
      have := h.closed_err q (Or.inl (by rw [hplq]; exact hm)); rw [hplq] at this; exact this
  | joinSub q c e P jp hP hm hex hpar =>
      have hplq := pl_of_get hP
      have hql : q < cfg.nPools := by rw [← hs.pools_len]; exact getElem?_lt hP
      obtain ⟨hjpl, hjsub⟩ := wf.parent_sub q jp hql hpar
      have hold := hk.own_run q jp hpar (by rw [hplq, hm]; rfl)
      have hjf : jp < s.futs.length := getElem?_lt hold
      have h1 := E_set_pool h (P' := { P with owner := .closed e }) hP
        (fun x => by rw [hm] at x; simp at x)
        (fun hq => by
          simp at hq; subst hq
          have := h.closed_err q (Or.inl (by rw [hplq]; exact hm)); rw [hplq] at this; exact this)
      have h2 : EInv cfg { s with pools := addIdle (s.pools.set q { P with owner := .closed e })
                                            (cfg.jobc jp).pool } :=
        EInv_congr h1 rfl rfl (fun q' => addIdle_owner _ _ _) (fun q' => addIdle_collected _ _ _)
      have hcl : (({ s with pools := addIdle (s.pools.set q { P with owner := .closed e })
                                       (cfg.jobc jp).pool } : State).pl q).owner = .closed e := by
        simp only [State.pl]; rw [addIdle_owner, pl_upd hP]; simp
      refine ⟨fun j hj => ?_, fun q' hq' => ?_⟩
      · by_cases hje : jp = j
        · subst hje
          cases e
          · simp [hjf] at hj
          · exact Or.inr ⟨q, hjsub, hcl⟩
        · simp only [List.getElem?_set, hje, if_false] at hj
          exact h2.err_cause j hj
      · obtain ⟨j, hj1, hj2⟩ := h2.closed_err q' hq'
        refine ⟨j, hj1, ?_⟩
        have hne : jp ≠ j := by
          intro e1; subst e1
          have : s.futs[jp]? = some .err := hj2
          rw [hold] at this; simp at this
        simp only [List.getElem?_set, hne, if_false]; exact hj2
  | takeSerial q j rest P hP hq hidle hsub =>
      have hplq := pl_of_get hP
      obtain ⟨_, _, hpj, _, _, _, _, _⟩ := take_facts wf hs hP hq
      have hjq : j ∈ (s.pl q).queue := by rw [hplq, hq]; simp
      have hst := hs.start_notStarted wf hjq hsub
      have h1 := setrun hpj
      have hpl1 : ({ s with futs := s.futs.set j .running } : State).pl q = P := hplq
      have h2 := E_set_pool h1 (P' := { P with queue := rest, idle := P.idle - 1 }) hP (fun x => x)
        (fun hq' => by have := h1.closed_err q (by rw [hpl1]; exact hq'); rw [hpl1] at this; exact this)
      exact E_start_task h2 hst
  | takeSub q j rest P q' hP hq hidle hsub =>
      have hplq := pl_of_get hP
      obtain ⟨_, _, hpj, hpool, hjl, hncP, _, _⟩ := take_facts wf hs hP hq
      obtain ⟨hq'l, hpar, hlt⟩ := wf.sub_pool j q' hjl hsub
      have hqq : q' ≠ q := by rw [hpool] at hlt; omega
      have hfr : (s.pl q').owner = .notCreated := by
        cases ho : (s.pl q').owner with
        | notCreated => rfl
        | _ => exact absurd hpj (hs.created q' j hpar (by rw [ho]; simp))
      have hq'len : q' < (s.pools.set q { P with queue := rest, idle := P.idle - 1 }).length := by
        simp [hs.pools_len]; exact hq'l
      have hget : (s.pools.set q { P with queue := rest, idle := P.idle - 1 })[q']? = some (s.pl q') := by
        have := pl_upd (P' := { P with queue := rest, idle := P.idle - 1 }) hP q'
        simp only [hqq, if_false] at this
        rw [List.getD_eq_getElem?_getD] at this
        rw [List.getElem?_eq_getElem hq'len] at this ⊢
        simp at this; rw [this]
      have h1 := setrun hpj
      have hpl1 : ({ s with futs := s.futs.set j .running } : State).pl q = P := hplq
      have h2 := E_set_pool h1 (P' := { P with queue := rest, idle := P.idle - 1 }) hP (fun x => x)
        (fun hq' => by have := h1.closed_err q (by rw [hpl1]; exact hq'); rw [hpl1] at this; exact this)
      exact E_set_pool h2 (q := q')
        (P' := { (s.pools.set q { P with queue := rest, idle := P.idle - 1 }).getD q' default with
                 owner := .submit 0, idle := (cfg.pool q').size }) hget
        (fun x => by rw [hfr] at x; simp at x) (fun hq' => by simp at hq')
  | exit q P hP hq hsd hidle =>
      exact same (P' := { P with idle := P.idle - 1, exited := P.exited + 1 }) hP rfl rfl
  | cbAcqIn i hi hl => exact EInv_set h hi rfl rfl rfl rfl
  | cbAcq i hi hl => exact EInv_set h hi rfl rfl rfl rfl
  | cbFail i hi hf =>
      exact EInv_finish wf (s := { s with log := s.log ++ [i], cbLock := false,
                                          cbIn := if (cfg.pool (cfg.poolOf i)).innerCb
                                            then s.cbIn.set (cfg.poolOf i) false else s.cbIn,
                                          tLocks := s.tLocks.set (cfg.obj i) false })
        (EInv_congr h rfl rfl (fun _ => rfl) (fun _ => rfl))
        (KInv_congr hk rfl rfl (fun _ => rfl) (fun _ => rfl))
        (SInv_congr hs rfl rfl (by simp) rfl (by simp only; split <;> simp) (fun _ => rfl) (fun _ => rfl))
        false hi rfl
  | cbOk i hi hf => exact EInv_set h hi rfl rfl rfl rfl
  | tAcq i hi hl => exact EInv_set h hi rfl rfl rfl rfl
  | bTry i p hi hp' =>
      have hp1 : act p = true := by rcases hp' with rfl | rfl <;> rfl
      rcases budgetTry_cases cfg s i with ⟨_, _, e⟩ | ⟨_, _, e⟩ | ⟨_, _, e⟩ | ⟨_, _, e⟩ <;> rw [e] <;>
        exact EInv_set h hi hp1 rfl rfl rfl
  | writeFail i hi hf => exact EInv_set h hi rfl rfl rfl rfl
  | writeOk i hi hf => exact EInv_set h hi rfl rfl rfl rfl
  | bRel i ok hi =>
      unfold budgetRelease
      refine EInv_finish wf (p := .bRel ok) ?_ ?_ ?_ ok (by simp [hi, wake]) rfl
      · exact EInv_congr (s := { s with tasks := s.tasks.map wake }) (EInv_wake h) rfl rfl
          (fun _ => rfl) (fun _ => rfl)
      · exact KInv_congr (s := { s with tasks := s.tasks.map wake }) (KInv_wake hk) rfl rfl
          (fun _ => rfl) (fun _ => rfl)
      · exact SInv_congr (s := { s with tasks := s.tasks.map wake }) (SInv_wake hs) rfl rfl
          (by simp) rfl rfl (fun _ => rfl) (fun _ => rfl)

/-- a pool closed with an error has a failed tensor somewhere below it -/
theorem closed_err_cause {cfg : Cfg} (wf : WF cfg) {s : State} (hI : Inv cfg s) (h : EInv cfg s) :
    ∀ (m q : Nat), cfg.nPools - q ≤ m → (s.pl q).owner = .closed true →
      ∃ i : Nat, s.tasks[i]? = some (.done false)
  | 0, q, hm, ho => by
      have : q < s.pools.length := pl_lt_of_owner (by rw [ho]; simp)
      rw [hI.s.pools_len] at this; omega
  | m + 1, q, hm, ho => by
      obtain ⟨j, hj1, hj2⟩ := h.closed_err q (Or.inr ho)
      rcases h.err_cause j hj2 with ⟨i, _, hi⟩ | ⟨q', hsub, hq'⟩
      · exact ⟨i, hi⟩
      · have hjl : j < cfg.nJobs := by rw [← hI.s.futs_len]; exact getElem?_lt hj2
        obtain ⟨_, _, hlt⟩ := wf.sub_pool j q' hjl hsub
        have hjq := hI.c.mem q j hj1
        have := (wf.job_pool q j hjq).2.1
        exact closed_err_cause wf hI h m q' (by omega) hq'

end IrVerif.WriterN

/-
C15 part B+: the postcondition of NameFixPass for an *arbitrary* name generator (`fixModelX gen`).
This file: static facts about the scoping rule (`scopedB`), the invariant `TInvG` that replaces the shape
invariant of the default generator, and one `_process_value` step.  With a custom generator the shape of a
generated name is arbitrary, so "the setter's guard never fires" is no longer a property of the counters: it
follows from the scoping rule — every already-seen initializer of the graph of the value being renamed is
visible in the current scope (its name is in the used set), every unseen one still has its reserved name.
-/
import IrVerif.Lemmas.NamesGen
namespace IrVerif.Names

/-- the one hypothesis on a generator: it never answers the empty string (`C15_gen_nonempty_necessary`) -/
def NameGen.NonEmpty (gen : NameGen) : Prop := ∀ i nm, gen.v i nm ≠ "" ∧ gen.n i nm ≠ ""

/-! ### static facts about the scoping rule -/

theorem seenAfter_mono (iv : Nat → List Nat) : ∀ (t : Tr) (S : List Nat) (x : Nat), x ∈ S → x ∈ seenAfter iv t S := by
  intro t
  induction t with
  | nil => intro S x h; exact h
  | node n ins outs subs rest ihs ihr =>
    intro S x h
    simp only [seenAfter]
    exact ihr _ x (ihs _ x (List.mem_append_left _ h))
  | graph g isG ins outs body rest ihb ihr =>
    intro S x h
    simp only [seenAfter]
    exact ihr _ x (ihb _ x (List.mem_append_left _ h))

theorem bodyVis_mono : ∀ (t : Tr) (V : List Nat) (x : Nat), x ∈ V → x ∈ bodyVis t V := by
  intro t
  induction t with
  | nil => intro V x h; exact h
  | node n ins outs subs rest ihs ihr =>
    intro V x h
    simp only [bodyVis]
    exact ihr _ x (ihs _ x (List.mem_append_left _ h))
  | graph g isG ins outs body rest _ ihr =>
    intro V x h
    simp only [bodyVis]
    exact ihr _ x h

/-- a value that was seen before the items of `t` and is visible after them was visible before them -/
theorem scoped_vis_back (iv : Nat → List Nat) : ∀ (t : Tr) (S V : List Nat) (u : Nat),
    scopedB iv t S V = true → u ∈ S → u ∈ bodyVis t V → u ∈ V := by
  intro t
  induction t with
  | nil => intro S V u _ _ h; exact h
  | node n ins outs subs rest ihs ihr =>
    intro S V u hsc hS hV
    simp only [scopedB, Bool.and_eq_true] at hsc
    obtain ⟨⟨hsc1, hsc2⟩, hsc3⟩ := hsc
    simp only [bodyVis] at hV
    have h1 := ihr _ _ u hsc3 (seenAfter_mono iv subs _ u (List.mem_append_left _ hS)) hV
    have h2 := ihs _ _ u hsc2 (List.mem_append_left _ hS) h1
    rcases List.mem_append.mp h2 with h | h
    · exact h
    · exact all_imp hsc1 u h hS
  | graph g isG ins outs body rest _ ihr =>
    intro S V u hsc hS hV
    simp only [scopedB, Bool.and_eq_true] at hsc
    simp only [bodyVis] at hV
    exact ihr _ _ u hsc.2 (seenAfter_mono iv body _ u (List.mem_append_left _ hS)) hV

theorem iv_sub_gvals {iv : Nat → List Nat} {g : Nat} {ins outs bouts : List Nat} {u : Nat} (h : u ∈ iv g) :
    u ∈ gvals iv g true ins outs bouts := by
  simp [gvals, h]

/-- an initializer of a graph that is still to be entered under `t`: if it was seen already it is visible now -/
theorem scoped_graph_vis (iv : Nat → List Nat) : ∀ (t : Tr) (S V : List Nat) (g u : Nat),
    scopedB iv t S V = true → g ∈ graphsOf t → u ∈ iv g → u ∈ S → u ∈ V := by
  intro t
  induction t with
  | nil => intro S V g u _ hg; simp [graphsOf] at hg
  | node n ins outs subs rest ihs ihr =>
    intro S V g u hsc hg hu hS
    have hsc0 := hsc
    simp only [scopedB, Bool.and_eq_true] at hsc
    obtain ⟨⟨hsc1, hsc2⟩, hsc3⟩ := hsc
    simp only [graphsOf, List.mem_append] at hg
    have h2 : u ∈ V ++ nodeVals ins outs := by
      rcases hg with hg | hg
      · exact ihs _ _ g u hsc2 hg hu (List.mem_append_left _ hS)
      · have := ihr _ _ g u hsc3 hg hu (seenAfter_mono iv subs _ u (List.mem_append_left _ hS))
        exact scoped_vis_back iv subs _ _ u hsc2 (List.mem_append_left _ hS) this
    rcases List.mem_append.mp h2 with h | h
    · exact h
    · exact all_imp hsc1 u h hS
  | graph g0 isG ins outs body rest ihb ihr =>
    intro S V g u hsc hg hu hS
    simp only [scopedB, Bool.and_eq_true] at hsc
    obtain ⟨⟨hsc1, hsc2⟩, hsc3⟩ := hsc
    simp only [graphsOf, List.mem_append] at hg
    rcases hg with hg | hg | hg
    · cases isG with
      | false => simp at hg
      | true =>
        simp only [if_true, List.mem_singleton] at hg
        subst hg
        exact all_imp hsc1 u (iv_sub_gvals hu) hS
    · have h2 := ihb _ _ g u hsc2 hg hu (List.mem_append_left _ hS)
      rcases List.mem_append.mp h2 with h | h
      · exact h
      · exact all_imp hsc1 u h hS
    · exact ihr _ _ g u hsc3 hg hu (seenAfter_mono iv body _ u (List.mem_append_left _ hS))

/-- after the items of `t` every initializer of every `Graph` under `t` has been seen -/
theorem graph_inits_seen (iv : Nat → List Nat) : ∀ (t : Tr) (S : List Nat) (g u : Nat),
    g ∈ graphsOf t → u ∈ iv g → u ∈ seenAfter iv t S := by
  intro t
  induction t with
  | nil => intro S g u hg; simp [graphsOf] at hg
  | node n ins outs subs rest ihs ihr =>
    intro S g u hg hu
    simp only [graphsOf, List.mem_append] at hg
    simp only [seenAfter]
    rcases hg with hg | hg
    · exact seenAfter_mono iv rest _ u (ihs _ g u hg hu)
    · exact ihr _ g u hg hu
  | graph g0 isG ins outs body rest ihb ihr =>
    intro S g u hg hu
    simp only [graphsOf, List.mem_append] at hg
    simp only [seenAfter]
    rcases hg with hg | hg | hg
    · cases isG with
      | false => simp at hg
      | true =>
        simp only [if_true, List.mem_singleton] at hg
        subst hg
        exact seenAfter_mono iv rest _ u (seenAfter_mono iv body _ u (List.mem_append_right _ (iv_sub_gvals hu)))
    · exact seenAfter_mono iv rest _ u (ihb _ g u hg hu)
    · exact ihr _ g u hg hu

/-! ### the invariant for an arbitrary generator -/

/-- `TInv` without the shape of generated names: a changed name is merely *not reserved*; plus "no tensor
refuses a name" -/
structure TInvG (c : Cfg) (st : FixStX) : Prop where
  nr : st.raised = false
  ok : InitsOk st.toWorld
  io : st.initOf = c.io
  res : st.resV = c.resV
  j1 : ∀ u, st.vname u = c.orig u ∨ ∃ s, st.vname u = some s ∧ s ∉ c.resV
  unseen : ∀ u, u ∉ st.seen → st.vname u = c.orig u
  outside : ∀ u, ¬ c.C u → st.vname u = c.orig u
  /-- no tensor that backs a value refuses a new name -/
  nofz : ∀ v t, st.constOf v = some t → st.frozen t = false

/-- what the postcondition says about one list `L` of values that are visible together (`ScopeOK` on `FixStX`) -/
structure ScopeOKX (c : Cfg) (st : FixStX) (L : List Nat) : Prop where
  inj : ∀ a ∈ L, ∀ b ∈ L, a ≠ b → st.vname a ≠ st.vname b
  seen : ∀ u ∈ L, u ∈ st.seen ∧ truthy (st.vname u) = true
  kept : ∀ v ∈ L, truthy (c.orig v) = true → (∀ u ∈ L, u ≠ v → c.orig u ≠ c.orig v) → st.vname v = c.orig v
  first : FirstB c.orig st.vname L

structure GoodX (c : Cfg) (st : FixStX) (V : List Nat) : Prop extends ScopeOKX c st V where
  top_iff : ∀ s, s ∈ topOf st.vstack ↔ ∃ u ∈ V, st.vname u = some s

/-- everything `_process_value` does to a state that satisfies the invariant -/
structure PVG (c : Cfg) (st : FixStX) (v : Nat) (st' : FixStX) : Prop where
  inv : TInvG c st'
  seen_iff : ∀ u, u ∈ st'.seen ↔ (u ∈ st.seen ∨ u = v)
  others : ∀ u, u ≠ v → st'.vname u = st.vname u
  noop : v ∈ st.seen → st' = st
  fresh : v ∉ st.seen → ∃ n, st'.vname v = some n ∧ n ≠ "" ∧ n ∉ topOf st.vstack ∧
            st'.vstack = (n :: topOf st.vstack) :: st.vstack.tail ∧
            (st.vname v = some n ∨ n ∉ c.resV) ∧
            (∀ s, st.vname v = some s → s ≠ "" → s ∉ topOf st.vstack → n = s)
  nodes : st'.nname = st.nname ∧ st'.nstack = st.nstack ∧ st'.ncnt = st.ncnt ∧ st'.resN = st.resN

/-- the visibility fact the renaming step needs: every seen initializer of the graph of `v` is visible -/
def VisAt (c : Cfg) (st : FixStX) (V : List Nat) (v : Nat) : Prop :=
  v ∉ st.seen → ∀ g u, c.io v = some g → c.io u = some g → u ∈ st.seen → u ∈ V

theorem setNameT_go {w : TWorld} {v : Nat} {new : String} (h1 : w.vname v ≠ some new)
    (hg : w.toWorld.nameGuard v new = false) (hf : ∀ t, w.constOf v = some t → w.frozen t = false) :
    (w.setNameT v new).2 = (w.toWorld.setName v new).2 ∧ (w.setNameT v new).1.toWorld = (w.toWorld.setName v new).1
    ∧ (w.setNameT v new).1.frozen = w.frozen ∧ (w.setNameT v new).1.constOf = w.constOf := by
  unfold TWorld.setNameT
  rw [if_neg h1]
  simp only [hg, Bool.false_eq_true, if_false]
  cases hc : w.constOf v with
  | none => exact ⟨rfl, rfl, rfl, rfl⟩
  | some t => simp [hf t hc]

/-- the renaming branch of `_process_value` for an arbitrary non-empty base name `p` -/
theorem renameToX_PVG {c : Cfg} (hc : c.OK) {st : FixStX} (inv : TInvG c st) {V : List Nat} (good : GoodX c st V)
    {v : Nat} (hC : c.C v) (hv : v ∉ st.seen) (hvis : VisAt c st V v) (p : String) (hpne : p ≠ "")
    (hp : ¬ truthy (st.vname v) = true ∨ (∃ s, st.vname v = some s ∧ s ≠ "" ∧ s ∈ topOf st.vstack)) :
    PVG c st v (renameToX st v p) := by
  obtain ⟨hf1, hf2, hf3⟩ := findUnique_spec p (topOf st.vstack) st.resV (st.vcnt p)
  generalize hr : findUnique p (topOf st.vstack) st.resV (st.vcnt p) = r at hf1 hf2 hf3
  have hne : r.1 ≠ "" := by
    rcases hf3 with ⟨e, _⟩ | ⟨k, _, e, _⟩
    · simpa [e] using hpne
    · simp [e, sufName_ne_empty]
  have hcur : st.vname v ≠ some r.1 := by
    intro e
    rcases hp with h | ⟨s, hs, _, hin⟩
    · exact h (truthy_iff.mpr ⟨r.1, e, hne⟩)
    · rw [hs] at e; cases e; exact hf1 hin
  -- the guards of the setter do not fire
  have hguard : st.toWorld.nameGuard v r.1 = false := by
    unfold World.nameGuard
    cases hio : st.initOf v with
    | none => rfl
    | some g =>
      have hlook : (st.dicts g).lookup r.1 = none := by
        rw [lookup_none_iff]
        intro u hu
        have hk := inv.ok.key_name g r.1 u hu
        by_cases hus : u ∈ st.seen
        · have huV : u ∈ V := hvis hv g u (inv.io ▸ hio) (inv.io ▸ hk.2.2) hus
          exact hf1 ((good.top_iff r.1).mpr ⟨u, huV, hk.1⟩)
        · have hCu : c.C u := hc.closed v g u hC (inv.io ▸ hio) (inv.io ▸ hk.2.2)
          have : r.1 ∈ c.resV := hc.res u r.1 hCu ((inv.unseen u hus) ▸ hk.1) hk.2.1
          exact hf2 (inv.res ▸ this)
      simp only [hlook, Bool.or_false, beq_eq_false_iff_ne]
      exact hne
  obtain ⟨g1, g2, g3, g4⟩ := setNameT_go (w := st.tw) hcur hguard (inv.nofz v)
  obtain ⟨hs1, hs2, hs3, hs4, hs5⟩ := setName_guard_ok (w := st.tw.toWorld) inv.ok v r.1 hguard
  have hraise : (st.tw.setNameT v r.1).2 = false := g1.trans hs1
  have hstep : renameToX st v p =
      { st with toWorld := (st.tw.setNameT v r.1).1.toWorld, constOf := (st.tw.setNameT v r.1).1.constOf,
                tname := (st.tw.setNameT v r.1).1.tname, frozen := (st.tw.setNameT v r.1).1.frozen,
                vcnt := updS st.vcnt p r.2, vstack := pushTop st.vstack r.1, glog := (false, v) :: st.glog,
                modified := true, seen := v :: st.seen } := by
    simp only [renameToX, hr, hraise]
    rfl
  have hvn : (renameToX st v p).vname = upd st.vname v (some r.1) := by
    rw [hstep]
    show (st.tw.setNameT v r.1).1.toWorld.vname = _
    rw [g2, hs3]; rfl
  have hw : (renameToX st v p).toWorld = (st.tw.toWorld.setName v r.1).1 := by
    rw [hstep]; exact g2
  have hseen : (renameToX st v p).seen = v :: st.seen := by rw [hstep]
  refine ⟨⟨?_, ?_, ?_, ?_, ?_, ?_, ?_, ?_⟩, ?_, ?_, fun h => absurd h hv, ?_, ?_⟩
  · rw [hstep]; exact inv.nr
  · rw [hw]; exact hs2
  · show (renameToX st v p).toWorld.initOf = c.io
    rw [hw, hs5]; exact inv.io
  · rw [hstep]; exact inv.res
  · intro u
    rw [hvn]
    by_cases huv : u = v
    · subst huv; simp only [upd_eq]; exact Or.inr ⟨r.1, rfl, inv.res ▸ hf2⟩
    · rw [upd_ne _ _ huv]; exact inv.j1 u
  · intro u hu
    rw [hseen] at hu
    have huv : u ≠ v := fun e => hu (e ▸ List.mem_cons_self)
    rw [hvn, upd_ne _ _ huv]
    exact inv.unseen u (fun h => hu (List.mem_cons_of_mem _ h))
  · intro u hu
    have huv : u ≠ v := fun e => hu (e ▸ hC)
    rw [hvn, upd_ne _ _ huv]
    exact inv.outside u hu
  · intro v' t
    rw [hstep]
    show (st.tw.setNameT v r.1).1.constOf v' = some t → (st.tw.setNameT v r.1).1.frozen t = false
    rw [g3, g4]; exact inv.nofz v' t
  · intro u; rw [hseen]; simp only [List.mem_cons]
    exact ⟨fun h => h.elim Or.inr Or.inl, fun h => h.elim Or.inr Or.inl⟩
  · intro u huv; rw [hvn, upd_ne _ _ huv]
  · intro _
    refine ⟨r.1, by rw [hvn]; simp, hne, hf1, by rw [hstep]; exact pushTop_eq _ _, Or.inr (inv.res ▸ hf2), ?_⟩
    intro s hs hsne hstop
    rcases hp with h | ⟨s', hs', _, hin⟩
    · exact absurd (truthy_iff.mpr ⟨s, hs, hsne⟩) h
    · rw [hs'] at hs; cases hs; exact absurd hin hstop
  · rw [hstep]
    refine ⟨?_, rfl, rfl, rfl⟩
    show (st.tw.setNameT v r.1).1.toWorld.nname = st.nname
    rw [g2, hs4]; rfl

theorem processValueX_PVG {gen : NameGen} (hgen : gen.NonEmpty) {c : Cfg} (hc : c.OK) {st : FixStX} (inv : TInvG c st)
    {V : List Nat} (good : GoodX c st V) {v : Nat} (hC : c.C v) (hvis : VisAt c st V v) :
    PVG c st v (processValueX gen st v) := by
  unfold processValueX
  simp only [inv.nr, Bool.false_eq_true, if_false]
  by_cases hv : v ∈ st.seen
  · have : st.seen.contains v = true := by simpa using hv
    simp only [this, if_true]
    exact ⟨inv, fun u => ⟨Or.inl, fun h => h.elim id (fun e => e ▸ hv)⟩, fun _ _ => rfl, fun _ => rfl,
      fun h => absurd hv h, ⟨rfl, rfl, rfl, rfl⟩⟩
  · have : st.seen.contains v = false := by simpa using hv
    simp only [this, Bool.false_eq_true, if_false]
    by_cases ht : truthy (st.vname v) = true
    · obtain ⟨s, hs, hsne⟩ := truthy_iff.mp ht
      simp only [ht, Bool.not_true, Bool.false_eq_true, if_false]
      have hgd : (st.vname v).getD "" = s := by rw [hs]; rfl
      rw [hgd]
      by_cases htop : s ∈ topOf st.vstack
      · have : (topOf st.vstack).contains s = true := by simpa using htop
        simp only [this, Bool.not_true, Bool.false_eq_true, if_false]
        exact renameToX_PVG hc inv good hC hv hvis _ (hgen v (st.vname v)).1 (Or.inr ⟨s, hs, hsne, htop⟩)
      · have : (topOf st.vstack).contains s = false := by simpa using htop
        simp only [this, Bool.not_false, if_true]
        refine ⟨⟨by first | exact inv.nr | rfl, inv.ok, inv.io, inv.res, inv.j1, ?_, inv.outside, inv.nofz⟩, ?_, fun _ _ => rfl,
          fun h => absurd h hv, ?_, ⟨rfl, rfl, rfl, rfl⟩⟩
        · intro u hu
          exact inv.unseen u (fun h => hu (List.mem_cons_of_mem _ h))
        · intro u; simp only [List.mem_cons]
          exact ⟨fun h => h.elim Or.inr Or.inl, fun h => h.elim Or.inr Or.inl⟩
        · intro _
          exact ⟨s, hs, hsne, htop, pushTop_eq _ _, Or.inl hs,
            fun s' hs' _ _ => by rw [hs] at hs'; exact Option.some.inj hs'⟩
    · have ht' : truthy (st.vname v) = false := by simpa using ht
      simp only [ht', Bool.not_false, if_true]
      exact renameToX_PVG hc inv good hC hv hvis _ (hgen v (st.vname v)).1 (Or.inl ht)

end IrVerif.Names

/-
C09 helper development: all invariants together (`Inv`), enabledness of running pool threads,
and the termination variant.
-/
import IrVerif.Lemmas.WriterJobs
namespace IrVerif.Writer

structure Inv (cfg : Cfg) (st : State) : Prop where
  s : SInv cfg st
  l : LInv cfg st
  p : PInv cfg st
  w : WInv cfg st
  j : JInv cfg st
  c : CInv cfg st

theorem reachable_Inv {cfg : Cfg} (wf : WF cfg) {s : State} (h : Reachable cfg s) : Inv cfg s := by
  induction h with
  | init => exact ⟨SInv_init, LInv_init cfg, PInv_init wf, WInv_init cfg, JInv_init cfg, CInv_init cfg⟩
  | step l _ hst ih =>
      have hr := stepRel_of_step hst
      exact ⟨SInv_step wf ih.s hr, LInv_step wf ih.s ih.l hr, PInv_step wf ih.s ih.p hr,
        WInv_step ih.w hr, JInv_step wf ih.s ih.j hr, CInv_step wf ih.s ih.j ih.c hr⟩

/-- a pool thread that is at a point where it cannot be blocked -/
def free : Pc → Bool
  | .cbBody | .bAcq | .woken | .write | .bRel _ => true
  | _ => false

theorem stepTask_free {cfg : Cfg} {s : State} {i : Nat} {p : Pc} (hi : s.tasks[i]? = some p)
    (hp : free p = true) : (stepTask cfg s i).isSome = true := by
  unfold stepTask
  rw [hi]
  cases p <;> simp [free] at hp ⊢
  · split <;> simp
  · split <;> simp

/-- **no thread is stuck while some pool thread is working**: if any tensor is in progress then
    some `task` label is enabled (the chain "waiter → reservation holder", "tensor-lock waiter →
    lock holder", "callback-lock waiter → holder" always ends in a thread that can run) -/
theorem active_enabled {cfg : Cfg} (wf : WF cfg) {s : State} (h : Inv cfg s) {i : Nat} {p : Pc}
    (hi : s.tasks[i]? = some p) (hp : act p = true) : ∃ k, (stepTask cfg s k).isSome = true := by
  by_cases hE : ∃ (k : Nat) (q : Pc), s.tasks[k]? = some q ∧ free q = true
  · obtain ⟨k, q, hk, hq⟩ := hE
    exact ⟨k, stepTask_free hk hq⟩
  · have hnf : ∀ (k : Nat) (q : Pc), s.tasks[k]? = some q → free q = false := by
      intro k q hk
      cases hq : free q
      · rfl
      · exact absurd ⟨k, q, hk, hq⟩ hE
    have hreg : wsum (fReg cfg) 0 s.tasks = 0 := wsum_eq_zero _ _ _ (by
      intro k q hk; have := hnf k q hk
      cases q <;> simp [free] at this <;> simp [fReg, holds])
    have hover : wsum (fOver cfg) 0 s.tasks = 0 := wsum_eq_zero _ _ _ (by
      intro k q hk; have := hnf k q hk
      cases q <;> simp [free] at this <;> simp [fOver, holds])
    have hcb : wsum fCb 0 s.tasks = 0 := wsum_eq_zero _ _ _ (by
      intro k q hk; have := hnf k q hk
      cases q <;> simp [free] at this <;> simp [fCb])
    have hinf : s.inFlight = 0 := by rw [h.l.reg]; exact hreg
    have hov : s.oversized = false := by
      have := h.l.over; rw [hover] at this
      cases ho : s.oversized <;> simp [ho] at this ⊢
    have hnw : ∀ k : Nat, s.tasks[k]? ≠ some .waiting := by
      intro k hk
      have := h.w k hk
      by_cases hc : cfg.size k > cfg.capacity
      · have := this.1 hc; rw [hov] at this; simp at this
      · have := this.2 (by omega); omega
    have hcbF : s.cbLock = false := by
      have := h.l.cb; rw [hcb] at this
      cases hc : s.cbLock <;> simp [hc] at this ⊢
    -- somebody about to take the (free) callback lock can run
    by_cases hE2 : ∃ k : Nat, s.tasks[k]? = some .cbAcq
    · obtain ⟨k, hk⟩ := hE2
      exact ⟨k, by unfold stepTask; rw [hk]; simp [hcbF]⟩
    have hnc : ∀ k : Nat, s.tasks[k]? ≠ some .cbAcq := fun k hk => hE2 ⟨k, hk⟩
    have hil : i < cfg.n := by rw [← h.s.tasks_len]; exact getElem?_lt hi
    refine ⟨i, ?_⟩
    have hfp := hnf i p hi
    unfold stepTask
    rw [hi]
    cases p <;> simp [free] at hfp <;> simp at hp
    · -- tAcq: the tensor lock is free because nobody is inside a tensor section
      have hT : wsum (fT cfg (cfg.obj i)) 0 s.tasks = 0 := wsum_eq_zero _ _ _ (by
        intro k q hk; have h1 := hnf k q hk; have h2 := hnw k; have h3 := hnc k
        cases q <;> simp [free] at h1 <;> simp [fT, inT]
        · exact absurd hk h3
        · exact absurd hk h2)
      have := h.l.tl (cfg.obj i) (wf.obj_lt i hil); rw [hT] at this
      simp only [List.getD_eq_getElem?_getD] at this ⊢
      cases hc : s.tLocks[cfg.obj i]?.getD false <;> simp [hc] at this ⊢
    · exact absurd hi (hnc i)
    · exact absurd hi (hnw i)


theorem no_act_wsum {s : State} (h : ∀ (i : Nat) (p : Pc), s.tasks[i]? = some p → act p = false) :
    wsum fAct 0 s.tasks = 0 :=
  wsum_eq_zero _ _ _ (by intro k q hk; simp [fAct, h k q hk])

theorem progress {cfg : Cfg} (wf : WF cfg) {s : State} (h : Inv cfg s) (hnt : terminal s = false) :
    ∃ l, (step cfg s l).isSome = true := by
  by_cases hA : ∃ (i : Nat) (p : Pc), s.tasks[i]? = some p ∧ act p = true
  · obtain ⟨i, p, hi, hp⟩ := hA
    obtain ⟨k, hk⟩ := active_enabled wf h hi hp
    exact ⟨.task k, hk⟩
  have hna : ∀ (i : Nat) (p : Pc), s.tasks[i]? = some p → act p = false := by
    intro i p hi
    cases hp : act p
    · rfl
    · exact absurd ⟨i, p, hi, hp⟩ hA
  have hw0 := no_act_wsum hna
  have hpool := h.p.pool
  rw [hw0] at hpool
  cases hm : s.main with
  | submit k =>
      refine ⟨.main 0, ?_⟩
      simp [step, stepMain, hm, h.p.sub_lt k hm]
  | finished e => simp [terminal, hm] at hnt
  | join e =>
      have hsd : s.shutdown = true := h.p.sd_main.2 ⟨e, Or.inl hm⟩
      by_cases hex : s.exited = cfg.workers
      · exact ⟨.main 0, by simp [step, stepMain, hm, hex]⟩
      · have hidle : s.idle > 0 := by omega
        cases hq : s.queue with
        | nil => exact ⟨.exit, by simp [step, hq, hsd, hidle]⟩
        | cons j q =>
            refine ⟨.take, ?_⟩
            have : s.idle ≠ 0 := by omega
            simp [step, hq, this]
  | collect =>
      have hsd : s.shutdown = false := by
        cases hsd : s.shutdown
        · rfl
        · obtain ⟨e, he | he⟩ := h.p.sd_main.1 hsd <;> simp [hm] at he
      have hex : s.exited = 0 := by
        rcases Nat.eq_zero_or_pos s.exited with h0 | h0
        · exact h0
        · have := h.p.exited_sd h0; simp [hsd] at this
      have hidle : s.idle ≠ 0 := by have := wf.workers_pos; omega
      cases hq : s.queue with
      | cons j q => exact ⟨.take, by simp [step, hq, hidle]⟩
      | nil =>
          -- every future is completed: nothing is queued, nothing is running, nothing cancelled
          have hdone : ∀ j, j < cfg.nJobs → (futDone s j).isSome = true := by
            intro j hj
            have hjl : j < s.futs.length := by rw [h.s.futs_len]; exact hj
            unfold futDone
            rw [List.getElem?_eq_getElem hjl]
            cases hf : s.futs[j] with
            | ok => rfl
            | err => rfl
            | pending =>
                have := h.j.pend_q j (by simp [nsub, hm]; exact hj)
                  (by rw [List.getElem?_eq_getElem hjl, hf])
                rw [hq] at this; simp at this
            | running =>
                obtain ⟨i, p, _, hi, hp⟩ := h.j.run_act j (by rw [List.getElem?_eq_getElem hjl, hf])
                rw [hna i p hi] at hp; simp at hp
            | cancelled =>
                have := h.j.canc_sd j (by rw [List.getElem?_eq_getElem hjl, hf])
                rw [hsd] at this; simp at this
          have hlen := h.c.len hm
          cases hmode : cfg.mode with
          | parallel =>
              obtain ⟨j, hj, hjn⟩ := exists_not_mem_of_short cfg.nJobs s.collected h.c.nodup hlen
              refine ⟨.main j, ?_⟩
              have hc : s.collected.contains j = false := by simpa using hjn
              have := hdone j hj
              simp only [step, stepMain, hm, hmode, hc]
              simp [Option.isSome_map, this]
          | shards =>
              refine ⟨.main 0, ?_⟩
              have := hdone s.collected.length hlen
              simp only [step, stepMain, hm, hmode]
              simp [Option.isSome_map, this]


/-! ### termination variant -/

/-- weight of a tensor's program counter; `n + 1` extra while the tensor's `notify_all` is still
    to come (each `notify_all` can put at most `n` waiters back one step) -/
def pcW (n : Nat) : Pc → Nat
  | .notStarted => 10 + (n + 1)
  | .tAcq => 9 + (n + 1)
  | .cbAcq => 8 + (n + 1)
  | .cbBody => 7 + (n + 1)
  | .bAcq => 6 + (n + 1)
  | .woken => 5 + (n + 1)
  | .waiting => 4 + (n + 1)
  | .write => 3 + (n + 1)
  | .bRel _ => 2 + (n + 1)
  | .done _ => 0

def mainW (cfg : Cfg) (s : State) : Nat :=
  match s.main with
  | .submit k => (cfg.nJobs - k) + cfg.nJobs + 3
  | .collect => (cfg.nJobs - s.collected.length) + 2
  | .join _ => 1
  | .finished _ => 0

/-- strictly decreases on every step (`variant_decreases`) -/
def variant (cfg : Cfg) (s : State) : Nat :=
  mainW cfg s + wsum (fun _ p => pcW cfg.n p) 0 s.tasks + s.idle

theorem wsum_map_le (f : Nat → Pc → Nat) (g : Pc → Pc) (hg : ∀ i p, f i (g p) ≤ f i p + 1) :
    ∀ (l : List Pc) (k : Nat), wsum f k (l.map g) ≤ wsum f k l + l.length
  | [], _ => by simp [wsum]
  | q :: qs, k => by
      have := wsum_map_le f g hg qs (k + 1)
      have := hg k q
      simp only [List.map_cons, wsum, List.length_cons]; omega

theorem pcW_act {n : Nat} {p : Pc} (h : act p = true) : n + 3 ≤ pcW n p := by
  cases p <;> simp at h <;> simp [pcW] <;> omega

theorem variant_finish {cfg : Cfg} {s : State} (hs : SInv cfg s) {i : Nat} {p : Pc} (ok : Bool)
    (hi : s.tasks[i]? = some p) (hp : act p = true) :
    wsum (fun _ p => pcW cfg.n p) 0 (finishTask cfg s i ok).tasks + (finishTask cfg s i ok).idle
      + pcW cfg.n p ≤ wsum (fun _ p => pcW cfg.n p) 0 s.tasks + s.idle + 1 := by
  have hpd : p ≠ .done true := act_ne_done hp
  rcases finishTask_cases cfg s i ok with ⟨rfl, hn, e⟩ | ⟨_, e⟩
  · rw [e]
    have hnext := hs.next_notStarted hi hpd hn
    have h1 := wsum_set0 (fun _ p => pcW cfg.n p) s.tasks i p (.done true) hi
    have h2 := wsum_set0 (fun _ p => pcW cfg.n p) (s.tasks.set i (.done true)) (i + 1)
      .notStarted .tAcq (by simp only [List.getElem?_set]; simp; exact hnext)
    simp only [pcW] at h1 h2 ⊢
    omega
  · rw [e]
    have h1 := wsum_set0 (fun _ p => pcW cfg.n p) s.tasks i p (.done ok) hi
    simp only [pcW] at h1 ⊢
    omega

theorem variant_decreases {cfg : Cfg} (wf : WF cfg) {s s' : State} {l : Label} (h : Inv cfg s)
    (hst : StepRel cfg s l s') : variant cfg s' < variant cfg s := by
  have hset : ∀ {i : Nat} {p x : Pc}, s.tasks[i]? = some p → pcW cfg.n x < pcW cfg.n p →
      wsum (fun _ p => pcW cfg.n p) 0 (s.tasks.set i x) < wsum (fun _ p => pcW cfg.n p) 0 s.tasks := by
    intro i p x hi hlt
    have : wsum (fun _ p => pcW cfg.n p) 0 (s.tasks.set i x) + pcW cfg.n p
        = wsum (fun _ p => pcW cfg.n p) 0 s.tasks + pcW cfg.n x :=
      wsum_set0 (fun _ p => pcW cfg.n p) s.tasks i p x hi
    omega
  cases hst with
  | submit c k hm hk =>
      by_cases hk1 : k + 1 < cfg.nJobs
      · simp only [variant, mainW, hm, hk1, if_true]; omega
      · simp only [variant, mainW, hm, hk1, if_false]; omega
  | collect c j ok hm hj hf =>
      have hlen := h.c.len hm
      unfold collectOne
      cases ok
      · cases cfg.mode <;> simp [variant, mainW, hm] <;> try omega
      · simp only [if_true]
        split
        · simp [variant, mainW, hm] <;> try omega
        · simp [variant, mainW, hm] <;> try omega
  | join c e hm he => simp [variant, mainW, hm]
  | take j q hq hidle =>
      have hj : j ∈ s.queue := by simp [hq]
      have := hset (x := .tAcq) (h.s.start_notStarted wf hj) (by simp [pcW])
      simp only [variant, mainW]
      omega
  | exit hq hsd hidle => simp only [variant, mainW]; omega
  | cbAcq i hi hl =>
      have := hset (x := .cbBody) hi (by simp [pcW]); simp only [variant, mainW]; omega
  | cbFail i hi hf =>
      have := variant_finish (s := { s with log := s.log ++ [i], cbLock := false, tLocks := s.tLocks.set (cfg.obj i) false })
        (SInv_congr h.s rfl rfl (by simp) rfl rfl) false hi rfl
      have h3 := pcW_act (n := cfg.n) (p := .cbBody) rfl
      simp only [variant, mainW, finishTask_main, finishTask_collected] at this ⊢
      omega
  | cbOk i hi hf =>
      have := hset (x := .bAcq) hi (by simp [pcW]); simp only [variant, mainW]; omega
  | tAcq i hi hl =>
      have := hset (x := .cbAcq) hi (by simp [pcW]); simp only [variant, mainW]; omega
  | bTry i p hi hp' =>
      rcases budgetTry_cases cfg s i with ⟨_, _, e⟩ | ⟨_, _, e⟩ | ⟨_, _, e⟩ | ⟨_, _, e⟩ <;> rw [e]
      · have := hset (x := .waiting) hi (by rcases hp' with rfl | rfl <;> simp [pcW])
        simp only [variant, mainW]; omega
      · have := hset (x := .write) hi (by rcases hp' with rfl | rfl <;> simp [pcW])
        simp only [variant, mainW]; omega
      · have := hset (x := .write) hi (by rcases hp' with rfl | rfl <;> simp [pcW])
        simp only [variant, mainW]; omega
      · have := hset (x := .waiting) hi (by rcases hp' with rfl | rfl <;> simp [pcW])
        simp only [variant, mainW]; omega
  | writeFail i hi hf =>
      have := hset (x := .bRel false) hi (by simp [pcW]); simp only [variant, mainW]; omega
  | writeOk i hi hf =>
      have := hset (x := .bRel true) hi (by simp [pcW]); simp only [variant, mainW]; omega
  | bRel i ok hi =>
      unfold budgetRelease
      have hs0 : SInv cfg { s with oversized := if cfg.size i > cfg.capacity then false else s.oversized
                                   inFlight := if cfg.size i > cfg.capacity then s.inFlight else s.inFlight - cfg.size i
                                   tasks := s.tasks.map wake
                                   tLocks := s.tLocks.set (cfg.obj i) false } :=
        SInv_congr (s := { s with tasks := s.tasks.map wake }) (SInv_wake h.s) rfl rfl (by simp) rfl rfl
      have := variant_finish hs0 (i := i) (p := .bRel ok) ok (by simp [hi, wake]) rfl
      have hw := wsum_map_le (fun _ p => pcW cfg.n p) wake
        (by intro _ p; cases p <;> simp [wake, pcW] <;> omega) s.tasks 0
      have hlen := h.s.tasks_len
      have h3 : pcW cfg.n (.bRel ok) = 2 + (cfg.n + 1) := rfl
      simp only [variant, mainW, finishTask_main, finishTask_collected] at this ⊢
      omega

end IrVerif.Writer

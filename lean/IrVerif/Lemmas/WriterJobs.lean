/-
C09 helper development: futures versus tensors (`JInv`) and the main thread's bookkeeping of
consumed futures (`CInv`).
-/
import IrVerif.Lemmas.WriterPool
namespace IrVerif.Writer

/-- number of jobs submitted so far -/
def nsub (cfg : Cfg) (s : State) : Nat :=
  match s.main with
  | .submit k => k
  | _ => cfg.nJobs

structure JInv (cfg : Cfg) (s : State) : Prop where
  pend_q : ∀ j, j < nsub cfg s → s.futs[j]? = some .pending → j ∈ s.queue
  run_act : ∀ j : Nat, s.futs[j]? = some .running →
    ∃ i p, cfg.job i = j ∧ s.tasks[i]? = some p ∧ act p = true
  act_run : ∀ i p, s.tasks[i]? = some p → act p = true → s.futs[cfg.job i]? = some .running
  canc_sd : ∀ j : Nat, s.futs[j]? = some .cancelled → s.shutdown = true
  ok_done : ∀ j : Nat, s.futs[j]? = some .ok → ∀ i, i < cfg.n → cfg.job i = j →
    s.tasks[i]? = some (.done true)

theorem JInv_init (cfg : Cfg) : JInv cfg (init cfg) := by
  refine ⟨?_, ?_, ?_, ?_, ?_⟩
  · intro j hj; simp [nsub, init] at hj
  · intro j hj; simp [init, List.getElem?_replicate] at hj
  · intro i p hi hp; simp [init, List.getElem?_replicate] at hi; rw [← hi.2] at hp; simp at hp
  · intro j hj; simp [init, List.getElem?_replicate] at hj
  · intro j hj; simp [init, List.getElem?_replicate] at hj

/-- two different started, unfinished tensors are never in the same job -/
theorem SInv.act_unique {cfg : Cfg} {s : State} (h : SInv cfg s) {i k : Nat} {p q : Pc}
    (hi : s.tasks[i]? = some p) (hk : s.tasks[k]? = some q) (hp : act p = true) (hq : act q = true)
    (hj : cfg.job i = cfg.job k) : i = k := by
  have hpn : p ≠ .notStarted := by intro e; subst e; simp at hp
  have hqn : q ≠ .notStarted := by intro e; subst e; simp at hq
  rcases Nat.lt_trichotomy i k with hlt | heq | hgt
  · have := h.order i k q hlt hj.symm hk hqn
    rw [hi] at this; simp at this; subst this; simp at hp
  · exact heq
  · have := h.order k i p hgt hj hi hpn
    rw [hk] at this; simp at this; subst this; simp at hq


theorem act_ne_notStarted {p : Pc} (h : act p = true) : p ≠ .notStarted := by
  intro e; subst e; simp at h

theorem act_ne_done {p : Pc} {b : Bool} (h : act p = true) : p ≠ .done b := by
  intro e; subst e; simp at h

/-- a task step that keeps the thread on its tensor -/
theorem JInv_set {cfg : Cfg} {s s' : State} (h : JInv cfg s) {i : Nat} {p x : Pc}
    (hi : s.tasks[i]? = some p) (hp : act p = true) (hx : act x = true)
    (ht : s'.tasks = s.tasks.set i x) (hf : s'.futs = s.futs) (hq : s'.queue = s.queue)
    (hsd : s'.shutdown = s.shutdown) (hm : s'.main = s.main) : JInv cfg s' := by
  have hlt := getElem?_lt hi
  refine ⟨?_, ?_, ?_, ?_, ?_⟩
  · intro j hj hpj
    rw [hq]; rw [hf] at hpj
    exact h.pend_q j (by simpa [nsub, hm] using hj) hpj
  · intro j hj
    rw [hf] at hj
    obtain ⟨i', p', h1, h2, h3⟩ := h.run_act j hj
    by_cases e : i = i'
    · subst e; exact ⟨i, x, h1, by rw [ht]; simp [hlt], hx⟩
    · exact ⟨i', p', h1, by rw [ht]; simp [List.getElem?_set, e]; exact h2, h3⟩
  · intro k q hk hq'
    rw [hf]; rw [ht] at hk
    by_cases e : i = k
    · subst e; exact h.act_run i p hi hp
    · simp only [List.getElem?_set, e, if_false] at hk; exact h.act_run k q hk hq'
  · intro j hj; rw [hsd]; rw [hf] at hj; exact h.canc_sd j hj
  · intro j hj k hk hjk
    rw [hf] at hj; rw [ht]
    have := h.ok_done j hj k hk hjk
    by_cases e : i = k
    · subst e
      have := h.act_run i p hi hp
      rw [hjk, hj] at this; simp at this
    · simp only [List.getElem?_set, e, if_false]; exact this

theorem JInv_wake {cfg : Cfg} {s : State} (h : JInv cfg s) :
    JInv cfg { s with tasks := s.tasks.map wake } := by
  refine ⟨h.pend_q, ?_, ?_, h.canc_sd, ?_⟩
  · intro j hj
    obtain ⟨i', p', h1, h2, h3⟩ := h.run_act j hj
    exact ⟨i', wake p', h1, by simp [h2], by rw [act_wake]; exact h3⟩
  · intro k q hk hq
    simp only [List.getElem?_map, Option.map_eq_some_iff] at hk
    obtain ⟨q0, hq0, rfl⟩ := hk
    exact h.act_run k q0 hq0 (by rw [act_wake] at hq; exact hq)
  · intro j hj k hk hjk
    simp [h.ok_done j hj k hk hjk, wake]

/-- `JInv` only reads `tasks`, `futs`, `queue`, `shutdown` and `main` -/
theorem JInv_congr {cfg : Cfg} {s s' : State} (h : JInv cfg s) (ht : s'.tasks = s.tasks)
    (hf : s'.futs = s.futs) (hq : s'.queue = s.queue) (hsd : s'.shutdown = s.shutdown)
    (hm : s'.main = s.main) : JInv cfg s' := by
  obtain ⟨a, b, c, d, e⟩ := h
  refine ⟨?_, by rw [ht, hf]; exact b, by rw [ht, hf]; exact c, by rw [hf, hsd]; exact d,
    by rw [ht, hf]; exact e⟩
  intro j hj hpj
  rw [hq]; rw [hf] at hpj
  exact a j (by simpa [nsub, hm] using hj) hpj

theorem JInv_finish {cfg : Cfg} (wf : WF cfg) {s : State} (h : JInv cfg s) (hs : SInv cfg s)
    {i : Nat} {p : Pc} (ok : Bool) (hi : s.tasks[i]? = some p) (hp : act p = true) :
    JInv cfg (finishTask cfg s i ok) := by
  have hlt := getElem?_lt hi
  have hpd : p ≠ .done true := act_ne_done hp
  have hrun := h.act_run i p hi hp
  rcases finishTask_cases cfg s i ok with ⟨rfl, hn, e⟩ | ⟨hno, e⟩
  · rw [e]
    have hnext := hs.next_notStarted hi hpd hn
    obtain ⟨hlt1, hj1⟩ := hasNext_iff.1 hn
    have hl1 : i + 1 < s.tasks.length := by rw [hs.tasks_len]; exact hlt1
    refine ⟨h.pend_q, ?_, ?_, h.canc_sd, ?_⟩
    · intro j hj
      obtain ⟨i', p', h1, h2, h3⟩ := h.run_act j hj
      by_cases e1 : i = i'
      · subst e1
        exact ⟨i + 1, .tAcq, by rw [hj1]; exact h1,
          by simp only [List.getElem?_set]; simp; omega, rfl⟩
      · have e2 : i + 1 ≠ i' := by
          intro e2; subst e2; rw [hnext] at h2; simp at h2; subst h2; simp at h3
        exact ⟨i', p', h1, by simp only [List.getElem?_set, e1, e2, if_false]; exact h2, h3⟩
    · intro k q hk hq
      by_cases e2 : i + 1 = k
      · subst e2; rw [hj1]; exact hrun
      · simp only [List.getElem?_set, e2, if_false] at hk
        by_cases e1 : i = k
        · subst e1; simp [hlt] at hk; subst hk; simp at hq
        · simp only [e1, if_false] at hk; exact h.act_run k q hk hq
    · intro j hj k hk hjk
      have := h.ok_done j hj k hk hjk
      have hne : cfg.job i ≠ j := by intro e3; rw [e3, hj] at hrun; simp at hrun
      have e1 : i ≠ k := by intro e1; subst e1; exact hne hjk
      have e2 : i + 1 ≠ k := by intro e2; subst e2; rw [hj1] at hjk; exact hne hjk
      simp only [List.getElem?_set, e1, e2, if_false]; exact this
  · rw [e]
    have hjl : cfg.job i < s.futs.length := getElem?_lt hrun
    refine ⟨?_, ?_, ?_, ?_, ?_⟩
    · intro j hj hpj
      simp only [List.getElem?_set] at hpj
      split at hpj
      · cases ok <;> simp [hjl] at hpj
      · exact h.pend_q j hj hpj
    · intro j hj
      simp only [List.getElem?_set] at hj
      split at hj
      · cases ok <;> simp [hjl] at hj
      · rename_i hne
        obtain ⟨i', p', h1, h2, h3⟩ := h.run_act j hj
        have e1 : i ≠ i' := by intro e1; subst e1; exact hne h1
        exact ⟨i', p', h1, by simp only [List.getElem?_set, e1, if_false]; exact h2, h3⟩
    · intro k q hk hq
      by_cases e1 : i = k
      · subst e1; simp [hlt] at hk; subst hk; simp at hq
      · simp only [List.getElem?_set, e1, if_false] at hk
        have hne : cfg.job i ≠ cfg.job k := fun e2 => e1 (hs.act_unique hi hk hp hq e2)
        simp only [List.getElem?_set, hne, if_false]
        exact h.act_run k q hk hq
    · intro j hj
      simp only [List.getElem?_set] at hj
      split at hj
      · cases ok <;> simp [hjl] at hj
      · exact h.canc_sd j hj
    · intro j hj k hk hjk
      simp only [List.getElem?_set] at hj
      split at hj
      · rename_i hje
        -- the job of tensor `i` has just completed successfully
        have hok : ok = true := by cases ok <;> simp [hjl] at hj ⊢
        subst hok
        have hnn : cfg.hasNext i = false := by rcases hno with h0 | h0 <;> simp_all
        rcases Nat.lt_trichotomy k i with hlt' | heq | hgt
        · have := hs.order k i p hlt' (by rw [hjk, hje]) hi (act_ne_notStarted hp)
          have e1 : i ≠ k := by omega
          simp only [List.getElem?_set, e1, if_false]; exact this
        · subst heq; simp [hlt]
        · exfalso
          have := wf.contig i k hgt hk (by rw [hjk, hje])
          have : cfg.hasNext i = true := hasNext_iff.2 ⟨by omega, this⟩
          rw [hnn] at this; simp at this
      · rename_i hje
        have := h.ok_done j hj k hk hjk
        have e1 : i ≠ k := by intro e1; subst e1; exact hje hjk
        simp only [List.getElem?_set, e1, if_false]; exact this


theorem JInv_take {cfg : Cfg} (wf : WF cfg) {s : State} (h : JInv cfg s) (hs : SInv cfg s)
    {j : Nat} {q : List Nat} (hq : s.queue = j :: q) :
    JInv cfg { s with queue := q, idle := s.idle - 1, futs := s.futs.set j .running
                      tasks := s.tasks.set (cfg.jobStarts.getD j 0) .tAcq } := by
  have hjq : j ∈ s.queue := by simp [hq]
  have hpj := hs.q_pending j hjq
  have hjf : j < s.futs.length := getElem?_lt hpj
  have hjl : j < cfg.nJobs := by rw [← hs.futs_len]; exact hjf
  have hst := hs.start_notStarted wf hjq
  have hstl := getElem?_lt hst
  have hsj := wf.start_job j hjl
  generalize cfg.jobStarts.getD j 0 = st at *
  refine ⟨?_, ?_, ?_, ?_, ?_⟩
  · intro j' hj' hpj'
    by_cases e : j = j'
    · subst e; simp [hjf] at hpj'
    · simp only [List.getElem?_set, e, if_false] at hpj'
      have := h.pend_q j' (by simpa [nsub] using hj') hpj'
      rw [hq] at this; simp at this
      rcases this with rfl | this
      · exact absurd rfl e
      · exact this
  · intro j' hj'
    by_cases e : j = j'
    · subst e
      exact ⟨st, .tAcq, hsj, by simp [hstl], rfl⟩
    · simp only [List.getElem?_set, e, if_false] at hj'
      obtain ⟨i', p', h1, h2, h3⟩ := h.run_act j' hj'
      have e1 : st ≠ i' := by
        intro e1; rw [← e1, hst] at h2; simp at h2; subst h2; simp at h3
      exact ⟨i', p', h1, by simp only [List.getElem?_set, e1, if_false]; exact h2, h3⟩
  · intro k p hk hp
    by_cases e1 : st = k
    · subst e1; rw [hsj]; simp [hjf]
    · simp only [List.getElem?_set, e1, if_false] at hk
      have := h.act_run k p hk hp
      by_cases e : j = cfg.job k
      · rw [← e, hpj] at this; simp at this
      · simp only [List.getElem?_set, e, if_false]; exact this
  · intro j' hj'
    by_cases e : j = j'
    · subst e; simp [hjf] at hj'
    · simp only [List.getElem?_set, e, if_false] at hj'; exact h.canc_sd j' hj'
  · intro j' hj' k hk hjk
    by_cases e : j = j'
    · subst e; simp [hjf] at hj'
    · simp only [List.getElem?_set, e, if_false] at hj'
      have := h.ok_done j' hj' k hk hjk
      have e1 : st ≠ k := by
        intro e1; rw [← e1, hst] at this; simp at this
      simp only [List.getElem?_set, e1, if_false]; exact this

theorem JInv_step {cfg : Cfg} (wf : WF cfg) {s s' : State} {l : Label} (hs : SInv cfg s)
    (h : JInv cfg s) (hst : StepRel cfg s l s') : JInv cfg s' := by
  cases hst with
  | submit c k hm hk =>
      refine ⟨?_, h.run_act, h.act_run, h.canc_sd, h.ok_done⟩
      intro j hj hpj
      have hj' : j < k + 1 := by
        simp only [nsub] at hj
        split at hj <;> rename_i heq
        · split at heq <;> simp at heq <;> omega
        · split at heq
          · simp at heq
          · omega
      simp only [List.mem_append, List.mem_cons, List.not_mem_nil, or_false]
      by_cases e : j = k
      · exact Or.inr e
      · exact Or.inl (h.pend_q j (by simp [nsub, hm]; omega) hpj)
  | collect c j ok hm hj hf =>
      have hns : nsub cfg s = cfg.nJobs := by simp [nsub, hm]
      unfold collectOne
      cases ok
      · simp only [Bool.false_eq_true, if_false]
        cases hmode : cfg.mode
        · simp only
          refine ⟨?_, ?_, ?_, by simp, ?_⟩
          · intro j' _ hpj'
            simp only [foldl_set_get] at hpj'
            split at hpj'
            · simp at hpj'
            · rename_i hne
              have hlt := getElem?_lt hpj'
              have := h.pend_q j' (by rw [hns, ← hs.futs_len]; exact hlt) hpj'
              exact absurd ⟨this, hlt⟩ hne
          · intro j' hj'
            simp only [foldl_set_get] at hj'
            split at hj'
            · simp at hj'
            · exact h.run_act j' hj'
          · intro k p hk hpk
            have := h.act_run k p hk hpk
            simp only [foldl_set_get]
            split
            · rename_i hin
              have := hs.q_pending _ hin.1
              simp_all
            · exact this
          · intro j' hj'
            simp only [foldl_set_get] at hj'
            split at hj'
            · simp at hj'
            · exact h.ok_done j' hj'
        · simp only
          refine ⟨?_, h.run_act, h.act_run, by simp, h.ok_done⟩
          intro j' hj' hpj'
          exact h.pend_q j' (by rw [hns]; simpa [nsub] using hj') hpj'
      · simp only [if_true]
        split
        · refine ⟨?_, h.run_act, h.act_run, by simp, h.ok_done⟩
          intro j' hj' hpj'
          exact h.pend_q j' (by rw [hns]; simpa [nsub] using hj') hpj'
        · refine ⟨?_, h.run_act, h.act_run, h.canc_sd, h.ok_done⟩
          intro j' hj' hpj'
          exact h.pend_q j' (by rw [hns]; simpa [nsub, hm] using hj') hpj'
  | join c e hm he =>
      refine ⟨?_, h.run_act, h.act_run, h.canc_sd, h.ok_done⟩
      intro j' hj' hpj'
      exact h.pend_q j' (by simpa [nsub, hm] using hj') hpj'
  | take j q hq hidle => exact JInv_take wf h hs hq
  | exit hq hsd hidle => exact JInv_congr h rfl rfl rfl rfl rfl
  | cbAcq i hi hl => exact JInv_set h hi rfl rfl rfl rfl rfl rfl rfl
  | cbFail i hi hf =>
      exact JInv_finish wf (s := { s with log := s.log ++ [i], cbLock := false, tLocks := s.tLocks.set (cfg.obj i) false })
        (JInv_congr h rfl rfl rfl rfl rfl) (SInv_congr hs rfl rfl (by simp) rfl rfl) false hi rfl
  | cbOk i hi hf => exact JInv_set h hi rfl rfl rfl rfl rfl rfl rfl
  | tAcq i hi hl => exact JInv_set h hi rfl rfl rfl rfl rfl rfl rfl
  | bTry i p hi hp' =>
      have hp1 : act p = true := by rcases hp' with rfl | rfl <;> rfl
      rcases budgetTry_cases cfg s i with ⟨_, _, e⟩ | ⟨_, _, e⟩ | ⟨_, _, e⟩ | ⟨_, _, e⟩ <;> rw [e] <;>
        exact JInv_set h hi hp1 rfl rfl rfl rfl rfl rfl
  | writeFail i hi hf => exact JInv_set h hi rfl rfl rfl rfl rfl rfl rfl
  | writeOk i hi hf => exact JInv_set h hi rfl rfl rfl rfl rfl rfl rfl
  | bRel i ok hi =>
      unfold budgetRelease
      refine JInv_finish wf (p := .bRel ok) ?_ ?_ ok (by simp [hi, wake]) rfl
      · exact JInv_congr (s := { s with tasks := s.tasks.map wake }) (JInv_wake h) rfl rfl rfl rfl rfl
      · exact SInv_congr (s := { s with tasks := s.tasks.map wake }) (SInv_wake hs) rfl rfl
          (by simp) rfl rfl


/-! ### consumed futures -/

/-- a duplicate-free list of numbers below `J` has at most `J` entries, and exactly `J` only if
    it contains every number below `J` -/
theorem nodup_bounded : ∀ (J : Nat) (l : List Nat), l.Nodup → (∀ x ∈ l, x < J) →
    l.length ≤ J ∧ (l.length = J → ∀ j, j < J → j ∈ l)
  | 0, l, _, hb => by
      have : l = [] := by
        cases l with
        | nil => rfl
        | cons a t => exact absurd (hb a (by simp)) (by omega)
      subst this; simp
  | J + 1, l, hn, hb => by
      by_cases hJ : J ∈ l
      · have ih := nodup_bounded J (l.erase J) (hn.erase J) (by
          intro x hx
          have hx' := (List.Nodup.mem_erase_iff hn).1 hx
          have := hb x hx'.2
          omega)
        have hlen : (l.erase J).length = l.length - 1 := List.length_erase_of_mem hJ
        have hpos : 0 < l.length := List.length_pos_of_mem hJ
        refine ⟨by omega, fun hl j hj => ?_⟩
        by_cases e : j = J
        · subst e; exact hJ
        · have := ih.2 (by omega) j (by omega)
          exact (List.Nodup.mem_erase_iff hn).1 this |>.2
      · have ih := nodup_bounded J l hn (by
          intro x hx
          have := hb x hx
          have : x ≠ J := fun e => hJ (e ▸ hx)
          omega)
        exact ⟨by omega, fun hl => by omega⟩

/-- a duplicate-free list shorter than `J` misses some number below `J` -/
theorem exists_not_mem_of_short (J : Nat) (l : List Nat) (hn : l.Nodup) (hl : l.length < J) :
    ∃ j, j < J ∧ j ∉ l := by
  suffices h : ∀ (J : Nat) (l : List Nat), l.Nodup → (∀ j, j < J → j ∈ l) → J ≤ l.length by
    apply Classical.byContradiction
    intro hne
    have := h J l hn (fun j hj => Classical.byContradiction fun hj' => hne ⟨j, hj, hj'⟩)
    omega
  intro J
  induction J with
  | zero => intros; omega
  | succ J ih =>
      intro l hn hall
      have hJ := hall J (by omega)
      have := ih (l.erase J) (hn.erase J) (fun j hj =>
        (List.Nodup.mem_erase_iff hn).2 ⟨by omega, hall j (by omega)⟩)
      have hlen : (l.erase J).length = l.length - 1 := List.length_erase_of_mem hJ
      have hpos : 0 < l.length := List.length_pos_of_mem hJ
      omega

structure CInv (cfg : Cfg) (s : State) : Prop where
  nodup : s.collected.Nodup
  lt : ∀ j ∈ s.collected, j < cfg.nJobs
  len : s.main = .collect → s.collected.length < cfg.nJobs
  sh : cfg.mode = .shards → ∀ j ∈ s.collected, j < s.collected.length
  ok : (s.main = .collect ∨ s.main = .join false ∨ s.main = .finished false) →
    ∀ j ∈ s.collected, s.futs[j]? = some .ok
  all : (s.main = .join false ∨ s.main = .finished false) → s.collected.length = cfg.nJobs
  sub : ∀ k, s.main = .submit k → s.collected = []

theorem CInv_init (cfg : Cfg) : CInv cfg (init cfg) := by
  refine ⟨by simp [init], by simp [init], by simp [init], by simp [init], by simp [init],
    by simp [init], by simp [init]⟩

/-- steps of pool threads: `collected` and `main` unchanged, completed futures stay completed -/
theorem CInv_frame {cfg : Cfg} {s s' : State} (h : CInv cfg s) (hc : s'.collected = s.collected)
    (hm : s'.main = s.main) (hf : ∀ j : Nat, s.futs[j]? = some .ok → s'.futs[j]? = some .ok) :
    CInv cfg s' := by
  refine ⟨by rw [hc]; exact h.nodup, by rw [hc]; exact h.lt, by rw [hc, hm]; exact h.len,
    by rw [hc]; exact h.sh, ?_, by rw [hc, hm]; exact h.all, by rw [hc, hm]; exact h.sub⟩
  intro hmm j hj
  rw [hm] at hmm; rw [hc] at hj
  exact hf j (h.ok hmm j hj)

theorem finishTask_futs_ok {cfg : Cfg} {s : State} (hj : JInv cfg s) {i : Nat} {p : Pc} (ok : Bool)
    (hi : s.tasks[i]? = some p) (hp : act p = true) (j : Nat) (h : s.futs[j]? = some .ok) :
    (finishTask cfg s i ok).futs[j]? = some .ok := by
  have hrun := hj.act_run i p hi hp
  rcases finishTask_cases cfg s i ok with ⟨_, _, e⟩ | ⟨_, e⟩ <;> rw [e]
  · exact h
  · have hne : cfg.job i ≠ j := by intro e1; rw [e1, h] at hrun; simp at hrun
    simp only [List.getElem?_set, hne, if_false]; exact h

theorem CInv_step {cfg : Cfg} (wf : WF cfg) {s s' : State} {l : Label} (hs : SInv cfg s)
    (hj : JInv cfg s) (h : CInv cfg s) (hst : StepRel cfg s l s') : CInv cfg s' := by
  cases hst with
  | submit c k hm hk =>
      have hc := h.sub k hm
      refine ⟨h.nodup, h.lt, ?_, h.sh, ?_, ?_, fun _ _ => hc⟩
      · intro _; simp [hc]; exact wf.jobs_pos
      · intro _ j hjc; simp [hc] at hjc
      · intro hmm; simp only at hmm; rcases hmm with hmm | hmm <;> (split at hmm <;> simp at hmm)
  | collect c j ok hm hjj hf =>
      have hlen := h.len hm
      have hjl : j < cfg.nJobs := by rw [← hs.futs_len]; exact getElem?_lt hf
      have hjn : j ∉ s.collected := by
        rcases hjj with ⟨_, _, hc⟩ | ⟨hmode, hje⟩
        · simpa using hc
        · intro hin; have := h.sh hmode j hin; omega
      have hnd : (j :: s.collected).Nodup := List.nodup_cons.2 ⟨hjn, h.nodup⟩
      have hlt' : ∀ x ∈ j :: s.collected, x < cfg.nJobs := by
        intro x hx; simp at hx; rcases hx with rfl | hx
        · exact hjl
        · exact h.lt x hx
      have hsh' : cfg.mode = .shards → ∀ x ∈ j :: s.collected, x < (j :: s.collected).length := by
        intro hmode x hx
        simp at hx ⊢
        rcases hx with rfl | hx
        · rcases hjj with ⟨hp, _, _⟩ | ⟨_, hje⟩
          · rw [hmode] at hp; simp at hp
          · omega
        · have := h.sh hmode x hx; omega
      have hokall := h.ok (Or.inl hm)
      unfold collectOne
      cases ok
      · simp only [Bool.false_eq_true, if_false]
        cases hmode : cfg.mode <;>
          exact ⟨hnd, hlt', by simp, by simpa [hmode] using hsh', by simp, by simp, by simp⟩
      · simp only [if_true] at hf ⊢
        have hok' : ∀ x ∈ j :: s.collected, s.futs[x]? = some .ok := by
          intro x hx; simp at hx; rcases hx with rfl | hx
          · exact hf
          · exact hokall x hx
        split
        · rename_i hl
          exact ⟨hnd, hlt', by simp, hsh', fun _ => hok', fun _ => hl, by simp⟩
        · rename_i hl
          refine ⟨hnd, hlt', fun _ => ?_, hsh', fun _ => hok', by simp [hm], by simp [hm]⟩
          simp at hl ⊢; omega
  | join c e hm he =>
      refine ⟨h.nodup, h.lt, by simp, h.sh, ?_, ?_, by simp⟩
      · intro hmm; simp at hmm; subst hmm; exact h.ok (Or.inr (Or.inl hm))
      · intro hmm; simp at hmm; subst hmm; exact h.all (Or.inl hm)
  | take j q hq hidle =>
      refine CInv_frame h rfl rfl (fun j' hj' => ?_)
      have hpj := hs.q_pending j (by simp [hq])
      have hne : j ≠ j' := by intro e; subst e; rw [hpj] at hj'; simp at hj'
      simp only [List.getElem?_set, hne, if_false]; exact hj'
  | exit hq hsd hidle => exact CInv_frame h rfl rfl (fun _ hj' => hj')
  | cbAcq i hi hl => exact CInv_frame h rfl rfl (fun _ hj' => hj')
  | cbFail i hi hf =>
      refine CInv_frame h (by simp) (by simp) (fun j' hj' => ?_)
      exact finishTask_futs_ok (s := { s with log := s.log ++ [i], cbLock := false, tLocks := s.tLocks.set (cfg.obj i) false })
        (JInv_congr hj rfl rfl rfl rfl rfl) false hi rfl j' hj'
  | cbOk i hi hf => exact CInv_frame h rfl rfl (fun _ hj' => hj')
  | tAcq i hi hl => exact CInv_frame h rfl rfl (fun _ hj' => hj')
  | bTry i p hi hp' =>
      rcases budgetTry_cases cfg s i with ⟨_, _, e⟩ | ⟨_, _, e⟩ | ⟨_, _, e⟩ | ⟨_, _, e⟩ <;> rw [e] <;>
        exact CInv_frame h rfl rfl (fun _ hj' => hj')
  | writeFail i hi hf => exact CInv_frame h rfl rfl (fun _ hj' => hj')
  | writeOk i hi hf => exact CInv_frame h rfl rfl (fun _ hj' => hj')
  | bRel i ok hi =>
      unfold budgetRelease
      refine CInv_frame h (by simp) (by simp) (fun j' hj' => ?_)
      refine finishTask_futs_ok (p := .bRel ok) ?_ ok (by simp [hi, wake]) rfl j' hj'
      exact JInv_congr (s := { s with tasks := s.tasks.map wake }) (JInv_wake hj) rfl rfl rfl rfl rfl

end IrVerif.Writer

/-
Kernel, stage 4: node membership (`nodeLink`, `nodeUnlink`), the name authority, graph allocation.
-/
import IrVerif.Lemmas.KernelInit
namespace IrVerif.Kernel


theorem mem_insertAfter (l : List Nat) (a : Option Nat) (x m : Nat) :
    m ∈ insertAfter l a x ↔ m = x ∨ m ∈ l := by
  unfold insertAfter
  cases a with
  | none => simp
  | some a =>
    simp only []
    cases l.idxOf? a with
    | none => simp [or_comm]
    | some i =>
      simp only []
      have h : m ∈ l ↔ m ∈ l.take (i + 1) ∨ m ∈ l.drop (i + 1) := by
        rw [← List.mem_append, List.take_append_drop]
      simp only [List.mem_append, List.mem_cons, h]
      grind

theorem nodup_insertAfter (l : List Nat) (a : Option Nat) (x : Nat) (h : l.Nodup) (hx : x ∉ l) :
    (insertAfter l a x).Nodup := by
  unfold insertAfter
  cases a with
  | none => simp [h, hx]
  | some a =>
    simp only []
    cases l.idxOf? a with
    | none => simp [List.nodup_append, h]; exact fun a ha e => hx (e ▸ ha)
    | some i =>
      simp only []
      have h' : (l.take (i + 1) ++ l.drop (i + 1)).Nodup := by rw [List.take_append_drop]; exact h
      have hx1 : x ∉ l.take (i + 1) := fun hm => hx (List.mem_of_mem_take hm)
      have hx2 : x ∉ l.drop (i + 1) := fun hm => hx (List.mem_of_mem_drop hm)
      rw [List.nodup_append] at h' ⊢
      obtain ⟨h1, h2, h3⟩ := h'
      refine ⟨h1, ?_, ?_⟩
      · simp [h2, hx2]
      · intro p hp q hq
        simp at hq
        rcases hq with rfl | hq
        · intro e; subst e; exact hx1 hp
        · exact h3 p hp q hq

theorem mem_linkAfter (l : List Nat) (a : Option Nat) (x m : Nat) (h : l.Nodup) :
    m ∈ linkAfter l a x ↔ m = x ∨ m ∈ l := by
  unfold linkAfter
  split
  · rename_i hc; constructor
    · exact Or.inr
    · rintro (rfl | hm)
      · exact hc.2
      · exact hm
  · rw [mem_insertAfter, h.mem_erase_iff]
    by_cases hm : m = x <;> simp [hm]

theorem nodup_linkAfter (l : List Nat) (a : Option Nat) (x : Nat) (h : l.Nodup) : (linkAfter l a x).Nodup := by
  unfold linkAfter
  split
  · exact h
  · exact nodup_insertAfter _ _ _ (h.erase x) (by rw [h.mem_erase_iff]; simp)

theorem nodeLink_I_node (w : World) (g : Nat) (a : Option Nat) (n : Nat) (h : I_node w) :
    I_node (nodeLink w g a n) := by
  unfold nodeLink
  split
  · rename_i hadd
    simp [nodeAddable] at hadd
    constructor
    · intro m g'
      simp
      by_cases hm : m = n <;> by_cases hg : g' = g <;> simp [hm, hg, mem_linkAfter _ _ _ _ (h.nodup g)]
      · constructor
        · intro e; exact absurd e.symm hg
        · intro hmem
          have := (h.mem n g').2 hmem
          rcases hadd with hadd | hadd <;> rw [this] at hadd <;> simp_all
      · exact h.mem m g
      · exact h.mem m g'
    · intro g'
      simp
      split
      · subst_vars; exact nodup_linkAfter _ _ _ (h.nodup _)
      · exact h.nodup g'
  · exact I_node_bump h

theorem nodeUnlink_I_node (w : World) (g n : Nat) (h : I_node w) : I_node (nodeUnlink w g n) := by
  unfold nodeUnlink
  split
  · rename_i hg
    constructor
    · intro m g'
      simp
      by_cases hm : m = n <;> by_cases hgg : g' = g <;> simp [hm, hgg, (h.nodup g).mem_erase_iff]
      · intro hmem
        have := (h.mem n g').2 hmem
        rw [hg] at this
        exact hgg (Option.some.inj this).symm
      · exact h.mem m g
      · exact h.mem m g'
    · intro g'
      simp
      split
      · subst_vars; exact (h.nodup _).erase n
      · exact h.nodup g'
  · exact I_node_bump h

/-! ### frames of `nodeLink` / `nodeUnlink` -/

theorem nodeLink_val (w : World) (g : Nat) (a : Option Nat) (n v : Nat) : (nodeLink w g a n).val v = w.val v := by
  unfold nodeLink; split <;> rfl
theorem nodeUnlink_val (w : World) (g n v : Nat) : (nodeUnlink w g n).val v = w.val v := by
  unfold nodeUnlink; split <;> rfl

theorem nodeLink_I_use (w : World) (g : Nat) (a : Option Nat) (n : Nat) (h : I_use w) : I_use (nodeLink w g a n) := by
  apply I_use_congr _ _ h
  · intro v; rw [nodeLink_val]
  · intro m; unfold nodeLink; split <;> simp; split <;> simp_all
theorem nodeLink_I_prod (w : World) (g : Nat) (a : Option Nat) (n : Nat) (h : I_prod w) :
    I_prod (nodeLink w g a n) := by
  apply I_prod_congr _ _ h
  · intro v; rw [nodeLink_val]; exact ⟨rfl, rfl⟩
  · intro m; unfold nodeLink; split <;> simp; split <;> simp_all
theorem nodeLink_I_root (w : World) (g : Nat) (a : Option Nat) (n : Nat) (h : I_root w) :
    I_root (nodeLink w g a n) := by
  apply I_root_congr _ h; intro v; rw [nodeLink_val]; exact ⟨rfl, rfl, rfl⟩
theorem nodeLink_I_own (w : World) (g : Nat) (a : Option Nat) (n : Nat) (h : I_own w) :
    I_own (nodeLink w g a n) := by
  apply I_own_congr _ _ h
  · intro v; rw [nodeLink_val]; exact ⟨rfl, rfl, rfl, rfl⟩
  · intro g'; unfold nodeLink; split <;> simp; split <;> simp_all
theorem nodeLink_I_key (w : World) (g : Nat) (a : Option Nat) (n : Nat) (h : I_key w) :
    I_key (nodeLink w g a n) := by
  apply I_key_congr _ _ h
  · intro v; rw [nodeLink_val]
  · intro g'; unfold nodeLink; split <;> simp; split <;> simp_all

theorem nodeUnlink_I_use (w : World) (g n : Nat) (h : I_use w) : I_use (nodeUnlink w g n) := by
  apply I_use_congr _ _ h
  · intro v; rw [nodeUnlink_val]
  · intro m; unfold nodeUnlink; split <;> simp; split <;> simp_all
theorem nodeUnlink_I_prod (w : World) (g n : Nat) (h : I_prod w) : I_prod (nodeUnlink w g n) := by
  apply I_prod_congr _ _ h
  · intro v; rw [nodeUnlink_val]; exact ⟨rfl, rfl⟩
  · intro m; unfold nodeUnlink; split <;> simp; split <;> simp_all
theorem nodeUnlink_I_root (w : World) (g n : Nat) (h : I_root w) : I_root (nodeUnlink w g n) := by
  apply I_root_congr _ h; intro v; rw [nodeUnlink_val]; exact ⟨rfl, rfl, rfl⟩
theorem nodeUnlink_I_own (w : World) (g n : Nat) (h : I_own w) : I_own (nodeUnlink w g n) := by
  apply I_own_congr _ _ h
  · intro v; rw [nodeUnlink_val]; exact ⟨rfl, rfl, rfl, rfl⟩
  · intro g'; unfold nodeUnlink; split <;> simp; split <;> simp_all
theorem nodeUnlink_I_key (w : World) (g n : Nat) (h : I_key w) : I_key (nodeUnlink w g n) := by
  apply I_key_congr _ _ h
  · intro v; rw [nodeUnlink_val]
  · intro g'; unfold nodeUnlink; split <;> simp; split <;> simp_all

end IrVerif.Kernel

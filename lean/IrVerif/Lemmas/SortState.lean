/-
C12 — the stateful model (`Model/SortState.lean`): reading the tree off a world (`unfoldG`), the
container writes of step 5 (`applyWrites`) on C11's pointer-level containers, and the abstraction
of a world.
-/
import IrVerif.Lemmas.SortLinked
import IrVerif.Lemmas.SortEffect
import IrVerif.Model.SortState
import Mathlib.Data.List.Forall2

namespace IrVerif.Sort
open List
open IrVerif.LinkedSet (LSet RWorld WorldWF)

/-! ### `mapO` -/

theorem mapO_some {α β : Type} {f : α → Option β} :
    ∀ {l : List α} {r : List β}, mapO f l = some r → List.Forall₂ (fun a b => f a = some b) l r := by
  intro l
  induction l with
  | nil => intro r h; simp [mapO] at h; subst h; exact List.Forall₂.nil
  | cons a as ih =>
    intro r h
    simp only [mapO] at h
    cases hfa : f a with
    | none => simp [hfa] at h
    | some b =>
      simp only [hfa] at h
      cases hr : mapO f as with
      | none => simp [hr] at h
      | some bs =>
        simp only [hr, Option.some.injEq] at h
        subst h
        exact List.Forall₂.cons hfa (ih hr)

theorem mapO_congr {α β : Type} {f g : α → Option β} {l : List α} (h : ∀ a ∈ l, f a = g a) :
    mapO f l = mapO g l := by
  induction l with
  | nil => rfl
  | cons a as ih =>
    simp only [mapO]
    rw [h a (by simp), ih (fun x hx => h x (List.mem_cons_of_mem _ hx))]

theorem mapO_none_of_mem {α β : Type} {f : α → Option β} {l : List α} {a : α} (ha : a ∈ l)
    (hf : f a = none) : mapO f l = none := by
  induction l with
  | nil => simp at ha
  | cons x xs ih =>
    simp only [mapO]
    rcases List.mem_cons.1 ha with rfl | h
    · simp [hf]
    · cases f x with
      | none => rfl
      | some b => simp [ih h]

/-! ### `firsts` -/

theorem mem_firsts {l : List Nat} {x : Nat} : x ∈ firsts l ↔ x ∈ l := by
  induction l with
  | nil => simp [firsts]
  | cons a as ih =>
    simp only [firsts, List.mem_cons, List.mem_filter, bne_iff_ne, ne_eq, ih]
    constructor
    · rintro (h | ⟨h, _⟩)
      · exact Or.inl h
      · exact Or.inr h
    · rintro (h | h)
      · exact Or.inl h
      · by_cases hx : x = a
        · exact Or.inl hx
        · exact Or.inr ⟨h, hx⟩

theorem firsts_nodup (l : List Nat) : (firsts l).Nodup := by
  induction l with
  | nil => simp [firsts]
  | cons a as ih =>
    simp only [firsts, List.nodup_cons, List.mem_filter, bne_iff_ne, ne_eq, not_and, not_not]
    exact ⟨fun _ => trivial |> fun _ => by simp, ih.filter _⟩

/-! ### reading the tree off the world -/

theorem unfold_succ {w : SWorld} {k g : Nat} {t : MGraph} (h : unfoldG w (k + 1) g = some t) :
    t.1 = g ∧ List.Forall₂ (fun v n => n.id = v ∧ n.inputs = w.inputsOf v ∧
      List.Forall₂ (fun h sg => unfoldG w k h = some sg) (w.subsOf v) n.subs) (w.order g) t.2 := by
  simp only [unfoldG, Option.map_eq_some_iff] at h
  obtain ⟨ns, hns, rfl⟩ := h
  refine ⟨rfl, ?_⟩
  refine (mapO_some hns).imp ?_
  intro v n hn
  simp only [Option.map_eq_some_iff] at hn
  obtain ⟨subs, hsubs, rfl⟩ := hn
  exact ⟨rfl, rfl, mapO_some hsubs⟩

theorem forall₂_ids {w : SWorld} {k : Nat} {vs : List Nat} {ns : List MNode}
    (h : List.Forall₂ (fun v n => n.id = v ∧ n.inputs = w.inputsOf v ∧
      List.Forall₂ (fun h sg => unfoldG w k h = some sg) (w.subsOf v) n.subs) vs ns) :
    ns.map MNode.id = vs := by
  induction h with
  | nil => rfl
  | cons h1 _ ih => simp [h1.1, ih]

theorem forall₂_mem_right {α β : Type} {R : α → β → Prop} {l1 : List α} {l2 : List β}
    (h : List.Forall₂ R l1 l2) {b : β} (hb : b ∈ l2) : ∃ a ∈ l1, R a b := by
  induction h with
  | nil => simp at hb
  | cons h1 _ ih =>
    rcases List.mem_cons.1 hb with rfl | hb
    · exact ⟨_, by simp, h1⟩
    · obtain ⟨a, ha, hr⟩ := ih hb
      exact ⟨a, List.mem_cons_of_mem _ ha, hr⟩

theorem forall₂_mem_left {α β : Type} {R : α → β → Prop} {l1 : List α} {l2 : List β}
    (h : List.Forall₂ R l1 l2) {a : α} (ha : a ∈ l1) : ∃ b ∈ l2, R a b := by
  induction h with
  | nil => simp at ha
  | cons h1 _ ih =>
    rcases List.mem_cons.1 ha with rfl | ha
    · exact ⟨_, by simp, h1⟩
    · obtain ⟨b, hb, hr⟩ := ih ha
      exact ⟨b, List.mem_cons_of_mem _ hb, hr⟩

/-- every graph of the tree read off the world has, as node sequence, what its container holds -/
theorem unfold_orders {w : SWorld} : ∀ {k g : Nat} {t : MGraph}, unfoldG w k g = some t →
    ∀ h ∈ allGraphs t, h.2.map MNode.id = w.order h.1 := by
  intro k
  induction k with
  | zero => intro g t h; simp [unfoldG] at h
  | succ k ih =>
    intro g t hu h hh
    obtain ⟨hg, hall⟩ := unfold_succ hu
    rcases mem_allGraphs.1 hh with rfl | ⟨m, hm, hin⟩
    · rw [hg]; exact forall₂_ids hall
    · obtain ⟨v, _, _, _, hsubs⟩ := forall₂_mem_right hall hm
      obtain ⟨sg, hsg, hcase⟩ := mem_subgraphsN.1 hin
      obtain ⟨h', _, hu'⟩ := forall₂_mem_right hsubs hsg
      exact ih hu' h (mem_allGraphs.2 hcase)

/-- the tree read off a world depends only on the node sequences, the attribute graphs and the
    input producers -/
theorem unfold_congr {w1 w2 : SWorld} (ho : ∀ g, w1.order g = w2.order g)
    (hs : ∀ v, w1.subsOf v = w2.subsOf v) (hi : ∀ v, w1.inputsOf v = w2.inputsOf v) :
    ∀ k g, unfoldG w1 k g = unfoldG w2 k g := by
  intro k
  induction k with
  | zero => intro g; rfl
  | succ k ih =>
    intro g
    simp only [unfoldG, ho g]
    congr 1
    apply mapO_congr
    intro v _
    rw [hs v, hi v]
    congr 1
    apply mapO_congr
    intro h _
    exact ih h

/-! ### a graph nested in itself -/

/-- `h` is the value of a graph attribute of a node of `g` -/
def Nests (w : SWorld) (g h : Nat) : Prop := ∃ v ∈ w.order g, h ∈ w.subsOf v

theorem unfold_none_of_descent {w : SWorld} (S : Nat → Prop)
    (hS : ∀ g, S g → ∃ h, Nests w g h ∧ S h) : ∀ k g, S g → unfoldG w k g = none := by
  intro k
  induction k with
  | zero => intro g _; rfl
  | succ k ih =>
    intro g hg
    obtain ⟨h, ⟨v, hv, hh⟩, hsh⟩ := hS g hg
    simp only [unfoldG]
    rw [mapO_none_of_mem hv]
    · rfl
    · rw [mapO_none_of_mem hh (ih h hsh)]; rfl

/-- a graph from which a graph nested in itself can be reached cannot be read off with any depth
    bound -/
theorem unfold_none_of_self_nested {w : SWorld} {g : Nat}
    (h : ∃ c, Relation.ReflTransGen (Nests w) g c ∧ Relation.TransGen (Nests w) c c) :
    ∀ k, unfoldG w k g = none := by
  intro k
  apply unfold_none_of_descent
    (fun g => ∃ c, Relation.ReflTransGen (Nests w) g c ∧ Relation.TransGen (Nests w) c c) _ k g h
  rintro g ⟨c, hgc, hcc⟩
  rcases Relation.ReflTransGen.cases_head hgc with rfl | ⟨g', hstep, hrest⟩
  · obtain ⟨c', hstep, hrest⟩ := Relation.TransGen.head'_iff.1 hcc
    exact ⟨c', hstep, g, hrest, hcc⟩
  · exact ⟨g', hstep, c, hrest, hcc⟩

/-! ### the container writes of step 5 -/

theorem applyWrites_inputs (w : SWorld) (ws : List (Nat × List Nat)) :
    (applyWrites w ws).inputs = w.inputs ∧ (applyWrites w ws).rw.attrs = w.rw.attrs ∧
    (applyWrites w ws).rw.sets.length = w.rw.sets.length ∧ (applyWrites w ws).rw.recf = w.rw.recf := by
  induction ws generalizing w with
  | nil => exact ⟨rfl, rfl, rfl, rfl⟩
  | cons p ps ih =>
    obtain ⟨h1, h2, h3, h4⟩ := ih (applyWrite w p)
    simp only [applyWrites, List.foldl_cons] at *
    refine ⟨h1, h2, ?_, h4⟩
    rw [h3]; simp [applyWrite, RWorld.applyAt]

theorem worldWF_applyWrite {w : SWorld} (hw : WorldWF w.rw) (p : Nat × List Nat) :
    WorldWF (applyWrite w p).rw := by
  intro s hs
  simp only [applyWrite, RWorld.applyAt] at hs
  rcases List.mem_or_eq_of_mem_set hs with h | h
  · exact hw s h
  · rw [h]; exact LinkedSet.C11_rep_step (hw.setOf p.1) _

theorem worldWF_applyWrites {w : SWorld} (hw : WorldWF w.rw) (ws : List (Nat × List Nat)) :
    WorldWF (applyWrites w ws).rw := by
  induction ws generalizing w with
  | nil => exact hw
  | cons p ps ih => exact ih (worldWF_applyWrite hw p)

theorem setOf_applyWrite_other (w : SWorld) (p : Nat × List Nat) (k : Nat) (hk : k ≠ p.1) :
    (applyWrite w p).rw.setOf k = w.rw.setOf k :=
  LinkedSet.setOf_applyAt_other w.rw p.1 k _ hk

theorem setOf_applyWrite_oob (w : SWorld) (p : Nat × List Nat) (hk : w.rw.sets.length ≤ p.1) :
    (applyWrite w p).rw = w.rw := by
  simp only [applyWrite, RWorld.applyAt]
  rw [List.set_eq_of_length_le hk]

/-- writes with distinct targets: a container not addressed is untouched, a container addressed by
    `(k, xs)` has received exactly `extend(xs)` -/
theorem applyWrites_setOf (w : SWorld) (ws : List (Nat × List Nat)) (hnd : (ws.map Prod.fst).Nodup) :
    (∀ k, k ∉ ws.map Prod.fst → (applyWrites w ws).rw.setOf k = w.rw.setOf k) ∧
    (∀ k xs, (k, xs) ∈ ws → k < w.rw.sets.length →
      (applyWrites w ws).rw.setOf k = (LinkedSet.apply (w.rw.setOf k) (.extend xs)).1) := by
  induction ws generalizing w with
  | nil => exact ⟨fun _ _ => rfl, fun _ _ h => by simp at h⟩
  | cons p ps ih =>
    simp only [List.map_cons, List.nodup_cons] at hnd
    obtain ⟨ih1, ih2⟩ := ih (applyWrite w p) hnd.2
    simp only [applyWrites, List.foldl_cons] at *
    constructor
    · intro k hk
      simp only [List.map_cons, List.mem_cons, not_or] at hk
      rw [ih1 k hk.2, setOf_applyWrite_other w p k hk.1]
    · intro k xs hmem hlt
      rcases List.mem_cons.1 hmem with h | h
      · subst h
        rw [ih1 _ hnd.1]
        exact LinkedSet.setOf_applyAt_same w.rw _ _ hlt
      · have hne : k ≠ p.1 := by
          intro hc; subst hc
          exact hnd.1 (List.mem_map.2 ⟨(p.1, xs), h, rfl⟩)
        have hlen : (applyWrite w p).rw.sets.length = w.rw.sets.length := by
          simp [applyWrite, RWorld.applyAt]
        rw [ih2 k xs h (by rw [hlen]; exact hlt), setOf_applyWrite_other w p k hne]

/-- `extend(xs)` on a well-formed container: the sequence afterwards is `relink` of the sequence
    before (the list-level part of `C12_relink_refines`) -/
theorem C12_relink_refines_aux {s : LSet} (h : LinkedSet.WF s) (xs : List Nat) :
    LinkedSet.toList (LinkedSet.apply s (.extend xs)).1 = relink (LinkedSet.toList s) xs := by
  have hnd := linked_toList_nodup h
  obtain ⟨h1, _⟩ := LinkedSet.C11_rep_toList h (.extend xs)
  rw [h1]
  exact spec_extend_L ⟨LinkedSet.toList s, .fwd, .done⟩ hnd xs

/-! ### the abstraction of a world -/

theorem toList_empty : LinkedSet.toList LinkedSet.empty = [] := LinkedSet.C11_rep_empty.2

theorem order_eq_abs (w : SWorld) (g : Nat) :
    w.order g = (w.rw.sets.map LinkedSet.toList).getD g [] := by
  simp only [SWorld.order, RWorld.setOf, List.getD, List.getElem?_map]
  cases w.rw.sets[g]? with
  | none => simp [toList_empty]
  | some s => rfl

/-- one write, on sequences -/
def absWrite (A : List (List Nat)) (p : Nat × List Nat) : List (List Nat) :=
  A.set p.1 (relink (A.getD p.1 []) p.2)

theorem abs_applyWrite {w : SWorld} (hw : WorldWF w.rw) (p : Nat × List Nat) :
    (applyWrite w p).rw.sets.map LinkedSet.toList = absWrite (w.rw.sets.map LinkedSet.toList) p := by
  simp only [applyWrite, RWorld.applyAt, absWrite, List.map_set]
  congr 1
  rw [← order_eq_abs]
  exact (C12_relink_refines_aux (hw.setOf p.1) p.2)

theorem abs_applyWrites {w : SWorld} (hw : WorldWF w.rw) (ws : List (Nat × List Nat)) :
    (applyWrites w ws).rw.sets.map LinkedSet.toList =
      ws.foldl absWrite (w.rw.sets.map LinkedSet.toList) := by
  induction ws generalizing w with
  | nil => rfl
  | cons p ps ih =>
    simp only [applyWrites, List.foldl_cons] at *
    rw [ih (worldWF_applyWrite hw p), abs_applyWrite hw p]

end IrVerif.Sort

/-
Bridges from the phases of the core deserializer to the phases of the extended one, and the graph-level facts about
the annotation table of a serialized graph, for `Lemmas/ScopeExtRT.lean`.
-/
import IrVerif.Lemmas.ScopeExtRTAux
namespace IrVerif.Scope

/-! ### bridges -/

theorem inputsE_bridge (qt : List (Name × SS)) (is : List VInfoE) (st : Store) (x : Ext) (s1 : Store) (ids : List Nat)
    (h : deserInputs st (is.map VInfoE.erase) = (s1, ids)) (hf : ExtFresh st x) :
    ∃ x1, deserInputsE st x qt is = (s1, x1, ids) ∧
      (∀ d, d < st.nv → x1.vmeta d = x.vmeta d ∧ x1.quant d = x.quant d) ∧
      (∀ i (hi : i < is.length), x1.vmeta (st.nv + i) = ssUpdate [] is[i].mprops ∧
        x1.quant (st.nv + i) = quantOf qt is[i].name) ∧
      ExtFresh s1 x1 := by
  obtain ⟨a, b⟩ := deserInputsE_erase qt is st x
  obtain ⟨_, c, d, e⟩ := deserInputsE_ext qt is st x hf
  rw [h] at a b
  simp only at a b
  refine ⟨(deserInputsE st x qt is).2.1, ?_, c, d, by rw [← a]; exact e⟩
  have : deserInputsE st x qt is = ((deserInputsE st x qt is).1, (deserInputsE st x qt is).2.1,
    (deserInputsE st x qt is).2.2) := rfl
  rw [this, a, b]

theorem initsE_bridge (vt : List (Name × Info × SS)) (qt : List (Name × SS)) (ts : List TensorP) (st : Store) (x : Ext)
    (tbl : Table) (s2 : Store) (t2 : Table) (iv : List Nat)
    (h : deserInits st tbl (eraseVT vt) ts = (s2, t2, iv)) (hf : ExtFresh st x) :
    ∃ x2, deserInitsE st x tbl vt qt ts = (s2, x2, t2, iv) ∧ NStep st s2 x x2 vt qt := by
  obtain ⟨a, b, c⟩ := deserInitsE_erase vt qt ts st x tbl
  have n := deserInitsE_nstep vt qt ts st x tbl hf
  rw [h] at a b c
  simp only at a b c
  refine ⟨(deserInitsE st x tbl vt qt ts).2.1, ?_, by rw [← a]; exact n⟩
  have : deserInitsE st x tbl vt qt ts = ((deserInitsE st x tbl vt qt ts).1, (deserInitsE st x tbl vt qt ts).2.1,
    (deserInitsE st x tbl vt qt ts).2.2.1, (deserInitsE st x tbl vt qt ts).2.2.2) := rfl
  rw [this, a, b, c]

theorem declE_bridge (vt : List (Name × Info × SS)) (qt : List (Name × SS)) (ns : List NodeE) (st : Store) (x : Ext)
    (tbl : Table) (s3 : Store) (t3 : Table)
    (h : declareNodes st tbl (eraseVT vt) (eraseNs ns) = .ok (s3, t3)) (hf : ExtFresh st x) :
    ∃ x3, declareNodesE st x tbl vt qt ns = .ok (s3, x3, t3) ∧ NStep st s3 x x3 vt qt := by
  obtain ⟨x3, h3⟩ := declareNodesE_of_core vt qt ns st x tbl s3 t3 h
  exact ⟨x3, h3, declareNodesE_nstep vt qt ns st x tbl s3 x3 t3 hf h3⟩

theorem resolveE_bridge (outer : List Table) (vt : List (Name × Info × SS)) (qt : List (Name × SS)) (ns : List Name)
    (st : Store) (x : Ext) (top : Table) (s1 : Store) (t1 : Table) (l1 : List (Option Nat))
    (h : resolveInputs st top outer (eraseVT vt) ns = (s1, t1, l1)) (hf : ExtFresh st x) :
    ∃ x1, resolveInputsE st x top outer vt qt ns = (s1, x1, t1, l1) ∧ NStep st s1 x x1 vt qt := by
  obtain ⟨a, b, c⟩ := resolveInputsE_erase outer vt qt ns st x top
  have n := resolveInputsE_nstep outer vt qt ns st x top hf
  rw [h] at a b c
  simp only at a b c
  refine ⟨(resolveInputsE st x top outer vt qt ns).2.1, ?_, by rw [← a]; exact n⟩
  have : resolveInputsE st x top outer vt qt ns = ((resolveInputsE st x top outer vt qt ns).1,
    (resolveInputsE st x top outer vt qt ns).2.1, (resolveInputsE st x top outer vt qt ns).2.2.1,
    (resolveInputsE st x top outer vt qt ns).2.2.2) := rfl
  rw [this, a, b, c]

theorem outsE_bridge (tbl : Table) (os : List VInfoE) (st : Store) (x : Ext) (s5 : Store) (outs : List Nat)
    (h : deserOutputs st tbl (os.map VInfoE.erase) = (s5, outs)) :
    deserOutputsE st x tbl os = (s5, (deserOutputsE st x tbl os).2.1, outs) := by
  obtain ⟨a, b⟩ := deserOutputsE_erase tbl os st x
  rw [h] at a b
  simp only at a b
  have : deserOutputsE st x tbl os = ((deserOutputsE st x tbl os).1, (deserOutputsE st x tbl os).2.1,
    (deserOutputsE st x tbl os).2.2) := rfl
  rw [this, a, b]

/-! ### certificate facts -/

theorem replOuts_split (V : Nat → ValueS) (T : Table) : ∀ (outs : List Nat), (replOuts V T outs).ok →
    ∀ v ∈ outs, T.lookup (nm V v) = some v ∨ (T.lookup (nm V v) = none ∧ v ∈ (replOuts V T outs).new) := by
  intro outs
  induction outs with
  | nil => intro _ v hv; simp at hv
  | cons a r ih =>
    intro hok v hv
    simp only [replOuts] at hok ⊢
    simp only [List.mem_cons] at hv
    cases hl : T.lookup (nm V a) with
    | some u =>
      simp only [hl] at hok ⊢
      rcases hv with rfl | hv
      · left; rw [hl, hok.2.1]
      · exact ih hok.2.2 v hv
    | none =>
      simp only [hl] at hok ⊢
      rcases hv with rfl | hv
      · exact .inr ⟨hl, by simp⟩
      · rcases ih hok.2 v hv with h | ⟨h1, h2⟩
        · exact .inl h
        · exact .inr ⟨h1, by simp [h2]⟩

mutual
theorem replNs_tbl_mem (V : Nat → ValueS) (outer : List Table) : ∀ (ns : List NodeT) (T : Table),
    ∀ e ∈ (replNs V outer T ns).tbl, e ∈ T ∨ e.2 ∈ (replNs V outer T ns).new
  | [], T, e, he => .inl (by simpa [replNs] using he)
  | n :: ns, T, e, he => by
    simp only [replNs] at he ⊢
    rcases replNs_tbl_mem V outer ns _ e he with h | h
    · rcases replN_tbl_mem V outer n T e h with h' | h'
      · exact .inl h'
      · exact .inr (by simp [h'])
    · exact .inr (by simp [h])
theorem replN_tbl_mem (V : Nat → ValueS) (outer : List Table) : ∀ (n : NodeT) (T : Table),
    ∀ e ∈ (replN V outer T n).tbl, e ∈ T ∨ e.2 ∈ (replN V outer T n).new
  | .mk _ _ ins _ _, T, e, he => by
    simp only [replN] at he ⊢
    rcases replRes_tbl_mem V outer ins T e he with h | ⟨h, _⟩
    · exact .inl h
    · exact .inr (by simp [h])
end

theorem extNs_quiet (V : Nat → ValueS) (x : Ext) (outer : List Table) : ∀ (ns : List NodeT) (T : Table),
    extNs V x outer T ns → ∀ n ∈ ns, ∀ v ∈ n.outputs, nameTruthy (V v).name = false → x.quant v = none
  | [], _, _, n, hn => by simp at hn
  | m :: ns, T, h, n, hn => by
    simp only [extNs] at h
    simp only [List.mem_cons] at hn
    rcases hn with rfl | hn
    · obtain ⟨i, g, a, b, c⟩ := n
      simp only [extN] at h
      exact h.1.1
    · exact extNs_quiet V x outer ns _ h.2 n hn

/-! ### the annotation table of a serialized graph -/

theorem normQ_of_quantOf {ps : SS} (hne : ps ≠ []) :
    (if (ssSorted ps).isEmpty then none else some (ssOfEntries (ssSorted ps))) = normQ (some ps) := by
  have h0 := ssSorted_ne_nil ps hne
  cases h : ssSorted ps with
  | nil => exact absurd h h0
  | cons a r => simp [normQ, h]

theorem quantOf_roles (V : Nat → ValueS) (x : Ext) (td : TData) (ver : Option Int) (hwf : ExtWF x)
    (ins : List Nat) (inits : List (Name × Nat)) (nodes : List NodeT) (outs : List Nat)
    (qIn : List QuantP) (seen1 : List Nat) (qInit : List QuantP) (seen2 : List Nat) (nps : List NodeE)
    (qNodes : List QuantP) (vis2 : List VInfoE) (ws2 : Writes) (qOut : List QuantP) (seen3 : List Nat)
    (hq1 : quantInputsE V x (inits.map (·.1)) ins [] = .ok (qIn, seen1))
    (hq2 : quantOnceE V x (inits.map (·.2)) seen1 = .ok (qInit, seen2))
    (hn : serNodesE V x td ver true outs nodes = .ok (nps, qNodes, vis2, ws2))
    (hq3 : quantOnceE V x outs seen2 = .ok (qOut, seen3))
    (hQC : ∀ a ∈ qcRoles V ins inits nodes outs, ∀ b ∈ qcRoles V ins inits nodes outs,
      (V a).name = (V b).name → x.quant a = x.quant b)
    (hquiet : ∀ n ∈ nodes, ∀ v ∈ n.outputs, nameTruthy (V v).name = false → x.quant v = none)
    (hnames : ∀ v ∈ qcRoles V ins inits nodes outs, (V v).name ≠ none)
    (hinit : ∀ kv ∈ inits, (V kv.2).name = some kv.1) :
    ∀ v ∈ qcRoles V ins inits nodes outs,
      quantOf (quantTable (qIn ++ qInit ++ qNodes ++ qOut)) (nm V v) = normQ (x.quant v) := by
  obtain ⟨a1, b1, c1⟩ := quantInputsE_mem V x _ _ _ _ _ hq1
  obtain ⟨a2, b2, c2⟩ := quantOnceE_mem V x _ _ _ _ hq2
  obtain ⟨a3, b3⟩ := xserNodes_qmem V x td ver outs nodes nps qNodes vis2 ws2 hn
  obtain ⟨a4, b4, c4⟩ := quantOnceE_mem V x _ _ _ _ hq3
  -- a node output with an entry is a role
  have hnodeRole : ∀ n ∈ nodes, ∀ u ∈ n.outputs, x.quant u ≠ none → u ∈ qcRoles V ins inits nodes outs := by
    intro n hn' u hu hq
    have ht : nameTruthy (V u).name = true := by
      cases h : nameTruthy (V u).name with
      | true => rfl
      | false => exact absurd (hquiet n hn' u hu h) hq
    simp only [qcRoles, List.mem_append, List.mem_filter, List.mem_flatMap]
    refine .inl (.inr ⟨⟨n, hn', ?_⟩, ht⟩)
    obtain ⟨i, g, a, b, c⟩ := n
    exact truthy_mem_stripTrailing V u b hu ht
  -- soundness: every entry is the entry of a role
  have hsound : ∀ e ∈ qIn ++ qInit ++ qNodes ++ qOut, ∃ u ∈ qcRoles V ins inits nodes outs, QEnt V x u e := by
    intro e he
    simp only [List.mem_append] at he
    rcases he with ((he | he) | he) | he
    · obtain ⟨u, hu, h⟩ := a1 e he
      exact ⟨u, by simp [qcRoles, hu], h⟩
    · obtain ⟨u, hu, h⟩ := a2 e he
      exact ⟨u, by simp only [qcRoles, List.mem_append]; exact .inl (.inl (.inr hu)), h⟩
    · obtain ⟨n, hn', u, hu, h⟩ := a3 e he
      obtain ⟨ps, hp, _⟩ := h
      exact ⟨u, hnodeRole n hn' u hu (by rw [hp]; simp), ⟨ps, hp, by assumption⟩⟩
    · obtain ⟨u, hu, h⟩ := a4 e he
      exact ⟨u, by simp [qcRoles, hu], h⟩
  -- completeness: an annotated role has an entry under its name
  have hcomplete : ∀ v ∈ qcRoles V ins inits nodes outs, ∀ ps, x.quant v = some ps →
      ∃ e ∈ qIn ++ qInit ++ qNodes ++ qOut, e.name = nm V v := by
    intro v hv ps hps
    obtain ⟨n, hnv⟩ : ∃ n, (V v).name = some n := by
      cases h : (V v).name with
      | none => exact absurd h (hnames v hv)
      | some n => exact ⟨n, rfl⟩
    have hne : ps.isEmpty = false := by
      have := ((hwf v).2 ps hps).2
      cases ps with
      | nil => exact absurd rfl this
      | cons _ _ => rfl
    have hent : QEnt V x v ⟨n, ssSorted ps⟩ := ⟨ps, hps, hne, hnv, rfl⟩
    have hnm : nm V v = n := nm_of_name hnv
    -- the entry of a value of `seen1` is in `qIn`
    have hseen1 : ∀ u, u ∈ seen1 → ∀ e, QEnt V x u e → e ∈ qIn := by
      intro u hu e he
      rcases (c1 u).mp hu with h | ⟨h1, h2⟩
      · simp at h
      · rcases b1 u h1 with h | h | h
        · rw [h2] at h; cases h
        · simp at h
        · exact h e he
    have hseen2 : ∀ u, u ∈ seen2 → ∀ e, QEnt V x u e → e ∈ qIn ++ qInit := by
      intro u hu e he
      rcases (c2 u).mp hu with h | h
      · exact List.mem_append.mpr (.inl (hseen1 u h e he))
      · rcases b2 u h with h' | h'
        · exact List.mem_append.mpr (.inl (hseen1 u h' e he))
        · exact List.mem_append.mpr (.inr (h' e he))
    have hinitv : ∀ u ∈ inits.map (·.2), ∀ e, QEnt V x u e → e ∈ qIn ++ qInit := by
      intro u hu e he
      rcases b2 u hu with h' | h'
      · exact List.mem_append.mpr (.inl (hseen1 u h' e he))
      · exact List.mem_append.mpr (.inr (h' e he))
    have houtv : ∀ u ∈ outs, ∀ e, QEnt V x u e → e ∈ qIn ++ qInit ++ qNodes ++ qOut := by
      intro u hu e he
      rcases b4 u hu with h' | h'
      · have := hseen2 u h' e he
        simp only [List.mem_append] at this ⊢
        rcases this with h | h
        · exact .inl (.inl (.inl h))
        · exact .inl (.inl (.inr h))
      · exact List.mem_append.mpr (.inr (h' e he))
    have hv' := hv
    simp only [qcRoles, List.mem_append, List.mem_filter, List.mem_flatMap] at hv'
    rcases hv' with ((hvi | hvi) | hvi) | hvi
    · -- a graph input
      by_cases hsk : skipIn V (inits.map (·.1)) v = true
      · -- its name is an initializer key: the initializer value carries the same annotation
        simp only [skipIn, hnv, List.contains_eq_mem, decide_eq_true_eq, List.mem_map] at hsk
        obtain ⟨kv, hkv, hk⟩ := hsk
        have hname : (V kv.2).name = (V v).name := by rw [hinit kv hkv, hnv, hk]
        have hrole : kv.2 ∈ qcRoles V ins inits nodes outs := by
          simp only [qcRoles, List.mem_append, List.mem_map]
          exact .inl (.inl (.inr ⟨kv, hkv, rfl⟩))
        have hq := hQC kv.2 hrole v hv hname
        have hent' : QEnt V x kv.2 ⟨n, ssSorted ps⟩ := ⟨ps, by rw [hq, hps], hne, by rw [hname, hnv], rfl⟩
        have := hinitv kv.2 (List.mem_map_of_mem hkv) _ hent'
        refine ⟨⟨n, ssSorted ps⟩, ?_, hnm.symm⟩
        simp only [List.mem_append] at this ⊢
        rcases this with h | h
        · exact .inl (.inl (.inl h))
        · exact .inl (.inl (.inr h))
      · rcases b1 v hvi with h | h | h
        · exact absurd h hsk
        · simp at h
        · exact ⟨⟨n, ssSorted ps⟩, by
            simp only [List.mem_append]; exact .inl (.inl (.inl (h _ hent))), hnm.symm⟩
    · have := hinitv v hvi _ hent
      refine ⟨⟨n, ssSorted ps⟩, ?_, hnm.symm⟩
      simp only [List.mem_append] at this ⊢
      rcases this with h | h
      · exact .inl (.inl (.inl h))
      · exact .inl (.inl (.inr h))
    · obtain ⟨⟨m, hm, hvm⟩, _⟩ := hvi
      by_cases hvo : v ∈ outs
      · exact ⟨⟨n, ssSorted ps⟩, houtv v hvo _ hent, hnm.symm⟩
      · obtain ⟨i, g, a, b, c⟩ := m
        have := b3 _ hm v (stripTrailing_sub V b v hvm) hvo _ hent
        exact ⟨⟨n, ssSorted ps⟩, by
          simp only [List.mem_append]; exact .inl (.inr this), hnm.symm⟩
    · exact ⟨⟨n, ssSorted ps⟩, houtv v hvi _ hent, hnm.symm⟩
  -- the lookup
  intro v hv
  obtain ⟨n, hnv⟩ : ∃ n, (V v).name = some n := by
    cases h : (V v).name with
    | none => exact absurd h (hnames v hv)
    | some n => exact ⟨n, rfl⟩
  have hnm : nm V v = n := nm_of_name hnv
  have hall : ∀ e ∈ qIn ++ qInit ++ qNodes ++ qOut, e.name = nm V v →
      ∃ ps, x.quant v = some ps ∧ e.params = ssSorted ps := by
    intro e he hen
    obtain ⟨u, hu, ps, hp, _, hun, hpar⟩ := hsound e he
    have : (V u).name = (V v).name := by rw [hun, hen, hnm, hnv]
    exact ⟨ps, by rw [← hQC u hu v hv this]; exact hp, hpar⟩
  cases hq : x.quant v with
  | none =>
    have hnone : (quantTable (qIn ++ qInit ++ qNodes ++ qOut)).lookup (nm V v) = none :=
      quantTable_lookup_none _ _ (fun e he hen => by
        obtain ⟨ps, hp, _⟩ := hall e he hen
        rw [hq] at hp; cases hp)
    simp only [quantOf, hnone]
    rfl
  | some ps =>
    have hne : ps ≠ [] := ((hwf v).2 ps hq).2
    have hsome : (quantTable (qIn ++ qInit ++ qNodes ++ qOut)).lookup (nm V v) = some (ssSorted ps) :=
      quantTable_lookup_some _ _ _ (fun e he hen => by
        obtain ⟨ps', hp, hpar⟩ := hall e he hen
        rw [hq] at hp
        simp only [Option.some.injEq] at hp
        rw [hpar, hp]) (hcomplete v hv ps hq)
    simp only [quantOf, hsome]
    exact normQ_of_quantOf hne

end IrVerif.Scope

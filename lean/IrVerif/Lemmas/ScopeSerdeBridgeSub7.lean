import IrVerif.Lemmas.ScopeSerdeBridgeSub6
import IrVerif.Lemmas.ScopeSerdeBridgeOK
/-!
The C02 bridge WITH nested graphs, part 7: every IR graph C02 deserializes from a proto of the fragment
`sharedSFull` (C02's `wfGraph`, no value-level metadata_props and canonical initializer tensors in the graph and in
every nested graph) satisfies `GOKFull` (`C03_bridge_gok_full`), hence the two models are one serde on the fragment
(`C03_bridge_serde`).
-/
namespace IrVerif.Bridge
open IrVerif.Proto IrVerif.Serde

/-! ## references of a deserialized node are in range -/

theorem resolve_lt {scopes : Scopes} {n : String} {r : Ref} (h : Serde.resolve scopes n = some r) :
    r.idx < (scopes.getD r.up []).length := by
  induction scopes generalizing r with
  | nil => simp [Serde.resolve] at h
  | cons sc rest ih =>
    simp only [Serde.resolve] at h
    split at h
    · rename_i i hi
      cases h
      simpa using lookupLast_lt hi
    · cases hr : Serde.resolve rest n with
      | none => rw [hr] at h; cases h
      | some r' =>
        rw [hr] at h
        cases h
        have := ih hr
        simpa [List.getD] using this

theorem refOKF_resolve (scopes : Scopes) (lens : List Nat) (hl : lens = scopes.map List.length) (s : String) :
    refOKF lens (if s = "" then none else Serde.resolve scopes s) = true := by
  by_cases he : s = ""
  · simp [he, refOKF]
  · simp only [he, if_false]
    cases hr : Serde.resolve scopes s with
    | none => rfl
    | some r =>
      have := resolve_lt hr
      simp only [refOKF, decide_eq_true_eq]
      rw [hl, getD_map_length]
      exact this

theorem attr_leaf_ok (scN : Scopes) (lens : List Nat) (a : AttrP) (hl : hasGraphAttr a = false) (x : IRAttr)
    (hx : desAttr scN a = .ok x) : okAttr lens x = true := by
  cases a
  case graph => simp [hasGraphAttr] at hl
  case graphs => simp [hasGraphAttr] at hl
  all_goals
    simp only [desAttr, bind, Except.bind] at hx <;>
    (try split at hx) <;> (try split at hx) <;> (try cases hx) <;>
    simp [okAttr]

theorem attr_gok_leaf (scN : Scopes) (lens : List Nat) (a : AttrP) (hl : hasGraphAttr a = false)
    (h : wfAttr scN a = true) :
    ∃ x, desAttr scN a = .ok x ∧ okAttr lens x = true ∧ x.name = a.name := by
  obtain ⟨x, h1, _, h3⟩ := attr_rt scN none a h (Or.inl rfl)
  exact ⟨x, h1, attr_leaf_ok scN lens a hl x h1, h3⟩

/-! ## one node -/

theorem node_gok_core (outer : Scopes) (lens : List Nat) (hl : lens = outer.map List.length)
    (vis : List ValueInfoP) (q : List AnnotP) (tbl : List IRValue)
    (inputs outputs : List String) (name opType domain overload doc : String)
    (attrs : List AttrP) (metadata : List Entry) (devcfgs : List NodeDevCfgP)
    (hw : wfNode (tableNames tbl :: outer)
      (.mk inputs outputs name opType domain overload doc attrs metadata devcfgs) = true)
    (hattrs : wfAttrs (tableNames tbl :: outer) attrs = true →
      ∃ xs, desAttrs (tableNames tbl :: outer) attrs = .ok xs ∧ okAttrs (tbl.length :: lens) xs = true ∧
        xs.map IRAttr.name = attrs.map AttrP.name) :
    ∃ x, desNode outer vis q tbl (.mk inputs outputs name opType domain overload doc attrs metadata devcfgs)
        = .ok (x, tbl) ∧ okNode (tbl.length :: lens) x = true := by
  simp only [wfNode, Bool.and_eq_true, List.headD_cons] at hw
  obtain ⟨⟨⟨⟨⟨hin, hout⟩, hnd⟩, hattrsW⟩, _⟩, _⟩ := hw
  obtain ⟨xs, a1, a2, a6⟩ := hattrs hattrsW
  have hnd' := nodupStr_iff.1 hnd
  have hord : orderByFirst (attrs.map AttrP.name) xs = xs := by
    rw [← a6]; exact orderByFirst_self (by rw [a6]; exact hnd')
  refine ⟨IRNode.mk (normDomain domain) opType overload name doc
      (inputs.map (fun n => if n = "" then none else Serde.resolve (tableNames tbl :: outer) n))
      (outputs.map (fun n => if n = "" then none else lookupLast (tableNames tbl) n))
      xs (dictOfEntries metadata) (devcfgs.map (desNodeDevCfg (tableNames tbl :: outer))), ?_, ?_⟩
  · simp only [desNode, desNodeInputs_wf outer vis q tbl inputs hin, desNodeOutputs_wf _ outputs hout,
      desAttrsLast_eq hnd', a1, bind, Except.bind, hord]
  · simp only [okNode, List.headD_cons, a2, Bool.and_true, Bool.and_eq_true, List.all_map]
    constructor
    · exact List.all_eq_true.2 fun s _ => refOKF_resolve _ _ (by simp [hl, tableNames]) s
    · exact List.all_eq_true.2 fun s _ => outOK_lookup _ _ (by simp [tableNames]) s

/-! ## one graph -/

theorem graph_gok_core (outer : Scopes) (lens : List Nat) (name doc : String) (nodes : List NodeP)
    (inits : List TensorP) (inputs outputs vis : List ValueInfoP) (quant : List AnnotP) (metadata : List Entry)
    (hwf : wfGraph outer (.mk name doc nodes inits inputs outputs vis quant metadata) = true)
    (hmeta : noValueMeta (.mk name doc nodes inits inputs outputs vis quant metadata) = true)
    (hcanon : canonTensors (.mk name doc nodes inits inputs outputs vis quant metadata) = true)
    (hnodes : ∀ tbl : List IRValue, wfNodes (tableNames tbl :: outer) nodes = true →
      ∃ xs, desNodes outer vis quant nodes tbl = .ok (xs, tbl) ∧ okNodes (tbl.length :: lens) xs = true) :
    ∃ g, desGraph outer (.mk name doc nodes inits inputs outputs vis quant metadata) = .ok g ∧
      okG lens g = true := by
  obtain ⟨hw, hwn⟩ := graphWF_of_wf outer name doc nodes inits inputs outputs vis quant metadata hwf
  have hNpre := tableNames_tblPre (inits := inits) (inputs := inputs) (vis := vis) (quant := quant)
    (outs := nodeOutNames nodes)
  have hnd := hw.nodupNames
  simp only [scopeNames] at hnd
  rw [List.nodup_append] at hnd
  obtain ⟨hndAB, hndC, hdisC⟩ := hnd
  rw [List.nodup_append] at hndAB
  obtain ⟨hndA, _hndB, _hdisB⟩ := hndAB
  have hA := desGraphInputs_eq quant inputs hw.wfIn
  have hwfT : inits.all wfTensor = true := by
    rw [List.all_eq_true]
    intro p hp
    have := List.all_eq_true.1 hw.wfInit p hp
    simp only [Bool.and_eq_true] at this
    exact this.1
  have hT := desTensors_eq inits hwfT
  have hne : ∀ p ∈ inits, p.name ≠ "" := by
    intro p hp
    apply hw.nonempty
    by_cases hin : p.name ∈ inputs.map (·.name)
    · exact mem_scopeNames.2 (Or.inl hin)
    · exact mem_scopeNames.2 (Or.inr (Or.inl ⟨List.mem_map_of_mem hp, hin⟩))
  obtain ⟨idxs, hB, hidx⟩ := desInitializers_spec vis quant hw.wfVis inits (inputs.map (inputValT quant))
    hw.wfInit hne hw.nodupInit (by rw [tableNames_inputVals]; exact hndA)
  rw [tableNames_inputVals] at hB hidx
  have hNB : tableNames ((inputs.map (inputValT quant)).map (constFrom inits)
      ++ (newInits (inputs.map (·.name)) inits).map (initValT vis quant))
      = inputs.map (·.name) ++ (inits.map (·.name)).filter (fun n => !(inputs.map (·.name)).contains n) := by
    simp only [tableNames, List.map_append, List.map_map]
    congr 1
    · apply List.map_congr_left; intro vi _; simp
    · rw [← newInits_names]
      apply List.map_congr_left; intro p _; simp
  have hC := declareAll_spec vis quant hw.wfVis nodes
    ((inputs.map (inputValT quant)).map (constFrom inits)
      ++ (newInits (inputs.map (·.name)) inits).map (initValT vis quant))
    (by intro n hn hm; rw [hNB] at hm; exact hdisC n hm n hn rfl) hndC
  have hpre : (inputs.map (inputValT quant)).map (constFrom inits)
      ++ (newInits (inputs.map (·.name)) inits).map (initValT vis quant)
      ++ (nodeOutNames nodes).map (newValueT vis quant)
      = tblPre inits inputs vis quant (nodeOutNames nodes) := rfl
  rw [hpre] at hC
  obtain ⟨xs, hD1, hokN⟩ := hnodes (tblPre inits inputs vis quant (nodeOutNames nodes))
    (by rw [hNpre]; exact hwn)
  have hE := desGraphOutputs_spec outputs (tblPre inits inputs vis quant (nodeOutNames nodes))
    hw.wfOut hw.consOut (by rw [hNpre]; exact hw.nodupNames)
  have hEf : (tblPre inits inputs vis quant (nodeOutNames nodes)).map (outUpd outputs)
      = tblFinal inits inputs outputs vis quant (nodeOutNames nodes) := rfl
  rw [hEf] at hE
  have hidx' : idxs.map some = inits.map (fun p => lookupLast
      (scopeNames (inputs.map (·.name)) (inits.map (·.name)) (nodeOutNames nodes)) p.name) := by
    rw [hidx, hNB]
    apply List.map_congr_left
    intro p hp
    simp only [scopeNames]
    symm
    apply lookupLast_append_left
    intro hm
    have hpAB : p.name ∈ inputs.map (·.name)
        ++ (inits.map (·.name)).filter (fun n => !(inputs.map (·.name)).contains n) := by
      by_cases hin : p.name ∈ inputs.map (·.name)
      · exact List.mem_append_left _ hin
      · refine List.mem_append_right _ (List.mem_filter.2 ⟨List.mem_map_of_mem hp, by simpa using hin⟩)
    exact hdisC _ hpAB _ hm rfl
  have hlenF : (tblFinal inits inputs outputs vis quant (nodeOutNames nodes)).length
      = (tblPre inits inputs vis quant (nodeOutNames nodes)).length := by simp [tblFinal]
  have hlenN : (scopeNames (inputs.map (·.name)) (inits.map (·.name)) (nodeOutNames nodes)).length
      = (tblFinal inits inputs outputs vis quant (nodeOutNames nodes)).length := by
    rw [← tableNames_tblFinal (inits := inits) (inputs := inputs) (outputs := outputs) (vis := vis)
      (quant := quant)]
    simp [tableNames]
  have hidxlt : ∀ i ∈ dedupNat idxs, i < (tblFinal inits inputs outputs vis quant (nodeOutNames nodes)).length := by
    intro i hi
    have hi' : i ∈ idxs := by
      clear hB hidx hidx'
      induction idxs with
      | nil => simp [dedupNat] at hi
      | cons a r ih =>
        simp only [dedupNat, List.mem_cons, List.mem_filter] at hi
        rcases hi with h1 | h1
        · simp [h1]
        · exact List.mem_cons_of_mem _ (ih h1.1)
    have : some i ∈ idxs.map some := List.mem_map_of_mem hi'
    rw [hidx'] at this
    obtain ⟨p, _, hp⟩ := List.mem_map.1 this
    have := lookupLast_lt hp
    rw [hlenN] at this
    exact this
  refine ⟨IRGraph.mk (tblFinal inits inputs outputs vis quant (nodeOutNames nodes))
      (List.range inputs.length) (dedupNat idxs) xs
      (outputs.map (gOutT (tableNames (tblPre inits inputs vis quant (nodeOutNames nodes)))))
      name doc [] (dictOfEntries metadata),
    by simp only [desGraph, hA, hT, hB, hC, hD1, hE, bind, Except.bind], ?_⟩
  -- the side conditions
  simp only [noValueMeta, GraphP.inputs, GraphP.outputs, GraphP.valueInfo, Bool.and_eq_true] at hmeta
  obtain ⟨⟨hm1, hm2⟩, hm3⟩ := hmeta
  simp only [canonTensors, GraphP.initializers] at hcanon
  have hIn : ∀ vi ∈ inputs, wfType vi.type = true ∧ vi.metadata = [] := by
    intro vi hvi
    have a := List.all_eq_true.1 hw.wfIn vi hvi
    have b := List.all_eq_true.1 hm1 vi hvi
    simp only [wfVI, Bool.and_eq_true] at a
    exact ⟨a.1, by simpa using b⟩
  have hOut : ∀ vi ∈ outputs, wfType vi.type = true ∧ vi.metadata = [] := by
    intro vi hvi
    have a := List.all_eq_true.1 hw.wfOut vi hvi
    have b := List.all_eq_true.1 hm2 vi hvi
    simp only [wfVI, Bool.and_eq_true] at a
    exact ⟨a.1, by simpa using b⟩
  have hVis : ∀ vi ∈ vis, wfType vi.type = true ∧ vi.metadata = [] := by
    intro vi hvi
    have a := List.all_eq_true.1 hw.wfVis vi hvi
    have b := List.all_eq_true.1 hm3 vi hvi
    simp only [wfVI, Bool.and_eq_true] at a
    exact ⟨a.1, by simpa using b⟩
  have hTs : ∀ p ∈ inits, wfTensor p = true ∧ validDType p.dataType = true ∧ normTensor p = p := by
    intro p hp
    have a := List.all_eq_true.1 hw.wfInit p hp
    have b := List.all_eq_true.1 hcanon p hp
    simp only [Bool.and_eq_true] at a
    exact ⟨a.1, a.2, by simpa using b⟩
  have hpreOK : ∀ v ∈ tblPre inits inputs vis quant (nodeOutNames nodes), OKv v := by
    intro v hv
    simp only [tblPre, List.mem_append, List.mem_map] at hv
    rcases hv with (⟨w, ⟨vi, hvi, rfl⟩, rfl⟩ | ⟨p, hp, rfl⟩) | ⟨n, _, rfl⟩
    · apply OKv_constFrom _ hTs
      unfold inputValT
      apply OKv_applyQuant
      obtain ⟨a, b⟩ := hIn vi hvi
      exact OKv_applyInfoT rfl rfl a b
    · have hp' : p ∈ inits := (List.mem_filter.1 hp).1
      obtain ⟨a, b, c⟩ := hTs p hp'
      exact OKv_initValT hVis a b c
    · exact OKv_newValueT n hVis
  have htblOK : ∀ v ∈ tblFinal inits inputs outputs vis quant (nodeOutNames nodes), (valOK v && tensOK v) = true := by
    intro v hv
    simp only [tblFinal, List.mem_map] at hv
    obtain ⟨x, hx, rfl⟩ := hv
    exact (OKv_outUpd (hpreOK x hx) hOut).val
  simp only [okG, Bool.and_eq_true]
  refine ⟨⟨⟨⟨List.all_eq_true.2 htblOK, ?_⟩, ?_⟩, ?_⟩, ?_⟩
  · rw [List.all_eq_true]
    intro i hi
    have : i < inputs.length := List.mem_range.1 hi
    have h2 : inputs.length ≤ (tblFinal inits inputs outputs vis quant (nodeOutNames nodes)).length := by
      simp [tblFinal, tblPre]
    exact decide_eq_true (by omega)
  · rw [List.all_eq_true]
    intro i hi
    exact decide_eq_true (hidxlt i hi)
  · rw [hlenF]
    exact hokN
  · rw [List.all_map, List.all_eq_true]
    intro vo hvo
    simp only [Function.comp, gOutT]
    cases hl : lookupLast (tableNames (tblPre inits inputs vis quant (nodeOutNames nodes))) vo.name with
    | some i =>
      have := lookupLast_lt hl
      rw [hNpre, hlenN] at this
      simp [goutOK, this]
    | none =>
      obtain ⟨a, b⟩ := hOut vo hvo
      have := OKv_applyInfoT (v := IRValue.blank vo.name) rfl rfl a b
      simp only [goutOK]
      exact valOK_of_RT this.mp this.rt

/-! ## the mutual induction -/

mutual
theorem attr_gok (scN : Scopes) (lens : List Nat) (hl : lens = scN.map List.length) :
    ∀ a : AttrP, wfAttr scN a = true → allAttr noValueMeta a = true → allAttr canonTensors a = true →
    ∃ x, desAttr scN a = .ok x ∧ okAttr lens x = true ∧ x.name = a.name
  | .ref n d r t, h, _, _ => attr_gok_leaf scN lens _ rfl h
  | .int n d i, h, _, _ => attr_gok_leaf scN lens _ rfl h
  | .float n d b, h, _, _ => attr_gok_leaf scN lens _ rfl h
  | .string n d s, h, _, _ => attr_gok_leaf scN lens _ rfl h
  | .ints n d xs, h, _, _ => attr_gok_leaf scN lens _ rfl h
  | .floats n d xs, h, _, _ => attr_gok_leaf scN lens _ rfl h
  | .strings n d xs, h, _, _ => attr_gok_leaf scN lens _ rfl h
  | .tensor n d t, h, _, _ => attr_gok_leaf scN lens _ rfl h
  | .tensors n d ts, h, _, _ => attr_gok_leaf scN lens _ rfl h
  | .typeProto n d tp, h, _, _ => attr_gok_leaf scN lens _ rfl h
  | .typeProtos n d tps, h, _, _ => attr_gok_leaf scN lens _ rfl h
  | .undefined _ _, h, _, _ => by simp [wfAttr] at h
  | .sparse _ _ _, h, _, _ => by simp [wfAttr] at h
  | .unknown _ _ _, h, _, _ => by simp [wfAttr] at h
  | .graph n d g, h, h1, h2 => by
    simp only [wfAttr] at h
    simp only [allAttr] at h1 h2
    obtain ⟨x, g1, g2⟩ := graph_gok scN lens hl g h h1 h2
    exact ⟨.graph n d x, by simp [desAttr, g1, bind, Except.bind], by simpa [okAttr] using g2, rfl⟩
  | .graphs n d gs, h, h1, h2 => by
    simp only [wfAttr] at h
    simp only [allAttr] at h1 h2
    obtain ⟨xs, g1, g2⟩ := graphs_gok scN lens hl gs h h1 h2
    exact ⟨.graphs n d xs, by simp [desAttr, g1, bind, Except.bind], by simpa [okAttr] using g2, rfl⟩

theorem graphs_gok (scN : Scopes) (lens : List Nat) (hl : lens = scN.map List.length) :
    ∀ gs : List GraphP, wfGraphs scN gs = true → allGs noValueMeta gs = true → allGs canonTensors gs = true →
    ∃ xs, desGraphs scN gs = .ok xs ∧ okGs lens xs = true
  | [], _, _, _ => ⟨[], rfl, by simp [okGs]⟩
  | g :: gs, h, h1, h2 => by
    simp only [wfGraphs, Bool.and_eq_true] at h
    simp only [allGs, Bool.and_eq_true] at h1 h2
    obtain ⟨x, g1, g2⟩ := graph_gok scN lens hl g h.1 h1.1 h2.1
    obtain ⟨xs, e1, e2⟩ := graphs_gok scN lens hl gs h.2 h1.2 h2.2
    exact ⟨x :: xs, by simp [desGraphs, g1, e1, bind, Except.bind], by simp [okGs, g2, e2]⟩

theorem attrs_gok (scN : Scopes) (lens : List Nat) (hl : lens = scN.map List.length) :
    ∀ as : List AttrP, wfAttrs scN as = true → allAttrs noValueMeta as = true → allAttrs canonTensors as = true →
    ∃ xs, desAttrs scN as = .ok xs ∧ okAttrs lens xs = true ∧ xs.map IRAttr.name = as.map AttrP.name
  | [], _, _, _ => ⟨[], rfl, by simp [okAttrs], rfl⟩
  | a :: as, h, h1, h2 => by
    simp only [wfAttrs, Bool.and_eq_true] at h
    simp only [allAttrs, Bool.and_eq_true] at h1 h2
    obtain ⟨x, g1, g2, g3⟩ := attr_gok scN lens hl a h.1 h1.1 h2.1
    obtain ⟨xs, e1, e2, e3⟩ := attrs_gok scN lens hl as h.2 h1.2 h2.2
    exact ⟨x :: xs, by simp [desAttrs, g1, e1, bind, Except.bind], by simp [okAttrs, g2, e2], by simp [g3, e3]⟩

theorem node_gok (outer : Scopes) (lens : List Nat) (hl : lens = outer.map List.length) (vis : List ValueInfoP)
    (q : List AnnotP) :
    ∀ (n : NodeP) (tbl : List IRValue), wfNode (tableNames tbl :: outer) n = true →
    allNode noValueMeta n = true → allNode canonTensors n = true →
    ∃ x, desNode outer vis q tbl n = .ok (x, tbl) ∧ okNode (tbl.length :: lens) x = true
  | .mk inputs outputs name opType domain overload doc attrs metadata devcfgs, tbl, hw, h1, h2 =>
    node_gok_core outer lens hl vis q tbl inputs outputs name opType domain overload doc attrs metadata devcfgs hw
      (fun hwa => attrs_gok (tableNames tbl :: outer) (tbl.length :: lens) (by simp [hl, tableNames]) attrs hwa
        (by simpa [allNode] using h1) (by simpa [allNode] using h2))

theorem nodes_gok (outer : Scopes) (lens : List Nat) (hl : lens = outer.map List.length) (vis : List ValueInfoP)
    (q : List AnnotP) :
    ∀ (ns : List NodeP) (tbl : List IRValue), wfNodes (tableNames tbl :: outer) ns = true →
    allNodes noValueMeta ns = true → allNodes canonTensors ns = true →
    ∃ xs, desNodes outer vis q ns tbl = .ok (xs, tbl) ∧ okNodes (tbl.length :: lens) xs = true
  | [], tbl, _, _, _ => ⟨[], rfl, by simp [okNodes]⟩
  | n :: ns, tbl, hw, h1, h2 => by
    simp only [wfNodes, Bool.and_eq_true] at hw
    simp only [allNodes, Bool.and_eq_true] at h1 h2
    obtain ⟨x, g1, g2⟩ := node_gok outer lens hl vis q n tbl hw.1 h1.1 h2.1
    obtain ⟨xs, e1, e2⟩ := nodes_gok outer lens hl vis q ns tbl hw.2 h1.2 h2.2
    exact ⟨x :: xs, by simp [desNodes, g1, e1, bind, Except.bind], by simp [okNodes, g2, e2]⟩

theorem graph_gok (outer : Scopes) (lens : List Nat) (hl : lens = outer.map List.length) :
    ∀ p : GraphP, wfGraph outer p = true → allG noValueMeta p = true → allG canonTensors p = true →
    ∃ g, desGraph outer p = .ok g ∧ okG lens g = true
  | .mk name doc nodes inits inputs outputs vis quant metadata, hw, h1, h2 => by
    simp only [allG, Bool.and_eq_true] at h1 h2
    exact graph_gok_core outer lens name doc nodes inits inputs outputs vis quant metadata hw h1.1 h2.1
      (fun tbl hwn => nodes_gok outer lens hl vis quant nodes tbl hwn h1.2 h2.2)
end

/-- a graph of the fragment with a nested graph: the `then` branch of an `If` reads the outer value `x` -/
def exampleNested : GraphP :=
  .mk "g" "" [.mk ["c"] ["y"] "n" "If" "" "" ""
      [.graph "then_branch" ""
        (.mk "t" "" [.mk ["x", "w"] ["z", ""] "a" "Add" "" "" "" [] [] []]
          [{ emptyTensorP with name := "w", dataType := 1, dims := [2] }] []
          [⟨"z", .tensor (some 1) none "", "", []⟩] [] [] [])] [] []]
    []
    [⟨"c", .tensor (some 9) none "", "", []⟩, ⟨"x", .tensor (some 1) (some [⟨.value 2, ""⟩]) "", "", []⟩]
    [⟨"y", .tensor (some 1) none "", "doc", []⟩] [] [] []

example : sharedSFull exampleNested = true := by decide

end IrVerif.Bridge

namespace IrVerif.Scope
open IrVerif.Proto

/-- on the fragment `sharedSFull` every graph C02 deserializes satisfies the hypothesis `GOKFull` of
    `C03_bridge_serialize` -/
theorem C03_bridge_gok_full (p : Proto.GraphP) (h : Bridge.sharedSFull p = true) (g : Serde.IRGraph)
    (hg : Serde.desGraph [] p = .ok g) : Bridge.GOKFull g = true := by
  simp only [Bridge.sharedSFull, Bridge.noValueMetaFull, Bridge.canonTensorsFull, Bool.and_eq_true] at h
  obtain ⟨x, e, hok⟩ := Bridge.graph_gok [] [] rfl p h.1.1 h.1.2 h.2
  rw [hg] at e
  cases e
  exact hok

/-- **C02 bridge, both directions, nested graphs included**: for every proto `p` of the decidable fragment
    `sharedSFull` (C02's `wfGraph`; no value-level metadata_props and initializer tensors in canonical form in the
    graph and in every nested graph) the Scope model deserializes `absGFull p` to the abstraction of C02's IR and
    serializes it to `absGFull` of C02's documented normal form `normGraph p` (`C02_graph`). -/
theorem C03_bridge_serde (p : Proto.GraphP) (h : Bridge.sharedSFull p = true) :
    ∃ g w w', Serde.desGraph [] p = .ok g ∧ Serde.serGraph [] none g = .ok (Serde.normGraph p) ∧
      deserialize (Bridge.absGFull p) = .ok w ∧ Bridge.coreOf w = Bridge.absIRFull g ∧
      serialize w = .ok (w', Bridge.absGFull (Serde.normGraph p)) := by
  have hwf : Serde.wfGraph [] p = true := by
    simp only [Bridge.sharedSFull, Bool.and_eq_true] at h; exact h.1.1
  obtain ⟨g, w, h1, h2, h3⟩ := C03_bridge_deserialize p hwf
  obtain ⟨x, r1, r2⟩ := Serde.graph_rt [] none p hwf (Or.inl rfl)
  rw [h1] at r1
  cases r1
  obtain ⟨w', h4⟩ := C03_bridge_serialize g none _ w (C03_bridge_gok_full p h g h1) r2 h3
  exact ⟨g, w, w', h1, r2, h2, h3, h4⟩

end IrVerif.Scope

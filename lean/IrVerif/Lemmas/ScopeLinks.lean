/-
Exact effect of `mkNode` (`_core.Node.__init__`) and `mkGraph` (`_core.Graph.__init__`) on the store.
-/
import IrVerif.Lemmas.ScopeFrame
namespace IrVerif.Scope

/-! ### addUses -/

/-- the input slots of node `nid` (numbered from `i`) that hold `v` -/
def slotsOf (v nid : Nat) : Nat → List (Option Nat) → List (Nat × Nat)
  | _, [] => []
  | i, none :: r => slotsOf v nid (i + 1) r
  | i, some w :: r => if w = v then (nid, i) :: slotsOf v nid (i + 1) r else slotsOf v nid (i + 1) r

@[simp] theorem addUses_nv (st : Store) (nid i : Nat) (ins : List (Option Nat)) :
    (addUses st nid i ins).nv = st.nv := by
  induction ins generalizing st i with
  | nil => rfl
  | cons a r ih => cases a <;> simp [addUses, ih]

@[simp] theorem addUses_nn (st : Store) (nid i : Nat) (ins : List (Option Nat)) :
    (addUses st nid i ins).nn = st.nn := by
  induction ins generalizing st i with
  | nil => rfl
  | cons a r ih => cases a <;> simp [addUses, ih]

@[simp] theorem addUses_ng (st : Store) (nid i : Nat) (ins : List (Option Nat)) :
    (addUses st nid i ins).ng = st.ng := by
  induction ins generalizing st i with
  | nil => rfl
  | cons a r ih => cases a <;> simp [addUses, ih]

theorem addUses_vals (st : Store) (nid i : Nat) (ins : List (Option Nat)) (v : Nat) :
    (addUses st nid i ins).vals v =
      { st.vals v with uses := (st.vals v).uses ++ slotsOf v nid i ins } := by
  induction ins generalizing st i with
  | nil => simp [addUses, slotsOf]
  | cons a r ih =>
    cases a with
    | none => simp [addUses, slotsOf, ih]
    | some w =>
      simp only [addUses, slotsOf]
      rw [ih]
      by_cases h : w = v
      · subst h; simp
      · have : v ≠ w := fun e => h e.symm
        simp [modify_vals, this, h]

/-! ### setProducers -/

@[simp] theorem setProducers_nv (st : Store) (nid i : Nat) (outs : List Nat) :
    (setProducers st nid i outs).nv = st.nv := by
  induction outs generalizing st i with
  | nil => rfl
  | cons a r ih => simp [setProducers, ih]

@[simp] theorem setProducers_nn (st : Store) (nid i : Nat) (outs : List Nat) :
    (setProducers st nid i outs).nn = st.nn := by
  induction outs generalizing st i with
  | nil => rfl
  | cons a r ih => simp [setProducers, ih]

@[simp] theorem setProducers_ng (st : Store) (nid i : Nat) (outs : List Nat) :
    (setProducers st nid i outs).ng = st.ng := by
  induction outs generalizing st i with
  | nil => rfl
  | cons a r ih => simp [setProducers, ih]

theorem setProducers_not_mem (st : Store) (nid i : Nat) (outs : List Nat) (v : Nat) (h : v ∉ outs) :
    (setProducers st nid i outs).vals v = st.vals v := by
  induction outs generalizing st i with
  | nil => rfl
  | cons a r ih =>
    simp only [List.mem_cons, not_or] at h
    simp only [setProducers]
    rw [ih _ _ h.2, modify_vals_ne _ _ _ h.1]

theorem setProducers_mem (st : Store) (nid i : Nat) (outs : List Nat) (hn : outs.Nodup) (k v : Nat)
    (hk : outs[k]? = some v) :
    (setProducers st nid i outs).vals v =
      { st.vals v with producer := some nid, index := some (i + k) } := by
  induction outs generalizing st i k with
  | nil => simp at hk
  | cons a r ih =>
    simp only [List.nodup_cons] at hn
    simp only [setProducers]
    cases k with
    | zero =>
      simp only [List.getElem?_cons_zero, Option.some.injEq] at hk
      subst hk
      rw [setProducers_not_mem _ _ _ _ _ hn.1]
      simp
    | succ k =>
      simp only [List.getElem?_cons_succ] at hk
      rw [ih _ _ hn.2 k hk]
      have hne : v ≠ a := by
        intro e; subst e
        exact hn.1 (List.mem_of_getElem? hk)
      rw [modify_vals_ne _ _ _ hne]
      have : i + 1 + k = i + (k + 1) := by omega
      simp [this]

/-! ### mkNode -/

theorem mkNode_fst_nv (st : Store) (ins : List (Option Nat)) (outs : List Nat) (gs : List GraphT) :
    (mkNode st ins outs gs).1.nv = st.nv := by simp [mkNode]
theorem mkNode_fst_nn (st : Store) (ins : List (Option Nat)) (outs : List Nat) (gs : List GraphT) :
    (mkNode st ins outs gs).1.nn = st.nn + 1 := by simp [mkNode]
theorem mkNode_fst_ng (st : Store) (ins : List (Option Nat)) (outs : List Nat) (gs : List GraphT) :
    (mkNode st ins outs gs).1.ng = st.ng := by simp [mkNode]
theorem mkNode_snd (st : Store) (ins : List (Option Nat)) (outs : List Nat) (gs : List GraphT) :
    (mkNode st ins outs gs).2 = .mk st.nn none ins outs gs := by simp [mkNode]

/-- the cell of `v` after `mkNode`: uses extended by the node's input slots; producer / index set
    when `v` is an output. -/
theorem mkNode_vals (st : Store) (ins : List (Option Nat)) (outs : List Nat) (gs : List GraphT) (v : Nat) :
    (mkNode st ins outs gs).1.vals v =
      { (setProducers st st.nn 0 outs).vals v with
        uses := ((setProducers st st.nn 0 outs).vals v).uses ++ slotsOf v st.nn 0 ins } := by
  simp only [mkNode]
  exact addUses_vals _ _ _ _ _

theorem setProducers_uses (st : Store) (nid i : Nat) (outs : List Nat) (v : Nat) :
    ((setProducers st nid i outs).vals v).uses = (st.vals v).uses := by
  induction outs generalizing st i with
  | nil => rfl
  | cons a r ih =>
    simp only [setProducers]
    rw [ih, modify_vals]
    split <;> rfl

/-- fields that `mkNode` never touches -/
theorem mkNode_keeps (st : Store) (ins : List (Option Nat)) (outs : List Nat) (gs : List GraphT) (v : Nat) :
    let c' := (mkNode st ins outs gs).1.vals v
    let c := st.vals v
    c'.name = c.name ∧ c'.info = c.info ∧ c'.const = c.const ∧ c'.graph = c.graph ∧ c'.isIn = c.isIn ∧
      c'.isOut = c.isOut ∧ c'.isInit = c.isInit := by
  have key : ∀ (outs : List Nat) (st : Store) (i : Nat),
      let c' := (setProducers st st.nn i outs).vals v
      let c := st.vals v
      c'.name = c.name ∧ c'.info = c.info ∧ c'.const = c.const ∧ c'.graph = c.graph ∧ c'.isIn = c.isIn ∧
        c'.isOut = c.isOut ∧ c'.isInit = c.isInit := by
    intro outs
    induction outs with
    | nil => intro st i; simp [setProducers]
    | cons a r ih =>
      intro st i
      simp only [setProducers]
      have := ih (st.modify a fun c => { c with producer := some st.nn, index := some i }) (i + 1)
      simp only [modify_nn] at this
      rw [modify_vals] at this
      split at this <;> simpa using this
  rw [mkNode_vals]
  simpa using key outs st 0

/-! ### setOwner / mkGraph -/

theorem setOwner_counters (st : Store) (gid : Nat) (f : ValueS → ValueS) (vs : List Nat) :
    (setOwner st gid f vs).nv = st.nv ∧ (setOwner st gid f vs).nn = st.nn ∧
    (setOwner st gid f vs).ng = st.ng := by
  induction vs generalizing st with
  | nil => simp [setOwner]
  | cons a r ih => simp [setOwner, ih]

theorem setOwner_not_mem (st : Store) (gid : Nat) (f : ValueS → ValueS) (vs : List Nat) (v : Nat)
    (h : v ∉ vs) : (setOwner st gid f vs).vals v = st.vals v := by
  induction vs generalizing st with
  | nil => rfl
  | cons a r ih =>
    simp only [List.mem_cons, not_or] at h
    simp only [setOwner]
    rw [ih _ h.2, modify_vals_ne _ _ _ h.1]

/-- `setOwner` with an idempotent flag setter: listed cells get the flag and the owner -/
theorem setOwner_mem (st : Store) (gid : Nat) (f : ValueS → ValueS)
    (hf : ∀ c, f { f c with graph := some gid } = { f c with graph := some gid })
    (vs : List Nat) (v : Nat) (h : v ∈ vs) :
    (setOwner st gid f vs).vals v = { f (st.vals v) with graph := some gid } := by
  induction vs generalizing st with
  | nil => simp at h
  | cons a r ih =>
    simp only [setOwner]
    by_cases hr : v ∈ r
    · rw [ih _ hr, modify_vals]
      split
      · rename_i e; subst e; rw [hf]
      · rfl
    · simp only [List.mem_cons] at h
      rcases h with rfl | h
      · rw [setOwner_not_mem _ _ _ _ _ hr]; simp
      · exact absurd h hr

theorem setOwner_name (st : Store) (gid : Nat) (f : ValueS → ValueS) (hf : ∀ c, (f c).name = c.name)
    (vs : List Nat) (v : Nat) : ((setOwner st gid f vs).vals v).name = (st.vals v).name := by
  induction vs generalizing st with
  | nil => rfl
  | cons a r ih =>
    simp only [setOwner]
    rw [ih, modify_vals]
    split
    · exact hf _
    · rfl

end IrVerif.Scope

/-
C14 (wave 5): 'names of kept objects are kept' along the four wave-5 kernel programs (fold inductions over
Lemmas/PassKernelNames.lean's one-call frame).
-/
import IrVerif.Lemmas.PassKernelNames
namespace IrVerif.PassKernel
open IrVerif.Kernel IrVerif.Kernel.World

/-- along a program started in `w0`: a value that had a name keeps exactly that name as long as the program issued no
    `Value.name = ...` for it; every call is one of the calls `nameTarget` knows; with `strict`: the only values the
    program renames are values that had no name at the start (values it created itself) -/
structure NInv (strict : Bool) (w0 : World) (s : KSt) : Prop where
  kept : ∀ u nm, (w0.val u).name = some nm → (∀ t, AnyOp.one (.setName u t) ∉ s.trace) → (s.w.val u).name = some nm
  cls : ∀ op ∈ s.trace, (nameTarget op).isSome = true
  tgt : strict = true → ∀ u t, AnyOp.one (.setName u t) ∈ s.trace → (w0.val u).name = none

theorem NInv.init (strict : Bool) (w : World) : NInv strict w ⟨w, false, []⟩ :=
  ⟨fun _ _ h _ => h, fun _ h => by simp at h, fun _ _ _ h => by simp at h⟩

theorem NInv.fail {strict : Bool} {w0 : World} {s : KSt} (h : NInv strict w0 s) : NInv strict w0 s.fail :=
  ⟨h.kept, h.cls, h.tgt⟩

theorem nameTarget_some {op : AnyOp} {u : Nat} (h : nameTarget op = some (some u)) : ∃ t, op = .one (.setName u t) := by
  unfold nameTarget at h
  split at h <;> simp only [Option.some.injEq, reduceCtorEq] at h
  subst h
  exact ⟨_, rfl⟩

theorem NInv.call_gen {strict : Bool} {w0 : World} {s : KSt} (h : NInv strict w0 s) (op : AnyOp)
    (hop : (nameTarget op).isSome = true)
    (ht : strict = true → ∀ u t, op = .one (.setName u t) → (w0.val u).name = none) : NInv strict w0 (s.call op) := by
  unfold KSt.call
  split
  · exact h
  · refine ⟨fun u nm hn hnot => ?_, fun o ho => ?_, fun hs u t hm => ?_⟩
    · have h1 := h.kept u nm hn (fun t ht => hnot t (List.mem_cons_of_mem _ ht))
      obtain ⟨x, hx⟩ := Option.isSome_iff_exists.1 hop
      refine stepAny_NK s.w op x hx u nm (fun hxu => ?_) h1
      subst hxu
      obtain ⟨t, rfl⟩ := nameTarget_some hx
      exact hnot t List.mem_cons_self
    · rcases List.mem_cons.1 ho with rfl | ho
      · exact hop
      · exact h.cls o ho
    · rcases List.mem_cons.1 hm with hm | hm
      · exact ht hs u t hm.symm
      · exact h.tgt hs u t hm

/-- a call that renames nothing -/
theorem NInv.call {strict : Bool} {w0 : World} {s : KSt} (h : NInv strict w0 s) (op : AnyOp)
    (hop : nameTarget op = some none) : NInv strict w0 (s.call op) :=
  h.call_gen op (by rw [hop]; rfl) (fun _ u t he => by subst he; simp [nameTarget] at hop)

/-- `Value.name = ...` in a program that is allowed to rename -/
theorem NInv.call_setName {w0 : World} {s : KSt} (h : NInv false w0 s) (v : Nat) (t : Option String) :
    NInv false w0 (s.call (.one (.setName v t))) :=
  h.call_gen _ rfl (fun hs => by simp at hs)

/-- `Value.name = ...` for a value that had no name at the start -/
theorem NInv.call_setName_new {strict : Bool} {w0 : World} {s : KSt} (h : NInv strict w0 s) (v : Nat) (t : Option String)
    (hv : (w0.val v).name = none) : NInv strict w0 (s.call (.one (.setName v t))) :=
  h.call_gen _ rfl (fun _ u t' he => by
    have : u = v := by injection he with he; injection he with he; exact he.symm
    subst this; exact hv)

/-- the id the next constructor call allocates belonged to no named value at the start -/
theorem NInv.fresh_unnamed {w0 : World} {s : KSt} (h : NInv true w0 s) : (w0.val s.w.vals.length).name = none := by
  cases hn : (w0.val s.w.vals.length).name with
  | none => rfl
  | some nm =>
    by_cases hex : ∃ t, AnyOp.one (.setName s.w.vals.length t) ∈ s.trace
    · obtain ⟨t, ht⟩ := hex
      rw [h.tgt rfl _ t ht] at hn; simp at hn
    · have := h.kept _ nm hn (fun t ht => hex ⟨t, ht⟩)
      rw [val_fresh s.w _ (Nat.le_refl _)] at this
      simp at this

theorem foldl_ninvP {σ β : Type} (strict : Bool) (w0 : World) (pr : σ → KSt) (f : σ → β → σ)
    (hf : ∀ s b, NInv strict w0 (pr s) → NInv strict w0 (pr (f s b))) :
    ∀ (l : List β) (s : σ), NInv strict w0 (pr s) → NInv strict w0 (pr (l.foldl f s))
  | [], _, h => h
  | b :: l, s, h => foldl_ninvP strict w0 pr f hf l (f s b) (hf s b h)

/-! ## CSE -/

theorem cseOutputsK_ninv (w0 : World) (s : KSt) (g n : Nat) (rvs nvs : List Nat) (h : NInv false w0 s) :
    NInv false w0 (cseOutputsK s g n rvs nvs) := by
  unfold cseOutputsK
  refine foldl_ninvP false w0 (fun p : KSt × List (Nat × Nat) => p.1) _ (fun p io hp => ?_) _ _ h
  dsimp only at hp ⊢
  split
  · exact hp
  · split
    · exact hp.call _ rfl
    · split
      · exact hp
      · split
        · exact (((hp.call _ rfl).call _ rfl).call _ rfl).call _ rfl
        · exact (hp.call_setName _ _).call _ rfl

theorem cseReplaceK_ninv (w0 : World) (exact : Bool) (s : KSt) (g n : Nat) (rvs nvs : List Nat) (h : NInv false w0 s) :
    NInv false w0 (cseReplaceK exact s g n rvs nvs) := by
  unfold cseReplaceK
  refine NInv.call (NInv.call ?_ _ (by cases exact <;> rfl)) _ rfl
  split
  · exact cseOutputsK_ninv w0 s g n rvs nvs h
  · exact h

theorem cseStepK_ninv (w0 : World) (exact : Bool) (akey : Nat → Option Nat) (g : Nat) (p : KSt × CseDict × Bool) (n : Nat)
    (h : NInv false w0 p.1) : NInv false w0 (cseStepK exact akey g p n).1 := by
  unfold cseStepK
  split
  · exact h
  · split
    · exact h
    · split
      · exact h
      · dsimp only
        split
        · exact cseReplaceK_ninv w0 exact p.1 g n _ _ h
        · exact h

theorem cseModelK_ninv (exact : Bool) (akey : Nat → Option Nat) (w : World) (g : Nat) :
    NInv false w (cseModelK exact akey w g).1 := by
  simp only [cseModelK]
  exact foldl_ninvP false w (fun p : KSt × CseDict × Bool => p.1) _
    (fun p n hp => cseStepK_ninv w exact akey g p n hp) _ _ (NInv.init false w)

/-! ## LiftConstants: renames only the values it creates -/

theorem lcNodeK_ninv (w0 : World) (liftAll : Bool) (big tnamed : Nat → Bool) (p : KSt × Nat) (n : Nat)
    (h : NInv true w0 p.1) : NInv true w0 (lcNodeK liftAll big tnamed p n).1 := by
  unfold lcNodeK
  split
  · exact h
  · split
    · exact h.fail
    · split
      · exact h
      · split
        · exact h.fail
        · split
          · exact h
          · split
            · split
              · exact h.fail
              · split
                · exact h.fail
                · exact h
                · split
                  · exact h
                  · dsimp only
                    refine NInv.call (NInv.call (NInv.call ?_ _ rfl) _ rfl) _ rfl
                    split
                    · exact ((h.call _ rfl).call _ rfl).call_setName_new _ _ h.fresh_unnamed
                    · exact (h.call _ rfl).call _ rfl
            · exact h

theorem lcGraphK_ninv (w0 : World) (liftAll : Bool) (big tnamed : Nat → Bool) :
    ∀ (fuel : Nat) (p : KSt × Nat) (g : Nat), NInv true w0 p.1 → NInv true w0 (lcGraphK liftAll big tnamed fuel p g).1
  | 0, _, _, h => h
  | fuel + 1, p, g, h => by
    simp only [lcGraphK]
    refine foldl_ninvP true w0 (fun p : KSt × Nat => p.1) _ (fun p n hp => ?_) _ p h
    refine foldl_ninvP true w0 (fun p : KSt × Nat => p.1) _ (fun p a hp => ?_) _ _ (lcNodeK_ninv w0 liftAll big tnamed p n hp)
    exact foldl_ninvP true w0 (fun p : KSt × Nat => p.1) _
      (fun p sub hp => lcGraphK_ninv w0 liftAll big tnamed fuel p sub hp) _ p hp

theorem lcModelK_ninv (liftAll : Bool) (big tnamed : Nat → Bool) (fuel : Nat) (w : World) (g : Nat) :
    NInv true w (lcModelK liftAll big tnamed fuel w g).1 :=
  lcGraphK_ninv w liftAll big tnamed fuel _ g (NInv.init true w)

/-! ## LiftSubgraphInitializers -/

theorem lsiInitK_ninv (w0 : World) (main g : Nat) (outN inN : List String) (p : KSt × List (String × Nat) × Nat)
    (key : String) (h : NInv false w0 p.1) : NInv false w0 (lsiInitK main g outN inN p key).1 := by
  unfold lsiInitK
  split
  · exact h
  · split
    · exact h.fail
    · split
      · exact h
      · split
        · exact h
        · dsimp only
          split
          · exact (h.call _ rfl).fail
          · exact ((h.call _ rfl).call_setName _ _).call _ rfl

theorem lsiModelK_ninv (fuel : Nat) (w : World) (g : Nat) : NInv false w (lsiModelK fuel w g).1 := by
  simp only [lsiModelK]
  refine foldl_ninvP false w (fun p : KSt × List (String × Nat) × Nat => p.1) _ (fun p sub hp => ?_) _ _ (NInv.init false w)
  exact foldl_ninvP false w (fun p : KSt × List (String × Nat) × Nat => p.1) _
    (fun p key hp => lsiInitK_ninv w g sub _ _ p key hp) _ p hp

/-! ## Deduplicate: renames nothing -/

theorem ddInitK_ninv (w0 : World) (hkey tkey : Nat → Option Nat) (g : Nat) (p : KSt × List (Nat × Nat) × Bool) (v : Nat)
    (h : NInv true w0 p.1) : NInv true w0 (ddInitK hkey tkey g p v).1 := by
  unfold ddInitK
  split
  · exact h
  · split
    · exact h
    · split
      · exact h
      · split
        · exact h
        · split
          · exact h
          · split
            · exact h
            · dsimp only
              split
              · exact (h.call _ rfl).fail
              · exact (h.call _ rfl).call _ rfl

theorem ddGraphK_ninv (w0 : World) (hkey tkey : Nat → Option Nat) (p : KSt × Bool) (g : Nat) (h : NInv true w0 p.1) :
    NInv true w0 (ddGraphK hkey tkey p g).1 := by
  simp only [ddGraphK]
  exact foldl_ninvP true w0 (fun p : KSt × List (Nat × Nat) × Bool => p.1) _
    (fun p v hp => ddInitK_ninv w0 hkey tkey g p v hp) _ _ h

theorem ddModelK_ninv (hkey tkey : Nat → Option Nat) (fuel : Nat) (w : World) (g : Nat) :
    NInv true w (ddModelK hkey tkey fuel w g).1 := by
  simp only [ddModelK]
  exact foldl_ninvP true w (fun p : KSt × Bool => p.1) _ (fun p sub hp => ddGraphK_ninv w hkey tkey p sub hp) _ _
    (ddGraphK_ninv w hkey tkey _ g (NInv.init true w))

/-- a strict program keeps the name of EVERY value that had one -/
theorem NInv.all_kept {w0 : World} {s : KSt} (h : NInv true w0 s) (u : Nat) (nm : String)
    (hn : (w0.val u).name = some nm) : (s.w.val u).name = some nm :=
  h.kept u nm hn (fun t ht => by rw [h.tgt rfl u t ht] at hn; simp at hn)

end IrVerif.PassKernel
